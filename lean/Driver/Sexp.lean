import PegVerif
/-
  Driver-side glue (not part of the model): S-expression reader for grammar ASTs.
  Atoms starting with `#` are hex-encoded UTF-8 strings (`#` alone is the empty string).
-/
namespace Peg.Driver
open Peg

inductive Sexp where
  | atom (s : String)
  | list (xs : List Sexp)
deriving Repr, Inhabited

def tokenize (s : String) : List String := Id.run do
  let mut toks : Array String := #[]
  let mut cur : String := ""
  for c in s.toList do
    if c == '(' || c == ')' then
      if cur != "" then toks := toks.push cur; cur := ""
      toks := toks.push (String.singleton c)
    else if c == ' ' || c == '\n' || c == '\t' || c == '\r' then
      if cur != "" then toks := toks.push cur; cur := ""
    else cur := cur.push c
  if cur != "" then toks := toks.push cur
  return toks.toList

def parseToks : List String → List (List Sexp) → Option Sexp
  | [], [[x]] => some x
  | [], _ => none
  | "(" :: ts, stack => parseToks ts ([] :: stack)
  | ")" :: ts, top :: next :: stack => parseToks ts ((Sexp.list top.reverse :: next) :: stack)
  | ")" :: _, _ => none
  | t :: ts, top :: stack => parseToks ts ((Sexp.atom t :: top) :: stack)
  | _ :: _, [] => none

def parseSexp (s : String) : Option Sexp := parseToks (tokenize s) [[]]

def hexNibble (c : Char) : Option Nat := hexVal c

def unhex : List Char → Option (List UInt8)
  | [] => some []
  | [_] => none
  | a :: b :: rest => do
    let x ← hexNibble a
    let y ← hexNibble b
    let r ← unhex rest
    pure (UInt8.ofNat (x * 16 + y) :: r)

def bytesToString (bs : List UInt8) : String :=
  match String.fromUTF8? (ByteArray.mk bs.toArray) with
  | some s => s
  | none => "<invalid utf8>"

/-- decode an atom into a string -/
def atomStr (s : String) : String :=
  match s.toList with
  | '#' :: hex => (match unhex hex with | some bs => bytesToString bs | none => s)
  | _ => s

def Sexp.str? : Sexp → Option String
  | .atom s => some (atomStr s)
  | _ => none

def Sexp.nat? : Sexp → Option Nat
  | .atom s => s.toNat?
  | _ => none

def Sexp.char? (x : Sexp) : Option Char := x.nat?.map Char.ofNat

def toItem : Sexp → Option StringItem
  | .list [.atom "c", n] => n.char?.map .chr
  | .list [.atom "x", a, b] => do pure (.hexa (← a.char?) (← b.char?))
  | .list [.atom "s", .atom k] =>
    (match k with
     | "n" => some (.simple .newline) | "r" => some (.simple .cr) | "t" => some (.simple .tab)
     | "b" => some (.simple .backslash) | "q" => some (.simple .quote) | "d" => some (.simple .dquote)
     | _ => none)
  | .list (.atom "u" :: ds) => (ds.mapM Sexp.char?).map .utf8
  | _ => none

partial def toExpr : Sexp → Option Expr
  | .list (.atom "choice" :: xs) => (xs.mapM toExpr).map .choice
  | .list (.atom "seq" :: xs) => (xs.mapM toExpr).map .seq
  | .list [.atom "group", x] => (toExpr x).map .group
  | .list [.atom "opt", x] => (toExpr x).map .opt
  | .list [.atom "star", x] => (toExpr x).map (.closure · false)
  | .list [.atom "plus", x] => (toExpr x).map (.closure · true)
  | .list [.atom "neg", x] => (toExpr x).map .neg
  | .list [.atom "pos", x] => (toExpr x).map .pos
  | .list [.atom "range", a, b] => do pure (.range (← toItem a) (← toItem b))
  | .list (.atom "lit" :: xs) => (xs.mapM toItem).map (.lit false)
  | .list (.atom "ilit" :: xs) => (xs.mapM toItem).map (.lit true)
  | .list [.atom "eoi"] => some .eoi
  | .list [.atom "incl", r] => r.str?.map .incl
  | .list [.atom "field", nm, b, t] => do
    let name ← match nm with
      | .atom "-" => some none
      | .atom "@" => some (some FieldName.override)
      | .list [.atom "id", n] => n.str?.map (fun s => some (FieldName.ident s))
      | _ => none
    let boxed ← match b with | .atom "1" => some true | .atom "0" => some false | _ => none
    pure (.field name boxed (← t.str?))
  | _ => none

def toPath : Sexp → Option (List String)
  | .list xs => xs.mapM Sexp.str?
  | _ => none

def toDirective : Sexp → Option Directive
  | .atom "string" => some .string
  | .atom "no_skip_ws" => some .noSkipWs
  | .atom "export" => some .export
  | .atom "position" => some .position
  | .atom "memoize" => some .memoize
  | .atom "leftrec" => some .leftrec
  | .list (.atom "check" :: p) => (p.mapM Sexp.str?).map .check
  | _ => none

def toCharPart : Sexp → Option CharRulePart
  | .list [.atom "range", a, b] => do pure (.range (← toItem a) (← toItem b))
  | .list [.atom "chr", a] => (toItem a).map .chr
  | .list [.atom "id", n] => n.str?.map .ident
  | _ => none

def toRuleEntry : Sexp → Option RuleEntry
  | .list [.atom "rule", .list (.atom "dirs" :: ds), nm, e] => do
    pure (.rule { directives := ← ds.mapM toDirective, name := ← nm.str?, definition := ← toExpr e })
  | .list [.atom "charrule", .list (.atom "checks" :: cs), nm, .list (.atom "parts" :: ps)] => do
    pure (.charRule { directives := ← cs.mapM toPath, name := ← nm.str?, choices := ← ps.mapM toCharPart })
  | .list [.atom "extern", .list (.atom "fn" :: f), ret, nm] => do
    let rt ← match ret with
      | .list [.atom "noret"] => some none
      | .list (.atom "ret" :: p) => (p.mapM Sexp.str?).map some
      | _ => none
    pure (.externRule { function := ← f.mapM Sexp.str?, returnType := rt, name := ← nm.str? })
  | _ => none

def toGrammar : Sexp → Option Grammar
  | .list (.atom "grammar" :: rs) => (rs.mapM toRuleEntry).map Grammar.mk
  | _ => none

end Peg.Driver

namespace Peg.Driver
open Peg

def isPlainAtom (s : String) : Bool :=
  !s.isEmpty && s.toList.all (fun c => c.isAlphanum || c == '_')

def showAtom (s : String) : String :=
  if isPlainAtom s then s else "#" ++ hexBytes s.toUTF8.toList

def showItem : StringItem → String
  | .chr c => s!"(c {c.toNat})"
  | .hexa a b => s!"(x {a.toNat} {b.toNat})"
  | .simple e => "(s " ++ (match e with
      | .newline => "n" | .cr => "r" | .tab => "t" | .backslash => "b" | .quote => "q" | .dquote => "d") ++ ")"
  | .utf8 ds => "(u " ++ " ".intercalate (ds.map fun d => toString d.toNat) ++ ")"

mutual
def showExpr : Expr → String
  | .choice xs => "(choice" ++ showExprs xs ++ ")"
  | .seq xs => "(seq" ++ showExprs xs ++ ")"
  | .group b => "(group " ++ showExpr b ++ ")"
  | .opt b => "(opt " ++ showExpr b ++ ")"
  | .closure b false => "(star " ++ showExpr b ++ ")"
  | .closure b true => "(plus " ++ showExpr b ++ ")"
  | .neg b => "(neg " ++ showExpr b ++ ")"
  | .pos b => "(pos " ++ showExpr b ++ ")"
  | .range a b => "(range " ++ showItem a ++ " " ++ showItem b ++ ")"
  | .lit ins body => "(" ++ (if ins then "ilit" else "lit") ++ String.join (body.map fun i => " " ++ showItem i) ++ ")"
  | .eoi => "(eoi)"
  | .incl r => "(incl " ++ showAtom r ++ ")"
  | .field nm bx typ =>
    "(field " ++ (match nm with
      | none => "-"
      | some .override => "@"
      | some (.ident n) => "(id " ++ showAtom n ++ ")") ++ " " ++ (if bx then "1" else "0") ++ " " ++ showAtom typ ++ ")"
def showExprs : List Expr → String
  | [] => ""
  | e :: es => " " ++ showExpr e ++ showExprs es
end

def showDirective : Directive → String
  | .string => "string" | .noSkipWs => "no_skip_ws" | .export => "export" | .position => "position"
  | .memoize => "memoize" | .leftrec => "leftrec"
  | .check p => "(check" ++ String.join (p.map fun x => " " ++ showAtom x) ++ ")"

def showRuleEntry : RuleEntry → String
  | .rule r => "(rule (dirs" ++ String.join (r.directives.map fun d => " " ++ showDirective d) ++ ") " ++ showAtom r.name ++ " " ++ showExpr r.definition ++ ")"
  | .charRule r =>
    "(charrule (checks" ++ String.join (r.directives.map fun c => " (" ++ " ".intercalate (c.map showAtom) ++ ")") ++ ") " ++
      showAtom r.name ++ " (parts " ++ " ".intercalate (r.choices.map fun p => match p with
        | .range a b => "(range " ++ showItem a ++ " " ++ showItem b ++ ")"
        | .chr a => "(chr " ++ showItem a ++ ")"
        | .ident n => "(id " ++ showAtom n ++ ")") ++ "))"
  | .externRule r =>
    "(extern (fn " ++ " ".intercalate (r.function.map showAtom) ++ ") " ++
      (match r.returnType with | some p => "(ret " ++ " ".intercalate (p.map showAtom) ++ ")" | none => "(noret)") ++ " " ++ showAtom r.name ++ ")"

def showGrammar (g : Grammar) : String := "(grammar " ++ " ".intercalate (g.rules.map showRuleEntry) ++ ")"

end Peg.Driver
