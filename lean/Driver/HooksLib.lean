import PegVerif
/-
  Driver-side: the fixed library of user functions used by the correspondence runs.  The same
  functions are implemented in Rust in harness/glue/hooks.rs.  `hooks::*` ignore the user context,
  `hooksc::*` are the two-parameter flavour (`&mut Ctx`), which count their invocations.
-/
namespace Peg.Driver
open Peg

def fnv1a (bs : List UInt8) : UInt32 :=
  bs.foldl (fun h b => (h ^^^ b.toUInt32) * 16777619) 2166136261

def strHash (s : String) : UInt32 := fnv1a s.toUTF8.toList

def takeWhileLen (p : UInt8 → Bool) : List UInt8 → Nat
  | [] => 0
  | b :: bs => if p b then takeWhileLen p bs + 1 else 0

def digitsVal (bs : List UInt8) : Nat := bs.foldl (fun a b => a * 10 + (b.toNat - 48)) 0

def splitPath (name : String) : String × String :=
  match name.splitOn "::" with
  | [m, f] => (m, f)
  | _ => ("", name)

def externFn (f : String) (rest : List UInt8) (u : Nat) : Except String (Val × Nat) :=
  match f with
  | "ext_probe" => .ok (.str [], 0)
  | "ext_ident" =>
    let n := takeWhileLen (fun b => 97 ≤ b && b ≤ 122) rest
    if n == 0 then .error "no ident" else .ok (.str (rest.take n), n)
  | "ext_two" =>
    (match decodeHead rest with
     | none => .error "short"
     | some c1 => match decodeHead (rest.drop c1.utf8Size) with
       | none => .error "short"
       | some c2 => let n := c1.utf8Size + c2.utf8Size; .ok (.str (rest.take n), n))
  | "ext_fail" => .error "always"
  | "ext_num" =>
    let n := takeWhileLen (fun b => 48 ≤ b && b ≤ 57) rest
    if n == 0 || n > 9 then .error "no num" else .ok (.ext "Num" (digitsVal (rest.take n)), n)
  | "ext_budget" =>
    -- succeeds (consuming one ASCII letter) only while the context counter is below 3
    (match rest with
     | b :: _ => if 97 ≤ b && b ≤ 122 && u < 3 then .ok (.str [b], 1) else .error "budget"
     | [] => .error "budget")
  | _ => .error "unknown extern"

def checkFn (f : String) (v : Val) (u : Nat) : Bool :=
  match f with
  | "chk_true" => true
  | "chk_false" => false
  | "chk_hash2" => strHash v.render % 2 == 0
  | "chk_hash3" => strHash v.render % 3 != 0
  | "chk_budget" => u < 4
  | _ => true

def charCheckFn (f : String) (c : Char) : Bool :=
  match f with
  | "cc_vowel" => "aeiouAEIOU".toList.contains c
  | "cc_not_x" => c != 'x'
  | "cc_ascii" => c.val < 128
  | "cc_false" => false
  | _ => true

def hooksLib : Hooks where
  extern name rest u :=
    let (m, f) := splitPath name
    (externFn f rest u, if m == "hooksc" then u + 1 else u)
  check name v u :=
    let (m, f) := splitPath name
    (checkFn f v u, if m == "hooksc" then u + 1 else u)
  charCheck name c := charCheckFn (splitPath name).2 c

end Peg.Driver
