import PegVerif
import Driver.Sexp
import Driver.HooksLib
/-
  Driver: line protocol.  `pegverif run <file>` evaluates the model on every case of the file.
-/
open Peg Peg.Driver

def renderChar (c : Char) : String := "C'" ++ hexNat c.toNat ++ "'"
def renderStr (cs : List Char) : String := "S\"" ++ hexBytes (enc cs) ++ "\""
def renderRawStr (s : String) : String := "S\"" ++ hexBytes s.toUTF8.toList ++ "\""

def Spec.render : Spec → String
  | .expectedAnyCharacter => "ExpectedAnyCharacter"
  | .expectedCharacter c => "ExpectedCharacter { c: " ++ renderChar c ++ " }"
  | .expectedCharacterRange a b => "ExpectedCharacterRange { from: " ++ renderChar a ++ ", to: " ++ renderChar b ++ " }"
  | .expectedString s => "ExpectedString { s: " ++ renderStr s ++ " }"
  | .expectedCharacterClass n => "ExpectedCharacterClass { name: " ++ renderRawStr n ++ " }"
  | .expectedEoi => "ExpectedEoi"
  | .negativeLookaheadFailed => "NegativeLookaheadFailed"
  | .checkFunctionFailed n => "CheckFunctionFailed { function_name: " ++ renderRawStr n ++ " }"
  | .externRuleFailed m => "ExternRuleFailed { error_string: " ++ renderRawStr m ++ " }"
  | .leftRecursionSentinel => "LeftRecursionSentinel"
  | .other => "Other"

def Ev.render : Ev → Option String
  | .traceStart r off => some s!"S:{r}@{off}"
  | .traceOk off => some s!"O:{off}"
  | .traceErr sp => some ("E:" ++ Spec.render sp)
  | .info m => some ("I:" ++ m)
  | .externCall f off u => some s!"X:{f}@{off}/{u}"
  | .checkCall f a u => some s!"K:{f}({a})/{u}"
  | .charCheckCall f c => some s!"C:{f}({hexNat c.toNat})"
  | .bodyEval _ _ => none

def Ev.ghost : Ev → Option String
  | .bodyEval r off => some s!"B:{r}@{off}"
  | _ => none

def renderLog (log : List Ev) : String := ";".intercalate (log.reverse.filterMap Ev.render)
def renderGhost (log : List Ev) : String := ";".intercalate (log.reverse.filterMap Ev.ghost)

def renderOut (o : Out Val) : String :=
  match o with
  | none => "FUEL"
  | some (.ok v s, g) => s!"OK\t{v.render}\t{s.off}\t{renderLog g.log}\t{renderGhost g.log}\t{g.uctx}"
  | some (.err e, g) => s!"ERR\t{e.pos}\t{Spec.render e.spec}\t{renderLog g.log}\t{renderGhost g.log}\t{g.uctx}"
  | some (.panic m, g) => s!"PANIC\t{m}\t\t{renderLog g.log}\t{renderGhost g.log}\t{g.uctx}"

structure Case where
  id : String
  env : Env
  fuel : Nat

def exprSize : Nat → Expr → Nat
  | 0, _ => 1
  | n+1, e => match e with
    | .choice xs => 1 + (xs.map (exprSize n)).sum
    | .seq xs => 1 + (xs.map (exprSize n)).sum
    | .group b => 1 + exprSize n b
    | .opt b => 1 + exprSize n b
    | .closure b _ => 1 + exprSize n b
    | .neg b => 1 + exprSize n b
    | .pos b => 1 + exprSize n b
    | _ => 1

def grammarSize (g : Grammar) : Nat :=
  (g.rules.map fun r => match r with | .rule r => 1 + exprSize 1000 r.definition | _ => 1).sum

def mkEnv (g : Grammar) (skip uctx : Bool) : Env :=
  { g := g, settings := { skipWhitespace := skip, hasUserContext := uctx }, hooks := hooksLib,
    nf := grammarSize g + 2 }

partial def runLoop (h : IO.FS.Stream) (out : IO.FS.Stream) (cur : Option Case) (idx : Nat) : IO Unit := do
  let line ← h.getLine
  if line.isEmpty then return ()
  let line := line.trimAscii.toString
  match line.splitOn " " with
  | ["G", id, skip, uctx, fuel] =>
    let sline ← h.getLine
    match parseSexp sline >>= toGrammar with
    | some g =>
      runLoop h out (some { id := id, env := mkEnv g (skip == "1") (uctx == "1"), fuel := fuel.toNat?.getD 10000 }) 0
    | none =>
      out.putStrLn s!"{id}\t-\tBADGRAMMAR"
      runLoop h out none 0
  | ["I", rule, hex, u] =>
    match cur with
    | none => runLoop h out cur (idx + 1)
    | some c =>
      let inp := if hex == "-" then some [] else unhex hex.toList
      match inp with
      | none => out.putStrLn s!"{c.id}\t{idx}\tBADINPUT"
      | some inp =>
        let o := parseAdvanced c.env c.fuel (atomStr rule) inp (u.toNat?.getD 0)
        out.putStrLn s!"{c.id}\t{idx}\t{renderOut o}"
      runLoop h out cur (idx + 1)
  | _ => runLoop h out cur idx

def main (args : List String) : IO UInt32 := do
  match args with
  | ["run", file] =>
    let h ← IO.FS.Handle.mk file .read
    let out ← IO.getStdout
    runLoop (IO.FS.Stream.ofHandle h) out none 0
    return 0
  | _ =>
    IO.eprintln "usage: pegverif run <file>"
    return 2
