import PegVerif
import Driver.Sexp
import Driver.HooksLib
/-
  Driver: line protocol.  `pegverif run <file>` evaluates the model on every case of the file.
-/
open Peg Peg.Driver

def renderChar (c : Char) : String := "C'" ++ hexNat c.toNat ++ "'"
def renderStr (cs : List Char) : String := "S\"" ++ hexBytes (enc cs) ++ "\""
def renderRawStr (s : String) : String := "S\"" ++ hexBytes s.toUTF8.toList ++ "\""

def Spec.render : Spec → String
  | .expectedAnyCharacter => "ExpectedAnyCharacter"
  | .expectedCharacter c => "ExpectedCharacter { c: " ++ renderChar c ++ " }"
  | .expectedCharacterRange a b => "ExpectedCharacterRange { from: " ++ renderChar a ++ ", to: " ++ renderChar b ++ " }"
  | .expectedString s => "ExpectedString { s: " ++ renderStr s ++ " }"
  | .expectedCharacterClass n => "ExpectedCharacterClass { name: " ++ renderRawStr n ++ " }"
  | .expectedEoi => "ExpectedEoi"
  | .negativeLookaheadFailed => "NegativeLookaheadFailed"
  | .checkFunctionFailed n => "CheckFunctionFailed { function_name: " ++ renderRawStr n ++ " }"
  | .externRuleFailed m => "ExternRuleFailed { error_string: " ++ renderRawStr m ++ " }"
  | .leftRecursionSentinel => "LeftRecursionSentinel"
  | .other => "Other"

def Ev.render : Ev → Option String
  | .traceStart r off => some s!"S:{r}@{off}"
  | .traceOk off => some s!"O:{off}"
  | .traceErr sp => some ("E:" ++ Spec.render sp)
  | .info m => some ("I:" ++ m)
  | .externCall f off u => some s!"X:{f}@{off}/{u}"
  | .checkCall f a u => some s!"K:{f}({a})/{u}"
  | .charCheckCall f c => some s!"C:{f}({hexNat c.toNat})"
  | .bodyEval _ _ => none

def Ev.ghost : Ev → Option String
  | .bodyEval r off => some s!"B:{r}@{off}"
  | _ => none

def renderLog (log : List Ev) : String := ";".intercalate (log.reverse.filterMap Ev.render)
def renderGhost (log : List Ev) : String := ";".intercalate (log.reverse.filterMap Ev.ghost)

def renderOut (o : Out Val) : String :=
  match o with
  | none => "FUEL"
  | some (.ok v s, g) => s!"OK\t{v.render}\t{s.off}\t{renderLog g.log}\t{renderGhost g.log}\t{g.uctx}"
  | some (.err e, g) => s!"ERR\t{e.pos}\t{Spec.render e.spec}\t{renderLog g.log}\t{renderGhost g.log}\t{g.uctx}"
  | some (.panic m, g) => s!"PANIC\t{m}\t\t{renderLog g.log}\t{renderGhost g.log}\t{g.uctx}"

structure Case where
  id : String
  env : Env
  fuel : Nat

def exprSize : Nat → Expr → Nat
  | 0, _ => 1
  | n+1, e => match e with
    | .choice xs => 1 + (xs.map (exprSize n)).sum
    | .seq xs => 1 + (xs.map (exprSize n)).sum
    | .group b => 1 + exprSize n b
    | .opt b => 1 + exprSize n b
    | .closure b _ => 1 + exprSize n b
    | .neg b => 1 + exprSize n b
    | .pos b => 1 + exprSize n b
    | _ => 1

def grammarSize (g : Grammar) : Nat :=
  (g.rules.map fun r => match r with | .rule r => 1 + exprSize 1000 r.definition | _ => 1).sum

def mkEnv (g : Grammar) (skip uctx : Bool) : Env :=
  { g := g, settings := { skipWhitespace := skip, hasUserContext := uctx }, hooks := hooksLib,
    nf := grammarSize g + 2 }

partial def runLoop (h : IO.FS.Stream) (out : IO.FS.Stream) (cur : Option Case) (idx : Nat) : IO Unit := do
  let line ← h.getLine
  if line.isEmpty then return ()
  let line := line.trimAscii.toString
  match line.splitOn " " with
  | ["G", id, skip, uctx, fuel] =>
    let sline ← h.getLine
    match parseSexp sline >>= toGrammar with
    | some g =>
      let env := mkEnv g (skip == "1") (uctx == "1")
      runLoop h out (some { id := id, env := env, fuel := fuel.toNat?.getD 10000 }) 0
    | none =>
      out.putStrLn s!"{id}\t-\tBADGRAMMAR"
      runLoop h out none 0
  | ["I", rule, hex, u] =>
    match cur with
    | none => runLoop h out cur (idx + 1)
    | some c =>
      let inp := if hex == "-" then some [] else unhex hex.toList
      match inp with
      | none => out.putStrLn s!"{c.id}\t{idx}\tBADINPUT"
      | some inp =>
        let o := parseAdvanced c.env c.fuel (atomStr rule) inp (u.toNat?.getD 0)
        out.putStrLn s!"{c.id}\t{idx}\t{renderOut o}"
      runLoop h out cur (idx + 1)
  | _ => runLoop h out cur idx

/-! ### unit operations (matchers, pretty errors, header) -/

def showRes {α} (render : α → String) : Res α → String
  | .ok v s => s!"OK {s.off} {render v}"
  | .err e => s!"ERR {e.pos} {Spec.render e.spec}"
  | .panic m => s!"PANIC {m}"

def bytesToChars (bs : List UInt8) : Option (List Char) :=
  (String.fromUTF8? (ByteArray.mk bs.toArray)).map String.toList

def unitOp (line : String) : String :=
  match line.trimAscii.toString.splitOn " " with
  | "m" :: name :: hexin :: off :: far :: args =>
    match (if hexin == "-" then some [] else unhex hexin.toList), off.toNat? with
    | some inp, some off =>
      let st : St := { rest := inp.drop off, off := off, far := far.toNat?.map (fun p => { pos := p, spec := .other }) }
      let chr := fun (a : String) => a.toNat?.map Char.ofNat
      let lit := fun (a : String) => (if a == "-" then some [] else unhex a.toList) >>= bytesToChars
      match name, args with
      | "char", _ => showRes renderChar (parseChar st)
      | "ws", _ => showRes (fun _ => "()") (parseWhitespace st)
      | "eoi", _ => showRes (fun _ => "()") (parseEndOfInput st)
      | "strlit", [a] => (match lit a with | some l => showRes (fun _ => renderStr l) (parseStringLiteral st l) | none => "BADARG")
      | "strliti", [a] => (match lit a with | some l => showRes (fun _ => renderStr l) (parseStringLiteralInsensitive st l) | none => "BADARG")
      | "chrlit", [a] => (match chr a with | some c => showRes renderChar (parseCharacterLiteral st c) | none => "BADARG")
      | "chrliti", [a] => (match chr a with | some c => showRes renderChar (parseCharacterLiteralInsensitive st c) | none => "BADARG")
      | "range", [a, b] => (match chr a, chr b with | some x, some y => showRes renderChar (parseCharacterRange st x y) | _, _ => "BADARG")
      | _, _ => "BADMATCHER"
    | _, _ => "BADINPUT"
  | ["pretty", hextext, pos, file] =>
    match (if hextext == "-" then some [] else unhex hextext.toList) >>= bytesToChars, pos.toNat? with
    | some text, some pos =>
      let f := if file == "-" then none else (unhex file.toList).map bytesToString
      "P " ++ hexBytes (Pretty.render { pos := pos, spec := .expectedEoi } text f).toUTF8.toList
    | _, _ => "BADINPUT"
  | ["hdr", hextext] =>
    match (if hextext == "-" then some [] else unhex hextext.toList) with
    | some bs => "H " ++ bytesToString (Build.hex8 (Build.crc32 bs))
    | none => "BADINPUT"
  | _ => "BADOP"

partial def unitLoop (h : IO.FS.Stream) (out : IO.FS.Stream) : IO Unit := do
  let line ← h.getLine
  if line.isEmpty then return ()
  out.putStrLn (unitOp line)
  unitLoop h out

/-! ### build-script histories -/

def fnv64 (bs : List UInt8) : UInt64 :=
  bs.foldl (fun h b => (h ^^^ b.toUInt64) * 0x100000001b3) 0xcbf29ce484222325

def hex16 (x : UInt64) : String :=
  String.ofList ((List.range 16).map fun i => hexDigit ((x.toNat / 16 ^ (15 - i)) % 16))

def fsMain (dir : String) : IO Unit := do
  let consts ← IO.FS.lines (dir ++ "/consts.txt")
  let k : Build.Consts := { version := (consts[0]!).toUTF8.toList, buildTime := (consts[1]!).toUTF8.toList }
  let tableLines ← IO.FS.lines (dir ++ "/table.txt")
  let mut table : List (List UInt8 × Option (List UInt8)) := []
  for l in tableLines do
    match l.splitOn " " with
    | [hx, path] =>
      let g := (if hx == "-" then some [] else unhex hx.toList).getD []
      if path == "ERR" then table := (g, none) :: table
      else
        let code ← IO.FS.readBinFile path
        table := (g, some code.toList) :: table
    | _ => pure ()
  let compile := fun (g : List UInt8) => match table.find? (fun e => e.1 == g) with
    | some (_, c) => c
    | none => none
  -- rustfmt as a table: fnv64 of the unformatted text -> formatted file (built by the harness with the real rustfmt)
  let mut fmtTable : List (String × List UInt8) := []
  if ← System.FilePath.pathExists (dir ++ "/fmt.txt") then
    for l in ← IO.FS.lines (dir ++ "/fmt.txt") do
      match l.splitOn " " with
      | [h, path] => fmtTable := (h, (← IO.FS.readBinFile path).toList) :: fmtTable
      | _ => pure ()
  let fmtT := fmtTable
  let fmt := fun (b : List UInt8) => match fmtT.find? (fun e => e.1 == hex16 (fnv64 b)) with
    | some (_, f) => f
    | none => b
  let hist ← IO.FS.lines (dir ++ "/histories.txt")
  let mut fs : Build.FS := { grammar := none, dest := none, pfx := [] }
  let mut fs2 : Build.FS := { grammar := none, dest := none, pfx := [] }   -- second file of mode `dir2`
  let mut id := ""
  let mut kk := 0
  let mut format := false
  for l in hist do
    match l.splitOn " " with
    | ["H", i, m] =>
      id := i; kk := 0; format := (m == "fmt"); fs := { grammar := none, dest := none, pfx := [] }
      fs2 := { grammar := none, dest := none, pfx := [] }
    | ["G2", hx] => fs2 := { fs2 with grammar := (if hx == "-" then some [] else unhex hx.toList) }
    | ["D2"] => fs2 := { fs2 with dest := none }
    | ["R", ord] =>
      -- mode `dir2`: the walk over both files in the order the operating system listed them (reported by the harness)
      let fs2p := { fs2 with pfx := fs.pfx }
      let r := if ord == "10" then (Build.runDir k compile [fs2p, fs]).reverse else Build.runDir k compile [fs, fs2p]
      let res := match Build.dirResult r with | .ok _ => "OK" | .err => "ERR" | .none => "?"
      let mut cols := ""
      let mut fresh := ""
      for e in r do
        let d := match e.1.dest with | some b => hex16 (fnv64 b) | none => "NONE"
        let w := match e.2 with | .ok true => "1" | _ => "0"
        cols := cols ++ s!" {d} {w}"
        let fr := match e.1.grammar with
          | some g => (match compile g with
            | some code => hex16 (fnv64 (Build.output k g e.1.pfx code))
            | none => "UNCOMPILABLE")
          | none => "ABSENT"
        fresh := fresh ++ s!" {fr}"
      match r with
      | [e0, e1] => fs := e0.1; fs2 := e1.1
      | _ => pure ()
      IO.println s!"{id} {kk} {res}{cols}{fresh}"
      kk := kk + 1
    | ["G", hx] =>
      let t := if hx == "NONE" then none else (if hx == "-" then some [] else unhex hx.toList)
      fs := (Build.step k compile fs (.editGrammar t)).1
    | ["P", hx] => fs := (Build.step k compile fs (.setPrefix ((if hx == "-" then some [] else unhex hx.toList).getD []))).1
    | ["D"] => fs := (Build.step k compile fs .deleteDest).1
    | ["R"] =>
      let (fs', out) := Build.stepF k compile fmt format fs .run
      fs := fs'
      let res := match out with | .ok _ => "OK" | .err => "ERR" | .none => "?"
      let w := match out with | .ok true => "1" | _ => "0"
      let d := match fs.dest with | some b => hex16 (fnv64 b) | none => "NONE"
      let fresh := match fs.grammar with
        | some g => (match compile g with
          | some code => hex16 (fnv64 (if format then fmt (Build.output k g fs.pfx code) else Build.output k g fs.pfx code))
          | none => "UNCOMPILABLE")
        | none => "UNREADABLE"
      IO.println s!"{id} {kk} {res} {d} {w} {fresh}"
      kk := kk + 1
    | _ => pure ()

/-! ### generator decisions (accept / reject, declared types) -/

partial def genLoop (h : IO.FS.Stream) (out : IO.FS.Stream) : IO Unit := do
  let line ← h.getLine
  if line.isEmpty then return ()
  match line.trimAscii.toString.splitOn " " with
  | ["G", id, derives, fuel] =>
    let sline ← h.getLine
    let derives := atomStr derives
    let ds : List String := if derives == "-" then ["Debug", "Clone"] else if derives == "EMPTY" then [] else derives.splitOn ","
    match parseSexp sline >>= toGrammar with
    | some g =>
      let st : Settings := { derives := ds }
      let f := fuel.toNat?.getD 200
      let errs := Compile.errors g st f
      if errs.isEmpty then
        out.putStrLn s!"{id}\tACCEPT"
        for d in Compile.decls Compile.rustKeywordsModel g st f do
          out.putStrLn s!"{id}\tDECL\t{d}"
      else
        out.putStrLn (s!"{id}\tREJECT\t" ++ " || ".intercalate errs)
    | none => out.putStrLn s!"{id}\tBADGRAMMAR"
    genLoop h out
  | _ => genLoop h out

/-! ### front end (Grammar::from_str) -/

partial def frontLoop (h : IO.FS.Stream) (out : IO.FS.Stream) : IO Unit := do
  let line ← h.getLine
  if line.isEmpty then return ()
  match line.trimAscii.toString.splitOn " " with
  | ["T", id, hex, fuel] =>
    match (if hex == "-" then some [] else unhex hex.toList) with
    | some bs =>
      match FrontEnd.parse (fuel.toNat?.getD 20000) bs with
      | .grammar g => out.putStrLn s!"{id}\tOK\t{showGrammar g}"
      | .parseError e => out.putStrLn s!"{id}\tPARSE_ERR\t{e.pos}\t{Spec.render e.spec}"
      | .other m => out.putStrLn s!"{id}\tOTHER\t{m}"
    | none => out.putStrLn s!"{id}\tBADINPUT"
    frontLoop h out
  | _ => frontLoop h out

def main (args : List String) : IO UInt32 := do
  match args with
  | ["run", file] =>
    let h ← IO.FS.Handle.mk file .read
    let out ← IO.getStdout
    runLoop (IO.FS.Stream.ofHandle h) out none 0
    return 0
  | ["unit", file] =>
    let h ← IO.FS.Handle.mk file .read
    let out ← IO.getStdout
    unitLoop (IO.FS.Stream.ofHandle h) out
    return 0
  | ["frontend", file] =>
    let h ← IO.FS.Handle.mk file .read
    let out ← IO.getStdout
    frontLoop (IO.FS.Stream.ofHandle h) out
    return 0
  | ["gen", file] =>
    let h ← IO.FS.Handle.mk file .read
    let out ← IO.getStdout
    genLoop (IO.FS.Stream.ofHandle h) out
    return 0
  | ["fs", dir] =>
    fsMain dir
    return 0
  | _ =>
    IO.eprintln "usage: pegverif run <file> | unit <file> | fs <dir>"
    return 2
