import PegVerif.Syntax
import PegVerif.Utf8
import PegVerif.Runtime
import PegVerif.Fields
import PegVerif.Value
import PegVerif.Literal
import PegVerif.Eval
import PegVerif.Spec
