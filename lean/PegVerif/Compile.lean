import PegVerif.Syntax
import PegVerif.Fields
import PegVerif.Literal
import PegVerif.Eval
/-
  Model of the grammar compiler's *decisions* (`CodegenGrammar::generate_code` and
  `CodegenRule::generate_code` in codegen/src): which grammars are rejected with an error, and
  which public types are declared for an accepted one.  After fixes F4 (identifier validation) and
  F5 (include cycles).  Tied to the real generator by the `gendiff` correspondence runs.
-/
namespace Peg
namespace Compile

/-! ### identifiers (`common.rs: check_ident`, `safe_ident`) – ASCII part of the XID rules -/

def isAsciiAlpha (c : Char) : Bool := (65 ≤ c.toNat && c.toNat ≤ 90) || (97 ≤ c.toNat && c.toNat ≤ 122)
def isAsciiDigit (c : Char) : Bool := 48 ≤ c.toNat && c.toNat ≤ 57

/-- `check_ident` on names made of ASCII characters (what the grammar's `Identifier` token can
    produce, and the ASCII part of `RustNamePart`) -/
def identOk (name : String) : Bool :=
  match name.toList with
  | [] => false
  | c :: cs =>
    (c == '_' || isAsciiAlpha c) && cs.all (fun c => c == '_' || isAsciiAlpha c || isAsciiDigit c) &&
    !(name == "self" || name == "Self" || name == "super")

/-- names that become Rust items or fields (rule names, field names): `crate` may start a function path but cannot
    name an item (`check_name`) -/
def nameOk (name : String) : Bool := identOk name && name != "crate"

def nameErr (name : String) : List String :=
  if identOk name then (if name == "crate" then ["'" ++ name ++ "' cannot be used as a rule or field name"] else [])
  else ["'" ++ name ++ "' cannot be used as a Rust identifier"]

def allAscii (name : String) : Bool := name.toList.all (fun c => c.toNat < 128)

/-! ### traversal collecting the errors `generate_code` can raise inside an expression -/

/-- errors raised while generating the body of an expression: identifier checks of fields
    (`Field::get_fields`), literal decoding (`String::try_from`, `char::try_from`), the ASCII guard
    of case-insensitive literals.  Includes are followed (their body is generated in place). -/
def exprErrors (g : Grammar) : Nat → Expr → List String
  | 0, _ => []
  | n+1, e =>
    match e with
    | .choice xs => xs.flatMap (exprErrors g n)
    | .seq xs => xs.flatMap (exprErrors g n)
    | .group b => exprErrors g n b
    | .opt b => exprErrors g n b
    | .closure b _ => exprErrors g n b
    | .neg b => exprErrors g n b
    | .pos b => exprErrors g n b
    | .range lo hi =>
      (match lo.toChar with | .err m => [m] | _ => []) ++ (match hi.toChar with | .err m => [m] | _ => [])
    | .lit ins body => (match compileLit ins body with | .err m => [m] | _ => [])
    | .eoi => []
    | .incl r => (match g.findRule r with
      | some rule => exprErrors g n rule.definition
      | none => ["Could not find normal (not char or extern) rule named " ++ r])
    | .field name _ typ =>
      nameErr typ ++
      (match name with
       | some (.ident f) => nameErr f
       | _ => [])

/-! ### include cycles (`include_rule.rs: check_include_cycles`) -/

def includesOf : Nat → Expr → List String
  | 0, _ => []
  | n+1, e =>
    match e with
    | .choice xs => xs.flatMap (includesOf n)
    | .seq xs => xs.flatMap (includesOf n)
    | .group b => includesOf n b
    | .opt b => includesOf n b
    | .closure b _ => includesOf n b
    | .neg b => includesOf n b
    | .pos b => includesOf n b
    | .incl r => [r]
    | _ => []

/-- is `target` reachable from `name` through includes in at most `fuel` hops -/
def reachesIncl (g : Grammar) (depth : Nat) (target : String) : Nat → String → Bool
  | 0, _ => false
  | n+1, name =>
    match g.findRule name with
    | none => false
    | some rule =>
      let incs := includesOf depth rule.definition
      incs.any (fun i => i == target || reachesIncl g depth target n i)

def hasIncludeCycle (g : Grammar) (depth : Nat) : Bool :=
  g.rules.any fun e => match e with
    | .rule r => reachesIncl g depth r.name (g.rules.length + 1) r.name
    | _ => false

/-! ### per-rule checks -/

def pathErrors (p : List String) : List String :=
  p.filterMap fun part => if identOk part then none else some ("'" ++ part ++ "' cannot be used as a Rust identifier")

def ruleErrors (g : Grammar) (st : Settings) (fuel : Nat) (r : Rule) : List String :=
  let flags := r.flags
  let nameErr := nameErr r.name
  let fieldsR := getFields g fuel r.definition
  let fieldErr := match fieldsR with | .err m => [m] | .fuel => ["fuel"] | .ok _ => []
  let flagErr :=
    (if flags.exported && flags.string then ["@string rules cannot be @export-ed"] else []) ++
    (if r.name == "Whitespace" && !flags.noSkipWs then ["The 'Whitespace' rule (and all called rules) must be @no_skip_ws to prevent recursion"] else []) ++
    (if (flags.memoize || flags.leftRecursive) && !st.derives.contains "Clone" then ["@memoize and @leftrec can only be used if 'Clone' is in the derives set"] else [])
  let bodyErr := exprErrors g fuel r.definition
  let kindErr := match fieldsR with
    | .ok fields =>
      if flags.string then []
      else if fields.length == 1 && (fields.head?.map (·.name)) == some "_override" then
        match fields.head? with
        | some f =>
          if f.types.length ≤ 1 then
            (if flags.exported then ["Simply overridden (containing '@:') rules cannot be @export-ed. Try the > operator instead."] else []) ++
            (if flags.position then ["Simply overridden (containing '@:') rules cannot contain @position. Try the > operator instead."] else [])
          else if f.arity != .one then
            ["Enum '@:' fields have to be used exactly once in all choice branches, and must not be used in closures or optional parts."]
          else []
        | none => []
      else if hasField fields "_override" then ["Mixing simple and override fields is not allowed."]
      else []
    | _ => []
  let checkErr := (r.checks.flatMap pathErrors)
  nameErr ++ fieldErr ++ flagErr ++ bodyErr ++ kindErr ++ checkErr

def charRuleErrors (r : CharRule) : List String :=
  nameErr r.name ++
  r.directives.flatMap pathErrors ++
  r.choices.flatMap fun p => match p with
    | .chr item => (match item.toChar with | .err m => [m] | _ => [])
    | .range lo hi => (match lo.toChar with | .err m => [m] | _ => []) ++ (match hi.toChar with | .err m => [m] | _ => [])
    | .ident _ => []

def externRuleErrors (r : ExternRule) : List String :=
  nameErr r.name ++
  pathErrors r.function ++ (match r.returnType with | some p => pathErrors p | none => [])

/-- all the reasons the generator rejects a grammar (empty = accepted) -/
def errors (g : Grammar) (st : Settings) (fuel : Nat) : List String :=
  pathErrors st.derives ++
  (if hasIncludeCycle g fuel then ["includes itself (directly or through other rules)"] else
    g.rules.flatMap fun e => match e with
      | .rule r => ruleErrors g st fuel r
      | .charRule r => charRuleErrors r
      | .externRule r => externRuleErrors r)

def accepts (g : Grammar) (st : Settings) (fuel : Nat) : Bool := (errors g st fuel).isEmpty

/-! ### declared public types (`common.rs: generate_parsed_struct_type`, `generate_field_type`,
    `generate_enum_type`, `rule.rs: generate_*_rule`) – as canonical text without whitespace -/

def rustKeywordsModel : List String :=
  ["as", "break", "const", "continue", "else", "enum", "extern", "false", "fn", "for", "if", "impl", "in", "let",
   "loop", "match", "mod", "move", "mut", "pub", "ref", "return", "self", "Self", "static", "struct", "super",
   "trait", "true", "type", "unsafe", "use", "where", "while", "async", "await", "dyn", "abstract", "become", "box",
   "do", "final", "macro", "override", "priv", "typeof", "unsized", "virtual", "yield", "try"]

/-- `safe_ident` as text -/
def safeIdent (kws : List String) (n : String) : String := if kws.contains n then "r#" ++ n else n

def derivesText (st : Settings) : String :=
  if st.derives.isEmpty then "" else "#[derive(" ++ String.join (st.derives.map (· ++ ",")) ++ ")]"

/-- `generate_field_type` -/
def fieldTypeText (kws : List String) (parent : String) (f : FieldDesc) : String :=
  let inner :=
    if f.types.length > 1 then parent ++ "_" ++ f.name
    else match f.types.head? with
      | some (t, boxed) =>
        let raw := if t == "char" then "char" else safeIdent kws t
        if boxed then "Box<" ++ raw ++ ">" else raw
      | none => "?"
  match f.arity with
  | .one => inner
  | .optional => "Option<" ++ inner ++ ">"
  | .multiple => "Vec<" ++ inner ++ ">"

/-- `generate_enum_type` -/
def enumText (kws : List String) (st : Settings) (name : String) (f : FieldDesc) : String :=
  "#[allow(non_camel_case_types)]" ++ derivesText st ++ "pubenum" ++ safeIdent kws name ++ "{" ++
    String.join (f.types.map fun (t, boxed) =>
      let i := safeIdent kws t
      if boxed then i ++ "(Box<" ++ i ++ ">)," else i ++ "(" ++ i ++ "),") ++ "}"

/-- public `generate_parsed_struct_type` -/
def structText (kws : List String) (st : Settings) (name : String) (fields : List FieldDesc) (position : Bool) : String :=
  if fields.isEmpty && !position then derivesText st ++ "pubstruct" ++ safeIdent kws name ++ ";"
  else derivesText st ++ "pubstruct" ++ safeIdent kws name ++ "{" ++
    String.join (fields.map fun f => "pub" ++ safeIdent kws f.name ++ ":" ++ fieldTypeText kws name f ++ ",") ++
    (if position then "pubposition:std::ops::Range<usize>," else "") ++ "}"

/-- the public declarations of one normal rule, in emission order -/
def ruleDecls (kws : List String) (g : Grammar) (st : Settings) (fuel : Nat) (r : Rule) : List String :=
  match getFields g fuel r.definition with
  | .ok fields =>
    let flags := r.flags
    if flags.string then
      if flags.position then
        [derivesText st ++ "pubstruct" ++ safeIdent kws r.name ++ "{pubstring:String,pubposition:std::ops::Range<usize>}"]
      else ["pubtype" ++ safeIdent kws r.name ++ "=String;"]
    else if fields.length == 1 && (fields.head?.map (·.name)) == some "_override" then
      match fields.head? with
      | some f =>
        if f.types.length ≤ 1 then ["pubtype" ++ safeIdent kws r.name ++ "=" ++ fieldTypeText kws r.name f ++ ";"]
        else [enumText kws st r.name f]
      | none => []
    else
      structText kws st r.name fields flags.position ::
        (fields.filter (fun f => f.types.length > 1)).map (fun f => enumText kws st (r.name ++ "_" ++ f.name) f)
  | _ => []

def decls (kws : List String) (g : Grammar) (st : Settings) (fuel : Nat) : List String :=
  g.rules.flatMap fun e => match e with
    | .rule r => ruleDecls kws g st fuel r
    | .charRule r => ["pubtype" ++ safeIdent kws r.name ++ "=char;"]
    | .externRule r =>
      ["pubtype" ++ safeIdent kws r.name ++ "=" ++
        (match r.returnType with
         | some p => "::".intercalate (p.map (safeIdent kws))
         | none => "String") ++ ";"]

end Compile
end Peg
