/-
  Grammar AST.  Mirrors the types peginator generates from `grammar.ebnf`
  (`codegen/src/grammar/generated.rs`): Grammar, Rule, CharRule, ExternRule, Choice, Sequence,
  DelimitedExpression (ten variants), Field, StringLiteral, StringItem, directives.

  `Choice`/`Sequence`/`DelimitedExpression` are flattened into one `Expr` type (a superset of the
  strictly alternating shape; the front end only produces alternating terms).
-/
namespace Peg

inductive SimpleEsc where
  | newline | cr | tab | backslash | quote | dquote
deriving DecidableEq, Repr, Inhabited

/-- `StringItem` of grammar.ebnf.  `utf8 ds` holds the 1–6 hex digits c1..c6 (c_k present ⇒ c_{k-1} present). -/
inductive StringItem where
  | hexa (c1 c2 : Char)
  | simple (e : SimpleEsc)
  | utf8 (digits : List Char)
  | chr (c : Char)
deriving DecidableEq, Repr, Inhabited

inductive FieldName where
  | ident (s : String)
  | override
deriving DecidableEq, Repr, Inhabited

/-- the key the generator uses for a field (`Field_name::OverrideMarker` ↦ "_override") -/
def FieldName.key : FieldName → String
  | .ident s => s
  | .override => "_override"

inductive Expr where
  | choice (alts : List Expr)                 -- Choice { choices }
  | seq (parts : List Expr)                   -- Sequence { parts }
  | group (body : Expr)                       -- Group { body }
  | opt (body : Expr)                         -- Optional { body }
  | closure (body : Expr) (atLeastOne : Bool) -- Closure { body, at_least_one }
  | neg (e : Expr)                            -- NegativeLookahead { expr }
  | pos (e : Expr)                            -- PositiveLookahead { expr }
  | range (lo hi : StringItem)                -- CharacterRange { from, to }
  | lit (insensitive : Bool) (body : List StringItem) -- StringLiteral
  | eoi                                       -- EndOfInput
  | incl (rule : String)                      -- IncludeRule { rule }
  | field (name : Option FieldName) (boxed : Bool) (typ : String) -- Field
deriving Repr, Inhabited

inductive Directive where
  | string | noSkipWs | export | position | memoize | leftrec
  | check (function : List String)
deriving DecidableEq, Repr, Inhabited

structure Rule where
  directives : List Directive
  name : String
  definition : Expr
deriving Repr, Inhabited

inductive CharRulePart where
  | range (lo hi : StringItem)   -- CharacterRange
  | chr (item : StringItem)      -- CharRangePart
  | ident (name : String)        -- Identifier
deriving Repr, Inhabited

structure CharRule where
  /-- the `function` paths of the CheckDirectives, in source order -/
  directives : List (List String)
  name : String
  choices : List CharRulePart
deriving Repr, Inhabited

structure ExternRule where
  function : List String
  returnType : Option (List String)
  name : String
deriving Repr, Inhabited

inductive RuleEntry where
  | rule (r : Rule)
  | charRule (r : CharRule)
  | externRule (r : ExternRule)
deriving Repr, Inhabited

def RuleEntry.name : RuleEntry → String
  | .rule r => r.name
  | .charRule r => r.name
  | .externRule r => r.name

structure Grammar where
  rules : List RuleEntry
deriving Repr, Inhabited

/-- mirror of `RuleFlags` / `Rule::flags` in codegen/src/rule.rs -/
structure RuleFlags where
  noSkipWs : Bool := false
  exported : Bool := false
  string : Bool := false
  position : Bool := false
  memoize : Bool := false
  leftRecursive : Bool := false
deriving DecidableEq, Repr, Inhabited

def RuleFlags.add (f : RuleFlags) : Directive → RuleFlags
  | .string => { f with string := true }
  | .noSkipWs => { f with noSkipWs := true }
  | .export => { f with exported := true }
  | .position => { f with position := true }
  | .memoize => { f with memoize := true }
  | .leftrec => { f with leftRecursive := true }
  | .check _ => f

def Rule.flags (r : Rule) : RuleFlags := r.directives.foldl RuleFlags.add {}

/-- the check functions of a rule, in source order (`generate_check_calls`) -/
def Rule.checks (r : Rule) : List (List String) :=
  r.directives.filterMap fun d => match d with | .check f => some f | _ => none

/-- first entry with that name (the generated module defines one `parse_<name>` per entry) -/
def Grammar.find (g : Grammar) (n : String) : Option RuleEntry :=
  g.rules.find? (fun r => r.name == n)

/-- `IncludeRule::included_rule_definition`: first *normal* rule with that name -/
def Grammar.findRule (g : Grammar) (n : String) : Option Rule :=
  g.rules.findSome? fun r => match r with
    | .rule r => if r.name == n then some r else none
    | _ => none

end Peg
