import PegVerif.Proofs.CompileProofs
/-
  C15 – the grammar compiler always answers: code, or an error – and says so.
  `Compile.errors` (model of the restriction checks of `CodegenGrammar::generate_code`, after fixes
  F4/F5) is a total function; every documented restriction makes it non-empty.  Totality of the
  *real* generator (no panic, no stack overflow, no hang) and the exit status of the tools are
  observed by gendiff / routes in isolated processes.
-/
namespace Peg.Props
open Peg Peg.Compile

theorem C15_accepts_iff (g : Grammar) (st : Settings) (fuel : Nat) : accepts g st fuel = true ↔ errors g st fuel = [] :=
  accepts_iff g st fuel

theorem C15_string_export {g st fuel} {r : Rule} (hr : RuleEntry.rule r ∈ g.rules)
    (h : r.flags.exported = true ∧ r.flags.string = true) : accepts g st fuel = false := reject_string_export hr h

theorem C15_skipping_whitespace {g st fuel} {r : Rule} (hr : RuleEntry.rule r ∈ g.rules)
    (h : r.name = "Whitespace" ∧ r.flags.noSkipWs = false) : accepts g st fuel = false := reject_skipping_whitespace_rule hr h

theorem C15_memoize_without_clone {g st fuel} {r : Rule} (hr : RuleEntry.rule r ∈ g.rules)
    (h : r.flags.memoize = true ∧ "Clone" ∉ st.derives) : accepts g st fuel = false := reject_memoize_without_clone hr h

/-- fields inside lookaheads, including a missing / @char / @extern rule: `get_fields` fails -/
theorem C15_field_analysis_error {g st fuel} {r : Rule} {m : String} (hr : RuleEntry.rule r ∈ g.rules)
    (h : getFields g fuel r.definition = .err m) : accepts g st fuel = false := reject_getFields_err hr h

theorem C15_fields_in_lookahead {g : Grammar} {n : Nat} {b : Expr} {f : FieldDesc} {fs : List FieldDesc}
    (h : getFields g n b = .ok (f :: fs)) :
    getFields g (n+1) (.neg b) = .err "The body of negative lookaheads should not contain named fields" := getFields_neg_err h

theorem C15_include_missing {g : Grammar} {n : Nat} {name : String} (h : g.findRule name = none) :
    getFields g (n+1) (.incl name) = .err s!"Could not find normal (not char or extern) rule named {name}" := getFields_incl_err h

theorem C15_export_plain_override {g st fuel} {r : Rule} {f : FieldDesc} (hr : RuleEntry.rule r ∈ g.rules)
    (hf : getFields g fuel r.definition = .ok [f]) (hn : f.name = "_override") (hs : r.flags.string = false)
    (h : f.types.length ≤ 1 ∧ r.flags.exported = true) : accepts g st fuel = false := reject_override_export hr hf hn hs h

theorem C15_position_plain_override {g st fuel} {r : Rule} {f : FieldDesc} (hr : RuleEntry.rule r ∈ g.rules)
    (hf : getFields g fuel r.definition = .ok [f]) (hn : f.name = "_override") (hs : r.flags.string = false)
    (h : f.types.length ≤ 1 ∧ r.flags.position = true) : accepts g st fuel = false := reject_override_position hr hf hn hs h

theorem C15_multitype_override_not_once {g st fuel} {r : Rule} {f : FieldDesc} (hr : RuleEntry.rule r ∈ g.rules)
    (hf : getFields g fuel r.definition = .ok [f]) (hn : f.name = "_override") (hs : r.flags.string = false)
    (h : f.types.length > 1 ∧ f.arity ≠ .one) : accepts g st fuel = false := reject_enum_override_arity hr hf hn hs h

theorem C15_mixing {g st fuel} {r : Rule} {fields : List FieldDesc} (hr : RuleEntry.rule r ∈ g.rules)
    (hf : getFields g fuel r.definition = .ok fields) (ho : hasField fields "_override" = true) (hs : r.flags.string = false)
    (hm : ¬ ((fields.length == 1 && fields.head?.map (·.name) == some "_override") = true)) :
    accepts g st fuel = false := reject_mixing hr hf ho hs hm

/-- non-ASCII case-insensitive literals and invalid code points are errors of the body -/
theorem C15_literal_problem {g st fuel} {r : Rule} {m : String} (hr : RuleEntry.rule r ∈ g.rules)
    (h : m ∈ exprErrors g fuel r.definition) : accepts g st fuel = false := reject_exprError hr h

theorem C15_nonascii_insensitive (items : List StringItem) (lit : List Char) (h : decodeLit items = .ok lit)
    (hna : lit.all isAscii = false) :
    compileLit true items = .err "Case insensitive matching only works for ascii strings." :=
  compileLit_insensitive_nonascii items lit h hna

theorem C15_invalid_code_point {ds : List Char} {n : Nat} (h : hexFold ds 0 = some n) (hc : charFromU32 n = none) :
    StringItem.toChar (.utf8 ds) = .err "Invalid utf-8 codepoint" := toChar_utf8_invalid h hc

/-- names that are not Rust identifiers (defect F4) and include cycles (defect F5) are errors -/
theorem C15_bad_rule_name {g st fuel} {r : Rule} (hr : RuleEntry.rule r ∈ g.rules) (h : identOk r.name = false) :
    accepts g st fuel = false := reject_bad_rule_name hr h
theorem C15_bad_derive {g : Grammar} {st : Settings} {fuel : Nat} {d : String} (hd : d ∈ st.derives) (h : identOk d = false) :
    accepts g st fuel = false := reject_bad_derive hd h
theorem C15_include_cycle {g : Grammar} {st : Settings} {fuel : Nat} (h : hasIncludeCycle g fuel = true) :
    accepts g st fuel = false := reject_include_cycle h

end Peg.Props
