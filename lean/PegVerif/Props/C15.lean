import PegVerif.Proofs.CompileProofs
import PegVerif.Proofs.NonVacuity
/-
  C15 – the grammar compiler always answers: code, or an error – and says so.
  `Compile.errors` (model of the restriction checks of `CodegenGrammar::generate_code`, after fixes
  F4/F5) is a total function; every documented restriction makes it non-empty.  Totality of the
  *real* generator (no panic, no stack overflow, no hang) and the exit status of the tools are
  observed by gendiff / routes in isolated processes.
-/
namespace Peg.Props
open Peg Peg.Compile

theorem C15_accepts_iff (g : Grammar) (st : Settings) (fuel : Nat) : accepts g st fuel = true ↔ errors g st fuel = [] :=
  accepts_iff g st fuel

theorem C15_string_export {g st fuel} {r : Rule} (hr : RuleEntry.rule r ∈ g.rules)
    (h : r.flags.exported = true ∧ r.flags.string = true) : accepts g st fuel = false := reject_string_export hr h

theorem C15_skipping_whitespace {g st fuel} {r : Rule} (hr : RuleEntry.rule r ∈ g.rules)
    (h : r.name = "Whitespace" ∧ r.flags.noSkipWs = false) : accepts g st fuel = false := reject_skipping_whitespace_rule hr h

theorem C15_memoize_without_clone {g st fuel} {r : Rule} (hr : RuleEntry.rule r ∈ g.rules)
    (h : r.flags.memoize = true ∧ "Clone" ∉ st.derives) : accepts g st fuel = false := reject_memoize_without_clone hr h

/-- `@leftrec` clones its results out of the cache exactly like `@memoize` (fix F11) -/
theorem C15_leftrec_without_clone {g st fuel} {r : Rule} (hr : RuleEntry.rule r ∈ g.rules)
    (h : r.flags.leftRecursive = true ∧ "Clone" ∉ st.derives) : accepts g st fuel = false := reject_leftrec_without_clone hr h

/-- `crate` cannot name a rule (it is only legal as a segment of a function path; fix F11) -/
theorem C15_rule_named_crate {g st fuel} {r : Rule} (hr : RuleEntry.rule r ∈ g.rules) (h : r.name = "crate") :
    accepts g st fuel = false := by
  refine accepts_false_of_ruleError (m := "'crate' cannot be used as a rule or field name") hr ?_
  refine mem_ruleErrors.2 (Or.inl ?_)
  simp only [nameErrs, h]
  exact nameErr_crate

/-- fields inside lookaheads, including a missing / @char / @extern rule: `get_fields` fails -/
theorem C15_field_analysis_error {g st fuel} {r : Rule} {m : String} (hr : RuleEntry.rule r ∈ g.rules)
    (h : getFields g fuel r.definition = .err m) : accepts g st fuel = false := reject_getFields_err hr h

theorem C15_fields_in_lookahead {g : Grammar} {n : Nat} {b : Expr} {f : FieldDesc} {fs : List FieldDesc}
    (h : getFields g n b = .ok (f :: fs)) :
    getFields g (n+1) (.neg b) = .err "The body of negative lookaheads should not contain named fields" := getFields_neg_err h

theorem C15_include_missing {g : Grammar} {n : Nat} {name : String} (h : g.findRule name = none) :
    getFields g (n+1) (.incl name) = .err s!"Could not find normal (not char or extern) rule named {name}" := getFields_incl_err h

theorem C15_export_plain_override {g st fuel} {r : Rule} {f : FieldDesc} (hr : RuleEntry.rule r ∈ g.rules)
    (hf : getFields g fuel r.definition = .ok [f]) (hn : f.name = "_override") (hs : r.flags.string = false)
    (h : f.types.length ≤ 1 ∧ r.flags.exported = true) : accepts g st fuel = false := reject_override_export hr hf hn hs h

theorem C15_position_plain_override {g st fuel} {r : Rule} {f : FieldDesc} (hr : RuleEntry.rule r ∈ g.rules)
    (hf : getFields g fuel r.definition = .ok [f]) (hn : f.name = "_override") (hs : r.flags.string = false)
    (h : f.types.length ≤ 1 ∧ r.flags.position = true) : accepts g st fuel = false := reject_override_position hr hf hn hs h

theorem C15_multitype_override_not_once {g st fuel} {r : Rule} {f : FieldDesc} (hr : RuleEntry.rule r ∈ g.rules)
    (hf : getFields g fuel r.definition = .ok [f]) (hn : f.name = "_override") (hs : r.flags.string = false)
    (h : f.types.length > 1 ∧ f.arity ≠ .one) : accepts g st fuel = false := reject_enum_override_arity hr hf hn hs h

theorem C15_mixing {g st fuel} {r : Rule} {fields : List FieldDesc} (hr : RuleEntry.rule r ∈ g.rules)
    (hf : getFields g fuel r.definition = .ok fields) (ho : hasField fields "_override" = true) (hs : r.flags.string = false)
    (hm : ¬ ((fields.length == 1 && fields.head?.map (·.name) == some "_override") = true)) :
    accepts g st fuel = false := reject_mixing hr hf ho hs hm

/-- non-ASCII case-insensitive literals and invalid code points are errors of the body -/
theorem C15_literal_problem {g st fuel} {r : Rule} {m : String} (hr : RuleEntry.rule r ∈ g.rules)
    (h : m ∈ exprErrors g fuel r.definition) : accepts g st fuel = false := reject_exprError hr h

theorem C15_nonascii_insensitive (items : List StringItem) (lit : List Char) (h : decodeLit items = .ok lit)
    (hna : lit.all isAscii = false) :
    compileLit true items = .err "Case insensitive matching only works for ascii strings." :=
  compileLit_insensitive_nonascii items lit h hna

theorem C15_invalid_code_point {ds : List Char} {n : Nat} (h : hexFold ds 0 = some n) (hc : charFromU32 n = none) :
    StringItem.toChar (.utf8 ds) = .err "Invalid utf-8 codepoint" := toChar_utf8_invalid h hc

/-- names that are not Rust identifiers (defect F4) and include cycles (defect F5) are errors -/
theorem C15_bad_rule_name {g st fuel} {r : Rule} (hr : RuleEntry.rule r ∈ g.rules) (h : identOk r.name = false) :
    accepts g st fuel = false := reject_bad_rule_name hr h
theorem C15_bad_derive {g : Grammar} {st : Settings} {fuel : Nat} {d : String} (hd : d ∈ st.derives) (h : identOk d = false) :
    accepts g st fuel = false := reject_bad_derive hd h
theorem C15_include_cycle {g : Grammar} {st : Settings} {fuel : Nat} (h : hasIncludeCycle g fuel = true) :
    accepts g st fuel = false := reject_include_cycle h

/-! ## non-vacuity (BEGIN) -/
namespace C15_nv
open Peg.NV

/-! instances: the accepted running example `NV.env0.g`, and for each restriction the grammar
    `bad r = [r, Num, Word]` with one offending rule `r` in front -/
def bad (r : Rule) : Grammar := ⟨[.rule r, .rule (ruleNum []), .rule ruleWord]⟩
theorem mem (r : Rule) : RuleEntry.rule r ∈ (bad r).rules := List.mem_cons_self ..
def ov (t : String) : Expr := .field (some .override) false t

/-- the accepted case: `accepts` is not constantly `false` -/
example : accepts env0.g {} 10 = true ∧ errors env0.g {} 10 = [] := ⟨by decide, (C15_accepts_iff _ _ _).mp (by decide)⟩

def rStrExp : Rule := ⟨[.export, .string], "X", .choice [.seq [lit 'x']]⟩
example : accepts (bad rStrExp) {} 10 = false := C15_string_export (mem _) ⟨rfl, rfl⟩
example : errors (bad rStrExp) {} 10 = ["@string rules cannot be @export-ed"] := by decide +kernel

def rWs : Rule := ⟨[], "Whitespace", .choice [.seq [.closure (.choice [.seq [lit ' ']]) false]]⟩
example : accepts (bad rWs) {} 10 = false := C15_skipping_whitespace (mem _) ⟨rfl, rfl⟩
example : errors (bad rWs) {} 10 =
    ["The 'Whitespace' rule (and all called rules) must be @no_skip_ws to prevent recursion"] := by decide +kernel

def rMemo : Rule := ⟨[.memoize], "X", .choice [.seq [lit 'x']]⟩
example : accepts (bad rMemo) { derives := ["Debug"] } 10 = false :=
  C15_memoize_without_clone (mem _) ⟨rfl, by decide⟩
example : accepts (bad rMemo) {} 10 = true := by decide

/-- a named field inside a negative lookahead -/
def rLook : Rule := ⟨[], "X", .choice [.seq [.neg (fld "a" "Num"), lit 'x']]⟩
example : getFields (bad rLook) 8 (.neg (fld "a" "Num")) =
    .err "The body of negative lookaheads should not contain named fields" :=
  C15_fields_in_lookahead (g := bad rLook) (n := 7) (b := fld "a" "Num") (f := ⟨"a", [("Num", false)], .one⟩) (fs := []) rfl
example : accepts (bad rLook) {} 10 = false :=
  C15_field_analysis_error (m := "The body of negative lookaheads should not contain named fields") (mem _) rfl

/-- an include of a rule that does not exist -/
def rIncl : Rule := ⟨[], "X", .choice [.seq [.incl "Nope"]]⟩
example : getFields (bad rIncl) 8 (.incl "Nope") = .err s!"Could not find normal (not char or extern) rule named {"Nope"}" :=
  C15_include_missing (g := bad rIncl) (n := 7) rfl
example : accepts (bad rIncl) {} 10 = false := by decide

/-- override rules -/
def fOv (ts : List (String × Bool)) (a : Arity) : FieldDesc := ⟨"_override", ts, a⟩
def rOvExp : Rule := ⟨[.export], "X", .choice [.seq [ov "Num"]]⟩
example : accepts (bad rOvExp) {} 10 = false :=
  C15_export_plain_override (f := fOv [("Num", false)] .one) (mem _) rfl rfl rfl ⟨by decide, rfl⟩
def rOvPos : Rule := ⟨[.position], "X", .choice [.seq [ov "Num"]]⟩
example : accepts (bad rOvPos) {} 10 = false :=
  C15_position_plain_override (f := fOv [("Num", false)] .one) (mem _) rfl rfl rfl ⟨by decide, rfl⟩
/-- (without `@export` / `@position` the same rule is accepted) -/
example : accepts (bad ⟨[], "X", .choice [.seq [ov "Num"]]⟩) {} 10 = true := by decide
def rOvEnum : Rule := ⟨[], "X", .choice [.seq [.closure (.choice [.seq [ov "Num"], .seq [ov "Word"]]) false]]⟩
example : accepts (bad rOvEnum) {} 10 = false :=
  C15_multitype_override_not_once (f := fOv [("Num", false), ("Word", false)] .multiple) (mem _)
    (by with_unfolding_all rfl) rfl rfl ⟨by decide, by decide⟩
def rMix : Rule := ⟨[], "X", .choice [.seq [ov "Num", fld "a" "Word"]]⟩
example : accepts (bad rMix) {} 10 = false :=
  C15_mixing (fields := [fOv [("Num", false)] .one, ⟨"a", [("Word", false)], .one⟩]) (mem _) rfl (by decide) rfl (by decide)
example : errors (bad rMix) {} 10 = ["Mixing simple and override fields is not allowed."] := by decide +kernel

/-- literals -/
def rCI : Rule := ⟨[], "X", .choice [.seq [.lit true [.chr 'é']]]⟩
example : compileLit true [.chr 'é'] = .err "Case insensitive matching only works for ascii strings." :=
  C15_nonascii_insensitive [.chr 'é'] ['é'] rfl (by decide)
example : accepts (bad rCI) {} 10 = false :=
  C15_literal_problem (m := "Case insensitive matching only works for ascii strings.") (mem _) (by decide +kernel)
example : StringItem.toChar (.utf8 ['d', '8', '0', '0']) = .err "Invalid utf-8 codepoint" :=
  C15_invalid_code_point (n := 0xD800) (by decide) (by decide)
def rCP : Rule := ⟨[], "X", .choice [.seq [.lit false [.utf8 ['d', '8', '0', '0']]]]⟩
example : errors (bad rCP) {} 10 = ["Invalid utf-8 codepoint"] := by decide +kernel

/-- names and include cycles -/
def rSelf : Rule := ⟨[], "self", .choice [.seq [lit 'x']]⟩
example : accepts (bad rSelf) {} 10 = false := C15_bad_rule_name (mem _) (by decide)
example : accepts env0.g { derives := ["Debug", "Cl one"] } 10 = false :=
  C15_bad_derive (d := "Cl one") (by decide) (by decide)
def gCyc : Grammar := ⟨[.rule ⟨[], "A", .choice [.seq [lit 'a', .incl "B"]]⟩, .rule ⟨[], "B", .choice [.seq [.opt (.incl "A")]]⟩]⟩
example : hasIncludeCycle gCyc 10 = true := by decide
example : accepts gCyc {} 10 = false := C15_include_cycle (by decide)
example : errors gCyc {} 10 = ["includes itself (directly or through other rules)"] := by decide +kernel

end C15_nv
/-! ## non-vacuity (END) -/

end Peg.Props
