import PegVerif.Proofs.FrontEndProofs
/-
  C17 – the bootstrapped grammar parser is a fixpoint of the generator.
  Logical core: any parser that conforms to the PEG reading of grammar.ebnf reads every text alike
  (uniqueness of the reference answer), the shipped front end is tied to that reading by the
  three-way `frontend` comparison, and the generator model accepts grammar.ebnf.  The multi-stage
  builds themselves (stage 2 = current generator on grammar.ebnf compared with the shipped
  generated.rs) are real builds run by the check: tests, labelled as such.
-/
namespace Peg.Props
open Peg

/-- the tree's own generator (model) accepts grammar.ebnf – re-checked on the extracted grammar -/
theorem C17_generator_accepts_its_grammar : Compile.accepts Extracted.metaGrammar {} 64 = true := metaGrammar_accepted

/-- two front ends that both conform to the reference reading of grammar.ebnf agree on every text:
    the reference answer is unique -/
theorem C17_conforming_front_ends_agree (text : List UInt8) {m m' : Nat} {r r'}
    (h : Spec.parse FrontEnd.metaEnv 0 m "Grammar" text = some r)
    (h' : Spec.parse FrontEnd.metaEnv 0 m' "Grammar" text = some r') : r = r' :=
  Spec.eval_rule_det FrontEnd.metaEnv 0 h h'

/-- the model front end conforms (valid texts and invalid ones) -/
theorem C17_model_front_end_conforms (fuel : Nat) (text : List UInt8) :
    (∀ g, FrontEnd.parse fuel text = .grammar g →
      ∃ m v s, Spec.parse FrontEnd.metaEnv 0 m "Grammar" text = some (.ok v s) ∧ FrontEnd.toGrammar fuel v = some g) ∧
    (∀ e, FrontEnd.parse fuel text = .parseError e →
      ∃ m, Spec.parse FrontEnd.metaEnv 0 m "Grammar" text = some (.err Spec.noErr)) :=
  C12_conformance_sound fuel text

/-- more fuel never changes what was read -/
theorem C17_front_end_stable {n n' : Nat} (hnn : n ≤ n') {text g} (h : FrontEnd.parse n text = .grammar g) :
    FrontEnd.parse n' text = .grammar g := frontEnd_fuel_stable hnn h

end Peg.Props
