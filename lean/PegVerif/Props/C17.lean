import PegVerif.Proofs.FrontEndProofs
/-
  C17 – the bootstrapped grammar parser is a fixpoint of the generator.
  Logical core: any parser that conforms to the PEG reading of grammar.ebnf reads every text alike
  (uniqueness of the reference answer), the shipped front end is tied to that reading by the
  three-way `frontend` comparison, and the generator model accepts grammar.ebnf.  The multi-stage
  builds themselves (stage 2 = current generator on grammar.ebnf compared with the shipped
  generated.rs) are real builds run by the check: tests, labelled as such.
-/
namespace Peg.Props
open Peg

/-- the tree's own generator (model) accepts grammar.ebnf – re-checked on the extracted grammar -/
theorem C17_generator_accepts_its_grammar : Compile.accepts Extracted.metaGrammar {} 64 = true := metaGrammar_accepted

/-- two front ends that both conform to the reference reading of grammar.ebnf agree on every text:
    the reference answer is unique -/
theorem C17_conforming_front_ends_agree (text : List UInt8) {m m' : Nat} {r r'}
    (h : Spec.parse FrontEnd.metaEnv 0 m "Grammar" text = some r)
    (h' : Spec.parse FrontEnd.metaEnv 0 m' "Grammar" text = some r') : r = r' :=
  Spec.eval_rule_det FrontEnd.metaEnv 0 h h'

/-- the model front end conforms (valid texts and invalid ones) -/
theorem C17_model_front_end_conforms (fuel : Nat) (text : List UInt8) :
    (∀ g, FrontEnd.parse fuel text = .grammar g →
      ∃ m v s, Spec.parse FrontEnd.metaEnv 0 m "Grammar" text = some (.ok v s) ∧ FrontEnd.toGrammar fuel v = some g) ∧
    (∀ e, FrontEnd.parse fuel text = .parseError e →
      ∃ m, Spec.parse FrontEnd.metaEnv 0 m "Grammar" text = some (.err Spec.noErr)) :=
  C12_conformance_sound fuel text

/-- more fuel never changes what was read -/
theorem C17_front_end_stable {n n' : Nat} (hnn : n ≤ n') {text g} (h : FrontEnd.parse n text = .grammar g) :
    FrontEnd.parse n' text = .grammar g := frontEnd_fuel_stable hnn h

/-! ## non-vacuity (BEGIN) -/
namespace C17_nv

/-! instance: the text `#c⏎@export A=B;` (`textExport`, Proofs/FrontEndProofs.lean; a comment line, a directive, an
    unnamed field), read with fuels 64 and 72 -/

theorem spec64 : (Spec.parse FrontEnd.metaEnv 0 64 "Grammar" textExport).isSome = true := by decide +kernel
theorem spec72 : (Spec.parse FrontEnd.metaEnv 0 72 "Grammar" textExport).isSome = true := by decide +kernel

/-- `C17_conforming_front_ends_agree`: both premises hold (two different fuels), the answers coincide – and the answer
    is a success that consumed all 15 bytes -/
example : (Spec.parse FrontEnd.metaEnv 0 64 "Grammar" textExport).get spec64 =
    (Spec.parse FrontEnd.metaEnv 0 72 "Grammar" textExport).get spec72 :=
  C17_conforming_front_ends_agree textExport (Option.some_get spec64).symm (Option.some_get spec72).symm
example : (match Spec.parse FrontEnd.metaEnv 0 64 "Grammar" textExport with
    | some (.ok _ s) => s.off == 15 && s.rest == [] | _ => false) = true := by decide +kernel

/-- `C17_front_end_stable` / `C17_model_front_end_conforms`: the premise `FrontEnd.parse 64 … = .grammar g` holds -/
example : ∃ g, FrontEnd.parse 64 textExport = .grammar g ∧ FrontEnd.parse 72 textExport = .grammar g ∧
    ∃ m v s, Spec.parse FrontEnd.metaEnv 0 m "Grammar" textExport = some (.ok v s) ∧ FrontEnd.toGrammar 64 v = some g := by
  have h := frontend_example_export
  cases hp : FrontEnd.parse 64 textExport with
  | grammar g => exact ⟨g, rfl, C17_front_end_stable (by decide) hp, (C17_model_front_end_conforms 64 textExport).1 g hp⟩
  | parseError e => rw [hp] at h; cases h
  | other msg => rw [hp] at h; cases h
/-- … and the grammar read with the larger fuel is `@export A = B;` -/
example : isExportAB (FrontEnd.parse 72 textExport) = true := by decide +kernel
/-- with too little fuel the front end says so (so stability is about a real threshold) -/
example : (match FrontEnd.parse 30 textExport with | .other m => m == "out of fuel" | _ => false) = true := by decide +kernel

/-- the invalid text `A=`: the model front end reports a parse error, and so does the reference reading -/
example : ∃ e, FrontEnd.parse 64 textBad = .parseError e ∧
    ∃ m, Spec.parse FrontEnd.metaEnv 0 m "Grammar" textBad = some (.err Spec.noErr) := by
  have h := frontend_example_error
  cases hp : FrontEnd.parse 64 textBad with
  | grammar g => rw [hp] at h; cases h
  | parseError e => exact ⟨e, rfl, (C17_model_front_end_conforms 64 textBad).2 e hp⟩
  | other msg => rw [hp] at h; cases h

/-- `accepts` is not constantly `true` on the meta-grammar: with an invalid derive name it is rejected -/
example : Compile.accepts Extracted.metaGrammar { derives := ["Cl one"] } 64 = false := by decide +kernel

end C17_nv
/-! ## non-vacuity (END) -/

end Peg.Props
