import PegVerif.Proofs.PathMatches
import PegVerif.Proofs.PathMatchesLR
import PegVerif.Proofs.NonVacuity
/-
  C02 – the returned tree holds exactly the matches on the successful path, in order.

  `PM.eval` is a second reference evaluator with *no field plumbing at all*: every construct returns
  the list of field matches on its successful path (sequence = concatenation in order, choice = the
  matches of the first alternative that succeeded, optional = body's or none, closure =
  concatenation over successful iterations, lookaheads/terminals/unnamed references = none, named
  field = one match carrying the type that matched), and a rule shapes the list once, at the end, by
  the rule-level arity (`shapeParsed`).  The generated plumbing (sequence bind/extend, choice result
  converters with defaults, optional defaults, closure extend, box/enum-wrap/Some/vec!) computes
  exactly that.
-/
namespace Peg.Props
open Peg

/-- **Main theorem** (expression level): the `Parsed` value a construct returns is the shaping of
    the matches on its successful path. -/
theorem C02_tree (env : Env) (u n : Nat) {ctx : Ctx} {e : Expr} {own : List FieldDesc} {s s' : St} {p : Parsed}
    (hn : (ctx.ruleFields.map (·.name)).Nodup) (hget : getFields env.g env.nf e = .ok own)
    (hsub : SubFields own ctx.ruleFields)
    (h : (Spec.eval env u n).expr ctx e s = some (.ok p s')) :
    ∃ ms, (PM.eval env u n).expr ctx e s = some (.ok ms s') ∧
      shapeParsed ctx.ruleFields (filterRuleFields ctx.ruleFields own) ms = some p ∧ PathOk own ms :=
  Peg.C02_tree env u n hn hget hsub h

/-- rule level, no hypothesis on the grammar: the two reference semantics return the same value -/
theorem C02_rule (env : Env) (u n : Nat) {name s r}
    (h : (Spec.eval env u n).rule name s = some r) : (PM.eval env u n).rule name s = some r :=
  Peg.C02_rule env u n h

/-- **The generated parser** (model, any memo set) returns the tree built from the matches on the
    successful path. -/
theorem C02_parse (env : Env) (hp : PureHooks env.hooks) (hnl : NoLeftrec env.g) (rule : String)
    (inp : List UInt8) (u n : Nat) {v : Val} {s : St} {g : Global}
    (h : parseAdvanced env n rule inp u = some (.ok v s, g)) :
    ∃ m, PM.parse env u m rule inp = some (.ok v (Spec.clr s)) :=
  Peg.C02_parse env hp hnl rule inp u n h

/-- abandoned lookaheads leave no trace: a lookahead contributes no match and consumes nothing
    (for alternatives, optionals and closure iterations see `PM.evalAlts_failed`, `PM.opt_failed`,
    `PM.evalLoop_last` in Proofs/PathMatches.lean) -/
theorem C02_lookahead_no_trace (env : Env) (rec : PM.PRec) (n : Nat) (ctx : Ctx) (b : Expr) (s s' : St)
    {ms : List FMatch} :
    (PM.stepExpr env rec n ctx (.neg b) s = some (.ok ms s') → ms = [] ∧ s' = s) ∧
    (PM.stepExpr env rec n ctx (.pos b) s = some (.ok ms s') → ms = [] ∧ s' = s) :=
  PM.lookahead_no_match env rec n ctx b s s'

/-- a multi-type field carries the variant named after the rule that actually matched -/
theorem C02_variant {RF : List FieldDesc} {m : FMatch} {f : FieldDesc} {w : Val}
    (hf : findField RF m.key = some f) (hlen : f.types.length > 1) (h : wrapMatch RF m = some w) :
    ∃ x, w = .variant m.typ x ∧ (x = m.val ∨ x = .boxed m.val) :=
  wrapMatch_variant hf hlen h

/-- `@string` rules yield exactly the input slice they consumed -/
theorem C02_string {env : Env} {u : Nat} {rec : Spec.SRec} {r0 : Rule} {s s' : St} {v : Val}
    (hstr : r0.flags.string = true) (h : Spec.ruleBody env u rec r0 s = some (.ok v s')) :
    v = (if r0.flags.position then
          Val.node r0.name [("string", .str (s.sliceUntil s'))] (some (s.off, s'.off))
        else .str (s.sliceUntil s')) :=
  string_rule_value hstr h

/-- `char` yields the character consumed -/
theorem C02_char {env : Env} {u : Nat} {rec : Spec.SRec} {s s' : St} {v : Val}
    (hno : env.g.find "char" = none) (h : Spec.stepRule env u rec "char" s = some (.ok v s')) :
    ∃ c, decodeHead s.rest = some c ∧ v = .chr c ∧ s'.off = s.off + c.utf8Size :=
  builtin_char_value hno h

/-- override rules yield the overridden value itself (shaped by the arity of the `@:` field) -/
theorem C02_override {env : Env} {u : Nat} {rec : PM.PRec} {r0 : Rule} {f : FieldDesc} {s s' : St} {v : Val}
    (hget : getFields env.g env.nf r0.definition = .ok [f]) (hname : f.name = "_override")
    (hstr : r0.flags.string = false) (h : PM.ruleBody env u rec r0 s = some (.ok v s')) :
    ∃ ms, rec.expr ⟨env.settings.skipWhitespace && !r0.flags.noSkipWs, [f]⟩ r0.definition s = some (.ok ms s') ∧
      shapeField [f] f (ms.filter (·.key == "_override")) = some v :=
  override_rule_value hget hname hstr h

/-- the same for grammars with `@leftrec` rules in the class `LROk` (PathMatchesLR.lean): `PMLR` is the path-match
    reference with the growth meaning of `@leftrec`; the returned tree is, node by node, the shaping of the matches on
    the successful path (through the last growth iteration of every left-recursive rule) -/
theorem C02_parse_leftrec (env : Env) (hp : PureHooks env.hooks) (hok : LROk env.g env.settings)
    (rule : String) (inp : List UInt8) (u n : Nat) {v : Val} {s : St} {g : Global}
    (h : parseAdvanced env n rule inp u = some (.ok v s, g)) :
    ∃ m, PMLR.parse env u m rule inp = some (.ok v (Spec.clr s)) :=
  C02_parseLR env hp hok rule inp u n h

/-! ## non-vacuity (BEGIN) -/
namespace C02_nv
open Peg.NV Peg.PathExamples

/-! instance 1: `PathExamples.exEnv` (Proofs/PathMatches.lean)
    `X = 'x'; Y = 'y'; R = (a:X b:Y 'z' | a:X) {c:Y} [d:X 'q'] !(X 'q') {v:X | v:Y};` on `"xyyxyx"`:
    an abandoned alternative, an abandoned optional, a lookahead, two closures, a two-type field -/

def RF : List FieldDesc := ownFields exEnv (.incl "R")
def ctxR : Ctx := ⟨false, RF⟩

example : RF = [⟨"a", [("X", false)], .one⟩, ⟨"b", [("Y", false)], .optional⟩, ⟨"c", [("Y", false)], .multiple⟩,
     ⟨"d", [("X", false)], .optional⟩, ⟨"v", [("X", false), ("Y", false)], .multiple⟩] := by decide +kernel

/-- the hypotheses of `C02_tree` -/
theorem hget : getFields exEnv.g exEnv.nf (.incl "R") = .ok RF := getFields_ok_of (by decide +kernel)
theorem hn : (ctxR.ruleFields.map (·.name)).Nodup := by decide +kernel
example : PureHooks exEnv.hooks ∧ NoLeftrec exEnv.g := ⟨pure_default, noLeftrec_of (by decide)⟩

/-- `C02_tree` instantiated: the reference run succeeds at offset 6 and its `Parsed` is the shaping of the path
    matches -/
example : ∃ p s', (Spec.eval exEnv 0 8).expr ctxR (.incl "R") (St.new exInp) = some (.ok p s') ∧ s'.off = 6 ∧
    ∃ ms, (PM.eval exEnv 0 8).expr ctxR (.incl "R") (St.new exInp) = some (.ok ms s') ∧
      shapeParsed RF (filterRuleFields RF RF) ms = some p ∧ PathOk RF ms := by
  obtain ⟨p, s', h, hp⟩ := sok_of (o := (Spec.eval exEnv 0 8).expr ctxR (.incl "R") (St.new exInp))
    (fun _ s => s.off == 6) (by decide +kernel)
  exact ⟨p, s', h, by simpa using hp, C02_tree exEnv 0 8 hn hget (SubFields.refl _) h⟩

/-- the matches in question (six of them; the abandoned `a:X b:Y`, `d:X` and the `X` in the lookahead are absent) -/
example : (match (PM.eval exEnv 0 8).expr ctxR (.incl "R") (St.new exInp) with
    | some (.ok ms s) => ms.map (fun m => (m.key, m.typ)) == [("a", "X"), ("c", "Y"), ("c", "Y"), ("v", "X"), ("v", "Y"), ("v", "X")]
        && s.off == 6
    | _ => false) = true := by decide +kernel

/-- `C02_rule` and `C02_parse` instantiated -/
example : ∃ v s, (Spec.eval exEnv 0 8).rule "R" (St.new exInp) = some (.ok v s) ∧
    (PM.eval exEnv 0 8).rule "R" (St.new exInp) = some (.ok v s) ∧
    v.render = "R { a: X, b: None, c: [Y, Y], d: None, v: [X(X), Y(Y), X(X)] }" := by
  obtain ⟨v, s, h, hp⟩ := sok_of (o := (Spec.eval exEnv 0 8).rule "R" (St.new exInp))
    (fun v _ => v.render == "R { a: X, b: None, c: [Y, Y], d: None, v: [X(X), Y(Y), X(X)] }") (by decide +kernel)
  exact ⟨v, s, h, C02_rule exEnv 0 8 h, by simpa using hp⟩

example : ∃ v s g, parseAdvanced exEnv 8 "R" exInp 0 = some (.ok v s, g) ∧ s.off = 6 ∧
    ∃ m, PM.parse exEnv 0 m "R" exInp = some (.ok v (Spec.clr s)) := by
  obtain ⟨v, s, g, h, hp⟩ := ok_of (o := parseAdvanced exEnv 8 "R" exInp 0) (fun _ s _ => s.off == 6) (by decide +kernel)
  exact ⟨v, s, g, h, by simpa using hp, C02_parse exEnv pure_default (noLeftrec_of (by decide)) "R" exInp 0 8 h⟩

/-- `C02_lookahead_no_trace`: the lookahead `!(X 'q')` of `R` at offset 3 (`"xyx"` remains: `X` matches, `'q'` does
    not, so the lookahead succeeds) over the real evaluator -/
def la : Expr := .seq [.field none false "X", lx 'q']
def s3 : St := ⟨exInp.drop 3, 3, none⟩
example : ∃ ms s', PM.stepExpr exEnv (PM.eval exEnv 0 5) 5 ctxR (.neg la) s3 = some (.ok ms s') ∧ ms = [] ∧ s' = s3 := by
  obtain ⟨ms, s', h, -⟩ := sok_of (o := PM.stepExpr exEnv (PM.eval exEnv 0 5) 5 ctxR (.neg la) s3)
    (fun _ _ => true) (by decide)
  exact ⟨ms, s', h, (C02_lookahead_no_trace exEnv (PM.eval exEnv 0 5) 5 ctxR la s3 s').1 h⟩

/-- `C02_variant`: the match `v:Y` of the two-type field `v` -/
example : ∃ f w, findField RF "v" = some f ∧ f.types.length > 1 ∧ wrapMatch RF ⟨"v", "Y", Y⟩ = some w ∧
    ∃ x, w = .variant "Y" x ∧ (x = Y ∨ x = .boxed Y) := by
  have hf : findField RF "v" = some ⟨"v", [("X", false), ("Y", false)], .multiple⟩ := by decide +kernel
  have hw : wrapMatch RF ⟨"v", "Y", Y⟩ = some (.variant "Y" Y) := by
    unfold wrapMatch; rw [hf]; rfl
  exact ⟨_, _, hf, by decide, hw, C02_variant (m := ⟨"v", "Y", Y⟩) hf (by decide) hw⟩

/-! instance 2: `NV` grammar with `@position` on `Num`, plus an override rule `Item = @:Num | @:Word` -/

def envP : Env := envWith [] [.position] default

/-- `C02_string`: `@string @position Num` on `"12+"` yields the slice `"12"` and the range 0..2 -/
example : ∃ v s', Spec.ruleBody envP 0 (Spec.eval envP 0 10) (ruleNum [.position]) (St.new [49, 50, 43]) = some (.ok v s') ∧
    s'.off = 2 ∧ v = Val.node "Num" [("string", .str [49, 50])] (some (0, 2)) := by
  obtain ⟨v, s', h, hp⟩ := sok_of (o := Spec.ruleBody envP 0 (Spec.eval envP 0 10) (ruleNum [.position]) (St.new [49, 50, 43]))
    (fun _ s => s.off == 2 && s.rest == [43]) (by decide)
  have hv := C02_string (r0 := ruleNum [.position]) rfl h
  simp only [Bool.and_eq_true, beq_iff_eq] at hp
  refine ⟨v, s', h, hp.1, ?_⟩
  rw [hv]
  simp [ruleNum, Rule.flags, RuleFlags.add, St.sliceUntil, St.new, hp.1]

/-- `C02_char`: the builtin `char` on `"éx"` -/
example : ∃ v s', Spec.stepRule envP 0 (Spec.eval envP 0 1) "char" (St.new (enc ['é', 'x'])) = some (.ok v s') ∧
    ∃ c, decodeHead (enc ['é', 'x']) = some c ∧ v = .chr c ∧ s'.off = 0 + c.utf8Size := by
  obtain ⟨v, s', h, -⟩ := sok_of (o := Spec.stepRule envP 0 (Spec.eval envP 0 1) "char" (St.new (enc ['é', 'x'])))
    (fun _ s => s.off == 2) (by decide)
  exact ⟨v, s', h, C02_char (by decide) h⟩
example : decodeHead (enc ['é', 'x']) = some 'é' := by decide

/-- `C02_override`: `Item = @:Num | @:Word` (a two-type override field) on `"ab"` -/
def ruleItem : Rule := ⟨[], "Item", .choice [.seq [.field (some .override) false "Num"],
                                            .seq [.field (some .override) false "Word"]]⟩
def envO : Env := { g := ⟨[.rule ruleItem, .rule (ruleNum []), .rule ruleWord]⟩, settings := {}, hooks := default, nf := 10 }
def fO : FieldDesc := ⟨"_override", [("Num", false), ("Word", false)], .one⟩
theorem hgetO : getFields envO.g envO.nf ruleItem.definition = .ok [fO] := by
  have := getFields_ok_of (env := envO) (e := ruleItem.definition) (by decide +kernel)
  rw [this]; congr 1; decide +kernel
example : ∃ v s', PM.ruleBody envO 0 (PM.eval envO 0 14) ruleItem (St.new [97, 98]) = some (.ok v s') ∧
    v.render = "Word(S\"6162\")" ∧
    ∃ ms, (PM.eval envO 0 14).expr ⟨true, [fO]⟩ ruleItem.definition (St.new [97, 98]) = some (.ok ms s') ∧
      shapeField [fO] fO (ms.filter (·.key == "_override")) = some v := by
  obtain ⟨v, s', h, hp⟩ := sok_of (o := PM.ruleBody envO 0 (PM.eval envO 0 14) ruleItem (St.new [97, 98]))
    (fun v _ => v.render == "Word(S\"6162\")") (by decide +kernel)
  exact ⟨v, s', h, by simpa using hp, C02_override hgetO rfl rfl h⟩

end C02_nv
/-! ## non-vacuity (END) -/

end Peg.Props
