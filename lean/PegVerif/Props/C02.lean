import PegVerif.Proofs.PathMatches
/-
  C02 – the returned tree holds exactly the matches on the successful path, in order.

  `PM.eval` is a second reference evaluator with *no field plumbing at all*: every construct returns
  the list of field matches on its successful path (sequence = concatenation in order, choice = the
  matches of the first alternative that succeeded, optional = body's or none, closure =
  concatenation over successful iterations, lookaheads/terminals/unnamed references = none, named
  field = one match carrying the type that matched), and a rule shapes the list once, at the end, by
  the rule-level arity (`shapeParsed`).  The generated plumbing (sequence bind/extend, choice result
  converters with defaults, optional defaults, closure extend, box/enum-wrap/Some/vec!) computes
  exactly that.
-/
namespace Peg.Props
open Peg

/-- **Main theorem** (expression level): the `Parsed` value a construct returns is the shaping of
    the matches on its successful path. -/
theorem C02_tree (env : Env) (u n : Nat) {ctx : Ctx} {e : Expr} {own : List FieldDesc} {s s' : St} {p : Parsed}
    (hn : (ctx.ruleFields.map (·.name)).Nodup) (hget : getFields env.g env.nf e = .ok own)
    (hsub : SubFields own ctx.ruleFields)
    (h : (Spec.eval env u n).expr ctx e s = some (.ok p s')) :
    ∃ ms, (PM.eval env u n).expr ctx e s = some (.ok ms s') ∧
      shapeParsed ctx.ruleFields (filterRuleFields ctx.ruleFields own) ms = some p ∧ PathOk own ms :=
  Peg.C02_tree env u n hn hget hsub h

/-- rule level, no hypothesis on the grammar: the two reference semantics return the same value -/
theorem C02_rule (env : Env) (u n : Nat) {name s r}
    (h : (Spec.eval env u n).rule name s = some r) : (PM.eval env u n).rule name s = some r :=
  Peg.C02_rule env u n h

/-- **The generated parser** (model, any memo set) returns the tree built from the matches on the
    successful path. -/
theorem C02_parse (env : Env) (hp : PureHooks env.hooks) (hnl : NoLeftrec env.g) (rule : String)
    (inp : List UInt8) (u n : Nat) {v : Val} {s : St} {g : Global}
    (h : parseAdvanced env n rule inp u = some (.ok v s, g)) :
    ∃ m, PM.parse env u m rule inp = some (.ok v (Spec.clr s)) :=
  Peg.C02_parse env hp hnl rule inp u n h

/-- abandoned lookaheads leave no trace: a lookahead contributes no match and consumes nothing
    (for alternatives, optionals and closure iterations see `PM.evalAlts_failed`, `PM.opt_failed`,
    `PM.evalLoop_last` in Proofs/PathMatches.lean) -/
theorem C02_lookahead_no_trace (env : Env) (rec : PM.PRec) (n : Nat) (ctx : Ctx) (b : Expr) (s s' : St)
    {ms : List FMatch} :
    (PM.stepExpr env rec n ctx (.neg b) s = some (.ok ms s') → ms = [] ∧ s' = s) ∧
    (PM.stepExpr env rec n ctx (.pos b) s = some (.ok ms s') → ms = [] ∧ s' = s) :=
  PM.lookahead_no_match env rec n ctx b s s'

/-- a multi-type field carries the variant named after the rule that actually matched -/
theorem C02_variant {RF : List FieldDesc} {m : FMatch} {f : FieldDesc} {w : Val}
    (hf : findField RF m.key = some f) (hlen : f.types.length > 1) (h : wrapMatch RF m = some w) :
    ∃ x, w = .variant m.typ x ∧ (x = m.val ∨ x = .boxed m.val) :=
  wrapMatch_variant hf hlen h

/-- `@string` rules yield exactly the input slice they consumed -/
theorem C02_string {env : Env} {u : Nat} {rec : Spec.SRec} {r0 : Rule} {s s' : St} {v : Val}
    (hstr : r0.flags.string = true) (h : Spec.ruleBody env u rec r0 s = some (.ok v s')) :
    v = (if r0.flags.position then
          Val.node r0.name [("string", .str (s.sliceUntil s'))] (some (s.off, s'.off))
        else .str (s.sliceUntil s')) :=
  string_rule_value hstr h

/-- `char` yields the character consumed -/
theorem C02_char {env : Env} {u : Nat} {rec : Spec.SRec} {s s' : St} {v : Val}
    (hno : env.g.find "char" = none) (h : Spec.stepRule env u rec "char" s = some (.ok v s')) :
    ∃ c, decodeHead s.rest = some c ∧ v = .chr c ∧ s'.off = s.off + c.utf8Size :=
  builtin_char_value hno h

/-- override rules yield the overridden value itself (shaped by the arity of the `@:` field) -/
theorem C02_override {env : Env} {u : Nat} {rec : PM.PRec} {r0 : Rule} {f : FieldDesc} {s s' : St} {v : Val}
    (hget : getFields env.g env.nf r0.definition = .ok [f]) (hname : f.name = "_override")
    (hstr : r0.flags.string = false) (h : PM.ruleBody env u rec r0 s = some (.ok v s')) :
    ∃ ms, rec.expr ⟨env.settings.skipWhitespace && !r0.flags.noSkipWs, [f]⟩ r0.definition s = some (.ok ms s') ∧
      shapeField [f] f (ms.filter (·.key == "_override")) = some v :=
  override_rule_value hget hname hstr h

end Peg.Props
