import PegVerif.Proofs.PrettyProofs
/-
  C11 – pretty errors point at the line and column of the error position.

  Model: Pretty.lean (`PrettyParseError::from_parse_error` after fix F2), tied to the real code by
  the exhaustive `unitdiff` table (all texts over {a, é, \n, space} up to length 5/7 × all boundary
  positions, Display output compared byte for byte, plus an independent oracle computed from the
  property statement).
-/
namespace Peg.Props
open Peg Peg.Pretty

/-- **Line and column.** For every text `pre ++ post` and the error position at the boundary
    between them: the reported line number is the number of newlines before the position (+1 when
    printed), the column is the number of characters since the last newline (+1 when printed), and
    the printed line is the text between the surrounding newlines. -/
theorem C11_linecol (pre post : List Char) :
    (locate (pre ++ post) (enc pre).length).lineno = pre.count '\n' ∧
    (locate (pre ++ post) (enc pre).length).col = (afterLastNewline pre).length ∧
    (locate (pre ++ post) (enc pre).length).line = afterLastNewline pre ++ post.takeWhile (· ≠ '\n') :=
  Pretty.C11_linecol pre post

/-- `afterLastNewline pre` really is the part of `pre` after its last newline -/
theorem C11_after_last_newline (pre : List Char) :
    ∃ before, pre = before ++ afterLastNewline pre ∧ '\n' ∉ afterLastNewline pre ∧
      (before = [] ∨ ∃ b, before = b ++ ['\n']) :=
  afterLastNewline_spec pre

/-- **Never panics / any position.** The conversion is total; a position that is not a boundary or
    lies beyond the text is clamped to the largest boundary not after it (so slicing is safe). -/
theorem C11_any_position (text : List Char) (pos : Nat) :
    ∃ pre post, text = pre ++ post ∧ (enc pre).length ≤ pos ∧
      (post = [] ∨ ∃ c r, post = c :: r ∧ pos < (enc pre).length + c.utf8Size) ∧
      locate text pos = locate text (enc pre).length :=
  C11_offboundary text pos

/-- **The caret is under the column**: the output ends with the printed line and, below it, the
    same four-character gutter followed by `col` spaces and the caret. -/
theorem C11_caret_under_column (e : PErr) (text : List Char) (file : Option String) :
    ∃ head, render e text file = head ++ "\n |  " ++ String.ofList (trimEnd (locate text e.pos).line) ++ "\n" ++
      (" |  " ++ String.ofList (List.replicate (locate text e.pos).col ' ') ++ "^\n") :=
  C11_caret e text file

/-- the four inputs on which the unfixed code failed, and a multi-byte one -/
example : locate [] 0 = ⟨0, 0, []⟩ := by decide
example : locate "abc".toList 3 = ⟨0, 3, "abc".toList⟩ := by decide
example : locate "abc\n".toList 4 = ⟨1, 0, []⟩ := by decide
example : locate "a\nb".toList 2 = ⟨1, 0, ['b']⟩ := by decide
example : locate "é\nx€y".toList 7 = ⟨1, 2, "x€y".toList⟩ := by decide

/-! ## non-vacuity (BEGIN) -/
namespace C11_nv

/-! all C11 theorems are unconditional; instantiated on the two-line multi-byte text `"é\nx€" ++ "y\nz"`
    (error position at byte 7 = after `é`, newline, `x`, `€`) -/
def pre : List Char := "é\nx€".toList
def post : List Char := "y\nz".toList

example : (locate (pre ++ post) (enc pre).length).lineno = pre.count '\n' ∧
    (locate (pre ++ post) (enc pre).length).col = (afterLastNewline pre).length ∧
    (locate (pre ++ post) (enc pre).length).line = afterLastNewline pre ++ post.takeWhile (· ≠ '\n') :=
  C11_linecol pre post
/-- … which says: line 1 (0-based), column 2, line text `x€y` -/
example : (enc pre).length = 7 ∧ pre.count '\n' = 1 ∧ afterLastNewline pre = "x€".toList ∧
    locate (pre ++ post) 7 = ⟨1, 2, "x€y".toList⟩ := by decide

example : ∃ before, pre = before ++ afterLastNewline pre ∧ '\n' ∉ afterLastNewline pre ∧
    (before = [] ∨ ∃ b, before = b ++ ['\n']) := C11_after_last_newline pre

/-- a position inside the 3-byte `€` (byte 5) and one beyond the text (byte 99) are clamped -/
example : ∃ p q, pre ++ post = p ++ q ∧ (enc p).length ≤ 5 ∧
    (q = [] ∨ ∃ c r, q = c :: r ∧ 5 < (enc p).length + c.utf8Size) ∧
    locate (pre ++ post) 5 = locate (pre ++ post) (enc p).length := C11_any_position (pre ++ post) 5
example : locate (pre ++ post) 5 = ⟨1, 1, "x€y".toList⟩ ∧ locate (pre ++ post) 99 = ⟨2, 1, "z".toList⟩ := by decide

/-- the rendered message for the error `⟨7, expected ';'⟩`, and the caret under column 2 -/
example : ∃ head, render ⟨7, .expectedCharacter ';'⟩ (pre ++ post) (some "g.ebnf") =
    head ++ "\n |  " ++ String.ofList (trimEnd (locate (pre ++ post) 7).line) ++ "\n" ++
      (" |  " ++ String.ofList (List.replicate (locate (pre ++ post) 7).col ' ') ++ "^\n") :=
  C11_caret_under_column ⟨7, .expectedCharacter ';'⟩ (pre ++ post) (some "g.ebnf")
example : render ⟨7, .expectedCharacter ';'⟩ (pre ++ post) (some "g.ebnf") =
    "expected character ';'\n--> g.ebnf:2:3\n |  \n |  x€y\n |    ^\n" := by decide +kernel

end C11_nv
/-! ## non-vacuity (END) -/

end Peg.Props
