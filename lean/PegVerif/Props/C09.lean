import PegVerif.Proofs.Positions
import PegVerif.Proofs.NonVacuity
/-
  C09 – `@position` ranges are exactly the byte span the rule consumed.
  Model: `ruleBody` in Eval.lean (range measured between the entry state – after the caller's
  whitespace skip – and the state after the body; cache hits replay the stored value).
-/
namespace Peg.Props
open Peg

/-- **Exact range.** For a `@position` rule called at state `s` and finishing at `s'`: the recorded
    range is `(s.off, s'.off)`; for `@string @position` the recorded string is exactly the input
    slice between the two offsets.  Holds also when the answer comes from the cache. -/
theorem C09_range {env : Env} {inp : List UInt8} {n : Nat} {name : String} {r : Rule} {s s' : St}
    {g g' : Global} {v : Val} (hf : env.g.find name = some (.rule r)) (hpos : r.flags.position = true)
    (h : (eval env n).rule name s g = some (.ok v s', g')) (hw : WfSt inp s) (hg : CachePos env inp g) :
    (r.flags.string = true →
      v = .node r.name [("string", .str (s.sliceUntil s'))] (some (s.off, s'.off)) ∧
      s.sliceUntil s' = (inp.drop s.off).take (s'.off - s.off)) ∧
    (r.flags.string = false → r.isOverride env = false → ∃ fs, v = .node r.name fs (some (s.off, s'.off))) :=
  let ⟨h1, h2, _⟩ := Peg.C09_range hf hpos h hw hg
  ⟨h1, h2⟩

/-- for the exported root the range starts at 0 -/
theorem C09_root {env : Env} {inp : List UInt8} {n : Nat} {name : String} {r : Rule} {u : Nat} {s' : St}
    {g' : Global} {v : Val} (hf : env.g.find name = some (.rule r)) (hpos : r.flags.position = true)
    (h : parseAdvanced env n name inp u = some (.ok v s', g')) :
    (r.flags.string = true → v = .node r.name [("string", .str (inp.take s'.off))] (some (0, s'.off))) ∧
    (r.flags.string = false → r.isOverride env = false → ∃ fs, v = .node r.name fs (some (0, s'.off))) :=
  C09_range_parse hf hpos h

/-- no construct returns a state before its entry state -/
theorem C09_offsets_monotone {env : Env} {n : Nat} {name : String} {s s' : St} {g g' : Global} {v : Val}
    (h : (eval env n).rule name s g = some (.ok v s', g')) (hg : CacheMono g) : s.off ≤ s'.off :=
  (offsets_monotone_rule h hg).1

/-- **Nesting.** Every range recorded anywhere inside the value of an evaluation from `s` to `s'`
    lies within `[s.off, s'.off]`; in particular children lie inside their parent. -/
theorem C09_nested {env : Env} (hext : ExternNoPos env.hooks) {n : Nat} {name : String} {s s' : St}
    {g g' : Global} {v : Val} (h : (eval env n).rule name s g = some (.ok v s', g')) (hg : CacheIn g) :
    ValIn s.off s'.off v :=
  (C09_nested_rule hext h hg).2.1

theorem C09_nested_root {env : Env} (hext : ExternNoPos env.hooks) {n : Nat} {rule : String} {inp : List UInt8}
    {u : Nat} {v : Val} {s' : St} {g' : Global} (h : parseAdvanced env n rule inp u = some (.ok v s', g')) :
    ValIn 0 s'.off v :=
  C09_nested_parse hext h

/-- **Order.** The values contributed by two successive parts of a sequence lie in consecutive,
    non-overlapping intervals, in input order. -/
theorem C09_ordered {env : Env} {rec : Rec} (hrec : RecV ValIn rec) {ctx : Ctx} (p q : Expr) {s g seen' acc' s' g'}
    (hg : CacheIn g) (h : evalSeq env rec ctx [p, q] [] [] s g = some (.ok (seen', acc') s', g')) :
    ∃ r1 t g1 r2,
      rec.expr ctx p s g = some (.ok r1 t, g1) ∧ rec.expr ctx q t g1 = some (.ok r2 s', g') ∧
      s.off ≤ t.off ∧ t.off ≤ s'.off ∧ AllV (ValIn s.off t.off) r1 ∧ AllV (ValIn t.off s'.off) r2 :=
  C09_ordered_two hrec p q hg h

/-! ## non-vacuity (BEGIN) -/
namespace C09_nv
open Peg.NV

/-! instance: `@export @position S = first:Num {'+' rest:Num} | word:Word; @string @position @memoize Num = {'0'..'9'}+; …`
    on `"1 + 23"` – the second `Num` is entered at offset 4, after the caller skipped the blank at offset 3 -/
def envP : Env := envWith [.position] [.position, .memoize] default
theorem hfS : envP.g.find "S" = some (.rule (ruleS [.position])) := rfl
theorem hfN : envP.g.find "Num" = some (.rule (ruleNum [.position, .memoize])) := rfl
theorem hext : ExternNoPos envP.hooks := fun _ _ _ _ _ _ h => by cases h

/-- the run: nested ranges, children inside the parent, in input order -/
example : show' (parseAdvanced envP 20 "S" inp1 0) =
    some ("S { first: Some(Num { string: S\"31\", position: 0..1 }), rest: [Num { string: S\"3233\", position: 4..6 }], word: None, position: 0..6 }", 6) := by
  decide +kernel

/-- `C09_root` / `C09_nested_root` instantiated -/
example : ∃ v s' g', parseAdvanced envP 20 "S" inp1 0 = some (.ok v s', g') ∧ s'.off = 6 ∧
    (∃ fs, v = .node "S" fs (some (0, s'.off))) ∧ ValIn 0 s'.off v := by
  obtain ⟨v, s', g', h, hp⟩ := ok_of (o := parseAdvanced envP 20 "S" inp1 0) (fun _ s _ => s.off == 6) (by decide)
  exact ⟨v, s', g', h, by simpa using hp, (C09_root hfS rfl h).2 rfl (by decide), C09_nested_root hext h⟩

/-! `C09_range` for `Num` entered at offset 4, twice: from the fresh global (body evaluated), and again from the global
    that run left (answered from the cache, `CachePos` of that global comes from the first application) -/
def s4 : St := ⟨inp1.drop 4, 4, none⟩
theorem s4_wf : WfSt inp1 s4 := wf_of (by decide)
theorem first_some : ((eval envP 20).rule "Num" s4 (Global.init 0)).isSome = true := by decide
def g1 : Global := (((eval envP 20).rule "Num" s4 (Global.init 0)).get first_some).2
example : (g1.lookup ("Num", 4)).isSome = true := by decide

example : ∃ v s' g', (eval envP 20).rule "Num" s4 (Global.init 0) = some (.ok v s', g') ∧ g' = g1 ∧ s'.off = 6 ∧
    v = .node "Num" [("string", .str (s4.sliceUntil s'))] (some (4, s'.off)) ∧
    s4.sliceUntil s' = (inp1.drop 4).take (s'.off - 4) ∧ CachePos envP inp1 g' := by
  obtain ⟨v, s', g', h, hp⟩ := ok_of (o := (eval envP 20).rule "Num" s4 (Global.init 0)) (fun _ s _ => s.off == 6) (by decide)
  have hg1 : g' = g1 := by
    have e := h.symm.trans (run_eq first_some)
    simp only [Option.some.injEq, Prod.mk.injEq] at e; exact e.2
  have h9 := Peg.C09_range hfN rfl h s4_wf (CachePos.init envP inp1 0)
  have := (C09_range hfN rfl h s4_wf (CachePos.init envP inp1 0)).1 rfl
  exact ⟨v, s', g', h, hg1, by simpa using hp, this.1, this.2, h9.2.2.2⟩

theorem g1_pos : CachePos envP inp1 g1 := by
  have h9 := Peg.C09_range hfN rfl (run_eq first_some) s4_wf (CachePos.init envP inp1 0)
  exact h9.2.2.2
example : ∃ v s' g', (eval envP 20).rule "Num" s4 g1 = some (.ok v s', g') ∧ hits g'.log = 1 ∧ s'.off = 6 ∧
    v = .node "Num" [("string", .str (s4.sliceUntil s'))] (some (4, s'.off)) := by
  obtain ⟨v, s', g', h, hp⟩ := ok_of (o := (eval envP 20).rule "Num" s4 g1) (fun _ s g => hits g.log == 1 && s.off == 6)
    (by decide)
  simp only [Bool.and_eq_true, beq_iff_eq] at hp
  exact ⟨v, s', g', h, hp.1, hp.2, ((C09_range hfN rfl h s4_wf g1_pos).1 rfl).1⟩
example : (match (eval envP 20).rule "Num" s4 g1 with
    | some (.ok v _, _) => v.render == "Num { string: S\"3233\", position: 4..6 }" | _ => false) = true := by decide +kernel

/-- `C09_offsets_monotone` / `C09_nested` for the same call, from the non-empty cache -/
theorem g1_in : CacheIn g1 := (C09_nested_rule hext (run_eq first_some) (CacheIn.init 0)).2.2
example : ∃ v s' g', (eval envP 20).rule "Num" s4 g1 = some (.ok v s', g') ∧ s4.off ≤ s'.off ∧ ValIn 4 s'.off v := by
  obtain ⟨v, s', g', h, -⟩ := ok_of (o := (eval envP 20).rule "Num" s4 g1) (fun _ _ _ => true) (by decide)
  exact ⟨v, s', g', h, C09_offsets_monotone h (fun n o v s hl => (g1_in n o v s hl).1), C09_nested hext h g1_in⟩

/-- `C09_ordered`: the two parts `first:Num` and `{'+' rest:Num}` of the first alternative of `S` -/
def ctxS : Ctx := ⟨true, ownFields envP (ruleS [.position]).definition⟩
def p1 : Expr := .field (some (.ident "first")) false "Num"
def p2 : Expr := .closure (.choice [.seq [lit '+', .field (some (.ident "rest")) false "Num"]]) false
example : ∃ r1 t g1 r2 s' g', (eval envP 19).expr ctxS p1 (St.new inp1) (Global.init 0) = some (.ok r1 t, g1) ∧
    (eval envP 19).expr ctxS p2 t g1 = some (.ok r2 s', g') ∧ t.off = 1 ∧ s'.off = 6 ∧
    AllV (ValIn 0 t.off) r1 ∧ AllV (ValIn t.off s'.off) r2 := by
  obtain ⟨x, s', g', h, hp⟩ := ok_of (o := evalSeq envP (eval envP 19) ctxS [p1, p2] [] [] (St.new inp1) (Global.init 0))
    (fun _ s _ => s.off == 6) (by decide)
  obtain ⟨r1, t, g1, r2, h1, h2, -, -, a1, a2⟩ :=
    C09_ordered (eval_V ValPred.valIn envP hext 19) p1 p2 (CacheIn.init 0) h
  have ht : t.off = 1 := by
    obtain ⟨_, t', _, h1', ht'⟩ := ok_of (o := (eval envP 19).expr ctxS p1 (St.new inp1) (Global.init 0))
      (fun _ s _ => s.off == 1) (by decide)
    rw [h1] at h1'; simp only [Option.some.injEq, Prod.mk.injEq, Res.ok.injEq] at h1'
    rw [h1'.1.2]; simpa using ht'
  exact ⟨r1, t, g1, r2, s', g', h1, h2, ht, by simpa using hp, a1, a2⟩

end C09_nv
/-! ## non-vacuity (END) -/

end Peg.Props
