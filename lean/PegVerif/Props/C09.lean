import PegVerif.Proofs.Positions
/-
  C09 – `@position` ranges are exactly the byte span the rule consumed.
  Model: `ruleBody` in Eval.lean (range measured between the entry state – after the caller's
  whitespace skip – and the state after the body; cache hits replay the stored value).
-/
namespace Peg.Props
open Peg

/-- **Exact range.** For a `@position` rule called at state `s` and finishing at `s'`: the recorded
    range is `(s.off, s'.off)`; for `@string @position` the recorded string is exactly the input
    slice between the two offsets.  Holds also when the answer comes from the cache. -/
theorem C09_range {env : Env} {inp : List UInt8} {n : Nat} {name : String} {r : Rule} {s s' : St}
    {g g' : Global} {v : Val} (hf : env.g.find name = some (.rule r)) (hpos : r.flags.position = true)
    (h : (eval env n).rule name s g = some (.ok v s', g')) (hw : WfSt inp s) (hg : CachePos env inp g) :
    (r.flags.string = true →
      v = .node r.name [("string", .str (s.sliceUntil s'))] (some (s.off, s'.off)) ∧
      s.sliceUntil s' = (inp.drop s.off).take (s'.off - s.off)) ∧
    (r.flags.string = false → r.isOverride env = false → ∃ fs, v = .node r.name fs (some (s.off, s'.off))) :=
  let ⟨h1, h2, _⟩ := Peg.C09_range hf hpos h hw hg
  ⟨h1, h2⟩

/-- for the exported root the range starts at 0 -/
theorem C09_root {env : Env} {inp : List UInt8} {n : Nat} {name : String} {r : Rule} {u : Nat} {s' : St}
    {g' : Global} {v : Val} (hf : env.g.find name = some (.rule r)) (hpos : r.flags.position = true)
    (h : parseAdvanced env n name inp u = some (.ok v s', g')) :
    (r.flags.string = true → v = .node r.name [("string", .str (inp.take s'.off))] (some (0, s'.off))) ∧
    (r.flags.string = false → r.isOverride env = false → ∃ fs, v = .node r.name fs (some (0, s'.off))) :=
  C09_range_parse hf hpos h

/-- no construct returns a state before its entry state -/
theorem C09_offsets_monotone {env : Env} {n : Nat} {name : String} {s s' : St} {g g' : Global} {v : Val}
    (h : (eval env n).rule name s g = some (.ok v s', g')) (hg : CacheMono g) : s.off ≤ s'.off :=
  (offsets_monotone_rule h hg).1

/-- **Nesting.** Every range recorded anywhere inside the value of an evaluation from `s` to `s'`
    lies within `[s.off, s'.off]`; in particular children lie inside their parent. -/
theorem C09_nested {env : Env} (hext : ExternNoPos env.hooks) {n : Nat} {name : String} {s s' : St}
    {g g' : Global} {v : Val} (h : (eval env n).rule name s g = some (.ok v s', g')) (hg : CacheIn g) :
    ValIn s.off s'.off v :=
  (C09_nested_rule hext h hg).2.1

theorem C09_nested_root {env : Env} (hext : ExternNoPos env.hooks) {n : Nat} {rule : String} {inp : List UInt8}
    {u : Nat} {v : Val} {s' : St} {g' : Global} (h : parseAdvanced env n rule inp u = some (.ok v s', g')) :
    ValIn 0 s'.off v :=
  C09_nested_parse hext h

/-- **Order.** The values contributed by two successive parts of a sequence lie in consecutive,
    non-overlapping intervals, in input order. -/
theorem C09_ordered {env : Env} {rec : Rec} (hrec : RecV ValIn rec) {ctx : Ctx} (p q : Expr) {s g seen' acc' s' g'}
    (hg : CacheIn g) (h : evalSeq env rec ctx [p, q] [] [] s g = some (.ok (seen', acc') s', g')) :
    ∃ r1 t g1 r2,
      rec.expr ctx p s g = some (.ok r1 t, g1) ∧ rec.expr ctx q t g1 = some (.ok r2 s', g') ∧
      s.off ≤ t.off ∧ t.off ≤ s'.off ∧ AllV (ValIn s.off t.off) r1 ∧ AllV (ValIn t.off s'.off) r2 :=
  C09_ordered_two hrec p q hg h

end Peg.Props
