import PegVerif.Proofs.RefineRule
/-
  C14 – user check and extern functions decide matches exactly as documented.
  In the reference semantics (`Spec`) checks and externs are semantic predicates; `eval_ref` (see
  C01) shows the model of the generated code computes exactly that.  The hook-call log with
  arguments is compared against the real code by the `pegdiff` hooks family.
-/
namespace Peg.Props
open Peg Spec

/-- a rule with `@check` functions matches exactly when every check returns true for the value the
    rule produced; the value and the end state are unchanged by the checks -/
theorem C14_checks (env : Env) (u : Nat) (fs : List (List String)) (v : Val) (s : St) :
    Spec.runChecks env u fs v s =
      if fs.all (fun f => (env.hooks.check ("::".intercalate f) v u).1) then some (.ok v s) else some (.err noErr) := by
  induction fs with
  | nil => simp [Spec.runChecks]
  | cons f fs ih =>
    simp only [Spec.runChecks, List.all_cons]
    by_cases hb : (env.hooks.check ("::".intercalate f) v u).1 = true
    · simp [hb, ih]
    · simp [hb]

/-- in the generated code a failed check is an ordinary error reported at the offset the rule had
    reached (the caller keeps its own state and backtracks as for any failure) -/
theorem C14_check_failure_is_error (env : Env) (f : List String) (fs : List (List String)) (v : Val) (s : St) (g : Global)
    (hb : (env.hooks.check ("::".intercalate f) v g.uctx).1 = false) :
    ∃ g', runChecks env (f :: fs) v s g =
      some (.err (s.reportError (.checkFunctionFailed ("::".intercalate f))), g') := by
  simp [runChecks, hb]

/-- `@char` rule checks see the next character and run before the alternatives: with checks, the
    rule fails at end of input and whenever some check rejects the next character -/
theorem C14_char_checks (env : Env) (rec : SRec) (r : CharRule) (s : St) (hne : r.directives.isEmpty = false) :
    Spec.charRule env rec r s =
      match decodeHead s.rest with
      | none => some (.err noErr)
      | some c => if Spec.charChecksOk env r.directives c then Spec.charParts rec r.choices s else some (.err noErr) := by
  simp only [Spec.charRule, hne, Bool.false_eq_true, if_false]
  rfl

/-- an `@extern` rule matches exactly when its function returns Ok, yields that value and consumes
    exactly the returned number of bytes; the function receives the remaining input at the current
    offset (and the user context) -/
theorem C14_extern (env : Env) (u : Nat) (r : ExternRule) (s : St) :
    Spec.externRule env u r s =
      match (env.hooks.extern ("::".intercalate r.function) s.rest u).1 with
      | .ok (v, adv) => some (abs (s.advanceSafe adv v))
      | .error _ => some (.err noErr) := rfl

theorem C14_extern_consumes {α} (s : St) (adv : Nat) (v : α) (v' : α) (s' : St)
    (h : s.advanceSafe adv v = .ok v' s') : v' = v ∧ s'.off = s.off + adv ∧ s'.rest = s.rest.drop adv := by
  unfold St.advanceSafe at h
  split at h
  · cases h
  · split at h
    · cases h
    · cases h; exact ⟨rfl, rfl, rfl⟩

/-- the slice handed to an extern starts *after* the caller's whitespace skip: the rule is called
    with the state the skipper returned -/
theorem C14_extern_after_skip (env : Env) (rec : SRec) (n : Nat) (ctx : Ctx) (nm : Option FieldName) (bx : Bool)
    (typ : String) (s : St) (hs : ctx.skipWs = true) :
    Spec.stepExpr env rec n ctx (.field nm bx typ) s =
      bindS (rec.rule "Whitespace" s) (fun _ s1 =>
        bindS (rec.rule typ s1) fun v s' =>
          match nm with
          | none => some (.ok [] s')
          | some nm =>
            match postprocessField ctx.ruleFields nm.key typ v with
            | .ok fv => some (.ok [(nm.key, fv)] s')
            | .error m => some (.panic ("codegen: " ++ m))) := by
  simp only [Spec.stepExpr, Spec.withSkipWs, hs, if_true]
  rfl

/-- the generated code (model) implements these predicates: it refines `Spec` (with user functions
    that do not modify the context) -/
theorem C14_generated_code_refines (env : Env) (hp : PureHooks env.hooks) (hnl : NoLeftrec env.g) (inp : List UInt8)
    (u n : Nat) (name : String) (s : St) (g : Global) {r g'} (hw : WfSt inp s) (hg : Good env u inp g)
    (h : (eval env n).rule name s g = some (r, g')) :
    ∃ m, (Spec.eval env u m).rule name (clr s) = some (abs r) := by
  obtain ⟨⟨m0, h0⟩, _, _⟩ := (eval_ref (inp := inp) hp hnl n).rule name s g r g' h hw hg
  exact ⟨m0, h0 m0 (Nat.le_refl _)⟩

/-- the user context is threaded: every check call receives the context left by the previous one -/
theorem C14_context_threaded (env : Env) (f : List String) (fs : List (List String)) (v : Val) (s : St) (g : Global)
    (hb : (env.hooks.check ("::".intercalate f) v g.uctx).1 = true) :
    runChecks env (f :: fs) v s g =
      runChecks env fs v s (({ g with uctx := (env.hooks.check ("::".intercalate f) v g.uctx).2 } : Global).emit
        (.checkCall ("::".intercalate f) v.render g.uctx)) := by
  simp [runChecks, hb]

end Peg.Props
