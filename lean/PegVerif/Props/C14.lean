import PegVerif.Proofs.RefineRule
import PegVerif.Proofs.NonVacuity
/-
  C14 – user check and extern functions decide matches exactly as documented.
  In the reference semantics (`Spec`) checks and externs are semantic predicates; `eval_ref` (see
  C01) shows the model of the generated code computes exactly that.  The hook-call log with
  arguments is compared against the real code by the `pegdiff` hooks family.
-/
namespace Peg.Props
open Peg Spec

/-- a rule with `@check` functions matches exactly when every check returns true for the value the
    rule produced; the value and the end state are unchanged by the checks -/
theorem C14_checks (env : Env) (u : Nat) (fs : List (List String)) (v : Val) (s : St) :
    Spec.runChecks env u fs v s =
      if fs.all (fun f => (env.hooks.check ("::".intercalate f) v u).1) then some (.ok v s) else some (.err noErr) := by
  induction fs with
  | nil => simp [Spec.runChecks]
  | cons f fs ih =>
    simp only [Spec.runChecks, List.all_cons]
    by_cases hb : (env.hooks.check ("::".intercalate f) v u).1 = true
    · simp [hb, ih]
    · simp [hb]

/-- in the generated code a failed check is an ordinary error reported at the offset the rule had
    reached (the caller keeps its own state and backtracks as for any failure) -/
theorem C14_check_failure_is_error (env : Env) (f : List String) (fs : List (List String)) (v : Val) (s : St) (g : Global)
    (hb : (env.hooks.check ("::".intercalate f) v g.uctx).1 = false) :
    ∃ g', runChecks env (f :: fs) v s g =
      some (.err (s.reportError (.checkFunctionFailed ("::".intercalate f))), g') := by
  simp [runChecks, hb]

/-- `@char` rule checks see the next character and run before the alternatives: with checks, the
    rule fails at end of input and whenever some check rejects the next character -/
theorem C14_char_checks (env : Env) (rec : SRec) (r : CharRule) (s : St) (hne : r.directives.isEmpty = false) :
    Spec.charRule env rec r s =
      match decodeHead s.rest with
      | none => some (.err noErr)
      | some c => if Spec.charChecksOk env r.directives c then Spec.charParts rec r.choices s else some (.err noErr) := by
  simp only [Spec.charRule, hne, Bool.false_eq_true, if_false]
  rfl

/-- an `@extern` rule matches exactly when its function returns Ok, yields that value and consumes
    exactly the returned number of bytes; the function receives the remaining input at the current
    offset (and the user context) -/
theorem C14_extern (env : Env) (u : Nat) (r : ExternRule) (s : St) :
    Spec.externRule env u r s =
      match (env.hooks.extern ("::".intercalate r.function) s.rest u).1 with
      | .ok (v, adv) => some (abs (s.advanceSafe adv v))
      | .error _ => some (.err noErr) := rfl

theorem C14_extern_consumes {α} (s : St) (adv : Nat) (v : α) (v' : α) (s' : St)
    (h : s.advanceSafe adv v = .ok v' s') : v' = v ∧ s'.off = s.off + adv ∧ s'.rest = s.rest.drop adv := by
  unfold St.advanceSafe at h
  split at h
  · cases h
  · split at h
    · cases h
    · cases h; exact ⟨rfl, rfl, rfl⟩

/-- the slice handed to an extern starts *after* the caller's whitespace skip: the rule is called
    with the state the skipper returned -/
theorem C14_extern_after_skip (env : Env) (rec : SRec) (n : Nat) (ctx : Ctx) (nm : Option FieldName) (bx : Bool)
    (typ : String) (s : St) (hs : ctx.skipWs = true) :
    Spec.stepExpr env rec n ctx (.field nm bx typ) s =
      bindS (rec.rule "Whitespace" s) (fun _ s1 =>
        bindS (rec.rule typ s1) fun v s' =>
          match nm with
          | none => some (.ok [] s')
          | some nm =>
            match postprocessField ctx.ruleFields nm.key typ v with
            | .ok fv => some (.ok [(nm.key, fv)] s')
            | .error m => some (.panic ("codegen: " ++ m))) := by
  simp only [Spec.stepExpr, Spec.withSkipWs, hs, if_true]
  rfl

/-- the generated code (model) implements these predicates: it refines `Spec` (with user functions
    that do not modify the context) -/
theorem C14_generated_code_refines (env : Env) (hp : PureHooks env.hooks) (hnl : NoLeftrec env.g) (inp : List UInt8)
    (u n : Nat) (name : String) (s : St) (g : Global) {r g'} (hw : WfSt inp s) (hg : Good env u inp g)
    (h : (eval env n).rule name s g = some (r, g')) :
    ∃ m, (Spec.eval env u m).rule name (clr s) = some (abs r) := by
  obtain ⟨⟨m0, h0⟩, _, _⟩ := (eval_ref (inp := inp) hp hnl n).rule name s g r g' h hw hg
  exact ⟨m0, h0 m0 (Nat.le_refl _)⟩

/-- the user context is threaded: every check call receives the context left by the previous one -/
theorem C14_context_threaded (env : Env) (f : List String) (fs : List (List String)) (v : Val) (s : St) (g : Global)
    (hb : (env.hooks.check ("::".intercalate f) v g.uctx).1 = true) :
    runChecks env (f :: fs) v s g =
      runChecks env fs v s (({ g with uctx := (env.hooks.check ("::".intercalate f) v g.uctx).2 } : Global).emit
        (.checkCall ("::".intercalate f) v.render g.uctx)) := by
  simp [runChecks, hb]

/-! ## non-vacuity (BEGIN) -/
namespace C14_nv
open Peg.NV

/-! instance: user functions that really reject something
    ```
    @export S = first:Num {'+' rest:Num} [v:Vowel] [x:Any] | word:Word ;
    @string @check(small) @check(m::odd) Num = {'0'..'9'}+ ;     -- at most one digit, and an odd one
    @char @check(vowel) Vowel = 'a'..'z' ;                         -- a lowercase letter that is a vowel
    @extern(any) Any ;                                             -- one byte of anything
    @string Word = {'a'..'z'}+ ;
    ```
    `ctr = true` makes every check increment the user context (for `C14_context_threaded`). -/
def hooksU (ctr : Bool) : Hooks :=
  { extern := fun f bs u =>
      if f == "any" then (match bs with | b :: _ => (.ok (.ext "any" b.toNat, 1), u) | [] => (.error "eof", u))
      else (.error "no such extern", u)
    check := fun f v u =>
      ((match v with
        | .str bs => if f == "small" then decide (bs.length ≤ 1) else if f == "m::odd" then bs.all (fun b => b % 2 == 1) else true
        | _ => true), if ctr then u + 1 else u)
    charCheck := fun f c => f == "vowel" && ['a', 'e', 'i', 'o', 'u'].contains c }

def numChecks : List Directive := [.check ["small"], .check ["m", "odd"]]
def ruleSU : Rule := ⟨[.export], "S",
  .choice [.seq [fld "first" "Num", .closure (.choice [.seq [lit '+', fld "rest" "Num"]]) false,
                 .opt (.choice [.seq [fld "v" "Vowel"]]), .opt (.choice [.seq [fld "x" "Any"]])],
           .seq [fld "word" "Word"]]⟩
def vowel : CharRule := ⟨[["vowel"]], "Vowel", [.range (.chr 'a') (.chr 'z')]⟩
def anyR : ExternRule := ⟨["any"], none, "Any"⟩
def envU (ctr : Bool) : Env :=
  { g := ⟨[.rule ruleSU, .rule (ruleNum numChecks), .charRule vowel, .externRule anyR, .rule ruleWord]⟩,
    settings := {}, hooks := hooksU ctr, nf := 10 }

example : (ruleNum numChecks).checks = [["small"], ["m", "odd"]] := by decide

/-- `"1 + 3a?"`: both numbers pass both checks, `a` is a vowel, the extern takes `?` -/
def inpA : List UInt8 := [49, 32, 43, 32, 51, 97, 63]
/-- `"1+2e"`: `2` is rejected by `m::odd` (so the closure stops and `+2e` is left), `"1+23"`: `23` is rejected by
    `small`; `"1b"`: `b` is rejected by the `@char` check, then the extern takes it -/
example : show' (parseAdvanced (envU false) 24 "S" inpA 0) =
      some ("S { first: Some(S\"31\"), rest: [S\"33\"], v: Some(C'61'), x: Some(any(63)), word: None }", 7) ∧
    show' (parseAdvanced (envU false) 24 "S" [49, 43, 50, 101] 0) =
      some ("S { first: Some(S\"31\"), rest: [], v: None, x: Some(any(43)), word: None }", 2) ∧
    show' (parseAdvanced (envU false) 24 "S" [49, 43, 50, 51] 0) =
      some ("S { first: Some(S\"31\"), rest: [], v: None, x: Some(any(43)), word: None }", 2) ∧
    show' (parseAdvanced (envU false) 24 "S" [49, 98] 0) =
      some ("S { first: Some(S\"31\"), rest: [], v: None, x: Some(any(98)), word: None }", 2) := by decide
/-- a failing parse: `"22"` – the check failure is an ordinary error, reported at the offset the rule had reached (2) -/
example : reported (parseAdvanced (envU false) 24 "S" [50, 50] 0) = some ⟨2, .checkFunctionFailed "small"⟩ ∧
    (match (eval (envU false) 20).rule "Num" (St.new [50, 50]) (Global.init 0) with
     | some (.err e, g) => e == ⟨2, .checkFunctionFailed "small"⟩ && g.log.length == 3
     | _ => false) = true := by decide

/-- `C14_checks` on the two checks of `Num`: accepted value `"3"`, rejected values `"2"` (second check) and `"23"` (first) -/
def sEnd : St := ⟨[], 1, none⟩
example : Spec.runChecks (envU false) 0 [["small"], ["m", "odd"]] (.str [51]) sEnd = some (.ok (.str [51]) sEnd) := by
  rw [C14_checks]; rfl
example : Spec.runChecks (envU false) 0 [["small"], ["m", "odd"]] (.str [50]) sEnd = some (.err Spec.noErr) := by
  rw [C14_checks]; rfl
example : Spec.runChecks (envU false) 0 [["small"], ["m", "odd"]] (.str [50, 51]) sEnd = some (.err Spec.noErr) := by
  rw [C14_checks]; rfl

/-- `C14_check_failure_is_error`: its premise holds for `small` on `"23"` -/
example : ∃ g', runChecks (envU false) [["small"], ["m", "odd"]] (.str [50, 51]) ⟨[], 2, none⟩ (Global.init 0) =
    some (.err ((⟨[], 2, none⟩ : St).reportError (.checkFunctionFailed "small")), g') :=
  C14_check_failure_is_error (envU false) ["small"] [["m", "odd"]] (.str [50, 51]) ⟨[], 2, none⟩ (Global.init 0) (by decide)

/-- `C14_context_threaded` with the counting hooks: `small` accepts `"3"` and leaves context 6, which `m::odd` receives -/
example : runChecks (envU true) [["small"], ["m", "odd"]] (.str [51]) sEnd (Global.init 5) =
    runChecks (envU true) [["m", "odd"]] (.str [51]) sEnd
      (({ (Global.init 5) with uctx := 6 } : Global).emit (.checkCall "small" "S\"33\"" 5)) :=
  C14_context_threaded (envU true) ["small"] [["m", "odd"]] (.str [51]) sEnd (Global.init 5) (by decide)
example : (match runChecks (envU true) [["small"], ["m", "odd"]] (.str [51]) sEnd (Global.init 5) with
    | some (.ok _ _, g) => g.uctx == 7 && g.log.length == 2 | _ => false) = true := by decide

/-- `C14_char_checks` for `Vowel`: on `"b"` the check rejects before the alternatives are tried, on `"e"` it accepts, at
    end of input the rule fails -/
def R : Spec.SRec := Spec.eval (envU false) 0 5
example : Spec.charRule (envU false) R vowel (St.new [98]) = some (.err Spec.noErr) := by
  rw [C14_char_checks _ _ _ _ rfl]; rfl
example : Spec.charRule (envU false) R vowel (St.new [101]) = Spec.charParts R vowel.choices (St.new [101]) := by
  rw [C14_char_checks _ _ _ _ rfl]; rfl
example : Spec.charRule (envU false) R vowel (St.new []) = some (.err Spec.noErr) := by
  rw [C14_char_checks _ _ _ _ rfl]; rfl
example : (match Spec.charRule (envU false) R vowel (St.new [101]) with
    | some (.ok (.chr c) s) => c == 'e' && s.off == 1 | _ => false) = true := by decide

/-- `C14_extern` / `C14_extern_consumes`: the extern `any` on `"?x"` at offset 6 returns `Ok((any(63), 1))` -/
def s6 : St := ⟨[63, 120], 6, none⟩
example : Spec.externRule (envU false) 0 anyR s6 = some (Spec.abs (s6.advanceSafe 1 (Val.ext "any" 63))) := by
  rw [C14_extern]; rfl
example : ∃ v' s', s6.advanceSafe 1 (Val.ext "any" 63) = .ok v' s' ∧ s'.off = 6 + 1 ∧ s'.rest = [120] := by
  obtain ⟨h1, h2, h3⟩ := C14_extern_consumes s6 1 (Val.ext "any" 63) _ _ rfl
  exact ⟨_, _, rfl, h2, h3⟩
/-- … and fails at end of input -/
example : Spec.externRule (envU false) 0 anyR ⟨[], 7, none⟩ = some (.err Spec.noErr) := by rw [C14_extern]; rfl

/-- `C14_extern_after_skip`: `x:Any` in the skipping context of `S` on `"  ?"` – the extern sees `"?"` (offset 2) -/
def ctxS : Ctx := ⟨true, ownFields (envU false) ruleSU.definition⟩
def R20 : Spec.SRec := Spec.eval (envU false) 0 20
example : Spec.stepExpr (envU false) R20 20 ctxS (fld "x" "Any") (St.new [32, 32, 63]) =
    Spec.bindS (R20.rule "Whitespace" (St.new [32, 32, 63])) (fun _ s1 =>
      Spec.bindS (R20.rule "Any" s1) fun v s' =>
        match postprocessField ctxS.ruleFields "x" "Any" v with
        | .ok fv => some (.ok [("x", fv)] s')
        | .error m => some (.panic ("codegen: " ++ m))) :=
  C14_extern_after_skip (envU false) R20 20 ctxS (some (.ident "x")) false "Any" (St.new [32, 32, 63]) rfl
example : (match Spec.stepExpr (envU false) R20 20 ctxS (fld "x" "Any") (St.new [32, 32, 63]) with
    | some (.ok p s) => (p.get "x").map Val.render == some "Some(any(63))" && s.off == 3 | _ => false) = true := by decide

/-- `C14_generated_code_refines`: the pure hooks satisfy `PureHooks`; the run on `"1 + 3a?"` -/
theorem hp : PureHooks (envU false).hooks :=
  ⟨fun f bs u => by
    simp only [envU, hooksU]
    split
    · split <;> rfl
    · rfl, fun _ _ _ => rfl⟩
/-- (the counting hooks do not: that hypothesis is a real restriction) -/
example : ¬ PureHooks (envU true).hooks := fun h => absurd (h.2 "small" (.str []) 0) (by decide)
theorem hnl : NoLeftrec (envU false).g := noLeftrec_of (by decide)
theorem run_some : ((eval (envU false) 24).rule "S" (St.new inpA) (Global.init 0)).isSome = true := by decide
example : ∃ m, (Spec.eval (envU false) 0 m).rule "S" (Spec.clr (St.new inpA)) =
    some (Spec.abs (((eval (envU false) 24).rule "S" (St.new inpA) (Global.init 0)).get run_some).1) :=
  C14_generated_code_refines (envU false) hp hnl inpA 0 24 "S" (St.new inpA) (Global.init 0) (wf_of (by decide))
    ⟨rfl, fun _ _ _ hl => by simp [Global.init, Global.lookup] at hl⟩ (run_eq run_some)

end C14_nv
/-! ## non-vacuity (END) -/

end Peg.Props
