import PegVerif.Proofs.Trace
/-
  C19 – tracing a parse changes nothing but the log.

  In the model the tracer callbacks (`print_trace_start`, `print_trace_result`,
  `print_informative`) are recorded in `Global.log`; a parse with the no-op tracer is the same run
  with the log ignored.  The correspondence run ties the model's callback sequence to the sequence a
  custom `ParseTracer` sees on the real generated code.
-/
namespace Peg.Props
open Peg

/-- **Erasure.** No step of the evaluator reads the log: started from any initial log, the parse
    returns the same result, the same cache and the same user context. -/
theorem C19_result_independent_of_log (env : Env) (n : Nat) (rule : String) (inp : List UInt8) (u : Nat) (l0 : List Ev) :
    ((eval env n).rule rule (St.new inp) ((Global.init u).withLog l0)).map (fun p => (p.1, p.2.cache, p.2.uctx)) =
    (parseAdvanced env n rule inp u).map (fun p => (p.1, p.2.cache, p.2.uctx)) :=
  C19_erasure' env n rule inp u l0

/-- the log only grows, by prepending -/
theorem C19_log_only_grows {env : Env} {n : Nat} {name : String} {s : St} {g g' : Global} {r : Res Val}
    (h : (eval env n).rule name s g = some (r, g')) :
    ∃ l, g'.log = l ++ g.log ∧ ∀ l0, (eval env n).rule name s (g.withLog l0) = some (r, g'.withLog (l ++ l0)) :=
  eval_log_erasure_rule h

/-- **Balance.** The tracer events of a parse that does not panic are properly nested: every rule
    entry is followed by exactly one matching exit – also when the rule fails, is answered from the
    cache or is re-evaluated by the left-recursion loop – and on no prefix does the nesting depth
    underflow (the `usize` indentation counter of `IndentedTracer` cannot wrap). -/
theorem C19_nested {env : Env} {n : Nat} {rule : String} {inp : List UInt8} {u : Nat} {r : Res Val} {g' : Global}
    (h : parseAdvanced env n rule inp u = some (r, g')) :
    ((∀ m, r ≠ .panic m) → Balanced g'.log.reverse) ∧
    (∀ p, p <+: g'.log.reverse → ∀ d, depthAfter p d ≠ none) :=
  C19_balanced h

/-- the bracket of one rule call: entry event with the rule's name and offset first, the exit event
    matching the returned result last, a balanced log in between -/
theorem C19_bracket {env : Env} {n : Nat} {name : String} {r0 : Rule} {s : St} {g g' : Global} {res : Res Val}
    (hf : env.g.find name = some (.rule r0)) (h : (eval env n).rule name s g = some (res, g')) :
    ∃ mid, g'.log = resultEv res ++ mid ++ .traceStart name s.off :: g.log ∧
      ((∀ m, res ≠ .panic m) → Balanced mid.reverse) :=
  let ⟨mid, h1, h2, _⟩ := C19_rule_bracket hf h
  ⟨mid, h1, h2⟩

/-- non-vacuity: a memoized rule reached twice (second time from the cache) and a failing rule; the
    recorded log is balanced and contains the cache-hit message between an entry and its exit -/
example :
    let a : Rule := ⟨[.memoize], "A", .choice [.seq [.lit false [.chr 'a']]]⟩
    let s : Rule := ⟨[.export], "S",
      .choice [.seq [.field none false "A", .lit false [.chr 'x']],
               .seq [.field none false "A", .lit false [.chr 'y']]]⟩
    let env : Env := { g := ⟨[.rule s, .rule a]⟩, settings := {}, hooks := default, nf := 10 }
    (match parseAdvanced env 20 "S" [97, 121] 0 with
     | some (.ok _ _, g) => depthAfter g.log.reverse 0 == some 0 && g.log.any (fun e => match e with | .info "Cache hit" => true | _ => false)
     | _ => false) = true := by decide

end Peg.Props
