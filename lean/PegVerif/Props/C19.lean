import PegVerif.Proofs.Trace
import PegVerif.Proofs.NonVacuity
/-
  C19 – tracing a parse changes nothing but the log.

  In the model the tracer callbacks (`print_trace_start`, `print_trace_result`,
  `print_informative`) are recorded in `Global.log`; a parse with the no-op tracer is the same run
  with the log ignored.  The correspondence run ties the model's callback sequence to the sequence a
  custom `ParseTracer` sees on the real generated code.
-/
namespace Peg.Props
open Peg

/-- **Erasure.** No step of the evaluator reads the log: started from any initial log, the parse
    returns the same result, the same cache and the same user context. -/
theorem C19_result_independent_of_log (env : Env) (n : Nat) (rule : String) (inp : List UInt8) (u : Nat) (l0 : List Ev) :
    ((eval env n).rule rule (St.new inp) ((Global.init u).withLog l0)).map (fun p => (p.1, p.2.cache, p.2.uctx)) =
    (parseAdvanced env n rule inp u).map (fun p => (p.1, p.2.cache, p.2.uctx)) :=
  C19_erasure' env n rule inp u l0

/-- the log only grows, by prepending -/
theorem C19_log_only_grows {env : Env} {n : Nat} {name : String} {s : St} {g g' : Global} {r : Res Val}
    (h : (eval env n).rule name s g = some (r, g')) :
    ∃ l, g'.log = l ++ g.log ∧ ∀ l0, (eval env n).rule name s (g.withLog l0) = some (r, g'.withLog (l ++ l0)) :=
  eval_log_erasure_rule h

/-- **Balance.** The tracer events of a parse that does not panic are properly nested: every rule
    entry is followed by exactly one matching exit – also when the rule fails, is answered from the
    cache or is re-evaluated by the left-recursion loop – and on no prefix does the nesting depth
    underflow (the `usize` indentation counter of `IndentedTracer` cannot wrap). -/
theorem C19_nested {env : Env} {n : Nat} {rule : String} {inp : List UInt8} {u : Nat} {r : Res Val} {g' : Global}
    (h : parseAdvanced env n rule inp u = some (r, g')) :
    ((∀ m, r ≠ .panic m) → Balanced g'.log.reverse) ∧
    (∀ p, p <+: g'.log.reverse → ∀ d, depthAfter p d ≠ none) :=
  C19_balanced h

/-- the bracket of one rule call: entry event with the rule's name and offset first, the exit event
    matching the returned result last, a balanced log in between -/
theorem C19_bracket {env : Env} {n : Nat} {name : String} {r0 : Rule} {s : St} {g g' : Global} {res : Res Val}
    (hf : env.g.find name = some (.rule r0)) (h : (eval env n).rule name s g = some (res, g')) :
    ∃ mid, g'.log = resultEv res ++ mid ++ .traceStart name s.off :: g.log ∧
      ((∀ m, res ≠ .panic m) → Balanced mid.reverse) :=
  let ⟨mid, h1, h2, _⟩ := C19_rule_bracket hf h
  ⟨mid, h1, h2⟩

/-- non-vacuity: a memoized rule reached twice (second time from the cache) and a failing rule; the
    recorded log is balanced and contains the cache-hit message between an entry and its exit -/
example :
    let a : Rule := ⟨[.memoize], "A", .choice [.seq [.lit false [.chr 'a']]]⟩
    let s : Rule := ⟨[.export], "S",
      .choice [.seq [.field none false "A", .lit false [.chr 'x']],
               .seq [.field none false "A", .lit false [.chr 'y']]]⟩
    let env : Env := { g := ⟨[.rule s, .rule a]⟩, settings := {}, hooks := default, nf := 10 }
    (match parseAdvanced env 20 "S" [97, 121] 0 with
     | some (.ok _ _, g) => depthAfter g.log.reverse 0 == some 0 && g.log.any (fun e => match e with | .info "Cache hit" => true | _ => false)
     | _ => false) = true := by decide

/-! ## non-vacuity (BEGIN) -/
namespace C19_nv
open Peg.NV

/-! instance 1: `NV.envH [.memoize]` = `@export S = a:Num '+' b:Num | a:Num '-' b:Num | w:Word; @string @memoize Num = …`
    on `"1-2"` (success; `Num` entered three times inside `S`, once answered from the cache) and on `"1-"` (failure) -/
def envM : Env := envH [.memoize]
def profile (l : List Ev) : List (Option Nat) := (List.range (l.length + 1)).map fun i => depthAfter (l.reverse.take i) 0

theorem run_some : (parseAdvanced envM 20 "S" inpH 0).isSome = true := by decide
def gEnd : Global := ((parseAdvanced envM 20 "S" inpH 0).get run_some).2

/-- `C19_nested` instantiated on the successful run … -/
example : ((∀ m, ((parseAdvanced envM 20 "S" inpH 0).get run_some).1 ≠ .panic m) → Balanced gEnd.log.reverse) ∧
    (∀ p, p <+: gEnd.log.reverse → ∀ d, depthAfter p d ≠ none) := C19_nested (run_eq run_some)
/-- … whose log has 11 events with nesting depth 2 (entries of `Num` inside the entry of `S`), one of them the cache
    hit; the depth after each prefix: -/
example : profile gEnd.log = [some 0, some 1, some 2, some 2, some 1, some 2, some 2, some 1, some 2, some 2, some 1, some 0] ∧
    hits gEnd.log = 1 := by decide

/-- … and on the failing run `"1-"` (13 events, rule exits with `traceErr`) -/
theorem fail_some : (parseAdvanced envM 20 "S" [49, 45] 0).isSome = true := by decide
example : ∀ p, p <+: ((parseAdvanced envM 20 "S" [49, 45] 0).get fail_some).2.log.reverse → ∀ d, depthAfter p d ≠ none :=
  (C19_nested (run_eq fail_some)).2
example : (match parseAdvanced envM 20 "S" [49, 45] 0 with
    | some (.err e, g) => e.pos == 2 && profile g.log == [some 0, some 1, some 2, some 2, some 1, some 2, some 2, some 1,
        some 2, some 2, some 1, some 2, some 1, some 0] &&
        (g.log.filter fun e => match e with | .traceErr _ => true | _ => false).length == 3
    | _ => false) = true := by decide

/-- `C19_result_independent_of_log`: the same parse started from a non-empty (even unbalanced) log `l0` -/
def l0 : List Ev := [.info "left over", .traceStart "X" 9]
example : ((eval envM 20).rule "S" (St.new inpH) ((Global.init 0).withLog l0)).map (fun p => (p.1, p.2.cache, p.2.uctx)) =
    (parseAdvanced envM 20 "S" inpH 0).map (fun p => (p.1, p.2.cache, p.2.uctx)) :=
  C19_result_independent_of_log envM 20 "S" inpH 0 l0
example : (match (eval envM 20).rule "S" (St.new inpH) ((Global.init 0).withLog l0) with
    | some (.ok _ s, g) => s.off == 3 && g.log.length == 11 + 2 && g.cache.length == 2 | _ => false) = true := by decide

/-- `C19_log_only_grows` for that run: the premise is a run from the non-empty log -/
theorem from_l0 : ((eval envM 20).rule "S" (St.new inpH) ((Global.init 0).withLog l0)).isSome = true := by decide
example : ∃ l, (((eval envM 20).rule "S" (St.new inpH) ((Global.init 0).withLog l0)).get from_l0).2.log = l ++ l0 ∧
    ∀ l1, (eval envM 20).rule "S" (St.new inpH) (((Global.init 0).withLog l0).withLog l1) =
      some ((((eval envM 20).rule "S" (St.new inpH) ((Global.init 0).withLog l0)).get from_l0).1,
            (((eval envM 20).rule "S" (St.new inpH) ((Global.init 0).withLog l0)).get from_l0).2.withLog (l ++ l1)) :=
  C19_log_only_grows (run_eq from_l0)

/-- `C19_bracket` for the call of `S` -/
example : ∃ mid, gEnd.log = resultEv ((parseAdvanced envM 20 "S" inpH 0).get run_some).1 ++ mid ++ .traceStart "S" 0 :: [] ∧
    ((∀ m, ((parseAdvanced envM 20 "S" inpH 0).get run_some).1 ≠ .panic m) → Balanced mid.reverse) :=
  C19_bracket (env := envM) (r0 := ruleH) (s := St.new inpH) (g := Global.init 0) rfl (run_eq run_some)

/-! instance 2: a `@leftrec` rule, `@export @leftrec E = l:*E '+' r:Num | b:Num;` on `"1+2"` – the body is re-evaluated
    by the grow loop, each time inside the single entry of `E` -/
def ruleE : Rule := ⟨[.export, .leftrec], "E",
  .choice [.seq [.field (some (.ident "l")) true "E", lit '+', fld "r" "Num"], .seq [fld "b" "Num"]]⟩
def envE : Env := { g := ⟨[.rule ruleE, .rule (ruleNum [])]⟩, settings := {}, hooks := default, nf := 10 }
theorem lr_some : (parseAdvanced envE 30 "E" [49, 43, 50] 0).isSome = true := by decide
example : ((∀ m, ((parseAdvanced envE 30 "E" [49, 43, 50] 0).get lr_some).1 ≠ .panic m) →
      Balanced ((parseAdvanced envE 30 "E" [49, 43, 50] 0).get lr_some).2.log.reverse) ∧
    (∀ p, p <+: ((parseAdvanced envE 30 "E" [49, 43, 50] 0).get lr_some).2.log.reverse → ∀ d, depthAfter p d ≠ none) :=
  C19_nested (run_eq lr_some)
example : (match parseAdvanced envE 30 "E" [49, 43, 50] 0 with
    | some (.ok _ s, g) => s.off == 3 && g.log.length == 23 && depthAfter g.log.reverse 0 == some 0 &&
        bodyEvals g.log "E" 0 == 3 &&
        (g.log.filter fun e => match e with | .info "Cache hit (left recursive)" => true | _ => false).length == 3
    | _ => false) = true := by decide

end C19_nv
/-! ## non-vacuity (END) -/

end Peg.Props
