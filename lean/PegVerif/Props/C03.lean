import PegVerif.Proofs.DeclProofs
import PegVerif.Proofs.Plumbing
import PegVerif.Proofs.PathMatches
import PegVerif.Proofs.NonVacuity
/-
  C03 – generated types follow the documented field/arity mapping and always compile.

  What is a theorem: the arity/type tables of the Rust source (re-extracted on every run) are the
  model's tables and form the lattice One < Optional < Multiple; the declared types follow the
  documented mapping; the generated field plumbing agrees with the declarations for EVERY grammar
  the generator accepts (no generator panic, no ill-typed template, values of the declared shape);
  the local arity analysis is sound w.r.t. the number of matches on a path.
  What is a test (labelled as such in the evidence): "rustc accepts the emitted code" – every parser
  of the pegdiff suite is compiled under #![forbid(unsafe_code)], declared types are compared
  textually with `Compile.decls`.
-/
namespace Peg.Props
open Peg Peg.Compile

/-- the nine arms of `combine_arities_for_choice` in the Rust source are the model's table … -/
theorem C03_choice_table_extracted : ∀ t ∈ Extracted.combineChoiceArms, ∃ a b c,
    arityOfString t.1 = some a ∧ arityOfString t.2.1 = some b ∧ arityOfString t.2.2 = some c ∧ combineChoice a b = c :=
  combineChoiceArms_agree

theorem C03_choice_table_complete (a b : Arity) :
    (a.rustName, b.rustName, (combineChoice a b).rustName) ∈ Extracted.combineChoiceArms :=
  combineChoiceArms_complete a b

/-- … and that table is the join of the lattice One < Optional < Multiple -/
theorem C03_choice_is_join (a b : Arity) : (combineChoice a b).rank = max a.rank b.rank := rank_combineChoice a b

theorem C03_optional_table_extracted : ∀ t ∈ Extracted.toOptionalArms, ∃ a c,
    arityOfString t.1 = some a ∧ arityOfString t.2 = some c ∧ toOptional a = c := toOptionalArms_agree

theorem C03_optional_is_join (a : Arity) : toOptional a = combineChoice a .optional := toOptional_eq a

/-- keyword escaping: the list in the source is the model's list and covers every keyword of the
    Rust reference that can be written as a raw identifier -/
theorem C03_keywords_extracted : Extracted.rustKeywords = Compile.rustKeywordsModel := rustKeywords_eq
theorem C03_keywords_cover_reference : ∀ k ∈ referenceKeywords, k ∈ Extracted.rustKeywords := keywords_cover_reference

/-- the documented mapping: plain / Option / Vec by arity, Box around exactly the marked type,
    a generated enum for several types -/
theorem C03_plain {kws parent} {f : FieldDesc} (h : f.arity = .one) :
    fieldTypeText kws parent f = innerTypeText kws parent f := fieldTypeText_one (kws := kws) h
theorem C03_option {kws parent} {f : FieldDesc} (h : f.arity = .optional) :
    fieldTypeText kws parent f = "Option<" ++ innerTypeText kws parent f ++ ">" := fieldTypeText_optional (kws := kws) h
theorem C03_vec {kws parent} {f : FieldDesc} (h : f.arity = .multiple) :
    fieldTypeText kws parent f = "Vec<" ++ innerTypeText kws parent f ++ ">" := fieldTypeText_multiple (kws := kws) h
theorem C03_box {kws parent} {f : FieldDesc} {t : String} (h : f.types = [(t, true)]) (hc : t ≠ "char") :
    innerTypeText kws parent f = "Box<" ++ safeIdent kws t ++ ">" := innerTypeText_boxed (kws := kws) h hc
theorem C03_no_box {kws parent} {f : FieldDesc} {t : String} (h : f.types = [(t, false)]) (hc : t ≠ "char") :
    innerTypeText kws parent f = safeIdent kws t := innerTypeText_plain (kws := kws) h hc
theorem C03_enum {kws parent} {f : FieldDesc} (h : f.types.length > 1) :
    innerTypeText kws parent f = parent ++ "_" ++ f.name := innerTypeText_enum (kws := kws) h

/-- **The templates agree with the declarations, for every accepted grammar**: no evaluation of any
    generated parser reaches a generator-side panic (`panic!("… cannot be One …")`, `assert_eq!`,
    `expect`) or an ill-typed template (`Default::default()` of a plain field, `extend` on a
    non-Vec) … -/
theorem C03_plumbing_never_goes_wrong (env : Env) (fuel : Nat) (rule : String) (inp : List UInt8) (uctx : Nat)
    {r : Res Val} {g' : Global} (h : parseAdvanced env fuel rule inp uctx = some (r, g')) :
    ∀ m, r ≠ .panic ("codegen: " ++ m) :=
  parseAdvanced_no_codegen_panic env fuel rule inp uctx h

/-- … and the value assembled for a rule has exactly the declared shape (one entry per field, in
    order; `Option` for Optional, `Vec` for Multiple) -/
theorem C03_values_have_declared_shape (env : Env) (n : Nat) {r0 : Rule} {fields : List FieldDesc} (skip : Bool)
    {s : St} {g : Global} {r : Res Parsed} {g' : Global}
    (hget : getFields env.g env.nf r0.definition = .ok fields) (hg : CleanCache g)
    (h : (eval env n).expr ⟨skip, fields⟩ r0.definition s g = some (r, g')) :
    ∀ p s', r = .ok p s' → Shaped fields p :=
  (plumbing_rule_definition env n skip hget hg h).2.1

/-- soundness of the arity analysis: on every successful path the number of matches of a field
    respects its arity (One: exactly one, Optional: at most one) -/
theorem C03_arity_sound (env : Env) (u : Nat) : ∀ n, PM.PGoodE env (PM.eval env u n).expr := PM.eval_pgood env u

/-! ## non-vacuity (BEGIN) -/
namespace C03_nv
open Peg.NV

/-! the tables: one non-diagonal arm, and the join reading of it -/
example : ("One", "Multiple", "Multiple") ∈ Extracted.combineChoiceArms := C03_choice_table_complete .one .multiple
example : (combineChoice .optional .multiple).rank = max Arity.optional.rank Arity.multiple.rank :=
  C03_choice_is_join .optional .multiple
example : toOptional .one = combineChoice .one .optional := C03_optional_is_join .one
example : "type" ∈ Extracted.rustKeywords := C03_keywords_cover_reference "type" (by decide)

/-! the documented mapping on the descriptors of the running example and of a left-recursive rule
    (`first:Num` Optional, `rest:Num` Multiple, a boxed `l:*E`, a two-type field `v:X|Y`, a keyword type name) -/
def kws : List String := Extracted.rustKeywords
def fFirst : FieldDesc := ⟨"first", [("Num", false)], .optional⟩
def fRest : FieldDesc := ⟨"rest", [("Num", false)], .multiple⟩
def fOne : FieldDesc := ⟨"x", [("type", false)], .one⟩
def fBox : FieldDesc := ⟨"l", [("E", true)], .optional⟩
def fEnum : FieldDesc := ⟨"v", [("X", false), ("Y", false)], .multiple⟩

example : fieldTypeText kws "S" fFirst = "Option<" ++ innerTypeText kws "S" fFirst ++ ">" := C03_option rfl
example : fieldTypeText kws "S" fRest = "Vec<" ++ innerTypeText kws "S" fRest ++ ">" := C03_vec rfl
example : fieldTypeText kws "S" fOne = innerTypeText kws "S" fOne := C03_plain rfl
example : innerTypeText kws "S" fFirst = safeIdent kws "Num" := C03_no_box rfl (by decide)
example : innerTypeText kws "E" fBox = "Box<" ++ safeIdent kws "E" ++ ">" := C03_box rfl (by decide)
example : innerTypeText kws "R" fEnum = "R" ++ "_" ++ "v" := C03_enum (by decide)
/-- … and what these texts are -/
example : fieldTypeText kws "S" fFirst = "Option<Num>" ∧ fieldTypeText kws "S" fRest = "Vec<Num>" ∧
    fieldTypeText kws "S" fOne = "r#type" ∧ fieldTypeText kws "E" fBox = "Option<Box<E>>" ∧
    fieldTypeText kws "R" fEnum = "Vec<R_v>" := by decide +kernel

/-! `C03_plumbing_never_goes_wrong` on the running example (`"1 + 23"`) -/
theorem run_some : (parseAdvanced env0 20 "S" inp1 0).isSome = true := by decide
example : ∀ m, ((parseAdvanced env0 20 "S" inp1 0).get run_some).1 ≠ .panic ("codegen: " ++ m) :=
  C03_plumbing_never_goes_wrong env0 20 "S" inp1 0 (run_eq run_some)

/-! `C03_values_have_declared_shape`: the definition of `S` with `@memoize Num`, started from a NON-empty clean
    cache (the entry of `Num` at offset 0), so the first field is answered from the cache -/
def envM : Env := envWith [] [.memoize] default
def fieldsS : List FieldDesc := ownFields envM (ruleS []).definition
def g1 : Global := (Global.init 0).insert ("Num", 0) (.ok (.str [49]) ⟨inp1.drop 1, 1, none⟩)

example : fieldsS = [⟨"first", [("Num", false)], .optional⟩, ⟨"rest", [("Num", false)], .multiple⟩,
    ⟨"word", [("Word", false)], .optional⟩] := by decide
theorem hget : getFields envM.g envM.nf (ruleS []).definition = .ok fieldsS := getFields_ok_of (by decide)
theorem g1_clean : CleanCache g1 := by
  intro kv h
  simp only [g1, Global.insert, Global.init, List.mem_cons, List.not_mem_nil, or_false] at h
  subst h; exact not_isCg_ok _ _
theorem def_some : ((eval envM 20).expr ⟨true, fieldsS⟩ (ruleS []).definition (St.new inp1) g1).isSome = true := by decide

example : ∀ p s', (((eval envM 20).expr ⟨true, fieldsS⟩ (ruleS []).definition (St.new inp1) g1).get def_some).1 = .ok p s' →
    Shaped fieldsS p :=
  C03_values_have_declared_shape envM 20 true hget g1_clean (run_eq def_some)

/-- the run is a success with one entry per field in order, and the cache entry was used -/
example : (match (eval envM 20).expr ⟨true, fieldsS⟩ (ruleS []).definition (St.new inp1) g1 with
    | some (.ok p s, g) => p.map (fun kv => (kv.1, kv.2.render)) == [("first", "Some(S\"31\")"), ("rest", "[S\"3233\"]"), ("word", "None")]
        && s.off == 6 && g.log.any (fun e => match e with | .info "Cache hit" => true | _ => false)
    | _ => false) = true := by decide

/-! `C03_arity_sound` at the definition of `S`: the matches of the path respect the local analysis -/
example : ∃ ms s', (PM.eval envM 0 20).expr ⟨true, fieldsS⟩ (ruleS []).definition (St.new inp1) = some (.ok ms s') ∧
    PathOk fieldsS ms := by
  obtain ⟨ms, s', h, -⟩ := sok_of (o := (PM.eval envM 0 20).expr ⟨true, fieldsS⟩ (ruleS []).definition (St.new inp1))
    (fun ms _ => ms.length == 2) (by decide)
  exact ⟨ms, s', h, C03_arity_sound envM 0 20 _ _ _ _ _ _ hget h⟩

end C03_nv
/-! ## non-vacuity (END) -/

end Peg.Props
