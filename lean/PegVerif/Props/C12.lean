import PegVerif.Proofs.FrontEndProofs
import PegVerif.Proofs.Termination
/-
  C12 – grammar text is read into the structure its syntax denotes.
  The front end is `eval` on the meta-grammar *extracted from /repo/grammar.ebnf on every run*
  (FrontEnd.lean).  Theorems: every escape form denotes exactly the documented character (for every
  character and every applicable form), invalid code points are rejected, directives may come in any
  order / repeated, several `@check`s keep their order, and the front end is exactly the PEG reading
  of grammar.ebnf (conformance = C01 instantiated at the extracted grammar, whose side conditions
  are re-checked by kernel evaluation).  The full `parse ∘ print = id` statement over all layouts is
  exercised as a test by the `frontend` engine (three-way comparison: generating AST, shipped front
  end, model front end).
-/
namespace Peg.Props
open Peg

theorem C12_escape_x (c : Char) (h : c.toNat < 256) (d1 d2 : Char) (hd : hexDigits 2 c.toNat = [d1, d2]) :
    (StringItem.hexa d1 d2).toChar = .ok c := hexa_escape c h d1 d2 hd
theorem C12_escape_u4 (c : Char) (h : c.toNat < 65536) : (StringItem.utf8 (hexDigits 4 c.toNat)).toChar = .ok c :=
  utf8_escape_u4 c h
theorem C12_escape_U8 (c : Char) : (StringItem.utf8 (hexDigits 6 c.toNat)).toChar = .ok c := utf8_escape_U6 c
theorem C12_escape_braced (c : Char) (w : Nat) (hw : w ≤ 6) (h : c.toNat < 16 ^ w) :
    (StringItem.utf8 (hexDigits w c.toNat)).toChar = .ok c := utf8_escape_braced c w hw h
theorem C12_escape_simple (e : SimpleEsc) : (StringItem.simple e).toChar = .ok e.toChar := simple_escape e
theorem C12_escape_invalid (ds : List Char) (n : Nat) (h : hexFold ds 0 = some n)
    (hbad : (0xD800 ≤ n ∧ n ≤ 0xDFFF) ∨ 0x110000 ≤ n) : (StringItem.utf8 ds).toChar = .err "Invalid utf-8 codepoint" :=
  utf8_escape_reject ds n h hbad

/-- directives in any order … -/
theorem C12_directive_order (r : Rule) {ds ds' : List Directive} (h : ds.Perm ds') :
    ({ r with directives := ds }).flags = ({ r with directives := ds' }).flags := flags_perm r h
/-- … repeated directives change nothing … -/
theorem C12_directive_duplicates (r : Rule) (d : Directive) (ds : List Directive) :
    ({ r with directives := d :: d :: ds }).flags = ({ r with directives := d :: ds }).flags := flags_dup r d ds
/-- … and the `@check`s keep their source order whatever is written between them -/
theorem C12_checks_order (r : Rule) (d : Directive) (hd : d.isCheck = false) (xs ys : List Directive) :
    ({ r with directives := xs ++ d :: ys }).checks = ({ r with directives := xs ++ ys }).checks :=
  checks_insert_noncheck r d hd xs ys

/-- **Conformance**: whatever the front end answers is the answer of the PEG reading of grammar.ebnf -/
theorem C12_conformance (fuel : Nat) (text : List UInt8) :
    (∀ g, FrontEnd.parse fuel text = .grammar g →
      ∃ m v s, Spec.parse FrontEnd.metaEnv 0 m "Grammar" text = some (.ok v s) ∧ FrontEnd.toGrammar fuel v = some g) ∧
    (∀ e, FrontEnd.parse fuel text = .parseError e →
      ∃ m, Spec.parse FrontEnd.metaEnv 0 m "Grammar" text = some (.err Spec.noErr)) :=
  C12_conformance_sound fuel text

/-- side conditions on the extracted meta-grammar, re-checked on every run -/
theorem C12_meta_grammar_wellformed :
    NoLeftrec Extracted.metaGrammar ∧ allRefsDefined Extracted.metaGrammar = true ∧
    exportedRules Extracted.metaGrammar = ["Grammar"] :=
  ⟨metaGrammar_noLeftrec, metaGrammar_refs, metaGrammar_exports⟩

/-- **Totality of the front end**: on every text (valid or not, any bytes) the front end answers – a grammar,
    a parse error, or a reported shape failure – for all sufficiently large fuels; it never diverges.
    (grammar.ebnf passes the well-formedness check `wfCheck`, re-decided by the kernel on every run.) -/
theorem C12_front_end_total (text : List UInt8) :
    ∃ n0, ∀ n, n0 ≤ n → FrontEnd.parse n text ≠ .other "out of fuel" :=
  frontEnd_terminates_stable text

theorem C12_meta_grammar_terminating : wfCheck Extracted.metaGrammar {} = true := metaGrammar_wf

/-! ## non-vacuity (BEGIN) -/
namespace C12_nv

/-! the escape forms of `é` (U+00E9) and of `😀` (U+1F600) -/
example : (StringItem.hexa 'e' '9').toChar = .ok 'é' := C12_escape_x 'é' (by decide) 'e' '9' (by decide)
example : (StringItem.utf8 (hexDigits 4 'é'.toNat)).toChar = .ok 'é' := C12_escape_u4 'é' (by decide)
example : (StringItem.utf8 (hexDigits 6 '😀'.toNat)).toChar = .ok '😀' := C12_escape_U8 '😀'
example : (StringItem.utf8 (hexDigits 5 '😀'.toNat)).toChar = .ok '😀' := C12_escape_braced '😀' 5 (by decide) (by decide)
example : hexDigits 4 'é'.toNat = ['0', '0', 'e', '9'] ∧ hexDigits 6 '😀'.toNat = ['0', '1', 'f', '6', '0', '0'] ∧
    hexDigits 5 '😀'.toNat = ['1', 'f', '6', '0', '0'] := by decide
example : (StringItem.simple .tab).toChar = .ok '\t' := C12_escape_simple .tab
example : (StringItem.utf8 ['d', '8', '0', '0']).toChar = .err "Invalid utf-8 codepoint" :=
  C12_escape_invalid _ 0xD800 (by decide) (.inl ⟨by decide, by decide⟩)
example : (StringItem.utf8 ['1', '1', '0', '0', '0', '0']).toChar = .err "Invalid utf-8 codepoint" :=
  C12_escape_invalid _ 0x110000 (by decide) (.inr (by decide))

/-! directives: a rule with three flags and two checks, permuted / duplicated / interleaved -/
def r0 : Rule := ⟨[], "A", .eoi⟩
def ds : List Directive := [.check ["f"], .memoize, .string, .check ["m", "g"], .position]
def ds' : List Directive := [.position, .check ["m", "g"], .memoize, .check ["f"], .string]
theorem ds_perm : ds.Perm ds' := by decide
example : ({ r0 with directives := ds }).flags = ({ r0 with directives := ds' }).flags := C12_directive_order r0 ds_perm
example : ({ r0 with directives := ds }).flags = { string := true, position := true, memoize := true } := by decide
example : ({ r0 with directives := .memoize :: .memoize :: ds }).flags = ({ r0 with directives := .memoize :: ds }).flags :=
  C12_directive_duplicates r0 .memoize ds
def xs : List Directive := [.check ["f"]]
def ys : List Directive := [.string, .check ["m", "g"], .position]
example : ({ r0 with directives := xs ++ Directive.memoize :: ys }).checks = ({ r0 with directives := xs ++ ys }).checks :=
  C12_checks_order r0 .memoize rfl xs ys
example : ({ r0 with directives := ds }).checks = [["f"], ["m", "g"]] := by decide

/-! the front end on a two-rule text with directives, a closure over a choice, a named field and a `\u` escape:
    `@check(f)@memoize @check(m::g) A={'a'|x:B}; B='é';` -/
def txt : List UInt8 :=
  [64, 99, 104, 101, 99, 107, 40, 102, 41, 64, 109, 101, 109, 111, 105, 122, 101, 32, 64, 99, 104, 101, 99, 107, 40, 109,
   58, 58, 103, 41, 32, 65, 61, 123, 39, 97, 39, 124, 120, 58, 66, 125, 59, 32, 66, 61, 39, 92, 117, 48, 48, 101, 57, 39, 59]
example : String.ofList (txt.map fun b => Char.ofNat b.toNat) = "@check(f)@memoize @check(m::g) A={'a'|x:B}; B='\\u00e9';" := by
  decide +kernel

def isExpected : FrontEnd.Outcome → Bool
  | .grammar ⟨[.rule ⟨da, na, .choice [.seq [.closure (.choice [.seq [.lit false [.chr 'a']],
                                                             .seq [.field (some (.ident x)) false b]]) false]]⟩,
               .rule ⟨db, nb, .choice [.seq [.lit false [.utf8 digits]]]⟩]⟩ =>
    da == [.check ["f"], .memoize, .check ["m", "g"]] && na == "A" && x == "x" && b == "B" && db == [] && nb == "B" &&
    digits == ['0', '0', 'e', '9']
  | _ => false
theorem txt_parsed : isExpected (FrontEnd.parse 80 txt) = true := by decide +kernel

/-- `C12_conformance`, grammar case, instantiated: the premise `FrontEnd.parse 80 txt = .grammar g` holds -/
example : ∃ g, FrontEnd.parse 80 txt = .grammar g ∧
    ∃ m v s, Spec.parse FrontEnd.metaEnv 0 m "Grammar" txt = some (.ok v s) ∧ FrontEnd.toGrammar 80 v = some g := by
  have h := txt_parsed
  cases hp : FrontEnd.parse 80 txt with
  | grammar g => exact ⟨g, rfl, (C12_conformance 80 txt).1 g hp⟩
  | parseError e => rw [hp] at h; cases h
  | other msg => rw [hp] at h; cases h
/-- … and the error case on `A=` (Proofs/FrontEndProofs.lean: `textBad`, `frontend_example_error`) -/
example : ∃ e, FrontEnd.parse 64 textBad = .parseError e ∧
    ∃ m, Spec.parse FrontEnd.metaEnv 0 m "Grammar" textBad = some (.err Spec.noErr) := by
  have h := frontend_example_error
  cases hp : FrontEnd.parse 64 textBad with
  | grammar g => rw [hp] at h; cases h
  | parseError e => exact ⟨e, rfl, (C12_conformance 64 textBad).2 e hp⟩
  | other msg => rw [hp] at h; cases h
/-- the error is reported at offset 2, the end of the text -/
example : (match FrontEnd.parse 64 textBad with | .parseError e => e.pos == 2 | _ => false) = true := by decide +kernel

example : ∃ n0, ∀ n, n0 ≤ n → FrontEnd.parse n txt ≠ .other "out of fuel" := C12_front_end_total txt
/-- fuel 64 is not enough for this text, 80 is: the bound in `C12_front_end_total` is not 0 -/
example : (match FrontEnd.parse 64 txt with | .other m => m == "out of fuel" | _ => false) = true := by decide +kernel

end C12_nv
/-! ## non-vacuity (END) -/

end Peg.Props
