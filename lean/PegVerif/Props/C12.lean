import PegVerif.Proofs.FrontEndProofs
import PegVerif.Proofs.Termination
/-
  C12 – grammar text is read into the structure its syntax denotes.
  The front end is `eval` on the meta-grammar *extracted from /repo/grammar.ebnf on every run*
  (FrontEnd.lean).  Theorems: every escape form denotes exactly the documented character (for every
  character and every applicable form), invalid code points are rejected, directives may come in any
  order / repeated, several `@check`s keep their order, and the front end is exactly the PEG reading
  of grammar.ebnf (conformance = C01 instantiated at the extracted grammar, whose side conditions
  are re-checked by kernel evaluation).  The full `parse ∘ print = id` statement over all layouts is
  exercised as a test by the `frontend` engine (three-way comparison: generating AST, shipped front
  end, model front end).
-/
namespace Peg.Props
open Peg

theorem C12_escape_x (c : Char) (h : c.toNat < 256) (d1 d2 : Char) (hd : hexDigits 2 c.toNat = [d1, d2]) :
    (StringItem.hexa d1 d2).toChar = .ok c := hexa_escape c h d1 d2 hd
theorem C12_escape_u4 (c : Char) (h : c.toNat < 65536) : (StringItem.utf8 (hexDigits 4 c.toNat)).toChar = .ok c :=
  utf8_escape_u4 c h
theorem C12_escape_U8 (c : Char) : (StringItem.utf8 (hexDigits 6 c.toNat)).toChar = .ok c := utf8_escape_U6 c
theorem C12_escape_braced (c : Char) (w : Nat) (hw : w ≤ 6) (h : c.toNat < 16 ^ w) :
    (StringItem.utf8 (hexDigits w c.toNat)).toChar = .ok c := utf8_escape_braced c w hw h
theorem C12_escape_simple (e : SimpleEsc) : (StringItem.simple e).toChar = .ok e.toChar := simple_escape e
theorem C12_escape_invalid (ds : List Char) (n : Nat) (h : hexFold ds 0 = some n)
    (hbad : (0xD800 ≤ n ∧ n ≤ 0xDFFF) ∨ 0x110000 ≤ n) : (StringItem.utf8 ds).toChar = .err "Invalid utf-8 codepoint" :=
  utf8_escape_reject ds n h hbad

/-- directives in any order … -/
theorem C12_directive_order (r : Rule) {ds ds' : List Directive} (h : ds.Perm ds') :
    ({ r with directives := ds }).flags = ({ r with directives := ds' }).flags := flags_perm r h
/-- … repeated directives change nothing … -/
theorem C12_directive_duplicates (r : Rule) (d : Directive) (ds : List Directive) :
    ({ r with directives := d :: d :: ds }).flags = ({ r with directives := d :: ds }).flags := flags_dup r d ds
/-- … and the `@check`s keep their source order whatever is written between them -/
theorem C12_checks_order (r : Rule) (d : Directive) (hd : d.isCheck = false) (xs ys : List Directive) :
    ({ r with directives := xs ++ d :: ys }).checks = ({ r with directives := xs ++ ys }).checks :=
  checks_insert_noncheck r d hd xs ys

/-- **Conformance**: whatever the front end answers is the answer of the PEG reading of grammar.ebnf -/
theorem C12_conformance (fuel : Nat) (text : List UInt8) :
    (∀ g, FrontEnd.parse fuel text = .grammar g →
      ∃ m v s, Spec.parse FrontEnd.metaEnv 0 m "Grammar" text = some (.ok v s) ∧ FrontEnd.toGrammar fuel v = some g) ∧
    (∀ e, FrontEnd.parse fuel text = .parseError e →
      ∃ m, Spec.parse FrontEnd.metaEnv 0 m "Grammar" text = some (.err Spec.noErr)) :=
  C12_conformance_sound fuel text

/-- side conditions on the extracted meta-grammar, re-checked on every run -/
theorem C12_meta_grammar_wellformed :
    NoLeftrec Extracted.metaGrammar ∧ allRefsDefined Extracted.metaGrammar = true ∧
    exportedRules Extracted.metaGrammar = ["Grammar"] :=
  ⟨metaGrammar_noLeftrec, metaGrammar_refs, metaGrammar_exports⟩

/-- **Totality of the front end**: on every text (valid or not, any bytes) the front end answers – a grammar,
    a parse error, or a reported shape failure – for all sufficiently large fuels; it never diverges.
    (grammar.ebnf passes the well-formedness check `wfCheck`, re-decided by the kernel on every run.) -/
theorem C12_front_end_total (text : List UInt8) :
    ∃ n0, ∀ n, n0 ≤ n → FrontEnd.parse n text ≠ .other "out of fuel" :=
  frontEnd_terminates_stable text

theorem C12_meta_grammar_terminating : wfCheck Extracted.metaGrammar {} = true := metaGrammar_wf

end Peg.Props
