import PegVerif.Proofs.RefineRule
import PegVerif.Proofs.Complete
import PegVerif.Proofs.Boundary
import PegVerif.Proofs.PegRelation
import PegVerif.Proofs.Termination
/-
  C01 – generated parsers recognise exactly the PEG language of the grammar.

  `eval` is the model of the generated parser (Eval.lean, tied to the real generator + runtime by
  the `pegdiff` correspondence runs); `Spec.eval` is the PEG reading of the grammar (Spec.lean).
  Theorems here: the model's answer *is* the PEG answer (acceptance, tree, consumed bytes), for
  every grammar, exported rule and input; the PEG answer is unique; and the PEG laws the property
  sentence lists hold of `Spec` by construction (stated explicitly below).
  Scope of the proved statements: grammars without `@leftrec` rules (those are C07) and user
  functions that do not modify the user context.
-/
namespace Peg.Props
open Peg Spec

/-- **Soundness.** Whatever the generated parser (model) answers on an exported rule is the PEG
    answer: same success/failure, same tree, same number of consumed bytes (`abs` keeps exactly
    those and drops the error payload).  Holds for every set of memoized rules. -/
theorem C01_sound (env : Env) (hp : PureHooks env.hooks) (hnl : NoLeftrec env.g)
    (rule : String) (inp : List UInt8) (u n : Nat) {r g}
    (h : parseAdvanced env n rule inp u = some (r, g)) :
    ∃ m, Spec.parse env u m rule inp = some (abs r) := by
  have hw : WfSt inp (St.new inp) := by simp [WfSt, St.new]
  have hg : Good env u inp (Global.init u) :=
    ⟨rfl, fun name off r hl => by simp [Global.init, Global.lookup] at hl⟩
  obtain ⟨⟨m0, h0⟩, _, _⟩ := (eval_ref (inp := inp) hp hnl n).rule rule (St.new inp) (Global.init u) r g h hw hg
  exact ⟨m0, h0 m0 (Nat.le_refl _)⟩

/-- the same for every sub-expression and start state: "every (sub)rule consumes exactly the number
    of bytes PEG semantics determines" -/
theorem C01_sound_expr (env : Env) (hp : PureHooks env.hooks) (hnl : NoLeftrec env.g) (inp : List UInt8)
    (u n : Nat) (ctx : Ctx) (e : Expr) (s : St) (g : Global) {r g'}
    (hw : WfSt inp s) (hg : Good env u inp g)
    (h : (eval env n).expr ctx e s g = some (r, g')) :
    ∃ m, (Spec.eval env u m).expr ctx e (clr s) = some (abs r) := by
  obtain ⟨⟨m0, h0⟩, _, _⟩ := (eval_ref (inp := inp) hp hnl n).expr ctx e s g r g' h hw hg
  exact ⟨m0, h0 m0 (Nat.le_refl _)⟩

/-- **The PEG answer is unique** (PEG semantics is deterministic): two fuels that both answer agree. -/
theorem C01_unique (env : Env) (u : Nat) (rule : String) (inp : List UInt8) {n m r r'}
    (h : Spec.parse env u n rule inp = some r) (h' : Spec.parse env u m rule inp = some r') : r = r' :=
  Spec.eval_rule_det env u h h'

/-- hence two runs of the generated parser (any fuels, any memo sets with the same reference
    semantics) agree on acceptance, tree and consumed bytes -/
theorem C01_deterministic (env : Env) (hp : PureHooks env.hooks) (hnl : NoLeftrec env.g)
    (rule : String) (inp : List UInt8) (u n n' : Nat) {r g r' g'}
    (h : parseAdvanced env n rule inp u = some (r, g))
    (h' : parseAdvanced env n' rule inp u = some (r', g')) : abs r = abs r' := by
  obtain ⟨m, hm⟩ := C01_sound env hp hnl rule inp u n h
  obtain ⟨m', hm'⟩ := C01_sound env hp hnl rule inp u n' h'
  exact C01_unique env u rule inp hm hm'

/-- **Completeness.** Whenever the PEG reading answers, the generated parser (model) answers too,
    with enough fuel, and abstracts to the same answer – in particular it terminates exactly when the
    PEG reading does ("the parse terminates" for every grammar/input on which PEG semantics is
    defined; the unconditional statement for well-formed grammars is `C01_terminates` below). -/
theorem C01_complete (env : Env) (hp : PureHooks env.hooks) (hnl : NoLeftrec env.g) (rule : String)
    (inp : List UInt8) (u m : Nat) {r} (h : Spec.parse env u m rule inp = some r) :
    ∃ n r' g', parseAdvanced env n rule inp u = some (r', g') ∧ abs r' = r :=
  parse_complete env hp hnl rule inp u m h

/-! ### termination on every input (Proofs/Termination.lean)

  `wfCheck g settings` is a decidable syntactic check (Ford's well-formedness): every referenced rule is
  defined, no include cycle, no closure over a nullable body (through rules and includes), and no rule
  reaches itself in left position (a rank that strictly decreases along every left-call edge exists) – under
  the whitespace-skipping settings, so a `Whitespace` rule that skips is rejected. It is conservative. -/

/-- **C01, "for every such grammar and input the parse terminates".** For a grammar that passes the
    well-formedness check, the PEG reading answers every (rule, input) – with any user functions, any
    user context. -/
theorem C01_terminates (env : Env) (u : Nat) (hwf : wfCheck env.g env.settings = true)
    (rule : String) (inp : List UInt8) : ∃ n r, Spec.parse env u n rule inp = some r :=
  Peg.C01_terminates env u hwf rule inp

/-- … and so does the generated parser (model), and its answer is the PEG answer. -/
theorem C01_terminates_impl (env : Env) (hp : PureHooks env.hooks) (hnl : NoLeftrec env.g)
    (hwf : wfCheck env.g env.settings = true) (rule : String) (inp : List UInt8) (u : Nat) :
    ∃ n r' g', parseAdvanced env n rule inp u = some (r', g') ∧
      ∃ m, Spec.parse env u m rule inp = some (abs r') :=
  Peg.C01_terminates_impl env hp hnl hwf rule inp u

/-- non-vacuity on the largest grammar at hand: peginator's own grammar (re-extracted from
    /repo/grammar.ebnf on every run) passes the check, hence the front end terminates on every text -/
theorem C01_metaGrammar_wellformed : wfCheck Extracted.metaGrammar {} = true := metaGrammar_wf

theorem C01_frontEnd_terminates (text : List UInt8) : ∃ n, FrontEnd.parse n text ≠ .other "out of fuel" :=
  frontEnd_terminates text

/-- the check is not vacuous in the other direction either: the textbook non-terminating grammars are rejected -/
example :
    let g : Grammar := ⟨[.rule { directives := [.export], name := "A", definition := .choice [.seq [.closure (.choice [.seq [.opt (.choice [.seq [.lit false [.chr 'x']]])]]) false]] }]⟩
    wfCheck g {} = false := by
  decide +kernel

/-! ### terminals match exactly the characters the syntax reference says (at a character boundary
    of valid UTF-8: `At cs pre rem s` = consumed `pre`, remaining `rem`) -/

theorem C01_char_literal {cs pre rem : List Char} {s : St} (hat : At cs pre rem s) (c v : Char) (s' : St) :
    parseCharacterLiteral s c = .ok v s' ↔
      v = c ∧ ∃ r, rem = c :: r ∧ s' = { s with rest := enc r, off := s.off + c.utf8Size } ∧ At cs (pre ++ [c]) r s' :=
  parseCharacterLiteral_ok_iff hat

theorem C01_char_range {cs pre rem : List Char} {s : St} (hat : At cs pre rem s) (lo hi v : Char) (s' : St) :
    parseCharacterRange s lo hi = .ok v s' ↔
      ∃ r, rem = v :: r ∧ lo ≤ v ∧ v ≤ hi ∧ s' = { s with rest := enc r, off := s.off + v.utf8Size } ∧ At cs (pre ++ [v]) r s' :=
  parseCharacterRange_ok_iff hat

theorem C01_string_literal {cs pre rem : List Char} {s : St} (hat : At cs pre rem s) (l : List Char) (v : Unit) (s' : St) :
    parseStringLiteral s l = .ok v s' ↔
      ∃ t, rem = l ++ t ∧ s' = { s with rest := enc t, off := s.off + (enc l).length } ∧ At cs (pre ++ l) t s' :=
  parseStringLiteral_ok_iff hat

theorem C01_end_of_input {cs pre rem : List Char} {s : St} (hat : At cs pre rem s) (v : Unit) (s' : St) :
    parseEndOfInput s = .ok v s' ↔ rem = [] ∧ s' = s :=
  parseEndOfInput_ok_iff hat

theorem C01_insensitive_literal {cs pre rem : List Char} {s : St} (hat : At cs pre rem s) (l : List Char)
    (hl : l.all isAscii = true) (v : Unit) (s' : St) :
    parseStringLiteralInsensitive s l = .ok v s' ↔
      ∃ p t, rem = p ++ t ∧ p.map charToAsciiLower = l ∧ s' = { s with rest := enc t, off := s.off + (enc p).length } ∧
        At cs (pre ++ p) t s' :=
  parseStringLiteralInsensitive_ok_iff hl hat

/-! ### the reference semantics is the textbook big-step PEG relation `Sem` (Proofs/PegRelation.lean:
    one constructor per rule of the semantics, readable in minutes) -/

/-- the functional reference semantics and the relation coincide (no hypotheses) -/
theorem C01_relation_iff_reference {env : Env} {u : Nat} {name : String} {s : St} {r : Res Val} :
    Sem env u (.rule name) s r ↔ ∃ n, (Spec.eval env u n).rule name s = some r :=
  ⟨Spec.eval_complete_rule, fun ⟨_, h⟩ => Spec.eval_sound_rule h⟩

/-- **C01, relational form.** The generated parser (model) answers `r` on (rule, input) iff `r` is
    derivable in the PEG relation – "succeeds exactly when that rule, read as a parsing expression
    grammar applied at offset 0, matches", with the tree and the consumed bytes. -/
theorem C01_exactly_the_peg_language (env : Env) (hp : PureHooks env.hooks) (hnl : NoLeftrec env.g)
    (rule : String) (inp : List UInt8) (u : Nat) {r : Res Val} :
    Sem env u (.rule rule) (St.new inp) r ↔ ∃ n r' g', parseAdvanced env n rule inp u = some (r', g') ∧ abs r' = r :=
  Sem.iff_parseAdvanced env hp hnl rule inp u r

/-- the relation is deterministic -/
theorem C01_relation_deterministic {env : Env} {u : Nat} {j : Judg} {s : St} {r r' : Res j.Out}
    (h : Sem env u j s r) (h' : Sem env u j s r') : r = r' := Sem.det h h'

/-! ### the PEG laws of the reference semantics, one by one -/

/-- sequences match left to right and fail as soon as a part fails (two-part case) -/
theorem C01_seq_fail_first (env : Env) (rec : SRec) (n : Nat) (ctx : Ctx) (a b : Expr) (rest : List Expr) (s : St)
    (h : rec.expr ctx a s = some (.err noErr)) :
    Spec.stepExpr env rec n ctx (.seq (a :: b :: rest)) s = some (.err noErr) := by
  simp [Spec.stepExpr, Spec.evalSeq, h, bindS]

/-- ordered choice commits to the first alternative that matches: later alternatives are not tried -/
theorem C01_choice_commits (env : Env) (rec : SRec) (n : Nat) (ctx : Ctx) (a b : Expr) (rest : List Expr) (s : St)
    {r s'} (h : rec.expr ctx a s = some (.ok r s')) :
    ∃ out, Spec.stepExpr env rec n ctx (.choice (a :: b :: rest)) s = some out ∧
      (∀ p s'', out = .ok p s'' → s'' = s') := by
  simp only [Spec.stepExpr, Spec.evalAlts, h]
  split
  · exact ⟨_, rfl, fun p s'' h => by cases h; rfl⟩
  · exact ⟨_, rfl, fun p s'' h => by cases h⟩

/-- an alternative is tried only after every earlier one failed, from the same position -/
theorem C01_choice_next (env : Env) (rec : SRec) (ctx : Ctx) (fields) (a : Expr) (rest : List Expr) (s : St)
    (h : rec.expr ctx a s = some (.err noErr)) :
    Spec.evalAlts env rec ctx fields (a :: rest) s = Spec.evalAlts env rec ctx fields rest s := by
  simp [Spec.evalAlts, h]

/-- optionals never fail -/
theorem C01_opt_never_fails (env : Env) (rec : SRec) (n : Nat) (ctx : Ctx) (b : Expr) (s : St) {out}
    (h : Spec.stepExpr env rec n ctx (.opt b) s = some out) : out ≠ .err noErr ∨ False := by
  left
  simp only [Spec.stepExpr] at h
  split at h
  · cases h
  · cases h; intro h; cases h
  · split at h <;> (cases h; intro h; cases h)
  · cases h; intro h; cases h

/-- lookaheads consume nothing: a successful `!e` / `&e` returns the state it started from -/
theorem C01_lookahead_consumes_nothing (env : Env) (rec : SRec) (n : Nat) (ctx : Ctx) (b : Expr) (s : St) {p s'} :
    (Spec.stepExpr env rec n ctx (.neg b) s = some (.ok p s') → s' = s) ∧
    (Spec.stepExpr env rec n ctx (.pos b) s = some (.ok p s') → s' = s) := by
  constructor
  · intro h
    simp only [Spec.stepExpr] at h
    split at h <;> cases h
    rfl
  · intro h
    simp only [Spec.stepExpr, bindS] at h
    split at h <;> cases h
    rfl

/-- closures are greedy and never give characters back: the loop stops only when the body fails,
    and then keeps everything matched so far -/
theorem C01_closure_stops_on_failure (body : St → SOut Parsed) (fields) (k iters : Nat) (acc : Parsed) (s : St)
    (h : body s = some (.err noErr)) :
    Spec.evalLoop body fields (k + 1) iters acc s = some (.ok (iters, acc) s) := by
  simp [Spec.evalLoop, h]

theorem C01_closure_continues_on_success (body : St → SOut Parsed) (fields) (k iters : Nat) (acc acc' : Parsed)
    (s s' : St) (r : Parsed) (h : body s = some (.ok r s')) (he : extendAll fields acc r = .ok acc') :
    Spec.evalLoop body fields (k + 1) iters acc s = Spec.evalLoop body fields k (iters + 1) acc' s' := by
  simp [Spec.evalLoop, h, he]

/-- trailing input is accepted: the exported entry point does not look at what follows the match
    (concretely: `A = 'a';` accepts "ab" and stops after one byte) -/
example :
    let g : Grammar := ⟨[.rule { directives := [.export], name := "A", definition := .choice [.seq [.lit false [.chr 'a']]] }]⟩
    let env : Env := { g := g, settings := {}, hooks := default, nf := 10 }
    (match parseAdvanced env 10 "A" [97, 98] 0 with
     | some (.ok _ s, _) => s.off == 1 && s.rest == [98]
     | _ => false) = true := by decide

end Peg.Props
