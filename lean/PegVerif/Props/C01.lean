import PegVerif.Proofs.RefineRule
import PegVerif.Proofs.Complete
import PegVerif.Proofs.Boundary
import PegVerif.Proofs.PegRelation
import PegVerif.Proofs.Termination
import PegVerif.Proofs.RefineLR
import PegVerif.Proofs.CompleteLR
import PegVerif.Proofs.NonVacuity
/-
  C01 – generated parsers recognise exactly the PEG language of the grammar.

  `eval` is the model of the generated parser (Eval.lean, tied to the real generator + runtime by
  the `pegdiff` correspondence runs); `Spec.eval` is the PEG reading of the grammar (Spec.lean).
  Theorems here: the model's answer *is* the PEG answer (acceptance, tree, consumed bytes), for
  every grammar, exported rule and input; the PEG answer is unique; and the PEG laws the property
  sentence lists hold of `Spec` by construction (stated explicitly below).
  Scope of the proved statements: grammars without `@leftrec` rules (those are C07) and user
  functions that do not modify the user context.
-/
namespace Peg.Props
open Peg Spec

/-- **Soundness.** Whatever the generated parser (model) answers on an exported rule is the PEG
    answer: same success/failure, same tree, same number of consumed bytes (`abs` keeps exactly
    those and drops the error payload).  Holds for every set of memoized rules. -/
theorem C01_sound (env : Env) (hp : PureHooks env.hooks) (hnl : NoLeftrec env.g)
    (rule : String) (inp : List UInt8) (u n : Nat) {r g}
    (h : parseAdvanced env n rule inp u = some (r, g)) :
    ∃ m, Spec.parse env u m rule inp = some (abs r) := by
  have hw : WfSt inp (St.new inp) := by simp [WfSt, St.new]
  have hg : Good env u inp (Global.init u) :=
    ⟨rfl, fun name off r hl => by simp [Global.init, Global.lookup] at hl⟩
  obtain ⟨⟨m0, h0⟩, _, _⟩ := (eval_ref (inp := inp) hp hnl n).rule rule (St.new inp) (Global.init u) r g h hw hg
  exact ⟨m0, h0 m0 (Nat.le_refl _)⟩

/-- the same for every sub-expression and start state: "every (sub)rule consumes exactly the number
    of bytes PEG semantics determines" -/
theorem C01_sound_expr (env : Env) (hp : PureHooks env.hooks) (hnl : NoLeftrec env.g) (inp : List UInt8)
    (u n : Nat) (ctx : Ctx) (e : Expr) (s : St) (g : Global) {r g'}
    (hw : WfSt inp s) (hg : Good env u inp g)
    (h : (eval env n).expr ctx e s g = some (r, g')) :
    ∃ m, (Spec.eval env u m).expr ctx e (clr s) = some (abs r) := by
  obtain ⟨⟨m0, h0⟩, _, _⟩ := (eval_ref (inp := inp) hp hnl n).expr ctx e s g r g' h hw hg
  exact ⟨m0, h0 m0 (Nat.le_refl _)⟩

/-- **The PEG answer is unique** (PEG semantics is deterministic): two fuels that both answer agree. -/
theorem C01_unique (env : Env) (u : Nat) (rule : String) (inp : List UInt8) {n m r r'}
    (h : Spec.parse env u n rule inp = some r) (h' : Spec.parse env u m rule inp = some r') : r = r' :=
  Spec.eval_rule_det env u h h'

/-- hence two runs of the generated parser (any fuels, any memo sets with the same reference
    semantics) agree on acceptance, tree and consumed bytes -/
theorem C01_deterministic (env : Env) (hp : PureHooks env.hooks) (hnl : NoLeftrec env.g)
    (rule : String) (inp : List UInt8) (u n n' : Nat) {r g r' g'}
    (h : parseAdvanced env n rule inp u = some (r, g))
    (h' : parseAdvanced env n' rule inp u = some (r', g')) : abs r = abs r' := by
  obtain ⟨m, hm⟩ := C01_sound env hp hnl rule inp u n h
  obtain ⟨m', hm'⟩ := C01_sound env hp hnl rule inp u n' h'
  exact C01_unique env u rule inp hm hm'

/-- **Completeness.** Whenever the PEG reading answers, the generated parser (model) answers too,
    with enough fuel, and abstracts to the same answer – in particular it terminates exactly when the
    PEG reading does ("the parse terminates" for every grammar/input on which PEG semantics is
    defined; the unconditional statement for well-formed grammars is `C01_terminates` below). -/
theorem C01_complete (env : Env) (hp : PureHooks env.hooks) (hnl : NoLeftrec env.g) (rule : String)
    (inp : List UInt8) (u m : Nat) {r} (h : Spec.parse env u m rule inp = some r) :
    ∃ n r' g', parseAdvanced env n rule inp u = some (r', g') ∧ abs r' = r :=
  parse_complete env hp hnl rule inp u m h

/-! ### termination on every input (Proofs/Termination.lean)

  `wfCheck g settings` is a decidable syntactic check (Ford's well-formedness): every referenced rule is
  defined, no include cycle, no closure over a nullable body (through rules and includes), and no rule
  reaches itself in left position (a rank that strictly decreases along every left-call edge exists) – under
  the whitespace-skipping settings, so a `Whitespace` rule that skips is rejected. It is conservative. -/

/-- **C01, "for every such grammar and input the parse terminates".** For a grammar that passes the
    well-formedness check, the PEG reading answers every (rule, input) – with any user functions, any
    user context. -/
theorem C01_terminates (env : Env) (u : Nat) (hwf : wfCheck env.g env.settings = true)
    (rule : String) (inp : List UInt8) : ∃ n r, Spec.parse env u n rule inp = some r :=
  Peg.C01_terminates env u hwf rule inp

/-- … and so does the generated parser (model), and its answer is the PEG answer. -/
theorem C01_terminates_impl (env : Env) (hp : PureHooks env.hooks) (hnl : NoLeftrec env.g)
    (hwf : wfCheck env.g env.settings = true) (rule : String) (inp : List UInt8) (u : Nat) :
    ∃ n r' g', parseAdvanced env n rule inp u = some (r', g') ∧
      ∃ m, Spec.parse env u m rule inp = some (abs r') :=
  Peg.C01_terminates_impl env hp hnl hwf rule inp u

/-- non-vacuity on the largest grammar at hand: peginator's own grammar (re-extracted from
    /repo/grammar.ebnf on every run) passes the check, hence the front end terminates on every text -/
theorem C01_metaGrammar_wellformed : wfCheck Extracted.metaGrammar {} = true := metaGrammar_wf

theorem C01_frontEnd_terminates (text : List UInt8) : ∃ n, FrontEnd.parse n text ≠ .other "out of fuel" :=
  frontEnd_terminates text

/-- the check is not vacuous in the other direction either: the textbook non-terminating grammars are rejected -/
example :
    let g : Grammar := ⟨[.rule { directives := [.export], name := "A", definition := .choice [.seq [.closure (.choice [.seq [.opt (.choice [.seq [.lit false [.chr 'x']]])]]) false]] }]⟩
    wfCheck g {} = false := by
  decide +kernel

/-! ### grammars WITH `@leftrec` rules (SpecLR.lean, Proofs/RefineLR.lean)

  `SpecLR.eval` is the reference semantics extended by the documented meaning of `@leftrec` (grow the match from
  the failing seed while it gets strictly further; nothing is remembered afterwards; `@memoize` is ignored).  It is
  fuel-monotone, deterministic, and *equal* to `Spec.eval` on grammars without `@leftrec` rules.  `LROk` is the
  decidable class the property's quantifier describes: left recursion goes through `@leftrec` rules only, and no
  other `@leftrec` or `@memoize` rule is reachable inside a cycle before input is consumed (precedence towers
  `E → T → F` are in the class). -/

/-- **soundness with left recursion**: the generated parser (model) computes the answer of the reference
    semantics with left recursion – acceptance, tree, consumed bytes – for every grammar of the class, any set of
    `@memoize` rules outside the cycles, every rule and input -/
theorem C01_sound_leftrec (env : Env) (hp : PureHooks env.hooks) (hok : LROk env.g env.settings)
    {n : Nat} {rule : String} {inp : List UInt8} {u : Nat} {r g}
    (h : parseAdvanced env n rule inp u = some (r, g)) :
    ∃ m, SpecLR.parse env u m rule inp = some (abs r) :=
  eval_refLR env hp hok h

/-- the extended reference semantics is deterministic … -/
theorem C01_leftrec_reference_unique (env : Env) (u : Nat) {n m : Nat} {rule inp r r'}
    (h : SpecLR.parse env u n rule inp = some r) (h' : SpecLR.parse env u m rule inp = some r') : r = r' :=
  SpecLR.parse_det env u h h'

/-- … and conservative: without `@leftrec` rules it *is* the PEG reading, at the same fuel -/
theorem C01_leftrec_reference_conservative {env : Env} (hnl : NoLeftrec env.g) (u fuel : Nat) (rule : String)
    (inp : List UInt8) : SpecLR.parse env u fuel rule inp = Spec.parse env u fuel rule inp :=
  SpecLR.parse_eq_spec hnl u fuel rule inp

/-- **completeness with left recursion**: whenever the growth semantics answers, the generated parser (model)
    answers too, with enough fuel, and abstracts to that answer -/
theorem C01_complete_leftrec (env : Env) (hp : PureHooks env.hooks) (hok : LROk env.g env.settings)
    (rule : String) (inp : List UInt8) (u m : Nat) {r} (h : SpecLR.parse env u m rule inp = some r) :
    ∃ n r' g', parseAdvanced env n rule inp u = some (r', g') ∧ abs r' = r :=
  parse_completeLR env hp hok rule inp u m h

/-- both directions: the model answers `r` (up to the error payload) iff the reference semantics with left recursion
    does; in particular the generated parser terminates exactly when that semantics is defined -/
theorem C01_iff_leftrec (env : Env) (hp : PureHooks env.hooks) (hok : LROk env.g env.settings)
    (rule : String) (inp : List UInt8) (u : Nat) (r : Res Val) :
    (∃ n r' g', parseAdvanced env n rule inp u = some (r', g') ∧ abs r' = r) ↔
      (∃ m, SpecLR.parse env u m rule inp = some r) :=
  parse_iffLR env hp hok rule inp u r

/-- non-vacuity: the calculator tower `E = l:*E '+' r:T | t:T; T = l:*T '*' r:F | f:F; F = '(' e:*E ')' | n:Num` is
    in the class -/
example : LROk LRExample.calcEnv.g LRExample.calcEnv.settings := by decide

/-! ### terminals match exactly the characters the syntax reference says (at a character boundary
    of valid UTF-8: `At cs pre rem s` = consumed `pre`, remaining `rem`) -/

theorem C01_char_literal {cs pre rem : List Char} {s : St} (hat : At cs pre rem s) (c v : Char) (s' : St) :
    parseCharacterLiteral s c = .ok v s' ↔
      v = c ∧ ∃ r, rem = c :: r ∧ s' = { s with rest := enc r, off := s.off + c.utf8Size } ∧ At cs (pre ++ [c]) r s' :=
  parseCharacterLiteral_ok_iff hat

theorem C01_char_range {cs pre rem : List Char} {s : St} (hat : At cs pre rem s) (lo hi v : Char) (s' : St) :
    parseCharacterRange s lo hi = .ok v s' ↔
      ∃ r, rem = v :: r ∧ lo ≤ v ∧ v ≤ hi ∧ s' = { s with rest := enc r, off := s.off + v.utf8Size } ∧ At cs (pre ++ [v]) r s' :=
  parseCharacterRange_ok_iff hat

theorem C01_string_literal {cs pre rem : List Char} {s : St} (hat : At cs pre rem s) (l : List Char) (v : Unit) (s' : St) :
    parseStringLiteral s l = .ok v s' ↔
      ∃ t, rem = l ++ t ∧ s' = { s with rest := enc t, off := s.off + (enc l).length } ∧ At cs (pre ++ l) t s' :=
  parseStringLiteral_ok_iff hat

theorem C01_end_of_input {cs pre rem : List Char} {s : St} (hat : At cs pre rem s) (v : Unit) (s' : St) :
    parseEndOfInput s = .ok v s' ↔ rem = [] ∧ s' = s :=
  parseEndOfInput_ok_iff hat

theorem C01_insensitive_literal {cs pre rem : List Char} {s : St} (hat : At cs pre rem s) (l : List Char)
    (hl : l.all isAscii = true) (v : Unit) (s' : St) :
    parseStringLiteralInsensitive s l = .ok v s' ↔
      ∃ p t, rem = p ++ t ∧ p.map charToAsciiLower = l ∧ s' = { s with rest := enc t, off := s.off + (enc p).length } ∧
        At cs (pre ++ p) t s' :=
  parseStringLiteralInsensitive_ok_iff hl hat

/-! ### the reference semantics is the textbook big-step PEG relation `Sem` (Proofs/PegRelation.lean:
    one constructor per rule of the semantics, readable in minutes) -/

/-- the functional reference semantics and the relation coincide (no hypotheses) -/
theorem C01_relation_iff_reference {env : Env} {u : Nat} {name : String} {s : St} {r : Res Val} :
    Sem env u (.rule name) s r ↔ ∃ n, (Spec.eval env u n).rule name s = some r :=
  ⟨Spec.eval_complete_rule, fun ⟨_, h⟩ => Spec.eval_sound_rule h⟩

/-- **C01, relational form.** The generated parser (model) answers `r` on (rule, input) iff `r` is
    derivable in the PEG relation – "succeeds exactly when that rule, read as a parsing expression
    grammar applied at offset 0, matches", with the tree and the consumed bytes. -/
theorem C01_exactly_the_peg_language (env : Env) (hp : PureHooks env.hooks) (hnl : NoLeftrec env.g)
    (rule : String) (inp : List UInt8) (u : Nat) {r : Res Val} :
    Sem env u (.rule rule) (St.new inp) r ↔ ∃ n r' g', parseAdvanced env n rule inp u = some (r', g') ∧ abs r' = r :=
  Sem.iff_parseAdvanced env hp hnl rule inp u r

/-- the relation is deterministic -/
theorem C01_relation_deterministic {env : Env} {u : Nat} {j : Judg} {s : St} {r r' : Res j.Out}
    (h : Sem env u j s r) (h' : Sem env u j s r') : r = r' := Sem.det h h'

/-! ### the PEG laws of the reference semantics, one by one -/

/-- sequences match left to right and fail as soon as a part fails (two-part case) -/
theorem C01_seq_fail_first (env : Env) (rec : SRec) (n : Nat) (ctx : Ctx) (a b : Expr) (rest : List Expr) (s : St)
    (h : rec.expr ctx a s = some (.err noErr)) :
    Spec.stepExpr env rec n ctx (.seq (a :: b :: rest)) s = some (.err noErr) := by
  simp [Spec.stepExpr, Spec.evalSeq, h, bindS]

/-- ordered choice commits to the first alternative that matches: later alternatives are not tried -/
theorem C01_choice_commits (env : Env) (rec : SRec) (n : Nat) (ctx : Ctx) (a b : Expr) (rest : List Expr) (s : St)
    {r s'} (h : rec.expr ctx a s = some (.ok r s')) :
    ∃ out, Spec.stepExpr env rec n ctx (.choice (a :: b :: rest)) s = some out ∧
      (∀ p s'', out = .ok p s'' → s'' = s') := by
  simp only [Spec.stepExpr, Spec.evalAlts, h]
  split
  · exact ⟨_, rfl, fun p s'' h => by cases h; rfl⟩
  · exact ⟨_, rfl, fun p s'' h => by cases h⟩

/-- an alternative is tried only after every earlier one failed, from the same position -/
theorem C01_choice_next (env : Env) (rec : SRec) (ctx : Ctx) (fields) (a : Expr) (rest : List Expr) (s : St)
    (h : rec.expr ctx a s = some (.err noErr)) :
    Spec.evalAlts env rec ctx fields (a :: rest) s = Spec.evalAlts env rec ctx fields rest s := by
  simp [Spec.evalAlts, h]

/-- optionals never fail -/
theorem C01_opt_never_fails (env : Env) (rec : SRec) (n : Nat) (ctx : Ctx) (b : Expr) (s : St) {out}
    (h : Spec.stepExpr env rec n ctx (.opt b) s = some out) : out ≠ .err noErr := by
  simp only [Spec.stepExpr] at h
  split at h
  · cases h
  · cases h; intro h; cases h
  · split at h <;> (cases h; intro h; cases h)
  · cases h; intro h; cases h

/-- lookaheads consume nothing: a successful `!e` / `&e` returns the state it started from -/
theorem C01_lookahead_consumes_nothing (env : Env) (rec : SRec) (n : Nat) (ctx : Ctx) (b : Expr) (s : St) {p s'} :
    (Spec.stepExpr env rec n ctx (.neg b) s = some (.ok p s') → s' = s) ∧
    (Spec.stepExpr env rec n ctx (.pos b) s = some (.ok p s') → s' = s) := by
  constructor
  · intro h
    simp only [Spec.stepExpr] at h
    split at h <;> cases h
    rfl
  · intro h
    simp only [Spec.stepExpr, bindS] at h
    split at h <;> cases h
    rfl

/-- closures are greedy and never give characters back: the loop stops only when the body fails,
    and then keeps everything matched so far -/
theorem C01_closure_stops_on_failure (body : St → SOut Parsed) (fields) (k iters : Nat) (acc : Parsed) (s : St)
    (h : body s = some (.err noErr)) :
    Spec.evalLoop body fields (k + 1) iters acc s = some (.ok (iters, acc) s) := by
  simp [Spec.evalLoop, h]

theorem C01_closure_continues_on_success (body : St → SOut Parsed) (fields) (k iters : Nat) (acc acc' : Parsed)
    (s s' : St) (r : Parsed) (h : body s = some (.ok r s')) (he : extendAll fields acc r = .ok acc') :
    Spec.evalLoop body fields (k + 1) iters acc s = Spec.evalLoop body fields k (iters + 1) acc' s' := by
  simp [Spec.evalLoop, h, he]

/-- trailing input is accepted: the exported entry point does not look at what follows the match
    (concretely: `A = 'a';` accepts "ab" and stops after one byte) -/
example :
    let g : Grammar := ⟨[.rule { directives := [.export], name := "A", definition := .choice [.seq [.lit false [.chr 'a']]] }]⟩
    let env : Env := { g := g, settings := {}, hooks := default, nf := 10 }
    (match parseAdvanced env 10 "A" [97, 98] 0 with
     | some (.ok _ s, _) => s.off == 1 && s.rest == [98]
     | _ => false) = true := by decide

/-! ## non-vacuity (BEGIN) -/
namespace C01_nv
open Peg.NV

/-- `At` from its (decidable) unfolding -/
theorem at_of {cs pre rem : List Char} {s : St}
    (h : (cs = pre ++ rem ∧ s.off = (enc pre).length ∧ s.rest = enc rem)) : At cs pre rem s := h

/-! instance: `NV.env0` = `@export S = first:Num {'+' rest:Num} | word:Word; @string Num = {'0'..'9'}+;
    @string Word = {'a'..'z'}+;` (skipping on), input `"1 + 23"` -/

/-- the hypotheses of `C01_sound` … `C01_exactly_the_peg_language` hold together -/
example : PureHooks env0.hooks ∧ NoLeftrec env0.g ∧ wfCheck env0.g env0.settings = true :=
  ⟨env0_pure, env0_noLeftrec, by decide⟩

theorem run_some : (parseAdvanced env0 20 "S" inp1 0).isSome = true := by decide
theorem spec_some : (Spec.parse env0 0 20 "S" inp1).isSome = true := by decide

/-- the run the theorems talk about: the closure runs twice (second time the body fails), whitespace is
    skipped before `+` and `23`, the first alternative wins -/
example : show' (parseAdvanced env0 20 "S" inp1 0) =
    some ("S { first: Some(S\"31\"), rest: [S\"3233\"], word: None }", 6) := by decide
/-- … and a failing one (`"?"`): both alternatives fail -/
example : (match parseAdvanced env0 20 "S" inp3 0 with | some (.err e, _) => e.pos == 0 | _ => false) = true := by
  decide

/-- `C01_sound` instantiated -/
example : ∃ m, Spec.parse env0 0 m "S" inp1 = some (abs ((parseAdvanced env0 20 "S" inp1 0).get run_some).1) :=
  C01_sound env0 env0_pure env0_noLeftrec "S" inp1 0 20 (run_eq run_some)

/-- the reference answer it refers to is the same tree -/
example : (match Spec.parse env0 0 20 "S" inp1 with
    | some (.ok v s) => v.render == "S { first: Some(S\"31\"), rest: [S\"3233\"], word: None }" && s.off == 6 && s.far == none
    | _ => false) = true := by decide

/-- `C01_deterministic` on two different fuels -/
example : (parseAdvanced env0 25 "S" inp1 0).isSome = true := by decide
example (h25 : (parseAdvanced env0 25 "S" inp1 0).isSome = true) :
    abs ((parseAdvanced env0 20 "S" inp1 0).get run_some).1 = abs ((parseAdvanced env0 25 "S" inp1 0).get h25).1 :=
  C01_deterministic env0 env0_pure env0_noLeftrec "S" inp1 0 20 25 (run_eq run_some) (run_eq h25)

/-- `C01_complete` / `C01_unique` instantiated at the reference run -/
example : ∃ n r' g', parseAdvanced env0 n "S" inp1 0 = some (r', g') ∧
    abs r' = (Spec.parse env0 0 20 "S" inp1).get spec_some :=
  C01_complete env0 env0_pure env0_noLeftrec "S" inp1 0 20 (Option.some_get spec_some).symm

/-- `C01_terminates(_impl)` instantiated: every input, e.g. the failing one -/
example : ∃ n r, Spec.parse env0 0 n "S" inp3 = some r := C01_terminates env0 0 (by decide) "S" inp3
example : ∃ n r' g', parseAdvanced env0 n "S" inp3 0 = some (r', g') ∧ ∃ m, Spec.parse env0 0 m "S" inp3 = some (abs r') :=
  C01_terminates_impl env0 env0_pure env0_noLeftrec (by decide) "S" inp3 0

/-- `C01_sound_expr`: the closure `{'+' rest:Num}` of `S`, started in the middle of the input (offset 1, in front
    of `" + 23"`) with the fresh global -/
def ctxS : Ctx := ⟨true, ownFields env0 (ruleS []).definition⟩
def cl : Expr := .closure (.choice [.seq [lit '+', .field (some (.ident "rest")) false "Num"]]) false
def mid : St := ⟨inp1.drop 1, 1, none⟩
theorem mid_wf : WfSt inp1 mid := wf_of (by decide)
theorem cl_some : ((eval env0 20).expr ctxS cl mid (Global.init 0)).isSome = true := by decide
example : (match (eval env0 20).expr ctxS cl mid (Global.init 0) with
    | some (.ok p s, _) => (p.get "rest").map Val.render == some "[S\"3233\"]" && s.off == 6
    | _ => false) = true := by decide
example : ∃ m, (Spec.eval env0 0 m).expr ctxS cl (clr mid) =
    some (abs (((eval env0 20).expr ctxS cl mid (Global.init 0)).get cl_some).1) :=
  C01_sound_expr env0 env0_pure env0_noLeftrec inp1 0 20 ctxS cl mid (Global.init 0) mid_wf (good_init env0 0 inp1)
    (run_eq cl_some)

/-- the relational form: the PEG relation derives the abstraction of the model's answer -/
example : Sem env0 0 (.rule "S") (St.new inp1) (abs ((parseAdvanced env0 20 "S" inp1 0).get run_some).1) :=
  (C01_exactly_the_peg_language env0 env0_pure env0_noLeftrec "S" inp1 0).mpr ⟨20, _, _, run_eq run_some, rfl⟩

/-! terminals on a text with 1-, 2- and 3-byte characters: `"aé€"`, cursor after `a` -/
def cs : List Char := ['a', 'é', '€']
def s1 : St := ⟨enc ['é', '€'], 1, none⟩
theorem at1 : At cs ['a'] ['é', '€'] s1 := at_of (by decide)

example : ∃ s', parseCharacterLiteral s1 'é' = .ok 'é' s' ∧ s'.off = 3 ∧ At cs ['a', 'é'] ['€'] s' := by
  refine ⟨_, (C01_char_literal at1 'é' 'é' _).mpr ⟨rfl, ['€'], rfl, rfl, at_of (by decide)⟩, rfl, at_of (by decide)⟩
example : ∃ s', parseCharacterRange s1 'à' 'ÿ' = .ok 'é' s' ∧ s'.off = 3 :=
  ⟨_, (C01_char_range at1 'à' 'ÿ' 'é' _).mpr ⟨['€'], rfl, by decide, by decide, rfl, at_of (by decide)⟩, rfl⟩
example : ∃ s', parseStringLiteral s1 ['é', '€'] = .ok () s' ∧ s'.off = 6 ∧ s'.rest = [] :=
  ⟨_, (C01_string_literal at1 ['é', '€'] () _).mpr ⟨[], rfl, rfl, at_of (by decide)⟩, rfl, rfl⟩
/-- `$` does not match here (two characters remain), it matches at the end -/
example : ¬ ∃ s', parseEndOfInput s1 = .ok () s' := fun ⟨s', h⟩ => by
  have := ((C01_end_of_input at1 () s').mp h).1; exact absurd this (by decide)
example : parseEndOfInput ⟨[], 6, none⟩ = .ok () ⟨[], 6, none⟩ :=
  (C01_end_of_input (cs := cs) (pre := cs) (rem := []) (at_of (by decide)) () _).mpr ⟨rfl, rfl⟩
/-- case-insensitive literal `i"ab"` on `"AbC"` -/
example : ∃ s', parseStringLiteralInsensitive (St.new (enc ['A', 'b', 'C'])) ['a', 'b'] = .ok () s' ∧ s'.off = 2 :=
  ⟨_, (C01_insensitive_literal (cs := ['A', 'b', 'C']) (pre := []) (rem := ['A', 'b', 'C']) (at_of (by decide)) ['a', 'b']
        (by decide) () _).mpr ⟨['A', 'b'], ['C'], rfl, by decide, rfl, at_of (by decide)⟩, rfl⟩

/-! the PEG laws are statements about one step over an arbitrary `SRec`; instantiated at the real evaluator -/
def rec19 : SRec := Spec.eval env0 0 19

/-- `C01_choice_next` / `C01_seq_fail_first`: on `"abc"` the first alternative of `S` (starts with `Num`) fails -/
def alt1 : Expr := .seq [.field (some (.ident "first")) false "Num",
                   .closure (.choice [.seq [lit '+', .field (some (.ident "rest")) false "Num"]]) false]
def alt2 : Expr := .seq [.field (some (.ident "word")) false "Word"]
def sW : St := St.new [97, 98, 99]
theorem alt1_fails : rec19.expr ctxS alt1 sW = some (.err noErr) := serr_of (by decide)
example : Spec.evalAlts env0 rec19 ctxS ctxS.ruleFields [alt1, alt2] sW = Spec.evalAlts env0 rec19 ctxS ctxS.ruleFields [alt2] sW :=
  C01_choice_next env0 rec19 ctxS _ alt1 [alt2] sW alt1_fails
theorem first_fails : rec19.expr ctxS (.field (some (.ident "first")) false "Num") sW = some (.err noErr) := serr_of (by decide)
example : Spec.stepExpr env0 rec19 19 ctxS alt1 sW = some (.err noErr) :=
  C01_seq_fail_first env0 rec19 19 ctxS _ _ [] sW first_fails

/-- `C01_choice_commits`: on `"1 + 23"` the first alternative matches, the choice ends where it ended -/
example : ∃ out, Spec.stepExpr env0 rec19 19 ctxS (.choice [alt1, alt2]) (St.new inp1) = some out ∧
    (∀ p s'', out = .ok p s'' → s''.off = 6) := by
  obtain ⟨r, s', h, hp⟩ := sok_of (o := rec19.expr ctxS alt1 (St.new inp1)) (fun _ s => s.off == 6) (by decide)
  obtain ⟨out, ho, hs⟩ := C01_choice_commits env0 rec19 19 ctxS alt1 alt2 [] (St.new inp1) h
  exact ⟨out, ho, fun p s'' e => by rw [hs p s'' e]; simpa using hp⟩

/-- `C01_closure_stops_on_failure`: the body of the closure fails at the end of `"1 + 23"` -/
def bodyE : Expr := .choice [.seq [lit '+', .field (some (.ident "rest")) false "Num"]]
def sEnd : St := ⟨[], 6, none⟩
theorem body_fails : rec19.expr ctxS bodyE sEnd = some (.err noErr) := serr_of (by decide)
example (acc : Parsed) : Spec.evalLoop (rec19.expr ctxS bodyE) [] 3 1 acc sEnd = some (.ok (1, acc) sEnd) :=
  C01_closure_stops_on_failure _ _ 2 1 acc sEnd body_fails

end C01_nv
/-! ## non-vacuity (END) -/

end Peg.Props
