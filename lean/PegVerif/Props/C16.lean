import PegVerif.Proofs.DeclProofs
import PegVerif.Proofs.BuildProofs
import PegVerif.Proofs.NonVacuity
/-
  C16 – code generation is deterministic and identical through every integration route.
  The model is a function, so determinism of the *model* is trivial; the content here is that the
  order of everything emitted is a function of the grammar text alone: type sets are kept sorted and
  duplicate-free whatever the order in which occurrences are met (the `BTreeMap` of the real code),
  declarations follow rule order.  Process-level sources of nondeterminism (hash seeds, environment)
  cannot be exhibited by a Lean function: three fresh processes, the CLI and the build script are
  compared byte for byte by the `routes` engine (a test, labelled as such).
-/
namespace Peg.Props
open Peg Peg.Compile

/-- the variants of a multi-type field come out sorted and duplicate-free -/
theorem C16_types_sorted {g : Grammar} {n : Nat} {e : Expr} {fs : List FieldDesc}
    (h : getFields g n e = .ok fs) : TypesSorted fs := getFields_types_sorted h

/-- and do not depend on the order in which the occurrences are combined -/
theorem C16_type_set_order_independent {l r r' : List (String × Bool)} (hs : SortedKeys l) (hp : r.Perm r') :
    combineTypes l r = combineTypes l r' := combineTypes_perm hs hp

/-- declarations are emitted rule by rule, in grammar order -/
theorem C16_declarations_in_rule_order (kws : List String) (g : Grammar) (st : Settings) (fuel : Nat) :
    decls kws g st fuel = g.rules.flatMap (entryDecls kws g st fuel) := decls_eq kws g st fuel

/-- route format of the build script: header (with grammar and prefix CRC), prefix, then the code -/
theorem C16_buildscript_route (k : Build.Consts) (grammar pfx code : List UInt8) :
    Build.output k grammar pfx code = Build.fullHeader k grammar pfx ++ Build.str "\n" ++ code := rfl

/-- the header depends on the grammar text only through its CRC-32 (and on the build constants) … -/
theorem C16_header_function (k : Build.Consts) (g g' : List UInt8) (h : Build.crc32 g = Build.crc32 g') :
    Build.sourceHeader k g = Build.sourceHeader k g' := by
  unfold Build.sourceHeader; rw [h]

/-- … and it determines that CRC: two grammar texts get the same header exactly when their CRC-32 agree -/
theorem C16_header_determines_crc (k : Build.Consts) (g g' : List UInt8)
    (h : Build.sourceHeader k g = Build.sourceHeader k g') : Build.crc32 g = Build.crc32 g' := by
  unfold Build.sourceHeader at h
  simp only [List.append_assoc] at h
  have h1 := List.append_cancel_left h
  have h2 := List.append_cancel_left h1
  have h3 := List.append_cancel_left h2
  have h4 := List.append_cancel_left h3
  have h5 := List.append_cancel_left h4
  have h6 := List.append_cancel_left h5
  have := (List.append_inj h6 (by simp [Peg.hex8_length])).1
  exact Peg.hex8_inj this

/-! ## non-vacuity (BEGIN) -/
namespace C16_nv
open Peg.NV

/-! `C16_types_sorted`: `R = { v:Y | v:X | v:*Y };` – the types of `v` are met in the order `Y`, `X`, `Y` (boxed);
    the descriptor lists them sorted, once, with the `boxed` marks or-ed -/
def rT : Rule := ⟨[], "R",
  .choice [.seq [.closure (.choice [.seq [fld "v" "Y"], .seq [fld "v" "X"], .seq [.field (some (.ident "v")) true "Y"]]) false]]⟩
def envT : Env := { g := ⟨[.rule rT]⟩, settings := {}, hooks := default, nf := 10 }
theorem hget : getFields envT.g envT.nf rT.definition = .ok (ownFields envT rT.definition) := getFields_ok_of (by decide +kernel)
example : ownFields envT rT.definition = [⟨"v", [("X", false), ("Y", true)], .multiple⟩] := by decide +kernel
example : TypesSorted (ownFields envT rT.definition) := C16_types_sorted hget

/-! `C16_type_set_order_independent`: three types inserted into a two-element sorted set in two different orders -/
def l0 : List (String × Bool) := [("B", false), ("D", false)]
def r1 : List (String × Bool) := [("C", false), ("A", true), ("B", true)]
def r2 : List (String × Bool) := [("B", true), ("C", false), ("A", true)]
theorem l0_sorted : SortedKeys l0 := by unfold SortedKeys; decide +kernel
theorem r_perm : r1.Perm r2 := by decide
example : combineTypes l0 r1 = combineTypes l0 r2 := C16_type_set_order_independent l0_sorted r_perm
example : combineTypes l0 r1 = [("A", true), ("B", true), ("C", false), ("D", false)] := by decide +kernel

/-! `C16_declarations_in_rule_order` on the running example (three rules, three declarations in that order) -/
example : decls Extracted.rustKeywords env0.g {} 10 = env0.g.rules.flatMap (entryDecls Extracted.rustKeywords env0.g {} 10) :=
  C16_declarations_in_rule_order _ _ _ _
example : decls Extracted.rustKeywords env0.g {} 10 =
    ["#[derive(Debug,Clone,)]pubstructS{pubfirst:Option<Num>,pubrest:Vec<Num>,pubword:Option<Word>,}",
     "pubtypeNum=String;", "pubtypeWord=String;"] := by decide +kernel

/-! the build-script route on concrete bytes: grammar `A='a';`, prefix `//p\n`, code `fn x(){}` -/
def k0 : Build.Consts := ⟨Build.str "0.7.0", Build.str "2024"⟩
def gtxt : List UInt8 := Build.str "A='a';"
example : Build.output k0 gtxt (Build.str "//p\n") (Build.str "fn x(){}") =
    Build.fullHeader k0 gtxt (Build.str "//p\n") ++ Build.str "\n" ++ Build.str "fn x(){}" :=
  C16_buildscript_route k0 gtxt _ _
/-- the header contains the CRC of the grammar text; a different text gives a different header -/
example : Build.hex8 (Build.crc32 gtxt) ≠ Build.hex8 (Build.crc32 (Build.str "A='b';")) ∧
    Build.sourceHeader k0 gtxt ≠ Build.sourceHeader k0 (Build.str "A='b';") := by decide +kernel
example : Build.sourceHeader k0 gtxt = Build.sourceHeader k0 gtxt := C16_header_function k0 gtxt gtxt rfl

end C16_nv
/-! ## non-vacuity (END) -/

end Peg.Props
