import PegVerif.Proofs.DeclProofs
import PegVerif.Proofs.BuildProofs
/-
  C16 – code generation is deterministic and identical through every integration route.
  The model is a function, so determinism of the *model* is trivial; the content here is that the
  order of everything emitted is a function of the grammar text alone: type sets are kept sorted and
  duplicate-free whatever the order in which occurrences are met (the `BTreeMap` of the real code),
  declarations follow rule order.  Process-level sources of nondeterminism (hash seeds, environment)
  cannot be exhibited by a Lean function: three fresh processes, the CLI and the build script are
  compared byte for byte by the `routes` engine (a test, labelled as such).
-/
namespace Peg.Props
open Peg Peg.Compile

/-- the variants of a multi-type field come out sorted and duplicate-free -/
theorem C16_types_sorted {g : Grammar} {n : Nat} {e : Expr} {fs : List FieldDesc}
    (h : getFields g n e = .ok fs) : TypesSorted fs := getFields_types_sorted h

/-- and do not depend on the order in which the occurrences are combined -/
theorem C16_type_set_order_independent {l r r' : List (String × Bool)} (hs : SortedKeys l) (hp : r.Perm r') :
    combineTypes l r = combineTypes l r' := combineTypes_perm hs hp

/-- declarations are emitted rule by rule, in grammar order -/
theorem C16_declarations_in_rule_order (kws : List String) (g : Grammar) (st : Settings) (fuel : Nat) :
    decls kws g st fuel = g.rules.flatMap (entryDecls kws g st fuel) := decls_eq kws g st fuel

/-- route format of the build script: header (with grammar and prefix CRC), prefix, then the code -/
theorem C16_buildscript_route (k : Build.Consts) (grammar pfx code : List UInt8) :
    Build.output k grammar pfx code = Build.fullHeader k grammar pfx ++ Build.str "\n" ++ code := rfl

/-- the header is a function of the grammar text (and the build constants) only -/
theorem C16_header_function (k : Build.Consts) (g g' : List UInt8) (h : g = g') :
    Build.sourceHeader k g = Build.sourceHeader k g' := by rw [h]

end Peg.Props
