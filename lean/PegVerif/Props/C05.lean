import PegVerif.Proofs.SetMemo
/-
  C05 – `@memoize` never changes what is accepted or the tree that is returned.

  `env.setMemo M` marks exactly the rules selected by `M` with `@memoize` (and removes every other
  `@memoize`).  `eval` is the model of the generated parser including the cache code of
  `generate_memoized_body`; the cache invariant `CacheOk` ("every cached entry is the reference
  answer of that rule at that offset") is the heart of the proof (`eval_ref`).
-/
namespace Peg.Props
open Peg Spec

/-- **Transparency.**  For any two sets `M`, `M'` of memoized rules, any exported rule, any input
    and any fuels at which both parsers answer: same acceptance, same tree, same consumed bytes.
    Only the payload of a reported error may differ (`abs` drops exactly that). -/
theorem C05_transparent (env : Env) (M M' : String → Bool) (hp : PureHooks env.hooks) (hnl : NoLeftrec env.g)
    (rule : String) (inp : List UInt8) (u n n' : Nat) {r r' g g'}
    (h : parseAdvanced (env.setMemo M) n rule inp u = some (r, g))
    (h' : parseAdvanced (env.setMemo M') n' rule inp u = some (r', g')) :
    abs r = abs r' :=
  memo_transparent env M M' hp hnl rule inp u n n' h h'

/-- every memo variant computes the reference (memo-free, cache-free) answer of the grammar -/
theorem C05_refines_spec (env : Env) (M : String → Bool) (hp : PureHooks env.hooks) (hnl : NoLeftrec env.g)
    (rule : String) (inp : List UInt8) (u n : Nat) {r g}
    (h : parseAdvanced (env.setMemo M) n rule inp u = some (r, g)) :
    ∃ m, Spec.parse env u m rule inp = some (abs r) :=
  memo_refines_spec env M hp hnl rule inp u n h

/-- the reference semantics does not look at `@memoize` at all -/
theorem C05_spec_ignores_memo (env : Env) (M : String → Bool) (u n : Nat) :
    Spec.eval (env.setMemo M) u n = Spec.eval env u n :=
  Spec.eval_setMemo env M u n

/-- **Fresh cache per call.**  `parse_advanced` starts from the empty cache, which satisfies the
    cache invariant vacuously – a result can never depend on inputs parsed earlier (C20 adds the
    history statement). -/
theorem C05_fresh (env : Env) (u : Nat) (inp : List UInt8) :
    (Global.init u).cache = [] ∧ Good env u inp (Global.init u) :=
  ⟨rfl, good_init env u inp⟩

/-- the cache invariant is preserved by every evaluation step, from any cache satisfying it -/
theorem C05_cache_invariant (env : Env) (hp : PureHooks env.hooks) (hnl : NoLeftrec env.g) (inp : List UInt8)
    (u n : Nat) (name : String) (s : St) (g : Global) {r g'}
    (hw : WfSt inp s) (hg : Good env u inp g)
    (h : (eval env n).rule name s g = some (r, g')) : Good env u inp g' :=
  ((eval_ref (inp := inp) hp hnl n).rule name s g r g' h hw hg).2.1

/-- non-vacuity: a grammar where the same memoized rule is reached twice at one offset through two
    alternatives (`S = A 'x' | A 'y'`, `@memoize A = 'a'`); with and without the marker the model
    answers alike, and the second attempt is a cache hit -/
example :
    let a : Rule := ⟨[], "A", .choice [.seq [.lit false [.chr 'a']]]⟩
    let s : Rule := ⟨[.export], "S",
      .choice [.seq [.field none false "A", .lit false [.chr 'x']],
               .seq [.field none false "A", .lit false [.chr 'y']]]⟩
    let env : Env := { g := ⟨[.rule s, .rule a]⟩, settings := {}, hooks := default, nf := 10 }
    let run := fun (M : String → Bool) => match parseAdvanced (env.setMemo M) 20 "S" [97, 121] 0 with
      | some (.ok _ st, g) => (st.off, g.cache.length)
      | _ => (99, 99)
    (run (fun _ => false) = (2, 0) ∧ run (fun n => n == "A") = (2, 1)) = true := by decide

end Peg.Props
