import PegVerif.Proofs.SetMemo
import PegVerif.Proofs.RefineLR
import PegVerif.Proofs.NonVacuity
/-
  C05 – `@memoize` never changes what is accepted or the tree that is returned.

  `env.setMemo M` marks exactly the rules selected by `M` with `@memoize` (and removes every other
  `@memoize`).  `eval` is the model of the generated parser including the cache code of
  `generate_memoized_body`; the cache invariant `CacheOk` ("every cached entry is the reference
  answer of that rule at that offset") is the heart of the proof (`eval_ref`).
-/
namespace Peg.Props
open Peg Spec

/-- **Transparency.**  For any two sets `M`, `M'` of memoized rules, any exported rule, any input
    and any fuels at which both parsers answer: same acceptance, same tree, same consumed bytes.
    Only the payload of a reported error may differ (`abs` drops exactly that). -/
theorem C05_transparent (env : Env) (M M' : String → Bool) (hp : PureHooks env.hooks) (hnl : NoLeftrec env.g)
    (rule : String) (inp : List UInt8) (u n n' : Nat) {r r' g g'}
    (h : parseAdvanced (env.setMemo M) n rule inp u = some (r, g))
    (h' : parseAdvanced (env.setMemo M') n' rule inp u = some (r', g')) :
    abs r = abs r' :=
  memo_transparent env M M' hp hnl rule inp u n n' h h'

/-- every memo variant computes the reference (memo-free, cache-free) answer of the grammar -/
theorem C05_refines_spec (env : Env) (M : String → Bool) (hp : PureHooks env.hooks) (hnl : NoLeftrec env.g)
    (rule : String) (inp : List UInt8) (u n : Nat) {r g}
    (h : parseAdvanced (env.setMemo M) n rule inp u = some (r, g)) :
    ∃ m, Spec.parse env u m rule inp = some (abs r) :=
  memo_refines_spec env M hp hnl rule inp u n h

/-- the reference semantics does not look at `@memoize` at all -/
theorem C05_spec_ignores_memo (env : Env) (M : String → Bool) (u n : Nat) :
    Spec.eval (env.setMemo M) u n = Spec.eval env u n :=
  Spec.eval_setMemo env M u n

/-- **Fresh cache per call.**  `parse_advanced` starts from the empty cache, which satisfies the
    cache invariant vacuously – a result can never depend on inputs parsed earlier (C20 adds the
    history statement). -/
theorem C05_fresh (env : Env) (u : Nat) (inp : List UInt8) :
    (Global.init u).cache = [] ∧ Good env u inp (Global.init u) :=
  ⟨rfl, good_init env u inp⟩

/-- the cache invariant is preserved by every evaluation step, from any cache satisfying it -/
theorem C05_cache_invariant (env : Env) (hp : PureHooks env.hooks) (hnl : NoLeftrec env.g) (inp : List UInt8)
    (u n : Nat) (name : String) (s : St) (g : Global) {r g'}
    (hw : WfSt inp s) (hg : Good env u inp g)
    (h : (eval env n).rule name s g = some (r, g')) : Good env u inp g' :=
  ((eval_ref (inp := inp) hp hnl n).rule name s g r g' h hw hg).2.1

/-- non-vacuity: a grammar where the same memoized rule is reached twice at one offset through two
    alternatives (`S = A 'x' | A 'y'`, `@memoize A = 'a'`); with and without the marker the model
    answers alike, and the second attempt is a cache hit -/
example :
    let a : Rule := ⟨[], "A", .choice [.seq [.lit false [.chr 'a']]]⟩
    let s : Rule := ⟨[.export], "S",
      .choice [.seq [.field none false "A", .lit false [.chr 'x']],
               .seq [.field none false "A", .lit false [.chr 'y']]]⟩
    let env : Env := { g := ⟨[.rule s, .rule a]⟩, settings := {}, hooks := default, nf := 10 }
    let run := fun (M : String → Bool) => match parseAdvanced (env.setMemo M) 20 "S" [97, 121] 0 with
      | some (.ok _ st, g) => (st.off, g.cache.length)
      | _ => (99, 99)
    (run (fun _ => false) = (2, 0) ∧ run (fun n => n == "A") = (2, 1)) = true := by decide

/-- **Transparency in grammars that also have `@leftrec` rules** – the property's own scope: "rules that are
    not part of a left-recursive cycle".  `LROk` (decidable, SpecLR.lean) holds of a grammar whose left recursion
    goes through `@leftrec` rules only and whose cycles reach no `@memoize` rule (nor another `@leftrec` rule)
    before input is consumed; both memo variants must be in the class, i.e. the markers sit outside the cycles. -/
theorem C05_transparent_with_leftrec (env : Env) (M M' : String → Bool) (hp : PureHooks env.hooks)
    (hok : LROk (env.g.setMemo M) env.settings) (hok' : LROk (env.g.setMemo M') env.settings)
    {rule : String} {inp : List UInt8} {u n n' : Nat} {r r' g g'}
    (h : parseAdvanced (env.setMemo M) n rule inp u = some (r, g))
    (h' : parseAdvanced (env.setMemo M') n' rule inp u = some (r', g')) :
    abs r = abs r' :=
  memo_transparentLR env M M' hp hok hok' h h'

/-- non-vacuity: in the calculator tower, `@memoize` on `F` and/or `Num` (outside the cycles) stays in the class;
    a `@memoize` rule *inside* a cycle does not (and there the model really answers differently: RefineLR.lean,
    `LRExample.ind`) -/
example : LROk (LRExample.calcEnv.g.setMemo (fun n => n == "F" || n == "Num")) LRExample.calcEnv.settings ∧
    LROk (LRExample.calcEnv.g.setMemo (fun _ => false)) LRExample.calcEnv.settings ∧
    ¬ LROk (LRExample.ind [.memoize]).g (LRExample.ind [.memoize]).settings := by decide

/-! ## non-vacuity (BEGIN) -/
namespace C05_nv
open Peg.NV

/-! instance: `NV.envH []` = `@export S = a:Num '+' b:Num | a:Num '-' b:Num | w:Word; @string Num = {'0'..'9'}+; …`
    on `"1-2"`, memo sets `M = {Num}` and `M' = ∅` -/
def env : Env := envH []
def M : String → Bool := fun n => n == "Num"
def M' : String → Bool := fun _ => false

theorem hp : PureHooks env.hooks := pure_default
theorem hnl : NoLeftrec env.g := noLeftrec_of (by decide)

theorem runM : (parseAdvanced (env.setMemo M) 20 "S" inpH 0).isSome = true := by decide
theorem runM' : (parseAdvanced (env.setMemo M') 25 "S" inpH 0).isSome = true := by decide

/-- the marker really is set / removed, and the memoized run really has a cache hit and two cache entries while the
    unmemoized one has none; both return the same tree -/
example : (((env.setMemo M).g.findRule "Num").map (·.flags.memoize) = some true) ∧
    (((env.setMemo M').g.findRule "Num").map (·.flags.memoize) = some false) := by decide
example : (match parseAdvanced (env.setMemo M) 20 "S" inpH 0, parseAdvanced (env.setMemo M') 25 "S" inpH 0 with
    | some (.ok v s, g), some (.ok v' s', g') =>
        v.render == "S { a: Some(S\"31\"), b: Some(S\"32\"), w: None }" && v'.render == v.render && s.off == 3 && s'.off == 3
        && hits g.log == 1 && g.cache.length == 2 && hits g'.log == 0 && g'.cache.length == 0
    | _, _ => false) = true := by decide

/-- `C05_transparent` / `C05_refines_spec` instantiated (different fuels on purpose) -/
example : abs ((parseAdvanced (env.setMemo M) 20 "S" inpH 0).get runM).1 =
    abs ((parseAdvanced (env.setMemo M') 25 "S" inpH 0).get runM').1 :=
  C05_transparent env M M' hp hnl "S" inpH 0 20 25 (run_eq runM) (run_eq runM')
example : ∃ m, Spec.parse env 0 m "S" inpH = some (abs ((parseAdvanced (env.setMemo M) 20 "S" inpH 0).get runM).1) :=
  C05_refines_spec env M hp hnl "S" inpH 0 20 (run_eq runM)
example : Spec.eval (env.setMemo M) 0 20 = Spec.eval env 0 20 := C05_spec_ignores_memo env M 0 20

/-! `C05_cache_invariant` from a NON-empty cache: first `Num` is called at offset 0 from the fresh global (this gives a
    `Good` global whose cache holds `("Num", 0)`), then `S` is evaluated from that global – both `Num` calls at offset
    0 are now cache hits -/
def envM : Env := envH [.memoize]
theorem hnlM : NoLeftrec envM.g := noLeftrec_of (by decide)
theorem first_some : ((eval envM 20).rule "Num" (St.new inpH) (Global.init 0)).isSome = true := by decide
def g1 : Global := (((eval envM 20).rule "Num" (St.new inpH) (Global.init 0)).get first_some).2
theorem g1_good : Good envM 0 inpH g1 :=
  C05_cache_invariant envM pure_default hnlM inpH 0 20 "Num" (St.new inpH) (Global.init 0)
    (wf_of (by decide)) (C05_fresh envM 0 inpH).2 (run_eq first_some)
example : (g1.lookup ("Num", 0)).isSome = true ∧ g1.cache.length = 1 := by decide
theorem second_some : ((eval envM 20).rule "S" (St.new inpH) g1).isSome = true := by decide
example : Good envM 0 inpH (((eval envM 20).rule "S" (St.new inpH) g1).get second_some).2 :=
  C05_cache_invariant envM pure_default hnlM inpH 0 20 "S" (St.new inpH) g1 (wf_of (by decide)) g1_good (run_eq second_some)
example : (match (eval envM 20).rule "S" (St.new inpH) g1 with
    | some (.ok _ s, g) => s.off == 3 && hits g.log == 2 && bodyEvals g.log "Num" 0 == 1 && g.cache.length == 2
    | _ => false) = true := by decide

end C05_nv
/-! ## non-vacuity (END) -/

end Peg.Props
