import PegVerif.Proofs.LiftLR
/-
  C14 – user checks and externs – for grammars that contain `@leftrec` rules (companion of Props/C14.lean, built and
  audited by the same check).  `SpecLR` reuses the expression level of `Spec` unchanged and, for rules that are not
  `@leftrec`, its rule level too, so the C14 reading of checks and externs applies verbatim with `SpecLR.eval env u n σ`
  in the place of the reference evaluator; for a `@leftrec` rule the checks are part of the body that is re-evaluated in
  every growth iteration (a rejection ends the growth with the previous result).
-/
namespace Peg.Props.LR
open Peg

/-- the generated code (model) implements the check/extern predicates also in grammars of the class `LROk`:
    it refines the reference semantics with left recursion -/
theorem C14_generated_code_refines_leftrec (env : Env) (hp : PureHooks env.hooks) (hok : LROk env.g env.settings)
    (inp : List UInt8) (u n : Nat) (name : String) (s : St) (g : Global) {r g'}
    (hpre : PreLR env u inp (avoidN env) [] s g)
    (h : (eval env n).rule name s g = some (r, g')) :
    ∃ m, (SpecLR.eval env u m []).rule name (Spec.clr s) = some (Spec.abs r) :=
  C14_generated_code_refinesLR env hp hok inp u n name s g hpre h

/-- a rule that is not `@leftrec` means in `SpecLR` what it means in `Spec` -/
theorem C14_not_leftrec_same_meaning {env : Env} {u : Nat} {rec : SpecLR.SRecLR} {n : Nat} {σ : SpecLR.Seeds} {name : String}
    (h : SpecLR.lrRule env name = none) :
    SpecLR.stepRule env u rec n σ name = Spec.stepRule env u (rec σ) name :=
  SpecLR.stepRule_of_not_leftrec rec n σ h

end Peg.Props.LR
