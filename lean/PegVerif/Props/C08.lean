import PegVerif.Proofs.Whitespace
/-
  C08 – whitespace is skipped before every token of skipping rules and nowhere else.
-/
namespace Peg.Props
open Peg Peg.WS

/-- **Nowhere else.** Constructs that are not tokens (choice, sequence, group, optional, closure,
    lookaheads, include) never call `Whitespace` and never read the flag: they only pass the
    context down. -/
theorem C08_only_tokens {env : Env} {rec rec' : Spec.SRec} {n : Nat} {ctx ctx' : Ctx} {e : Expr}
    (he : isToken e = false) (hrf : ctx'.ruleFields = ctx.ruleFields)
    (hexpr : ∀ b s, rec'.expr ctx' b s = rec.expr ctx b s) (s : St) :
    Spec.stepExpr env rec' n ctx' e s = Spec.stepExpr env rec n ctx e s :=
  WS.C08_only_tokens he hrf hexpr s

/-- **Before every token.** Skipping is exactly "an explicit call of `Whitespace` in front of every
    literal, range, `$` and rule/field reference": evaluating `e` with skipping equals evaluating the
    desugared expression without skipping (include-free, compilable `e`). -/
theorem C08_desugar_expr (env : Env) (u : Nat) (e : Expr) (ctx : Ctx) (s : St) (r : Res Parsed)
    (hg : GoodE env.nf e) (hu : UniqueNames ctx.ruleFields) :
    (∃ n, (Spec.eval env u n).expr { ctx with skipWs := true } e s = some r) ↔
    (∃ m, (Spec.eval env u m).expr { ctx with skipWs := false } (desugarE e) s = some r) :=
  WS.C08_desugar_expr env u e ctx s r hg hu

/-- the same for whole grammars: every skipping rule desugared and marked `@no_skip_ws` -/
theorem C08_desugar_grammar (env : Env) (u : Nat) (rule : String) (inp : List UInt8) (r : Res Val)
    (hskip : env.settings.skipWhitespace = true) (hG : GoodG env.nf env.g) :
    (∃ n, Spec.parse env u n rule inp = some r) ↔ (∃ m, Spec.parse (desugarEnv env) u m rule inp = some r) :=
  WS.C08_desugar_grammar env u rule inp r hskip hG

/-- the builtin skipper never fails and skips exactly the maximal prefix of SPACE, TAB, LF, FF, CR -/
theorem C08_builtin (s : St) :
    parseWhitespace s = .ok () { s with rest := s.rest.dropWhile isAsciiWhitespace,
                                        off := s.off + (s.rest.takeWhile isAsciiWhitespace).length } :=
  WS.C08_builtin s

/-- a disabled flag means no skipping at all: `withSkipWs` with `skipWs = false` is the identity -/
theorem C08_no_flag_no_skip {α} (rec : Spec.SRec) (ctx : Ctx) (s : St) (k : St → Spec.SOut α) :
    Spec.withSkipWs rec { ctx with skipWs := false } s k = k s :=
  WS.C08_withSkipWs_false rec ctx s k

/-- an included body uses the setting of the including rule -/
theorem C08_include_inherits (env : Env) (rec : Spec.SRec) (n : Nat) (ctx : Ctx) (name : String) (r : Rule) (s : St)
    (h : env.g.findRule name = some r) :
    Spec.stepExpr env rec n ctx (.incl name) s = rec.expr ctx r.definition s :=
  WS.C08_include_inherits env rec n ctx name r s h

/-- a grammar-defined `Whitespace` rule replaces the builtin -/
theorem C08_custom_whitespace {env : Env} {u : Nat} {rec : Spec.SRec} {r : Rule} (s : St)
    (h : env.g.find "Whitespace" = some (.rule r)) :
    Spec.stepRule env u rec "Whitespace" s = Spec.ruleBody env u rec r s :=
  WS.C08_custom_rule s h

end Peg.Props
