import PegVerif.Proofs.Whitespace
import PegVerif.Proofs.NonVacuity
/-
  C08 – whitespace is skipped before every token of skipping rules and nowhere else.
-/
namespace Peg.Props
open Peg Peg.WS

/-- **Nowhere else.** Constructs that are not tokens (choice, sequence, group, optional, closure,
    lookaheads, include) never call `Whitespace` and never read the flag: they only pass the
    context down. -/
theorem C08_only_tokens {env : Env} {rec rec' : Spec.SRec} {n : Nat} {ctx ctx' : Ctx} {e : Expr}
    (he : isToken e = false) (hrf : ctx'.ruleFields = ctx.ruleFields)
    (hexpr : ∀ b s, rec'.expr ctx' b s = rec.expr ctx b s) (s : St) :
    Spec.stepExpr env rec' n ctx' e s = Spec.stepExpr env rec n ctx e s :=
  WS.C08_only_tokens he hrf hexpr s

/-- **Before every token.** Skipping is exactly "an explicit call of `Whitespace` in front of every
    literal, range, `$` and rule/field reference": evaluating `e` with skipping equals evaluating the
    desugared expression without skipping (include-free, compilable `e`). -/
theorem C08_desugar_expr (env : Env) (u : Nat) (e : Expr) (ctx : Ctx) (s : St) (r : Res Parsed)
    (hg : GoodE env.nf e) (hu : UniqueNames ctx.ruleFields) :
    (∃ n, (Spec.eval env u n).expr { ctx with skipWs := true } e s = some r) ↔
    (∃ m, (Spec.eval env u m).expr { ctx with skipWs := false } (desugarE e) s = some r) :=
  WS.C08_desugar_expr env u e ctx s r hg hu

/-- the same for whole grammars: every skipping rule desugared and marked `@no_skip_ws` -/
theorem C08_desugar_grammar (env : Env) (u : Nat) (rule : String) (inp : List UInt8) (r : Res Val)
    (hskip : env.settings.skipWhitespace = true) (hG : GoodG env.nf env.g) :
    (∃ n, Spec.parse env u n rule inp = some r) ↔ (∃ m, Spec.parse (desugarEnv env) u m rule inp = some r) :=
  WS.C08_desugar_grammar env u rule inp r hskip hG

/-- the builtin skipper never fails and skips exactly the maximal prefix of SPACE, TAB, LF, FF, CR -/
theorem C08_builtin (s : St) :
    parseWhitespace s = .ok () { s with rest := s.rest.dropWhile isAsciiWhitespace,
                                        off := s.off + (s.rest.takeWhile isAsciiWhitespace).length } :=
  WS.C08_builtin s

/-- a disabled flag means no skipping at all: `withSkipWs` with `skipWs = false` is the identity -/
theorem C08_no_flag_no_skip {α} (rec : Spec.SRec) (ctx : Ctx) (s : St) (k : St → Spec.SOut α) :
    Spec.withSkipWs rec { ctx with skipWs := false } s k = k s :=
  WS.C08_withSkipWs_false rec ctx s k

/-- an included body uses the setting of the including rule -/
theorem C08_include_inherits (env : Env) (rec : Spec.SRec) (n : Nat) (ctx : Ctx) (name : String) (r : Rule) (s : St)
    (h : env.g.findRule name = some r) :
    Spec.stepExpr env rec n ctx (.incl name) s = rec.expr ctx r.definition s :=
  WS.C08_include_inherits env rec n ctx name r s h

/-- a grammar-defined `Whitespace` rule replaces the builtin -/
theorem C08_custom_whitespace {env : Env} {u : Nat} {rec : Spec.SRec} {r : Rule} (s : St)
    (h : env.g.find "Whitespace" = some (.rule r)) :
    Spec.stepRule env u rec "Whitespace" s = Spec.ruleBody env u rec r s :=
  WS.C08_custom_rule s h

/-! ## non-vacuity (BEGIN) -/
namespace C08_nv
open Peg.NV

/-! instance: `NV.env0` = `@export S = first:Num {'+' rest:Num} | word:Word; …` (skipping on) on `"1 + 23"`:
    whitespace between the tokens -/

/-- Bool form of `GoodG` -/
theorem goodG_of {nf : Nat} {g : Grammar}
    (h : g.rules.all (fun e => match e with
      | .rule r => noIncl r.definition && compilable r.definition && decide (depthE r.definition < nf)
      | _ => true) = true) : GoodG nf g := by
  intro r hr
  have := (List.all_eq_true.mp h) _ hr
  simpa [GoodE, and_assoc] using this

theorem hG : GoodG env0.nf env0.g := goodG_of (by decide)
theorem spec_some : (Spec.parse env0 0 20 "S" inp1).isSome = true := by decide

/-- `C08_desugar_grammar`: the skipping grammar and its desugared `@no_skip_ws` form answer alike … -/
example : ∃ m, Spec.parse (desugarEnv env0) 0 m "S" inp1 = some ((Spec.parse env0 0 20 "S" inp1).get spec_some) :=
  (C08_desugar_grammar env0 0 "S" inp1 _ rfl hG).mp ⟨20, (Option.some_get spec_some).symm⟩
/-- … and here are the two runs: the same tree, 6 bytes, two blanks skipped; the desugared rules are `@no_skip_ws` and
    call `Whitespace` explicitly -/
example : (match Spec.parse env0 0 20 "S" inp1, Spec.parse (desugarEnv env0) 0 25 "S" inp1 with
    | some (.ok v s), some (.ok v' s') =>
        v.render == "S { first: Some(S\"31\"), rest: [S\"3233\"], word: None }" && v'.render == v.render && s.off == 6 && s'.off == 6
    | _, _ => false) = true := by decide
example : ((desugarEnv env0).g.findRule "S").map (fun r => (r.flags.noSkipWs, depthE r.definition == depthE (ruleS []).definition + 1)) =
    some (true, true) := by decide
/-- with skipping switched off the same input stops after `1` (the blank is not skipped: "nowhere else" needs the flag) -/
example : (match Spec.parse { env0 with settings := { skipWhitespace := false } } 0 20 "S" inp1 with
    | some (.ok _ s) => s.off == 1 | _ => false) = true := by decide

/-- `C08_desugar_expr` at the definition of `S` -/
def ctxS : Ctx := ⟨true, ownFields env0 (ruleS []).definition⟩
theorem hgE : GoodE env0.nf (ruleS []).definition := ⟨by decide, by decide, by decide⟩
theorem hu : UniqueNames ctxS.ruleFields := by unfold UniqueNames; decide
theorem def_some : ((Spec.eval env0 0 20).expr { ctxS with skipWs := true } (ruleS []).definition (St.new inp1)).isSome = true := by
  decide
example : ∃ m, (Spec.eval env0 0 m).expr { ctxS with skipWs := false } (desugarE (ruleS []).definition) (St.new inp1) =
    some (((Spec.eval env0 0 20).expr { ctxS with skipWs := true } (ruleS []).definition (St.new inp1)).get def_some) :=
  (C08_desugar_expr env0 0 (ruleS []).definition ctxS (St.new inp1) _ hgE hu).mp ⟨20, (Option.some_get def_some).symm⟩

/-- `C08_only_tokens` with two DIFFERENT contexts: the closure `{'+' rest:Num}` evaluated with the flag off over a
    recursion that forces the flag on equals the evaluation with the flag on – the closure itself never reads it -/
def R : Spec.SRec := Spec.eval env0 0 19
def R' : Spec.SRec := ⟨fun c b s => R.expr { c with skipWs := true } b s, R.rule⟩
def cl : Expr := .closure (.choice [.seq [lit '+', .field (some (.ident "rest")) false "Num"]]) false
def mid : St := ⟨inp1.drop 1, 1, none⟩
example : Spec.stepExpr env0 R' 19 ⟨false, ctxS.ruleFields⟩ cl mid = Spec.stepExpr env0 R 19 ctxS cl mid :=
  C08_only_tokens (rec := R) (rec' := R') (ctx := ctxS) (ctx' := ⟨false, ctxS.ruleFields⟩) rfl rfl (fun _ _ => rfl) mid
example : (match Spec.stepExpr env0 R 19 ctxS cl mid with | some (.ok _ s) => s.off == 6 | _ => false) = true := by decide
/-- a token does read it: `'+'` at offset 1 (in front of `" + 23"`) matches with the flag and fails without -/
example : (match Spec.stepExpr env0 R 19 ctxS (lit '+') mid, Spec.stepExpr env0 R 19 ⟨false, ctxS.ruleFields⟩ (lit '+') mid with
    | some (.ok _ s), some (.err _) => s.off == 3 | _, _ => false) = true := by decide

/-- `C08_builtin` on blank, TAB, LF, `+` -/
example : parseWhitespace ⟨[32, 9, 10, 43], 1, none⟩ = .ok () ⟨[43], 4, none⟩ := by
  rw [C08_builtin]; rfl
example : Spec.withSkipWs R { ctxS with skipWs := false } mid (fun s => some (.ok s.off s)) = some (.ok 1 mid) :=
  C08_no_flag_no_skip R ctxS mid _
/-- `C08_include_inherits`: `>Num` inside a skipping context -/
example : Spec.stepExpr env0 R 19 ctxS (.incl "Num") mid = R.expr ctxS (ruleNum []).definition mid :=
  C08_include_inherits env0 R 19 ctxS "Num" (ruleNum []) mid rfl

/-- `C08_custom_whitespace`: `@no_skip_ws Whitespace = {'_'};` replaces the builtin – `"1_+_23"` parses, `"1 + 23"`
    stops after `1` -/
def ruleW : Rule := ⟨[.noSkipWs], "Whitespace", .choice [.seq [.closure (.choice [.seq [lit '_']]) false]]⟩
def envW : Env := { env0 with g := ⟨env0.g.rules ++ [.rule ruleW]⟩ }
example (s : St) : Spec.stepRule envW 0 (Spec.eval envW 0 19) "Whitespace" s = Spec.ruleBody envW 0 (Spec.eval envW 0 19) ruleW s :=
  C08_custom_whitespace s rfl
example : (match Spec.parse envW 0 25 "S" [49, 95, 43, 95, 50, 51], Spec.parse envW 0 25 "S" inp1 with
    | some (.ok _ s), some (.ok _ s') => s.off == 6 && s'.off == 1 | _, _ => false) = true := by decide

end C08_nv
/-! ## non-vacuity (END) -/

end Peg.Props
