import PegVerif.Proofs.LiftLR
/-
  C08 – whitespace skipping – for the reference semantics with left recursion (companion of Props/C08.lean).
  The desugaring theorem ("skipping = an explicit `Whitespace` call in front of every token") holds for `SpecLR`
  with the same hypotheses as for `Spec`; `LROk` is not needed (it is a statement about the semantics alone), and
  the same seed environment is used on both sides (desugaring keeps rule names and `@leftrec` flags).
-/
namespace Peg.Props.LR
open Peg Peg.WS

theorem C08_desugar_grammar_leftrec (env : Env) (u : Nat) (rule : String) (inp : List UInt8) (r : Res Val)
    (hskip : env.settings.skipWhitespace = true) (hG : GoodG env.nf env.g) :
    (∃ n, SpecLR.parse env u n rule inp = some r) ↔ (∃ m, SpecLR.parse (desugarEnv env) u m rule inp = some r) :=
  C08_desugar_grammarLR env u rule inp r hskip hG

theorem C08_desugar_expr_leftrec (env : Env) (u : Nat) (σ : SpecLR.Seeds) (e : Expr) (ctx : Ctx) (s : St) (r : Res Parsed)
    (hg : GoodE env.nf e) (hu : UniqueNames ctx.ruleFields) :
    (∃ n, (SpecLR.eval env u n σ).expr { ctx with skipWs := true } e s = some r) ↔
    (∃ m, (SpecLR.eval env u m σ).expr { ctx with skipWs := false } (desugarE e) s = some r) :=
  C08_desugar_exprLR env u σ e ctx s r hg hu

end Peg.Props.LR
