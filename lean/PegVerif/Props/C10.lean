import PegVerif.Proofs.Attempts
import PegVerif.Proofs.BoundaryEval
import PegVerif.Proofs.Sentinel
import PegVerif.Proofs.NonVacuity
/-
  C10 – a failed parse reports a real failure offset – the furthest one without memo.

  `Att.eval` is the reference semantics instrumented with the chronological list of *counted* failed
  attempts (terminals, checks, externs, lookaheads as a whole; attempts inside a lookahead only when
  the lookahead as a whole made the parse fail there; forgetting the list gives `Spec.eval` exactly:
  `parse_fst`).  For grammars without `@memoize`/`@leftrec` the error the generated parser reports
  is the last attempt at the furthest offset of that list.  With memoization the statement is only
  "a boundary offset inside the input" (C04) – the stronger claims are shown false by two concrete
  grammars in Proofs/Attempts.lean (a cache hit replays the stored state with its old furthest
  error), which is what the property itself allows.
-/
namespace Peg.Props
open Peg

/-- the reported error is an attempt that really failed during that parse -/
theorem C10_is_attempt (env : Env) (hp : PureHooks env.hooks) (hnm : NoMemoG env.g) (n : Nat) (rule : String)
    (inp : List UInt8) (u : Nat) {e : PErr} {g' : Global} (h : parseAdvanced env n rule inp u = some (.err e, g')) :
    ∃ atts, Att.parse env u n rule inp = some (.err Spec.noErr, atts) ∧ e ∈ atts :=
  Peg.C10_is_attempt env hp hnm n rule inp u h

/-- it is the furthest one … -/
theorem C10_furthest (env : Env) (hp : PureHooks env.hooks) (hnm : NoMemoG env.g) (n : Nat) (rule : String)
    (inp : List UInt8) (u : Nat) {e : PErr} {g' : Global} (h : parseAdvanced env n rule inp u = some (.err e, g')) :
    ∃ atts, Att.parse env u n rule inp = some (.err Spec.noErr, atts) ∧ e ∈ atts ∧ ∀ a ∈ atts, a.pos ≤ e.pos :=
  Peg.C10_furthest env hp hnm n rule inp u h

/-- … and, among the attempts at that offset, the last one -/
theorem C10_last_at_position (env : Env) (hp : PureHooks env.hooks) (hnm : NoMemoG env.g) (n : Nat) (rule : String)
    (inp : List UInt8) (u : Nat) {e : PErr} {g' : Global} (h : parseAdvanced env n rule inp u = some (.err e, g')) :
    ∃ atts pre post, Att.parse env u n rule inp = some (.err Spec.noErr, atts) ∧ atts = pre ++ e :: post ∧
      (∀ a ∈ pre, a.pos ≤ e.pos) ∧ (∀ a ∈ post, a.pos < e.pos) :=
  Peg.C10_last_at_position env hp hnm n rule inp u h

/-- never the internal sentinel (nor the catch-all `Other`) – proved here for grammars without
    `@leftrec`; for `@leftrec` rules the correspondence run checks it on the leftrec family -/
theorem C10_no_sentinel_partial (env : Env) (hp : PureHooks env.hooks) (hnm : NoMemoG env.g) (n : Nat) (rule : String)
    (inp : List UInt8) (u : Nat) {e : PErr} {g' : Global} (h : parseAdvanced env n rule inp u = some (.err e, g')) :
    e.spec ≠ .leftRecursionSentinel ∧ e.spec ≠ .other :=
  Peg.C10_no_sentinel_partial env hp hnm n rule inp u h

/-- the instrumented semantics is the reference semantics with an extra output -/
theorem C10_attempt_semantics_is_spec (env : Env) (u n : Nat) (rule : String) (inp : List UInt8) :
    (Att.parse env u n rule inp).map (·.1) = Spec.parse env u n rule inp :=
  parse_fst env u n rule inp

/-- with or without memoization and left recursion: the reported position is a character boundary
    inside the input -/
theorem C10_boundary (env : Env) (cs : List Char) (hx : GoodExterns env.hooks) (rule : String) (n u : Nat)
    {e : PErr} {g : Global} (h : parseAdvanced env n rule (enc cs) u = some (.err e, g)) :
    IsBoundary cs e.pos ∧ e.pos ≤ (enc cs).length :=
  (C04_offsets_on_boundaries env cs hx rule n u h).2 e rfl

/-- **never the sentinel when left-recursive rules list their recursive alternatives first** – with `@leftrec`
    and `@memoize` rules present.  `RecFirst g settings lvl fuel` is a decidable syntactic check: in every
    `@leftrec` rule the positions that can make the body fail before input is consumed (last alternative of a
    choice, sequence parts, …) reach no `@leftrec`/`@memoize` rule of the same or a lower precedence level `lvl`;
    for `lvl = fun _ => 0` it says "the last alternative is a real base alternative" (`RecFirst.of_shape`); levels
    admit precedence towers `E = E '+' T | T; T = T '*' F | F`.  No purity hypothesis. -/
theorem C10_no_sentinel (env : Env) (lvl : String → Nat) (fuel : Nat)
    (hrf : RecFirst env.g env.settings lvl fuel = true)
    (n : Nat) (rule : String) (inp : List UInt8) (u : Nat) {e : PErr} {g' : Global}
    (h : parseAdvanced env n rule inp u = some (.err e, g')) : e.spec ≠ .leftRecursionSentinel :=
  Peg.C10_no_sentinel env lvl fuel hrf n rule inp u h

/-- the shape named by the property satisfies the check -/
theorem C10_recursive_first_shape (g : Grammar) (st : Settings) (lvl : String → Nat) (d m : Nat) (w : Bool)
    (recs bases : List Expr) (hne : bases ≠ [])
    (hrecs : ∀ a ∈ recs, SN.chk g st lvl d m w false a = true)
    (hbases : ∀ a ∈ bases, SN.chk g st lvl d m w true a = true) :
    SN.chk g st lvl (d + 1) m w true (.choice (recs ++ bases)) = true :=
  RecFirst.of_shape g st lvl d m w recs bases hne hrecs hbases

/-- non-vacuity: the calculator-style tower passes the check (with levels) and a failing input reports a real error -/
example : RecFirst SentinelExample.envT.g SentinelExample.envT.settings SentinelExample.lvlT 10 = true := by decide

/-- the side condition is needed: base alternative first ⇒ the sentinel is reported (`A = 'b' | A 'x'` on "c") -/
example : reportedErr SentinelExample.envBaseFirst 30 "A" [99] = some ⟨0, .leftRecursionSentinel⟩ := by decide

/-- **finding K5**: a `@memoize` rule that takes part in the left recursion leaks the sentinel although the
    `@leftrec` rule lists its recursive alternative first and has a base alternative:
    `@export S = A 'w' | M; @leftrec A = M 'x' | 'b'; @memoize M = A 'y';` on "z" (model level here; the replay on
    the real generated parser is a known finding of the C10 check) -/
theorem C10_memoized_rule_in_cycle_leaks_sentinel :
    reportedErr SentinelExample.envMemo 30 "S" [122] = some ⟨0, .leftRecursionSentinel⟩ :=
  SentinelExample.envMemo_reported

/-! ## non-vacuity (BEGIN) -/
namespace C10_nv
open Peg.NV

theorem noMemoG_of {g : Grammar} (h : noMemoB g = true) : NoMemoG g := by
  intro r hr
  have := (List.all_eq_true.mp h) _ hr
  simpa [noMemoB] using this

/-! instance: `@export S = first:Num {'+' rest:Num} $ | word:Word $; @string Num = {'0'..'9'}+; @string Word = {'a'..'z'}+;`
    on `"1+2?"`: failed attempts at three different offsets – `Word` at 0, a further digit at 1, and at the furthest
    offset 3 a digit, `'+'` and finally `$` -/
def ruleS10 : Rule :=
  ⟨[.export], "S",
    .choice [.seq [.field (some (.ident "first")) false "Num",
                   .closure (.choice [.seq [lit '+', .field (some (.ident "rest")) false "Num"]]) false, .eoi],
             .seq [.field (some (.ident "word")) false "Word", .eoi]]⟩
def env10 : Env := { g := ⟨[.rule ruleS10, .rule (ruleNum []), .rule ruleWord]⟩, settings := {}, hooks := default, nf := 10 }
def txt : List Char := ['1', '+', '2', '?']
def inp : List UInt8 := enc txt

theorem hp : PureHooks env10.hooks := pure_default
theorem hnm : NoMemoG env10.g := noMemoG_of (by decide)
theorem hx : GoodExterns env10.hooks := fun _ _ _ _ _ _ h => by cases h

/-- the attempts, chronologically, and the reported error: the LAST attempt at the FURTHEST offset -/
example : (Att.parse env10 0 20 "S" inp).map (·.2) =
      some [⟨1, .expectedCharacterRange '0' '9'⟩, ⟨3, .expectedCharacterRange '0' '9'⟩, ⟨3, .expectedCharacter '+'⟩,
            ⟨3, .expectedEoi⟩, ⟨0, .expectedCharacterRange 'a' 'z'⟩] ∧
    reported (parseAdvanced env10 20 "S" inp 0) = some ⟨3, .expectedEoi⟩ := by decide

/-- the premise `parseAdvanced … = some (.err e, g')`, then the four theorems, `C10_boundary` and the projection -/
example : ∃ e g', parseAdvanced env10 20 "S" inp 0 = some (.err e, g') ∧ e = ⟨3, .expectedEoi⟩ ∧
    (∃ atts, Att.parse env10 0 20 "S" inp = some (.err Spec.noErr, atts) ∧ e ∈ atts ∧ ∀ a ∈ atts, a.pos ≤ e.pos) ∧
    (∃ atts pre post, Att.parse env10 0 20 "S" inp = some (.err Spec.noErr, atts) ∧ atts = pre ++ e :: post ∧
      (∀ a ∈ pre, a.pos ≤ e.pos) ∧ (∀ a ∈ post, a.pos < e.pos)) ∧
    (e.spec ≠ .leftRecursionSentinel ∧ e.spec ≠ .other) ∧
    (IsBoundary txt e.pos ∧ e.pos ≤ (enc txt).length) := by
  obtain ⟨e, g', h, he⟩ := err_of (o := parseAdvanced env10 20 "S" inp 0) (fun e _ => e == ⟨3, .expectedEoi⟩) (by decide)
  exact ⟨e, g', h, by simpa using he, C10_furthest env10 hp hnm 20 "S" inp 0 h, C10_last_at_position env10 hp hnm 20 "S" inp 0 h,
    C10_no_sentinel_partial env10 hp hnm 20 "S" inp 0 h, C10_boundary env10 txt hx "S" 20 0 h⟩
example : ∃ e g', parseAdvanced env10 20 "S" inp 0 = some (.err e, g') ∧
    ∃ atts, Att.parse env10 0 20 "S" inp = some (.err Spec.noErr, atts) ∧ e ∈ atts := by
  obtain ⟨e, g', h, -⟩ := err_of (o := parseAdvanced env10 20 "S" inp 0) (fun _ _ => true) (by decide)
  exact ⟨e, g', h, C10_is_attempt env10 hp hnm 20 "S" inp 0 h⟩
example : (Att.parse env10 0 20 "S" inp).map (·.1) = Spec.parse env10 0 20 "S" inp :=
  C10_attempt_semantics_is_spec env10 0 20 "S" inp

/-! `C10_no_sentinel` on the precedence tower `SentinelExample.envT`
    (`@export @leftrec E = E '+' T | T; @leftrec T = T '*' F | F; F = Num | '(' E ')';`), failing input `"(1"` -/
open SentinelExample in
example : ∃ e g', parseAdvanced envT 60 "E" [40, 49] 0 = some (.err e, g') ∧ e = ⟨2, .expectedCharacter ')'⟩ ∧
    e.spec ≠ .leftRecursionSentinel := by
  obtain ⟨e, g', h, he⟩ := err_of (o := parseAdvanced envT 60 "E" [40, 49] 0) (fun e _ => e == ⟨2, .expectedCharacter ')'⟩)
    (by decide)
  exact ⟨e, g', h, by simpa using he, C10_no_sentinel envT lvlT 10 (by decide) 60 "E" [40, 49] 0 h⟩

/-! `C10_recursive_first_shape` at the rule `E` of `LeftRecExample.envE` (`recs` = the recursive alternative, `bases` =
    `b:Num`): its hypotheses hold and the concluded check evaluates to `true` -/
open LeftRecExample in
example : SN.chk envE.g envE.settings (fun _ => 0) (8 + 1) 0 true true ruleE.definition = true := by
  have := C10_recursive_first_shape envE.g envE.settings (fun _ => 0) 8 0 true
    [.seq [.field (some (.ident "l")) true "E", .lit false [.chr '+'], .field (some (.ident "r")) false "Num"]]
    [.seq [.field (some (.ident "b")) false "Num"]] (by decide)
    (fun a ha => by simp only [List.mem_singleton] at ha; subst ha; decide)
    (fun a ha => by simp only [List.mem_singleton] at ha; subst ha; decide)
  exact this

end C10_nv
/-! ## non-vacuity (END) -/

end Peg.Props
