import PegVerif.Proofs.Attempts
import PegVerif.Proofs.BoundaryEval
/-
  C10 – a failed parse reports a real failure offset – the furthest one without memo.

  `Att.eval` is the reference semantics instrumented with the chronological list of *counted* failed
  attempts (terminals, checks, externs, lookaheads as a whole; attempts inside a lookahead only when
  the lookahead as a whole made the parse fail there; forgetting the list gives `Spec.eval` exactly:
  `parse_fst`).  For grammars without `@memoize`/`@leftrec` the error the generated parser reports
  is the last attempt at the furthest offset of that list.  With memoization the statement is only
  "a boundary offset inside the input" (C04) – the stronger claims are shown false by two concrete
  grammars in Proofs/Attempts.lean (a cache hit replays the stored state with its old furthest
  error), which is what the property itself allows.
-/
namespace Peg.Props
open Peg

/-- the reported error is an attempt that really failed during that parse -/
theorem C10_is_attempt (env : Env) (hp : PureHooks env.hooks) (hnm : NoMemoG env.g) (n : Nat) (rule : String)
    (inp : List UInt8) (u : Nat) {e : PErr} {g' : Global} (h : parseAdvanced env n rule inp u = some (.err e, g')) :
    ∃ atts, Att.parse env u n rule inp = some (.err Spec.noErr, atts) ∧ e ∈ atts :=
  Peg.C10_is_attempt env hp hnm n rule inp u h

/-- it is the furthest one … -/
theorem C10_furthest (env : Env) (hp : PureHooks env.hooks) (hnm : NoMemoG env.g) (n : Nat) (rule : String)
    (inp : List UInt8) (u : Nat) {e : PErr} {g' : Global} (h : parseAdvanced env n rule inp u = some (.err e, g')) :
    ∃ atts, Att.parse env u n rule inp = some (.err Spec.noErr, atts) ∧ e ∈ atts ∧ ∀ a ∈ atts, a.pos ≤ e.pos :=
  Peg.C10_furthest env hp hnm n rule inp u h

/-- … and, among the attempts at that offset, the last one -/
theorem C10_last_at_position (env : Env) (hp : PureHooks env.hooks) (hnm : NoMemoG env.g) (n : Nat) (rule : String)
    (inp : List UInt8) (u : Nat) {e : PErr} {g' : Global} (h : parseAdvanced env n rule inp u = some (.err e, g')) :
    ∃ atts pre post, Att.parse env u n rule inp = some (.err Spec.noErr, atts) ∧ atts = pre ++ e :: post ∧
      (∀ a ∈ pre, a.pos ≤ e.pos) ∧ (∀ a ∈ post, a.pos < e.pos) :=
  Peg.C10_last_at_position env hp hnm n rule inp u h

/-- never the internal sentinel (nor the catch-all `Other`) – proved here for grammars without
    `@leftrec`; for `@leftrec` rules the correspondence run checks it on the leftrec family -/
theorem C10_no_sentinel_partial (env : Env) (hp : PureHooks env.hooks) (hnm : NoMemoG env.g) (n : Nat) (rule : String)
    (inp : List UInt8) (u : Nat) {e : PErr} {g' : Global} (h : parseAdvanced env n rule inp u = some (.err e, g')) :
    e.spec ≠ .leftRecursionSentinel ∧ e.spec ≠ .other :=
  Peg.C10_no_sentinel_partial env hp hnm n rule inp u h

/-- the instrumented semantics is the reference semantics with an extra output -/
theorem C10_attempt_semantics_is_spec (env : Env) (u n : Nat) (rule : String) (inp : List UInt8) :
    (Att.parse env u n rule inp).map (·.1) = Spec.parse env u n rule inp :=
  parse_fst env u n rule inp

/-- with or without memoization and left recursion: the reported position is a character boundary
    inside the input -/
theorem C10_boundary (env : Env) (cs : List Char) (hx : GoodExterns env.hooks) (rule : String) (n u : Nat)
    {e : PErr} {g : Global} (h : parseAdvanced env n rule (enc cs) u = some (.err e, g)) :
    IsBoundary cs e.pos ∧ e.pos ≤ (enc cs).length :=
  (C04_offsets_on_boundaries env cs hx rule n u h).2 e rfl

end Peg.Props
