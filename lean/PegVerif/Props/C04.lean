import PegVerif.Proofs.BoundaryEval
import PegVerif.Proofs.NonVacuity
/-
  C04 – no panic and no split UTF-8 sequence on any input string.

  The real runtime advances its cursor with an unchecked slice (`ParseState::advance`, unsafe).
  Theorems here: every matcher of `runtime/src/builtin_parsers.rs` (model: Runtime.lean, tied by the
  exhaustive `unitdiff` matcher table and by the cfg-guarded assertion in `advance`), started on a
  character boundary of valid UTF-8, lands on a character boundary inside the input and never hits
  the overrun panic; the case-insensitive matchers need the ASCII guard the generator enforces, and
  without it the property fails (concrete witness).
-/
namespace Peg.Props
open Peg

theorem C04_parseChar {cs s v s'} (hb : BSt cs s) (h : parseChar s = .ok v s') : BSt cs s' := bst_parseChar hb h
theorem C04_parseWhitespace {cs s v s'} (hb : BSt cs s) (h : parseWhitespace s = .ok v s') : BSt cs s' := bst_parseWhitespace hb h
theorem C04_parseStringLiteral {cs s l v s'} (hb : BSt cs s) (h : parseStringLiteral s l = .ok v s') : BSt cs s' :=
  bst_parseStringLiteral hb h
theorem C04_parseCharacterLiteral {cs s c v s'} (hb : BSt cs s) (h : parseCharacterLiteral s c = .ok v s') : BSt cs s' :=
  bst_parseCharacterLiteral hb h
theorem C04_parseCharacterRange {cs s lo hi v s'} (hb : BSt cs s) (h : parseCharacterRange s lo hi = .ok v s') : BSt cs s' :=
  bst_parseCharacterRange hb h
theorem C04_parseStringLiteralInsensitive {cs s l v s'} (hl : l.all isAscii = true) (hb : BSt cs s)
    (h : parseStringLiteralInsensitive s l = .ok v s') : BSt cs s' := bst_parseStringLiteralInsensitive hl hb h
theorem C04_parseCharacterLiteralInsensitive {cs s c v s'} (hc : isAscii c = true) (hb : BSt cs s)
    (h : parseCharacterLiteralInsensitive s c = .ok v s') : BSt cs s' := bst_parseCharacterLiteralInsensitive hc hb h
theorem C04_parseEndOfInput {cs s v s'} (hb : BSt cs s) (h : parseEndOfInput s = .ok v s') : BSt cs s' := bst_parseEndOfInput hb h

/-- `advance` never overruns: no matcher panics on a boundary state of valid UTF-8 -/
theorem C04_matchers_never_panic {cs s} (hb : BSt cs s) :
    (∀ m, parseChar s ≠ .panic m) ∧ (∀ m, parseWhitespace s ≠ .panic m) ∧
    (∀ l m, parseStringLiteral s l ≠ .panic m) ∧ (∀ c m, parseCharacterLiteral s c ≠ .panic m) ∧
    (∀ lo hi m, parseCharacterRange s lo hi ≠ .panic m) ∧
    (∀ l, l.all isAscii = true → ∀ m, parseStringLiteralInsensitive s l ≠ .panic m) ∧
    (∀ c m, parseCharacterLiteralInsensitive s c ≠ .panic m) ∧ (∀ m, parseEndOfInput s ≠ .panic m) :=
  ⟨nopanic_parseChar hb, nopanic_parseWhitespace hb, fun _ => nopanic_parseStringLiteral hb,
   fun _ => nopanic_parseCharacterLiteral hb, fun _ _ => nopanic_parseCharacterRange hb,
   fun _ hl => nopanic_parseStringLiteralInsensitive hl hb, fun _ => nopanic_parseCharacterLiteralInsensitive hb,
   nopanic_parseEndOfInput hb⟩

/-- the compile-time guard is necessary: without it (non-ASCII `i'é'`) the byte-wise matcher accepts
    the lead byte of a 3-byte sequence and leaves the cursor inside a character -/
theorem C04_guard_is_necessary :
    ∃ (cs : List Char) (s s' : St) (c : Char),
      BSt cs s ∧ isAscii c = false ∧ parseCharacterLiteralInsensitive s c = .ok c s' ∧ ¬ IsBoundary cs s'.off :=
  let ⟨cs, s, s', c, h1, h2, h3, _, h5, _⟩ := ci_nonascii_off_boundary
  ⟨cs, s, s', c, h1, h2, h3, h5⟩

/-- the guard itself: a case-insensitive literal that is not ASCII is rejected by the generator model -/
theorem C04_guard (items : List StringItem) (lit : List Char) (h : decodeLit items = .ok lit)
    (hna : lit.all isAscii = false) : ∃ msg, compileLit true items = .err msg := by
  unfold compileLit
  simp [h, hna]

/-! ### the whole evaluator -/

/-- **No runtime panic.** With user externs that return character-boundary lengths, a parse of any
    valid UTF-8 input never hits the overrun panic of `advance` nor the boundary panic of
    `advance_safe` (other panic strings belong to the generator-side domain of C03/C15). -/
theorem C04_no_runtime_panic (env : Env) (cs : List Char) (hx : GoodExterns env.hooks) (rule : String) (n u : Nat)
    {r : Res Val} {g : Global} (h : parseAdvanced env n rule (enc cs) u = some (r, g)) :
    ∀ m, r = .panic m → ¬ RuntimePanic m :=
  Peg.C04_no_runtime_panic env cs hx rule n u h

/-- **Every exposed offset is a boundary inside the input**: the end state of a success and the
    position of a reported error. -/
theorem C04_offsets_on_boundaries (env : Env) (cs : List Char) (hx : GoodExterns env.hooks) (rule : String) (n u : Nat)
    {r : Res Val} {g : Global} (h : parseAdvanced env n rule (enc cs) u = some (r, g)) :
    (∀ v s, r = .ok v s → IsBoundary cs s.off ∧ s.off ≤ (enc cs).length) ∧
    (∀ e, r = .err e → IsBoundary cs e.pos ∧ e.pos ≤ (enc cs).length) :=
  Peg.C04_offsets_on_boundaries env cs hx rule n u h

/-- **The returned tree**: every `position` range is a pair of boundaries and every string is the
    encoding of a contiguous sub-list of the input's characters (a valid UTF-8 substring). -/
theorem C04_values_on_boundaries (env : Env) (cs : List Char) (hx : GoodExterns env.hooks)
    (hv : ExternValsB cs env.hooks) (rule : String) (n u : Nat) {r : Res Val} {g : Global}
    (h : parseAdvanced env n rule (enc cs) u = some (r, g)) : ∀ v s, r = .ok v s → ValB cs v :=
  Peg.C04_values_on_boundaries env cs hx hv rule n u h

/-- the invariant behind these: every intermediate state, recorded furthest error and cache entry
    stays on boundaries, for every construct and every rule kind -/
theorem C04_invariant (env : Env) (cs : List Char) (hx : GoodExterns env.hooks) (n : Nat)
    (name : String) (s : St) (g : Global) {r g'} (h : (eval env n).rule name s g = some (r, g'))
    (hs : BSt' cs s) (hc : CacheB cs g) : ResB cs r ∧ CacheB cs g' :=
  (eval_boundary env cs hx n).2 name s g r g' h hs hc

/-! ## non-vacuity (BEGIN) -/
namespace C04_nv
open Peg.NV

/-- `At` from its (decidable) unfolding -/
theorem at_of {cs pre rem : List Char} {s : St}
    (h : (cs = pre ++ rem ∧ s.off = (enc pre).length ∧ s.rest = enc rem)) : At cs pre rem s := h

/-! the matchers on the text `"aé€"` (1-, 2- and 3-byte characters), cursor after `a` -/
def cs : List Char := ['a', 'é', '€']
def s1 : St := ⟨enc ['é', '€'], 1, none⟩
theorem bst1 : BSt cs s1 := (at_of (pre := ['a']) (rem := ['é', '€']) (by decide)).bst

example : ∃ s', parseChar s1 = .ok 'é' s' ∧ s'.off = 3 ∧ BSt cs s' := ⟨_, rfl, rfl, C04_parseChar bst1 rfl⟩
example : ∃ s', parseCharacterLiteral s1 'é' = .ok 'é' s' ∧ s'.off = 3 ∧ BSt cs s' :=
  ⟨_, rfl, rfl, C04_parseCharacterLiteral (c := 'é') bst1 rfl⟩
example : ∃ s', parseCharacterRange s1 'à' 'ÿ' = .ok 'é' s' ∧ s'.off = 3 ∧ BSt cs s' :=
  ⟨_, rfl, rfl, C04_parseCharacterRange (lo := 'à') (hi := 'ÿ') bst1 rfl⟩
example : ∃ s', parseStringLiteral s1 ['é', '€'] = .ok () s' ∧ s'.off = 6 ∧ BSt cs s' :=
  ⟨_, rfl, rfl, C04_parseStringLiteral (l := ['é', '€']) bst1 rfl⟩
example : ∃ s', parseWhitespace s1 = .ok () s' ∧ s'.off = 1 ∧ BSt cs s' := ⟨_, rfl, rfl, C04_parseWhitespace bst1 rfl⟩
/-- the case-insensitive matchers on `"Ab€"` at offset 0, with ASCII literals -/
def cs2 : List Char := ['A', 'b', '€']
theorem bst2 : BSt cs2 (St.new (enc cs2)) := (at_of (pre := []) (rem := cs2) (by decide)).bst
example : ∃ s', parseStringLiteralInsensitive (St.new (enc cs2)) ['a', 'b'] = .ok () s' ∧ s'.off = 2 ∧ BSt cs2 s' :=
  ⟨_, rfl, rfl, C04_parseStringLiteralInsensitive (l := ['a', 'b']) (by decide) bst2 rfl⟩
example : ∃ s', parseCharacterLiteralInsensitive (St.new (enc cs2)) 'a' = .ok 'a' s' ∧ s'.off = 1 ∧ BSt cs2 s' :=
  ⟨_, rfl, rfl, C04_parseCharacterLiteralInsensitive (c := 'a') (by decide) bst2 rfl⟩
example : parseEndOfInput ⟨[], 6, none⟩ = .ok () ⟨[], 6, none⟩ ∧ BSt cs ⟨[], 6, none⟩ :=
  ⟨rfl, C04_parseEndOfInput (s := ⟨[], 6, none⟩) (at_of (pre := cs) (rem := []) (by decide)).bst rfl⟩
example : ∀ m, parseChar s1 ≠ .panic m := (C04_matchers_never_panic bst1).1
/-- the guard rejects `i'é'` -/
example : ∃ msg, compileLit true [.chr 'é'] = .err msg := C04_guard [.chr 'é'] ['é'] rfl (by decide)

/-! the whole evaluator: a grammar with a `@string @position` rule over multi-byte literals, a user `@extern`
    that consumes one character of any width, and the builtin `char` in a closure

    ```
    @export @position T = s:Str x:Any cs:{char} ;
    @string @position Str = "é€" ;
    @extern(any) Any ;
    ``` -/
def hooksAny : Hooks :=
  { extern := fun _ bs u => match decodeHead bs with
      | some c => (.ok (.ext "any" c.toNat, c.utf8Size), u)
      | none => (.error "end of input", u)
    check := fun _ _ u => (true, u)
    charCheck := fun _ _ => true }

def ruleT : Rule := ⟨[.export, .position], "T",
  .choice [.seq [.field (some (.ident "s")) false "Str", .field (some (.ident "x")) false "Any",
                 .closure (.choice [.seq [.field (some (.ident "cs")) false "char"]]) false]]⟩
def ruleStr : Rule := ⟨[.string, .position], "Str", .choice [.seq [.lit false [.chr 'é', .chr '€']]]⟩
def envT : Env :=
  { g := ⟨[.rule ruleT, .rule ruleStr, .externRule ⟨["any"], none, "Any"⟩]⟩, settings := {}, hooks := hooksAny, nf := 10 }

/-- the hypotheses on the user functions hold, and the extern really returns `Ok` with a 2-byte advance on `"ßz"` -/
theorem goodX : GoodExterns envT.hooks := by
  intro f rem u v adv u' h
  cases rem with
  | nil => simp [envT, hooksAny, enc_nil, decodeHead_nil] at h
  | cons c rest =>
    simp only [envT, hooksAny, decodeHead_enc_cons, Prod.mk.injEq, Except.ok.injEq] at h
    refine ⟨[c], by simp, ?_⟩
    rw [enc_singleton, String.length_utf8EncodeChar]
    exact h.1.2.symm
theorem valsX (cs : List Char) : ExternValsB cs envT.hooks := by
  intro f bs u v adv u' h
  simp only [envT, hooksAny] at h
  split at h
  · simp only [Prod.mk.injEq, Except.ok.injEq] at h
    rw [← h.1.1]; exact .ext _ _
  · simp at h
example : (match (envT.hooks.extern "any" (enc ['ß', 'z']) 0).1 with
    | .ok (.ext _ n, adv) => n == 223 && adv == 2 | _ => false) = true := by decide

/-- `"é€ßz"`: 2+3 bytes for `Str`, 2 bytes for the extern, 1 byte for `char` -/
def txt : List Char := ['é', '€', 'ß', 'z']
theorem run_some : (parseAdvanced envT 20 "T" (enc txt) 0).isSome = true := by decide
example : show' (parseAdvanced envT 20 "T" (enc txt) 0) =
    some ("T { s: Str { string: S\"c3a9e282ac\", position: 0..5 }, x: any(223), cs: [C'7a'], position: 0..8 }", 8) := by
  decide

example : ∀ m, ((parseAdvanced envT 20 "T" (enc txt) 0).get run_some).1 = .panic m → ¬ RuntimePanic m :=
  C04_no_runtime_panic envT txt goodX "T" 20 0 (run_eq run_some)
example : ∃ v s g, parseAdvanced envT 20 "T" (enc txt) 0 = some (.ok v s, g) ∧ s.off = 8 ∧
    IsBoundary txt s.off ∧ s.off ≤ (enc txt).length ∧ ValB txt v := by
  obtain ⟨v, s, g, h, hp⟩ := ok_of (o := parseAdvanced envT 20 "T" (enc txt) 0) (fun _ s _ => s.off == 8) (by decide)
  have hb := (C04_offsets_on_boundaries envT txt goodX "T" 20 0 h).1 v s rfl
  exact ⟨v, s, g, h, by simpa using hp, hb.1, hb.2, C04_values_on_boundaries envT txt goodX (valsX txt) "T" 20 0 h v s rfl⟩

/-- a failing input, `"é€"`: `Str` matches, the extern fails at end of input – the error is at byte 5 (not 0),
    a boundary -/
def txt2 : List Char := ['é', '€']
example : reported (parseAdvanced envT 20 "T" (enc txt2) 0) = some ⟨5, .externRuleFailed "end of input"⟩ := by decide
example : ∃ e g, parseAdvanced envT 20 "T" (enc txt2) 0 = some (.err e, g) ∧ e.pos = 5 ∧
    IsBoundary txt2 e.pos ∧ e.pos ≤ (enc txt2).length := by
  obtain ⟨e, g, h, hp⟩ := err_of (o := parseAdvanced envT 20 "T" (enc txt2) 0) (fun e _ => e.pos == 5) (by decide)
  have hb := (C04_offsets_on_boundaries envT txt2 goodX "T" 20 0 h).2 e rfl
  exact ⟨e, g, h, by simpa using hp, hb.1, hb.2⟩

/-- `C04_invariant`: the extern rule `Any` called in the middle (offset 5, a recorded furthest error at 5) -/
def mid : St := ⟨enc ['ß', 'z'], 5, some ⟨5, .expectedEoi⟩⟩
theorem mid_b : BSt' txt mid :=
  ⟨(at_of (pre := ['é', '€']) (rem := ['ß', 'z']) (by decide)).bst, fun f hf => by
    cases hf; exact ⟨2, by decide, by decide⟩⟩
theorem any_some : ((eval envT 5).rule "Any" mid (Global.init 0)).isSome = true := by decide
example : ResB txt (((eval envT 5).rule "Any" mid (Global.init 0)).get any_some).1 :=
  (C04_invariant envT txt goodX 5 "Any" mid (Global.init 0) (run_eq any_some) mid_b
    (fun k r h => by simp [Global.init, Global.lookup] at h)).1
example : (match (eval envT 5).rule "Any" mid (Global.init 0) with | some (.ok _ s, _) => s.off == 7 | _ => false) = true := by
  decide

end C04_nv
/-! ## non-vacuity (END) -/

end Peg.Props
