import PegVerif.Proofs.BoundaryEval
/-
  C04 – no panic and no split UTF-8 sequence on any input string.

  The real runtime advances its cursor with an unchecked slice (`ParseState::advance`, unsafe).
  Theorems here: every matcher of `runtime/src/builtin_parsers.rs` (model: Runtime.lean, tied by the
  exhaustive `unitdiff` matcher table and by the cfg-guarded assertion in `advance`), started on a
  character boundary of valid UTF-8, lands on a character boundary inside the input and never hits
  the overrun panic; the case-insensitive matchers need the ASCII guard the generator enforces, and
  without it the property fails (concrete witness).
-/
namespace Peg.Props
open Peg

theorem C04_parseChar {cs s v s'} (hb : BSt cs s) (h : parseChar s = .ok v s') : BSt cs s' := bst_parseChar hb h
theorem C04_parseWhitespace {cs s v s'} (hb : BSt cs s) (h : parseWhitespace s = .ok v s') : BSt cs s' := bst_parseWhitespace hb h
theorem C04_parseStringLiteral {cs s l v s'} (hb : BSt cs s) (h : parseStringLiteral s l = .ok v s') : BSt cs s' :=
  bst_parseStringLiteral hb h
theorem C04_parseCharacterLiteral {cs s c v s'} (hb : BSt cs s) (h : parseCharacterLiteral s c = .ok v s') : BSt cs s' :=
  bst_parseCharacterLiteral hb h
theorem C04_parseCharacterRange {cs s lo hi v s'} (hb : BSt cs s) (h : parseCharacterRange s lo hi = .ok v s') : BSt cs s' :=
  bst_parseCharacterRange hb h
theorem C04_parseStringLiteralInsensitive {cs s l v s'} (hl : l.all isAscii = true) (hb : BSt cs s)
    (h : parseStringLiteralInsensitive s l = .ok v s') : BSt cs s' := bst_parseStringLiteralInsensitive hl hb h
theorem C04_parseCharacterLiteralInsensitive {cs s c v s'} (hc : isAscii c = true) (hb : BSt cs s)
    (h : parseCharacterLiteralInsensitive s c = .ok v s') : BSt cs s' := bst_parseCharacterLiteralInsensitive hc hb h
theorem C04_parseEndOfInput {cs s v s'} (hb : BSt cs s) (h : parseEndOfInput s = .ok v s') : BSt cs s' := bst_parseEndOfInput hb h

/-- `advance` never overruns: no matcher panics on a boundary state of valid UTF-8 -/
theorem C04_matchers_never_panic {cs s} (hb : BSt cs s) :
    (∀ m, parseChar s ≠ .panic m) ∧ (∀ m, parseWhitespace s ≠ .panic m) ∧
    (∀ l m, parseStringLiteral s l ≠ .panic m) ∧ (∀ c m, parseCharacterLiteral s c ≠ .panic m) ∧
    (∀ lo hi m, parseCharacterRange s lo hi ≠ .panic m) ∧
    (∀ l, l.all isAscii = true → ∀ m, parseStringLiteralInsensitive s l ≠ .panic m) ∧
    (∀ c m, parseCharacterLiteralInsensitive s c ≠ .panic m) ∧ (∀ m, parseEndOfInput s ≠ .panic m) :=
  ⟨nopanic_parseChar hb, nopanic_parseWhitespace hb, fun _ => nopanic_parseStringLiteral hb,
   fun _ => nopanic_parseCharacterLiteral hb, fun _ _ => nopanic_parseCharacterRange hb,
   fun _ hl => nopanic_parseStringLiteralInsensitive hl hb, fun _ => nopanic_parseCharacterLiteralInsensitive hb,
   nopanic_parseEndOfInput hb⟩

/-- the compile-time guard is necessary: without it (non-ASCII `i'é'`) the byte-wise matcher accepts
    the lead byte of a 3-byte sequence and leaves the cursor inside a character -/
theorem C04_guard_is_necessary :
    ∃ (cs : List Char) (s s' : St) (c : Char),
      BSt cs s ∧ isAscii c = false ∧ parseCharacterLiteralInsensitive s c = .ok c s' ∧ ¬ IsBoundary cs s'.off :=
  let ⟨cs, s, s', c, h1, h2, h3, _, h5, _⟩ := ci_nonascii_off_boundary
  ⟨cs, s, s', c, h1, h2, h3, h5⟩

/-- the guard itself: a case-insensitive literal that is not ASCII is rejected by the generator model -/
theorem C04_guard (items : List StringItem) (lit : List Char) (h : decodeLit items = .ok lit)
    (hna : lit.all isAscii = false) : ∃ msg, compileLit true items = .err msg := by
  unfold compileLit
  simp [h, hna]

/-! ### the whole evaluator -/

/-- **No runtime panic.** With user externs that return character-boundary lengths, a parse of any
    valid UTF-8 input never hits the overrun panic of `advance` nor the boundary panic of
    `advance_safe` (other panic strings belong to the generator-side domain of C03/C15). -/
theorem C04_no_runtime_panic (env : Env) (cs : List Char) (hx : GoodExterns env.hooks) (rule : String) (n u : Nat)
    {r : Res Val} {g : Global} (h : parseAdvanced env n rule (enc cs) u = some (r, g)) :
    ∀ m, r = .panic m → ¬ RuntimePanic m :=
  Peg.C04_no_runtime_panic env cs hx rule n u h

/-- **Every exposed offset is a boundary inside the input**: the end state of a success and the
    position of a reported error. -/
theorem C04_offsets_on_boundaries (env : Env) (cs : List Char) (hx : GoodExterns env.hooks) (rule : String) (n u : Nat)
    {r : Res Val} {g : Global} (h : parseAdvanced env n rule (enc cs) u = some (r, g)) :
    (∀ v s, r = .ok v s → IsBoundary cs s.off ∧ s.off ≤ (enc cs).length) ∧
    (∀ e, r = .err e → IsBoundary cs e.pos ∧ e.pos ≤ (enc cs).length) :=
  Peg.C04_offsets_on_boundaries env cs hx rule n u h

/-- **The returned tree**: every `position` range is a pair of boundaries and every string is the
    encoding of a contiguous sub-list of the input's characters (a valid UTF-8 substring). -/
theorem C04_values_on_boundaries (env : Env) (cs : List Char) (hx : GoodExterns env.hooks)
    (hv : ExternValsB cs env.hooks) (rule : String) (n u : Nat) {r : Res Val} {g : Global}
    (h : parseAdvanced env n rule (enc cs) u = some (r, g)) : ∀ v s, r = .ok v s → ValB cs v :=
  Peg.C04_values_on_boundaries env cs hx hv rule n u h

/-- the invariant behind these: every intermediate state, recorded furthest error and cache entry
    stays on boundaries, for every construct and every rule kind -/
theorem C04_invariant (env : Env) (cs : List Char) (hx : GoodExterns env.hooks) (n : Nat)
    (name : String) (s : St) (g : Global) {r g'} (h : (eval env n).rule name s g = some (r, g'))
    (hs : BSt' cs s) (hc : CacheB cs g) : ResB cs r ∧ CacheB cs g' :=
  (eval_boundary env cs hx n).2 name s g r g' h hs hc

end Peg.Props
