import PegVerif.Proofs.BuildProofs
/-
  C18 – build-script compilation leaves the destination matching the current grammar.
  Model: Build.lean (`Compile::run` on a single file after fix F6, CRC-32/ISO-HDLC, header),
  tied to the real helper by `fsdiff` (operation histories against the real `Compile` in a scratch
  directory: Result, destination content, rewritten-or-untouched).
-/
namespace Peg.Props
open Peg Peg.Build

/-- a failing run returns an error and leaves the file-system state exactly as it was -/
theorem C18_failure_preserves (k : Consts) (compile : List UInt8 → Option (List UInt8)) (fs : FS)
    (h : (Build.step k compile fs .run).2 = .err) : (Build.step k compile fs .run).1 = fs :=
  Peg.C18_failure_preserves k compile fs h

/-- a destination produced by a successful run is left untouched by the next run -/
theorem C18_untouched (k : Consts) (compile : List UInt8 → Option (List UInt8)) (fs fs' : FS) (w : Bool)
    (h : Build.step k compile fs .run = (fs', .ok w)) : Build.step k compile fs' .run = (fs', .ok false) :=
  Peg.C18_untouched k compile fs fs' w h

/-- a destination that already is the compilation of the current grammar and prefix is not rewritten -/
theorem C18_rewrite_only_when_needed (k : Consts) (compile : List UInt8 → Option (List UInt8)) (fs : FS)
    (g code : List UInt8) (hg : fs.grammar = some g) (hd : fs.dest = some (output k g fs.pfx code)) :
    Build.step k compile fs .run = (fs, .ok false) :=
  Peg.C18_rewrite_only_when_needed k compile fs g code hg hd

/-- **Freshness over histories (partial: CRC-32 must not collide on the texts of the history).**
    After any finite sequence of grammar edits, prefix changes, destination deletions and runs that
    started without a destination, a successful run leaves `header ++ prefix ++ code` of the grammar
    and prefix as they are now.  The hypothesis is finite and decidable for a concrete history. -/
theorem C18_fresh_partial (k : Consts) (compile : List UInt8 → Option (List UInt8))
    (fs0 : FS) (ops : List Op) (fs' : FS) (w : Bool) (h0 : fs0.dest = none)
    (hcG : CrcInjOn (· ∈ grammarTexts fs0 ops)) (hcP : CrcInjOn (· ∈ prefixTexts fs0 ops))
    (h : Build.step k compile (runOps k compile fs0 ops) .run = (fs', .ok w)) :
    ∃ g code, fs'.grammar = some g ∧ compile g = some code ∧ fs'.dest = some (output k g fs'.pfx code) :=
  C18_fresh_partial_history k compile fs0 ops fs' w h0 hcG hcP h

/-- the unconditional statement is **false** (known finding K1): two concrete grammar texts with
    the same CRC-32 (fd872ce9) – the second run reports success and keeps the stale destination -/
theorem C18_fresh_is_false_without_crc_hypothesis : ¬ C18_fresh_statement := C18_fresh_false

end Peg.Props
