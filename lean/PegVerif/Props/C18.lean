import PegVerif.Proofs.BuildProofs
import PegVerif.Proofs.BuildFmtProofs
import PegVerif.Proofs.BuildDirProofs
/-
  C18 – build-script compilation leaves the destination matching the current grammar.
  Model: Build.lean (`Compile::run` on a single file after fix F6, CRC-32/ISO-HDLC, header),
  tied to the real helper by `fsdiff` (operation histories against the real `Compile` in a scratch
  directory: Result, destination content, rewritten-or-untouched).
-/
namespace Peg.Props
open Peg Peg.Build

/-- a failing run returns an error and leaves the file-system state exactly as it was -/
theorem C18_failure_preserves (k : Consts) (compile : List UInt8 → Option (List UInt8)) (fs : FS)
    (h : (Build.step k compile fs .run).2 = .err) : (Build.step k compile fs .run).1 = fs :=
  Peg.C18_failure_preserves k compile fs h

/-- a destination produced by a successful run is left untouched by the next run -/
theorem C18_untouched (k : Consts) (compile : List UInt8 → Option (List UInt8)) (fs fs' : FS) (w : Bool)
    (h : Build.step k compile fs .run = (fs', .ok w)) : Build.step k compile fs' .run = (fs', .ok false) :=
  Peg.C18_untouched k compile fs fs' w h

/-- a destination that already is the compilation of the current grammar and prefix is not rewritten -/
theorem C18_rewrite_only_when_needed (k : Consts) (compile : List UInt8 → Option (List UInt8)) (fs : FS)
    (g code : List UInt8) (hg : fs.grammar = some g) (hd : fs.dest = some (output k g fs.pfx code)) :
    Build.step k compile fs .run = (fs, .ok false) :=
  Peg.C18_rewrite_only_when_needed k compile fs g code hg hd

/-- **Freshness over histories (partial: CRC-32 must not collide on the texts of the history).**
    After any finite sequence of grammar edits, prefix changes, destination deletions and runs that
    started without a destination, a successful run leaves `header ++ prefix ++ code` of the grammar
    and prefix as they are now.  The hypothesis is finite and decidable for a concrete history. -/
theorem C18_fresh_partial (k : Consts) (compile : List UInt8 → Option (List UInt8))
    (fs0 : FS) (ops : List Op) (fs' : FS) (w : Bool) (h0 : fs0.dest = none)
    (hcG : CrcInjOn (· ∈ grammarTexts fs0 ops)) (hcP : CrcInjOn (· ∈ prefixTexts fs0 ops))
    (h : Build.step k compile (runOps k compile fs0 ops) .run = (fs', .ok w)) :
    ∃ g code, fs'.grammar = some g ∧ compile g = some code ∧ fs'.dest = some (output k g fs'.pfx code) :=
  C18_fresh_partial_history k compile fs0 ops fs' w h0 hcG hcP h

/-- the unconditional statement is **false** (known finding K1): two concrete grammar texts with
    the same CRC-32 (fd872ce9) – the second run reports success and keeps the stale destination -/
theorem C18_fresh_is_false_without_crc_hypothesis : ¬ C18_fresh_statement := C18_fresh_false

/-! ### with `.format()` (BuildFmt.lean, Proofs/BuildFmtProofs.lean)

  rustfmt is an external program: a parameter `fmt` of the model (the correspondence run gives the model a table built
  with the real rustfmt).  The only assumption: `KeepsHeaderLines k fmt` – formatting an output of the helper leaves its
  header lines (the common header and the line with the CRC-32 of the prefix) as they are.  `stepF … false` *is* `step`
  (`stepF_false`), so the theorems above are the no-formatting instance. -/

theorem C18_format_failure_preserves (k : Consts) (compile : List UInt8 → Option (List UInt8))
    (fmt : List UInt8 → List UInt8) (format : Bool) (fs : FS)
    (h : (stepF k compile fmt format fs .run).2 = .err) : (stepF k compile fmt format fs .run).1 = fs :=
  C18F_failure_preserves_any k compile fmt format fs h

/-- a formatted destination produced by a successful run is left untouched by the next run – whatever rustfmt did to
    the prefix text.  (False for the code before fix F8: `C18_format_untouched_was_false`.) -/
theorem C18_format_untouched (k : Consts) (compile : List UInt8 → Option (List UInt8)) (fmt : List UInt8 → List UInt8)
    (hk : KeepsHeaderLines k fmt) (fs fs' : FS) (w : Bool)
    (h : stepF k compile fmt true fs .run = (fs', .ok w)) :
    stepF k compile fmt true fs' .run = (fs', .ok false) :=
  C18F_untouched k compile fmt hk fs fs' w h

/-- freshness over histories with formatting (partial in the same sense as `C18_fresh_partial`; with formatting *any* two
    prefixes with equal CRC-32 are indistinguishable, not only an initial-segment pair: `C18F_prefix_collision_witness`) -/
theorem C18_format_fresh_partial (k : Consts) (compile : List UInt8 → Option (List UInt8)) (fmt : List UInt8 → List UInt8)
    (hk : KeepsHeaderLines k fmt) (fs0 : FS) (ops : List Op) (fs' : FS) (w : Bool) (h0 : fs0.dest = none)
    (hcG : CrcInjOn (· ∈ grammarTexts fs0 ops)) (hcP : CrcInjOn (· ∈ prefixTexts fs0 ops))
    (h : stepF k compile fmt true (runOpsF k compile fmt true fs0 ops) .run = (fs', .ok w)) :
    ∃ g code, fs'.grammar = some g ∧ compile g = some code ∧ fs'.dest = some (fmt (output k g fs'.pfx code)) :=
  C18F_fresh_partial_history k compile fmt hk fs0 ops fs' w h0 hcG hcP h

/-- the behaviour before fix F8 (compare header lines *and prefix text* also when formatting): with a formatter that
    keeps the header lines but collapses the double blank in the prefix `use  a;`, two consecutive runs both rewrite -/
theorem C18_format_untouched_was_false : ¬ C18F_old_untouched_statement := C18F_old_untouched_false

/-- non-vacuity of the assumption: a formatter that is not the identity and keeps the header lines -/
example : KeepsHeaderLines Witness.k0 FmtWitness.fmtSq := FmtWitness.keeps_fmtSq

/-! ### directory mode (`Compile::directory`, BuildDir.lean, Proofs/BuildDirProofs.lean)

  The recursive walk compiles every `.ebnf` file next to itself with the single-file routine, in the order `read_dir`
  yields them (the list order: an environment parameter), and stops at the first error.  Every theorem above is about
  one file; these lift them to the walk. -/

/-- a successful walk gave every file exactly its own single-file run – no file's outcome depends on another file – and
    every one of these runs succeeded (so `C18_fresh_partial` applies to each file separately) -/
theorem C18_dir_success_is_per_file (k : Consts) (compile : List UInt8 → Option (List UInt8)) (fs : List FS) (w : Bool)
    (h : dirResult (runDir k compile fs) = .ok w) :
    runDir k compile fs = fs.map (runEntry k compile) ∧ ∀ f ∈ fs, ∃ w', (runEntry k compile f).2 = .ok w' :=
  runDir_ok k compile fs w h

/-- a failing walk: the files before the first failing one got their own (successful) run; the failing file and all
    files after it are byte for byte as before -/
theorem C18_dir_failure_preserves (k : Consts) (compile : List UInt8 → Option (List UInt8)) (fs : List FS)
    (h : dirResult (runDir k compile fs) = .err) :
    ∃ pre f post, fs = pre ++ f :: post ∧ (∀ x ∈ pre, ∃ w, (runEntry k compile x).2 = .ok w) ∧
      (runEntry k compile f).2 = .err ∧
      runDir k compile fs = pre.map (runEntry k compile) ++ (f, .err) :: post.map (fun x => (x, Out.none)) :=
  runDir_err k compile fs h

/-- the walk succeeds exactly when every file's own run succeeds -/
theorem C18_dir_ok_iff (k : Consts) (compile : List UInt8 → Option (List UInt8)) (fs : List FS) :
    (∃ w, dirResult (runDir k compile fs) = .ok w) ↔ ∀ f ∈ fs, ∃ w', (runEntry k compile f).2 = .ok w' :=
  dirResult_ok_iff k compile fs

/-- on success the outcome does not depend on the order in which the operating system lists the directory -/
theorem C18_dir_order_irrelevant (k : Consts) (compile : List UInt8 → Option (List UInt8)) (fs fs' : List FS)
    (hp : fs.Perm fs') (w : Bool) (h : dirResult (runDir k compile fs) = .ok w) :
    (∃ w', dirResult (runDir k compile fs') = .ok w') ∧ (runDir k compile fs).Perm (runDir k compile fs') :=
  runDir_perm k compile fs fs' hp w h

/-- a walk directly after a successful walk rewrites no file -/
theorem C18_dir_untouched (k : Consts) (compile : List UInt8 → Option (List UInt8)) (fs : List FS) (w : Bool)
    (h : dirResult (runDir k compile fs) = .ok w) :
    runDir k compile ((runDir k compile fs).map (·.1)) = (runDir k compile fs).map (fun e => (e.1, .ok false)) :=
  runDir_again k compile fs w h

/-- with an error the order **does** matter (which files were compiled before the walk stopped): a checked instance -/
theorem C18_dir_order_matters_on_failure :
    ∃ (k : Consts) (compile : List UInt8 → Option (List UInt8)) (a b : FS),
      dirResult (runDir k compile [a, b]) = .err ∧ dirResult (runDir k compile [b, a]) = .err ∧
      ((runDir k compile [a, b]).map (·.1)) ≠ [a, b] ∧ ((runDir k compile [b, a]).map (·.1)) = [b, a] :=
  ⟨⟨str "0.7.0", str "2024"⟩, fun g => if g == str "A=" then none else some (str "/*code*/" ++ g),
   ⟨some (str "A='a';"), none, []⟩, ⟨some (str "A="), none, []⟩, by decide +kernel⟩

/-! ## non-vacuity (BEGIN) -/
namespace C18_nv

/-- `CrcInjOn` on the members of a finite list is a Bool check -/
theorem crcInjOn_of_list (L : List (List UInt8))
    (h : (L.all fun a => L.all fun b => crc32 a != crc32 b || a == b) = true) : CrcInjOn (· ∈ L) := by
  intro a ha b hb hc
  have := List.all_eq_true.mp (List.all_eq_true.mp h a ha) b hb
  simp only [Bool.or_eq_true, bne_iff_ne, ne_eq, beq_iff_eq] at this
  rcases this with h1 | h1
  · exact absurd hc h1
  · exact h1

/-! instance: grammar texts `A='a';`, `A='b';` and the uncompilable `A=`, prefixes `//p⏎` and `//q⏎`, a compiler that
    fails exactly on `A=`; the history
    run · edit grammar · run · change prefix · run · delete destination · edit to the bad grammar · run (fails) ·
    edit back – followed by the final run -/
def k0 : Consts := ⟨str "0.7.0", str "2024"⟩
def gA : List UInt8 := str "A='a';"
def gB : List UInt8 := str "A='b';"
def gBad : List UInt8 := str "A="
def pP : List UInt8 := str "//p\n"
def pQ : List UInt8 := str "//q\n"
def comp (g : List UInt8) : Option (List UInt8) := if g == gBad then none else some (str "/*code*/" ++ g)

def fs0 : FS := ⟨some gA, none, pP⟩
def ops : List Op :=
  [.run, .editGrammar (some gB), .run, .setPrefix pQ, .run, .deleteDest, .editGrammar (some gBad), .run,
   .editGrammar (some gB)]

/-- the hypotheses of `C18_fresh_partial` -/
theorem hcG : CrcInjOn (· ∈ grammarTexts fs0 ops) := crcInjOn_of_list _ (by decide +kernel)
theorem hcP : CrcInjOn (· ∈ prefixTexts fs0 ops) := crcInjOn_of_list _ (by decide +kernel)
example : grammarTexts fs0 ops = [gA, gB, gBad, gB] ∧ prefixTexts fs0 ops = [pP, pQ] := by decide +kernel

/-- the state before the final run (the failing run left no destination behind), and the final run -/
def fsPre : FS := runOps k0 comp fs0 ops
def fsEnd : FS := ⟨some gB, some (output k0 gB pQ (str "/*code*/" ++ gB)), pQ⟩
theorem pre_eq : fsPre = ⟨some gB, none, pQ⟩ := by decide +kernel
theorem last_run : Build.step k0 comp (runOps k0 comp fs0 ops) .run = (fsEnd, .ok true) := by decide +kernel

example : ∃ g code, fsEnd.grammar = some g ∧ comp g = some code ∧ fsEnd.dest = some (output k0 g fsEnd.pfx code) :=
  C18_fresh_partial k0 comp fs0 ops fsEnd true rfl hcG hcP last_run

/-- intermediate steps of the same history: after the first run the destination is the compilation of `A='a';` with
    prefix `//p`; the run after the prefix change rewrites; the run on the bad grammar fails -/
example : (runOps k0 comp fs0 [.run]).dest = some (output k0 gA pP (str "/*code*/" ++ gA)) ∧
    (Build.step k0 comp (runOps k0 comp fs0 [.run, .editGrammar (some gB), .run, .setPrefix pQ]) .run).2 = .ok true ∧
    (Build.step k0 comp (runOps k0 comp fs0 [.run, .editGrammar (some gBad)]) .run).2 = .err := by decide +kernel

/-- `C18_failure_preserves`: the bad grammar with an existing (stale) destination – the run fails, nothing changes -/
def fsStale : FS := runOps k0 comp fs0 [.run, .editGrammar (some gBad)]
theorem stale_fails : (Build.step k0 comp fsStale .run).2 = .err := by decide +kernel
example : (Build.step k0 comp fsStale .run).1 = fsStale := C18_failure_preserves k0 comp fsStale stale_fails
example : fsStale.dest = some (output k0 gA pP (str "/*code*/" ++ gA)) := by decide +kernel

/-- `C18_untouched`: the run after `last_run` leaves `fsEnd` alone and reports "not written" -/
example : Build.step k0 comp fsEnd .run = (fsEnd, .ok false) := C18_untouched k0 comp _ fsEnd true last_run
/-- `C18_rewrite_only_when_needed` at `fsEnd` -/
example : Build.step k0 comp fsEnd .run = (fsEnd, .ok false) :=
  C18_rewrite_only_when_needed k0 comp fsEnd gB (str "/*code*/" ++ gB) rfl rfl

/-! directory mode: three files (one already up to date, one new, one without an `.ebnf` file), then the same with the bad
    grammar in the middle -/
def dA : FS := fsEnd
def dB : FS := ⟨some gA, none, pQ⟩
def dGone : FS := ⟨none, some (str "left over"), pQ⟩
def dBad : FS := ⟨some gBad, some (str "old"), pQ⟩
theorem dir_ok : dirResult (runDir k0 comp [dA, dB, dGone]) = .ok true := by decide +kernel
example : runDir k0 comp [dA, dB, dGone] = [dA, dB, dGone].map (runEntry k0 comp) :=
  (C18_dir_success_is_per_file k0 comp _ true dir_ok).1
example : (runDir k0 comp [dA, dB, dGone]).map (·.2) = [.ok false, .ok true, .ok false] := by decide +kernel
example : (runDir k0 comp [dGone, dB, dA]).Perm (runDir k0 comp [dA, dB, dGone]) :=
  ((C18_dir_order_irrelevant k0 comp [dA, dB, dGone] [dGone, dB, dA] (List.reverse_perm [dGone, dB, dA]).symm.symm true dir_ok).2).symm
example : runDir k0 comp ((runDir k0 comp [dA, dB, dGone]).map (·.1)) =
    (runDir k0 comp [dA, dB, dGone]).map (fun e => (e.1, .ok false)) := C18_dir_untouched k0 comp _ true dir_ok
theorem dir_err : dirResult (runDir k0 comp [dB, dBad, dA]) = .err := by decide +kernel
example : (runDir k0 comp [dB, dBad, dA]).map (·.2) = [.ok true, .err, .none] ∧
    ((runDir k0 comp [dB, dBad, dA]).map (·.1)).drop 1 = [dBad, dA] := by decide +kernel
example : ∃ pre f post, [dB, dBad, dA] = pre ++ f :: post ∧ (runEntry k0 comp f).2 = .err := by
  obtain ⟨pre, f, post, h1, _, h3, _⟩ := C18_dir_failure_preserves k0 comp _ dir_err
  exact ⟨pre, f, post, h1, h3⟩

end C18_nv
/-! ## non-vacuity (END) -/

end Peg.Props
