import PegVerif.Proofs.Include
/-
  C13 – `>Rule` behaves exactly like writing the rule's body (parenthesised) in place.

  `env.inlined K` is the grammar obtained by textually replacing includes by the parenthesised
  body of the included rule (`inlineE`, nested includes up to depth K).  An include hop and a group
  cost the same fuel in the model, so the two grammars agree *as equations*, including the error
  and the whole global state – no purity / memo / leftrec hypothesis is needed.
-/
namespace Peg.Props
open Peg

/-- one include site: the generated code for `>name` is the generated code for `(body)` – the
    directives of the included rule are never consulted -/
theorem C13_site (env : Env) (rec : Rec) (n : Nat) (ctx : Ctx) (name : String) (rule : Rule) (s : St) (g : Global)
    (h : env.g.findRule name = some rule) :
    stepExpr env rec n ctx (.incl name) s g = stepExpr env rec n ctx (.group rule.definition) s g :=
  stepExpr_incl env rec n ctx name rule s g h

/-- same public field descriptors (hence the same generated types) for the two grammars -/
theorem C13_types (g : Grammar) (K k n : Nat) (e : Expr) :
    getFields (g.inlineAll K) n (inlineE g k e) = getFields g n e :=
  getFields_inline g K k n e

/-- **the two parsers agree on every input**: acceptance, tree, positions, consumed bytes, the
    reported error and even the cache and log -/
theorem C13_parsers_agree (env : Env) (K n : Nat) (rule : String) (inp : List UInt8) (u : Nat) :
    parseAdvanced (env.inlined K) n rule inp u = parseAdvanced env n rule inp u :=
  parseAdvanced_inline env K n rule inp u

/-- a replaced include at any position inside any expression of the *same* grammar -/
theorem C13_in_context (env : Env) (n : Nat) (ctx : Ctx) (e e' : Expr) (s : St) (gl : Global)
    (hI : Inl env.g e e') : (eval env n).expr ctx e' s gl = (eval env n).expr ctx e s gl :=
  eval_inl_expr_same env n ctx hI s gl

/-- complete inlining removes every include when the generator accepts the grammar -/
theorem C13_inlining_is_complete (g : Grammar) (k : Nat)
    (h : ∀ r, RuleEntry.rule r ∈ g.rules → ∃ fs, getFields g k r.definition = .ok fs) :
    ∀ r, RuleEntry.rule r ∈ (g.inlineAll k).rules → NoIncl r.definition :=
  noIncl_inlineAll g k h

end Peg.Props
