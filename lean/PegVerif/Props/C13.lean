import PegVerif.Proofs.Include
import PegVerif.Proofs.NonVacuity
/-
  C13 – `>Rule` behaves exactly like writing the rule's body (parenthesised) in place.

  `env.inlined K` is the grammar obtained by textually replacing includes by the parenthesised
  body of the included rule (`inlineE`, nested includes up to depth K).  An include hop and a group
  cost the same fuel in the model, so the two grammars agree *as equations*, including the error
  and the whole global state – no purity / memo / leftrec hypothesis is needed.
-/
namespace Peg.Props
open Peg

/-- one include site: the generated code for `>name` is the generated code for `(body)` – the
    directives of the included rule are never consulted -/
theorem C13_site (env : Env) (rec : Rec) (n : Nat) (ctx : Ctx) (name : String) (rule : Rule) (s : St) (g : Global)
    (h : env.g.findRule name = some rule) :
    stepExpr env rec n ctx (.incl name) s g = stepExpr env rec n ctx (.group rule.definition) s g :=
  stepExpr_incl env rec n ctx name rule s g h

/-- same public field descriptors (hence the same generated types) for the two grammars -/
theorem C13_types (g : Grammar) (K k n : Nat) (e : Expr) :
    getFields (g.inlineAll K) n (inlineE g k e) = getFields g n e :=
  getFields_inline g K k n e

/-- **the two parsers agree on every input**: acceptance, tree, positions, consumed bytes, the
    reported error and even the cache and log -/
theorem C13_parsers_agree (env : Env) (K n : Nat) (rule : String) (inp : List UInt8) (u : Nat) :
    parseAdvanced (env.inlined K) n rule inp u = parseAdvanced env n rule inp u :=
  parseAdvanced_inline env K n rule inp u

/-- a replaced include at any position inside any expression of the *same* grammar -/
theorem C13_in_context (env : Env) (n : Nat) (ctx : Ctx) (e e' : Expr) (s : St) (gl : Global)
    (hI : Inl env.g e e') : (eval env n).expr ctx e' s gl = (eval env n).expr ctx e s gl :=
  eval_inl_expr_same env n ctx hI s gl

/-- complete inlining removes every include when the generator accepts the grammar -/
theorem C13_inlining_is_complete (g : Grammar) (k : Nat)
    (h : ∀ r, RuleEntry.rule r ∈ g.rules → ∃ fs, getFields g k r.definition = .ok fs) :
    ∀ r, RuleEntry.rule r ∈ (g.inlineAll k).rules → NoIncl r.definition :=
  noIncl_inlineAll g k h

/-! ## non-vacuity (BEGIN) -/
namespace C13_nv
open Peg.NV

/-! instance: nested includes, the included rule carries directives that must be ignored
    ```
    @export S = first:Num { >Plus } | word:Word ;
    @string @memoize @position Plus = >Sign rest:Num ;
    Sign = '+' | '-' ;
    @string Num = {'0'..'9'}+ ;  @string Word = {'a'..'z'}+ ;
    ```
    on `"1 + 23"` -/
def ruleSI : Rule := ⟨[.export], "S",
  .choice [.seq [fld "first" "Num", .closure (.choice [.seq [.incl "Plus"]]) false], .seq [fld "word" "Word"]]⟩
def rulePlus : Rule := ⟨[.string, .memoize, .position], "Plus", .choice [.seq [.incl "Sign", fld "rest" "Num"]]⟩
def ruleSign : Rule := ⟨[], "Sign", .choice [.seq [lit '+'], .seq [lit '-']]⟩
def envI : Env :=
  { g := ⟨[.rule ruleSI, .rule rulePlus, .rule ruleSign, .rule (ruleNum []), .rule ruleWord]⟩, settings := {}, hooks := default, nf := 12 }

/-- does the expression contain an include? -/
def hasIncl : Nat → Expr → Bool
  | 0, _ => true
  | k+1, e => match e with
    | .choice as => as.any (hasIncl k)
    | .seq ps => ps.any (hasIncl k)
    | .group b | .opt b | .closure b _ | .neg b | .pos b => hasIncl k b
    | .incl _ => true
    | _ => false

/-- `C13_parsers_agree` at depth 9, and what the two sides are: the same success, tree and log; the original grammar
    has includes, the inlined one has none (also by `C13_inlining_is_complete`) -/
example : parseAdvanced (envI.inlined 9) 24 "S" inp1 0 = parseAdvanced envI 24 "S" inp1 0 :=
  C13_parsers_agree envI 9 24 "S" inp1 0
example : show' (parseAdvanced envI 24 "S" inp1 0) = some ("S { first: Some(S\"31\"), rest: [S\"3233\"], word: None }", 6) ∧
    show' (parseAdvanced (envI.inlined 9) 24 "S" inp1 0) = some ("S { first: Some(S\"31\"), rest: [S\"3233\"], word: None }", 6) := by
  decide
example : (envI.g.findRule "S").map (fun r => hasIncl 20 r.definition) = some true ∧
    ((envI.inlined 9).g.findRule "S").map (fun r => hasIncl 20 r.definition) = some false ∧
    ((envI.inlined 9).g.findRule "Plus").map (fun r => hasIncl 20 r.definition) = some false := by decide
/-- depth 8 is not enough for the nested include (so `K` matters) – and the parsers still agree -/
example : ((envI.inlined 8).g.findRule "S").map (fun r => hasIncl 20 r.definition) = some true := by decide

example : ∀ r, RuleEntry.rule r ∈ (envI.g.inlineAll 12).rules → NoIncl r.definition := by
  refine C13_inlining_is_complete envI.g 12 (fun r hr => ?_)
  simp only [envI, List.mem_cons, RuleEntry.rule.injEq, List.not_mem_nil, or_false] at hr
  rcases hr with rfl | rfl | rfl | rfl | rfl <;> exact ⟨_, getFields_ok_of (env := envI) (by decide)⟩

/-- `C13_site` at the include `>Plus` inside `S` (context of `S`, offset 1): the directives `@string @memoize @position`
    of `Plus` play no role -/
def ctxS : Ctx := ⟨true, ownFields envI ruleSI.definition⟩
def mid : St := ⟨inp1.drop 1, 1, none⟩
example : stepExpr envI (eval envI 20) 20 ctxS (.incl "Plus") mid (Global.init 0) =
    stepExpr envI (eval envI 20) 20 ctxS (.group rulePlus.definition) mid (Global.init 0) :=
  C13_site envI (eval envI 20) 20 ctxS "Plus" rulePlus mid (Global.init 0) rfl
example : (match stepExpr envI (eval envI 20) 20 ctxS (.incl "Plus") mid (Global.init 0) with
    | some (.ok p s, g) => (p.get "rest").map Val.render == some "[S\"3233\"]" && s.off == 6 && g.cache.length == 0
    | _ => false) = true := by decide

/-- `C13_types`: same descriptors for the definition of `S` before and after inlining -/
example : getFields (envI.g.inlineAll 9) 12 (inlineE envI.g 9 ruleSI.definition) = getFields envI.g 12 ruleSI.definition :=
  C13_types envI.g 9 9 12 ruleSI.definition
example : ownFields envI ruleSI.definition = [⟨"first", [("Num", false)], .optional⟩, ⟨"rest", [("Num", false)], .multiple⟩,
    ⟨"word", [("Word", false)], .optional⟩] := by decide

/-- `C13_in_context`: the closure `{ >Plus }` and its inlined form `{ (( ('+' | '-') ) rest:Num) }` in the same grammar -/
def cl : Expr := .closure (.choice [.seq [.incl "Plus"]]) false
example : (eval envI 22).expr ctxS (inlineE envI.g 8 cl) mid (Global.init 0) = (eval envI 22).expr ctxS cl mid (Global.init 0) :=
  C13_in_context envI 22 ctxS cl (inlineE envI.g 8 cl) mid (Global.init 0) (inl_inlineE envI.g 8 cl)
example : hasIncl 20 cl = true ∧ hasIncl 20 (inlineE envI.g 8 cl) = false ∧
    (match (eval envI 22).expr ctxS cl mid (Global.init 0) with | some (.ok _ s, _) => s.off == 6 | _ => false) = true := by
  decide

end C13_nv
/-! ## non-vacuity (END) -/

end Peg.Props
