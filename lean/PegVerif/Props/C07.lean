import PegVerif.Proofs.LeftRec
import PegVerif.Proofs.LeftRecShape
/-
  C07 – `@leftrec` rules terminate and build the left-nested tree of the longest growth.
  Model: `memoBody` (left_recursive branch) / `growLoop` in Eval.lean – the seed-and-grow loop of
  `generate_memoized_body` after fix F1.
-/
namespace Peg.Props
open Peg

/-- **Termination of the growth.** The grow loop of a `@leftrec` rule never needs more than
    (remaining input length + 2) iterations: every continuing iteration strictly extends the match
    and matches cannot extend beyond the input (proved for the real rule body, not assumed).
    Termination is relative to termination of the body evaluations themselves. -/
theorem C07_terminates (env : Env) (n : Nat) (r : Rule) (hlr : r.flags.leftRecursive = true)
    (inp : List UInt8) (u : Nat) {k : Nat} {x : Res Val × Global}
    (h : normalRule env (eval env n) k r (St.new inp) (Global.init u) = some x) :
    ∃ k0, k0 ≤ inp.length + 2 ∧
      ∀ k', k0 ≤ k' → normalRule env (eval env n) k' r (St.new inp) (Global.init u) = some x :=
  C07_terminates_top env n r hlr inp u h

/-- **Result = longest growth.** A successful answer of the loop (entered with the failing seed) is
    the last element of a chain of body results with strictly increasing end offsets. -/
theorem C07_longest_growth {body : St → Global → Out Val} {key : String × Nat} {s : St} {k : Nat}
    {e0 : PErr} {g : Global} {v : Val} {ns : St} {g' : Global}
    (h : growLoop body key s k (.err e0) g = some (.ok v ns, g')) :
    ∃ chain : List (Val × St), chain.getLast? = some (v, ns) ∧
      (∀ x ∈ chain, x.2.off ≤ ns.off) ∧ (∃ g0 g1, body s g0 = some (.ok v ns, g1)) :=
  growLoop_ok_is_longest h

/-- **The usual shape `A = A x | b`.**  If with a failing seed the body yields the base result `b0`,
    with seed `v_i` it yields the extension `ext i v_i` ending strictly further (for i < m), and with
    seed `v_m` it fails or does not get further, then the rule returns
    `ext (m-1) (… (ext 0 b0))` – the tree nested to the left, each extension holding the previous
    result – after exactly m+2 body evaluations, and that is what the cache holds. -/
theorem C07_direct {flags : RuleFlags} {name : String} {body : St → Global → Out Val} {s : St}
    {b0 : Val} {ext : Nat → Val → Val} {st : Nat → St} {m : Nat} (hlr : flags.leftRecursive = true)
    (H : DirectLeftRec body (name, s.off) s (s.reportError .leftRecursionSentinel) b0 ext st m)
    {g : Global} (hmiss : g.lookup (name, s.off) = none) :
    ∃ g', (∀ n, m + 2 ≤ n → memoBody flags name body n s g = some (.ok (nestL ext b0 m) (st m), g')) ∧
          (∀ n, n ≤ m + 1 → memoBody flags name body n s g = none) :=
  let ⟨g', h1, h2, _⟩ := C07_direct_memoBody hlr H hmiss
  ⟨g', h1, h2⟩

/-- the failing seed never stays in the cache: after a non-panic answer the cache holds that answer -/
theorem C07_seed_replaced (env : Env) (n : Nat) (r : Rule) (hlr : r.flags.leftRecursive = true)
    {s : St} {g : Global} (hmiss : g.lookup (r.name, s.off) = none) {k : Nat} {res : Res Val} {g' : Global}
    (h : memoBody r.flags r.name (ruleBody env (eval env n) r) k s g = some (res, g'))
    (hnp : ∀ m, res ≠ .panic m) : g'.lookup (r.name, s.off) = some res :=
  C07_cache_final env n r hlr hmiss h hnp

/-- non-vacuity: `@export @leftrec E = l:*E '+' r:Num | b:Num; @string Num = {'0'..'9'}+;` on "1+2+3"
    satisfies the hypotheses of `C07_direct` (m = 2) for the real rule body – see
    `LeftRecExample.direct` / `LeftRecExample.parse_123` in Proofs/LeftRec.lean -/
example : ∃ g', parseAdvanced LeftRecExample.envE 12 "E" LeftRecExample.inp 0 =
    some (.ok (LeftRecExample.extE 1 (LeftRecExample.extE 0 LeftRecExample.b0E)) (LeftRecExample.stE 2), g') :=
  LeftRecExample.parse_123

/-! ### the usual shape `A = l:*A xs… | base…`, from the syntax of the grammar (Proofs/LeftRecShape.lean)

  `LRS.LeftRecShape` is purely syntactic (closed by `rfl`/`decide` on a concrete grammar): `A` is `@leftrec`, its
  first alternative starts with the boxed field `l:*A` followed by `xs ≠ []`, the other alternatives `rest ≠ []`
  and `xs` only reach rules of a reference-closed set `R` without `@memoize`/`@leftrec` rules (so they cannot
  reach `A`), no `@check`/`@string` on `A`.  `LRS.Greedy` is the greedy iteration written in the reference
  semantics only: base match at `pos 0`, `m` strictly growing matches of `xs` from `pos i` to `pos (i+1)`, and
  the `(m+1)`-th attempt of `xs` fails or makes no progress.  `LRS.NoLeadWs`: the rule is not entered in front
  of skippable whitespace (see the finding below – this restriction is real). -/

/-- **"accepts exactly `b x*` (greedy) and returns the tree nested to the left"**: for every large enough fuel
    the parser returns `leftTree` = `ext (m-1) (… (ext 0 base))` and stops at `pos m`. -/
theorem C07_usual_shape {env : Env} {r : Rule} {A l : String} {xs rest : List Expr} {R : List String}
    {F : List FieldDesc} {fl : FieldDesc} {pos : Nat → St} {fs0 : Parsed} {fsx : Nat → Val → Parsed} {m : Nat}
    (H : LRS.LeftRecShape env r A l xs rest R F fl) (inp : List UInt8) (u : Nat)
    (hws : LRS.NoLeadWs env u r (St.new inp))
    (G : LRS.Greedy env u r A l xs rest F fl (St.new inp) pos fs0 fsx m) :
    ∃ (se : St) (N : Nat), Spec.clr se = pos m ∧ ∀ n, N ≤ n → ∃ g',
      parseAdvanced env n A inp u = some (.ok (LRS.leftTree r A (St.new inp) pos fs0 fsx m) se, g') :=
  LRS.shape_parse H inp u hws G

/-- each extension holds the previous result in its recursive field (`Some(Box(prev))` for the usual
    single-type optional field) -/
theorem C07_extension_holds_previous {env : Env} {u : Nat} {r : Rule} {A l : String} {xs rest : List Expr}
    {F : List FieldDesc} {fl : FieldDesc} {s : St} {pos : Nat → St} {fs0 : Parsed} {fsx : Nat → Val → Parsed} {m : Nat}
    (G : LRS.Greedy env u r A l xs rest F fl s pos fs0 fsx m) (hr : LRS.RecFieldOnly env F l A xs rest)
    (i : Nat) (hi : i < m) (v : Val) : (fsx i v).get l = some (LRS.recVal fl A v) :=
  LRS.Greedy.rec_field G hr i hi v

/-- non-vacuity: the hypotheses hold for `E = l:*E '+' r:Num | b:Num` on "1+2+3" and give the same answer as
    the direct computation -/
example : ∃ (se : St) (N : Nat), se.off = 5 ∧ se.rest = [] ∧ ∀ n, N ≤ n → ∃ g',
    parseAdvanced LeftRecExample.envE n "E" LeftRecExample.inp 0 =
      some (.ok (LeftRecExample.extE 1 (LeftRecExample.extE 0 LeftRecExample.b0E)) se, g') :=
  LRS.ShapeExample.parse_123_shape

/-- **`NoLeadWs` cannot be dropped (finding K4).**  With whitespace skipping on, `E = l:*E '+' r:Num | b:Num` on
    `" 1+2+3"` (one leading blank) returns only `E{b:"1"}` and stops after 2 bytes: the recursive reference is
    evaluated after the blank, at offset 1, where no seed is planted, so a nested complete parse of `1+2+3`
    happens there, the outer `'+'` then fails, and the base alternative wins.  (Model level here; the replay on
    the real generated parser is a known finding of the C07 check.) -/
example :
    (match parseAdvanced LeftRecExample.envE 60 "E" [32, 49, 43, 50, 43, 51] 0 with
     | some (.ok _ s, _) => s.off == 2
     | _ => false) = true := by decide

end Peg.Props
