import PegVerif.Proofs.LeftRec
import PegVerif.Proofs.LeftRecShape
import PegVerif.Proofs.RefineLR
import PegVerif.Proofs.NonVacuity
/-
  C07 – `@leftrec` rules terminate and build the left-nested tree of the longest growth.
  Model: `memoBody` (left_recursive branch) / `growLoop` in Eval.lean – the seed-and-grow loop of
  `generate_memoized_body` after fix F1.
-/
namespace Peg.Props
open Peg

/-- **Termination of the growth.** The grow loop of a `@leftrec` rule never needs more than
    (remaining input length + 2) iterations: every continuing iteration strictly extends the match
    and matches cannot extend beyond the input (proved for the real rule body, not assumed).
    Termination is relative to termination of the body evaluations themselves. -/
theorem C07_terminates (env : Env) (n : Nat) (r : Rule) (hlr : r.flags.leftRecursive = true)
    (inp : List UInt8) (u : Nat) {k : Nat} {x : Res Val × Global}
    (h : normalRule env (eval env n) k r (St.new inp) (Global.init u) = some x) :
    ∃ k0, k0 ≤ inp.length + 2 ∧
      ∀ k', k0 ≤ k' → normalRule env (eval env n) k' r (St.new inp) (Global.init u) = some x :=
  C07_terminates_top env n r hlr inp u h

/-- **Result = longest growth.** A successful answer of the loop (entered with the failing seed) is
    the last element of a chain of body results with strictly increasing end offsets. -/
theorem C07_longest_growth {body : St → Global → Out Val} {key : String × Nat} {s : St} {k : Nat}
    {e0 : PErr} {g : Global} {v : Val} {ns : St} {g' : Global}
    (h : growLoop body key s k (.err e0) g = some (.ok v ns, g')) :
    ∃ chain : List (Val × St), chain.getLast? = some (v, ns) ∧
      (∀ x ∈ chain, x.2.off ≤ ns.off) ∧ (∃ g0 g1, body s g0 = some (.ok v ns, g1)) :=
  growLoop_ok_is_longest h

/-- **The usual shape `A = A x | b`.**  If with a failing seed the body yields the base result `b0`,
    with seed `v_i` it yields the extension `ext i v_i` ending strictly further (for i < m), and with
    seed `v_m` it fails or does not get further, then the rule returns
    `ext (m-1) (… (ext 0 b0))` – the tree nested to the left, each extension holding the previous
    result – after exactly m+2 body evaluations, and that is what the cache holds. -/
theorem C07_direct {flags : RuleFlags} {name : String} {body : St → Global → Out Val} {s : St}
    {b0 : Val} {ext : Nat → Val → Val} {st : Nat → St} {m : Nat} (hlr : flags.leftRecursive = true)
    (H : DirectLeftRec body (name, s.off) s (s.reportError .leftRecursionSentinel) b0 ext st m)
    {g : Global} (hmiss : g.lookup (name, s.off) = none) :
    ∃ g', (∀ n, m + 2 ≤ n → memoBody flags name body n s g = some (.ok (nestL ext b0 m) (st m), g')) ∧
          (∀ n, n ≤ m + 1 → memoBody flags name body n s g = none) :=
  let ⟨g', h1, h2, _⟩ := C07_direct_memoBody hlr H hmiss
  ⟨g', h1, h2⟩

/-- the failing seed never stays in the cache: after a non-panic answer the cache holds that answer -/
theorem C07_seed_replaced (env : Env) (n : Nat) (r : Rule) (hlr : r.flags.leftRecursive = true)
    {s : St} {g : Global} (hmiss : g.lookup (r.name, s.off) = none) {k : Nat} {res : Res Val} {g' : Global}
    (h : memoBody r.flags r.name (ruleBody env (eval env n) r) k s g = some (res, g'))
    (hnp : ∀ m, res ≠ .panic m) : g'.lookup (r.name, s.off) = some res :=
  C07_cache_final env n r hlr hmiss h hnp

/-- non-vacuity: `@export @leftrec E = l:*E '+' r:Num | b:Num; @string Num = {'0'..'9'}+;` on "1+2+3"
    satisfies the hypotheses of `C07_direct` (m = 2) for the real rule body – see
    `LeftRecExample.direct` / `LeftRecExample.parse_123` in Proofs/LeftRec.lean -/
example : ∃ g', parseAdvanced LeftRecExample.envE 12 "E" LeftRecExample.inp 0 =
    some (.ok (LeftRecExample.extE 1 (LeftRecExample.extE 0 LeftRecExample.b0E)) (LeftRecExample.stE 2), g') :=
  LeftRecExample.parse_123

/-! ### the usual shape `A = l:*A xs… | base…`, from the syntax of the grammar (Proofs/LeftRecShape.lean)

  `LRS.LeftRecShape` is purely syntactic (closed by `rfl`/`decide` on a concrete grammar): `A` is `@leftrec`, its
  first alternative starts with the boxed field `l:*A` followed by `xs ≠ []`, the other alternatives `rest ≠ []`
  and `xs` only reach rules of a reference-closed set `R` without `@memoize`/`@leftrec` rules (so they cannot
  reach `A`), no `@check`/`@string` on `A`.  `LRS.Greedy` is the greedy iteration written in the reference
  semantics only: base match at `pos 0`, `m` strictly growing matches of `xs` from `pos i` to `pos (i+1)`, and
  the `(m+1)`-th attempt of `xs` fails or makes no progress.  `LRS.NoLeadWs`: the rule is not entered in front
  of skippable whitespace (see the finding below – this restriction is real). -/

/-- **"accepts exactly `b x*` (greedy) and returns the tree nested to the left"**: for every large enough fuel
    the parser returns `leftTree` = `ext (m-1) (… (ext 0 base))` and stops at `pos m`. -/
theorem C07_usual_shape {env : Env} {r : Rule} {A l : String} {xs rest : List Expr} {R : List String}
    {F : List FieldDesc} {fl : FieldDesc} {pos : Nat → St} {fs0 : Parsed} {fsx : Nat → Val → Parsed} {m : Nat}
    (H : LRS.LeftRecShape env r A l xs rest R F fl) (inp : List UInt8) (u : Nat)
    (hws : LRS.NoLeadWs env u r (St.new inp))
    (G : LRS.Greedy env u r A l xs rest F fl (St.new inp) pos fs0 fsx m) :
    ∃ (se : St) (N : Nat), Spec.clr se = pos m ∧ ∀ n, N ≤ n → ∃ g',
      parseAdvanced env n A inp u = some (.ok (LRS.leftTree r A (St.new inp) pos fs0 fsx m) se, g') :=
  LRS.shape_parse H inp u hws G

/-- each extension holds the previous result in its recursive field (`Some(Box(prev))` for the usual
    single-type optional field) -/
theorem C07_extension_holds_previous {env : Env} {u : Nat} {r : Rule} {A l : String} {xs rest : List Expr}
    {F : List FieldDesc} {fl : FieldDesc} {s : St} {pos : Nat → St} {fs0 : Parsed} {fsx : Nat → Val → Parsed} {m : Nat}
    (G : LRS.Greedy env u r A l xs rest F fl s pos fs0 fsx m) (hr : LRS.RecFieldOnly env F l A xs rest)
    (i : Nat) (hi : i < m) (v : Val) : (fsx i v).get l = some (LRS.recVal fl A v) :=
  LRS.Greedy.rec_field G hr i hi v

/-- non-vacuity: the hypotheses hold for `E = l:*E '+' r:Num | b:Num` on "1+2+3" and give the same answer as
    the direct computation -/
example : ∃ (se : St) (N : Nat), se.off = 5 ∧ se.rest = [] ∧ ∀ n, N ≤ n → ∃ g',
    parseAdvanced LeftRecExample.envE n "E" LeftRecExample.inp 0 =
      some (.ok (LeftRecExample.extE 1 (LeftRecExample.extE 0 LeftRecExample.b0E)) se, g') :=
  LRS.ShapeExample.parse_123_shape

/-- **`NoLeadWs` cannot be dropped (finding K4).**  With whitespace skipping on, `E = l:*E '+' r:Num | b:Num` on
    `" 1+2+3"` (one leading blank) returns only `E{b:"1"}` and stops after 2 bytes: the recursive reference is
    evaluated after the blank, at offset 1, where no seed is planted, so a nested complete parse of `1+2+3`
    happens there, the outer `'+'` then fails, and the base alternative wins.  (Model level here; the replay on
    the real generated parser is a known finding of the C07 check.) -/
example :
    (match parseAdvanced LeftRecExample.envE 60 "E" [32, 49, 43, 50, 43, 51] 0 with
     | some (.ok _ s, _) => s.off == 2
     | _ => false) = true := by decide

/-! ### the result *is* "the one obtained by growing a match" (SpecLR.lean, Proofs/RefineLR.lean)

  `SpecLR.eval` spells the sentence of the property out as a semantics: a `@leftrec` rule at offset `p` is
  answered by growing – seed := failure; evaluate the body with references to the rule at `p` standing for the
  seed; keep the result while it is a success strictly further than the seed; stop otherwise – with no cache and
  nothing remembered afterwards.  For every grammar of the class the property quantifies over (`LROk`: left
  recursion through `@leftrec` rules only, direct or indirect through non-memoized rules, no other memoized or
  left-recursive rule reachable inside the cycle before input is consumed) the generated parser computes exactly
  that – although it keeps finished results of `@leftrec` and `@memoize` rules in its cache for the rest of the
  parse. -/
theorem C07_result_is_the_growth (env : Env) (hp : PureHooks env.hooks) (hok : LROk env.g env.settings)
    {n : Nat} {rule : String} {inp : List UInt8} {u : Nat} {r g}
    (h : parseAdvanced env n rule inp u = some (r, g)) :
    ∃ m, SpecLR.parse env u m rule inp = some (Spec.abs r) :=
  eval_refLR env hp hok h

/-- the side condition is needed: with a second `@leftrec` rule inside the cycle the class check fails – and the
    model really answers differently from the growth semantics there (`LRExample.mutEnv` in RefineLR.lean) -/
example : ¬ LROk LRExample.mutEnv.g LRExample.mutEnv.settings := by decide

/-! ## non-vacuity (BEGIN) -/
namespace C07_nv
open Peg.NV Peg.LeftRecExample

/-! instance: `LeftRecExample.envE` = `@export @leftrec E = l:*E '+' r:Num | b:Num; @string Num = {'0'..'9'}+;`
    on `"1+2+3"` (two growth steps); `parseAdvanced envE 12 "E"` is `normalRule envE (eval envE 11) 11 ruleE …` -/

def body : St → Global → Out Val := ruleBody envE (eval envE 11) ruleE

/-- `C07_terminates`: the premise holds with loop fuel 11, the conclusion bounds the needed loop fuel by 5 + 2 -/
theorem top_some : (normalRule envE (eval envE 11) 11 ruleE (St.new inp) (Global.init 0)).isSome = true := by decide
example : ∃ k0, k0 ≤ inp.length + 2 ∧ ∀ k', k0 ≤ k' →
    normalRule envE (eval envE 11) k' ruleE (St.new inp) (Global.init 0) =
      some ((normalRule envE (eval envE 11) 11 ruleE (St.new inp) (Global.init 0)).get top_some) :=
  C07_terminates envE 11 ruleE rfl inp 0 (Option.some_get top_some).symm
/-- the loop really iterated: four body evaluations (seed, two growth steps, the failing last one) -/
example : (match normalRule envE (eval envE 11) 11 ruleE (St.new inp) (Global.init 0) with
    | some (.ok _ s, g) => s.off == 5 && bodyEvals g.log "E" 0 == 4
    | _ => false) = true := by decide

/-- `C07_longest_growth`: the grow loop entered with the failing seed -/
def e0 : PErr := s0.reportError .leftRecursionSentinel
def gSeed : Global := (Global.init 0).insert ("E", 0) (.err e0)
example : ∃ v ns g', growLoop body ("E", 0) s0 11 (.err e0) gSeed = some (.ok v ns, g') ∧ ns.off = 5 ∧
    ∃ chain : List (Val × St), chain.getLast? = some (v, ns) ∧ (∀ x ∈ chain, x.2.off ≤ ns.off) ∧
      (∃ g0 g1, body s0 g0 = some (.ok v ns, g1)) := by
  obtain ⟨v, ns, g', h, hp⟩ := ok_of (o := growLoop body ("E", 0) s0 11 (.err e0) gSeed) (fun _ s _ => s.off == 5) (by decide)
  exact ⟨v, ns, g', h, by simpa using hp, C07_longest_growth h⟩

/-- `C07_direct`: its semantic hypothesis is `LeftRecExample.direct` (the real body, m = 2); the cache miss holds for
    the fresh global -/
example : ∃ g', (∀ n, 2 + 2 ≤ n → memoBody ruleE.flags "E" body n s0 (Global.init 0) =
      some (.ok (nestL extE b0E 2) (stE 2), g')) ∧
    (∀ n, n ≤ 2 + 1 → memoBody ruleE.flags "E" body n s0 (Global.init 0) = none) :=
  C07_direct (flags := ruleE.flags) (name := "E") rfl direct rfl
example : (nestL extE b0E 2).render =
    "E { l: Some(E { l: Some(E { l: None, r: None, b: Some(S\"31\") }), r: Some(S\"32\"), b: None }), r: Some(S\"33\"), b: None }" ∧
    (stE 2).off = 5 := by decide

/-- `C07_seed_replaced` on a success (`"1+2+3"`) and on a failure (`"+"`): the cache ends with the answer, not the seed -/
example : ∃ v s g', memoBody ruleE.flags ruleE.name body 11 s0 (Global.init 0) = some (.ok v s, g') ∧
    g'.lookup ("E", 0) = some (.ok v s) := by
  obtain ⟨v, s, g', h, -⟩ := ok_of (o := memoBody ruleE.flags ruleE.name body 11 s0 (Global.init 0)) (fun _ s _ => s.off == 5)
    (by decide)
  exact ⟨v, s, g', h, C07_seed_replaced envE 11 ruleE rfl (s := s0) rfl h (fun m hm => by cases hm)⟩
example : ∃ e g', memoBody ruleE.flags ruleE.name body 11 (St.new [43]) (Global.init 0) = some (.err e, g') ∧
    e.spec ≠ .leftRecursionSentinel ∧ g'.lookup ("E", 0) = some (.err e) := by
  obtain ⟨e, g', h, hp⟩ := err_of (o := memoBody ruleE.flags ruleE.name body 11 (St.new [43]) (Global.init 0))
    (fun e _ => e.spec != .leftRecursionSentinel) (by decide)
  exact ⟨e, g', h, by simpa using hp, C07_seed_replaced envE 11 ruleE rfl (s := St.new [43]) rfl h (fun m hm => by cases hm)⟩

/-! `C07_usual_shape` / `C07_extension_holds_previous`: the syntactic and semantic hypotheses are
    `LRS.ShapeExample.shapeE`, `noLeadWsE`, `greedyE`, `recFieldOnlyE` (the `E` grammar on `"1+2+3"`) and
    `LRS.ShapeExample2.shapeA`, `noLeadWsA`, `greedyA` (a `@position` rule, a grammar-defined `Whitespace`, input
    `"y x x"` with whitespace between the tokens) -/
open LRS in
example : ∃ (se : St) (N : Nat), Spec.clr se = ShapeExample.posE 2 ∧ ∀ n, N ≤ n → ∃ g',
    parseAdvanced envE n "E" inp 0 =
      some (.ok (leftTree ruleE "E" (St.new inp) ShapeExample.posE ShapeExample.fs0E ShapeExample.fsxE 2) se, g') :=
  C07_usual_shape ShapeExample.shapeE inp 0 ShapeExample.noLeadWsE ShapeExample.greedyE
open LRS in
example (v : Val) : (ShapeExample.fsxE 1 v).get "l" = some (recVal ShapeExample.flE "E" v) :=
  C07_extension_holds_previous ShapeExample.greedyE ShapeExample.recFieldOnlyE 1 (by decide) v
open LRS ShapeExample2 in
example : ∃ (se : St) (N : Nat), Spec.clr se = posA 2 ∧ ∀ n, N ≤ n → ∃ g',
    parseAdvanced envA n "A" inpA 0 = some (.ok (leftTree ruleA "A" (St.new inpA) posA fs0A fsxA 2) se, g') :=
  C07_usual_shape shapeA inpA 0 noLeadWsA greedyA
open LRS ShapeExample2 in
example : (leftTree ruleA "A" (St.new inpA) posA fs0A fsxA 2).render =
    "A { l: Some(A { l: Some(A { l: None, x: None, y: Some(Y), position: 0..1 }), x: Some(X), y: None, position: 0..3 }), x: Some(X), y: None, position: 0..5 }" := by
  decide +kernel

end C07_nv
/-! ## non-vacuity (END) -/

end Peg.Props
