import PegVerif.Proofs.Packrat
/-
  C06 – a memoized rule body runs at most once per input position (packrat bound).
  The ghost event `bodyEval name off` is emitted by the model of `generate_memoized_body` right
  before a memoized body is evaluated (cache miss); `evals log k` counts those events for a key.
  Model after fix F1 (failures are cached too).
-/
namespace Peg.Props
open Peg

/-- **At most once per position.** In one parse, for every (rule, offset): the body of a memoized
    rule is evaluated at most once – whether that evaluation succeeded or failed. -/
theorem C06_once {env : Env} (hp : PureHooks env.hooks) (hnl : NoLeftrec env.g)
    {n : Nat} {rule : String} {inp : List UInt8} {u : Nat} {r : Res Val} {g' : Global}
    (h : parseAdvanced env n rule inp u = some (r, g')) (k : String × Nat) : evals g'.log k ≤ 1 :=
  C06_parse_once_pure hp hnl h k

/-- **The bound**: at most (number of memoized rules) × (input length + 1) body evaluations -/
theorem C06_bound {env : Env} (hp : PureHooks env.hooks) (hnl : NoLeftrec env.g)
    {n : Nat} {rule : String} {inp : List UInt8} {u : Nat} {r : Res Val} {g' : Global}
    (h : parseAdvanced env n rule inp u = some (r, g')) :
    (bodyKeys g'.log).length ≤ (memoNames env.g).length * (inp.length + 1) :=
  C06_bound_pure hp hnl h

/-- whatever a memoized rule returns – success or failure – is in the cache afterwards -/
theorem C06_result_is_cached {env : Env} (hnl : NoLeftrec env.g) {n : Nat} {name : String} {s : St} {g g' : Global}
    {r : Res Val} {r0 : Rule} (h : (eval env n).rule name s g = some (r, g')) (hp : ∀ m, r ≠ .panic m)
    (hf : env.g.find name = some (.rule r0)) (hm : r0.flags.memoize = true) :
    g'.lookup (name, s.off) = some r :=
  C06_evaluated_cached hnl h hp hf hm

/-- every further attempt at that position is answered from the cache: no body evaluation, the
    cached entry is returned as is -/
theorem C06_answered_from_cache {env : Env} (hnl : NoLeftrec env.g) {n : Nat} {name : String} {s : St} {g g' : Global}
    {r c : Res Val} {r0 : Rule} (h : (eval env n).rule name s g = some (r, g'))
    (hf : env.g.find name = some (.rule r0)) (hm : r0.flags.memoize = true)
    (hc : g.lookup (name, s.off) = some c) :
    r = c ∧ ∀ l, g'.log = l ++ g.log → ∀ k, evals l k = 0 :=
  C06_hit_returns_entry hnl h hf hm hc

/-- two successive evaluations: what the first evaluated to completion the second never evaluates again
    (no hypothesis on user functions) -/
theorem C06_no_reevaluation {env : Env} (hnl : NoLeftrec env.g) {g g1 g2 : Global} {b : Bool}
    (h1 : Run env g false g1) (h2 : Run env g1 b g2) {l1 l2 : List Ev}
    (hl1 : g1.log = l1 ++ g.log) (hl2 : g2.log = l2 ++ g1.log) {k : String × Nat}
    (hk : 0 < evals l1 k) : evals l2 k = 0 :=
  Peg.C06_no_reevaluation hnl h1 h2 hl1 hl2 hk

end Peg.Props
