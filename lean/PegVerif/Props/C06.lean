import PegVerif.Proofs.Packrat
import PegVerif.Proofs.PackratLR
import PegVerif.Proofs.PackratLRPure
import PegVerif.Proofs.NonVacuity
/-
  C06 – a memoized rule body runs at most once per input position (packrat bound).
  The ghost event `bodyEval name off` is emitted by the model of `generate_memoized_body` right
  before a memoized body is evaluated (cache miss); `evals log k` counts those events for a key.
  Model after fix F1 (failures are cached too).
-/
namespace Peg.Props
open Peg

/-- **At most once per position.** In one parse, for every (rule, offset): the body of a memoized
    rule is evaluated at most once – whether that evaluation succeeded or failed. -/
theorem C06_once {env : Env} (hp : PureHooks env.hooks) (hnl : NoLeftrec env.g)
    {n : Nat} {rule : String} {inp : List UInt8} {u : Nat} {r : Res Val} {g' : Global}
    (h : parseAdvanced env n rule inp u = some (r, g')) (k : String × Nat) : evals g'.log k ≤ 1 :=
  C06_parse_once_pure hp hnl h k

/-- **The bound**: at most (number of memoized rules) × (input length + 1) body evaluations -/
theorem C06_bound {env : Env} (hp : PureHooks env.hooks) (hnl : NoLeftrec env.g)
    {n : Nat} {rule : String} {inp : List UInt8} {u : Nat} {r : Res Val} {g' : Global}
    (h : parseAdvanced env n rule inp u = some (r, g')) :
    (bodyKeys g'.log).length ≤ (memoNames env.g).length * (inp.length + 1) :=
  C06_bound_pure hp hnl h

/-- whatever a memoized rule returns – success or failure – is in the cache afterwards -/
theorem C06_result_is_cached {env : Env} (hnl : NoLeftrec env.g) {n : Nat} {name : String} {s : St} {g g' : Global}
    {r : Res Val} {r0 : Rule} (h : (eval env n).rule name s g = some (r, g')) (hp : ∀ m, r ≠ .panic m)
    (hf : env.g.find name = some (.rule r0)) (hm : r0.flags.memoize = true) :
    g'.lookup (name, s.off) = some r :=
  C06_evaluated_cached hnl h hp hf hm

/-- every further attempt at that position is answered from the cache: no body evaluation, the
    cached entry is returned as is -/
theorem C06_answered_from_cache {env : Env} (hnl : NoLeftrec env.g) {n : Nat} {name : String} {s : St} {g g' : Global}
    {r c : Res Val} {r0 : Rule} (h : (eval env n).rule name s g = some (r, g'))
    (hf : env.g.find name = some (.rule r0)) (hm : r0.flags.memoize = true)
    (hc : g.lookup (name, s.off) = some c) :
    r = c ∧ ∀ l, g'.log = l ++ g.log → ∀ k, evals l k = 0 :=
  C06_hit_returns_entry hnl h hf hm hc

/-- two successive evaluations: what the first evaluated to completion the second never evaluates again
    (no hypothesis on user functions) -/
theorem C06_no_reevaluation {env : Env} (hnl : NoLeftrec env.g) {g g1 g2 : Global} {b : Bool}
    (h1 : Run env g false g1) (h2 : Run env g1 b g2) {l1 l2 : List Ev}
    (hl1 : g1.log = l1 ++ g.log) (hl2 : g2.log = l2 ++ g1.log) {k : String × Nat}
    (hk : 0 < evals l1 k) : evals l2 k = 0 :=
  Peg.C06_no_reevaluation hnl h1 h2 hl1 hl2 hk

/-! ## non-vacuity (BEGIN) -/
namespace C06_nv
open Peg.NV

/-! instance: `NV.envH [.memoize]` = `@export S = a:Num '+' b:Num | a:Num '-' b:Num | w:Word; @string @memoize Num = …`
    on `"1-2"`: `Num` is attempted twice at offset 0 (first and second alternative) and once at offset 2 -/
def envM : Env := envH [.memoize]
theorem hp : PureHooks envM.hooks := pure_default
theorem hnl : NoLeftrec envM.g := noLeftrec_of (by decide)
theorem hf : envM.g.find "Num" = some (.rule (ruleNum [.memoize])) := rfl
theorem hm : (ruleNum [.memoize]).flags.memoize = true := rfl

theorem run_some : (parseAdvanced envM 20 "S" inpH 0).isSome = true := by decide
def gEnd : Global := ((parseAdvanced envM 20 "S" inpH 0).get run_some).2

/-- `C06_once` / `C06_bound` instantiated … -/
example : evals gEnd.log ("Num", 0) ≤ 1 := C06_once hp hnl (run_eq run_some) ("Num", 0)
example : (bodyKeys gEnd.log).length ≤ (memoNames envM.g).length * (inpH.length + 1) := C06_bound hp hnl (run_eq run_some)
/-- … and what happened: two attempts at `("Num", 0)` – one body evaluation and one cache hit; two keys evaluated out
    of the 1 × 4 the bound allows -/
example : evals gEnd.log ("Num", 0) = 1 ∧ hits gEnd.log = 1 ∧ bodyKeys gEnd.log = [("Num", 2), ("Num", 0)] ∧
    memoNames envM.g = ["Num"] := by decide

/-- `C06_result_is_cached`, a success (`Num` at offset 0) and a failure (`Num` at offset 1, in front of `-`) -/
example : ∃ v s' g', (eval envM 20).rule "Num" (St.new inpH) (Global.init 0) = some (.ok v s', g') ∧
    g'.lookup ("Num", 0) = some (.ok v s') := by
  obtain ⟨v, s', g', h, -⟩ := ok_of (o := (eval envM 20).rule "Num" (St.new inpH) (Global.init 0)) (fun _ s _ => s.off == 1)
    (by decide)
  exact ⟨v, s', g', h, C06_result_is_cached hnl h (fun m hm => by cases hm) hf hm⟩
def sMinus : St := ⟨[45, 50], 1, none⟩
example : ∃ e g', (eval envM 20).rule "Num" sMinus (Global.init 0) = some (.err e, g') ∧
    g'.lookup ("Num", 1) = some (.err e) := by
  obtain ⟨e, g', h, -⟩ := err_of (o := (eval envM 20).rule "Num" sMinus (Global.init 0)) (fun e _ => e.pos == 1) (by decide)
  exact ⟨e, g', h, C06_result_is_cached hnl h (fun m hm => by cases hm) hf hm⟩

/-! two successive evaluations: `Num` at offset 0 from the fresh global, then the whole of `S` from the global the first
    one left (`C06_answered_from_cache`, `C06_no_reevaluation`) -/
theorem first_some : ((eval envM 20).rule "Num" (St.new inpH) (Global.init 0)).isSome = true := by decide
def g1 : Global := (((eval envM 20).rule "Num" (St.new inpH) (Global.init 0)).get first_some).2
theorem g1_hit : (g1.lookup ("Num", 0)).isSome = true := by decide

theorem again_some : ((eval envM 20).rule "Num" (St.new inpH) g1).isSome = true := by decide
example : (((eval envM 20).rule "Num" (St.new inpH) g1).get again_some).1 = (g1.lookup ("Num", 0)).get g1_hit ∧
    ∀ l, (((eval envM 20).rule "Num" (St.new inpH) g1).get again_some).2.log = l ++ g1.log → ∀ k, evals l k = 0 :=
  C06_answered_from_cache hnl (run_eq again_some) hf hm (Option.some_get g1_hit).symm

theorem second_some : ((eval envM 20).rule "S" (St.new inpH) g1).isSome = true := by decide
def g2 : Global := (((eval envM 20).rule "S" (St.new inpH) g1).get second_some).2
theorem run1 : Run envM (Global.init 0) false g1 := by
  have h := Run.rule (env := envM) (run_eq first_some)
  have hb : (((eval envM 20).rule "Num" (St.new inpH) (Global.init 0)).get first_some).1.isPanic = false := by decide
  rw [hb] at h; exact h
example : ∀ l2, g2.log = l2 ++ g1.log → evals l2 ("Num", 0) = 0 := fun l2 hl2 =>
  C06_no_reevaluation hnl run1 (Run.rule (run_eq second_some)) (l1 := g1.log) (by simp [Global.init]) hl2
    (by decide)
/-- the second evaluation did happen, used the entry twice and evaluated only the new key `("Num", 2)` -/
example : hits g2.log = 2 ∧ evals g2.log ("Num", 0) = 1 ∧ evals g2.log ("Num", 2) = 1 ∧ evals g1.log ("Num", 0) = 1 := by
  decide

end C06_nv
/-! ## non-vacuity (END) -/

end Peg.Props

/-
  C06 – a memoized rule body runs at most once per input position (packrat bound) – for grammars that
  may contain `@leftrec` rules.  The statements of Props/C06.lean with `NoLeftrec env.g` replaced by the
  weakest hypothesis each of them needs:

  * the cache discipline (`C06_result_is_cached`, `C06_answered_from_cache`, `C06_no_reevaluation`): NO
    hypothesis on the grammar; the key / rule in question must not itself be `@leftrec`
    (`PLR.IsLR env k.1` false – for a `@leftrec` key the grow loop evaluates the body once per iteration
    and re-inserts the key, by design);
  * the counting forms (`C06_once`, `C06_bound`): pure user functions and the grammar in the class `LROk`
    (SpecLR.lean).  `PLR.ExampleBad` (PackratLR.lean) is a grammar outside the class, with pure hooks,
    in which a memoized rule on a left-recursive cycle is evaluated twice at one offset.

  They hold wherever the memoized rule is called from – in particular from inside a grow loop, where
  the same memoized rule is called at the same offset in every iteration and answered from the cache
  from the second iteration on (`PLR.Example`: `@leftrec E = l:*E '+' r:Num | b:Num`, `@memoize Num`).
-/
namespace Peg.Props.LR
open Peg PLR

/-- **At most once per position.** -/
theorem C06_once {env : Env} (hp : PureHooks env.hooks) (hok : LROk env.g env.settings)
    {n : Nat} {rule : String} {inp : List UInt8} {u : Nat} {r : Res Val} {g' : Global}
    (h : parseAdvanced env n rule inp u = some (r, g')) (k : String × Nat) (hk : ¬ IsLR env k.1) :
    evals g'.log k ≤ 1 :=
  C06_parse_once_pureLR hp hok h k hk

/-- **The bound**: at most (number of memoized non-`@leftrec` rules) × (input length + 1) body
    evaluations of such rules -/
theorem C06_bound {env : Env} (hp : PureHooks env.hooks) (hok : LROk env.g env.settings)
    {n : Nat} {rule : String} {inp : List UInt8} {u : Nat} {r : Res Val} {g' : Global}
    (h : parseAdvanced env n rule inp u = some (r, g')) :
    (bodyKeysM env g'.log).length ≤ (memoNamesM env.g).length * (inp.length + 1) :=
  C06_bound_pureLR hp hok h

/-- whatever a memoized rule returns – success or failure – is in the cache afterwards -/
theorem C06_result_is_cached {env : Env} {n : Nat} {name : String} {s : St} {g g' : Global}
    {r : Res Val} {r0 : Rule} (h : (eval env n).rule name s g = some (r, g')) (hp : ∀ m, r ≠ .panic m)
    (hf : env.g.find name = some (.rule r0)) (hm : r0.flags.memoize = true)
    (hlr : r0.flags.leftRecursive = false) :
    g'.lookup (name, s.off) = some r :=
  PLR.C06_evaluated_cached h hp hf hm hlr

/-- every further attempt at that position is answered from the cache: no body evaluation, the
    cached entry is returned as is -/
theorem C06_answered_from_cache {env : Env} {n : Nat} {name : String} {s : St} {g g' : Global}
    {r c : Res Val} {r0 : Rule} (h : (eval env n).rule name s g = some (r, g'))
    (hf : env.g.find name = some (.rule r0)) (hm : r0.flags.memoize = true)
    (hlr : r0.flags.leftRecursive = false)
    (hc : g.lookup (name, s.off) = some c) :
    r = c ∧ ∀ l, g'.log = l ++ g.log → ∀ k, evals l k = 0 :=
  PLR.C06_hit_returns_entry h hf hm hlr hc

/-- two successive evaluations: what the first evaluated to completion the second never evaluates
    again (no hypothesis on user functions, none on the grammar) -/
theorem C06_no_reevaluation {env : Env} {g g1 g2 : Global} {b : Bool}
    (h1 : Run env g false g1) (h2 : Run env g1 b g2) {l1 l2 : List Ev}
    (hl1 : g1.log = l1 ++ g.log) (hl2 : g2.log = l2 ++ g1.log) {k : String × Nat}
    (hn : ¬ IsLR env k.1) (hk : 0 < evals l1 k) : evals l2 k = 0 :=
  PLR.C06_no_reevaluation h1 h2 hl1 hl2 hn hk

/-- for grammars without `@leftrec` rules these are the statements of Props/C06.lean (every key) -/
theorem C06_once_noLeftrec {env : Env} (hp : PureHooks env.hooks) (hok : LROk env.g env.settings)
    (hnl : NoLeftrec env.g)
    {n : Nat} {rule : String} {inp : List UInt8} {u : Nat} {r : Res Val} {g' : Global}
    (h : parseAdvanced env n rule inp u = some (r, g')) (k : String × Nat) : evals g'.log k ≤ 1 :=
  C06_parse_once_pureLR_noLeftrec hp hok hnl h k

end Peg.Props.LR
