import PegVerif.Proofs.Schedule
import PegVerif.Proofs.SharedState
/-
  C20 – parsing is a pure function of grammar and input, also across threads.
  In the model `parse_advanced` builds its global object (cache, tracer) from `Global.init` per call –
  transcribed from codegen/src/grammar/mod.rs.  That the real generated code and runtime have no
  other state is (a) a scan of the Rust sources re-extracted on every run (`no_shared_state`), and
  (b) the history / 16-thread re-execution runs of the check (tests of real interleavings).
-/
namespace Peg.Props
open Peg

/-- a call's result does not depend on the calls before it -/
theorem C20_history (env : Env) (fuel : Nat) (pre post : List Call) (c : Call) :
    (procRun env fuel none (pre ++ c :: post))[pre.length]? = some (parseAdvanced env fuel c.1 c.2.1 c.2.2) :=
  C20_history_at env fuel pre post c

/-- parsing the same input again, after any other inputs, returns the same result -/
theorem C20_again (env : Env) (fuel : Nat) (pre mid post : List Call) (c : Call) :
    (procRun env fuel none (pre ++ c :: (mid ++ c :: post)))[pre.length]? =
    (procRun env fuel none (pre ++ c :: (mid ++ c :: post)))[pre.length + 1 + mid.length]? :=
  C20_history_again env fuel pre mid post c

/-- every interleaving of the threads' calls gives every thread the results of its own sequential run -/
theorem C20_schedule (env : Env) (fuel : Nat) (progs : Nat → List Call) (is is' : List Nat)
    (h : Complete progs is) (h' : Complete progs is') (i : Nat) :
    proj i (runSchedule (parserStep env fuel) (fun _ => []) progs is).2 =
      (progs i).map (fun c => parseAdvanced env fuel c.1 c.2.1 c.2.2) ∧
    proj i (runSchedule (parserStep env fuel) (fun _ => []) progs is).2 =
      proj i (runSchedule (parserStep env fuel) (fun _ => []) progs is').2 :=
  Peg.C20_schedule env fuel progs is is' h h' i

/-- why the per-call cache matters: a cache kept across calls gives wrong results (concrete witness) -/
theorem C20_per_call_cache_is_necessary :
    ∃ (env : Env) (fuel : Nat) (rule : String) (inp1 inp2 : List UInt8) (r1 : Res Val) (g1 : Global),
      parseAdvanced env fuel rule inp1 0 = some (r1, g1) ∧
      (eval env fuel).rule rule (St.new inp2) { g1 with log := [] } ≠ parseAdvanced env fuel rule inp2 0 :=
  C20_fresh_cache_needed

/-- the runtime and the code templates define no statics, thread-locals or interior-mutable globals;
    the only `unsafe` is `ParseState::advance` and its call sites (scan re-extracted on every run) -/
theorem C20_no_shared_state : Extracted.sharedState.all isKnownUnsafeAdvance = true := no_shared_state
theorem C20_templates_have_no_unsafe :
    Extracted.sharedState.all (fun s => !hasPrefix s "codegen/src") = true ∧
    Extracted.sharedState.all (fun s => !hasSub s "codegen/") = true := codegen_has_no_unsafe

end Peg.Props
