import PegVerif.Proofs.Schedule
import PegVerif.Proofs.SharedState
/-
  C20 – parsing is a pure function of grammar and input, also across threads.
  In the model `parse_advanced` builds its global object (cache, tracer) from `Global.init` per call –
  transcribed from codegen/src/grammar/mod.rs.  That the real generated code and runtime have no
  other state is (a) a scan of the Rust sources re-extracted on every run (`no_shared_state`), and
  (b) the history / 16-thread re-execution runs of the check (tests of real interleavings).
-/
namespace Peg.Props
open Peg

/-- a call's result does not depend on the calls before it -/
theorem C20_history (env : Env) (fuel : Nat) (pre post : List Call) (c : Call) :
    (procRun env fuel none (pre ++ c :: post))[pre.length]? = some (parseAdvanced env fuel c.1 c.2.1 c.2.2) :=
  C20_history_at env fuel pre post c

/-- parsing the same input again, after any other inputs, returns the same result -/
theorem C20_again (env : Env) (fuel : Nat) (pre mid post : List Call) (c : Call) :
    (procRun env fuel none (pre ++ c :: (mid ++ c :: post)))[pre.length]? =
    (procRun env fuel none (pre ++ c :: (mid ++ c :: post)))[pre.length + 1 + mid.length]? :=
  C20_history_again env fuel pre mid post c

/-- every interleaving of the threads' calls gives every thread the results of its own sequential run -/
theorem C20_schedule (env : Env) (fuel : Nat) (progs : Nat → List Call) (is is' : List Nat)
    (h : Complete progs is) (h' : Complete progs is') (i : Nat) :
    proj i (runSchedule (parserStep env fuel) (fun _ => []) progs is).2 =
      (progs i).map (fun c => parseAdvanced env fuel c.1 c.2.1 c.2.2) ∧
    proj i (runSchedule (parserStep env fuel) (fun _ => []) progs is).2 =
      proj i (runSchedule (parserStep env fuel) (fun _ => []) progs is').2 :=
  Peg.C20_schedule env fuel progs is is' h h' i

/-- why the per-call cache matters: a cache kept across calls gives wrong results (concrete witness) -/
theorem C20_per_call_cache_is_necessary :
    ∃ (env : Env) (fuel : Nat) (rule : String) (inp1 inp2 : List UInt8) (r1 : Res Val) (g1 : Global),
      parseAdvanced env fuel rule inp1 0 = some (r1, g1) ∧
      (eval env fuel).rule rule (St.new inp2) { g1 with log := [] } ≠ parseAdvanced env fuel rule inp2 0 :=
  C20_fresh_cache_needed

/-- the runtime and the code templates define no statics, thread-locals or interior-mutable globals;
    the only `unsafe` is `ParseState::advance` and its call sites (scan re-extracted on every run) -/
theorem C20_no_shared_state : Extracted.sharedState.all isKnownUnsafeAdvance = true := no_shared_state
theorem C20_templates_have_no_unsafe :
    Extracted.sharedState.all (fun s => !hasPrefix s "codegen/src") = true ∧
    Extracted.sharedState.all (fun s => !hasSub s "codegen/") = true := codegen_has_no_unsafe

/-! ## non-vacuity (BEGIN) -/
namespace C20_nv
open CacheDemo

/-! instance: `CacheDemo.env` = `@export S = a:A; @memoize @string A = 'x' | 'y';` (a grammar WITH a cache, so the
    statements are not about a stateless parser); the history `"x"`, `"y"`, `"x"`, `"z"` -/
def cx : Call := ("S", [120], 0)
def cy : Call := ("S", [121], 0)
def cz : Call := ("S", [122], 0)

/-- what one call returns: the byte of field `a`, or `none` for a failed parse -/
def obs : Out Val → Option (Option UInt8)
  | some (.ok (.node "S" [("a", .str [b])] none) _, _) => some (some b)
  | some (.err _, _) => some none
  | _ => none

/-- `C20_history`: the third call of the history `x y x z` returns what a lone call on `"x"` returns … -/
example : (procRun env 16 none ([cx, cy] ++ cx :: [cz]))[2]? = some (parseAdvanced env 16 "S" [120] 0) :=
  C20_history env 16 [cx, cy] [cz] cx
/-- … and the whole history, observed: `x`, `y`, `x` again (not the stale `y`), then a failure -/
example : (procRun env 16 none [cx, cy, cx, cz]).map obs = [some (some 120), some (some 121), some (some 120), some none] := by
  decide +kernel
/-- each of these calls filled a cache (which the next call does not see) -/
example : (procRun env 16 none [cx, cy, cx, cz]).map (fun o => o.map (·.2.cache.length)) = [some 1, some 1, some 1, some 1] := by
  decide +kernel

/-- `C20_again`: positions 0 and 2 of the history `x y x z` (`pre = []`, `mid = [y]`) -/
example : (procRun env 16 none ([] ++ cx :: ([cy] ++ cx :: [cz])))[0]? =
    (procRun env 16 none ([] ++ cx :: ([cy] ++ cx :: [cz])))[0 + 1 + 1]? :=
  C20_again env 16 [] [cy] [cz] cx

/-! `C20_schedule`: two threads (`demoProgs`: thread 0 parses `"x"` then `"y"`, thread 1 parses `"z"`), two different
    complete schedules -/
theorem complete1 : Complete demoProgs [0, 1, 0] := fun i =>
  match i with
  | 0 => by decide
  | 1 => by decide
  | _+2 => attach_untouched _ _ _ rfl
theorem complete2 : Complete demoProgs [1, 0, 0, 1] := fun i =>
  match i with
  | 0 => by decide
  | 1 => by decide
  | _+2 => attach_untouched _ _ _ rfl
/-- an incomplete schedule exists too (thread 0 still has a call to make): `Complete` is a real condition -/
example : ¬ Complete demoProgs [0, 1] := fun h => absurd (h 0) (by decide)

example : proj 0 (runSchedule (parserStep env 16) (fun _ => []) demoProgs [0, 1, 0]).2 =
      (demoProgs 0).map (fun c => parseAdvanced env 16 c.1 c.2.1 c.2.2) ∧
    proj 0 (runSchedule (parserStep env 16) (fun _ => []) demoProgs [0, 1, 0]).2 =
      proj 0 (runSchedule (parserStep env 16) (fun _ => []) demoProgs [1, 0, 0, 1]).2 :=
  C20_schedule env 16 demoProgs [0, 1, 0] [1, 0, 0, 1] complete1 complete2 0
/-- the interleaved global result sequences differ, the per-thread views do not -/
example : (runSchedule (parserStep env 16) (fun _ => []) demoProgs [0, 1, 0]).2.map (fun p => (p.1, obs p.2)) =
      [(0, some (some 120)), (1, some none), (0, some (some 121))] ∧
    (runSchedule (parserStep env 16) (fun _ => []) demoProgs [1, 0, 0, 1]).2.map (fun p => (p.1, obs p.2)) =
      [(1, some none), (0, some (some 120)), (0, some (some 121))] := by decide +kernel

end C20_nv
/-! ## non-vacuity (END) -/

end Peg.Props
