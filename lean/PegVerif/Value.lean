/-
  Dynamic value domain for the trees generated parsers return, and the canonical rendering used
  by the correspondence check (same shape as Rust's `{:?}`, strings and chars hex-encoded).
-/
namespace Peg

inductive Val where
  | unit                                           -- `()`
  | chr (c : Char)                                 -- `char`
  | str (bytes : List UInt8)                       -- `String`
  | node (name : String) (fields : List (String × Val)) (pos : Option (Nat × Nat))
                                                   -- struct / unit struct, `position` range
  | variant (ctor : String) (v : Val)              -- enum variant `Ctor(v)`
  | boxed (v : Val)                                -- `Box<T>` (invisible in Debug)
  | some (v : Val)                                 -- `Some(v)`
  | none                                           -- `None`
  | list (vs : List Val)                           -- `Vec`
  | ext (kind : String) (n : Nat)                  -- value produced by a user extern function
deriving Repr, Inhabited

def hexDigit (n : Nat) : Char :=
  if n < 10 then Char.ofNat (48 + n) else Char.ofNat (87 + n)

def hexByte (b : UInt8) : String :=
  String.ofList [hexDigit (b.toNat / 16), hexDigit (b.toNat % 16)]

def hexBytes (bs : List UInt8) : String := String.join (bs.map hexByte)

def hexNat (n : Nat) : String := String.ofList (Nat.toDigits 16 n)

mutual
/-- canonical rendering: Rust's compact Debug with `S"<hex of utf-8>"` for strings and
    `C'<hex code point>'` for chars -/
def Val.render : Val → String
  | .unit => "()"
  | .chr c => "C'" ++ hexNat c.toNat ++ "'"
  | .str bs => "S\"" ++ hexBytes bs ++ "\""
  | .node n [] none => n
  | .node n fs pos =>
    n ++ " { " ++ renderFields fs ++
      (match pos with
       | some (a, b) => (if fs.isEmpty then "" else ", ") ++ "position: " ++ toString a ++ ".." ++ toString b
       | none => "") ++ " }"
  | .variant c v => c ++ "(" ++ v.render ++ ")"
  | .boxed v => v.render
  | .some v => "Some(" ++ v.render ++ ")"
  | .none => "None"
  | .list vs => "[" ++ renderList vs ++ "]"
  | .ext k n => k ++ "(" ++ toString n ++ ")"
def renderFields : List (String × Val) → String
  | [] => ""
  | [(n, v)] => n ++ ": " ++ v.render
  | (n, v) :: fs => n ++ ": " ++ v.render ++ ", " ++ renderFields fs
def renderList : List Val → String
  | [] => ""
  | [v] => v.render
  | v :: vs => v.render ++ ", " ++ renderList vs
end

end Peg
