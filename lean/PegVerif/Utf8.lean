/-
  UTF-8 reading of the input: `enc` (what `&str` holds), `decodeHead` (`str::chars().next()`).
-/
namespace Peg

/-- the bytes of a Rust `&str` holding the characters `cs` -/
def enc (cs : List Char) : List UInt8 := cs.flatMap String.utf8EncodeChar

/-- `s.chars().next()` on the bytes of a `&str` (only the first four bytes matter) -/
def decodeHead (bs : List UInt8) : Option Char :=
  (bs.take 4).toByteArray.utf8DecodeChar? 0

/-- `char::is_ascii` -/
def isAscii (c : Char) : Bool := c.val < 128

/-- `c as u8` -/
def charAsU8 (c : Char) : UInt8 := c.val.toUInt8

/-- `u8 as char` -/
def u8AsChar (b : UInt8) : Char := Char.ofNat b.toNat

/-- `u8::to_ascii_lowercase` -/
def toAsciiLower (b : UInt8) : UInt8 := if 65 ≤ b && b ≤ 90 then b + 32 else b

/-- `char::to_ascii_lowercase` -/
def charToAsciiLower (c : Char) : Char :=
  if 65 ≤ c.val && c.val ≤ 90 then Char.ofNat (c.val.toNat + 32) else c

/-- `u8::is_ascii_whitespace`: SPACE, TAB, LF, FF, CR -/
def isAsciiWhitespace (b : UInt8) : Bool :=
  b == 0x20 || b == 0x09 || b == 0x0A || b == 0x0C || b == 0x0D

end Peg
