import PegVerif.Syntax
import PegVerif.Fields
import PegVerif.Utf8
/-
  Compile-time decoding of literals: mirror of codegen/src/string.rs
  (`TryFrom<&StringItem> for char`, `From<&HexaEscape>`, `From<&SimpleEscape>`,
  `TryFrom<&Utf8Escape>`, `TryFrom<&StringLiteral> for String`, and the matcher selection of
  `StringLiteral::generate_inline_body`).
-/
namespace Peg

/-- `char::to_digit(16)` -/
def hexVal (c : Char) : Option Nat :=
  let n := c.toNat
  if 48 ≤ n && n ≤ 57 then some (n - 48)
  else if 97 ≤ n && n ≤ 102 then some (n - 87)
  else if 65 ≤ n && n ≤ 70 then some (n - 55)
  else none

/-- the arms of `From<&SimpleEscape> for char` – cross-checked against `Extracted.simpleEscapes` -/
def SimpleEsc.toChar : SimpleEsc → Char
  | .newline => '\n'
  | .cr => '\r'
  | .tab => '\t'
  | .backslash => '\\'
  | .quote => '\''
  | .dquote => '"'

/-- `char::from_u32` -/
def charFromU32 (n : Nat) : Option Char :=
  if n.isValidChar then some (Char.ofNat n) else none

/-- fold of `result * 16 + digit` over the hex digits; `none` = `unwrap` on a non-hex digit -/
def hexFold : List Char → Nat → Option Nat
  | [], acc => some acc
  | c :: cs, acc => match hexVal c with
    | none => none
    | some d => hexFold cs (acc * 16 + d)

def StringItem.toChar : StringItem → CR Char
  | .hexa c1 c2 =>
    match hexVal c1, hexVal c2 with
    | some a, some b => .ok (Char.ofNat ((a * 16 + b) % 256))
    | _, _ => .err "PANIC: called `Option::unwrap()` on a `None` value"
  | .simple e => .ok e.toChar
  | .utf8 ds =>
    match hexFold ds 0 with
    | none => .err "PANIC: called `Option::unwrap()` on a `None` value"
    | some n => match charFromU32 n with
      | some c => .ok c
      | none => .err "Invalid utf-8 codepoint"
  | .chr c => .ok c

/-- `TryFrom<&StringLiteral> for String` -/
def decodeLit (items : List StringItem) : CR (List Char) := mapMCR StringItem.toChar items

/-- which runtime matcher a string literal compiles to, with its argument -/
inductive LitMatcher where
  | charLit (c : Char)
  | strLit (s : List Char)
  | charLitI (c : Char)
  | strLitI (s : List Char)
deriving Repr, DecidableEq

/-- `StringLiteral::generate_inline_body` up to the call -/
def compileLit (insensitive : Bool) (items : List StringItem) : CR LitMatcher :=
  match decodeLit items with
  | .err m => .err m
  | .fuel => .fuel
  | .ok lit =>
    if insensitive then
      if !(lit.all isAscii) then
        .err "Case insensitive matching only works for ascii strings."
      else
        let lit := lit.map charToAsciiLower
        match lit with
        | [c] => .ok (.charLitI c)
        | _ => .ok (.strLitI lit)
    else
      match lit with
      | [c] => .ok (.charLit c)
      | _ => .ok (.strLit lit)

end Peg
