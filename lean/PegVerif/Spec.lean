import PegVerif.Eval
/-
  `Spec.eval`: the reference semantics.  The PEG reading of a grammar with the documented value
  construction, and *nothing else*: no cache, no tracer, no log, no furthest-error bookkeeping,
  no user-context threading (user functions are applied at a fixed context `u`).

  * sequence: parts left to right, fails as soon as one part fails;
  * choice: the first alternative that matches wins, later ones are not tried;
  * closure: repeat greedily until the body fails, never give anything back;
  * optional: never fails;  lookaheads: consume nothing;
  * `@memoize` and `@leftrec` are ignored (a rule is its body);
  * whitespace is skipped in front of literals, ranges, `$` and rule references of skipping rules.

  Cursors are `St` values with `far = none`; a failure carries no payload (`noErr`).
  `none` = out of fuel.
-/
namespace Peg
namespace Spec

/-- payload-free failure -/
def noErr : PErr := { pos := 0, spec := .other }

/-- forget the error bookkeeping of a state -/
def clr (s : St) : St := { s with far := none }

/-- abstraction of an implementation result: drop `far` and the error payload -/
def abs {α} : Res α → Res α
  | .ok v s => .ok v (clr s)
  | .err _ => .err noErr
  | .panic m => .panic m

abbrev SOut (α : Type) := Option (Res α)

structure SRec where
  expr : Ctx → Expr → St → SOut Parsed
  rule : String → St → SOut Val

@[inline] def bindS {α β} (x : SOut α) (k : α → St → SOut β) : SOut β :=
  match x with
  | none => none
  | some (.ok v s) => k v s
  | some (.err _) => some (.err noErr)
  | some (.panic m) => some (.panic m)

def withSkipWs {α} (rec : SRec) (ctx : Ctx) (s : St) (k : St → SOut α) : SOut α :=
  if ctx.skipWs then bindS (rec.rule "Whitespace" s) (fun _ s' => k s') else k s

def evalSeq (env : Env) (rec : SRec) (ctx : Ctx) :
    List Expr → List String → Parsed → St → SOut (List String × Parsed)
  | [], seen, acc, s => some (.ok (seen, acc) s)
  | p :: ps, seen, acc, s =>
    bindS (rec.expr ctx p s) fun r s' =>
      let inner := filterRuleFields ctx.ruleFields (ownFields env p)
      match mergePart inner seen acc r with
      | .error m => some (.panic ("codegen: " ++ m))
      | .ok (seen', acc') => evalSeq env rec ctx ps seen' acc' s'

def evalAlts (env : Env) (rec : SRec) (ctx : Ctx) (fields : List FieldDesc) :
    List Expr → St → SOut Parsed
  | [], _ => some (.err noErr)
  | a :: as, s =>
    match rec.expr ctx a s with
    | none => none
    | some (.ok r s') =>
      (match convertArm fields (ownFields env a) r with
       | .ok p => some (.ok p s')
       | .error m => some (.panic ("codegen: " ++ m)))
    | some (.err _) => evalAlts env rec ctx fields as s
    | some (.panic m) => some (.panic m)

def evalLoop (body : St → SOut Parsed) (fields : List FieldDesc) :
    Nat → Nat → Parsed → St → SOut (Nat × Parsed)
  | 0, _, _, _ => none
  | k+1, iters, acc, s =>
    match body s with
    | none => none
    | some (.ok r s') =>
      (match extendAll fields acc r with
       | .ok acc' => evalLoop body fields k (iters + 1) acc' s'
       | .error m => some (.panic ("codegen: " ++ m)))
    | some (.err _) => some (.ok (iters, acc) s)
    | some (.panic m) => some (.panic m)

def stepExpr (env : Env) (rec : SRec) (n : Nat) (ctx : Ctx) (e : Expr) (s : St) : SOut Parsed :=
  match e with
  | .choice [] => some (.panic "index out of bounds: choices[0]")
  | .choice [a] => rec.expr ctx a s
  | .choice alts =>
    evalAlts env rec ctx (filterRuleFields ctx.ruleFields (ownFields env e)) alts s
  | .seq [] => some (.ok [] s)
  | .seq [p] => rec.expr ctx p s
  | .seq parts =>
    bindS (evalSeq env rec ctx parts [] [] s) fun (_, acc) s' =>
      match project (filterRuleFields ctx.ruleFields (ownFields env e)) acc with
      | .ok p => some (.ok p s')
      | .error m => some (.panic ("codegen: " ++ m))
  | .group b => rec.expr ctx b s
  | .opt b =>
    match rec.expr ctx b s with
    | none => none
    | some (.ok r s') => some (.ok r s')
    | some (.err _) =>
      (match defaults (filterRuleFields ctx.ruleFields (ownFields env b)) with
       | .ok p => some (.ok p s)
       | .error m => some (.panic ("codegen: " ++ m)))
    | some (.panic m) => some (.panic m)
  | .closure b atLeastOne =>
    let fields := filterRuleFields ctx.ruleFields (ownFields env b)
    match closureInit fields with
    | .error m => some (.panic ("codegen: " ++ m))
    | .ok init =>
      bindS (evalLoop (rec.expr ctx b) fields n 0 init s) fun (iters, acc) s' =>
        if atLeastOne && iters == 0 then some (.err noErr)
        else some (.ok acc s')
  | .neg b =>
    match rec.expr ctx b s with
    | none => none
    | some (.ok _ _) => some (.err noErr)
    | some (.err _) => some (.ok [] s)
    | some (.panic m) => some (.panic m)
  | .pos b =>
    bindS (rec.expr ctx b s) fun _ _ => some (.ok [] s)
  | .range lo hi =>
    match lo.toChar, hi.toChar with
    | .ok lo, .ok hi =>
      withSkipWs rec ctx s fun s => some (abs ((parseCharacterRange s lo hi).map (fun _ => [])))
    | _, _ => some (.panic "uncompilable: range bound")
  | .lit ins body =>
    match compileLit ins body with
    | .ok m =>
      withSkipWs rec ctx s fun s =>
        match m with
        | .charLit c => some (abs ((parseCharacterLiteral s c).map (fun _ => [])))
        | .strLit l => some (abs ((parseStringLiteral s l).map (fun _ => [])))
        | .charLitI c => some (abs ((parseCharacterLiteralInsensitive s c).map (fun _ => [])))
        | .strLitI l => some (abs ((parseStringLiteralInsensitive s l).map (fun _ => [])))
    | _ => some (.panic "uncompilable: literal")
  | .eoi => withSkipWs rec ctx s fun s => some (abs ((parseEndOfInput s).map (fun _ => [])))
  | .incl r =>
    match env.g.findRule r with
    | none => some (.panic "uncompilable: include of a missing rule")
    | some rule => rec.expr ctx rule.definition s
  | .field name _ typ =>
    withSkipWs rec ctx s fun s =>
      bindS (rec.rule typ s) fun v s' =>
        match name with
        | none => some (.ok [] s')
        | some nm =>
          match postprocessField ctx.ruleFields nm.key typ v with
          | .ok fv => some (.ok [(nm.key, fv)] s')
          | .error m => some (.panic ("codegen: " ++ m))

/-- a rule with checks matches iff its body matches and every check accepts the produced value -/
def runChecks (env : Env) (u : Nat) : List (List String) → Val → St → SOut Val
  | [], v, s => some (.ok v s)
  | f :: fs, v, s =>
    if !(env.hooks.check ("::".intercalate f) v u).1 then some (.err noErr)
    else runChecks env u fs v s

def ruleBody (env : Env) (u : Nat) (rec : SRec) (r : Rule) (s : St) : SOut Val :=
  let flags := r.flags
  match getFields env.g env.nf r.definition with
  | .ok fields =>
    let ctx : Ctx := { skipWs := env.settings.skipWhitespace && !flags.noSkipWs, ruleFields := fields }
    if flags.string then
      bindS (rec.expr ctx r.definition s) fun _ s' =>
        let str := Val.str (s.sliceUntil s')
        let v := if flags.position then Val.node r.name [("string", str)] (some (s.off, s'.off)) else str
        runChecks env u r.checks v s'
    else if fields.length == 1 && (fields.head?.map (·.name)) == some "_override" then
      bindS (rec.expr ctx r.definition s) fun p s' =>
        match p.get "_override" with
        | some v => runChecks env u r.checks v s'
        | none => some (.panic "codegen: override value missing")
    else if hasField fields "_override" then
      some (.panic "uncompilable: Mixing simple and override fields is not allowed.")
    else
      bindS (rec.expr ctx r.definition s) fun p s' =>
        match project fields p with
        | .ok fs =>
          let v := Val.node r.name fs (if flags.position then some (s.off, s'.off) else none)
          runChecks env u r.checks v s'
        | .error m => some (.panic ("codegen: " ++ m))
  | _ => some (.panic "uncompilable: get_fields failed")

/-- `@char` checks: every check must accept the next character -/
def charChecksOk (env : Env) : List (List String) → Char → Bool
  | [], _ => true
  | f :: fs, c => env.hooks.charCheck ("::".intercalate f) c && charChecksOk env fs c

def charParts (rec : SRec) : List CharRulePart → St → SOut Val
  | [], _ => some (.err noErr)
  | p :: ps, s =>
    let r : SOut Val := match p with
      | .chr item => (match item.toChar with
        | .ok c => some (abs ((parseCharacterLiteral s c).map .chr))
        | _ => some (.panic "uncompilable: char rule literal"))
      | .range lo hi => (match lo.toChar, hi.toChar with
        | .ok lo, .ok hi => some (abs ((parseCharacterRange s lo hi).map .chr))
        | _, _ => some (.panic "uncompilable: char rule range"))
      | .ident id => rec.rule id s
    match r with
    | none => none
    | some (.ok v s') => some (.ok v s')
    | some (.err _) => charParts rec ps s
    | some (.panic m) => some (.panic m)

def charRule (env : Env) (rec : SRec) (r : CharRule) (s : St) : SOut Val :=
  if r.directives.isEmpty then charParts rec r.choices s
  else match decodeHead s.rest with
    | none => some (.err noErr)
    | some c => if charChecksOk env r.directives c then charParts rec r.choices s else some (.err noErr)

def externRule (env : Env) (u : Nat) (r : ExternRule) (s : St) : SOut Val :=
  match (env.hooks.extern ("::".intercalate r.function) s.rest u).1 with
  | .ok (v, adv) => some (abs (s.advanceSafe adv v))
  | .error _ => some (.err noErr)

def stepRule (env : Env) (u : Nat) (rec : SRec) (name : String) (s : St) : SOut Val :=
  match env.g.find name with
  | some (.rule r) => ruleBody env u rec r s
  | some (.charRule r) => charRule env rec r s
  | some (.externRule r) => externRule env u r s
  | none =>
    if name == "char" then some (abs ((parseChar s).map .chr))
    else if name == "Whitespace" then some (abs ((parseWhitespace s).map (fun _ => .unit)))
    else some (.panic ("uncompilable: undefined rule " ++ name))

def step (env : Env) (u : Nat) (rec : SRec) (n : Nat) : SRec :=
  { expr := stepExpr env rec n, rule := stepRule env u rec }

def eval (env : Env) (u : Nat) : Nat → SRec
  | 0 => { expr := fun _ _ _ => none, rule := fun _ _ => none }
  | n+1 => step env u (eval env u n) n

/-- the reference answer for an exported rule on an input -/
def parse (env : Env) (u : Nat) (fuel : Nat) (rule : String) (inp : List UInt8) : SOut Val :=
  (eval env u fuel).rule rule (St.new inp)

end Spec
end Peg
