import PegVerif.Spec
/-
  `SpecLR.eval`: the reference semantics WITH left recursion.

  `Spec.eval` (Spec.lean) ignores `@leftrec`: a rule is its body, so a left-recursive rule has no
  answer there.  `SpecLR.eval` gives `@leftrec` rules their documented meaning and is otherwise
  `Spec.eval` (it is literally built from `Spec.stepExpr` / `Spec.ruleBody` / `Spec.stepRule`):

  * evaluation takes a *seed environment* `σ : Seeds`: the heads that are growing right now
    (rule name and start offset ↦ current seed);
  * a reference to a `@leftrec` rule `R` at cursor `s`:
      - if `σ` has `(R, s.off)`: the answer is that seed;
      - otherwise the grow loop: seed₀ = failure; the body is evaluated under `σ[(R, s.off) ↦ seedᵢ]`;
        an `ok` result that is strictly further than an `ok` seed (or any `ok` result when the seed is
        a failure) becomes the next seed; the loop stops – answering the *seed* – as soon as the body
        fails or does not get strictly further; if the very first evaluation fails the rule fails;
        a panic of the body is the answer (`growLoop` mirrors the four cases of `Peg.growLoop`);
  * nothing is remembered after the rule returns: there is no cache; `@memoize` is ignored.

  Results are what `Spec` results are: `Res Val` after `Spec.abs` (cursors with `far = none`, failures
  without payload).  `none` = out of fuel; the fuel also bounds the number of grow iterations.

  Second half of the file: the decidable class `LROk` of grammars for which the implementation model
  refines this semantics (Proofs/RefineLR.lean).
-/
namespace Peg
namespace SpecLR
open Spec

/-- the heads that are growing: `(rule, start offset) ↦ current seed`, innermost first -/
abbrev Seeds := List ((String × Nat) × Res Val)

def seedOf (σ : Seeds) (k : String × Nat) : Option (Res Val) :=
  (σ.find? (fun kv => kv.1 == k)).map (·.2)

/-- a reference evaluator for every seed environment -/
abbrev SRecLR := Seeds → SRec

/-- the normal rule called `name`, if it is `@leftrec` -/
def lrRule (env : Env) (name : String) : Option Rule :=
  match env.g.find name with
  | some (.rule r) => if r.flags.leftRecursive then some r else none
  | _ => none

/-- the grow loop.  `body seed` evaluates the rule body with the recursive reference standing for
    `seed`; the counter is loop fuel. -/
def growLoop (body : Res Val → SOut Val) : Nat → Res Val → SOut Val
  | 0, _ => none
  | k+1, best =>
    match body best with
    | none => none
    | some (.panic m) => some (.panic m)
    | some (.ok v ns) =>
      (match best with
       | .ok _ bs => if ns.isFurtherThan bs then growLoop body k (.ok v ns) else some best
       | _ => growLoop body k (.ok v ns))
    | some (.err _) =>
      (match best with
       | .ok _ _ => some best
       | _ => some (.err noErr))

def stepRule (env : Env) (u : Nat) (rec : SRecLR) (n : Nat) (σ : Seeds) (name : String) (s : St) :
    SOut Val :=
  match lrRule env name with
  | some r =>
    (match seedOf σ (r.name, s.off) with
     | some seed => some seed
     | none =>
       growLoop (fun seed => Spec.ruleBody env u (rec (((r.name, s.off), seed) :: σ)) r s) n
         (.err noErr))
  | none => Spec.stepRule env u (rec σ) name s

def step (env : Env) (u : Nat) (rec : SRecLR) (n : Nat) : SRecLR := fun σ =>
  { expr := Spec.stepExpr env (rec σ) n, rule := stepRule env u rec n σ }

def eval (env : Env) (u : Nat) : Nat → SRecLR
  | 0 => fun _ => { expr := fun _ _ _ => none, rule := fun _ _ => none }
  | n+1 => step env u (eval env u n) n

/-- the reference answer for an exported rule on an input: no head is growing -/
def parse (env : Env) (u : Nat) (fuel : Nat) (rule : String) (inp : List UInt8) : SOut Val :=
  (eval env u fuel []).rule rule (St.new inp)

end SpecLR

/-! ## the class of grammars

  "Grammars whose left recursion goes through `@leftrec` rules only (direct, or indirect through
  non-memoized rules), with no other memoized or left-recursive rule evaluated at the same position
  inside the cycle."

  For a `@leftrec` rule `Q` the analysis uses a set `N` of rule names that *avoid* `Q`: `Q` cannot be
  reached from them before input is certainly consumed.  `N` is computed (`avoidSet`), but nothing
  is assumed about the computation: that `N` is closed is *checked* (`closed`).

  `LRC.chk g st Q N d mode w e` walks the positions of `e` that can be reached *before input is
  certainly consumed* (through rule references, includes, `@char` identifier parts and the
  `Whitespace` rule in front of tokens when `w`; everything after a sequence part that certainly
  consumes input – `LRC.prog` – is unconstrained).  At a reference to a rule `X`:

  * `X ∈ N`: fine (nothing reachable from there before consuming input reaches `Q`);
  * `X = Q`: fine in mode `true` ("safe": the reference is answered by the seed of `Q`), refused in
    mode `false` ("avoid");
  * another `@leftrec` or `@memoize` rule: refused (it would have to be in `N`);
  * an ordinary rule or a `@char` rule: walked through in the same mode;
  * `@extern` rules, builtins: fine.

  `LROk`: for every `@leftrec` rule `Q`, `avoidSet Q` is closed (every member passes the walk in
  avoid mode) and the body of `Q` passes the walk in safe mode.  So the cycles through `Q` pass
  through ordinary rules only; any other `@leftrec` / `@memoize` rule that can be evaluated at the
  position where `Q` is growing is outside the cycle.  The fuel `d` bounds AST depth + rule
  unfoldings; running out of it answers `false`.
-/
namespace LRC

/-- can the matcher a literal compiles to succeed on the empty string -/
def litNullable : LitMatcher → Bool
  | .charLit _ => false
  | .charLitI _ => false
  | .strLit l => l.isEmpty
  | .strLitI l => l.isEmpty

/-- "every successful match consumes at least one byte" – conservative (`false` when the fuel runs
    out, for references to `@leftrec` / `@memoize` / `@extern` rules, lookaheads, `?`, `*`, `$`). -/
def progRule (g : Grammar) (pe : Expr → Bool) (name : String) : Bool :=
  match g.find name with
  | some (.rule r) => !r.flags.leftRecursive && !r.flags.memoize && pe r.definition
  | some (.charRule cr) => cr.choices.all fun p => match p with
      | .ident n => pe (.field none false n)
      | _ => true
  | some (.externRule _) => false
  | none => name == "char"

def prog (g : Grammar) : Nat → Expr → Bool
  | 0, _ => false
  | d+1, e =>
    match e with
    | .choice alts => alts.all (prog g d)
    | .seq parts => parts.any (prog g d)
    | .group b => prog g d b
    | .closure b plus => plus && prog g d b
    | .range _ _ => true
    | .lit ins body =>
      (match compileLit ins body with
       | .ok m => !litNullable m
       | _ => true)
    | .incl r =>
      (match g.findRule r with
       | some rule => prog g d rule.definition
       | none => true)
    | .field _ _ typ => progRule g (prog g d) typ
    | _ => false

/-- the check of a rule reference -/
def chkRule (g : Grammar) (st : Settings) (Q : String) (N : List String) (mode : Bool)
    (ce : Bool → Bool → Expr → Bool) (name : String) : Bool :=
  N.contains name ||
  match g.find name with
  | some (.rule r) =>
    if r.name == Q then mode && r.flags.leftRecursive
    else !r.flags.leftRecursive && !r.flags.memoize &&
      ce mode (st.skipWhitespace && !r.flags.noSkipWs) r.definition
  | some (.charRule cr) => cr.choices.all fun p => match p with
      | .ident n => ce mode false (.field none false n)
      | _ => true
  | _ => true

/-- sequence parts: everything after a part that certainly consumes input is unconstrained -/
def chkSeq (ce : Expr → Bool) (pr : Expr → Bool) : List Expr → Bool
  | [] => true
  | p :: ps => ce p && (pr p || chkSeq ce pr ps)

def chk (g : Grammar) (st : Settings) (Q : String) (N : List String) :
    Nat → Bool → Bool → Expr → Bool
  | 0, _, _, _ => false
  | d+1, mode, w, e =>
    match e with
    | .choice alts => alts.all (chk g st Q N d mode w)
    | .seq parts => chkSeq (chk g st Q N d mode w) (prog g d) parts
    | .group x => chk g st Q N d mode w x
    | .opt x => chk g st Q N d mode w x
    | .closure x _ => chk g st Q N d mode w x
    | .neg x => chk g st Q N d mode w x
    | .pos x => chk g st Q N d mode w x
    | .range _ _ => !w || chkRule g st Q N mode (chk g st Q N d) "Whitespace"
    | .lit _ _ => !w || chkRule g st Q N mode (chk g st Q N d) "Whitespace"
    | .eoi => !w || chkRule g st Q N mode (chk g st Q N d) "Whitespace"
    | .incl r =>
      (match g.findRule r with
       | some rule => chk g st Q N d mode w rule.definition
       | none => true)
    | .field _ _ typ =>
      (!w || chkRule g st Q N mode (chk g st Q N d) "Whitespace")
        && chkRule g st Q N mode (chk g st Q N d) typ

/-- the entry called `X` avoids `Q`: it is not `Q`, and its body passes the walk in avoid mode -/
def chkEntry (g : Grammar) (st : Settings) (Q : String) (N : List String) (d : Nat) (X : String) : Bool :=
  match g.find X with
  | some (.rule r) =>
    r.name != Q && chk g st Q N d false (st.skipWhitespace && !r.flags.noSkipWs) r.definition
  | some (.charRule cr) => cr.choices.all fun p => match p with
      | .ident n => chk g st Q N d false false (.field none false n)
      | _ => true
  | _ => true

/-- every member of `N` avoids `Q` (references to members of `N` being taken for granted) -/
def closed (g : Grammar) (st : Settings) (Q : String) (N : List String) (d : Nat) : Bool :=
  N.all (chkEntry g st Q N d)

def iter {α} (f : α → α) : Nat → α → α
  | 0, a => a
  | k+1, a => iter f k (f a)

/-- the candidate set: start from all other entries, throw out what does not pass, repeat -/
def avoidSet (g : Grammar) (st : Settings) (Q : String) (d : Nat) : List String :=
  iter (fun N => N.filter (chkEntry g st Q N d)) g.rules.length
    ((g.rules.map RuleEntry.name).filter (· != Q))

end LRC

mutual
/-- number of AST nodes -/
def Expr.size : Expr → Nat
  | .choice as => Expr.sizeList as + 1
  | .seq ps => Expr.sizeList ps + 1
  | .group b => b.size + 1
  | .opt b => b.size + 1
  | .closure b _ => b.size + 1
  | .neg b => b.size + 1
  | .pos b => b.size + 1
  | _ => 1
def Expr.sizeList : List Expr → Nat
  | [] => 0
  | e :: es => e.size + Expr.sizeList es
end

/-- fuel of the analysis: enough for every path that unfolds no rule twice -/
def LRC.fuel (g : Grammar) : Nat :=
  g.rules.foldl (fun acc e => match e with
    | .rule r => acc + r.definition.size + 2
    | _ => acc + 2) 2

/-- the class with an explicit analysis fuel -/
def LROkF (g : Grammar) (st : Settings) (d : Nat) : Prop :=
  (g.rules.all fun e => match e with
    | .rule r => !r.flags.leftRecursive ||
        (LRC.closed g st r.name (LRC.avoidSet g st r.name d) d &&
         LRC.chk g st r.name (LRC.avoidSet g st r.name d) d true
           (st.skipWhitespace && !r.flags.noSkipWs) r.definition)
    | _ => true) = true

instance (g : Grammar) (st : Settings) (d : Nat) : Decidable (LROkF g st d) :=
  inferInstanceAs (Decidable (_ = true))

/-- **the class** (decidable) -/
def LROk (g : Grammar) (st : Settings) : Prop := LROkF g st (LRC.fuel g)

instance (g : Grammar) (st : Settings) : Decidable (LROk g st) :=
  inferInstanceAs (Decidable (LROkF g st (LRC.fuel g)))

end Peg
