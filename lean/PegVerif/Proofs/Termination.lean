import PegVerif.Spec
import PegVerif.Proofs.SpecMono
import PegVerif.Proofs.Complete
import PegVerif.Proofs.FrontEndProofs
/-
  Termination of the reference semantics for syntactically well-formed grammars
  (the last clause of property C01: "… and the parse terminates").

  Ford's well-formedness theorem for PEGs, adapted to this model:

  * `nullableE`, `leftCalls`, `closuresOk`, `rankTable`, `wfTerm`, `wfCheck`: a decidable, conservative
    syntactic analysis (Bool-valued, fuel = depth);
  * `cons_eval`: the consumption lemma ("a construct that is not nullable consumes ≥ 1 byte when it
    succeeds; nothing ever lengthens the remaining input");
  * `C01_terminates_partial`: termination from an explicit rank witness;
  * `C01_terminates`, `C01_terminates_expr`: termination from `wfCheck` alone;
  * non-vacuity: the extracted grammar-of-grammars passes `wfCheck` (re-checked by the kernel on every
    build), hence the front end answers on every text (`frontEnd_terminates`).
-/
namespace Peg

/-! ## 1. The syntactic analysis -/

/-- can the matcher a literal compiles to succeed on the empty string -/
def LitMatcher.nullable : LitMatcher → Bool
  | .charLit _ => false
  | .charLitI _ => false
  | .strLit l => l.isEmpty
  | .strLitI l => l.isEmpty

/-- "may succeed without consuming a byte" (conservative: `true` when the depth fuel runs out).
    Fuel = AST depth + include hops + rule unfoldings. -/
def nullableE (g : Grammar) : Nat → Expr → Bool
  | 0, _ => true
  | d+1, e =>
    match e with
    | .choice alts => alts.any (nullableE g d)
    | .seq parts => parts.all (nullableE g d)
    | .group b => nullableE g d b
    | .opt _ => true
    | .closure b plus => if plus then nullableE g d b else true
    | .neg _ => true
    | .pos _ => true
    | .range _ _ => false
    | .lit ins body =>
      (match compileLit ins body with
       | .ok m => m.nullable
       | _ => true)
    | .eoi => true
    | .incl r =>
      (match g.findRule r with
       | some rule => nullableE g d rule.definition
       | none => true)
    | .field _ _ typ =>
      (match g.find typ with
       | some (.rule r) => nullableE g d r.definition   -- checks can only make the rule fail
       | some (.charRule cr) =>                         -- literal / range parts consume a character;
         cr.choices.any fun p => match p with           -- an identifier part is a call of any rule
           | .ident n => nullableE g d (.field none false n)
           | _ => false
       | some (.externRule _) => true                   -- a user function may return length 0
       | none => !(typ == "char"))                      -- builtin `Whitespace` (and undefined names)

/-- nullability of a rule call (what `.field` unfolds to) -/
def nullableR (g : Grammar) (d : Nat) (name : String) : Bool :=
  match g.find name with
  | some (.rule r) => nullableE g d r.definition
  | some (.charRule cr) =>
    cr.choices.any fun p => match p with
      | .ident n => nullableE g d (.field none false n)
      | _ => false
  | some (.externRule _) => true
  | none => !(name == "char")

theorem nullableE_field (g : Grammar) (d : Nat) (nm bx typ) :
    nullableE g (d+1) (.field nm bx typ) = nullableR g d typ := rfl

/-- left calls of a sequence: those of the first part, and of the following parts while the
    preceding ones are nullable -/
def leftSeq (null : Expr → Bool) (lc : Expr → List String) : List Expr → List String
  | [] => []
  | p :: ps => lc p ++ (if null p then leftSeq null lc ps else [])

/-- the rules that can be called before this expression has consumed any byte.
    `nd` = fuel of the nullability tests, the `Nat` argument = depth fuel (AST depth + include hops),
    `skip` = whitespace is skipped in front of tokens. -/
def leftCalls (g : Grammar) (nd : Nat) : Nat → Bool → Expr → List String
  | 0, _, _ => []
  | d+1, skip, e =>
    match e with
    | .choice alts => alts.flatMap (leftCalls g nd d skip)
    | .seq parts => leftSeq (nullableE g nd) (leftCalls g nd d skip) parts
    | .group b => leftCalls g nd d skip b
    | .opt b => leftCalls g nd d skip b
    | .closure b _ => leftCalls g nd d skip b
    | .neg b => leftCalls g nd d skip b
    | .pos b => leftCalls g nd d skip b
    | .range _ _ => if skip then ["Whitespace"] else []
    | .lit _ _ => if skip then ["Whitespace"] else []
    | .eoi => if skip then ["Whitespace"] else []
    | .incl r =>
      (match g.findRule r with
       | some rule => leftCalls g nd d skip rule.definition
       | none => [])
    | .field _ _ typ => if skip then ["Whitespace", typ] else [typ]

/-- every closure body (through includes) is not nullable; `false` when the depth fuel does not
    cover the expression (so a `true` is never vacuous, `leftCalls` with the same fuel is exact, and
    include cycles are rejected) -/
def closuresOk (g : Grammar) (nd : Nat) : Nat → Expr → Bool
  | 0, _ => false
  | d+1, e =>
    match e with
    | .choice alts => alts.all (closuresOk g nd d)
    | .seq parts => parts.all (closuresOk g nd d)
    | .group b => closuresOk g nd d b
    | .opt b => closuresOk g nd d b
    | .closure b _ => !(nullableE g nd b) && closuresOk g nd d b
    | .neg b => closuresOk g nd d b
    | .pos b => closuresOk g nd d b
    | .range _ _ => true
    | .lit _ _ => true
    | .eoi => true
    | .incl r =>
      (match g.findRule r with
       | some rule => closuresOk g nd d rule.definition
       | none => true)          -- panics: an answer
    | .field _ _ _ => true

/-- the skip-whitespace flag a normal rule's body is generated with -/
def ruleSkip (st : Settings) (r : Rule) : Bool := st.skipWhitespace && !r.flags.noSkipWs

/-- left-call edges of one grammar entry -/
def edgesOf (g : Grammar) (st : Settings) (fuel : Nat) : RuleEntry → List String
  | .rule r => leftCalls g fuel fuel (ruleSkip st r) r.definition
  | .charRule r => r.choices.filterMap fun p => match p with
    | .ident n => some n
    | _ => none
  | .externRule _ => []

def edgeTable (g : Grammar) (st : Settings) (fuel : Nat) : List (String × List String) :=
  g.rules.map fun e => (e.name, edgesOf g st fuel e)

def rankOf (tbl : List (String × Nat)) (n : String) : Nat :=
  match tbl.find? (fun p => p.1 == n) with
  | some p => p.2
  | none => 0

/-- one round of longest-path relaxation -/
def relax (edges : List (String × List String)) (tbl : List (String × Nat)) : List (String × Nat) :=
  edges.map fun p => (p.1, p.2.foldl (fun m c => max m (rankOf tbl c + 1)) 0)

/-- iterate `relax` until stable (at most `k` rounds) -/
def relaxIter (edges : List (String × List String)) : Nat → List (String × Nat) → List (String × Nat)
  | 0, tbl => tbl
  | k+1, tbl =>
    let tbl' := relax edges tbl
    if tbl' == tbl then tbl else relaxIter edges k tbl'

/-- candidate rank of every rule = length of the longest left-call chain starting there
    (exact when the left-call graph is acyclic; otherwise `rankOk` below fails) -/
def rankTable (edges : List (String × List String)) : List (String × Nat) :=
  relaxIter edges (edges.length + 1) (edges.map fun p => (p.1, 0))

/-- the rank strictly decreases along every left-call edge ⇔ (for a finite graph) no left recursion -/
def rankOk (edges : List (String × List String)) (tbl : List (String × Nat)) : Bool :=
  edges.all fun p => p.2.all fun c => rankOf tbl c < rankOf tbl p.1

/-- no left recursion at all (`@leftrec` is ignored by `Spec`, that case is property C07) -/
def noLeftRecursion (g : Grammar) (st : Settings) (fuel : Nat) : Bool :=
  let edges := edgeTable g st fuel
  rankOk edges (rankTable edges)

def allClosuresOk (g : Grammar) (fuel : Nat) : Bool :=
  g.rules.all fun e => match e with
    | .rule r => closuresOk g fuel fuel r.definition
    | _ => true

/-- the part of well-formedness termination depends on: no closure (reachable through includes) has a
    nullable body, includes are acyclic (and the fuel covers every definition), no left recursion -/
def wfTermN (fuel : Nat) (g : Grammar) (st : Settings) : Bool :=
  allClosuresOk g fuel && noLeftRecursion g st fuel

/-- well-formed grammars of property C01: every referenced rule is defined (or builtin), no include
    cycle, no closure with a nullable body, no left recursion.  `fuel` bounds the nesting depth of the
    definitions (plus include hops) the analysis is willing to look at. -/
def wfCheckN (fuel : Nat) (g : Grammar) (st : Settings) : Bool :=
  allRefsDefinedN fuel g && !Compile.hasIncludeCycle g fuel && wfTermN fuel g st

def wfCheck (g : Grammar) (st : Settings) : Bool := wfCheckN 64 g st


/-! ## 2. The consumption lemma

`Drop b s s'`: going from `s` to `s'` never lengthens the remaining input, and shortens it when `b`. -/

def Drop (b : Prop) (s s' : St) : Prop :=
  s'.rest.length ≤ s.rest.length ∧ (b → s'.rest.length < s.rest.length)

theorem Drop.mono {b b' : Prop} {s s' : St} (h : Drop b s s') (hb : b' → b) : Drop b' s s' :=
  ⟨h.1, fun x => h.2 (hb x)⟩

theorem Drop.trans {b1 b2 b : Prop} {s s1 s2 : St} (h1 : Drop b1 s s1) (h2 : Drop b2 s1 s2)
    (hb : b → b1 ∨ b2) : Drop b s s2 := by
  refine ⟨Nat.le_trans h2.1 h1.1, fun x => ?_⟩
  cases hb x with
  | inl y => exact Nat.lt_of_le_of_lt h2.1 (h1.2 y)
  | inr y => exact Nat.lt_of_lt_of_le (h2.2 y) h1.1

theorem Drop.of_eq {b : Prop} {s s' : St} (h : s'.rest = s.rest) (hb : ¬ b) : Drop b s s' :=
  ⟨by rw [h]; exact Nat.le_refl _, fun x => absurd x hb⟩

theorem Drop.of_lt {b : Prop} {s s' : St} (h : s'.rest.length < s.rest.length) : Drop b s s' :=
  ⟨Nat.le_of_lt h, fun _ => h⟩

/-- `e` is recognisably not nullable -/
def NN (g : Grammar) (e : Expr) : Prop := ∃ d, nullableE g d e = false
/-- the rule call `name` is recognisably not nullable -/
def NNR (g : Grammar) (name : String) : Prop := ∃ d, nullableR g d name = false

theorem NN.choice {g alts} (h : NN g (.choice alts)) : ∀ a ∈ alts, NN g a := by
  obtain ⟨d, hd⟩ := h
  cases d with
  | zero => simp [nullableE] at hd
  | succ d =>
    simp only [nullableE, List.any_eq_false] at hd
    intro a ha
    exact ⟨d, by simpa using hd a ha⟩

theorem NN.seq {g parts} (h : NN g (.seq parts)) : ∃ p ∈ parts, NN g p := by
  obtain ⟨d, hd⟩ := h
  cases d with
  | zero => simp [nullableE] at hd
  | succ d =>
    simp only [nullableE, List.all_eq_false] at hd
    obtain ⟨p, hp, hn⟩ := hd
    exact ⟨p, hp, d, by simpa using hn⟩

theorem NN.group {g b} (h : NN g (.group b)) : NN g b := by
  obtain ⟨d, hd⟩ := h
  cases d with
  | zero => simp [nullableE] at hd
  | succ d => exact ⟨d, by simpa [nullableE] using hd⟩

theorem NN.opt {g b} (h : NN g (.opt b)) : False := by
  obtain ⟨d, hd⟩ := h
  cases d <;> simp [nullableE] at hd

theorem NN.neg {g b} (h : NN g (.neg b)) : False := by
  obtain ⟨d, hd⟩ := h
  cases d <;> simp [nullableE] at hd

theorem NN.pos {g b} (h : NN g (.pos b)) : False := by
  obtain ⟨d, hd⟩ := h
  cases d <;> simp [nullableE] at hd

theorem NN.eoi {g} (h : NN g .eoi) : False := by
  obtain ⟨d, hd⟩ := h
  cases d <;> simp [nullableE] at hd

theorem NN.closure {g b plus} (h : NN g (.closure b plus)) : plus = true ∧ NN g b := by
  obtain ⟨d, hd⟩ := h
  cases d with
  | zero => simp [nullableE] at hd
  | succ d =>
    simp only [nullableE] at hd
    split at hd
    · rename_i hp; exact ⟨hp, d, hd⟩
    · cases hd

theorem NN.lit {g ins body} (h : NN g (.lit ins body)) :
    ∀ m, compileLit ins body = .ok m → m.nullable = false := by
  obtain ⟨d, hd⟩ := h
  intro m hm
  cases d with
  | zero => simp [nullableE] at hd
  | succ d => simpa [nullableE, hm] using hd

theorem NN.incl {g r rule} (h : NN g (.incl r)) (hf : g.findRule r = some rule) : NN g rule.definition := by
  obtain ⟨d, hd⟩ := h
  cases d with
  | zero => simp [nullableE] at hd
  | succ d => exact ⟨d, by simpa [nullableE, hf] using hd⟩

theorem NN.field {g nm bx typ} (h : NN g (.field nm bx typ)) : NNR g typ := by
  obtain ⟨d, hd⟩ := h
  cases d with
  | zero => simp [nullableE] at hd
  | succ d => exact ⟨d, by rw [nullableE_field] at hd; exact hd⟩

theorem NNR.rule {g name r} (h : NNR g name) (hf : g.find name = some (.rule r)) : NN g r.definition := by
  obtain ⟨d, hd⟩ := h
  exact ⟨d, by simpa [nullableR, hf] using hd⟩

theorem NNR.charRule {g name cr} (h : NNR g name) (hf : g.find name = some (.charRule cr)) :
    ∀ id, CharRulePart.ident id ∈ cr.choices → NNR g id := by
  obtain ⟨d, hd⟩ := h
  simp only [nullableR, hf, List.any_eq_false] at hd
  intro id hid
  have h1 := hd _ hid
  simp only at h1
  exact NN.field (nm := none) (bx := false) ⟨d, by simpa using h1⟩

theorem NNR.externRule {g name er} (h : NNR g name) (hf : g.find name = some (.externRule er)) : False := by
  obtain ⟨d, hd⟩ := h
  simp [nullableR, hf] at hd

theorem NNR.none {g name} (h : NNR g name) (hf : g.find name = none) : name = "char" := by
  obtain ⟨d, hd⟩ := h
  simpa [nullableR, hf] using hd

/-! ### the matchers -/

theorem advance_len {α} {s : St} {n : Nat} {v v' : α} {s' : St} (h : s.advance n v = .ok v' s') :
    s'.rest.length + n = s.rest.length := by
  unfold St.advance at h
  split at h
  · cases h
  · cases h
    simp only [List.length_drop]
    omega

theorem advanceSafe_len {α} {s : St} {n : Nat} {v v' : α} {s' : St} (h : s.advanceSafe n v = .ok v' s') :
    s'.rest.length ≤ s.rest.length := by
  unfold St.advanceSafe at h
  split at h
  · cases h
  · split at h
    · cases h
    · cases h
      simp only [List.length_drop]
      omega

theorem parseChar_len {s : St} {v s'} (h : parseChar s = .ok v s') : s'.rest.length < s.rest.length := by
  unfold parseChar at h
  split at h
  · cases h
  · rename_i c _
    have := advance_len h
    have := Char.utf8Size_pos c
    omega

theorem parseWhitespace_len {s : St} {v s'} (h : parseWhitespace s = .ok v s') :
    s'.rest.length ≤ s.rest.length := by
  unfold parseWhitespace at h
  cases h
  simp only [List.length_drop]
  omega

theorem parseCharacterLiteral_len {s : St} {c v s'} (h : parseCharacterLiteral s c = .ok v s') :
    s'.rest.length < s.rest.length := by
  unfold parseCharacterLiteral at h
  split at h
  · split at h
    · cases h
    · split at h
      · cases h
      · have := advance_len h; omega
  · split at h
    · cases h
    · have := advance_len h
      have := Char.utf8Size_pos c
      omega

theorem parseCharacterRange_len {s : St} {lo hi v s'} (h : parseCharacterRange s lo hi = .ok v s') :
    s'.rest.length < s.rest.length := by
  unfold parseCharacterRange at h
  split at h
  · split at h
    · cases h
    · split at h
      · cases h
      · have := advance_len h; omega
  · split at h
    · cases h
    · split at h
      · cases h
      · rename_i c _ _
        have := advance_len h
        have := Char.utf8Size_pos c
        omega

theorem parseCharacterLiteralInsensitive_len {s : St} {c v s'}
    (h : parseCharacterLiteralInsensitive s c = .ok v s') : s'.rest.length < s.rest.length := by
  unfold parseCharacterLiteralInsensitive at h
  split at h
  · cases h
  · split at h
    · cases h
    · have := advance_len h; omega

theorem enc_length_pos {l : List Char} (h : l.isEmpty = false) : 0 < (enc l).length := by
  cases l with
  | nil => simp at h
  | cons c cs =>
    have := Char.utf8Size_pos c
    simp only [enc, List.flatMap_cons, List.length_append, String.length_utf8EncodeChar]
    omega

theorem parseStringLiteral_len {s : St} {l v s'} (h : parseStringLiteral s l = .ok v s') :
    Drop (l.isEmpty = false) s s' := by
  unfold parseStringLiteral at h
  simp only at h
  split at h
  · cases h
  · have h1 := advance_len h
    refine ⟨by omega, fun hl => ?_⟩
    have := enc_length_pos hl
    omega

theorem parseStringLiteralInsensitive_len {s : St} {l v s'}
    (h : parseStringLiteralInsensitive s l = .ok v s') : Drop (l.isEmpty = false) s s' := by
  unfold parseStringLiteralInsensitive at h
  simp only at h
  split at h
  · cases h
  · have h1 := advance_len h
    refine ⟨by omega, fun hl => ?_⟩
    have := enc_length_pos hl
    omega

theorem parseEndOfInput_len {s : St} {v s'} (h : parseEndOfInput s = .ok v s') : s' = s := by
  unfold parseEndOfInput at h
  split at h
  · cases h; rfl
  · cases h

namespace Spec

theorem abs_map_ok {α β} {r : Res α} {f : α → β} {v : β} {s' : St} (h : abs (r.map f) = .ok v s') :
    ∃ v0 s0, r = .ok v0 s0 ∧ s'.rest = s0.rest := by
  cases r with
  | ok v0 s0 => simp only [Res.map, abs] at h; cases h; exact ⟨v0, s0, rfl, rfl⟩
  | err e => simp [Res.map, abs] at h
  | panic m => simp [Res.map, abs] at h

theorem abs_ok {α} {r : Res α} {v : α} {s' : St} (h : abs r = .ok v s') :
    ∃ s0, r = .ok v s0 ∧ s'.rest = s0.rest := by
  cases r with
  | ok v0 s0 => simp only [abs] at h; cases h; exact ⟨s0, rfl, rfl⟩
  | err e => simp [abs] at h
  | panic m => simp [abs] at h

theorem bindS_ok {α β} {x : SOut α} {k : α → St → SOut β} {v : β} {s' : St}
    (h : bindS x k = some (.ok v s')) : ∃ v0 s0, x = some (.ok v0 s0) ∧ k v0 s0 = some (.ok v s') := by
  cases x with
  | none => simp [bindS] at h
  | some a =>
    cases a with
    | ok v0 s0 => exact ⟨v0, s0, rfl, h⟩
    | err e => simp [bindS] at h
    | panic m => simp [bindS] at h

/-- the consumption invariant of an evaluator -/
structure Cons (g : Grammar) (rec : SRec) : Prop where
  expr : ∀ ctx e s r s', rec.expr ctx e s = some (.ok r s') → Drop (NN g e) s s'
  rule : ∀ name s v s', rec.rule name s = some (.ok v s') → Drop (NNR g name) s s'

variable {g : Grammar}

theorem withSkipWs_ok {α} {rec : SRec} (hc : Cons g rec) {ctx : Ctx} {s : St} {k : St → SOut α} {v : α} {s' : St}
    (h : withSkipWs rec ctx s k = some (.ok v s')) :
    ∃ s0, s0.rest.length ≤ s.rest.length ∧ k s0 = some (.ok v s') := by
  unfold withSkipWs at h
  split at h
  · obtain ⟨v0, s0, h0, h1⟩ := bindS_ok h
    exact ⟨s0, (hc.rule _ _ _ _ h0).1, h1⟩
  · exact ⟨s, Nat.le_refl _, h⟩

theorem evalSeq_cons {env : Env} {rec : SRec} (hc : Cons env.g rec) {ctx : Ctx} :
    ∀ ps seen acc s x s', evalSeq env rec ctx ps seen acc s = some (.ok x s') →
      Drop (∃ p ∈ ps, NN env.g p) s s' := by
  intro ps
  induction ps with
  | nil =>
    intro seen acc s x s' h
    simp only [evalSeq] at h
    cases h
    exact Drop.of_eq rfl (by simp)
  | cons p ps ih =>
    intro seen acc s x s' h
    simp only [evalSeq] at h
    obtain ⟨r0, s0, h0, h1⟩ := bindS_ok h
    split at h1
    · cases h1
    · have d1 := hc.expr _ _ _ _ _ h0
      have d2 := ih _ _ _ _ _ h1
      refine d1.trans d2 ?_
      rintro ⟨q, hq, hn⟩
      cases hq with
      | head => exact .inl hn
      | tail _ hq => exact .inr ⟨q, hq, hn⟩

theorem evalAlts_cons {env : Env} {rec : SRec} {ctx : Ctx} {fields} :
    ∀ as s r s', evalAlts env rec ctx fields as s = some (.ok r s') →
      ∃ a ∈ as, ∃ r0, rec.expr ctx a s = some (.ok r0 s') := by
  intro as
  induction as with
  | nil => intro s r s' h; simp [evalAlts] at h
  | cons a as ih =>
    intro s r s' h
    simp only [evalAlts] at h
    split at h
    · cases h
    · rename_i r0 s0 hx
      split at h
      · cases h; exact ⟨a, List.mem_cons_self, r0, hx⟩
      · cases h
    · obtain ⟨b, hb, r0, h0⟩ := ih _ _ _ h
      exact ⟨b, List.mem_cons_of_mem _ hb, r0, h0⟩
    · cases h

theorem evalLoop_cons {body : St → SOut Parsed} {fields} {B : Prop}
    (hb : ∀ s r s', body s = some (.ok r s') → Drop B s s') :
    ∀ k iters acc s iters' acc' s', evalLoop body fields k iters acc s = some (.ok (iters', acc') s') →
      s'.rest.length ≤ s.rest.length ∧ iters ≤ iters' ∧ (iters < iters' → B → s'.rest.length < s.rest.length) := by
  intro k
  induction k with
  | zero => intro iters acc s iters' acc' s' h; simp [evalLoop] at h
  | succ k ih =>
    intro iters acc s iters' acc' s' h
    simp only [evalLoop] at h
    split at h
    · cases h
    · rename_i r0 s0 hx
      have d0 := hb _ _ _ hx
      split at h
      · obtain ⟨h1, h2, h3⟩ := ih _ _ _ _ _ _ h
        refine ⟨Nat.le_trans h1 d0.1, by omega, fun _ hB => ?_⟩
        exact Nat.lt_of_le_of_lt h1 (d0.2 hB)
      · cases h
    · cases h
      exact ⟨Nat.le_refl _, Nat.le_refl _, fun hlt => absurd hlt (Nat.lt_irrefl _)⟩
    · cases h

theorem stepExpr_cons {env : Env} {rec : SRec} (hc : Cons env.g rec) (n : Nat) :
    ∀ ctx e s r s', stepExpr env rec n ctx e s = some (.ok r s') → Drop (NN env.g e) s s' := by
  intro ctx e s r s' h
  cases e with
  | choice alts =>
    match alts with
    | [] => simp [stepExpr] at h
    | [a] =>
      simp only [stepExpr] at h
      exact (hc.expr _ _ _ _ _ h).mono (fun hn => hn.choice a List.mem_cons_self)
    | a :: b :: rest =>
      simp only [stepExpr] at h
      obtain ⟨x, hx, r0, h0⟩ := evalAlts_cons _ _ _ _ h
      exact (hc.expr _ _ _ _ _ h0).mono (fun hn => hn.choice x hx)
  | seq parts =>
    match parts with
    | [] =>
      simp only [stepExpr] at h
      cases h
      refine Drop.of_eq rfl ?_
      intro hn
      obtain ⟨p, hp, _⟩ := hn.seq
      cases hp
    | [a] =>
      simp only [stepExpr] at h
      refine (hc.expr _ _ _ _ _ h).mono ?_
      intro hn
      obtain ⟨p, hp, hpn⟩ := hn.seq
      cases hp with
      | head => exact hpn
      | tail _ hq => cases hq
    | a :: b :: rest =>
      simp only [stepExpr] at h
      obtain ⟨x, s0, h0, h1⟩ := bindS_ok h
      have d := evalSeq_cons hc _ _ _ _ _ _ h0
      split at h1
      · cases h1; exact d.mono (fun hn => hn.seq)
      · cases h1
  | group b =>
    simp only [stepExpr] at h
    exact (hc.expr _ _ _ _ _ h).mono (fun hn => hn.group)
  | opt b =>
    simp only [stepExpr] at h
    split at h
    · cases h
    · rename_i hx
      cases h
      exact ⟨(hc.expr _ _ _ _ _ hx).1, fun hn => hn.opt.elim⟩
    · split at h
      · cases h; exact Drop.of_eq rfl (fun hn => hn.opt)
      · cases h
    · cases h
  | closure b plus =>
    simp only [stepExpr] at h
    split at h
    · cases h
    · obtain ⟨⟨iters, acc⟩, s0, h0, h1⟩ := bindS_ok h
      obtain ⟨l1, _, l3⟩ := evalLoop_cons (B := NN env.g b) (fun s r s' hx => hc.expr _ _ _ _ _ hx) _ _ _ _ _ _ _ h0
      simp only at h1
      split at h1
      · cases h1
      · rename_i hcond
        cases h1
        refine ⟨l1, fun hn => ?_⟩
        obtain ⟨hp, hnb⟩ := hn.closure
        subst hp
        have hi : iters ≠ 0 := by
          intro h0'
          subst h0'
          simp at hcond
        exact l3 (by omega) hnb
  | neg b =>
    simp only [stepExpr] at h
    split at h
    · cases h
    · cases h
    · cases h; exact Drop.of_eq rfl (fun hn => hn.neg)
    · cases h
  | pos b =>
    simp only [stepExpr] at h
    obtain ⟨_, _, _, h1⟩ := bindS_ok h
    cases h1
    exact Drop.of_eq rfl (fun hn => hn.pos)
  | range lo hi =>
    simp only [stepExpr] at h
    split at h
    · obtain ⟨s0, hs0, h1⟩ := withSkipWs_ok hc h
      simp only [Option.some.injEq] at h1
      obtain ⟨v0, s1, hp, hr⟩ := abs_map_ok h1
      have := parseCharacterRange_len hp
      exact Drop.of_lt (by rw [hr]; omega)
    · cases h
  | lit ins body =>
    simp only [stepExpr] at h
    split at h
    · rename_i m hm
      obtain ⟨s0, hs0, h1⟩ := withSkipWs_ok hc h
      cases m with
      | charLit c =>
        simp only [Option.some.injEq] at h1
        obtain ⟨v0, s1, hp, hr⟩ := abs_map_ok h1
        have := parseCharacterLiteral_len hp
        exact Drop.of_lt (by rw [hr]; omega)
      | charLitI c =>
        simp only [Option.some.injEq] at h1
        obtain ⟨v0, s1, hp, hr⟩ := abs_map_ok h1
        have := parseCharacterLiteralInsensitive_len hp
        exact Drop.of_lt (by rw [hr]; omega)
      | strLit l =>
        simp only [Option.some.injEq] at h1
        obtain ⟨v0, s1, hp, hr⟩ := abs_map_ok h1
        have d := parseStringLiteral_len hp
        refine ⟨by rw [hr]; exact Nat.le_trans d.1 hs0, fun hn => ?_⟩
        have := d.2 (by simpa [LitMatcher.nullable] using hn.lit _ hm)
        rw [hr]; omega
      | strLitI l =>
        simp only [Option.some.injEq] at h1
        obtain ⟨v0, s1, hp, hr⟩ := abs_map_ok h1
        have d := parseStringLiteralInsensitive_len hp
        refine ⟨by rw [hr]; exact Nat.le_trans d.1 hs0, fun hn => ?_⟩
        have := d.2 (by simpa [LitMatcher.nullable] using hn.lit _ hm)
        rw [hr]; omega
    · cases h
  | eoi =>
    simp only [stepExpr] at h
    obtain ⟨s0, hs0, h1⟩ := withSkipWs_ok hc h
    simp only [Option.some.injEq] at h1
    obtain ⟨v0, s1, hp, hr⟩ := abs_map_ok h1
    have := parseEndOfInput_len hp
    subst this
    exact ⟨by rw [hr]; exact hs0, fun hn => hn.eoi.elim⟩
  | incl r0 =>
    simp only [stepExpr] at h
    split at h
    · cases h
    · rename_i rule hf
      exact (hc.expr _ _ _ _ _ h).mono (fun hn => hn.incl hf)
  | field name boxed typ =>
    simp only [stepExpr] at h
    obtain ⟨s0, hs0, h1⟩ := withSkipWs_ok hc h
    obtain ⟨v, s1, h2, h3⟩ := bindS_ok h1
    have d := hc.rule _ _ _ _ h2
    have hs : s' = s1 := by
      split at h3
      · cases h3; rfl
      · split at h3
        · cases h3; rfl
        · cases h3
    subst hs
    exact ⟨Nat.le_trans d.1 hs0, fun hn => Nat.lt_of_lt_of_le (d.2 hn.field) hs0⟩

theorem runChecks_ok {env : Env} {u : Nat} :
    ∀ fs v s v' s', runChecks env u fs v s = some (.ok v' s') → s' = s := by
  intro fs
  induction fs with
  | nil => intro v s v' s' h; simp only [runChecks] at h; cases h; rfl
  | cons f fs ih =>
    intro v s v' s' h
    simp only [runChecks] at h
    split at h
    · cases h
    · exact ih _ _ _ _ h

theorem ruleBody_cons {env : Env} {u : Nat} {rec : SRec} (hc : Cons env.g rec) {r0 : Rule} {s v s'}
    (h : ruleBody env u rec r0 s = some (.ok v s')) : Drop (NN env.g r0.definition) s s' := by
  unfold ruleBody at h
  split at h
  · simp only at h
    split at h
    · obtain ⟨p, s0, h0, h1⟩ := bindS_ok h
      have := runChecks_ok _ _ _ _ _ h1
      subst this
      exact hc.expr _ _ _ _ _ h0
    · split at h
      · obtain ⟨p, s0, h0, h1⟩ := bindS_ok h
        split at h1
        · have := runChecks_ok _ _ _ _ _ h1
          subst this
          exact hc.expr _ _ _ _ _ h0
        · cases h1
      · split at h
        · cases h
        · obtain ⟨p, s0, h0, h1⟩ := bindS_ok h
          split at h1
          · have := runChecks_ok _ _ _ _ _ h1
            subst this
            exact hc.expr _ _ _ _ _ h0
          · cases h1
  · cases h

theorem charParts_consT {rec : SRec} (hc : Cons g rec) :
    ∀ ps s v s', charParts rec ps s = some (.ok v s') →
      Drop (∀ id, CharRulePart.ident id ∈ ps → NNR g id) s s' := by
  intro ps
  induction ps with
  | nil => intro s v s' h; simp [charParts] at h
  | cons p ps ih =>
    intro s v s' h
    have tl : ∀ {s v s'}, charParts rec ps s = some (.ok v s') →
        Drop (∀ id, CharRulePart.ident id ∈ p :: ps → NNR g id) s s' :=
      fun h => (ih _ _ _ h).mono (fun hn id hid => hn id (List.mem_cons_of_mem _ hid))
    cases p with
    | chr item =>
      simp only [charParts] at h
      split at h
      · cases h
      · rename_i v0 s0 hx
        cases h
        split at hx
        · simp only [Option.some.injEq] at hx
          obtain ⟨v1, s1, hp, hr⟩ := abs_map_ok hx
          have := parseCharacterLiteral_len hp
          exact Drop.of_lt (by rw [hr]; omega)
        · cases hx
      · exact tl h
      · cases h
    | range lo hi =>
      simp only [charParts] at h
      split at h
      · cases h
      · rename_i v0 s0 hx
        cases h
        split at hx
        · simp only [Option.some.injEq] at hx
          obtain ⟨v1, s1, hp, hr⟩ := abs_map_ok hx
          have := parseCharacterRange_len hp
          exact Drop.of_lt (by rw [hr]; omega)
        · cases hx
      · exact tl h
      · cases h
    | ident id =>
      simp only [charParts] at h
      split at h
      · cases h
      · rename_i v0 s0 hx
        cases h
        exact (hc.rule _ _ _ _ hx).mono (fun hn => hn id List.mem_cons_self)
      · exact tl h
      · cases h

theorem stepRule_cons {env : Env} {u : Nat} {rec : SRec} (hc : Cons env.g rec) :
    ∀ name s v s', stepRule env u rec name s = some (.ok v s') → Drop (NNR env.g name) s s' := by
  intro name s v s' h
  unfold stepRule at h
  split at h
  · rename_i r hf
    exact (ruleBody_cons hc h).mono (fun hn => hn.rule hf)
  · rename_i cr hf
    have key : charParts rec cr.choices s = some (.ok v s') → Drop (NNR env.g name) s s' :=
      fun h => (charParts_consT hc _ _ _ _ h).mono (fun hn => hn.charRule hf)
    unfold charRule at h
    split at h
    · exact key h
    · split at h
      · cases h
      · split at h
        · exact key h
        · cases h
  · rename_i er hf
    unfold externRule at h
    split at h
    · simp only [Option.some.injEq] at h
      obtain ⟨s0, hp, hr⟩ := abs_ok h
      have := advanceSafe_len hp
      exact ⟨by rw [hr]; exact this, fun hn => (hn.externRule hf).elim⟩
    · cases h
  · rename_i hf
    split at h
    · simp only [Option.some.injEq] at h
      obtain ⟨v0, s0, hp, hr⟩ := abs_map_ok h
      have := parseChar_len hp
      exact Drop.of_lt (by rw [hr]; exact this)
    · rename_i hnc
      split at h
      · simp only [Option.some.injEq] at h
        obtain ⟨v0, s0, hp, hr⟩ := abs_map_ok h
        have := parseWhitespace_len hp
        refine ⟨by rw [hr]; exact this, fun hn => ?_⟩
        have := hn.none hf
        subst this
        simp at hnc
      · cases h

/-- **Consumption lemma**: in the reference semantics nothing lengthens the remaining input, and a
    construct / rule call that the analysis classifies as not nullable consumes at least one byte
    whenever it succeeds. -/
theorem cons_eval (env : Env) (u : Nat) : ∀ n, Cons env.g (eval env u n) := by
  intro n
  induction n with
  | zero => exact ⟨fun _ _ _ _ _ h => by simp [eval] at h, fun _ _ _ _ h => by simp [eval] at h⟩
  | succ n ih => exact ⟨stepExpr_cons ih n, stepRule_cons ih⟩


/-! ## 3. Termination -/

section Term
variable (env : Env) (u : Nat)

/-- the reference evaluator answers (ok / err / panic) on the expression with enough fuel -/
def TE (ctx : Ctx) (e : Expr) (s : St) : Prop := ∃ n r, (eval env u n).expr ctx e s = some r
/-- the reference evaluator answers on the rule call with enough fuel -/
def TR (name : String) (s : St) : Prop := ∃ n r, (eval env u n).rule name s = some r

/-- induction hypothesis of the termination proof: every rule call answers from every state with
    less than `L` remaining bytes, and the rules in `S` also from states with exactly `L` -/
def Av (L : Nat) (S : String → Prop) : Prop :=
  ∀ c s, s.rest.length ≤ L → (s.rest.length < L ∨ S c) → TR env u c s

variable {env u}

theorem Av.lower {L L' : Nat} {S S' : String → Prop} (h : Av env u L S) (hl : L' < L) : Av env u L' S' :=
  fun c s hs _ => h c s (by omega) (.inl (by omega))

theorem expr_up {n m ctx e s r} (h : (eval env u n).expr ctx e s = some r) (hnm : n ≤ m) :
    (eval env u m).expr ctx e s = some r := (eval_mono env u hnm).expr _ _ _ _ h

theorem rule_up {n m name s r} (h : (eval env u n).rule name s = some r) (hnm : n ≤ m) :
    (eval env u m).rule name s = some r := (eval_mono env u hnm).rule _ _ _ h

theorem TE_of_step {ctx e s} (h : ∃ n r, stepExpr env (eval env u n) n ctx e s = some r) : TE env u ctx e s := by
  obtain ⟨n, r, h⟩ := h
  exact ⟨n + 1, r, h⟩

theorem TR_of_step {name s} (h : ∃ n r, stepRule env u (eval env u n) name s = some r) : TR env u name s := by
  obtain ⟨n, r, h⟩ := h
  exact ⟨n + 1, r, h⟩

theorem bindS_some_ok {α β} (v : α) (s : St) (k : α → St → SOut β) : bindS (some (.ok v s)) k = k v s := rfl

theorem bindS_ans {α β} {x : SOut α} {k : α → St → SOut β} (hx : ∃ a, x = some a)
    (hk : ∀ v s, ∃ r, k v s = some r) : ∃ r, bindS x k = some r := by
  obtain ⟨a, rfl⟩ := hx
  cases a with
  | ok v s => exact hk v s
  | err e => exact ⟨_, rfl⟩
  | panic m => exact ⟨_, rfl⟩

theorem evalAlts_term {ctx : Ctx} {fields s} : ∀ alts, (∀ a ∈ alts, TE env u ctx a s) →
    ∃ n r, evalAlts env (eval env u n) ctx fields alts s = some r := by
  intro alts
  induction alts with
  | nil => intro _; exact ⟨0, _, rfl⟩
  | cons a as ih =>
    intro h
    obtain ⟨n1, r1, h1⟩ := h a List.mem_cons_self
    cases r1 with
    | ok r s' =>
      refine ⟨n1, ?_⟩
      simp only [evalAlts, h1]
      split <;> exact ⟨_, rfl⟩
    | err e =>
      obtain ⟨n2, r2, h2⟩ := ih (fun b hb => h b (List.mem_cons_of_mem _ hb))
      refine ⟨max n1 n2, r2, ?_⟩
      simp only [evalAlts, expr_up h1 (Nat.le_max_left _ _)]
      exact evalAlts_le (eval_mono env u (Nat.le_max_right _ _)) _ _ _ h2
    | panic m =>
      refine ⟨n1, ?_⟩
      simp only [evalAlts, h1]
      exact ⟨_, rfl⟩

theorem evalSeq_term {ctx : Ctx} {null : Expr → Bool} {lc : Expr → List String}
    (hnull : ∀ p, null p = false → NN env.g p) :
    ∀ parts,
      (∀ p ∈ parts, ∀ L S, Av env u L S → (∀ c ∈ lc p, S c) → ∀ s, s.rest.length ≤ L → TE env u ctx p s) →
      ∀ L S, Av env u L S → (∀ c ∈ leftSeq null lc parts, S c) → ∀ s, s.rest.length ≤ L →
        ∀ seen acc, ∃ n r, evalSeq env (eval env u n) ctx parts seen acc s = some r := by
  intro parts
  induction parts with
  | nil => intro _ L S _ _ s _ seen acc; exact ⟨0, _, rfl⟩
  | cons p ps ih =>
    intro hp L S hav hS s hs seen acc
    have hS1 : ∀ c ∈ lc p, S c := fun c hc => hS c (by
      simp only [leftSeq]; exact List.mem_append_left _ hc)
    obtain ⟨n1, r1, h1⟩ := hp p List.mem_cons_self L S hav hS1 s hs
    cases r1 with
    | err e => exact ⟨n1, by simp only [evalSeq, h1, bindS]; exact ⟨_, rfl⟩⟩
    | panic m => exact ⟨n1, by simp only [evalSeq, h1, bindS]; exact ⟨_, rfl⟩⟩
    | ok r s1 =>
      have d := (cons_eval env u n1).expr _ _ _ _ _ h1
      cases hm : mergePart (filterRuleFields ctx.ruleFields (ownFields env p)) seen acc r with
      | error m => exact ⟨n1, by simp only [evalSeq, h1, bindS, hm]; exact ⟨_, rfl⟩⟩
      | ok sa =>
        obtain ⟨seen', acc'⟩ := sa
        have hps : ∀ q ∈ ps, ∀ L S, Av env u L S → (∀ c ∈ lc q, S c) → ∀ s, s.rest.length ≤ L →
            TE env u ctx q s := fun q hq => hp q (List.mem_cons_of_mem _ hq)
        have htail : ∃ n r, evalSeq env (eval env u n) ctx ps seen' acc' s1 = some r := by
          cases hn : null p with
          | true =>
            refine ih hps L S hav ?_ s1 (Nat.le_trans d.1 hs) seen' acc'
            intro c hc
            apply hS
            simp only [leftSeq, hn, if_true]
            exact List.mem_append_right _ hc
          | false =>
            have hlt := d.2 (hnull p hn)
            exact ih hps s1.rest.length (fun _ => True) (hav.lower (by omega)) (fun _ _ => trivial) s1
              (Nat.le_refl _) seen' acc'
        obtain ⟨n2, r2, h2⟩ := htail
        refine ⟨max n1 n2, r2, ?_⟩
        simp only [evalSeq, expr_up h1 (Nat.le_max_left _ _), bindS, hm]
        exact evalSeq_le (eval_mono env u (Nat.le_max_right _ _)) _ _ _ _ _ h2

theorem evalLoop_term {ctx : Ctx} {b : Expr} {fields} {L : Nat}
    (hb : ∀ s, s.rest.length ≤ L → TE env u ctx b s) (hnn : NN env.g b) :
    ∀ M s, s.rest.length < M → s.rest.length ≤ L → ∀ iters acc,
      ∃ n r, evalLoop ((eval env u n).expr ctx b) fields n iters acc s = some r := by
  intro M
  induction M with
  | zero => intro s h; omega
  | succ M ih =>
    intro s hsM hsL iters acc
    obtain ⟨n1, r1, h1⟩ := hb s hsL
    cases r1 with
    | err e =>
      refine ⟨n1 + 1, ?_⟩
      simp only [evalLoop, expr_up h1 (Nat.le_succ _)]
      exact ⟨_, rfl⟩
    | panic m =>
      refine ⟨n1 + 1, ?_⟩
      simp only [evalLoop, expr_up h1 (Nat.le_succ _)]
      exact ⟨_, rfl⟩
    | ok r s1 =>
      have d := (cons_eval env u n1).expr _ _ _ _ _ h1
      have hlt := d.2 hnn
      cases hx : extendAll fields acc r with
      | error m =>
        refine ⟨n1 + 1, ?_⟩
        simp only [evalLoop, expr_up h1 (Nat.le_succ _), hx]
        exact ⟨_, rfl⟩
      | ok acc' =>
        obtain ⟨n2, r2, h2⟩ := ih s1 (by omega) (by omega) (iters + 1) acc'
        refine ⟨max n1 n2 + 1, r2, ?_⟩
        have hle : n1 ≤ max n1 n2 + 1 := Nat.le_succ_of_le (Nat.le_max_left _ _)
        simp only [evalLoop, expr_up h1 hle, hx]
        refine evalLoop_le (fun s r h => expr_up h ?_) _ _ _ _ _ _ (Nat.le_max_right _ _) h2
        exact Nat.le_succ_of_le (Nat.le_max_right _ _)

theorem charParts_term {s : St} : ∀ ps, (∀ id, CharRulePart.ident id ∈ ps → TR env u id s) →
    ∃ n r, charParts (eval env u n) ps s = some r := by
  intro ps
  induction ps with
  | nil => intro _; exact ⟨0, _, rfl⟩
  | cons p ps ih =>
    intro h
    obtain ⟨n2, r2, h2⟩ := ih (fun id hid => h id (List.mem_cons_of_mem _ hid))
    cases p with
    | chr item =>
      refine ⟨n2, ?_⟩
      simp only [charParts]
      split
      · rename_i heq; split at heq <;> cases heq
      · exact ⟨_, rfl⟩
      · exact ⟨_, h2⟩
      · exact ⟨_, rfl⟩
    | range lo hi =>
      refine ⟨n2, ?_⟩
      simp only [charParts]
      split
      · rename_i heq; split at heq <;> cases heq
      · exact ⟨_, rfl⟩
      · exact ⟨_, h2⟩
      · exact ⟨_, rfl⟩
    | ident id =>
      obtain ⟨n1, r1, h1⟩ := h id List.mem_cons_self
      cases r1 with
      | ok v s' =>
        refine ⟨n1, ?_⟩
        simp only [charParts, h1]
        exact ⟨_, rfl⟩
      | err e =>
        refine ⟨max n1 n2, r2, ?_⟩
        simp only [charParts, rule_up h1 (Nat.le_max_left _ _)]
        exact charParts_le (eval_mono env u (Nat.le_max_right _ _)) _ _ _ h2
      | panic m =>
        refine ⟨n1, ?_⟩
        simp only [charParts, h1]
        exact ⟨_, rfl⟩

/-- a token whose matcher does not call back into the evaluator -/
theorem withSkipWs_term {α} {ctx : Ctx} {s : St} {L S} (hav : Av env u L S) (hs : s.rest.length ≤ L)
    (hW : ctx.skipWs = true → S "Whitespace") (k : St → SOut α) (hk : ∀ s0, ∃ r, k s0 = some r) :
    ∃ n r, withSkipWs (eval env u n) ctx s k = some r := by
  cases hsk : ctx.skipWs with
  | false =>
    refine ⟨0, ?_⟩
    simp only [withSkipWs, hsk, Bool.false_eq_true, if_false]
    exact hk s
  | true =>
    obtain ⟨n, r, h⟩ := hav "Whitespace" s hs (.inr (hW hsk))
    refine ⟨n, ?_⟩
    simp only [withSkipWs, hsk, if_true, h]
    exact bindS_ans ⟨_, rfl⟩ (fun _ s0 => hk s0)

theorem field_term {ctx : Ctx} {name boxed typ} {s : St} {L S} (hav : Av env u L S) (hs : s.rest.length ≤ L)
    (hW : ctx.skipWs = true → S "Whitespace") (hT : S typ) :
    ∃ n r, stepExpr env (eval env u n) n ctx (.field name boxed typ) s = some r := by
  cases hsk : ctx.skipWs with
  | false =>
    obtain ⟨n2, r2, h2⟩ := hav typ s hs (.inr hT)
    refine ⟨n2, ?_⟩
    simp only [stepExpr, withSkipWs, hsk, Bool.false_eq_true, if_false]
    refine bindS_ans ⟨_, h2⟩ (fun v s' => ?_)
    cases name with
    | none => exact ⟨_, rfl⟩
    | some nm => simp only; split <;> exact ⟨_, rfl⟩
  | true =>
    obtain ⟨n1, r1, h1⟩ := hav "Whitespace" s hs (.inr (hW hsk))
    cases r1 with
    | err e =>
      refine ⟨n1, ?_⟩
      simp only [stepExpr, withSkipWs, hsk, if_true, h1, bindS]
      exact ⟨_, rfl⟩
    | panic m =>
      refine ⟨n1, ?_⟩
      simp only [stepExpr, withSkipWs, hsk, if_true, h1, bindS]
      exact ⟨_, rfl⟩
    | ok v s0 =>
      have d := (cons_eval env u n1).rule _ _ _ _ h1
      obtain ⟨n2, r2, h2⟩ := hav typ s0 (Nat.le_trans d.1 hs) (.inr hT)
      refine ⟨max n1 n2, ?_⟩
      simp only [stepExpr, withSkipWs, hsk, if_true, rule_up h1 (Nat.le_max_left _ _), bindS_some_ok]
      refine bindS_ans ⟨_, rule_up h2 (Nat.le_max_right _ _)⟩ (fun v s' => ?_)
      cases name with
      | none => exact ⟨_, rfl⟩
      | some nm => simp only; split <;> exact ⟨_, rfl⟩

/-- **Expressions**: an expression without nullable closure bodies answers from every state with at
    most `L` remaining bytes, provided every rule answers below `L` and its left calls answer at `L`. -/
theorem expr_term (nd : Nat) : ∀ d (ctx : Ctx) (e : Expr), closuresOk env.g nd d e = true →
    ∀ L S, Av env u L S → (∀ c ∈ leftCalls env.g nd d ctx.skipWs e, S c) →
    ∀ s, s.rest.length ≤ L → TE env u ctx e s := by
  intro d
  induction d with
  | zero => intro ctx e h; simp [closuresOk] at h
  | succ d ih =>
    intro ctx e hcl L S hav hS s hs
    cases e with
    | choice alts =>
      simp only [closuresOk, List.all_eq_true] at hcl
      simp only [leftCalls, List.mem_flatMap] at hS
      have hall : ∀ a ∈ alts, TE env u ctx a s :=
        fun a ha => ih ctx a (hcl a ha) L S hav (fun c hc => hS c ⟨a, ha, hc⟩) s hs
      apply TE_of_step
      cases alts with
      | nil => exact ⟨0, _, rfl⟩
      | cons a rest =>
        cases rest with
        | nil =>
          obtain ⟨n, r, h⟩ := hall a List.mem_cons_self
          exact ⟨n, r, by simp only [stepExpr]; exact h⟩
        | cons b rest =>
          obtain ⟨n, r, h⟩ := evalAlts_term (fields := filterRuleFields ctx.ruleFields (ownFields env (.choice (a :: b :: rest)))) _ hall
          exact ⟨n, r, by simp only [stepExpr]; exact h⟩
    | seq parts =>
      simp only [closuresOk, List.all_eq_true] at hcl
      simp only [leftCalls] at hS
      have hparts : ∀ p ∈ parts, ∀ L S, Av env u L S → (∀ c ∈ leftCalls env.g nd d ctx.skipWs p, S c) →
          ∀ s, s.rest.length ≤ L → TE env u ctx p s := fun p hp => ih ctx p (hcl p hp)
      have hseq := evalSeq_term (ctx := ctx) (null := nullableE env.g nd) (lc := leftCalls env.g nd d ctx.skipWs)
        (fun p hp => ⟨nd, hp⟩) parts hparts L S hav hS s hs
      apply TE_of_step
      cases parts with
      | nil => exact ⟨0, _, rfl⟩
      | cons a rest =>
        cases rest with
        | nil =>
          have hS1 : ∀ c ∈ leftCalls env.g nd d ctx.skipWs a, S c := fun c hc => hS c (by
            simp only [leftSeq]; exact List.mem_append_left _ hc)
          obtain ⟨n, r, h⟩ := hparts a List.mem_cons_self L S hav hS1 s hs
          exact ⟨n, r, by simp only [stepExpr]; exact h⟩
        | cons b rest =>
          obtain ⟨n, r, h⟩ := hseq [] []
          refine ⟨n, ?_⟩
          simp only [stepExpr, h]
          refine bindS_ans ⟨_, rfl⟩ ?_
          intro x s'
          obtain ⟨seen, acc⟩ := x
          simp only
          split <;> exact ⟨_, rfl⟩
    | group b =>
      simp only [closuresOk] at hcl
      simp only [leftCalls] at hS
      obtain ⟨n, r, h⟩ := ih ctx b hcl L S hav hS s hs
      exact ⟨n + 1, r, h⟩
    | opt b =>
      simp only [closuresOk] at hcl
      simp only [leftCalls] at hS
      obtain ⟨n, r, h⟩ := ih ctx b hcl L S hav hS s hs
      apply TE_of_step
      refine ⟨n, ?_⟩
      simp only [stepExpr, h]
      cases r with
      | ok r s' => exact ⟨_, rfl⟩
      | err e => simp only; split <;> exact ⟨_, rfl⟩
      | panic m => exact ⟨_, rfl⟩
    | closure b plus =>
      simp only [closuresOk, Bool.and_eq_true, Bool.not_eq_true'] at hcl
      simp only [leftCalls] at hS
      have hb : ∀ s, s.rest.length ≤ L → TE env u ctx b s := fun s hs => ih ctx b hcl.2 L S hav hS s hs
      apply TE_of_step
      cases hci : closureInit (filterRuleFields ctx.ruleFields (ownFields env b)) with
      | error m =>
        refine ⟨0, ?_⟩
        simp only [stepExpr, hci]
        exact ⟨_, rfl⟩
      | ok init =>
        obtain ⟨n, r, h⟩ := evalLoop_term (fields := filterRuleFields ctx.ruleFields (ownFields env b))
          hb ⟨nd, hcl.1⟩ (s.rest.length + 1) s (Nat.lt_succ_self _) hs 0 init
        refine ⟨n, ?_⟩
        simp only [stepExpr, hci, h]
        refine bindS_ans ⟨_, rfl⟩ ?_
        intro x s'
        obtain ⟨iters, acc⟩ := x
        simp only
        split <;> exact ⟨_, rfl⟩
    | neg b =>
      simp only [closuresOk] at hcl
      simp only [leftCalls] at hS
      obtain ⟨n, r, h⟩ := ih ctx b hcl L S hav hS s hs
      apply TE_of_step
      refine ⟨n, ?_⟩
      simp only [stepExpr, h]
      cases r <;> exact ⟨_, rfl⟩
    | pos b =>
      simp only [closuresOk] at hcl
      simp only [leftCalls] at hS
      obtain ⟨n, r, h⟩ := ih ctx b hcl L S hav hS s hs
      apply TE_of_step
      refine ⟨n, ?_⟩
      simp only [stepExpr, h]
      exact bindS_ans ⟨_, rfl⟩ (fun _ _ => ⟨_, rfl⟩)
    | range lo hi =>
      simp only [leftCalls] at hS
      have hW : ctx.skipWs = true → S "Whitespace" := fun h => hS _ (by simp [h])
      apply TE_of_step
      cases hlo : lo.toChar with
      | ok lo' =>
        cases hhi : hi.toChar with
        | ok hi' =>
          simp only [stepExpr, hlo, hhi]
          exact withSkipWs_term hav hs hW _ (fun _ => ⟨_, rfl⟩)
        | err m => exact ⟨0, by simp only [stepExpr, hlo, hhi]; exact ⟨_, rfl⟩⟩
        | fuel => exact ⟨0, by simp only [stepExpr, hlo, hhi]; exact ⟨_, rfl⟩⟩
      | err m => exact ⟨0, by simp only [stepExpr, hlo]; exact ⟨_, rfl⟩⟩
      | fuel => exact ⟨0, by simp only [stepExpr, hlo]; exact ⟨_, rfl⟩⟩
    | lit ins body =>
      simp only [leftCalls] at hS
      have hW : ctx.skipWs = true → S "Whitespace" := fun h => hS _ (by simp [h])
      apply TE_of_step
      cases hm : compileLit ins body with
      | ok m =>
        simp only [stepExpr, hm]
        refine withSkipWs_term hav hs hW _ ?_
        intro s0
        cases m <;> exact ⟨_, rfl⟩
      | err m => exact ⟨0, by simp only [stepExpr, hm]; exact ⟨_, rfl⟩⟩
      | fuel => exact ⟨0, by simp only [stepExpr, hm]; exact ⟨_, rfl⟩⟩
    | eoi =>
      simp only [leftCalls] at hS
      have hW : ctx.skipWs = true → S "Whitespace" := fun h => hS _ (by simp [h])
      apply TE_of_step
      simp only [stepExpr]
      exact withSkipWs_term hav hs hW _ (fun _ => ⟨_, rfl⟩)
    | incl r0 =>
      apply TE_of_step
      cases hf : env.g.findRule r0 with
      | none => exact ⟨0, by simp only [stepExpr, hf]; exact ⟨_, rfl⟩⟩
      | some rule =>
        simp only [closuresOk, hf] at hcl
        simp only [leftCalls, hf] at hS
        obtain ⟨n, r, h⟩ := ih ctx rule.definition hcl L S hav hS s hs
        exact ⟨n, r, by simp only [stepExpr, hf]; exact h⟩
    | field name boxed typ =>
      simp only [leftCalls] at hS
      have hW : ctx.skipWs = true → S "Whitespace" := fun h => hS _ (by simp [h])
      have hT : S typ := hS _ (by split <;> simp)
      exact TE_of_step (field_term hav hs hW hT)

theorem runChecks_ans : ∀ fs v s, ∃ r, runChecks env u fs v s = some r := by
  intro fs
  induction fs with
  | nil => intro v s; exact ⟨_, rfl⟩
  | cons f fs ih =>
    intro v s
    simp only [runChecks]
    split
    · exact ⟨_, rfl⟩
    · exact ih v s

theorem ruleBody_term {r0 : Rule} {s : St}
    (h : ∀ fields, TE env u { skipWs := ruleSkip env.settings r0, ruleFields := fields } r0.definition s) :
    ∃ n r, ruleBody env u (eval env u n) r0 s = some r := by
  cases hgf : getFields env.g env.nf r0.definition with
  | ok fields =>
    obtain ⟨n, r, h1⟩ := h fields
    refine ⟨n, ?_⟩
    simp only [ruleBody, hgf]
    have hx : ∃ a, (eval env u n).expr
        { skipWs := env.settings.skipWhitespace && !r0.flags.noSkipWs, ruleFields := fields } r0.definition s
          = some a := ⟨r, h1⟩
    split
    · exact bindS_ans hx (fun _ _ => runChecks_ans _ _ _)
    · split
      · refine bindS_ans hx (fun p s' => ?_)
        split
        · exact runChecks_ans _ _ _
        · exact ⟨_, rfl⟩
      · split
        · exact ⟨_, rfl⟩
        · refine bindS_ans hx (fun p s' => ?_)
          split
          · exact runChecks_ans _ _ _
          · exact ⟨_, rfl⟩
  | err m => exact ⟨0, by simp only [ruleBody, hgf]; exact ⟨_, rfl⟩⟩
  | fuel => exact ⟨0, by simp only [ruleBody, hgf]; exact ⟨_, rfl⟩⟩

/-- **One rule call**, given the induction hypothesis `Av L S` for its left calls -/
theorem stepRule_term {fuel : Nat} {L S} (hav : Av env u L S) {name : String} {s : St} (hs : s.rest.length ≤ L)
    (hcl : ∀ r, env.g.find name = some (.rule r) → closuresOk env.g fuel fuel r.definition = true)
    (hed : ∀ entry, env.g.find name = some entry → ∀ c ∈ edgesOf env.g env.settings fuel entry, S c) :
    TR env u name s := by
  apply TR_of_step
  cases hf : env.g.find name with
  | none =>
    refine ⟨0, ?_⟩
    simp only [stepRule, hf]
    split
    · exact ⟨_, rfl⟩
    · split <;> exact ⟨_, rfl⟩
  | some entry =>
    cases entry with
    | rule r =>
      obtain ⟨n, r', h⟩ := ruleBody_term (r0 := r) (s := s) (fun fields =>
        expr_term fuel fuel { skipWs := ruleSkip env.settings r, ruleFields := fields } r.definition (hcl r hf)
          L S hav (hed _ hf) s hs)
      exact ⟨n, r', by simp only [stepRule, hf]; exact h⟩
    | charRule cr =>
      obtain ⟨n, r', h⟩ := charParts_term (s := s) cr.choices (fun id hid =>
        hav id s hs (.inr (hed _ hf id (by
          simp only [edgesOf, List.mem_filterMap]
          exact ⟨_, hid, rfl⟩))))
      refine ⟨n, ?_⟩
      simp only [stepRule, hf, charRule]
      split
      · exact ⟨_, h⟩
      · split
        · exact ⟨_, rfl⟩
        · split
          · exact ⟨_, h⟩
          · exact ⟨_, rfl⟩
    | externRule er =>
      refine ⟨0, ?_⟩
      simp only [stepRule, hf, externRule]
      split <;> exact ⟨_, rfl⟩

end Term

end Spec

/-! ## 4. The theorems -/

theorem allClosuresOk_find {g : Grammar} {fuel : Nat} (h : allClosuresOk g fuel = true) {name : String} {r : Rule}
    (hf : g.find name = some (.rule r)) : closuresOk g fuel fuel r.definition = true := by
  unfold allClosuresOk at h
  rw [List.all_eq_true] at h
  have hm : RuleEntry.rule r ∈ g.rules := List.mem_of_find?_eq_some hf
  simpa using h _ hm

theorem find_mem {g : Grammar} {name : String} {e : RuleEntry} (hf : g.find name = some e) :
    e ∈ g.rules ∧ e.name = name := by
  refine ⟨List.mem_of_find?_eq_some hf, ?_⟩
  have := List.find?_some hf
  simpa using this

/-- **Termination from a rank witness** (`C01_terminates_partial` of DESIGN.md): if no closure body is
    nullable and some function on rule names strictly decreases along every left-call edge, every rule
    call answers from every state with enough fuel. -/
theorem C01_terminates_partial (env : Env) (u fuel : Nat) (hcl : allClosuresOk env.g fuel = true)
    (rank : String → Nat)
    (hrank : ∀ e ∈ env.g.rules, ∀ c ∈ edgesOf env.g env.settings fuel e, rank c < rank e.name) :
    ∀ (rule : String) (s : St), ∃ n r, (Spec.eval env u n).rule rule s = some r := by
  -- outer induction: remaining input length
  have outer : ∀ L, ∀ name s, s.rest.length < L → Spec.TR env u name s := by
    intro L
    induction L with
    | zero => intro name s h; omega
    | succ L ihL =>
      -- inner induction: rank of the rule
      have inner : ∀ k, ∀ name, rank name < k → ∀ s, s.rest.length ≤ L → Spec.TR env u name s := by
        intro k
        induction k with
        | zero => intro name h; omega
        | succ k ihk =>
          intro name hk s hs
          have hav : Spec.Av env u L (fun c => rank c < k) := by
            intro c s' hs' hc
            cases hc with
            | inl hlt => exact ihL c s' hlt
            | inr hr => exact ihk c hr s' hs'
          refine Spec.stepRule_term (fuel := fuel) hav hs (fun r hf => allClosuresOk_find hcl hf) ?_
          intro entry hf c hc
          obtain ⟨hm, hn⟩ := find_mem hf
          have := hrank entry hm c hc
          rw [hn] at this
          show rank c < k
          omega
      intro name s hs
      exact inner (rank name + 1) name (Nat.lt_succ_self _) s (by omega)
  intro rule s
  exact outer (s.rest.length + 1) rule s (Nat.lt_succ_self _)

/-- the rank computed by `wfTermN` is a rank witness -/
theorem rankOk_sound {g : Grammar} {st : Settings} {fuel : Nat} (h : noLeftRecursion g st fuel = true) :
    ∀ e ∈ g.rules, ∀ c ∈ edgesOf g st fuel e,
      rankOf (rankTable (edgeTable g st fuel)) c < rankOf (rankTable (edgeTable g st fuel)) e.name := by
  intro e he c hc
  simp only [noLeftRecursion, rankOk, List.all_eq_true] at h
  have hm : (e.name, edgesOf g st fuel e) ∈ edgeTable g st fuel := by
    unfold edgeTable
    exact List.mem_map.mpr ⟨e, he, rfl⟩
  have := h _ hm c hc
  simpa using this

theorem wfTermN_parts {fuel : Nat} {g : Grammar} {st : Settings} (h : wfTermN fuel g st = true) :
    allClosuresOk g fuel = true ∧ noLeftRecursion g st fuel = true := by
  simpa [wfTermN] using h

theorem wfCheckN_term {fuel : Nat} {g : Grammar} {st : Settings} (h : wfCheckN fuel g st = true) :
    wfTermN fuel g st = true := by
  simp only [wfCheckN, Bool.and_eq_true] at h
  exact h.2

/-- **Every rule call terminates** for a grammar that passes the termination part of the
    well-formedness check: from every state, with enough fuel, the reference semantics answers. -/
theorem C01_terminates_rule (env : Env) (u fuel : Nat) (hwf : wfTermN fuel env.g env.settings = true) :
    ∀ (rule : String) (s : St), ∃ n r, (Spec.eval env u n).rule rule s = some r :=
  C01_terminates_partial env u fuel (wfTermN_parts hwf).1 _ (rankOk_sound (wfTermN_parts hwf).2)

/-- **Every expression terminates** (general form): any expression without nullable closure bodies,
    in any generation context, from any state. -/
theorem C01_terminates_expr (env : Env) (u fuel : Nat) (hwf : wfTermN fuel env.g env.settings = true)
    (ctx : Ctx) (e : Expr) (nd d : Nat) (he : closuresOk env.g nd d e = true) (s : St) :
    ∃ n r, (Spec.eval env u n).expr ctx e s = some r := by
  refine Spec.expr_term nd d ctx e he s.rest.length (fun _ => True) ?_ (fun _ _ => trivial) s (Nat.le_refl _)
  intro c s' _ _
  exact C01_terminates_rule env u fuel hwf c s'

/-- … in particular the definition of every rule of the grammar -/
theorem C01_terminates_def (env : Env) (u fuel : Nat) (hwf : wfTermN fuel env.g env.settings = true)
    (ctx : Ctx) (r : Rule) (hr : RuleEntry.rule r ∈ env.g.rules) (s : St) :
    ∃ n r', (Spec.eval env u n).expr ctx r.definition s = some r' := by
  have h := (wfTermN_parts hwf).1
  unfold allClosuresOk at h
  rw [List.all_eq_true] at h
  exact C01_terminates_expr env u fuel hwf ctx r.definition fuel fuel (by simpa using h _ hr) s

/-- **C01, last clause: the parse terminates.**  For a well-formed grammar the reference semantics
    answers (ok / err / panic) on every rule and every input, with enough fuel.
    (No hypothesis on `env.nf` or on `rule` being defined is needed: a failing field analysis and an
    undefined rule are panics, which are answers.) -/
theorem C01_terminates (env : Env) (u : Nat) (hwf : wfCheck env.g env.settings = true) :
    ∀ (rule : String) (inp : List UInt8), ∃ n r, Spec.parse env u n rule inp = some r :=
  fun rule inp => C01_terminates_rule env u 64 (wfCheckN_term hwf) rule (St.new inp)

/-- the statement in the shape of the task description (the extra hypothesis "the rule is defined" is
    not needed) -/
theorem C01_terminates' (env : Env) (u : Nat) (hwf : wfCheck env.g env.settings = true) :
    ∀ (rule : String) (inp : List UInt8), (env.g.find rule).isSome = true →
      ∃ n r, Spec.parse env u n rule inp = some r :=
  fun rule inp _ => C01_terminates env u hwf rule inp

/-- hence the *implementation model* (the generated parser) terminates too, for grammars without
    `@leftrec` rules and user functions that do not modify the user context (through `parse_complete`),
    and its answer abstracts to the reference answer -/
theorem C01_terminates_impl (env : Env) (hp : PureHooks env.hooks) (hnl : NoLeftrec env.g)
    (hwf : wfCheck env.g env.settings = true) (rule : String) (inp : List UInt8) (u : Nat) :
    ∃ n r' g', parseAdvanced env n rule inp u = some (r', g') ∧
      ∃ m, Spec.parse env u m rule inp = some (Spec.abs r') := by
  obtain ⟨m, r, h⟩ := C01_terminates env u hwf rule inp
  obtain ⟨n, r', g', h', ha⟩ := parse_complete env hp hnl rule inp u m h
  exact ⟨n, r', g', h', m, by rw [ha]; exact h⟩

/-! ## 5. Non-vacuity (re-checked by the kernel on every build) -/

/-- the extracted grammar-of-grammars is well-formed -/
theorem metaGrammar_wf : wfCheck Extracted.metaGrammar {} = true := by decide +kernel

theorem metaEnv_wf : wfCheck FrontEnd.metaEnv.g FrontEnd.metaEnv.settings = true := metaGrammar_wf

/-- the reference semantics of the grammar-of-grammars answers on every text -/
theorem frontEnd_spec_terminates (text : List UInt8) :
    ∃ m r, Spec.parse FrontEnd.metaEnv 0 m "Grammar" text = some r :=
  C01_terminates FrontEnd.metaEnv 0 metaEnv_wf "Grammar" text

theorem panic_ne_out_of_fuel (m : String) : "panic: " ++ m ≠ "out of fuel" := by
  intro h
  have h1 := congrArg String.toList h
  rw [String.toList_append] at h1
  have h2 : "panic: ".toList = ['p', 'a', 'n', 'i', 'c', ':', ' '] := by decide
  have h3 : "out of fuel".toList = ['o', 'u', 't', ' ', 'o', 'f', ' ', 'f', 'u', 'e', 'l'] := by decide
  rw [h2, h3] at h1
  simp at h1

/-- **The front end terminates on every text**: for every large enough fuel `Grammar::from_str`
    (the implementation model run on the grammar-of-grammars) does not run out of fuel. -/
theorem frontEnd_terminates_stable (text : List UInt8) :
    ∃ n0, ∀ n, n0 ≤ n → FrontEnd.parse n text ≠ .other "out of fuel" := by
  obtain ⟨m, r, h⟩ := frontEnd_spec_terminates text
  obtain ⟨n0, r', g', h', _⟩ := parse_complete FrontEnd.metaEnv metaEnv_pure metaEnv_noLeftrec "Grammar" text 0 m h
  refine ⟨n0, fun n hn => ?_⟩
  have h'' : parseAdvanced FrontEnd.metaEnv n "Grammar" text 0 = some (r', g') :=
    (eval_mono FrontEnd.metaEnv hn).rule _ _ _ _ h'
  unfold FrontEnd.parse
  rw [h'']
  cases r' with
  | ok v s =>
    simp only
    split
    · intro hc; cases hc
    · intro hc
      injection hc with hc
      exact absurd hc (by decide)
  | err e => intro hc; cases hc
  | panic msg =>
    intro hc
    injection hc with hc
    exact panic_ne_out_of_fuel msg hc

theorem frontEnd_terminates : ∀ text, ∃ n, FrontEnd.parse n text ≠ .other "out of fuel" := by
  intro text
  obtain ⟨n0, h⟩ := frontEnd_terminates_stable text
  exact ⟨n0, h n0 (Nat.le_refl _)⟩

/-! ### a small hand-written grammar that passes, and three that are correctly rejected -/

namespace TermExamples

def x : Expr := .lit false [.chr 'x']
def y : Expr := .lit false [.chr 'y']
def call (r : String) : Expr := .field none false r

/-- `@export Sum = Num {'+' Num} $;  @string @no_skip_ws Num = {Digit}+;  @char Digit = '0'..'9';` -/
def sumGrammar : Grammar := ⟨[
  .rule ⟨[.export], "Sum", .choice [.seq [.field (some (.ident "first")) false "Num",
    .closure (.choice [.seq [.lit false [.chr '+'], .field (some (.ident "rest")) false "Num"]]) false, .eoi]]⟩,
  .rule ⟨[.string, .noSkipWs], "Num", .choice [.seq [.closure (.choice [.seq [call "Digit"]]) true]]⟩,
  .charRule ⟨[], "Digit", [.range (.chr '0') (.chr '9')]⟩]⟩

theorem sumGrammar_wf : wfCheck sumGrammar {} = true := by decide +kernel

/-- hence it terminates on every input, whatever the hooks and the field-analysis fuel -/
example (hooks : Hooks) (nf u : Nat) (inp : List UInt8) :
    ∃ n r, Spec.parse { g := sumGrammar, settings := {}, hooks := hooks, nf := nf } u n "Sum" inp = some r :=
  C01_terminates { g := sumGrammar, settings := {}, hooks := hooks, nf := nf } u sumGrammar_wf "Sum" inp

/-- the rank hypothesis of `C01_terminates_partial` is satisfiable -/
example : ∃ rank : String → Nat, ∀ e ∈ sumGrammar.rules, ∀ c ∈ edgesOf sumGrammar {} 64 e, rank c < rank e.name :=
  ⟨_, rankOk_sound (wfTermN_parts (wfCheckN_term sumGrammar_wf)).2⟩

/-- `A = A 'x' | 'y';` – direct left recursion -/
def leftRec : Grammar := ⟨[.rule ⟨[], "A", .choice [.seq [call "A", x], .seq [y]]⟩]⟩
example : wfCheck leftRec {} = false := by decide +kernel
example : noLeftRecursion leftRec {} 64 = false := by decide +kernel
example : allClosuresOk leftRec 64 = true := by decide +kernel
/-- … also rejected when whitespace is not skipped, and when the rule is marked `@leftrec` -/
example : wfCheck leftRec { skipWhitespace := false } = false := by decide +kernel
example : wfCheck ⟨[.rule ⟨[.leftrec], "A", .choice [.seq [call "A", x], .seq [y]]⟩]⟩ {} = false := by
  decide +kernel

/-- `A = {['x']};` – closure with a nullable body -/
def nullableClosure : Grammar :=
  ⟨[.rule ⟨[], "A", .choice [.seq [.closure (.choice [.seq [.opt (.choice [.seq [x]])]]) false]]⟩]⟩
example : wfCheck nullableClosure {} = false := by decide +kernel
example : allClosuresOk nullableClosure 64 = false := by decide +kernel
example : noLeftRecursion nullableClosure {} 64 = true := by decide +kernel

/-- `A = B 'x'; B = ['y'] A;` – indirect left recursion through a nullable prefix -/
def indirect : Grammar := ⟨[
  .rule ⟨[], "A", .choice [.seq [call "B", x]]⟩,
  .rule ⟨[], "B", .choice [.seq [.opt (.choice [.seq [y]]), call "A"]]⟩]⟩
example : wfCheck indirect {} = false := by decide +kernel
example : noLeftRecursion indirect {} 64 = false := by decide +kernel
/-- the same with a consuming prefix is fine: `A = B 'x' | 'x'; B = 'y' A;` -/
example : wfCheck ⟨[
  .rule ⟨[], "A", .choice [.seq [call "B", x], .seq [x]]⟩,
  .rule ⟨[], "B", .choice [.seq [y, call "A"]]⟩]⟩ {} = true := by decide +kernel

/-- a skipping `Whitespace` rule calls itself before consuming: rejected -/
example : wfCheck ⟨[.rule ⟨[], "Whitespace", .choice [.seq [.closure (.choice [.seq [.lit false [.chr ' ']]]) false]]⟩]⟩ {}
    = false := by decide +kernel
/-- an `@extern` rule may return length 0: a closure over it is rejected -/
example : wfCheck ⟨[.rule ⟨[], "A", .choice [.seq [.closure (.choice [.seq [call "E"]]) false]]⟩,
    .externRule ⟨["f"], none, "E"⟩]⟩ {} = false := by decide +kernel
/-- an include cycle is rejected (the depth fuel runs out) -/
example : wfTermN 64 ⟨[.rule ⟨[], "A", .choice [.seq [x, .incl "A"]]⟩]⟩ {} = false := by decide +kernel
/-- an undefined reference is rejected by `wfCheck` (but harmless for termination: it panics) -/
example : wfCheck ⟨[.rule ⟨[], "A", .choice [.seq [x, call "Nope"]]⟩]⟩ {} = false := by decide +kernel
example : wfTermN 64 ⟨[.rule ⟨[], "A", .choice [.seq [x, call "Nope"]]⟩]⟩ {} = true := by decide +kernel

end TermExamples

end Peg
