import PegVerif.Eval
import PegVerif.Proofs.Basics
/-
  Property C09: "`@position` ranges are exactly the byte span the rule consumed; ranges of nested
  nodes lie inside their parent's range; successive matches do not overlap and are in input order".

  * `OutInv C Q x` – generic outcome invariant (`C` on the global object for every outcome, `Q` on success),
    with `bind` / `orElse` / memo-wrapper combinators (`growLoop_inv`, `memoBody_inv`, `normalRule_inv`).
  * pass 1 (`RecV V`, `eval_V`), generic in a range predicate `V` (`ValPred V`):
      - `V := fun _ _ _ => True`: `offsets_monotone(_rule)`, `cacheMono_preserved(_rule)`   (cache inv `CacheMono`)
      - `V := ValIn`: `C09_nested(_rule/_parse)`   (cache inv `CacheIn`, hook hypothesis `ExternNoPos`)
    plumbing lemmas `defaults_V`, `mergePart_V`, `project_V`, `convertArm_V`, `extendAll_V`, `closureInit_V`,
    `postprocessField_V`.
  * pass 2 (`RecP`, `eval_P`): consistency with the input (`WfSt`) and shape of the value of a `@position`
    rule: `C09_range`, `C09_range_parse`   (cache inv `CachePos env inp`).
  * order: `Grows`, `evalSeq_append`, `evalSeq_grows`, `C09_ordered_evalSeq`, `C09_ordered_two`,
    `evalLoop_grows`, `C09_ordered_evalLoop`, `C09_ordered`.
  * enum rules: `Val.pos?`, `C09_enum_delegates`, `C09_enum_delegates_field`, `postprocessField_delegates`,
    `postprocessField_pos_one`.
-/
namespace Peg

/-! ### generic outcome invariant -/

/-- every finished outcome satisfies the global invariant `C`; a successful one also `Q` -/
def OutInv {α} (C : Global → Prop) (Q : α → St → Prop) (x : Out α) : Prop :=
  ∀ r g', x = some (r, g') → C g' ∧ ∀ v s', r = .ok v s' → Q v s'

theorem OutInv.none {α} {C : Global → Prop} {Q : α → St → Prop} : OutInv C Q none := by
  intro r g' h; cases h

theorem OutInv.ok {α} {C : Global → Prop} {Q : α → St → Prop} {v s g} (hc : C g) (hq : Q v s) :
    OutInv C Q (some (.ok v s, g)) := by
  intro r g' h; cases h
  exact ⟨hc, fun v' s' h => by cases h; exact hq⟩

theorem OutInv.err {α} {C : Global → Prop} {Q : α → St → Prop} {e g} (hc : C g) :
    OutInv C Q (some (.err e, g)) := by
  intro r g' h; cases h
  exact ⟨hc, fun v' s' h => by cases h⟩

theorem OutInv.panic {α} {C : Global → Prop} {Q : α → St → Prop} {m g} (hc : C g) :
    OutInv C Q (some (.panic m, g)) := by
  intro r g' h; cases h
  exact ⟨hc, fun v' s' h => by cases h⟩

theorem OutInv.mono {α} {C : Global → Prop} {Q Q' : α → St → Prop} {x : Out α}
    (h : OutInv C Q x) (hq : ∀ v s, Q v s → Q' v s) : OutInv C Q' x := by
  intro r g' hx
  obtain ⟨hc, hq0⟩ := h r g' hx
  exact ⟨hc, fun v s' hr => hq _ _ (hq0 v s' hr)⟩

theorem OutInv.cache {α} {C : Global → Prop} {Q : α → St → Prop} {x : Out α} (h : OutInv C Q x)
    {r g'} (hx : x = some (r, g')) : C g' := (h r g' hx).1

theorem OutInv.post {α} {C : Global → Prop} {Q : α → St → Prop} {x : Out α} (h : OutInv C Q x)
    {v s' g'} (hx : x = some (.ok v s', g')) : Q v s' := (h _ g' hx).2 v s' rfl

theorem OutInv.bind {α β} {C : Global → Prop} {Q : α → St → Prop} {Q' : β → St → Prop} {x : Out α}
    {k : α → St → Global → Out β} (hx : OutInv C Q x)
    (hk : ∀ v s g, C g → Q v s → OutInv C Q' (k v s g)) : OutInv C Q' (bindR x k) := by
  unfold bindR
  split
  · exact OutInv.none
  · rename_i v s g
    exact hk v s g (hx.cache rfl) (hx.post rfl)
  · exact OutInv.err (hx.cache rfl)
  · exact OutInv.panic (hx.cache rfl)

theorem OutInv.map {α β} {C : Global → Prop} {Q : β → St → Prop} {r : Res α} {f : α → β} {g}
    (hc : C g) (hq : ∀ v s, r = .ok v s → Q (f v) s) : OutInv C Q (some (r.map f, g)) := by
  cases r with
  | ok v s => exact OutInv.ok hc (hq v s rfl)
  | err e => exact OutInv.err hc
  | panic m => exact OutInv.panic hc

theorem OutInv.res {α} {C : Global → Prop} {Q : α → St → Prop} {r : Res α} {g} (hc : C g)
    (hq : ∀ v s, r = .ok v s → Q v s) : OutInv C Q (some (r, g)) := by
  intro r' g' h; cases h
  exact ⟨hc, hq⟩

/-- first success wins, the error of the first computation is dropped (shape of `charParts`) -/
theorem orElse_inv {C : Global → Prop} {Q : Val → St → Prop} {x : Out Val} {rest : Global → Out Val}
    (hx : OutInv C Q x) (hrest : ∀ g, C g → OutInv C Q (rest g)) :
    OutInv C Q (match (generalizing := false) x with
      | none => none
      | some (.ok v s', g') => some (.ok v s', g')
      | some (.err _, g') => rest g'
      | some (.panic m, g') => some (.panic m, g')) := by
  split
  · exact OutInv.none
  · exact OutInv.ok (hx.cache rfl) (hx.post rfl)
  · exact hrest _ (hx.cache rfl)
  · exact OutInv.panic (hx.cache rfl)

/-! ### the matchers never move backwards -/

theorem off_advance {α} {s s' : St} {n : Nat} {v v' : α} (h : s.advance n v = .ok v' s') :
    s'.off = s.off + n := by
  unfold St.advance at h
  split at h
  · cases h
  · cases h; rfl

theorem off_advanceSafe {α} {s s' : St} {n : Nat} {v v' : α} (h : s.advanceSafe n v = .ok v' s') :
    s'.off = s.off + n := by
  unfold St.advanceSafe at h
  split at h
  · cases h
  · split at h
    · cases h
    · cases h; rfl

theorem mono_parseChar {s v s'} (h : parseChar s = .ok v s') : s.off ≤ s'.off := by
  unfold parseChar at h; split at h
  · cases h
  · have := off_advance h; omega

theorem mono_parseWhitespace {s v s'} (h : parseWhitespace s = .ok v s') : s.off ≤ s'.off := by
  unfold parseWhitespace at h; cases h; simp

theorem mono_parseStringLiteral {s l v s'} (h : parseStringLiteral s l = .ok v s') : s.off ≤ s'.off := by
  unfold parseStringLiteral at h; simp only at h; split at h
  · cases h
  · have := off_advance h; omega

theorem mono_parseCharacterLiteral {s c v s'} (h : parseCharacterLiteral s c = .ok v s') :
    s.off ≤ s'.off := by
  unfold parseCharacterLiteral at h
  split at h
  · split at h
    · cases h
    · split at h
      · cases h
      · have := off_advance h; omega
  · split at h
    · cases h
    · have := off_advance h; omega

theorem mono_parseCharacterRange {s lo hi v s'} (h : parseCharacterRange s lo hi = .ok v s') :
    s.off ≤ s'.off := by
  unfold parseCharacterRange at h
  split at h
  · split at h
    · cases h
    · split at h
      · cases h
      · have := off_advance h; omega
  · split at h
    · cases h
    · split at h
      · cases h
      · have := off_advance h; omega

theorem mono_parseStringLiteralInsensitive {s l v s'} (h : parseStringLiteralInsensitive s l = .ok v s') :
    s.off ≤ s'.off := by
  unfold parseStringLiteralInsensitive at h; simp only at h; split at h
  · cases h
  · have := off_advance h; omega

theorem mono_parseCharacterLiteralInsensitive {s c v s'}
    (h : parseCharacterLiteralInsensitive s c = .ok v s') : s.off ≤ s'.off := by
  unfold parseCharacterLiteralInsensitive at h
  split at h
  · cases h
  · split at h
    · cases h
    · have := off_advance h; omega

theorem mono_parseEndOfInput {s v s'} (h : parseEndOfInput s = .ok v s') : s.off ≤ s'.off := by
  unfold parseEndOfInput at h; split at h
  · cases h; exact Nat.le_refl _
  · cases h

/-! ### position ranges inside a value -/

/-- all `position` ranges `(a, b)` occurring anywhere in the value satisfy `lo ≤ a ∧ a ≤ b ∧ b ≤ hi` -/
inductive ValIn (lo hi : Nat) : Val → Prop
  | unit : ValIn lo hi .unit
  | chr (c : Char) : ValIn lo hi (.chr c)
  | str (bs : List UInt8) : ValIn lo hi (.str bs)
  | node (n : String) (fs : List (String × Val)) (pos : Option (Nat × Nat)) :
      (∀ p ∈ fs, ValIn lo hi p.2) → (∀ a b, pos = Option.some (a, b) → lo ≤ a ∧ a ≤ b ∧ b ≤ hi) →
      ValIn lo hi (.node n fs pos)
  | variant (c : String) (v : Val) : ValIn lo hi v → ValIn lo hi (.variant c v)
  | boxed (v : Val) : ValIn lo hi v → ValIn lo hi (.boxed v)
  | some (v : Val) : ValIn lo hi v → ValIn lo hi (.some v)
  | none : ValIn lo hi .none
  | list (vs : List Val) : (∀ v ∈ vs, ValIn lo hi v) → ValIn lo hi (.list vs)
  | ext (k : String) (n : Nat) : ValIn lo hi (.ext k n)

/-- weakening: a larger interval -/
theorem ValIn.weaken {lo hi lo' hi' : Nat} {v : Val} (h1 : lo' ≤ lo) (h2 : hi ≤ hi') (h : ValIn lo hi v) :
    ValIn lo' hi' v := by
  induction h with
  | unit => exact .unit
  | chr c => exact .chr c
  | str bs => exact .str bs
  | node n fs pos _ hp ih =>
    refine .node n fs pos ih (fun a b hab => ?_)
    have := hp a b hab
    omega
  | variant c v _ ih => exact .variant c v ih
  | boxed v _ ih => exact .boxed v ih
  | some v _ ih => exact .some v ih
  | none => exact .none
  | list vs _ ih => exact .list vs ih
  | ext k n => exact .ext k n

theorem ValIn.list_inv {lo hi : Nat} {vs : List Val} (h : ValIn lo hi (.list vs)) : ∀ v ∈ vs, ValIn lo hi v := by
  cases h with
  | list _ h => exact h

theorem ValIn.node_inv {lo hi : Nat} {n fs pos} (h : ValIn lo hi (.node n fs pos)) :
    (∀ p ∈ fs, ValIn lo hi p.2) ∧ (∀ a b, pos = Option.some (a, b) → lo ≤ a ∧ a ≤ b ∧ b ≤ hi) := by
  cases h with
  | node _ _ _ h1 h2 => exact ⟨h1, h2⟩

/-- the closure properties of a "range predicate" on values used by the evaluator pass; instantiated with
    `fun _ _ _ => True` (pure offset monotonicity) and with `ValIn` -/
structure ValPred (V : Nat → Nat → Val → Prop) : Prop where
  weaken : ∀ {lo hi lo' hi' v}, lo' ≤ lo → hi ≤ hi' → V lo hi v → V lo' hi' v
  unit : ∀ lo hi, V lo hi .unit
  chr : ∀ lo hi c, V lo hi (.chr c)
  str : ∀ lo hi bs, V lo hi (.str bs)
  none : ∀ lo hi, V lo hi .none
  some : ∀ {lo hi v}, V lo hi v → V lo hi (.some v)
  boxed : ∀ {lo hi v}, V lo hi v → V lo hi (.boxed v)
  variant : ∀ {lo hi v} c, V lo hi v → V lo hi (.variant c v)
  list : ∀ {lo hi vs}, (∀ v ∈ vs, V lo hi v) → V lo hi (.list vs)
  list_inv : ∀ {lo hi vs}, V lo hi (.list vs) → ∀ v ∈ vs, V lo hi v
  node : ∀ {lo hi} n {fs : List (String × Val)} {pos : Option (Nat × Nat)}, (∀ p ∈ fs, V lo hi p.2) →
    (∀ a b, pos = Option.some (a, b) → lo ≤ a ∧ a ≤ b ∧ b ≤ hi) → V lo hi (.node n fs pos)

theorem ValPred.trivial : ValPred (fun _ _ _ => True) := by
  constructor <;> intros <;> trivial

theorem ValPred.valIn : ValPred ValIn where
  weaken := ValIn.weaken
  unit := fun _ _ => .unit
  chr := fun _ _ c => .chr c
  str := fun _ _ bs => .str bs
  none := fun _ _ => .none
  some := fun h => .some _ h
  boxed := fun h => .boxed _ h
  variant := fun c h => .variant c _ h
  list := fun h => .list _ h
  list_inv := ValIn.list_inv
  node := fun n _ _ h1 h2 => .node n _ _ h1 h2

/-- all values of a `Parsed` satisfy `P` -/
def AllV (P : Val → Prop) (p : Parsed) : Prop := ∀ x ∈ p, P x.2

theorem AllV.nil {P : Val → Prop} : AllV P [] := by intro x hx; cases hx

theorem AllV.cons {P : Val → Prop} {n v p} (hv : P v) (hp : AllV P p) : AllV P ((n, v) :: p) := by
  intro x hx
  rcases List.mem_cons.mp hx with rfl | hx
  · exact hv
  · exact hp x hx

theorem AllV.single {P : Val → Prop} {n v} (hv : P v) : AllV P [(n, v)] := AllV.cons hv AllV.nil

theorem AllV.imp {P P' : Val → Prop} {p} (h : ∀ v, P v → P' v) (hp : AllV P p) : AllV P' p :=
  fun x hx => h _ (hp x hx)

theorem Parsed.get_mem {p : Parsed} {n v} (h : p.get n = some v) : ∃ x ∈ p, x.2 = v := by
  unfold Parsed.get at h
  cases hf : p.find? (·.1 == n) with
  | none => simp [hf] at h
  | some x =>
    simp only [hf, Option.map_some, Option.some.injEq] at h
    exact ⟨x, List.mem_of_find?_eq_some hf, h⟩

theorem AllV.get {P : Val → Prop} {p : Parsed} {n v} (hp : AllV P p) (h : p.get n = some v) : P v := by
  obtain ⟨x, hx, rfl⟩ := Parsed.get_mem h
  exact hp x hx

theorem Parsed.mem_set {p : Parsed} {n v x} (h : x ∈ p.set n v) : x ∈ p ∨ x = (n, v) := by
  unfold Parsed.set at h
  split at h
  · obtain ⟨kv, hkv, heq⟩ := List.mem_map.mp h
    split at heq
    · exact Or.inr heq.symm
    · exact Or.inl (heq ▸ hkv)
  · rcases List.mem_append.mp h with h | h
    · exact Or.inl h
    · exact Or.inr (by simpa using h)

theorem AllV.set {P : Val → Prop} {p : Parsed} {n v} (hp : AllV P p) (hv : P v) : AllV P (p.set n v) := by
  intro x hx
  rcases Parsed.mem_set hx with h | rfl
  · exact hp x h
  · exact hv

/-! ### the plumbing helpers only rearrange / wrap values -/

section plumbing
variable {V : Nat → Nat → Val → Prop} (hV : ValPred V) {lo hi : Nat}
include hV

theorem defaultField_V {f : FieldDesc} {v} (h : defaultField f = .ok v) : V lo hi v := by
  unfold defaultField at h
  split at h
  · cases h
  · cases h; exact hV.none _ _
  · cases h; exact hV.list (fun v hv => by cases hv)

theorem defaults_V : ∀ {fs : List FieldDesc} {p}, defaults fs = .ok p → AllV (V lo hi) p := by
  intro fs
  induction fs with
  | nil => intro p h; simp only [defaults] at h; cases h; exact AllV.nil
  | cons f fs ih =>
    intro p h
    simp only [defaults] at h
    split at h
    · rename_i v p' hv hp
      cases h
      exact AllV.cons (defaultField_V hV hv) (ih hp)
    · cases h
    · cases h

theorem extendVal_V {a b c : Val} (h : extendVal a b = .ok c) (ha : V lo hi a) (hb : V lo hi b) : V lo hi c := by
  unfold extendVal at h
  split at h
  · cases h
    refine hV.list (fun v hv => ?_)
    rcases List.mem_append.mp hv with hv | hv
    · exact hV.list_inv ha v hv
    · exact hV.list_inv hb v hv
  · cases h

theorem mergePart_V : ∀ {fs : List FieldDesc} {seen acc r seen' acc'},
    mergePart fs seen acc r = .ok (seen', acc') → AllV (V lo hi) acc → AllV (V lo hi) r → AllV (V lo hi) acc' := by
  intro fs
  induction fs with
  | nil => intro seen acc r seen' acc' h hacc _; simp only [mergePart] at h; cases h; exact hacc
  | cons f fs ih =>
    intro seen acc r seen' acc' h hacc hr
    simp only [mergePart] at h
    split at h
    · cases h
    · rename_i v hv
      split at h
      · exact ih h (hacc.set (hr.get hv)) hr
      · split at h
        · cases h
        · split at h
          · cases h
          · rename_i old hold
            split at h
            · cases h
            · rename_i nv hnv
              exact ih h (hacc.set (extendVal_V hV hnv (hacc.get hold) (hr.get hv))) hr

omit hV in
theorem project_V : ∀ {fs : List FieldDesc} {env p}, project fs env = .ok p → AllV (V lo hi) env →
    AllV (V lo hi) p := by
  intro fs
  induction fs with
  | nil => intro env p h _; simp only [project] at h; cases h; exact AllV.nil
  | cons f fs ih =>
    intro env p h henv
    simp only [project] at h
    split at h
    · rename_i v p' hv hp
      cases h
      exact AllV.cons (henv.get hv) (ih hp henv)
    · cases h
    · cases h

theorem convertArm_go_V {inner : List FieldDesc} {r : Parsed} (hr : AllV (V lo hi) r) :
    ∀ {fs : List FieldDesc} {p}, convertArm.go inner r fs = .ok p → AllV (V lo hi) p := by
  intro fs
  induction fs with
  | nil => intro p h; simp only [convertArm.go] at h; cases h; exact AllV.nil
  | cons f fs ih =>
    intro p h
    simp only [convertArm.go] at h
    split at h
    · rename_i v p' hv hp
      cases h
      refine AllV.cons ?_ (ih hp)
      split at hv
      · split at hv
        · rename_i v0 hg; cases hv; exact hr.get hg
        · cases hv
      · exact defaultField_V hV hv
    · cases h
    · cases h

theorem convertArm_V {fields inner : List FieldDesc} {r p : Parsed} (h : convertArm fields inner r = .ok p)
    (hr : AllV (V lo hi) r) : AllV (V lo hi) p := by
  unfold convertArm at h
  split at h
  · cases h; exact AllV.nil
  · split at h
    · split at h
      · rename_i v hv; cases h; exact AllV.single (defaultField_V hV hv)
      · cases h
    · split at h
      · rename_i v hv; cases h; exact AllV.single (hr.get hv)
      · cases h
  · exact convertArm_go_V hV hr h

theorem extendAll_V : ∀ {fs : List FieldDesc} {acc r acc'}, extendAll fs acc r = .ok acc' →
    AllV (V lo hi) acc → AllV (V lo hi) r → AllV (V lo hi) acc' := by
  intro fs
  induction fs with
  | nil => intro acc r acc' h hacc _; simp only [extendAll] at h; cases h; exact hacc
  | cons f fs ih =>
    intro acc r acc' h hacc hr
    simp only [extendAll] at h
    split at h
    · rename_i a b ha hb
      split at h
      · rename_i v hv
        exact ih h (hacc.set (extendVal_V hV hv (hacc.get ha) (hr.get hb))) hr
      · cases h
    · cases h

theorem closureInit_V : ∀ {fs : List FieldDesc} {p}, closureInit fs = .ok p → AllV (V lo hi) p := by
  intro fs
  induction fs with
  | nil => intro p h; simp only [closureInit] at h; cases h; exact AllV.nil
  | cons f fs ih =>
    intro p h
    simp only [closureInit] at h
    split at h
    · cases h
    · split at h
      · rename_i p' hp; cases h
        exact AllV.cons (hV.list (fun v hv => by cases hv)) (ih hp)
      · cases h

theorem postprocessField_V {rf : List FieldDesc} {name typ : String} {v fv : Val}
    (h : postprocessField rf name typ v = .ok fv) (hv : V lo hi v) : V lo hi fv := by
  unfold postprocessField at h
  split at h
  · cases h
  · rename_i f _
    split at h
    · cases h
    · rename_i boxed _
      simp only [Except.ok.injEq] at h
      have h1 : V lo hi (if boxed = true then Val.boxed v else v) := by
        split
        · exact hV.boxed hv
        · exact hv
      have h2 : V lo hi (if f.types.length > 1 then Val.variant typ (if boxed = true then Val.boxed v else v)
          else (if boxed = true then Val.boxed v else v)) := by
        split
        · exact hV.variant _ h1
        · exact h1
      rw [← h]
      split
      · exact h2
      · exact hV.some h2
      · exact hV.list (fun x hx => by
          rcases List.mem_singleton.mp hx with rfl
          exact h2)

end plumbing

/-! ### pass 1: offsets are monotone, values lie in the consumed interval

One pass over the evaluator, generic in a range predicate `V` (`ValPred V`).  `V := fun _ _ _ => True` gives
`offsets_monotone`; `V := ValIn` gives `C09_nested`. -/

/-- a global invariant that only looks at the cache -/
def CacheOnly (C : Global → Prop) : Prop := ∀ g g' : Global, g'.cache = g.cache → C g → C g'

theorem CacheOnly.emit {C} (hC : CacheOnly C) {g : Global} (e : Ev) (h : C g) : C (g.emit e) := hC g (g.emit e) rfl h

theorem CacheOnly.uctx {C} (hC : CacheOnly C) {g : Global} (u : Nat) (h : C g) : C { g with uctx := u } :=
  hC g { g with uctx := u } rfl h

/-- cache invariant: a cached success ends at or after the offset of its key and its value lies in between -/
def CacheV (V : Nat → Nat → Val → Prop) (g : Global) : Prop :=
  ∀ name off v s', g.lookup (name, off) = some (.ok v s') → off ≤ s'.off ∧ V off s'.off v

theorem CacheV.cacheOnly (V) : CacheOnly (CacheV V) := by
  intro g g' hc h name off v s' hl
  apply h name off v s'
  unfold Global.lookup at hl ⊢
  rw [← hc]; exact hl

theorem CacheV.init (V) (u : Nat) : CacheV V (Global.init u) := by
  intro name off v s' hl
  simp [Global.lookup, Global.init] at hl

theorem CacheV.insert {V} {g : Global} {name : String} {off : Nat} {r : Res Val} (hg : CacheV V g)
    (hr : ∀ v s', r = .ok v s' → off ≤ s'.off ∧ V off s'.off v) : CacheV V (g.insert (name, off) r) := by
  intro name' off' v s' hl
  rw [lookup_insert] at hl
  split at hl
  · rename_i hk
    simp only [beq_iff_eq, Prod.mk.injEq] at hk
    obtain ⟨rfl, rfl⟩ := hk
    simp only [Option.some.injEq] at hl
    exact hr v s' hl
  · exact hg _ _ _ _ hl

/-- user extern functions return values satisfying `V` on every interval (for `ValIn`: values without positions) -/
def ExternV (V : Nat → Nat → Val → Prop) (hooks : Hooks) : Prop :=
  ∀ fname rest u v adv u', hooks.extern fname rest u = (.ok (v, adv), u') → ∀ lo hi, V lo hi v

def PostE (V : Nat → Nat → Val → Prop) (s : St) (p : Parsed) (s' : St) : Prop :=
  s.off ≤ s'.off ∧ AllV (V s.off s'.off) p

def PostR (V : Nat → Nat → Val → Prop) (s : St) (v : Val) (s' : St) : Prop :=
  s.off ≤ s'.off ∧ V s.off s'.off v

structure RecV (V : Nat → Nat → Val → Prop) (rec : Rec) : Prop where
  expr : ∀ ctx e s g, CacheV V g → OutInv (CacheV V) (PostE V s) (rec.expr ctx e s g)
  rule : ∀ name s g, CacheV V g → OutInv (CacheV V) (PostR V s) (rec.rule name s g)

theorem runChecks_inv {env : Env} {C : Global → Prop} (hC : CacheOnly C) {Q : Val → St → Prop} :
    ∀ fs v s g, C g → Q v s → OutInv C Q (runChecks env fs v s g) := by
  intro fs
  induction fs with
  | nil => intro v s g hg hq; exact OutInv.ok hg hq
  | cons f fs ih =>
    intro v s g hg hq
    simp only [runChecks]
    split
    · exact OutInv.err (hC.emit _ (hC.uctx _ hg))
    · exact ih _ _ _ (hC.emit _ (hC.uctx _ hg)) hq

/-! ### the memoization wrappers, for any cache-only invariant `C` and rule postcondition `Q` -/

theorem growLoop_inv {C : Global → Prop} (hC : CacheOnly C) {Q : Val → St → Prop}
    {body : St → Global → Out Val} {key : String × Nat} {s : St}
    (hins : ∀ g r, C g → (∀ v s', r = .ok v s' → Q v s') → C (g.insert key r))
    (hbody : ∀ g, C g → OutInv C Q (body s g)) :
    ∀ k best g, C g → (∀ v s', best = .ok v s' → Q v s') → OutInv C Q (growLoop body key s k best g) := by
  intro k
  induction k with
  | zero => intro best g _ _; exact OutInv.none
  | succ k ih =>
    intro best g hg hbest
    have hb := hbody _ (hC.emit (.bodyEval key.1 key.2) (hC.emit (.info "Starting new left recursive loop") hg))
    simp only [growLoop]
    split
    · exact OutInv.none
    · rename_i hx; exact OutInv.panic (hb.cache hx)
    · rename_i v ns g' hx
      have hq := hb.post hx
      have hnew : ∀ v' s', Res.ok v ns = .ok v' s' → Q v' s' := fun v' s' h => by cases h; exact hq
      have hins' : C (g'.insert key (.ok v ns)) := hins _ _ (hb.cache hx) hnew
      split
      · split
        · exact ih _ _ hins' hnew
        · exact OutInv.res (hb.cache hx) hbest
      · exact ih _ _ hins' hnew
    · rename_i e g' hx
      split
      · exact OutInv.res (hb.cache hx) hbest
      · exact OutInv.err (hins _ _ (hb.cache hx) (fun v' s' h => by cases h))

theorem memoBody_inv {C : Global → Prop} (hC : CacheOnly C) {Q : Val → St → Prop}
    {body : St → Global → Out Val} {name : String} {s : St}
    (hins : ∀ g r, C g → (∀ v s', r = .ok v s' → Q v s') → C (g.insert (name, s.off) r))
    (hlook : ∀ g v s', C g → g.lookup (name, s.off) = some (.ok v s') → Q v s')
    (hbody : ∀ g, C g → OutInv C Q (body s g)) (flags : RuleFlags) (n : Nat) (g : Global) (hg : C g) :
    OutInv C Q (memoBody flags name body n s g) := by
  simp only [memoBody]
  split
  · split
    · rename_i cached hc
      exact OutInv.res (hC.emit _ hg) (fun v s' h => by subst h; exact hlook _ _ _ hg hc)
    · exact growLoop_inv hC hins hbody _ _ _ (hins _ _ hg (fun v' s' h => by cases h))
        (fun v' s' h => by cases h)
  · split
    · split
      · rename_i cached hc
        exact OutInv.res (hC.emit _ hg) (fun v s' h => by subst h; exact hlook _ _ _ hg hc)
      · have hb := hbody _ (hC.emit (.bodyEval name s.off) hg)
        split
        · exact OutInv.none
        · rename_i hx; exact OutInv.panic (hb.cache hx)
        · rename_i r g' _ hx
          obtain ⟨hc, hq⟩ := hb _ _ hx
          exact OutInv.res (hins _ _ hc hq) hq
    · exact hbody g hg

theorem traceResult_cache (g : Global) (r : Res Val) : (traceResult g r).cache = g.cache := by
  cases r <;> rfl

theorem normalRule_inv {env : Env} {rec : Rec} {C : Global → Prop} (hC : CacheOnly C) {Q : Val → St → Prop}
    {r : Rule} {s : St}
    (hins : ∀ g res, C g → (∀ v s', res = .ok v s' → Q v s') → C (g.insert (r.name, s.off) res))
    (hlook : ∀ g v s', C g → g.lookup (r.name, s.off) = some (.ok v s') → Q v s')
    (hbody : ∀ g, C g → OutInv C Q (ruleBody env rec r s g)) (n : Nat) (g : Global) (hg : C g) :
    OutInv C Q (normalRule env rec n r s g) := by
  have hm := memoBody_inv hC hins hlook hbody r.flags n (g.emit (.traceStart r.name s.off)) (hC.emit _ hg)
  simp only [normalRule]
  split
  · exact OutInv.none
  · rename_i res g' hx
    obtain ⟨hc, hq⟩ := hm _ _ hx
    exact OutInv.res (hC _ _ (traceResult_cache g' res) hc) hq

theorem charChecks_cache (env : Env) (name : String) :
    ∀ fs c s (g : Global), (charChecks env name fs c s g).2.cache = g.cache := by
  intro fs
  induction fs with
  | nil => intro c s g; rfl
  | cons f fs ih =>
    intro c s g
    simp only [charChecks]
    split
    · rfl
    · rw [ih]; rfl

section pass1
variable {V : Nat → Nat → Val → Prop} (hV : ValPred V) {env : Env} {rec : Rec}

theorem withSkipWs_V {α} (hrec : RecV V rec) {ctx : Ctx} {s : St} {g : Global} {k : St → Global → Out α}
    {Q : α → St → Prop} (hg : CacheV V g)
    (hk : ∀ s1 g1, s.off ≤ s1.off → CacheV V g1 → OutInv (CacheV V) Q (k s1 g1)) :
    OutInv (CacheV V) Q (withSkipWs rec ctx s g k) := by
  unfold withSkipWs
  split
  · exact (hrec.rule _ _ _ hg).bind (fun _ s1 g1 hg1 hq => hk s1 g1 hq.1 hg1)
  · exact hk s g (Nat.le_refl _) hg

include hV

theorem evalSeq_V (hrec : RecV V rec) {ctx : Ctx} :
    ∀ ps seen acc s g lo, CacheV V g → lo ≤ s.off → AllV (V lo s.off) acc →
      OutInv (CacheV V) (fun (x : List String × Parsed) s' => s.off ≤ s'.off ∧ AllV (V lo s'.off) x.2)
        (evalSeq env rec ctx ps seen acc s g) := by
  intro ps
  induction ps with
  | nil =>
    intro seen acc s g lo hg _ hacc
    exact OutInv.ok hg ⟨Nat.le_refl _, hacc⟩
  | cons p ps ih =>
    intro seen acc s g lo hg hlo hacc
    rw [evalSeq]
    refine (hrec.expr ctx p s g hg).bind (fun r s1 g1 hg1 hq => ?_)
    obtain ⟨hle, hr⟩ := hq
    cases hm : mergePart (filterRuleFields ctx.ruleFields (ownFields env p)) seen acc r with
    | error m => simp only [hm]; exact OutInv.panic hg1
    | ok x =>
      obtain ⟨seen', acc'⟩ := x
      simp only [hm]
      have hacc' : AllV (V lo s1.off) acc' :=
        mergePart_V hV hm (hacc.imp fun v hv => hV.weaken (Nat.le_refl _) hle hv)
          (hr.imp fun v hv => hV.weaken hlo (Nat.le_refl _) hv)
      refine (ih seen' acc' s1 g1 lo hg1 (Nat.le_trans hlo hle) hacc').mono (fun x s' hx => ?_)
      exact ⟨Nat.le_trans hle hx.1, hx.2⟩

theorem evalAlts_V (hrec : RecV V rec) {ctx : Ctx} {fields : List FieldDesc} :
    ∀ as s g, CacheV V g → OutInv (CacheV V) (PostE V s) (evalAlts env rec ctx fields as s g) := by
  intro as
  induction as with
  | nil => intro s g hg; exact OutInv.err hg
  | cons a as ih =>
    intro s g hg
    have ha := hrec.expr ctx a s g hg
    rw [evalAlts]
    split
    · exact OutInv.none
    · rename_i r s' g' hx
      obtain ⟨hle, hr⟩ := ha.post hx
      split
      · rename_i p hp
        exact OutInv.ok (ha.cache hx) ⟨hle, convertArm_V hV hp hr⟩
      · exact OutInv.panic (ha.cache hx)
    · rename_i e g' hx
      refine (ih (s.recordError e) g' (ha.cache hx)).mono (fun p s' hp => ?_)
      simpa only [PostE, recordError_off] using hp
    · rename_i m g' hx
      exact OutInv.panic (ha.cache hx)

theorem evalLoop_V {body : St → Global → Out Parsed}
    (hbody : ∀ s g, CacheV V g → OutInv (CacheV V) (PostE V s) (body s g)) {fields : List FieldDesc} :
    ∀ k iters acc s g lo, CacheV V g → lo ≤ s.off → AllV (V lo s.off) acc →
      OutInv (CacheV V) (fun (x : Nat × Parsed) s' => s.off ≤ s'.off ∧ AllV (V lo s'.off) x.2)
        (evalLoop body fields k iters acc s g) := by
  intro k
  induction k with
  | zero => intro iters acc s g lo _ _ _; exact OutInv.none
  | succ k ih =>
    intro iters acc s g lo hg hlo hacc
    have hb := hbody s g hg
    rw [evalLoop]
    split
    · exact OutInv.none
    · rename_i r s1 g1 hx
      obtain ⟨hle, hr⟩ := hb.post hx
      split
      · rename_i acc' hacc'
        have h2 : AllV (V lo s1.off) acc' :=
          extendAll_V hV hacc' (hacc.imp fun v hv => hV.weaken (Nat.le_refl _) hle hv)
            (hr.imp fun v hv => hV.weaken hlo (Nat.le_refl _) hv)
        refine (ih (iters + 1) acc' s1 g1 lo (hb.cache hx) (Nat.le_trans hlo hle) h2).mono (fun x s' hx => ?_)
        exact ⟨Nat.le_trans hle hx.1, hx.2⟩
      · exact OutInv.panic (hb.cache hx)
    · rename_i e g1 hx
      refine OutInv.ok (hb.cache hx) ?_
      simp only [recordError_off]
      exact ⟨Nat.le_refl _, hacc⟩
    · rename_i m g1 hx
      exact OutInv.panic (hb.cache hx)

theorem stepExpr_V (hrec : RecV V rec) (n : Nat) (ctx : Ctx) (e : Expr) (s : St) (g : Global)
    (hg : CacheV V g) : OutInv (CacheV V) (PostE V s) (stepExpr env rec n ctx e s g) := by
  have hnil : PostE V s [] s := ⟨Nat.le_refl _, AllV.nil⟩
  cases e with
  | choice alts =>
    match alts with
    | [] => exact OutInv.panic hg
    | [a] => exact hrec.expr ctx a s g hg
    | a :: b :: rest => exact evalAlts_V hV hrec _ _ _ hg
  | seq parts =>
    match parts with
    | [] => exact OutInv.ok hg hnil
    | [a] => exact hrec.expr ctx a s g hg
    | a :: b :: rest =>
      refine (evalSeq_V hV hrec (a :: b :: rest) [] [] s g s.off hg (Nat.le_refl _) AllV.nil).bind
        (fun x s' g' hg' hq => ?_)
      obtain ⟨seen, acc⟩ := x
      simp only []
      split
      · rename_i p hp
        exact OutInv.ok hg' ⟨hq.1, project_V hp hq.2⟩
      · exact OutInv.panic hg'
  | group b => exact hrec.expr ctx b s g hg
  | opt b =>
    have hb := hrec.expr ctx b s g hg
    simp only [stepExpr]
    split
    · exact OutInv.none
    · rename_i r s' g' hx
      exact OutInv.ok (hb.cache hx) (hb.post hx)
    · rename_i err g' hx
      split
      · rename_i p hp
        refine OutInv.ok (hb.cache hx) ⟨by simp, ?_⟩
        simp only [recordError_off]
        exact defaults_V hV hp
      · exact OutInv.panic (hb.cache hx)
    · rename_i m g' hx
      exact OutInv.panic (hb.cache hx)
  | closure b atLeastOne =>
    simp only [stepExpr]
    split
    · exact OutInv.panic hg
    · rename_i init hinit
      refine (evalLoop_V hV (hrec.expr ctx b) n 0 init s g s.off hg (Nat.le_refl _)
        (closureInit_V hV hinit)).bind (fun x s' g' hg' hq => ?_)
      obtain ⟨iters, acc⟩ := x
      simp only []
      split
      · exact OutInv.err hg'
      · exact OutInv.ok hg' hq
  | neg b =>
    have hb := hrec.expr ctx b s g hg
    simp only [stepExpr]
    split
    · exact OutInv.none
    · rename_i hx; exact OutInv.err (hb.cache hx)
    · rename_i hx; exact OutInv.ok (hb.cache hx) hnil
    · rename_i hx; exact OutInv.panic (hb.cache hx)
  | pos b =>
    exact (hrec.expr ctx b s g hg).bind (fun _ _ g' hg' _ => OutInv.ok hg' hnil)
  | range lo hi =>
    simp only [stepExpr]
    split
    · refine withSkipWs_V hrec hg (fun s1 g1 hle hg1 => OutInv.map hg1 (fun v s' hr => ?_))
      exact ⟨Nat.le_trans hle (mono_parseCharacterRange hr), AllV.nil⟩
    · exact OutInv.panic hg
  | lit ins body =>
    simp only [stepExpr]
    split
    · rename_i m _
      refine withSkipWs_V hrec hg (fun s1 g1 hle hg1 => ?_)
      cases m with
      | charLit c =>
        exact OutInv.map hg1 (fun v s' hr => ⟨Nat.le_trans hle (mono_parseCharacterLiteral hr), AllV.nil⟩)
      | strLit l =>
        exact OutInv.map hg1 (fun v s' hr => ⟨Nat.le_trans hle (mono_parseStringLiteral hr), AllV.nil⟩)
      | charLitI c =>
        exact OutInv.map hg1
          (fun v s' hr => ⟨Nat.le_trans hle (mono_parseCharacterLiteralInsensitive hr), AllV.nil⟩)
      | strLitI l =>
        exact OutInv.map hg1
          (fun v s' hr => ⟨Nat.le_trans hle (mono_parseStringLiteralInsensitive hr), AllV.nil⟩)
    · exact OutInv.panic hg
  | eoi =>
    refine withSkipWs_V hrec hg (fun s1 g1 hle hg1 => OutInv.map hg1 (fun v s' hr => ?_))
    exact ⟨Nat.le_trans hle (mono_parseEndOfInput hr), AllV.nil⟩
  | incl r =>
    simp only [stepExpr]
    split
    · exact OutInv.panic hg
    · exact hrec.expr ctx _ s g hg
  | field name boxed typ =>
    simp only [stepExpr]
    refine withSkipWs_V hrec hg (fun s1 g1 hle hg1 => ?_)
    refine (hrec.rule typ s1 g1 hg1).bind (fun v s' g' hg' hq => ?_)
    have hle' : s.off ≤ s'.off := Nat.le_trans hle hq.1
    cases name with
    | none => exact OutInv.ok hg' ⟨hle', AllV.nil⟩
    | some nm =>
      simp only []
      split
      · rename_i fv hp
        exact OutInv.ok hg' ⟨hle', AllV.single (postprocessField_V hV hp (hV.weaken hle (Nat.le_refl _) hq.2))⟩
      · exact OutInv.panic hg'

/-! #### rule level -/

theorem ruleBody_V (hrec : RecV V rec) (r : Rule) (s : St) (g : Global) (hg : CacheV V g) :
    OutInv (CacheV V) (PostR V s) (ruleBody env rec r s g) := by
  have hC := CacheV.cacheOnly V
  simp only [ruleBody]
  split
  · rename_i fields hf
    split
    · refine (hrec.expr _ _ s g hg).bind (fun _ s' g' hg' hq => ?_)
      refine runChecks_inv hC _ _ _ _ hg' ⟨hq.1, ?_⟩
      split
      · refine hV.node _ (fun p hp => ?_) (fun a b hab => ?_)
        · rcases List.mem_singleton.mp hp with rfl
          exact hV.str _ _ _
        · cases hab
          exact ⟨Nat.le_refl _, hq.1, Nat.le_refl _⟩
      · exact hV.str _ _ _
    · split
      · refine (hrec.expr _ _ s g hg).bind (fun p s' g' hg' hq => ?_)
        split
        · rename_i v hv
          exact runChecks_inv hC _ _ _ _ hg' ⟨hq.1, hq.2.get hv⟩
        · exact OutInv.panic hg'
      · split
        · exact OutInv.panic hg
        · refine (hrec.expr _ _ s g hg).bind (fun p s' g' hg' hq => ?_)
          split
          · rename_i fs hp
            refine runChecks_inv hC _ _ _ _ hg' ⟨hq.1, ?_⟩
            refine hV.node _ (project_V hp hq.2) (fun a b hab => ?_)
            split at hab
            · cases hab
              exact ⟨Nat.le_refl _, hq.1, Nat.le_refl _⟩
            · cases hab
          · exact OutInv.panic hg'
  · exact OutInv.panic hg

theorem normalRule_V (hrec : RecV V rec) (n : Nat) (r : Rule) (s : St) (g : Global) (hg : CacheV V g) :
    OutInv (CacheV V) (PostR V s) (normalRule env rec n r s g) :=
  normalRule_inv (CacheV.cacheOnly V) (fun _ _ hg hr => CacheV.insert hg hr)
    (fun _ _ _ hg hl => hg _ _ _ _ hl) (fun g hg => ruleBody_V hV hrec r s g hg) n g hg

theorem charParts_V (hrec : RecV V rec) (name : String) :
    ∀ ps s g, CacheV V g → OutInv (CacheV V) (PostR V s) (charParts rec name ps s g) := by
  intro ps
  induction ps with
  | nil => intro s g hg; exact OutInv.err hg
  | cons p ps ih =>
    intro s g hg
    cases p with
    | chr item =>
      refine orElse_inv ?_ (fun g' hg' => ih s g' hg')
      simp only []
      split
      · exact OutInv.map hg (fun v s' hr => ⟨mono_parseCharacterLiteral hr, hV.chr _ _ _⟩)
      · exact OutInv.panic hg
    | range lo hi =>
      refine orElse_inv ?_ (fun g' hg' => ih s g' hg')
      simp only []
      split
      · exact OutInv.map hg (fun v s' hr => ⟨mono_parseCharacterRange hr, hV.chr _ _ _⟩)
      · exact OutInv.panic hg
    | ident id => exact orElse_inv (hrec.rule id s g hg) (fun g' hg' => ih s g' hg')

theorem charRule_V (hrec : RecV V rec) (r : CharRule) (s : St) (g : Global) (hg : CacheV V g) :
    OutInv (CacheV V) (PostR V s) (charRule env rec r s g) := by
  have hC := CacheV.cacheOnly V
  simp only [charRule]
  split
  · exact charParts_V hV hrec _ _ _ _ hg
  · split
    · exact OutInv.err hg
    · rename_i c _
      have hcc := charChecks_cache env r.name r.directives c s g
      have hg1 : CacheV V (charChecks env r.name r.directives c s g).2 := hC _ _ hcc hg
      split
      · rename_i e g' heq
        rw [heq] at hg1
        exact OutInv.err hg1
      · rename_i g' heq
        rw [heq] at hg1
        exact charParts_V hV hrec _ _ _ _ hg1

omit hV in
theorem externRule_V (hext : ExternV V env.hooks) (r : ExternRule) (s : St) (g : Global) (hg : CacheV V g) :
    OutInv (CacheV V) (PostR V s) (externRule env r s g) := by
  have hC := CacheV.cacheOnly V
  simp only [externRule]
  split
  · rename_i v adv heq
    refine OutInv.res (hC.emit _ (hC.uctx _ hg)) (fun v' s' hr => ?_)
    have hoff := off_advanceSafe hr
    have : v' = v := by
      unfold St.advanceSafe at hr
      split at hr
      · cases hr
      · split at hr
        · cases hr
        · cases hr; rfl
    subst this
    refine ⟨by omega, hext _ _ _ _ _ _ (Prod.ext heq rfl) _ _⟩
  · exact OutInv.err (hC.emit _ (hC.uctx _ hg))

theorem stepRule_V (hext : ExternV V env.hooks) (hrec : RecV V rec) (n : Nat) (name : String) (s : St)
    (g : Global) (hg : CacheV V g) : OutInv (CacheV V) (PostR V s) (stepRule env rec n name s g) := by
  simp only [stepRule]
  split
  · exact normalRule_V hV hrec n _ s g hg
  · exact charRule_V hV hrec _ s g hg
  · exact externRule_V hext _ s g hg
  · split
    · exact OutInv.map hg (fun v s' hr => ⟨mono_parseChar hr, hV.chr _ _ _⟩)
    · split
      · exact OutInv.map hg (fun v s' hr => ⟨mono_parseWhitespace hr, hV.unit _ _⟩)
      · exact OutInv.panic hg

theorem step_V (hext : ExternV V env.hooks) (hrec : RecV V rec) (n : Nat) : RecV V (step env rec n) :=
  ⟨fun ctx e s g hg => stepExpr_V hV hrec n ctx e s g hg,
   fun name s g hg => stepRule_V hV hext hrec n name s g hg⟩

theorem eval_V (env : Env) (hext : ExternV V env.hooks) : ∀ n, RecV V (eval env n) := by
  intro n
  induction n with
  | zero => exact ⟨fun _ _ _ _ _ => OutInv.none, fun _ _ _ _ => OutInv.none⟩
  | succ n ih => exact step_V hV hext ih n

end pass1

/-! ### C09 (1): offsets are monotone -/

/-- cache invariant for monotonicity: a cached success ends at or after the offset of its key -/
def CacheMono (g : Global) : Prop :=
  ∀ name off v s', g.lookup (name, off) = some (.ok v s') → off ≤ s'.off

theorem cacheMono_iff (g : Global) : CacheMono g ↔ CacheV (fun _ _ _ => True) g :=
  ⟨fun h name off v s' hl => ⟨h name off v s' hl, True.intro⟩, fun h name off v s' hl => (h name off v s' hl).1⟩

theorem CacheMono.init (u : Nat) : CacheMono (Global.init u) := (cacheMono_iff _).mpr (CacheV.init _ u)

theorem externV_trivial (hooks : Hooks) : ExternV (fun _ _ _ => True) hooks := fun _ _ _ _ _ _ _ _ _ => True.intro

/-- **C09, monotonicity (expressions)**: no construct returns a state before its entry state; the cache invariant
    is preserved -/
theorem offsets_monotone {env : Env} {n : Nat} {ctx : Ctx} {e : Expr} {s s' : St} {g g' : Global} {p : Parsed}
    (h : (eval env n).expr ctx e s g = some (.ok p s', g')) (hg : CacheMono g) :
    s.off ≤ s'.off ∧ CacheMono g' := by
  have := (eval_V ValPred.trivial env (externV_trivial _) n).expr ctx e s g ((cacheMono_iff g).mp hg)
  exact ⟨(this.post h).1, (cacheMono_iff g').mpr (this.cache h)⟩

/-- **C09, monotonicity (rule calls)** – normal, `@char`, `@extern` and builtin rules alike -/
theorem offsets_monotone_rule {env : Env} {n : Nat} {name : String} {s s' : St} {g g' : Global} {v : Val}
    (h : (eval env n).rule name s g = some (.ok v s', g')) (hg : CacheMono g) :
    s.off ≤ s'.off ∧ CacheMono g' := by
  have := (eval_V ValPred.trivial env (externV_trivial _) n).rule name s g ((cacheMono_iff g).mp hg)
  exact ⟨(this.post h).1, (cacheMono_iff g').mpr (this.cache h)⟩

/-- `CacheMono` is preserved by every outcome (success, error, panic) -/
theorem cacheMono_preserved {env : Env} {n : Nat} {ctx : Ctx} {e : Expr} {s : St} {g g' : Global} {r : Res Parsed}
    (h : (eval env n).expr ctx e s g = some (r, g')) (hg : CacheMono g) : CacheMono g' :=
  (cacheMono_iff g').mpr
    (((eval_V ValPred.trivial env (externV_trivial _) n).expr ctx e s g ((cacheMono_iff g).mp hg)).cache h)

theorem cacheMono_preserved_rule {env : Env} {n : Nat} {name : String} {s : St} {g g' : Global} {r : Res Val}
    (h : (eval env n).rule name s g = some (r, g')) (hg : CacheMono g) : CacheMono g' :=
  (cacheMono_iff g').mpr
    (((eval_V ValPred.trivial env (externV_trivial _) n).rule name s g ((cacheMono_iff g).mp hg)).cache h)

/-- a complete parse never ends before offset 0 – trivial – but its final cache is monotone -/
theorem parseAdvanced_cacheMono {env : Env} {n : Nat} {rule : String} {inp : List UInt8} {u : Nat} {r : Res Val}
    {g' : Global} (h : parseAdvanced env n rule inp u = some (r, g')) : CacheMono g' :=
  cacheMono_preserved_rule h (CacheMono.init u)

/-! ### C09 (3): nested ranges lie inside the range of the enclosing evaluation -/

/-- the values returned by user extern functions contain no positions -/
def ExternNoPos (hooks : Hooks) : Prop :=
  ∀ fname rest u v adv u', hooks.extern fname rest u = (.ok (v, adv), u') → ∀ lo hi, ValIn lo hi v

/-- cache invariant for nesting: a cached success of key offset `off` ends at `s'.off ≥ off` and every position
    range inside its value lies within `[off, s'.off]` -/
def CacheIn (g : Global) : Prop :=
  ∀ name off v s', g.lookup (name, off) = some (.ok v s') → off ≤ s'.off ∧ ValIn off s'.off v

theorem CacheIn.init (u : Nat) : CacheIn (Global.init u) := CacheV.init _ u

theorem CacheIn.mono {g : Global} (h : CacheIn g) : CacheMono g := fun name off v s' hl => (h name off v s' hl).1

/-- **C09, nesting (expressions)**: every position range recorded anywhere inside the values produced by an
    evaluation from `s` to `s'` lies within `[s.off, s'.off]` -/
theorem C09_nested {env : Env} (hext : ExternNoPos env.hooks) {n : Nat} {ctx : Ctx} {e : Expr} {s s' : St}
    {g g' : Global} {p : Parsed} (h : (eval env n).expr ctx e s g = some (.ok p s', g')) (hg : CacheIn g) :
    s.off ≤ s'.off ∧ (∀ x ∈ p, ValIn s.off s'.off x.2) ∧ CacheIn g' := by
  have := (eval_V ValPred.valIn env hext n).expr ctx e s g hg
  exact ⟨(this.post h).1, (this.post h).2, this.cache h⟩

/-- **C09, nesting (rule calls)**: every position range inside the value of a rule call from `s` to `s'` lies
    within `[s.off, s'.off]` -/
theorem C09_nested_rule {env : Env} (hext : ExternNoPos env.hooks) {n : Nat} {name : String} {s s' : St}
    {g g' : Global} {v : Val} (h : (eval env n).rule name s g = some (.ok v s', g')) (hg : CacheIn g) :
    s.off ≤ s'.off ∧ ValIn s.off s'.off v ∧ CacheIn g' := by
  have := (eval_V ValPred.valIn env hext n).rule name s g hg
  exact ⟨(this.post h).1, (this.post h).2, this.cache h⟩

theorem cacheIn_preserved {env : Env} (hext : ExternNoPos env.hooks) {n : Nat} {ctx : Ctx} {e : Expr} {s : St}
    {g g' : Global} {r : Res Parsed} (h : (eval env n).expr ctx e s g = some (r, g')) (hg : CacheIn g) :
    CacheIn g' :=
  ((eval_V ValPred.valIn env hext n).expr ctx e s g hg).cache h

theorem cacheIn_preserved_rule {env : Env} (hext : ExternNoPos env.hooks) {n : Nat} {name : String} {s : St}
    {g g' : Global} {r : Res Val} (h : (eval env n).rule name s g = some (r, g')) (hg : CacheIn g) :
    CacheIn g' :=
  ((eval_V ValPred.valIn env hext n).rule name s g hg).cache h

/-- the tree of a complete parse: all position ranges lie within `[0, end of the match]` -/
theorem C09_nested_parse {env : Env} (hext : ExternNoPos env.hooks) {n : Nat} {rule : String} {inp : List UInt8}
    {u : Nat} {v : Val} {s' : St} {g' : Global} (h : parseAdvanced env n rule inp u = some (.ok v s', g')) :
    ValIn 0 s'.off v :=
  (C09_nested_rule hext h (CacheIn.init u)).2.1

/-- a node's own range contains the ranges of everything below it (direct reading of `ValIn` at a node) -/
theorem ValIn.node_children {lo hi a b : Nat} {n fs} (h : ValIn lo hi (.node n fs (Option.some (a, b)))) :
    lo ≤ a ∧ a ≤ b ∧ b ≤ hi ∧ ∀ p ∈ fs, ValIn lo hi p.2 := by
  obtain ⟨h1, h2⟩ := h.node_inv
  obtain ⟨h3, h4, h5⟩ := h2 a b rfl
  exact ⟨h3, h4, h5, h1⟩

/-- the hypotheses are satisfiable: the default hooks (no extern function) and hooks whose extern functions return
    opaque `ext` values, strings, … contain no positions; the initial cache is good -/
example : ExternNoPos (default : Hooks) := by
  intro fname rest u v adv u' h
  simp [default] at h

example : ExternNoPos { (default : Hooks) with extern := fun _ bs u => (.ok (.ext "tok" bs.length, 1), u) } := by
  intro fname rest u v adv u' h
  simp only [Prod.mk.injEq, Except.ok.injEq] at h
  obtain ⟨⟨rfl, _⟩, _⟩ := h
  intro lo hi; exact .ext _ _

/-! ### pass 2: shape of the value of a `@position` rule, consistency with the input -/

/-- the rule is an override (enum) rule: its only field is `_override` (second branch of `ruleBody`) -/
def Rule.isOverride (env : Env) (r : Rule) : Bool :=
  match getFields env.g env.nf r.definition with
  | .ok fields => fields.length == 1 && (fields.head?.map (·.name)) == some "_override"
  | _ => false

/-- what a successful call of the `@position` rule `r` entered at offset `off` of the input `inp` returns -/
def PosShape (env : Env) (inp : List UInt8) (r : Rule) (off : Nat) (v : Val) (s' : St) : Prop :=
  r.flags.position = true →
    (r.flags.string = true →
      v = .node r.name [("string", .str ((inp.drop off).take (s'.off - off)))] (some (off, s'.off))) ∧
    (r.flags.string = false → r.isOverride env = false → ∃ fs, v = .node r.name fs (some (off, s'.off)))

/-- postcondition of a call of rule `name` from offset `off` -/
def PostP (env : Env) (inp : List UInt8) (name : String) (off : Nat) (v : Val) (s' : St) : Prop :=
  WfSt inp s' ∧ ∀ r, env.g.find name = some (.rule r) → PosShape env inp r off v s'

/-- cache invariant for the shape: a cached success is consistent with the input and, if its key names a
    `@position` rule, carries `position = (off, s'.off)` (and the exact slice for `@string` rules) -/
def CachePos (env : Env) (inp : List UInt8) (g : Global) : Prop :=
  ∀ name off v s', g.lookup (name, off) = some (.ok v s') → PostP env inp name off v s'

theorem CachePos.cacheOnly (env : Env) (inp : List UInt8) : CacheOnly (CachePos env inp) := by
  intro g g' hc h name off v s' hl
  apply h name off v s'
  unfold Global.lookup at hl ⊢
  rw [← hc]; exact hl

theorem CachePos.init (env : Env) (inp : List UInt8) (u : Nat) : CachePos env inp (Global.init u) := by
  intro name off v s' hl
  simp [Global.lookup, Global.init] at hl

theorem CachePos.insert {env : Env} {inp : List UInt8} {g : Global} {name : String} {off : Nat} {r : Res Val}
    (hg : CachePos env inp g) (hr : ∀ v s', r = .ok v s' → PostP env inp name off v s') :
    CachePos env inp (g.insert (name, off) r) := by
  intro name' off' v s' hl
  rw [lookup_insert] at hl
  split at hl
  · rename_i hk
    simp only [beq_iff_eq, Prod.mk.injEq] at hk
    obtain ⟨rfl, rfl⟩ := hk
    simp only [Option.some.injEq] at hl
    exact hr v s' hl
  · exact hg _ _ _ _ hl

structure RecP (env : Env) (inp : List UInt8) (rec : Rec) : Prop where
  expr : ∀ ctx e s g, WfSt inp s → CachePos env inp g →
    OutInv (CachePos env inp) (fun (_ : Parsed) s' => WfSt inp s') (rec.expr ctx e s g)
  rule : ∀ name s g, WfSt inp s → CachePos env inp g →
    OutInv (CachePos env inp) (PostP env inp name s.off) (rec.rule name s g)

section pass2
variable {env : Env} {inp : List UInt8} {rec : Rec}

theorem withSkipWs_P {α} (hrec : RecP env inp rec) {ctx : Ctx} {s : St} {g : Global} {k : St → Global → Out α}
    {Q : α → St → Prop} (hw : WfSt inp s) (hg : CachePos env inp g)
    (hk : ∀ s1 g1, WfSt inp s1 → CachePos env inp g1 → OutInv (CachePos env inp) Q (k s1 g1)) :
    OutInv (CachePos env inp) Q (withSkipWs rec ctx s g k) := by
  unfold withSkipWs
  split
  · exact (hrec.rule _ _ _ hw hg).bind (fun _ s1 g1 hg1 hq => hk s1 g1 hq.1 hg1)
  · exact hk s g hw hg

theorem evalSeq_P (hrec : RecP env inp rec) {ctx : Ctx} :
    ∀ ps seen acc s g, WfSt inp s → CachePos env inp g →
      OutInv (CachePos env inp) (fun (_ : List String × Parsed) s' => WfSt inp s')
        (evalSeq env rec ctx ps seen acc s g) := by
  intro ps
  induction ps with
  | nil => intro seen acc s g hw hg; exact OutInv.ok hg hw
  | cons p ps ih =>
    intro seen acc s g hw hg
    rw [evalSeq]
    refine (hrec.expr ctx p s g hw hg).bind (fun r s1 g1 hg1 hw1 => ?_)
    cases hm : mergePart (filterRuleFields ctx.ruleFields (ownFields env p)) seen acc r with
    | error m => simp only [hm]; exact OutInv.panic hg1
    | ok x =>
      obtain ⟨seen', acc'⟩ := x
      simp only [hm]
      exact ih seen' acc' s1 g1 hw1 hg1

theorem evalAlts_P (hrec : RecP env inp rec) {ctx : Ctx} {fields : List FieldDesc} :
    ∀ as s g, WfSt inp s → CachePos env inp g →
      OutInv (CachePos env inp) (fun (_ : Parsed) s' => WfSt inp s') (evalAlts env rec ctx fields as s g) := by
  intro as
  induction as with
  | nil => intro s g _ hg; exact OutInv.err hg
  | cons a as ih =>
    intro s g hw hg
    have ha := hrec.expr ctx a s g hw hg
    rw [evalAlts]
    split
    · exact OutInv.none
    · rename_i r s' g' hx
      split
      · exact OutInv.ok (ha.cache hx) (ha.post hx)
      · exact OutInv.panic (ha.cache hx)
    · rename_i e g' hx
      exact ih (s.recordError e) g' (wf_recordError.mpr hw) (ha.cache hx)
    · rename_i m g' hx
      exact OutInv.panic (ha.cache hx)

theorem evalLoop_P {body : St → Global → Out Parsed}
    (hbody : ∀ s g, WfSt inp s → CachePos env inp g →
      OutInv (CachePos env inp) (fun (_ : Parsed) s' => WfSt inp s') (body s g)) {fields : List FieldDesc} :
    ∀ k iters acc s g, WfSt inp s → CachePos env inp g →
      OutInv (CachePos env inp) (fun (_ : Nat × Parsed) s' => WfSt inp s')
        (evalLoop body fields k iters acc s g) := by
  intro k
  induction k with
  | zero => intro iters acc s g _ _; exact OutInv.none
  | succ k ih =>
    intro iters acc s g hw hg
    have hb := hbody s g hw hg
    rw [evalLoop]
    split
    · exact OutInv.none
    · rename_i r s1 g1 hx
      split
      · exact ih _ _ s1 g1 (hb.post hx) (hb.cache hx)
      · exact OutInv.panic (hb.cache hx)
    · rename_i e g1 hx
      exact OutInv.ok (hb.cache hx) (wf_recordError.mpr hw)
    · rename_i m g1 hx
      exact OutInv.panic (hb.cache hx)

theorem stepExpr_P (hrec : RecP env inp rec) (n : Nat) (ctx : Ctx) (e : Expr) (s : St) (g : Global)
    (hw : WfSt inp s) (hg : CachePos env inp g) :
    OutInv (CachePos env inp) (fun (_ : Parsed) s' => WfSt inp s') (stepExpr env rec n ctx e s g) := by
  cases e with
  | choice alts =>
    match alts with
    | [] => exact OutInv.panic hg
    | [a] => exact hrec.expr ctx a s g hw hg
    | a :: b :: rest => exact evalAlts_P hrec _ _ _ hw hg
  | seq parts =>
    match parts with
    | [] => exact OutInv.ok hg hw
    | [a] => exact hrec.expr ctx a s g hw hg
    | a :: b :: rest =>
      refine (evalSeq_P hrec (a :: b :: rest) [] [] s g hw hg).bind (fun x s' g' hg' hq => ?_)
      obtain ⟨seen, acc⟩ := x
      simp only []
      split
      · exact OutInv.ok hg' hq
      · exact OutInv.panic hg'
  | group b => exact hrec.expr ctx b s g hw hg
  | opt b =>
    have hb := hrec.expr ctx b s g hw hg
    simp only [stepExpr]
    split
    · exact OutInv.none
    · rename_i r s' g' hx
      exact OutInv.ok (hb.cache hx) (hb.post hx)
    · rename_i err g' hx
      split
      · exact OutInv.ok (hb.cache hx) (wf_recordError.mpr hw)
      · exact OutInv.panic (hb.cache hx)
    · rename_i m g' hx
      exact OutInv.panic (hb.cache hx)
  | closure b atLeastOne =>
    simp only [stepExpr]
    split
    · exact OutInv.panic hg
    · rename_i init hinit
      refine (evalLoop_P (hrec.expr ctx b) n 0 init s g hw hg).bind (fun x s' g' hg' hq => ?_)
      obtain ⟨iters, acc⟩ := x
      simp only []
      split
      · exact OutInv.err hg'
      · exact OutInv.ok hg' hq
  | neg b =>
    have hb := hrec.expr ctx b s g hw hg
    simp only [stepExpr]
    split
    · exact OutInv.none
    · rename_i hx; exact OutInv.err (hb.cache hx)
    · rename_i hx; exact OutInv.ok (hb.cache hx) hw
    · rename_i hx; exact OutInv.panic (hb.cache hx)
  | pos b =>
    exact (hrec.expr ctx b s g hw hg).bind (fun _ _ g' hg' _ => OutInv.ok hg' hw)
  | range lo hi =>
    simp only [stepExpr]
    split
    · exact withSkipWs_P hrec hw hg (fun s1 g1 hw1 hg1 =>
        OutInv.map hg1 (fun v s' hr => wf_parseCharacterRange hw1 hr))
    · exact OutInv.panic hg
  | lit ins body =>
    simp only [stepExpr]
    split
    · rename_i m _
      refine withSkipWs_P hrec hw hg (fun s1 g1 hw1 hg1 => ?_)
      cases m with
      | charLit c => exact OutInv.map hg1 (fun v s' hr => wf_parseCharacterLiteral hw1 hr)
      | strLit l => exact OutInv.map hg1 (fun v s' hr => wf_parseStringLiteral hw1 hr)
      | charLitI c => exact OutInv.map hg1 (fun v s' hr => wf_parseCharacterLiteralInsensitive hw1 hr)
      | strLitI l => exact OutInv.map hg1 (fun v s' hr => wf_parseStringLiteralInsensitive hw1 hr)
    · exact OutInv.panic hg
  | eoi =>
    exact withSkipWs_P hrec hw hg (fun s1 g1 hw1 hg1 => OutInv.map hg1 (fun v s' hr => wf_parseEndOfInput hw1 hr))
  | incl r =>
    simp only [stepExpr]
    split
    · exact OutInv.panic hg
    · exact hrec.expr ctx _ s g hw hg
  | field name boxed typ =>
    simp only [stepExpr]
    refine withSkipWs_P hrec hw hg (fun s1 g1 hw1 hg1 => ?_)
    refine (hrec.rule typ s1 g1 hw1 hg1).bind (fun v s' g' hg' hq => ?_)
    cases name with
    | none => exact OutInv.ok hg' hq.1
    | some nm =>
      simp only []
      split
      · exact OutInv.ok hg' hq.1
      · exact OutInv.panic hg'

/-! #### rule level -/

theorem sliceUntil_of_wf {s s' : St} (hw : WfSt inp s) :
    s.sliceUntil s' = (inp.drop s.off).take (s'.off - s.off) := by
  unfold WfSt at hw
  unfold St.sliceUntil
  rw [hw]

theorem ruleBody_P (hrec : RecP env inp rec) (r : Rule) (s : St) (g : Global) (hw : WfSt inp s)
    (hg : CachePos env inp g) :
    OutInv (CachePos env inp) (fun v s' => WfSt inp s' ∧ PosShape env inp r s.off v s')
      (ruleBody env rec r s g) := by
  have hC := CachePos.cacheOnly env inp
  simp only [ruleBody]
  split
  · rename_i fields hf
    split
    · rename_i hstr
      refine (hrec.expr _ _ s g hw hg).bind (fun _ s' g' hg' hw' => ?_)
      refine runChecks_inv hC _ _ _ _ hg' ⟨hw', fun hpos => ⟨fun _ => ?_, fun hns => ?_⟩⟩
      · rw [if_pos hpos, sliceUntil_of_wf hw]
      · rw [hstr] at hns; cases hns
    · rename_i hstr
      have hns : r.flags.string = false := by simpa using hstr
      split
      · rename_i hov
        have hio : r.isOverride env = true := by unfold Rule.isOverride; rw [hf]; exact hov
        refine (hrec.expr _ _ s g hw hg).bind (fun p s' g' hg' hw' => ?_)
        split
        · refine runChecks_inv hC _ _ _ _ hg' ⟨hw', fun hpos => ⟨fun hs => ?_, fun _ hno => ?_⟩⟩
          · rw [hns] at hs; cases hs
          · rw [hio] at hno; cases hno
        · exact OutInv.panic hg'
      · split
        · exact OutInv.panic hg
        · refine (hrec.expr _ _ s g hw hg).bind (fun p s' g' hg' hw' => ?_)
          split
          · rename_i fs hp
            refine runChecks_inv hC _ _ _ _ hg' ⟨hw', fun hpos => ⟨fun hs => ?_, fun _ _ => ⟨fs, ?_⟩⟩⟩
            · rw [hns] at hs; cases hs
            · rw [if_pos hpos]
          · exact OutInv.panic hg'
  · exact OutInv.panic hg

theorem find_rule_name {g : Grammar} {name : String} {r : Rule} (h : g.find name = some (.rule r)) :
    r.name = name := by
  have := List.find?_some h
  simpa [RuleEntry.name] using this

theorem normalRule_P (hrec : RecP env inp rec) (n : Nat) {name : String} {r : Rule}
    (hf : env.g.find name = some (.rule r)) (s : St) (g : Global) (hw : WfSt inp s) (hg : CachePos env inp g) :
    OutInv (CachePos env inp) (PostP env inp name s.off) (normalRule env rec n r s g) := by
  have hname := find_rule_name hf
  refine normalRule_inv (CachePos.cacheOnly env inp) (fun g res hg hr => ?_) (fun g v s' hg hl => ?_)
    (fun g hg => ?_) n g hg
  · rw [hname]; exact CachePos.insert hg hr
  · rw [hname] at hl; exact hg _ _ _ _ hl
  · refine (ruleBody_P hrec r s g hw hg).mono (fun v s' hq => ⟨hq.1, fun r' hr' => ?_⟩)
    rw [hf] at hr'
    cases hr'
    exact hq.2

theorem charParts_P (hrec : RecP env inp rec) (name : String) :
    ∀ ps s g, WfSt inp s → CachePos env inp g →
      OutInv (CachePos env inp) (fun (_ : Val) s' => WfSt inp s') (charParts rec name ps s g) := by
  intro ps
  induction ps with
  | nil => intro s g _ hg; exact OutInv.err hg
  | cons p ps ih =>
    intro s g hw hg
    cases p with
    | chr item =>
      refine orElse_inv ?_ (fun g' hg' => ih s g' hw hg')
      simp only []
      split
      · exact OutInv.map hg (fun v s' hr => wf_parseCharacterLiteral hw hr)
      · exact OutInv.panic hg
    | range lo hi =>
      refine orElse_inv ?_ (fun g' hg' => ih s g' hw hg')
      simp only []
      split
      · exact OutInv.map hg (fun v s' hr => wf_parseCharacterRange hw hr)
      · exact OutInv.panic hg
    | ident id =>
      exact orElse_inv ((hrec.rule id s g hw hg).mono (fun v s' hq => hq.1)) (fun g' hg' => ih s g' hw hg')

theorem charRule_P (hrec : RecP env inp rec) (r : CharRule) (s : St) (g : Global) (hw : WfSt inp s)
    (hg : CachePos env inp g) :
    OutInv (CachePos env inp) (fun (_ : Val) s' => WfSt inp s') (charRule env rec r s g) := by
  have hC := CachePos.cacheOnly env inp
  simp only [charRule]
  split
  · exact charParts_P hrec _ _ _ _ hw hg
  · split
    · exact OutInv.err hg
    · rename_i c _
      have hcc := charChecks_cache env r.name r.directives c s g
      have hg1 : CachePos env inp (charChecks env r.name r.directives c s g).2 := hC _ _ hcc hg
      split
      · rename_i e g' heq
        rw [heq] at hg1
        exact OutInv.err hg1
      · rename_i g' heq
        rw [heq] at hg1
        exact charParts_P hrec _ _ _ _ hw hg1

theorem externRule_P (r : ExternRule) (s : St) (g : Global) (hw : WfSt inp s) (hg : CachePos env inp g) :
    OutInv (CachePos env inp) (fun (_ : Val) s' => WfSt inp s') (externRule env r s g) := by
  have hC := CachePos.cacheOnly env inp
  simp only [externRule]
  split
  · exact OutInv.res (hC.emit _ (hC.uctx _ hg)) (fun v' s' hr => wf_advanceSafe hw hr)
  · exact OutInv.err (hC.emit _ (hC.uctx _ hg))

theorem stepRule_P (hrec : RecP env inp rec) (n : Nat) (name : String) (s : St) (g : Global)
    (hw : WfSt inp s) (hg : CachePos env inp g) :
    OutInv (CachePos env inp) (PostP env inp name s.off) (stepRule env rec n name s g) := by
  simp only [stepRule]
  split
  · rename_i r hf
    exact normalRule_P hrec n hf s g hw hg
  · rename_i r hf
    exact (charRule_P hrec r s g hw hg).mono (fun v s' hq => ⟨hq, fun r' hr' => by rw [hf] at hr'; cases hr'⟩)
  · rename_i r hf
    exact (externRule_P r s g hw hg).mono (fun v s' hq => ⟨hq, fun r' hr' => by rw [hf] at hr'; cases hr'⟩)
  · rename_i hf
    have hno : ∀ v s', ∀ r', env.g.find name = some (.rule r') → PosShape env inp r' s.off v s' :=
      fun v s' r' hr' => by rw [hf] at hr'; cases hr'
    split
    · exact OutInv.map hg (fun v s' hr => ⟨wf_parseChar hw hr, hno _ _⟩)
    · split
      · exact OutInv.map hg (fun v s' hr => ⟨wf_parseWhitespace hw hr, hno _ _⟩)
      · exact OutInv.panic hg

theorem step_P (hrec : RecP env inp rec) (n : Nat) : RecP env inp (step env rec n) :=
  ⟨fun ctx e s g hw hg => stepExpr_P hrec n ctx e s g hw hg,
   fun name s g hw hg => stepRule_P hrec n name s g hw hg⟩

theorem eval_P (env : Env) (inp : List UInt8) : ∀ n, RecP env inp (eval env n) := by
  intro n
  induction n with
  | zero => exact ⟨fun _ _ _ _ _ _ => OutInv.none, fun _ _ _ _ _ => OutInv.none⟩
  | succ n ih => exact step_P ih n

end pass2

/-! ### C09 (2): the range of a `@position` rule is exactly the consumed span -/

/-- consistency with the input is preserved by every successful evaluation (by-product of pass 2) -/
theorem wf_preserved {env : Env} {inp : List UInt8} {n : Nat} {ctx : Ctx} {e : Expr} {s s' : St} {g g' : Global}
    {p : Parsed} (h : (eval env n).expr ctx e s g = some (.ok p s', g')) (hw : WfSt inp s)
    (hg : CachePos env inp g) : WfSt inp s' ∧ CachePos env inp g' := by
  have := (eval_P env inp n).expr ctx e s g hw hg
  exact ⟨this.post h, this.cache h⟩

theorem cachePos_preserved_rule {env : Env} {inp : List UInt8} {n : Nat} {name : String} {s : St} {g g' : Global}
    {r : Res Val} (h : (eval env n).rule name s g = some (r, g')) (hw : WfSt inp s)
    (hg : CachePos env inp g) : CachePos env inp g' :=
  ((eval_P env inp n).rule name s g hw hg).cache h

/-- **C09, range**: a successful call of a normal `@position` rule `r` (found under `name`) from `s` to `s'`
    returns a node named `r.name` whose `position` is exactly `(s.off, s'.off)`; for a `@string @position` rule
    the single field `string` is exactly the input slice between the two offsets.
    `s` is the state at rule entry, i.e. after the *caller's* whitespace skip. -/
theorem C09_range {env : Env} {inp : List UInt8} {n : Nat} {name : String} {r : Rule} {s s' : St}
    {g g' : Global} {v : Val} (hf : env.g.find name = some (.rule r)) (hpos : r.flags.position = true)
    (h : (eval env n).rule name s g = some (.ok v s', g')) (hw : WfSt inp s) (hg : CachePos env inp g) :
    (r.flags.string = true →
      v = .node r.name [("string", .str (s.sliceUntil s'))] (some (s.off, s'.off)) ∧
      s.sliceUntil s' = (inp.drop s.off).take (s'.off - s.off)) ∧
    (r.flags.string = false → r.isOverride env = false → ∃ fs, v = .node r.name fs (some (s.off, s'.off))) ∧
    WfSt inp s' ∧ CachePos env inp g' := by
  have hr := (eval_P env inp n).rule name s g hw hg
  obtain ⟨hw', hsh⟩ := hr.post h
  obtain ⟨h1, h2⟩ := hsh r hf hpos
  refine ⟨fun hs => ⟨?_, sliceUntil_of_wf hw⟩, h2, hw', hr.cache h⟩
  rw [sliceUntil_of_wf hw]; exact h1 hs

/-- `C09_range` for a complete parse (fresh state, empty cache): the start rule's range is `(0, end)` -/
theorem C09_range_parse {env : Env} {inp : List UInt8} {n : Nat} {name : String} {r : Rule} {u : Nat} {s' : St}
    {g' : Global} {v : Val} (hf : env.g.find name = some (.rule r)) (hpos : r.flags.position = true)
    (h : parseAdvanced env n name inp u = some (.ok v s', g')) :
    (r.flags.string = true → v = .node r.name [("string", .str (inp.take s'.off))] (some (0, s'.off))) ∧
    (r.flags.string = false → r.isOverride env = false → ∃ fs, v = .node r.name fs (some (0, s'.off))) := by
  have hw : WfSt inp (St.new inp) := by simp [WfSt, St.new]
  obtain ⟨h1, h2, _, _⟩ := C09_range hf hpos h hw (CachePos.init env inp u)
  refine ⟨fun hs => ?_, h2⟩
  obtain ⟨hv, hsl⟩ := h1 hs
  rw [hv, hsl]
  simp [St.new]

/-! ### C09 (4): successive matches do not overlap and are in input order -/

/-- `acc'` arises from `acc` by binding fields to values whose ranges lie in `[lo, hi]` or by appending elements
    whose ranges lie in `[lo, hi]` to list fields; everything else is untouched -/
def Grows (lo hi : Nat) (acc acc' : Parsed) : Prop :=
  ∀ x ∈ acc', x ∈ acc ∨ ValIn lo hi x.2 ∨
    ∃ a b, (x.1, Val.list a) ∈ acc ∧ x.2 = .list (a ++ b) ∧ ∀ y ∈ b, ValIn lo hi y

theorem Grows.refl (lo hi : Nat) (acc : Parsed) : Grows lo hi acc acc := fun _ hx => Or.inl hx

theorem Grows.weaken {lo hi lo' hi' : Nat} {acc acc' : Parsed} (h1 : lo' ≤ lo) (h2 : hi ≤ hi')
    (h : Grows lo hi acc acc') : Grows lo' hi' acc acc' := by
  intro x hx
  rcases h x hx with h | h | ⟨a, b, ha, hb, hc⟩
  · exact Or.inl h
  · exact Or.inr (Or.inl (h.weaken h1 h2))
  · exact Or.inr (Or.inr ⟨a, b, ha, hb, fun y hy => (hc y hy).weaken h1 h2⟩)

theorem Grows.trans {lo hi : Nat} {acc acc1 acc2 : Parsed} (h1 : Grows lo hi acc acc1)
    (h2 : Grows lo hi acc1 acc2) : Grows lo hi acc acc2 := by
  intro x hx
  rcases h2 x hx with h | h | ⟨a, b, ha, hb, hc⟩
  · exact h1 x h
  · exact Or.inr (Or.inl h)
  · rcases h1 _ ha with h | h | ⟨a0, b0, ha0, hb0, hc0⟩
    · exact Or.inr (Or.inr ⟨a, b, h, hb, hc⟩)
    · refine Or.inr (Or.inl ?_)
      rw [hb]
      refine .list _ (fun y hy => ?_)
      rcases List.mem_append.mp hy with hy | hy
      · exact ValIn.list_inv h y hy
      · exact hc y hy
    · simp only [Val.list.injEq] at hb0
      refine Or.inr (Or.inr ⟨a0, b0 ++ b, ha0, by rw [hb, hb0, List.append_assoc], fun y hy => ?_⟩)
      rcases List.mem_append.mp hy with hy | hy
      · exact hc0 y hy
      · exact hc y hy

/-- from the empty accumulator: everything accumulated lies in the interval -/
theorem Grows.of_nil {lo hi : Nat} {acc' : Parsed} (h : Grows lo hi [] acc') : AllV (ValIn lo hi) acc' := by
  intro x hx
  rcases h x hx with h | h | ⟨a, b, ha, _, _⟩
  · cases h
  · exact h
  · cases ha

theorem Parsed.get_mem' {p : Parsed} {n v} (h : p.get n = some v) : (n, v) ∈ p := by
  unfold Parsed.get at h
  cases hf : p.find? (·.1 == n) with
  | none => simp [hf] at h
  | some x =>
    simp only [hf, Option.map_some, Option.some.injEq] at h
    have h1 := List.mem_of_find?_eq_some hf
    have h2 := List.find?_some hf
    simp only [beq_iff_eq] at h2
    obtain ⟨a, b⟩ := x
    simp only at h h2
    subst h h2
    exact h1

theorem Grows.set_new {lo hi : Nat} {acc : Parsed} {n v} (hv : ValIn lo hi v) : Grows lo hi acc (acc.set n v) := by
  intro x hx
  rcases Parsed.mem_set hx with h | rfl
  · exact Or.inl h
  · exact Or.inr (Or.inl hv)

theorem Grows.set_extend {lo hi : Nat} {acc : Parsed} {n old v nv} (hold : acc.get n = some old)
    (he : extendVal old v = .ok nv) (hv : ValIn lo hi v) : Grows lo hi acc (acc.set n nv) := by
  intro x hx
  rcases Parsed.mem_set hx with h | rfl
  · exact Or.inl h
  · unfold extendVal at he
    split at he
    · rename_i a b
      cases he
      exact Or.inr (Or.inr ⟨a, b, Parsed.get_mem' hold, rfl, ValIn.list_inv hv⟩)
    · cases he

theorem mergePart_grows {lo hi : Nat} : ∀ {fs : List FieldDesc} {seen acc r seen' acc'},
    mergePart fs seen acc r = .ok (seen', acc') → AllV (ValIn lo hi) r → Grows lo hi acc acc' := by
  intro fs
  induction fs with
  | nil => intro seen acc r seen' acc' h _; simp only [mergePart] at h; cases h; exact Grows.refl _ _ _
  | cons f fs ih =>
    intro seen acc r seen' acc' h hr
    simp only [mergePart] at h
    split at h
    · cases h
    · rename_i v hv
      split at h
      · exact (Grows.set_new (hr.get hv)).trans (ih h hr)
      · split at h
        · cases h
        · split at h
          · cases h
          · rename_i old hold
            split at h
            · cases h
            · rename_i nv hnv
              exact (Grows.set_extend hold hnv (hr.get hv)).trans (ih h hr)

theorem extendAll_grows {lo hi : Nat} : ∀ {fs : List FieldDesc} {acc r acc'},
    extendAll fs acc r = .ok acc' → AllV (ValIn lo hi) r → Grows lo hi acc acc' := by
  intro fs
  induction fs with
  | nil => intro acc r acc' h _; simp only [extendAll] at h; cases h; exact Grows.refl _ _ _
  | cons f fs ih =>
    intro acc r acc' h hr
    simp only [extendAll] at h
    split at h
    · rename_i a b ha hb
      split at h
      · rename_i v hv
        exact (Grows.set_extend ha hv (hr.get hb)).trans (ih h hr)
      · cases h
    · cases h

/-- a sequence evaluates its parts one after the other: splitting the part list splits the run -/
theorem evalSeq_append {env : Env} {rec : Rec} {ctx : Ctx} :
    ∀ (ps qs : List Expr) {seen acc s g seen' acc' s' g'},
      evalSeq env rec ctx (ps ++ qs) seen acc s g = some (.ok (seen', acc') s', g') →
      ∃ seen1 acc1 t g1, evalSeq env rec ctx ps seen acc s g = some (.ok (seen1, acc1) t, g1) ∧
        evalSeq env rec ctx qs seen1 acc1 t g1 = some (.ok (seen', acc') s', g') := by
  intro ps
  induction ps with
  | nil => intro qs seen acc s g seen' acc' s' g' h; exact ⟨seen, acc, s, g, rfl, h⟩
  | cons p ps ih =>
    intro qs seen acc s g seen' acc' s' g' h
    rw [List.cons_append, evalSeq] at h
    rw [evalSeq]
    cases hx : rec.expr ctx p s g with
    | none => simp [hx, bindR] at h
    | some a =>
      obtain ⟨r, g1⟩ := a
      cases r with
      | err e => simp [hx, bindR] at h
      | panic m => simp [hx, bindR] at h
      | ok r s1 =>
        simp only [hx, bindR] at h ⊢
        cases hm : mergePart (filterRuleFields ctx.ruleFields (ownFields env p)) seen acc r with
        | error m => simp [hm] at h
        | ok x =>
          obtain ⟨seen2, acc2⟩ := x
          simp only [hm] at h ⊢
          exact ih qs h

section ordered
variable {env : Env} {rec : Rec}

/-- a run of sequence parts from `s` to `s'` only adds values whose ranges lie in `[s.off, s'.off]` -/
theorem evalSeq_grows (hrec : RecV ValIn rec) {ctx : Ctx} :
    ∀ ps {seen acc s g seen' acc' s' g'}, CacheIn g →
      evalSeq env rec ctx ps seen acc s g = some (.ok (seen', acc') s', g') →
      s.off ≤ s'.off ∧ Grows s.off s'.off acc acc' ∧ CacheIn g' := by
  intro ps
  induction ps with
  | nil =>
    intro seen acc s g seen' acc' s' g' hg h
    simp only [evalSeq, Option.some.injEq, Prod.mk.injEq, Res.ok.injEq] at h
    obtain ⟨⟨⟨_, rfl⟩, rfl⟩, rfl⟩ := h
    exact ⟨Nat.le_refl _, Grows.refl _ _ _, hg⟩
  | cons p ps ih =>
    intro seen acc s g seen' acc' s' g' hg h
    rw [evalSeq] at h
    have hp := hrec.expr ctx p s g hg
    cases hx : rec.expr ctx p s g with
    | none => simp [hx, bindR] at h
    | some a =>
      obtain ⟨r, g1⟩ := a
      cases r with
      | err e => simp [hx, bindR] at h
      | panic m => simp [hx, bindR] at h
      | ok r s1 =>
        obtain ⟨hle, hr⟩ := hp.post hx
        simp only [hx, bindR] at h
        cases hm : mergePart (filterRuleFields ctx.ruleFields (ownFields env p)) seen acc r with
        | error m => simp [hm] at h
        | ok x =>
          obtain ⟨seen2, acc2⟩ := x
          simp only [hm] at h
          obtain ⟨hle2, hg2, hc2⟩ := ih (hp.cache hx) h
          refine ⟨Nat.le_trans hle hle2, ?_, hc2⟩
          exact ((mergePart_grows hm hr).weaken (Nat.le_refl _) hle2).trans (hg2.weaken hle (Nat.le_refl _))

/-- **C09, order (sequences)**: for the split of a sequence at any part boundary, with `t` the state at the
    boundary: `s.off ≤ t.off ≤ s'.off`, the parts before the boundary only contribute values with ranges in
    `[s.off, t.off]`, the parts after it only values with ranges in `[t.off, s'.off]`.  Hence the ranges of
    successive matches do not overlap and are in input order. -/
theorem C09_ordered_evalSeq (hrec : RecV ValIn rec) {ctx : Ctx} (ps qs : List Expr) {seen acc s g seen' acc' s' g'}
    (hg : CacheIn g) (h : evalSeq env rec ctx (ps ++ qs) seen acc s g = some (.ok (seen', acc') s', g')) :
    ∃ seen1 acc1 t g1,
      evalSeq env rec ctx ps seen acc s g = some (.ok (seen1, acc1) t, g1) ∧
      evalSeq env rec ctx qs seen1 acc1 t g1 = some (.ok (seen', acc') s', g') ∧
      s.off ≤ t.off ∧ t.off ≤ s'.off ∧ Grows s.off t.off acc acc1 ∧ Grows t.off s'.off acc1 acc' := by
  obtain ⟨seen1, acc1, t, g1, h1, h2⟩ := evalSeq_append ps qs h
  obtain ⟨hle1, hgr1, hc1⟩ := evalSeq_grows hrec ps hg h1
  obtain ⟨hle2, hgr2, _⟩ := evalSeq_grows hrec qs hc1 h2
  exact ⟨seen1, acc1, t, g1, h1, h2, hle1, hle2, hgr1, hgr2⟩

/-- the two-part case: `p q` – the values of `p` lie in `[s.off, t.off]`, those of `q` in `[t.off, s'.off]` -/
theorem C09_ordered_two (hrec : RecV ValIn rec) {ctx : Ctx} (p q : Expr) {s g seen' acc' s' g'}
    (hg : CacheIn g) (h : evalSeq env rec ctx [p, q] [] [] s g = some (.ok (seen', acc') s', g')) :
    ∃ r1 t g1 r2,
      rec.expr ctx p s g = some (.ok r1 t, g1) ∧ rec.expr ctx q t g1 = some (.ok r2 s', g') ∧
      s.off ≤ t.off ∧ t.off ≤ s'.off ∧ AllV (ValIn s.off t.off) r1 ∧ AllV (ValIn t.off s'.off) r2 := by
  rw [evalSeq] at h
  have hp := hrec.expr ctx p s g hg
  cases hx : rec.expr ctx p s g with
  | none => simp [hx, bindR] at h
  | some a =>
    obtain ⟨r, g1⟩ := a
    cases r with
    | err e => simp [hx, bindR] at h
    | panic m => simp [hx, bindR] at h
    | ok r1 t =>
      obtain ⟨hle, hr⟩ := hp.post hx
      simp only [hx, bindR] at h
      cases hm : mergePart (filterRuleFields ctx.ruleFields (ownFields env p)) [] [] r1 with
      | error m => simp [hm] at h
      | ok x =>
        obtain ⟨seen2, acc2⟩ := x
        simp only [hm] at h
        rw [evalSeq] at h
        have hq := hrec.expr ctx q t g1 (hp.cache hx)
        cases hy : rec.expr ctx q t g1 with
        | none => simp [hy, bindR] at h
        | some a =>
          obtain ⟨r, g2⟩ := a
          cases r with
          | err e => simp [hy, bindR] at h
          | panic m => simp [hy, bindR] at h
          | ok r2 t2 =>
            obtain ⟨hle2, hr2⟩ := hq.post hy
            simp only [hy, bindR] at h
            cases hm2 : mergePart (filterRuleFields ctx.ruleFields (ownFields env q)) seen2 acc2 r2 with
            | error m => simp [hm2] at h
            | ok x =>
              obtain ⟨seen3, acc3⟩ := x
              simp only [hm2, evalSeq, Option.some.injEq, Prod.mk.injEq, Res.ok.injEq] at h
              obtain ⟨⟨_, rfl⟩, rfl⟩ := h
              exact ⟨r1, t, g1, r2, rfl, hy, hle, hle2, hr, hr2⟩

/-- a run of closure iterations from `s` to `s'` only appends values whose ranges lie in `[s.off, s'.off]` -/
theorem evalLoop_grows {body : St → Global → Out Parsed}
    (hbody : ∀ s g, CacheIn g → OutInv CacheIn (PostE ValIn s) (body s g)) {fields : List FieldDesc} :
    ∀ k {iters acc s g iters' acc' s' g'}, CacheIn g →
      evalLoop body fields k iters acc s g = some (.ok (iters', acc') s', g') →
      s.off ≤ s'.off ∧ Grows s.off s'.off acc acc' ∧ CacheIn g' := by
  intro k
  induction k with
  | zero => intro iters acc s g iters' acc' s' g' _ h; simp [evalLoop] at h
  | succ k ih =>
    intro iters acc s g iters' acc' s' g' hg h
    have hb := hbody s g hg
    rw [evalLoop] at h
    split at h
    · cases h
    · rename_i r s1 g1 hx
      obtain ⟨hle, hr⟩ := hb.post hx
      split at h
      · rename_i acc1 hacc1
        obtain ⟨hle2, hg2, hc2⟩ := ih (hb.cache hx) h
        refine ⟨Nat.le_trans hle hle2, ?_, hc2⟩
        exact ((extendAll_grows hacc1 hr).weaken (Nat.le_refl _) hle2).trans (hg2.weaken hle (Nat.le_refl _))
      · cases h
    · rename_i e g1 hx
      simp only [Option.some.injEq, Prod.mk.injEq, Res.ok.injEq] at h
      obtain ⟨⟨⟨_, rfl⟩, rfl⟩, rfl⟩ := h
      simp only [recordError_off]
      exact ⟨Nat.le_refl _, Grows.refl _ _ _, hb.cache hx⟩
    · cases h

/-- **C09, order (closure iterations)**: a successful iteration from `s` to `s1` contributes values with ranges
    in `[s.off, s1.off]`; all later iterations only append values with ranges in `[s1.off, s'.off]`. -/
theorem C09_ordered_evalLoop {body : St → Global → Out Parsed}
    (hbody : ∀ s g, CacheIn g → OutInv CacheIn (PostE ValIn s) (body s g)) {fields : List FieldDesc}
    {k iters : Nat} {acc : Parsed} {s : St} {g : Global} {iters' acc' s' g'} (hg : CacheIn g)
    (h : evalLoop body fields (k + 1) iters acc s g = some (.ok (iters', acc') s', g')) :
    (∃ e, body s g = some (.err e, g') ∧ acc' = acc ∧ iters' = iters ∧ s' = s.recordError e) ∨
    (∃ r s1 g1 acc1, body s g = some (.ok r s1, g1) ∧ extendAll fields acc r = .ok acc1 ∧
      evalLoop body fields k (iters + 1) acc1 s1 g1 = some (.ok (iters', acc') s', g') ∧
      s.off ≤ s1.off ∧ s1.off ≤ s'.off ∧ AllV (ValIn s.off s1.off) r ∧
      Grows s.off s1.off acc acc1 ∧ Grows s1.off s'.off acc1 acc') := by
  have hb := hbody s g hg
  rw [evalLoop] at h
  split at h
  · cases h
  · rename_i r s1 g1 hx
    obtain ⟨hle, hr⟩ := hb.post hx
    split at h
    · rename_i acc1 hacc1
      obtain ⟨hle2, hg2, _⟩ := evalLoop_grows hbody k (hb.cache hx) h
      exact Or.inr ⟨r, s1, g1, acc1, hx, hacc1, h, hle, hle2, hr, extendAll_grows hacc1 hr, hg2⟩
    · cases h
  · rename_i e g1 hx
    simp only [Option.some.injEq, Prod.mk.injEq, Res.ok.injEq] at h
    obtain ⟨⟨⟨rfl, rfl⟩, rfl⟩, rfl⟩ := h
    exact Or.inl ⟨e, hx, rfl, rfl, rfl⟩
  · cases h

end ordered

/-- `C09_ordered_evalSeq` for the evaluator itself: a `.seq` of at least two parts, split at any boundary -/
theorem C09_ordered {env : Env} (hext : ExternNoPos env.hooks) {n : Nat} {ctx : Ctx} {a b : Expr}
    {rest ps qs : List Expr} (hsplit : a :: b :: rest = ps ++ qs) {s s' : St} {g g' : Global} {p : Parsed}
    (hg : CacheIn g) (h : (eval env (n + 1)).expr ctx (.seq (a :: b :: rest)) s g = some (.ok p s', g')) :
    ∃ seen1 acc1 t g1 seen' acc',
      evalSeq env (eval env n) ctx ps [] [] s g = some (.ok (seen1, acc1) t, g1) ∧
      evalSeq env (eval env n) ctx qs seen1 acc1 t g1 = some (.ok (seen', acc') s', g') ∧
      project (filterRuleFields ctx.ruleFields (ownFields env (.seq (a :: b :: rest)))) acc' = .ok p ∧
      s.off ≤ t.off ∧ t.off ≤ s'.off ∧ AllV (ValIn s.off t.off) acc1 ∧ Grows t.off s'.off acc1 acc' := by
  have h' : stepExpr env (eval env n) n ctx (.seq (a :: b :: rest)) s g = some (.ok p s', g') := h
  simp only [stepExpr] at h'
  cases hx : evalSeq env (eval env n) ctx (a :: b :: rest) [] [] s g with
  | none => simp [hx, bindR] at h'
  | some x =>
    obtain ⟨r, g2⟩ := x
    cases r with
    | err e => simp [hx, bindR] at h'
    | panic m => simp [hx, bindR] at h'
    | ok x s2 =>
      obtain ⟨seen', acc'⟩ := x
      simp only [hx, bindR] at h'
      split at h'
      · rename_i p' hp
        simp only [Option.some.injEq, Prod.mk.injEq, Res.ok.injEq] at h'
        obtain ⟨⟨rfl, rfl⟩, rfl⟩ := h'
        rw [hsplit] at hx
        obtain ⟨seen1, acc1, t, g1, h1, h2, hle1, hle2, hgr1, hgr2⟩ :=
          C09_ordered_evalSeq (eval_V ValPred.valIn env hext n) ps qs hg hx
        exact ⟨seen1, acc1, t, g1, seen', acc', h1, h2, hp, hle1, hle2, hgr1.of_nil, hgr2⟩
      · cases h'

/-- closure iterations of the evaluator itself satisfy the hypothesis of `C09_ordered_evalLoop` -/
theorem closure_body_inv {env : Env} (hext : ExternNoPos env.hooks) (n : Nat) (ctx : Ctx) (b : Expr) :
    ∀ s g, CacheIn g → OutInv CacheIn (PostE ValIn s) ((eval env n).expr ctx b s g) :=
  (eval_V ValPred.valIn env hext n).expr ctx b

/-! ### C09 (5): an override (enum) rule delegates its position to the variant -/

/-- the `position` of a value, looking through the enum-variant and `Box` wrappers (what the derived
    `PegPosition` implementation of an enum does) -/
def Val.pos? : Val → Option (Nat × Nat)
  | .node _ _ p => p
  | .variant _ v => v.pos?
  | .boxed v => v.pos?
  | _ => Option.none

/-- `@check`s do not change the value or the state -/
theorem runChecks_ok {env : Env} : ∀ {fs v s g v' s' g'},
    runChecks env fs v s g = some (.ok v' s', g') → v' = v ∧ s' = s := by
  intro fs
  induction fs with
  | nil =>
    intro v s g v' s' g' h
    simp only [runChecks, Option.some.injEq, Prod.mk.injEq, Res.ok.injEq] at h
    exact ⟨h.1.1.symm, h.1.2.symm⟩
  | cons f fs ih =>
    intro v s g v' s' g' h
    simp only [runChecks] at h
    split at h
    · cases h
    · exact ih h

/-- the field post-processing only wraps: the result is the rule's value inside `variant` / `boxed` wrappers
    (which do not change `pos?`), possibly put into `Some(…)` / `vec![…]` for optional / multiple fields -/
theorem postprocessField_delegates {rf : List FieldDesc} {name typ : String} {v fv : Val}
    (h : postprocessField rf name typ v = .ok fv) :
    ∃ w, w.pos? = v.pos? ∧ (fv = w ∨ fv = .some w ∨ fv = .list [w]) := by
  unfold postprocessField at h
  split at h
  · cases h
  · rename_i f _
    split at h
    · cases h
    · rename_i boxed _
      simp only [Except.ok.injEq] at h
      refine ⟨if f.types.length > 1 then Val.variant typ (if boxed = true then Val.boxed v else v)
          else (if boxed = true then Val.boxed v else v), ?_, ?_⟩
      · split <;> (try simp only [Val.pos?]) <;> split <;> simp only [Val.pos?]
      · rw [← h]
        split
        · exact Or.inl rfl
        · exact Or.inr (Or.inl rfl)
        · exact Or.inr (Or.inr rfl)

/-- for a field of arity `One` (the usual `@:Variant` arm of an enum rule) the position is the rule value's -/
theorem postprocessField_pos_one {rf : List FieldDesc} {name typ : String} {v fv : Val} {f : FieldDesc}
    (hf : findField rf name = some f) (ha : f.arity = .one)
    (h : postprocessField rf name typ v = .ok fv) : fv.pos? = v.pos? := by
  unfold postprocessField at h
  rw [hf] at h
  simp only at h
  split at h
  · cases h
  · rename_i boxed _
    simp only [Except.ok.injEq, ha] at h
    rw [← h]
    split <;> (try simp only [Val.pos?]) <;> split <;> simp only [Val.pos?]

/-- **C09, enum rules (rule body)**: an override rule returns exactly the `_override` value of its definition –
    no node, no range of its own – and ends where its definition ends -/
theorem C09_enum_delegates {env : Env} {rec : Rec} {r : Rule} {s s' : St} {g g' : Global} {v : Val}
    (hov : r.isOverride env = true) (hns : r.flags.string = false)
    (h : ruleBody env rec r s g = some (.ok v s', g')) :
    ∃ fields p g1, getFields env.g env.nf r.definition = .ok fields ∧
      rec.expr { skipWs := env.settings.skipWhitespace && !r.flags.noSkipWs, ruleFields := fields }
        r.definition s g = some (.ok p s', g1) ∧
      p.get "_override" = some v := by
  unfold Rule.isOverride at hov
  simp only [ruleBody] at h
  split at h
  · rename_i fields hf
    rw [hf] at hov
    simp only at hov
    simp only [hns, Bool.false_eq_true, if_false, hov, if_true] at h
    refine ⟨fields, ?_⟩
    cases hx : rec.expr { skipWs := env.settings.skipWhitespace && !r.flags.noSkipWs, ruleFields := fields }
        r.definition s g with
    | none => simp [hx, bindR] at h
    | some a =>
      obtain ⟨res, g1⟩ := a
      cases res with
      | err e => simp [hx, bindR] at h
      | panic m => simp [hx, bindR] at h
      | ok p s1 =>
        simp only [hx, bindR] at h
        split at h
        · rename_i v0 hv0
          obtain ⟨rfl, rfl⟩ := runChecks_ok h
          exact ⟨p, g1, hf, rfl, hv0⟩
        · cases h
  · cases h

/-- **C09, enum rules (the `@:T` field)**: the value a field contributes is the value of the called rule `T`
    wrapped by `variant` / `boxed` (and `Some` / `vec![]` by arity): the enum's position is the variant's -/
theorem C09_enum_delegates_field {env : Env} {rec : Rec} {n : Nat} {ctx : Ctx} {nm : FieldName} {boxed : Bool}
    {typ : String} {s s' : St} {g g' : Global} {p : Parsed}
    (h : stepExpr env rec n ctx (.field (some nm) boxed typ) s g = some (.ok p s', g')) :
    ∃ s1 g1 v fv w, rec.rule typ s1 g1 = some (.ok v s', g') ∧ p = [(nm.key, fv)] ∧
      postprocessField ctx.ruleFields nm.key typ v = .ok fv ∧
      w.pos? = v.pos? ∧ (fv = w ∨ fv = .some w ∨ fv = .list [w]) := by
  simp only [stepExpr] at h
  have key : ∀ s1 g1, bindR (rec.rule typ s1 g1) (fun v s' g' =>
      match postprocessField ctx.ruleFields nm.key typ v with
      | .ok fv => some (.ok [(nm.key, fv)] s', g')
      | .error m => some (.panic ("codegen: " ++ m), g')) = some (.ok p s', g') →
      ∃ v fv w, rec.rule typ s1 g1 = some (.ok v s', g') ∧ p = [(nm.key, fv)] ∧
        postprocessField ctx.ruleFields nm.key typ v = .ok fv ∧
        w.pos? = v.pos? ∧ (fv = w ∨ fv = .some w ∨ fv = .list [w]) := by
    intro s1 g1 h
    cases hx : rec.rule typ s1 g1 with
    | none => simp [hx, bindR] at h
    | some a =>
      obtain ⟨res, g2⟩ := a
      cases res with
      | err e => simp [hx, bindR] at h
      | panic m => simp [hx, bindR] at h
      | ok v s2 =>
        simp only [hx, bindR] at h
        split at h
        · rename_i fv hfv
          simp only [Option.some.injEq, Prod.mk.injEq, Res.ok.injEq] at h
          obtain ⟨⟨rfl, rfl⟩, rfl⟩ := h
          obtain ⟨w, hw1, hw2⟩ := postprocessField_delegates hfv
          exact ⟨v, fv, w, rfl, rfl, hfv, hw1, hw2⟩
        · cases h
  unfold withSkipWs at h
  split at h
  · cases hx : rec.rule "Whitespace" s g with
    | none => simp [hx, bindR] at h
    | some a =>
      obtain ⟨res, g2⟩ := a
      cases res with
      | err e => simp [hx, bindR] at h
      | panic m => simp [hx, bindR] at h
      | ok v0 s1 =>
        rw [hx] at h
        simp only [bindR] at h
        obtain ⟨v, fv, w, hh⟩ := key s1 g2 h
        exact ⟨s1, g2, v, fv, w, hh⟩
  · obtain ⟨v, fv, w, hh⟩ := key s g h
    exact ⟨s, g, v, fv, w, hh⟩

/-! ### sanity checks: the hypotheses are satisfiable, the statements are not vacuous -/

/-- the initial state and the initial (empty) cache satisfy every precondition used above -/
example (env : Env) (inp : List UInt8) (u : Nat) :
    WfSt inp (St.new inp) ∧ CacheMono (Global.init u) ∧ CacheIn (Global.init u) ∧
      CachePos env inp (Global.init u) :=
  ⟨by simp [WfSt, St.new], CacheMono.init u, CacheIn.init u, CachePos.init env inp u⟩

/-- `@position S = x:B y:B`, `@string @position B = 'a'` on `"a a"`: `B` spans `0..1` and `2..3` (after the
    caller's whitespace skip), `S` spans `0..3` -/
example :
    let b : Rule := ⟨[.string, .position], "B", .choice [.seq [.lit false [.chr 'a']]]⟩
    let s : Rule := ⟨[.export, .position], "S",
      .choice [.seq [.field (some (.ident "x")) false "B", .field (some (.ident "y")) false "B"]]⟩
    let env : Env := { g := ⟨[.rule s, .rule b]⟩, settings := {}, hooks := default, nf := 10 }
    (match parseAdvanced env 20 "S" [97, 32, 97] 0 with
      | some (.ok (.node "S" [("x", .node "B" [("string", .str [97])] (some (0, 1))),
                              ("y", .node "B" [("string", .str [97])] (some (2, 3)))] (some (0, 3))) st, _) =>
        st.off == 3
      | _ => false) = true := by decide

/-- the cache-hit path: `S = x:A 'x' | x:A 'y'`, `@memoize @position A = 'a'` on `"ay"` – the second arm answers
    `A` from the cache, with the cached range `0..1` -/
example :
    let a : Rule := ⟨[.memoize, .position], "A", .choice [.seq [.lit false [.chr 'a']]]⟩
    let s : Rule := ⟨[.export], "S",
      .choice [.seq [.field (some (.ident "x")) false "A", .lit false [.chr 'x']],
               .seq [.field (some (.ident "x")) false "A", .lit false [.chr 'y']]]⟩
    let env : Env := { g := ⟨[.rule s, .rule a]⟩, settings := {}, hooks := default, nf := 10 }
    (match parseAdvanced env 20 "S" [97, 121] 0 with
      | some (.ok (.node "S" [("x", .node "A" [] (some (0, 1)))] none) st, g) =>
        st.off == 2 && g.cache.length == 1
      | _ => false) = true := by decide

/-- `ExternNoPos` is needed for `C09_nested`: an extern function may return a value carrying any range -/
example :
    let hooks : Hooks := { (default : Hooks) with
      extern := fun _ _ u => (.ok (.node "X" [] (some (5, 7)), 0), u) }
    let env : Env := { g := ⟨[.externRule ⟨["f"], none, "E"⟩]⟩, settings := {}, hooks := hooks, nf := 1 }
    ∃ v s' g', parseAdvanced env 1 "E" [] 0 = some (.ok v s', g') ∧ s'.off = 0 ∧ ¬ ValIn 0 s'.off v := by
  refine ⟨.node "X" [] (some (5, 7)), ⟨[], 0, none⟩, _, rfl, rfl, ?_⟩
  intro h
  have := (h.node_inv.2 5 7 rfl).2.2
  exact absurd this (by decide)

end Peg
