import PegVerif.Proofs.Boundary
/-
  Property C04 at the level of the whole evaluator:

    "for every input, a generated parser returns Ok or Err without panicking in the runtime, and every
     offset it uses or exposes lies on a UTF-8 character boundary inside the input".

  First pass (the statement of C04):
  * `RuntimePanic`, `BSt'`, `ResB`, `CacheB`, `GoodExterns` – the invariants; `not_rt_*` – the generator-side panics
    (`codegen: …`, `uncompilable: …`, `index out of bounds: choices[0]`) are not runtime panics;
  * `resb_*` – every matcher / runtime helper keeps the invariant (error bookkeeping included);
  * `compileLit_charLitI_ascii`, `compileLit_strLitI_ascii` – the insensitive matchers get ASCII literals;
  * `head_not_cont`, `isCharBoundary_enc`, `advanceSafe_enc` – `advance_safe` after a `GoodExterns` extern;
  * `*_bd` – every list/loop helper and every construct keeps the invariant (`RecB rec → RecB (step env rec n)`);
  * `eval_boundary`, `C04_no_runtime_panic`, `C04_offsets_on_boundaries` – the main theorems;
  * `sliceUntil_enc` – the `@string` slice between two ordered boundary states is a valid UTF-8 substring.

  Second pass (offset monotonicity threaded through the evaluator, and the returned tree):
  * `ValB` – every `position` is an ordered pair of boundaries, every `str` is `enc` of a contiguous part of the text;
  * `ResS`, `CacheS`, `ExternValsB`, `*_s` – the strengthened invariants and their preservation;
  * `eval_boundary_values`, `eval_offsets_monotone`, `C04_values_on_boundaries`.
-/
namespace Peg

/-! ### the runtime panics -/

/-- the two panics of runtime/src/state.rs (`advance` overrun, `&s[n..]` off a char boundary) -/
def RuntimePanic (m : String) : Prop :=
  m = "String length overrun in advance()" ∨ m = "byte index is not a char boundary"

theorem not_rt_codegen (m : String) : ¬ RuntimePanic ("codegen: " ++ m) := by
  rintro (h | h) <;> (have := congrArg (fun s => s.toList.head?) h; simp at this)

theorem not_rt_undefined (m : String) : ¬ RuntimePanic ("uncompilable: undefined rule " ++ m) := by
  rintro (h | h) <;> (have := congrArg (fun s => s.toList.head?) h; simp at this)

theorem not_rt_uncompilable_range : ¬ RuntimePanic "uncompilable: range bound" := by
  rintro (h | h) <;> revert h <;> decide
theorem not_rt_uncompilable_literal : ¬ RuntimePanic "uncompilable: literal" := by
  rintro (h | h) <;> revert h <;> decide
theorem not_rt_uncompilable_include : ¬ RuntimePanic "uncompilable: include of a missing rule" := by
  rintro (h | h) <;> revert h <;> decide
theorem not_rt_uncompilable_mixing :
    ¬ RuntimePanic "uncompilable: Mixing simple and override fields is not allowed." := by
  rintro (h | h) <;> revert h <;> decide
theorem not_rt_uncompilable_getFields : ¬ RuntimePanic "uncompilable: get_fields failed" := by
  rintro (h | h) <;> revert h <;> decide
theorem not_rt_uncompilable_charLit : ¬ RuntimePanic "uncompilable: char rule literal" := by
  rintro (h | h) <;> revert h <;> decide
theorem not_rt_uncompilable_charRange : ¬ RuntimePanic "uncompilable: char rule range" := by
  rintro (h | h) <;> revert h <;> decide
theorem not_rt_choices0 : ¬ RuntimePanic "index out of bounds: choices[0]" := by
  rintro (h | h) <;> revert h <;> decide
theorem not_rt_override : ¬ RuntimePanic "codegen: override value missing" := by
  rintro (h | h) <;> revert h <;> decide

/-! ### the invariants -/

/-- state on a boundary, and the recorded furthest error (if any) is at a boundary too -/
def BSt' (cs : List Char) (s : St) : Prop := BSt cs s ∧ ∀ f, s.far = some f → IsBoundary cs f.pos

def ResB (cs : List Char) {α : Type} (r : Res α) : Prop :=
  match r with
  | .ok _ s => BSt' cs s
  | .err e => IsBoundary cs e.pos
  | .panic m => ¬ RuntimePanic m

def CacheB (cs : List Char) (g : Global) : Prop := ∀ k r, g.lookup k = some r → ResB cs r

/-- user extern functions return byte lengths that are character boundaries of what they were given -/
def GoodExterns (H : Hooks) : Prop :=
  ∀ f rem u v adv u', H.extern f (enc rem) u = (.ok (v, adv), u') → ∃ p, p <+: rem ∧ adv = (enc p).length

@[simp] theorem resb_ok {cs : List Char} {α : Type} (v : α) (s : St) : ResB cs (.ok v s) ↔ BSt' cs s := Iff.rfl
@[simp] theorem resb_err {cs : List Char} {α : Type} (e : PErr) :
    ResB cs (.err e : Res α) ↔ IsBoundary cs e.pos := Iff.rfl
@[simp] theorem resb_panic {cs : List Char} {α : Type} (m : String) :
    ResB cs (.panic m : Res α) ↔ ¬ RuntimePanic m := Iff.rfl

theorem resb_map {cs : List Char} {α β : Type} (f : α → β) (r : Res α) : ResB cs (r.map f) ↔ ResB cs r := by
  cases r <;> rfl

/-- `ResB` does not look at the value -/
theorem resb_retype {cs : List Char} {α β : Type} {r : Res α} {r' : Res β}
    (h : r.map (fun _ => ()) = r'.map (fun _ => ())) : ResB cs r ↔ ResB cs r' := by
  cases r <;> cases r' <;> simp only [Res.map, Res.ok.injEq, Res.err.injEq, Res.panic.injEq, reduceCtorEq] at h
  · simp only [resb_ok, h.2]
  · simp only [resb_err, h]
  · simp only [resb_panic, h]

theorem isBoundary_le {cs : List Char} {off : Nat} (h : IsBoundary cs off) : off ≤ (enc cs).length := by
  obtain ⟨k, _, rfl⟩ := h
  have : enc cs = enc (cs.take k) ++ enc (cs.drop k) := by rw [← enc_append, List.take_append_drop]
  rw [this, List.length_append]; omega

theorem isBoundary_zero (cs : List Char) : IsBoundary cs 0 := ⟨0, Nat.zero_le _, by simp [enc_nil]⟩

theorem bst'_new (cs : List Char) : BSt' cs (St.new (enc cs)) :=
  ⟨(show At cs [] cs (St.new (enc cs)) from ⟨rfl, rfl, rfl⟩).bst, fun f h => by cases h⟩

theorem cacheB_init (cs : List Char) (u : Nat) : CacheB cs (Global.init u) := by
  intro k r h; simp [Global.init, Global.lookup] at h

theorem cacheB_emit {cs g} (e : Ev) (h : CacheB cs g) : CacheB cs (g.emit e) := h

theorem cacheB_setUctx {cs} {g : Global} (u : Nat) (h : CacheB cs g) : CacheB cs { g with uctx := u } := h

theorem cacheB_insert {cs g} (k : String × Nat) {r : Res Val} (h : CacheB cs g) (hr : ResB cs r) :
    CacheB cs (g.insert k r) := by
  intro k' r' hl
  rw [lookup_insert] at hl
  split at hl
  · cases hl; exact hr
  · exact h _ _ hl

/-! ### error bookkeeping keeps positions on boundaries -/

theorem bst'_off {cs s} (h : BSt' cs s) : IsBoundary cs s.off := h.1.2

theorem bst'_recordError {cs s e} (h : BSt' cs s) (he : IsBoundary cs e.pos) : BSt' cs (s.recordError e) := by
  obtain ⟨⟨hw, hb⟩, hf⟩ := h
  refine ⟨⟨wf_recordError.mpr hw, by rw [recordError_off]; exact hb⟩, ?_⟩
  intro f hfar
  unfold St.recordError at hfar
  split at hfar
  · split at hfar
    · cases hfar; exact he
    · exact hf _ hfar
  · cases hfar; exact he

theorem isBoundary_reportFarthest {cs s} (h : BSt' cs s) : IsBoundary cs s.reportFarthest.pos := by
  unfold St.reportFarthest
  split
  · rename_i f hfar; exact h.2 _ hfar
  · exact h.1.2

theorem isBoundary_reportError {cs s} (sp : Spec) (h : BSt' cs s) : IsBoundary cs (s.reportError sp).pos :=
  isBoundary_reportFarthest (bst'_recordError h h.1.2)

theorem resb_reportError {cs s} {α : Type} (sp : Spec) (h : BSt' cs s) :
    ResB cs (.err (s.reportError sp) : Res α) := isBoundary_reportError sp h

/-- advancing over the characters `p` keeps `BSt'` -/
theorem bst'_advance {cs pre p r s} (hat : At cs pre (p ++ r) s) (h : BSt' cs s) :
    BSt' cs { s with rest := enc r, off := s.off + (enc p).length } :=
  ⟨hat.advance.bst, h.2⟩

theorem bst'_advance_char {cs pre c r s} (hat : At cs pre (c :: r) s) (h : BSt' cs s) :
    BSt' cs { s with rest := enc r, off := s.off + c.utf8Size } :=
  ⟨hat.advance_char.bst, h.2⟩

/-! ### the matchers -/

theorem resb_parseChar {cs s} (h : BSt' cs s) : ResB cs (parseChar s) := by
  obtain ⟨pre, rem, hat⟩ := bst_iff_at.mp h.1
  rw [parseChar_enc hat.2.2]
  cases rem with
  | nil => exact resb_reportError _ h
  | cons c r => exact bst'_advance_char hat h

theorem resb_parseWhitespace {cs s} (h : BSt' cs s) : ResB cs (parseWhitespace s) := by
  obtain ⟨pre, rem, hat⟩ := bst_iff_at.mp h.1
  rw [parseWhitespace_enc hat.2.2]
  have hat' : At cs pre (rem.takeWhile isWsChar ++ rem.dropWhile isWsChar) s := by
    rw [List.takeWhile_append_dropWhile]; exact hat
  exact bst'_advance hat' h

theorem resb_parseEndOfInput {cs s} (h : BSt' cs s) : ResB cs (parseEndOfInput s) := by
  unfold parseEndOfInput
  split
  · exact h
  · exact resb_reportError _ h

theorem resb_parseCharacterLiteral {cs s} (c : Char) (h : BSt' cs s) : ResB cs (parseCharacterLiteral s c) := by
  obtain ⟨pre, rem, hat⟩ := bst_iff_at.mp h.1
  rw [parseCharacterLiteral_enc c hat.2.2]
  cases rem with
  | nil => exact resb_reportError _ h
  | cons c' r =>
    simp only
    split
    · rename_i hcc; subst hcc; exact bst'_advance_char hat h
    · exact resb_reportError _ h

theorem resb_parseCharacterRange {cs s} (lo hi : Char) (h : BSt' cs s) :
    ResB cs (parseCharacterRange s lo hi) := by
  obtain ⟨pre, rem, hat⟩ := bst_iff_at.mp h.1
  rw [parseCharacterRange_enc lo hi hat.2.2]
  cases rem with
  | nil => exact resb_reportError _ h
  | cons c r =>
    simp only
    split
    · exact bst'_advance_char hat h
    · exact resb_reportError _ h

theorem resb_parseStringLiteral {cs s} (l : List Char) (h : BSt' cs s) : ResB cs (parseStringLiteral s l) := by
  obtain ⟨pre, rem, hat⟩ := bst_iff_at.mp h.1
  rw [parseStringLiteral_enc l hat.2.2]
  split
  · rename_i hp
    obtain ⟨t, rfl⟩ := List.isPrefixOf_iff_prefix.mp hp
    rw [List.drop_left]
    exact bst'_advance hat h
  · exact resb_reportError _ h

theorem resb_parseCharacterLiteralInsensitive {cs s c} (hc : isAscii c = true) (h : BSt' cs s) :
    ResB cs (parseCharacterLiteralInsensitive s c) := by
  obtain ⟨pre, rem, hat⟩ := bst_iff_at.mp h.1
  rw [parseCharacterLiteralInsensitive_enc hc hat.2.2]
  cases rem with
  | nil => exact resb_reportError _ h
  | cons c' r =>
    simp only
    split
    · exact bst'_advance_char hat h
    · exact resb_reportError _ h

theorem resb_parseStringLiteralInsensitive {cs s l} (hl : l.all isAscii = true) (h : BSt' cs s) :
    ResB cs (parseStringLiteralInsensitive s l) := by
  obtain ⟨pre, rem, hat⟩ := bst_iff_at.mp h.1
  rw [parseStringLiteralInsensitive_enc hl hat.2.2]
  split
  · rename_i hm
    obtain ⟨_, _, hbytes⟩ := ci_match_bytes hl hm
    rw [hbytes]
    have hat' : At cs pre (rem.take l.length ++ rem.drop l.length) s := by
      rw [List.take_append_drop]; exact hat
    exact bst'_advance hat' h
  · exact resb_reportError _ h

/-! ### `compileLit`: the insensitive matchers get (lowercased) ASCII literals -/

theorem all_ascii_lower {l : List Char} (h : l.all isAscii = true) : (l.map charToAsciiLower).all isAscii = true := by
  rw [List.all_eq_true] at h ⊢
  intro x hx
  obtain ⟨y, hy, rfl⟩ := List.mem_map.mp hx
  exact (lower_ascii (h y hy)).2

theorem compileLit_insensitive {items m} (h : compileLit true items = .ok m) :
    (∀ c, m = .charLitI c → isAscii c = true) ∧ (∀ l, m = .strLitI l → l.all isAscii = true) ∧
    (∀ c, m ≠ .charLit c) ∧ (∀ l, m ≠ .strLit l) := by
  unfold compileLit at h
  split at h
  · cases h
  · cases h
  · rename_i lit _
    simp only [if_true] at h
    split at h
    · cases h
    · rename_i hall
      simp only [Bool.not_eq_true, Bool.not_eq_false'] at hall
      have hl := all_ascii_lower (by simpa using hall : lit.all isAscii = true)
      split at h
      · rename_i c heq
        cases h
        rw [heq] at hl
        refine ⟨?_, ?_, ?_, ?_⟩ <;> intro x hx <;> cases hx
        simpa using hl
      · cases h
        refine ⟨?_, ?_, ?_, ?_⟩ <;> intro x hx <;> cases hx
        exact hl

theorem compileLit_charLitI_ascii {items c} (h : compileLit true items = .ok (.charLitI c)) : isAscii c = true :=
  (compileLit_insensitive h).1 c rfl

theorem compileLit_strLitI_ascii {items l} (h : compileLit true items = .ok (.strLitI l)) :
    l.all isAscii = true := (compileLit_insensitive h).2.1 l rfl

theorem compileLit_false {items m} (h : compileLit false items = .ok m) :
    (∀ c, m ≠ .charLitI c) ∧ (∀ l, m ≠ .strLitI l) := by
  unfold compileLit at h
  split at h
  · cases h
  · cases h
  · simp only [Bool.false_eq_true, if_false] at h
    split at h <;> cases h <;> refine ⟨?_, ?_⟩ <;> intro x hx <;> cases hx

/-! ### `advanceSafe` -/

theorem not_cont_lt (b : UInt8) : b < 128 → ((b &&& 0xC0) != 0x80) = true :=
  u8_all (fun b => b < 128 → ((b &&& 0xC0) != 0x80) = true) (by decide +kernel) b
theorem not_cont_c0 (x : UInt8) : ((x &&& 0x1f ||| 0xc0) &&& 0xC0 != 0x80) = true :=
  u8_all (fun x => ((x &&& 0x1f ||| 0xc0) &&& 0xC0 != 0x80) = true) (by decide +kernel) x
theorem not_cont_e0 (x : UInt8) : ((x &&& 0x0f ||| 0xe0) &&& 0xC0 != 0x80) = true :=
  u8_all (fun x => ((x &&& 0x0f ||| 0xe0) &&& 0xC0 != 0x80) = true) (by decide +kernel) x
theorem not_cont_f0 (x : UInt8) : ((x &&& 0x07 ||| 0xf0) &&& 0xC0 != 0x80) = true :=
  u8_all (fun x => ((x &&& 0x07 ||| 0xf0) &&& 0xC0 != 0x80) = true) (by decide +kernel) x

/-- the first byte of an encoded character is not a continuation byte `10xxxxxx` -/
theorem head_not_cont (c : Char) : ∃ b tl, String.utf8EncodeChar c = b :: tl ∧ ((b &&& 0xC0) != 0x80) = true := by
  rcases Char.utf8Size_eq c with h1 | h2 | h3 | h4
  · have hc := isAscii_of_utf8Size h1
    exact ⟨_, _, utf8EncodeChar_ascii hc, not_cont_lt _ (charAsU8_lt hc)⟩
  · exact ⟨_, _, String.utf8EncodeChar_eq_cons_cons h2, not_cont_c0 _⟩
  · exact ⟨_, _, String.utf8EncodeChar_eq_cons_cons_cons h3, not_cont_e0 _⟩
  · exact ⟨_, _, String.utf8EncodeChar_eq_cons_cons_cons_cons h4, not_cont_f0 _⟩

/-- the end of an encoded prefix is a `str::is_char_boundary` of the encoded text -/
theorem isCharBoundary_enc (p t : List Char) : isCharBoundary (enc (p ++ t)) (enc p).length = true := by
  unfold isCharBoundary
  split
  · rfl
  · rw [enc_append, List.getElem?_append_right (Nat.le_refl _), Nat.sub_self]
    cases t with
    | nil => simp [enc_nil]
    | cons c t =>
      obtain ⟨b, tl, he, hb⟩ := head_not_cont c
      rw [enc_cons, he]
      simpa using hb

theorem advanceSafe_enc {α} (s : St) (p r : List Char) (v : α) (h : s.rest = enc (p ++ r)) :
    s.advanceSafe (enc p).length v = .ok v { s with rest := enc r, off := s.off + (enc p).length } := by
  unfold St.advanceSafe
  rw [h, isCharBoundary_enc, enc_append]
  simp

theorem resb_advanceSafe {cs s} {α : Type} {pre rem p : List Char} {adv : Nat} (v : α) (h : BSt' cs s)
    (hat : At cs pre rem s) (hp : p <+: rem) (hadv : adv = (enc p).length) : ResB cs (s.advanceSafe adv v) := by
  obtain ⟨t, rfl⟩ := hp
  subst hadv
  rw [advanceSafe_enc s p t v hat.2.2]
  exact bst'_advance hat h

/-! ### the invariant of a computation -/

def InvB (cs : List Char) {α : Type} (f : Global → Out α) : Prop :=
  ∀ g r g', f g = some (r, g') → CacheB cs g → ResB cs r ∧ CacheB cs g'

structure RecB (cs : List Char) (rec : Rec) : Prop where
  expr : ∀ ctx e s, BSt' cs s → InvB cs (rec.expr ctx e s)
  rule : ∀ name s, BSt' cs s → InvB cs (rec.rule name s)

theorem InvB.pure {cs} {α : Type} {r : Res α} (hr : ResB cs r) : InvB cs (fun g => some (r, g)) := by
  intro g r' g' h hc
  cases h
  exact ⟨hr, hc⟩

theorem InvB.congr {cs} {α : Type} {f f' : Global → Out α} (he : ∀ g, f g = f' g) (h : InvB cs f') : InvB cs f := by
  have : f = f' := funext he
  rw [this]; exact h

theorem InvB.ite {cs} {α : Type} {c : Prop} [Decidable c] {f f' : Global → Out α} (h1 : InvB cs f)
    (h2 : InvB cs f') : InvB cs (fun g => if c then f g else f' g) := by
  by_cases hc : c
  · simp only [hc, if_true]; exact h1
  · simp only [hc, if_false]; exact h2

theorem bindR_bd {cs} {α β : Type} {f : Global → Out α} {k : α → St → Global → Out β}
    (hf : InvB cs f) (hk : ∀ v s, BSt' cs s → InvB cs (k v s)) : InvB cs (fun g => bindR (f g) k) := by
  intro g r g' h hc
  simp only [bindR] at h
  split at h
  · cases h
  · rename_i v s1 g1 heq
    obtain ⟨h1, hc1⟩ := hf _ _ _ heq hc
    exact hk _ _ h1 _ _ _ h hc1
  · rename_i e g1 heq
    obtain ⟨h1, hc1⟩ := hf _ _ _ heq hc
    cases h; exact ⟨h1, hc1⟩
  · rename_i m g1 heq
    obtain ⟨h1, hc1⟩ := hf _ _ _ heq hc
    cases h; exact ⟨h1, hc1⟩

theorem withSkipWs_bd {cs} {α : Type} {rec : Rec} (hrec : RecB cs rec) {ctx : Ctx} {s : St}
    {k : St → Global → Out α} (hs : BSt' cs s) (hk : ∀ s, BSt' cs s → InvB cs (k s)) :
    InvB cs (fun g => withSkipWs rec ctx s g k) := by
  unfold withSkipWs
  split
  · exact bindR_bd (hrec.rule _ _ hs) (fun _ s hs' => hk s hs')
  · exact hk s hs

/-! ### expression level -/

section
variable {env : Env} {rec : Rec} {cs : List Char}

theorem evalSeq_bd (hrec : RecB cs rec) {ctx : Ctx} :
    ∀ ps seen acc s, BSt' cs s → InvB cs (evalSeq env rec ctx ps seen acc s) := by
  intro ps
  induction ps with
  | nil => intro seen acc s hs; exact InvB.pure hs
  | cons p ps ih =>
    intro seen acc s hs
    refine InvB.congr (fun g => by rw [evalSeq]) (bindR_bd (hrec.expr ctx p s hs) (fun r s' hs' => ?_))
    cases hm : mergePart (filterRuleFields ctx.ruleFields (ownFields env p)) seen acc r with
    | error m => simp only [hm]; exact InvB.pure (not_rt_codegen m)
    | ok v => simp only [hm]; exact ih _ _ _ hs'

theorem evalAlts_bd (hrec : RecB cs rec) {ctx : Ctx} {fields} :
    ∀ as s, BSt' cs s → InvB cs (evalAlts env rec ctx fields as s) := by
  intro as
  induction as with
  | nil => intro s hs; exact InvB.pure (isBoundary_reportFarthest hs)
  | cons a as ih =>
    intro s hs g r g' h hc
    simp only [evalAlts] at h
    split at h
    · cases h
    · rename_i r0 s0 g0 hx
      obtain ⟨h1, hc1⟩ := hrec.expr _ _ _ hs _ _ _ hx hc
      split at h
      · cases h; exact ⟨h1, hc1⟩
      · cases h; exact ⟨not_rt_codegen _, hc1⟩
    · rename_i e0 g0 hx
      obtain ⟨h1, hc1⟩ := hrec.expr _ _ _ hs _ _ _ hx hc
      exact ih _ (bst'_recordError hs h1) _ _ _ h hc1
    · rename_i m g0 hx
      obtain ⟨h1, hc1⟩ := hrec.expr _ _ _ hs _ _ _ hx hc
      cases h; exact ⟨h1, hc1⟩

theorem evalLoop_bd {body : St → Global → Out Parsed} (hbody : ∀ s, BSt' cs s → InvB cs (body s)) {fields} :
    ∀ k iters acc s, BSt' cs s → InvB cs (evalLoop body fields k iters acc s) := by
  intro k
  induction k with
  | zero => intro iters acc s hs g r g' h; simp [evalLoop] at h
  | succ k ih =>
    intro iters acc s hs g r g' h hc
    simp only [evalLoop] at h
    split at h
    · cases h
    · rename_i r0 s0 g0 hx
      obtain ⟨h1, hc1⟩ := hbody _ hs _ _ _ hx hc
      split at h
      · exact ih _ _ _ h1 _ _ _ h hc1
      · cases h; exact ⟨not_rt_codegen _, hc1⟩
    · rename_i e0 g0 hx
      obtain ⟨h1, hc1⟩ := hbody _ hs _ _ _ hx hc
      cases h; exact ⟨bst'_recordError hs h1, hc1⟩
    · rename_i m g0 hx
      obtain ⟨h1, hc1⟩ := hbody _ hs _ _ _ hx hc
      cases h; exact ⟨h1, hc1⟩

theorem stepExpr_bd (hrec : RecB cs rec) (n : Nat) (ctx : Ctx) (e : Expr) (s : St) (hs : BSt' cs s) :
    InvB cs (stepExpr env rec n ctx e s) := by
  cases e with
  | choice alts =>
    match alts with
    | [] => exact InvB.pure not_rt_choices0
    | [a] => exact hrec.expr ctx a s hs
    | a :: b :: rest => exact evalAlts_bd hrec _ _ hs
  | seq parts =>
    match parts with
    | [] => exact InvB.pure hs
    | [a] => exact hrec.expr ctx a s hs
    | a :: b :: rest =>
      refine bindR_bd (evalSeq_bd hrec _ _ _ _ hs) (fun v s' hs' => ?_)
      obtain ⟨seen, acc⟩ := v
      cases hp : project (filterRuleFields ctx.ruleFields (ownFields env (.seq (a :: b :: rest)))) acc with
      | error m => simp only [hp]; exact InvB.pure (not_rt_codegen m)
      | ok v => simp only [hp]; exact InvB.pure hs'
  | group b => exact hrec.expr ctx b s hs
  | opt b =>
    intro g r g' h hc
    simp only [stepExpr] at h
    split at h
    · cases h
    · rename_i r0 s0 g0 hx
      obtain ⟨h1, hc1⟩ := hrec.expr _ _ _ hs _ _ _ hx hc
      cases h; exact ⟨h1, hc1⟩
    · rename_i e0 g0 hx
      obtain ⟨h1, hc1⟩ := hrec.expr _ _ _ hs _ _ _ hx hc
      split at h
      · cases h; exact ⟨bst'_recordError hs h1, hc1⟩
      · cases h; exact ⟨not_rt_codegen _, hc1⟩
    · rename_i m g0 hx
      obtain ⟨h1, hc1⟩ := hrec.expr _ _ _ hs _ _ _ hx hc
      cases h; exact ⟨h1, hc1⟩
  | closure b plus =>
    show InvB cs (fun g => stepExpr env rec n ctx (.closure b plus) s g)
    simp only [stepExpr]
    cases hinit : closureInit (filterRuleFields ctx.ruleFields (ownFields env b)) with
    | error m => simp only []; exact InvB.pure (not_rt_codegen m)
    | ok init =>
      simp only []
      exact bindR_bd (evalLoop_bd (hrec.expr ctx b) _ _ _ _ hs)
        (fun v s' hs' => InvB.ite (InvB.pure (isBoundary_reportFarthest hs')) (InvB.pure hs'))
  | neg b =>
    intro g r g' h hc
    simp only [stepExpr] at h
    split at h
    · cases h
    · rename_i r0 s0 g0 hx
      obtain ⟨h1, hc1⟩ := hrec.expr _ _ _ hs _ _ _ hx hc
      cases h; exact ⟨isBoundary_reportError _ hs, hc1⟩
    · rename_i e0 g0 hx
      obtain ⟨h1, hc1⟩ := hrec.expr _ _ _ hs _ _ _ hx hc
      cases h; exact ⟨hs, hc1⟩
    · rename_i m g0 hx
      obtain ⟨h1, hc1⟩ := hrec.expr _ _ _ hs _ _ _ hx hc
      cases h; exact ⟨h1, hc1⟩
  | pos b => exact bindR_bd (hrec.expr ctx b s hs) (fun _ _ _ => InvB.pure hs)
  | range lo hi =>
    show InvB cs (fun g => stepExpr env rec n ctx (.range lo hi) s g)
    simp only [stepExpr]
    cases hlo : lo.toChar <;> cases hhi : hi.toChar <;> simp only []
    all_goals first
      | exact InvB.pure not_rt_uncompilable_range
      | exact withSkipWs_bd hrec hs (fun s hs => InvB.pure ((resb_map _ _).mpr (resb_parseCharacterRange _ _ hs)))
  | lit ins body =>
    show InvB cs (fun g => stepExpr env rec n ctx (.lit ins body) s g)
    simp only [stepExpr]
    cases hm : compileLit ins body with
    | err m => simp only []; exact InvB.pure not_rt_uncompilable_literal
    | fuel => simp only []; exact InvB.pure not_rt_uncompilable_literal
    | ok m =>
      simp only []
      refine withSkipWs_bd hrec hs (fun s hs => ?_)
      cases m with
      | charLit c => exact InvB.pure ((resb_map _ _).mpr (resb_parseCharacterLiteral _ hs))
      | strLit l => exact InvB.pure ((resb_map _ _).mpr (resb_parseStringLiteral _ hs))
      | charLitI c =>
        cases ins with
        | false => exact absurd rfl ((compileLit_false hm).1 c)
        | true =>
          exact InvB.pure ((resb_map _ _).mpr (resb_parseCharacterLiteralInsensitive (compileLit_charLitI_ascii hm) hs))
      | strLitI l =>
        cases ins with
        | false => exact absurd rfl ((compileLit_false hm).2 l)
        | true =>
          exact InvB.pure ((resb_map _ _).mpr (resb_parseStringLiteralInsensitive (compileLit_strLitI_ascii hm) hs))
  | eoi => exact withSkipWs_bd hrec hs (fun s hs => InvB.pure ((resb_map _ _).mpr (resb_parseEndOfInput hs)))
  | incl r =>
    show InvB cs (fun g => stepExpr env rec n ctx (.incl r) s g)
    simp only [stepExpr]
    cases hf : env.g.findRule r with
    | none => simp only []; exact InvB.pure not_rt_uncompilable_include
    | some rule => simp only []; exact hrec.expr ctx _ s hs
  | field name boxed typ =>
    show InvB cs (fun g => stepExpr env rec n ctx (.field name boxed typ) s g)
    simp only [stepExpr]
    refine withSkipWs_bd hrec hs (fun s hs => bindR_bd (hrec.rule typ s hs) (fun v s' hs' => ?_))
    cases name with
    | none => exact InvB.pure hs'
    | some nm =>
      simp only []
      cases hp : postprocessField ctx.ruleFields nm.key typ v with
      | error m => simp only []; exact InvB.pure (not_rt_codegen m)
      | ok fv => simp only []; exact InvB.pure hs'

/-! ### rule level -/

theorem runChecks_bd : ∀ fs v s, BSt' cs s → InvB cs (runChecks env fs v s) := by
  intro fs
  induction fs with
  | nil => intro v s hs; exact InvB.pure hs
  | cons f fs ih =>
    intro v s hs g r g' h hc
    simp only [runChecks] at h
    split at h
    · cases h
      exact ⟨isBoundary_reportError _ hs, hc⟩
    · exact ih _ _ hs _ _ _ h hc

theorem ruleBody_bd (hrec : RecB cs rec) (r : Rule) (s : St) (hs : BSt' cs s) : InvB cs (ruleBody env rec r s) := by
  show InvB cs (fun g => ruleBody env rec r s g)
  simp only [ruleBody]
  cases hf : getFields env.g env.nf r.definition with
  | ok fields =>
    simp only []
    refine InvB.ite (bindR_bd (hrec.expr _ _ _ hs) (fun _ s' hs' => runChecks_bd _ _ _ hs'))
      (InvB.ite (bindR_bd (hrec.expr _ _ _ hs) (fun p s' hs' => ?_))
        (InvB.ite (InvB.pure not_rt_uncompilable_mixing) (bindR_bd (hrec.expr _ _ _ hs) (fun p s' hs' => ?_))))
    · cases hv : p.get "_override" with
      | none => simp only []; exact InvB.pure not_rt_override
      | some v => simp only []; exact runChecks_bd _ _ _ hs'
    · cases hp : project fields p with
      | error m => simp only []; exact InvB.pure (not_rt_codegen m)
      | ok fs => simp only []; exact runChecks_bd _ _ _ hs'
  | err m => simp only []; exact InvB.pure not_rt_uncompilable_getFields
  | fuel => simp only []; exact InvB.pure not_rt_uncompilable_getFields

theorem growLoop_bd {body : St → Global → Out Val} (key : String × Nat) (s : St) (hbody : InvB cs (body s)) :
    ∀ k best, ResB cs best → InvB cs (growLoop body key s k best) := by
  intro k
  induction k with
  | zero => intro best hb g r g' h; simp [growLoop] at h
  | succ k ih =>
    intro best hb g r g' h hc
    simp only [growLoop] at h
    split at h
    · cases h
    · rename_i m g1 hx
      obtain ⟨h1, hc1⟩ := hbody _ _ _ hx hc
      cases h; exact ⟨h1, hc1⟩
    · rename_i v ns g1 hx
      obtain ⟨h1, hc1⟩ := hbody _ _ _ hx hc
      have hins : CacheB cs (g1.insert key (.ok v ns)) := cacheB_insert key hc1 h1
      cases best with
      | ok bv bs =>
        simp only at h
        split at h
        · exact ih _ h1 _ _ _ h hins
        · cases h; exact ⟨hb, hc1⟩
      | err be => simp only at h; exact ih _ h1 _ _ _ h hins
      | panic bm => simp only at h; exact ih _ h1 _ _ _ h hins
    · rename_i e g1 hx
      obtain ⟨h1, hc1⟩ := hbody _ _ _ hx hc
      cases best with
      | ok bv bs => simp only at h; cases h; exact ⟨hb, hc1⟩
      | err be => simp only at h; cases h; exact ⟨h1, cacheB_insert key hc1 h1⟩
      | panic bm => simp only at h; cases h; exact ⟨h1, cacheB_insert key hc1 h1⟩

theorem memoBody_bd {body : St → Global → Out Val} (flags : RuleFlags) (name : String) (n : Nat) (s : St)
    (hs : BSt' cs s) (hbody : InvB cs (body s)) : InvB cs (memoBody flags name body n s) := by
  intro g r g' h hc
  simp only [memoBody] at h
  split at h
  · split at h
    · rename_i cached hl
      cases h
      exact ⟨hc _ _ hl, hc⟩
    · have hbest : ResB cs (.err (s.reportError .leftRecursionSentinel) : Res Val) := isBoundary_reportError _ hs
      exact growLoop_bd _ _ hbody _ _ hbest _ _ _ h (cacheB_insert _ hc hbest)
  · split at h
    · split at h
      · rename_i cached hl
        cases h
        exact ⟨hc _ _ hl, hc⟩
      · cases hx : body s (g.emit (.bodyEval name s.off)) with
        | none => simp [hx] at h
        | some a =>
          obtain ⟨r1, g1⟩ := a
          obtain ⟨h1, hc1⟩ := hbody _ _ _ hx hc
          cases r1 with
          | ok v s1 => simp only [hx] at h; cases h; exact ⟨h1, cacheB_insert _ hc1 h1⟩
          | err e => simp only [hx] at h; cases h; exact ⟨h1, cacheB_insert _ hc1 h1⟩
          | panic m => simp only [hx] at h; cases h; exact ⟨h1, hc1⟩
    · exact hbody _ _ _ h hc

theorem cacheB_traceResult {g : Global} (r : Res Val) (h : CacheB cs g) : CacheB cs (traceResult g r) := by
  cases r <;> exact h

theorem normalRule_bd (hrec : RecB cs rec) (n : Nat) (r : Rule) (s : St) (hs : BSt' cs s) :
    InvB cs (normalRule env rec n r s) := by
  intro g res g' h hc
  simp only [normalRule] at h
  split at h
  · cases h
  · rename_i res1 g1 hx
    obtain ⟨h1, hc1⟩ := memoBody_bd _ _ _ _ hs (ruleBody_bd hrec r s hs) _ _ _ hx (cacheB_emit _ hc)
    cases h
    exact ⟨h1, cacheB_traceResult _ hc1⟩

theorem charChecks_bd (name : String) :
    ∀ fs c s (g : Global) o g', charChecks env name fs c s g = (o, g') → BSt' cs s → CacheB cs g →
      (∀ e, o = some e → IsBoundary cs e.pos) ∧ CacheB cs g' := by
  intro fs
  induction fs with
  | nil =>
    intro c s g o g' h hs hc
    simp only [charChecks, Prod.mk.injEq] at h
    obtain ⟨rfl, rfl⟩ := h
    exact ⟨fun e he => (by cases he), hc⟩
  | cons f fs ih =>
    intro c s g o g' h hs hc
    simp only [charChecks] at h
    split at h
    · simp only [Prod.mk.injEq] at h
      obtain ⟨rfl, rfl⟩ := h
      exact ⟨fun e he => (by cases he; exact isBoundary_reportError _ hs), hc⟩
    · exact ih _ _ _ _ _ h hs (cacheB_emit _ hc)

/-- first success wins, the error of the first computation is dropped -/
theorem orElse_bd {x rest : Global → Out Val} (hx : InvB cs x) (hrest : InvB cs rest) :
    InvB cs (fun g => match x g with
      | none => none
      | some (.ok v s', g') => some (.ok v s', g')
      | some (.err _, g') => rest g'
      | some (.panic m, g') => some (.panic m, g')) := by
  intro g r g' h hc
  simp only at h
  split at h
  · cases h
  · rename_i v s1 g1 hx1
    obtain ⟨h1, hc1⟩ := hx _ _ _ hx1 hc
    cases h; exact ⟨h1, hc1⟩
  · rename_i e g1 hx1
    obtain ⟨h1, hc1⟩ := hx _ _ _ hx1 hc
    exact hrest _ _ _ h hc1
  · rename_i m g1 hx1
    obtain ⟨h1, hc1⟩ := hx _ _ _ hx1 hc
    cases h; exact ⟨h1, hc1⟩

theorem charParts_bd (hrec : RecB cs rec) (name : String) :
    ∀ ps s, BSt' cs s → InvB cs (charParts rec name ps s) := by
  intro ps
  induction ps with
  | nil => intro s hs; exact InvB.pure (isBoundary_reportError _ hs)
  | cons p ps ih =>
    intro s hs
    cases p with
    | chr item =>
      refine orElse_bd ?_ (ih s hs)
      simp only []
      cases item.toChar
      · exact InvB.pure ((resb_map _ _).mpr (resb_parseCharacterLiteral _ hs))
      all_goals exact InvB.pure not_rt_uncompilable_charLit
    | range lo hi =>
      refine orElse_bd ?_ (ih s hs)
      simp only []
      cases lo.toChar <;> cases hi.toChar
      · exact InvB.pure ((resb_map _ _).mpr (resb_parseCharacterRange _ _ hs))
      all_goals exact InvB.pure not_rt_uncompilable_charRange
    | ident id => exact orElse_bd (hrec.rule id s hs) (ih s hs)

theorem charRule_bd (hrec : RecB cs rec) (r : CharRule) (s : St) (hs : BSt' cs s) :
    InvB cs (charRule env rec r s) := by
  intro g res g' h hc
  simp only [charRule] at h
  split at h
  · exact charParts_bd hrec _ _ _ hs _ _ _ h hc
  · split at h
    · cases h
      exact ⟨isBoundary_reportError _ hs, hc⟩
    · split at h
      · rename_i e g1 hcc
        obtain ⟨h1, hc1⟩ := charChecks_bd _ _ _ _ _ _ _ hcc hs hc
        cases h
        exact ⟨h1 _ rfl, hc1⟩
      · rename_i g1 hcc
        obtain ⟨h1, hc1⟩ := charChecks_bd _ _ _ _ _ _ _ hcc hs hc
        exact charParts_bd hrec _ _ _ hs _ _ _ h hc1

theorem externRule_bd (hx : GoodExterns env.hooks) (r : ExternRule) (s : St) (hs : BSt' cs s) :
    InvB cs (externRule env r s) := by
  intro g res g' h hc
  simp only [externRule] at h
  obtain ⟨pre, rem, hat⟩ := bst_iff_at.mp hs.1
  split at h
  · rename_i v adv heq
    cases h
    refine ⟨?_, hc⟩
    have hcall : env.hooks.extern ("::".intercalate r.function) (enc rem) g.uctx =
        (.ok (v, adv), (env.hooks.extern ("::".intercalate r.function) (enc rem) g.uctx).2) := by
      rw [← hat.2.2]; exact Prod.ext heq rfl
    obtain ⟨p, hp, hadv⟩ := hx _ _ _ _ _ _ hcall
    exact resb_advanceSafe v hs hat hp hadv
  · cases h
    exact ⟨isBoundary_reportError _ hs, hc⟩

theorem stepRule_bd (hx : GoodExterns env.hooks) (hrec : RecB cs rec) (n : Nat) (name : String) (s : St)
    (hs : BSt' cs s) : InvB cs (stepRule env rec n name s) := by
  show InvB cs (fun g => stepRule env rec n name s g)
  simp only [stepRule]
  cases hf : env.g.find name with
  | none =>
    simp only []
    exact InvB.ite (InvB.pure ((resb_map _ _).mpr (resb_parseChar hs)))
      (InvB.ite (InvB.pure ((resb_map _ _).mpr (resb_parseWhitespace hs))) (InvB.pure (not_rt_undefined _)))
  | some e =>
    cases e with
    | rule r => simp only []; exact normalRule_bd hrec n r s hs
    | charRule r => simp only []; exact charRule_bd hrec r s hs
    | externRule r => simp only []; exact externRule_bd hx r s hs

theorem step_bd (hx : GoodExterns env.hooks) (hrec : RecB cs rec) (n : Nat) : RecB cs (step env rec n) :=
  ⟨fun ctx e s hs => stepExpr_bd hrec n ctx e s hs, fun name s hs => stepRule_bd hx hrec n name s hs⟩

end

theorem eval_recB (env : Env) (cs : List Char) (hx : GoodExterns env.hooks) : ∀ n, RecB cs (eval env n) := by
  intro n
  induction n with
  | zero =>
    refine ⟨fun _ _ _ _ g r g' h => ?_, fun _ _ _ g r g' h => ?_⟩
    · simp [eval] at h
    · simp [eval] at h
  | succ n ih => exact step_bd hx ih n

/-- C04, evaluator form: boundary states and a boundary cache give boundary results and a boundary cache -/
theorem eval_boundary (env : Env) (cs : List Char) (hx : GoodExterns env.hooks) : ∀ n,
    (∀ ctx e s g r g', (eval env n).expr ctx e s g = some (r, g') → BSt' cs s → CacheB cs g →
      ResB cs r ∧ CacheB cs g') ∧
    (∀ name s g r g', (eval env n).rule name s g = some (r, g') → BSt' cs s → CacheB cs g →
      ResB cs r ∧ CacheB cs g') := by
  intro n
  have h := eval_recB env cs hx n
  exact ⟨fun ctx e s g r g' he hs hc => h.expr ctx e s hs g r g' he hc,
    fun name s g r g' he hs hc => h.rule name s hs g r g' he hc⟩

theorem C04_no_runtime_panic (env : Env) (cs : List Char) (hx : GoodExterns env.hooks) (rule : String) (n u : Nat)
    {r : Res Val} {g : Global} (h : parseAdvanced env n rule (enc cs) u = some (r, g)) :
    ∀ m, r = .panic m → ¬ RuntimePanic m := by
  intro m hm
  subst hm
  exact ((eval_boundary env cs hx n).2 _ _ _ _ _ h (bst'_new cs) (cacheB_init cs u)).1

theorem C04_offsets_on_boundaries (env : Env) (cs : List Char) (hx : GoodExterns env.hooks) (rule : String)
    (n u : Nat) {r : Res Val} {g : Global} (h : parseAdvanced env n rule (enc cs) u = some (r, g)) :
    (∀ v s, r = .ok v s → IsBoundary cs s.off ∧ s.off ≤ (enc cs).length) ∧
    (∀ e, r = .err e → IsBoundary cs e.pos ∧ e.pos ≤ (enc cs).length) := by
  have hr := ((eval_boundary env cs hx n).2 _ _ _ _ _ h (bst'_new cs) (cacheB_init cs u)).1
  constructor
  · intro v s hm; subst hm
    exact ⟨hr.1.2, isBoundary_le hr.1.2⟩
  · intro e hm; subst hm
    exact ⟨hr, isBoundary_le hr⟩

/-! ### `@string` slices -/

/-- two boundary states in order: the consumed texts are nested -/
theorem at_at_mid {cs pre rem pre' rem' s s'} (hat : At cs pre rem s) (hat' : At cs pre' rem' s')
    (hle : s.off ≤ s'.off) : ∃ mid, pre' = pre ++ mid ∧ rem = mid ++ rem' := by
  have hp : pre <+: cs := ⟨rem, hat.1.symm⟩
  have hp' : pre' <+: cs := ⟨rem', hat'.1.symm⟩
  have key : pre <+: pre' := by
    rcases List.prefix_or_prefix_of_prefix hp hp' with h | h
    · exact h
    · obtain ⟨t, rfl⟩ := h
      have h1 := hat.2.1
      have h2 := hat'.2.1
      rw [enc_append, List.length_append] at h1
      have : (enc t).length = 0 := by omega
      have : t = [] := enc_eq_nil_iff.mp (List.length_eq_zero_iff.mp this)
      subst this; simp
  obtain ⟨mid, rfl⟩ := key
  refine ⟨mid, rfl, ?_⟩
  have h1 := hat.1
  rw [hat'.1, List.append_assoc] at h1
  exact (List.append_cancel_left h1).symm

/-- the `@string` slice between two boundary states (in order) is the encoding of a contiguous part of the input
    text: a valid UTF-8 substring -/
theorem sliceUntil_enc {cs s s'} (hb : BSt cs s) (hb' : BSt cs s') (hle : s.off ≤ s'.off) :
    ∃ pre mid post, cs = pre ++ mid ++ post ∧ s.off = (enc pre).length ∧ s'.off = (enc (pre ++ mid)).length ∧
      s.sliceUntil s' = enc mid := by
  obtain ⟨pre, rem, hat⟩ := bst_iff_at.mp hb
  obtain ⟨pre', rem', hat'⟩ := bst_iff_at.mp hb'
  obtain ⟨mid, rfl, rfl⟩ := at_at_mid hat hat' hle
  refine ⟨pre, mid, rem', by rw [hat.1, List.append_assoc], hat.2.1, hat'.2.1, ?_⟩
  unfold St.sliceUntil
  rw [hat.2.2, hat'.2.1, hat.2.1, enc_append, enc_append, List.length_append, Nat.add_sub_cancel_left,
    List.take_left]

/-! ### the hypothesis `GoodExterns` is satisfiable -/

example : GoodExterns (default : Hooks) := by
  intro f rem u v adv u' h
  cases h

/-- an extern that consumes one character -/
def oneCharHooks : Hooks :=
  { extern := fun _ bs u => match decodeHead bs with
      | some c => (.ok (.ext "c" c.toNat, c.utf8Size), u)
      | none => (.error "eof", u),
    check := fun _ _ u => (true, u), charCheck := fun _ _ => true }

theorem oneCharHooks_good : GoodExterns oneCharHooks := by
  intro f rem u v adv u' h
  cases rem with
  | nil => simp [oneCharHooks, enc_nil, decodeHead_nil] at h
  | cons c r =>
    simp only [oneCharHooks, decodeHead_enc_cons, Prod.mk.injEq, Except.ok.injEq] at h
    refine ⟨[c], by simp, ?_⟩
    rw [enc_singleton, String.length_utf8EncodeChar]
    exact h.1.2.symm

/-! ## second pass: offsets are monotone and the returned tree only mentions boundaries / valid substrings -/

/-- every `position` range in the value is an ordered pair of boundaries of `cs`, every `str` is the encoding of a
    contiguous part of `cs` (values made by user extern functions, `ext`, carry neither) -/
inductive ValB (cs : List Char) : Val → Prop
  | unit : ValB cs .unit
  | chr (c : Char) : ValB cs (.chr c)
  | str (pre mid post : List Char) (h : cs = pre ++ mid ++ post) : ValB cs (.str (enc mid))
  | node (name : String) (fields : List (String × Val)) (pos : Option (Nat × Nat))
      (hf : ∀ kv, kv ∈ fields → ValB cs kv.2)
      (hp : ∀ a b, pos = some (a, b) → IsBoundary cs a ∧ IsBoundary cs b ∧ a ≤ b) : ValB cs (.node name fields pos)
  | variant (c : String) (v : Val) (h : ValB cs v) : ValB cs (.variant c v)
  | boxed (v : Val) (h : ValB cs v) : ValB cs (.boxed v)
  | some (v : Val) (h : ValB cs v) : ValB cs (.some v)
  | none : ValB cs .none
  | list (vs : List Val) (h : ∀ v, v ∈ vs → ValB cs v) : ValB cs (.list vs)
  | ext (k : String) (n : Nat) : ValB cs (.ext k n)

/-- all field values of a construct result are `ValB` -/
def PB (cs : List Char) (p : Parsed) : Prop := ∀ kv, kv ∈ p → ValB cs kv.2

section plumbing
variable {cs : List Char}

theorem PB.nil : PB cs [] := fun _ h => by cases h

theorem PB.cons {n : String} {v : Val} {p : Parsed} (hv : ValB cs v) (hp : PB cs p) : PB cs ((n, v) :: p) := by
  intro kv h
  rcases List.mem_cons.mp h with rfl | h
  · exact hv
  · exact hp _ h

theorem PB.get {p : Parsed} {n : String} {v : Val} (hp : PB cs p) (h : p.get n = some v) : ValB cs v := by
  unfold Parsed.get at h
  cases hf : p.find? (·.1 == n) with
  | none => simp [hf] at h
  | some kv =>
    simp only [hf, Option.map_some, Option.some.injEq] at h
    subst h
    exact hp _ (List.mem_of_find?_eq_some hf)

theorem PB.set {p : Parsed} {n : String} {v : Val} (hp : PB cs p) (hv : ValB cs v) : PB cs (p.set n v) := by
  unfold Parsed.set
  split
  · intro kv h
    obtain ⟨kv0, h0, rfl⟩ := List.mem_map.mp h
    split
    · exact hv
    · exact hp _ h0
  · intro kv h
    rcases List.mem_append.mp h with h | h
    · exact hp _ h
    · simp only [List.mem_singleton] at h; subst h; exact hv

theorem valB_defaultField {f : FieldDesc} {v : Val} (h : defaultField f = .ok v) : ValB cs v := by
  unfold defaultField at h
  split at h
  · cases h
  · cases h; exact .none
  · cases h; exact .list _ (fun _ h => by cases h)

theorem pb_defaults : ∀ {fs : List FieldDesc} {p : Parsed}, defaults fs = .ok p → PB cs p := by
  intro fs
  induction fs with
  | nil => intro p h; simp only [defaults, Except.ok.injEq] at h; subst h; exact PB.nil
  | cons f fs ih =>
    intro p h
    simp only [defaults] at h
    split at h
    · rename_i v p' h1 h2
      cases h
      exact PB.cons (valB_defaultField h1) (ih h2)
    · cases h
    · cases h

theorem valB_postprocessField {rf : List FieldDesc} {name typ : String} {v fv : Val} (hv : ValB cs v)
    (h : postprocessField rf name typ v = .ok fv) : ValB cs fv := by
  unfold postprocessField at h
  cases hf : findField rf name with
  | none => simp [hf] at h
  | some f =>
    simp only [hf] at h
    cases hty : f.types.find? (·.1 == typ) with
    | none => simp [hty] at h
    | some tb =>
      obtain ⟨t, boxed⟩ := tb
      simp only [hty, Except.ok.injEq] at h
      have h1 : ValB cs (if boxed = true then Val.boxed v else v) := by
        split
        · exact .boxed _ hv
        · exact hv
      have h2 : ValB cs (if f.types.length > 1 then Val.variant typ (if boxed = true then Val.boxed v else v)
          else (if boxed = true then Val.boxed v else v)) := by
        split
        · exact .variant _ _ h1
        · exact h1
      subst h
      split
      · exact h2
      · exact .some _ h2
      · exact .list _ (fun x hx => by simp only [List.mem_singleton] at hx; subst hx; exact h2)

theorem valB_extendVal {a b v : Val} (ha : ValB cs a) (hb : ValB cs b) (h : extendVal a b = .ok v) : ValB cs v := by
  unfold extendVal at h
  split at h
  · cases h
    cases ha with
    | list _ ha =>
      cases hb with
      | list _ hb =>
        refine .list _ (fun x hx => ?_)
        rcases List.mem_append.mp hx with hx | hx
        · exact ha _ hx
        · exact hb _ hx
  · cases h

theorem pb_mergePart {r : Parsed} (hr : PB cs r) :
    ∀ {fs : List FieldDesc} {seen : List String} {acc : Parsed} {seen' : List String} {acc' : Parsed},
      PB cs acc → mergePart fs seen acc r = .ok (seen', acc') → PB cs acc' := by
  intro fs
  induction fs with
  | nil =>
    intro seen acc seen' acc' ha h
    simp only [mergePart, Except.ok.injEq, Prod.mk.injEq] at h
    rw [← h.2]; exact ha
  | cons f fs ih =>
    intro seen acc seen' acc' ha h
    simp only [mergePart] at h
    split at h
    · cases h
    · rename_i v hv
      split at h
      · exact ih (ha.set (hr.get hv)) h
      · split at h
        · cases h
        · split at h
          · cases h
          · rename_i old hold
            split at h
            · cases h
            · rename_i nv hnv
              exact ih (ha.set (valB_extendVal (ha.get hold) (hr.get hv) hnv)) h

theorem pb_project {acc : Parsed} (ha : PB cs acc) :
    ∀ {fs : List FieldDesc} {p : Parsed}, project fs acc = .ok p → PB cs p := by
  intro fs
  induction fs with
  | nil => intro p h; simp only [project, Except.ok.injEq] at h; subst h; exact PB.nil
  | cons f fs ih =>
    intro p h
    simp only [project] at h
    split at h
    · rename_i v p' h1 h2
      cases h
      exact PB.cons (ha.get h1) (ih h2)
    · cases h
    · cases h

theorem pb_convertArm_go {inner : List FieldDesc} {r : Parsed} (hr : PB cs r) :
    ∀ {fs : List FieldDesc} {p : Parsed}, convertArm.go inner r fs = .ok p → PB cs p := by
  intro fs
  induction fs with
  | nil => intro p h; simp only [convertArm.go, Except.ok.injEq] at h; subst h; exact PB.nil
  | cons f fs ih =>
    intro p h
    simp only [convertArm.go] at h
    split at h
    · rename_i v p' h1 h2
      cases h
      refine PB.cons ?_ (ih h2)
      split at h1
      · split at h1
        · rename_i v0 hv0; cases h1; exact hr.get hv0
        · cases h1
      · exact valB_defaultField h1
    · cases h
    · cases h

theorem pb_convertArm {fields inner : List FieldDesc} {r p : Parsed} (hr : PB cs r)
    (h : convertArm fields inner r = .ok p) : PB cs p := by
  unfold convertArm at h
  split at h
  · cases h; exact PB.nil
  · split at h
    · split at h
      · rename_i v hv; cases h; exact PB.cons (valB_defaultField hv) PB.nil
      · cases h
    · split at h
      · rename_i v hv; cases h; exact PB.cons (hr.get hv) PB.nil
      · cases h
  · exact pb_convertArm_go hr h

theorem pb_extendAll {r : Parsed} (hr : PB cs r) :
    ∀ {fs : List FieldDesc} {acc acc' : Parsed}, PB cs acc → extendAll fs acc r = .ok acc' → PB cs acc' := by
  intro fs
  induction fs with
  | nil => intro acc acc' ha h; simp only [extendAll, Except.ok.injEq] at h; subst h; exact ha
  | cons f fs ih =>
    intro acc acc' ha h
    simp only [extendAll] at h
    split at h
    · rename_i a b h1 h2
      split at h
      · rename_i v hv
        exact ih (ha.set (valB_extendVal (ha.get h1) (hr.get h2) hv)) h
      · cases h
    · cases h

theorem pb_closureInit : ∀ {fs : List FieldDesc} {p : Parsed}, closureInit fs = .ok p → PB cs p := by
  intro fs
  induction fs with
  | nil => intro p h; simp only [closureInit, Except.ok.injEq] at h; subst h; exact PB.nil
  | cons f fs ih =>
    intro p h
    simp only [closureInit] at h
    split at h
    · cases h
    · split at h
      · rename_i p' hp'
        cases h
        exact PB.cons (.list _ (fun _ h => by cases h)) (ih hp')
      · cases h

end plumbing

/-! ### monotone offsets of the matchers -/

theorem off_advance {α} {s s' : St} {n : Nat} {v v' : α} (h : s.advance n v = .ok v' s') : s.off ≤ s'.off := by
  unfold St.advance at h
  split at h
  · cases h
  · cases h; exact Nat.le_add_right _ _

theorem off_advanceSafe {α} {s s' : St} {n : Nat} {v v' : α} (h : s.advanceSafe n v = .ok v' s') :
    s.off ≤ s'.off := by
  unfold St.advanceSafe at h
  split at h
  · cases h
  · split at h
    · cases h
    · cases h; exact Nat.le_add_right _ _

theorem off_parseChar {s v s'} (h : parseChar s = .ok v s') : s.off ≤ s'.off := by
  unfold parseChar at h; split at h
  · cases h
  · exact off_advance h

theorem off_parseWhitespace {s v s'} (h : parseWhitespace s = .ok v s') : s.off ≤ s'.off := by
  unfold parseWhitespace at h; cases h; exact Nat.le_add_right _ _

theorem off_parseStringLiteral {s l v s'} (h : parseStringLiteral s l = .ok v s') : s.off ≤ s'.off := by
  unfold parseStringLiteral at h; simp only at h; split at h
  · cases h
  · exact off_advance h

theorem off_parseCharacterLiteral {s c v s'} (h : parseCharacterLiteral s c = .ok v s') : s.off ≤ s'.off := by
  unfold parseCharacterLiteral at h
  split at h
  · split at h
    · cases h
    · split at h
      · cases h
      · exact off_advance h
  · split at h
    · cases h
    · exact off_advance h

theorem off_parseCharacterRange {s lo hi v s'} (h : parseCharacterRange s lo hi = .ok v s') : s.off ≤ s'.off := by
  unfold parseCharacterRange at h
  split at h
  · split at h
    · cases h
    · split at h
      · cases h
      · exact off_advance h
  · split at h
    · cases h
    · split at h
      · cases h
      · exact off_advance h

theorem off_parseStringLiteralInsensitive {s l v s'} (h : parseStringLiteralInsensitive s l = .ok v s') :
    s.off ≤ s'.off := by
  unfold parseStringLiteralInsensitive at h; simp only at h; split at h
  · cases h
  · exact off_advance h

theorem off_parseCharacterLiteralInsensitive {s c v s'} (h : parseCharacterLiteralInsensitive s c = .ok v s') :
    s.off ≤ s'.off := by
  unfold parseCharacterLiteralInsensitive at h
  split at h
  · cases h
  · split at h
    · cases h
    · exact off_advance h

theorem off_parseEndOfInput {s v s'} (h : parseEndOfInput s = .ok v s') : s.off ≤ s'.off := by
  unfold parseEndOfInput at h; split at h
  · cases h; exact Nat.le_refl _
  · cases h

/-! ### the stronger invariants -/

/-- `ResB`, and a success ends at an offset `≥ off` with a value satisfying `P` -/
def ResS (cs : List Char) (off : Nat) {α : Type} (P : α → Prop) (r : Res α) : Prop :=
  match r with
  | .ok v s => BSt' cs s ∧ off ≤ s.off ∧ P v
  | .err e => IsBoundary cs e.pos
  | .panic m => ¬ RuntimePanic m

/-- every cached result for offset `off` is a boundary result that ends at an offset `≥ off` with a `ValB` tree -/
def CacheS (cs : List Char) (g : Global) : Prop :=
  ∀ name off r, g.lookup (name, off) = some r → ResS cs off (ValB cs) r

/-- the values returned by user extern functions satisfy `ValB` (e.g. they are `Val.ext` values) -/
def ExternValsB (cs : List Char) (H : Hooks) : Prop :=
  ∀ f bs u v adv u', H.extern f bs u = (.ok (v, adv), u') → ValB cs v

def InvS (cs : List Char) (off : Nat) {α : Type} (P : α → Prop) (f : Global → Out α) : Prop :=
  ∀ g r g', f g = some (r, g') → CacheS cs g → ResS cs off P r ∧ CacheS cs g'

structure RecS (cs : List Char) (rec : Rec) : Prop where
  expr : ∀ ctx e s, BSt' cs s → InvS cs s.off (PB cs) (rec.expr ctx e s)
  rule : ∀ name s, BSt' cs s → InvS cs s.off (ValB cs) (rec.rule name s)

theorem ResS.resB {cs off} {α : Type} {P : α → Prop} {r : Res α} (h : ResS cs off P r) : ResB cs r := by
  cases r with
  | ok v s => exact h.1
  | err e => exact h
  | panic m => exact h

theorem CacheS.cacheB {cs g} (h : CacheS cs g) : CacheB cs g := fun k r hl => (h k.1 k.2 r hl).resB

theorem ResS.mono {cs off off'} {α : Type} {P : α → Prop} {r : Res α} (hle : off ≤ off') (h : ResS cs off' P r) :
    ResS cs off P r := by
  cases r with
  | ok v s => exact ⟨h.1, Nat.le_trans hle h.2.1, h.2.2⟩
  | err e => exact h
  | panic m => exact h

theorem ResS.imp {cs off} {α : Type} {P Q : α → Prop} {r : Res α} (hpq : ∀ v, P v → Q v) (h : ResS cs off P r) :
    ResS cs off Q r := by
  cases r with
  | ok v s => exact ⟨h.1, h.2.1, hpq _ h.2.2⟩
  | err e => exact h
  | panic m => exact h

/-- a matcher result, mapped -/
theorem ress_map {cs off} {α β : Type} {P : β → Prop} {r : Res α} (f : α → β) (hr : ResB cs r)
    (hoff : ∀ v s', r = .ok v s' → off ≤ s'.off) (hp : ∀ v, P (f v)) : ResS cs off P (r.map f) := by
  cases r with
  | ok v s => exact ⟨hr, hoff _ _ rfl, hp _⟩
  | err e => exact hr
  | panic m => exact hr

theorem cacheS_init (cs : List Char) (u : Nat) : CacheS cs (Global.init u) := by
  intro name off r h; simp [Global.init, Global.lookup] at h

theorem cacheS_emit {cs g} (e : Ev) (h : CacheS cs g) : CacheS cs (g.emit e) := h

theorem cacheS_insert {cs g} (name : String) (off : Nat) {r : Res Val} (h : CacheS cs g)
    (hr : ResS cs off (ValB cs) r) : CacheS cs (g.insert (name, off) r) := by
  intro name' off' r' hl
  rw [lookup_insert] at hl
  split at hl
  · rename_i heq
    simp only [beq_iff_eq, Prod.mk.injEq] at heq
    cases hl
    rw [← heq.2]; exact hr
  · exact h _ _ _ hl

theorem cacheS_traceResult {cs} {g : Global} (r : Res Val) (h : CacheS cs g) : CacheS cs (traceResult g r) := by
  cases r <;> exact h

theorem InvS.pure {cs off} {α : Type} {P : α → Prop} {r : Res α} (hr : ResS cs off P r) :
    InvS cs off P (fun g => some (r, g)) := by
  intro g r' g' h hc
  cases h
  exact ⟨hr, hc⟩

theorem InvS.congr {cs off} {α : Type} {P : α → Prop} {f f' : Global → Out α} (he : ∀ g, f g = f' g)
    (h : InvS cs off P f') : InvS cs off P f := by
  have : f = f' := funext he
  rw [this]; exact h

theorem InvS.ite {cs off} {α : Type} {P : α → Prop} {c : Prop} [Decidable c] {f f' : Global → Out α}
    (h1 : InvS cs off P f) (h2 : InvS cs off P f') : InvS cs off P (fun g => if c then f g else f' g) := by
  by_cases hc : c
  · simp only [hc, if_true]; exact h1
  · simp only [hc, if_false]; exact h2

theorem InvS.mono {cs off off'} {α : Type} {P : α → Prop} {f : Global → Out α} (hle : off ≤ off')
    (h : InvS cs off' P f) : InvS cs off P f := by
  intro g r g' he hc
  obtain ⟨h1, hc1⟩ := h _ _ _ he hc
  exact ⟨h1.mono hle, hc1⟩

theorem bindR_s {cs off} {α β : Type} {P : α → Prop} {Q : β → Prop} {f : Global → Out α}
    {k : α → St → Global → Out β} (hf : InvS cs off P f)
    (hk : ∀ v s, BSt' cs s → off ≤ s.off → P v → InvS cs off Q (k v s)) :
    InvS cs off Q (fun g => bindR (f g) k) := by
  intro g r g' h hc
  simp only [bindR] at h
  split at h
  · cases h
  · rename_i v s1 g1 heq
    obtain ⟨h1, hc1⟩ := hf _ _ _ heq hc
    exact hk _ _ h1.1 h1.2.1 h1.2.2 _ _ _ h hc1
  · rename_i e g1 heq
    obtain ⟨h1, hc1⟩ := hf _ _ _ heq hc
    cases h; exact ⟨h1, hc1⟩
  · rename_i m g1 heq
    obtain ⟨h1, hc1⟩ := hf _ _ _ heq hc
    cases h; exact ⟨h1, hc1⟩

theorem withSkipWs_s {cs off} {α : Type} {P : α → Prop} {rec : Rec} (hrec : RecS cs rec) {ctx : Ctx} {s : St}
    {k : St → Global → Out α} (hs : BSt' cs s) (hle : off ≤ s.off)
    (hk : ∀ s, BSt' cs s → off ≤ s.off → InvS cs off P (k s)) :
    InvS cs off P (fun g => withSkipWs rec ctx s g k) := by
  unfold withSkipWs
  split
  · exact bindR_s ((hrec.rule _ _ hs).mono hle) (fun _ s hs' hle' _ => hk s hs' hle')
  · exact hk s hs hle

/-! ### expression level (second pass) -/

section
variable {env : Env} {rec : Rec} {cs : List Char}

theorem evalSeq_s (hrec : RecS cs rec) {ctx : Ctx} {off : Nat} :
    ∀ ps seen acc s, BSt' cs s → off ≤ s.off → PB cs acc →
      InvS cs off (fun p : List String × Parsed => PB cs p.2) (evalSeq env rec ctx ps seen acc s) := by
  intro ps
  induction ps with
  | nil => intro seen acc s hs hle ha; exact InvS.pure ⟨hs, hle, ha⟩
  | cons p ps ih =>
    intro seen acc s hs hle ha
    refine InvS.congr (fun g => by rw [evalSeq])
      (bindR_s ((hrec.expr ctx p s hs).mono hle) (fun r s' hs' hle' hr => ?_))
    cases hm : mergePart (filterRuleFields ctx.ruleFields (ownFields env p)) seen acc r with
    | error m => simp only [hm]; exact InvS.pure (not_rt_codegen m)
    | ok v => simp only [hm]; exact ih _ _ _ hs' hle' (pb_mergePart hr ha hm)

theorem evalAlts_s (hrec : RecS cs rec) {ctx : Ctx} {fields} {off : Nat} :
    ∀ as s, BSt' cs s → off ≤ s.off → InvS cs off (PB cs) (evalAlts env rec ctx fields as s) := by
  intro as
  induction as with
  | nil => intro s hs hle; exact InvS.pure (isBoundary_reportFarthest hs)
  | cons a as ih =>
    intro s hs hle g r g' h hc
    simp only [evalAlts] at h
    split at h
    · cases h
    · rename_i r0 s0 g0 hx
      obtain ⟨h1, hc1⟩ := hrec.expr _ _ _ hs _ _ _ hx hc
      split at h
      · rename_i p hp
        cases h; exact ⟨⟨h1.1, Nat.le_trans hle h1.2.1, pb_convertArm h1.2.2 hp⟩, hc1⟩
      · cases h; exact ⟨not_rt_codegen _, hc1⟩
    · rename_i e0 g0 hx
      obtain ⟨h1, hc1⟩ := hrec.expr _ _ _ hs _ _ _ hx hc
      exact ih _ (bst'_recordError hs h1) (by rw [recordError_off]; exact hle) _ _ _ h hc1
    · rename_i m g0 hx
      obtain ⟨h1, hc1⟩ := hrec.expr _ _ _ hs _ _ _ hx hc
      cases h; exact ⟨h1, hc1⟩

theorem evalLoop_s {body : St → Global → Out Parsed} (hbody : ∀ s, BSt' cs s → InvS cs s.off (PB cs) (body s))
    {fields} {off : Nat} :
    ∀ k iters acc s, BSt' cs s → off ≤ s.off → PB cs acc →
      InvS cs off (fun p : Nat × Parsed => PB cs p.2) (evalLoop body fields k iters acc s) := by
  intro k
  induction k with
  | zero => intro iters acc s hs hle ha g r g' h; simp [evalLoop] at h
  | succ k ih =>
    intro iters acc s hs hle ha g r g' h hc
    simp only [evalLoop] at h
    split at h
    · cases h
    · rename_i r0 s0 g0 hx
      obtain ⟨h1, hc1⟩ := hbody _ hs _ _ _ hx hc
      split at h
      · rename_i acc' hacc
        exact ih _ _ _ h1.1 (Nat.le_trans hle h1.2.1) (pb_extendAll h1.2.2 ha hacc) _ _ _ h hc1
      · cases h; exact ⟨not_rt_codegen _, hc1⟩
    · rename_i e0 g0 hx
      obtain ⟨h1, hc1⟩ := hbody _ hs _ _ _ hx hc
      cases h
      exact ⟨⟨bst'_recordError hs h1, by rw [recordError_off]; exact hle, ha⟩, hc1⟩
    · rename_i m g0 hx
      obtain ⟨h1, hc1⟩ := hbody _ hs _ _ _ hx hc
      cases h; exact ⟨h1, hc1⟩

theorem stepExpr_s (hrec : RecS cs rec) (n : Nat) (ctx : Ctx) (e : Expr) (s : St) (hs : BSt' cs s) :
    InvS cs s.off (PB cs) (stepExpr env rec n ctx e s) := by
  have hrefl : s.off ≤ s.off := Nat.le_refl _
  cases e with
  | choice alts =>
    match alts with
    | [] => exact InvS.pure not_rt_choices0
    | [a] => exact hrec.expr ctx a s hs
    | a :: b :: rest => exact evalAlts_s hrec _ _ hs hrefl
  | seq parts =>
    match parts with
    | [] => exact InvS.pure ⟨hs, hrefl, PB.nil⟩
    | [a] => exact hrec.expr ctx a s hs
    | a :: b :: rest =>
      refine bindR_s (evalSeq_s hrec _ _ _ _ hs hrefl PB.nil) (fun v s' hs' hle' hv => ?_)
      obtain ⟨seen, acc⟩ := v
      cases hp : project (filterRuleFields ctx.ruleFields (ownFields env (.seq (a :: b :: rest)))) acc with
      | error m => simp only [hp]; exact InvS.pure (not_rt_codegen m)
      | ok v => simp only [hp]; exact InvS.pure ⟨hs', hle', pb_project hv hp⟩
  | group b => exact hrec.expr ctx b s hs
  | opt b =>
    intro g r g' h hc
    simp only [stepExpr] at h
    split at h
    · cases h
    · rename_i r0 s0 g0 hx
      obtain ⟨h1, hc1⟩ := hrec.expr _ _ _ hs _ _ _ hx hc
      cases h; exact ⟨h1, hc1⟩
    · rename_i e0 g0 hx
      obtain ⟨h1, hc1⟩ := hrec.expr _ _ _ hs _ _ _ hx hc
      split at h
      · rename_i p hp
        cases h
        exact ⟨⟨bst'_recordError hs h1, by rw [recordError_off]; exact hrefl, pb_defaults hp⟩, hc1⟩
      · cases h; exact ⟨not_rt_codegen _, hc1⟩
    · rename_i m g0 hx
      obtain ⟨h1, hc1⟩ := hrec.expr _ _ _ hs _ _ _ hx hc
      cases h; exact ⟨h1, hc1⟩
  | closure b plus =>
    show InvS cs s.off (PB cs) (fun g => stepExpr env rec n ctx (.closure b plus) s g)
    simp only [stepExpr]
    cases hinit : closureInit (filterRuleFields ctx.ruleFields (ownFields env b)) with
    | error m => simp only []; exact InvS.pure (not_rt_codegen m)
    | ok init =>
      simp only []
      exact bindR_s (evalLoop_s (hrec.expr ctx b) _ _ _ _ hs hrefl (pb_closureInit hinit))
        (fun v s' hs' hle' hv =>
          InvS.ite (InvS.pure (isBoundary_reportFarthest hs')) (InvS.pure ⟨hs', hle', hv⟩))
  | neg b =>
    intro g r g' h hc
    simp only [stepExpr] at h
    split at h
    · cases h
    · rename_i r0 s0 g0 hx
      obtain ⟨h1, hc1⟩ := hrec.expr _ _ _ hs _ _ _ hx hc
      cases h; exact ⟨isBoundary_reportError _ hs, hc1⟩
    · rename_i e0 g0 hx
      obtain ⟨h1, hc1⟩ := hrec.expr _ _ _ hs _ _ _ hx hc
      cases h; exact ⟨⟨hs, hrefl, PB.nil⟩, hc1⟩
    · rename_i m g0 hx
      obtain ⟨h1, hc1⟩ := hrec.expr _ _ _ hs _ _ _ hx hc
      cases h; exact ⟨h1, hc1⟩
  | pos b => exact bindR_s (hrec.expr ctx b s hs) (fun _ _ _ _ _ => InvS.pure ⟨hs, hrefl, PB.nil⟩)
  | range lo hi =>
    show InvS cs s.off (PB cs) (fun g => stepExpr env rec n ctx (.range lo hi) s g)
    simp only [stepExpr]
    cases hlo : lo.toChar <;> cases hhi : hi.toChar <;> simp only []
    all_goals first
      | exact InvS.pure not_rt_uncompilable_range
      | exact withSkipWs_s hrec hs hrefl (fun s1 hs1 hle1 => InvS.pure (ress_map _ (resb_parseCharacterRange _ _ hs1)
          (fun _ _ h => Nat.le_trans hle1 (off_parseCharacterRange h)) (fun _ => PB.nil)))
  | lit ins body =>
    show InvS cs s.off (PB cs) (fun g => stepExpr env rec n ctx (.lit ins body) s g)
    simp only [stepExpr]
    cases hm : compileLit ins body with
    | err m => simp only []; exact InvS.pure not_rt_uncompilable_literal
    | fuel => simp only []; exact InvS.pure not_rt_uncompilable_literal
    | ok m =>
      simp only []
      refine withSkipWs_s hrec hs hrefl (fun s1 hs1 hle1 => ?_)
      cases m with
      | charLit c =>
        exact InvS.pure (ress_map _ (resb_parseCharacterLiteral _ hs1)
          (fun _ _ h => Nat.le_trans hle1 (off_parseCharacterLiteral h)) (fun _ => PB.nil))
      | strLit l =>
        exact InvS.pure (ress_map _ (resb_parseStringLiteral _ hs1)
          (fun _ _ h => Nat.le_trans hle1 (off_parseStringLiteral h)) (fun _ => PB.nil))
      | charLitI c =>
        cases ins with
        | false => exact absurd rfl ((compileLit_false hm).1 c)
        | true =>
          exact InvS.pure (ress_map _ (resb_parseCharacterLiteralInsensitive (compileLit_charLitI_ascii hm) hs1)
            (fun _ _ h => Nat.le_trans hle1 (off_parseCharacterLiteralInsensitive h)) (fun _ => PB.nil))
      | strLitI l =>
        cases ins with
        | false => exact absurd rfl ((compileLit_false hm).2 l)
        | true =>
          exact InvS.pure (ress_map _ (resb_parseStringLiteralInsensitive (compileLit_strLitI_ascii hm) hs1)
            (fun _ _ h => Nat.le_trans hle1 (off_parseStringLiteralInsensitive h)) (fun _ => PB.nil))
  | eoi =>
    exact withSkipWs_s hrec hs hrefl (fun s1 hs1 hle1 => InvS.pure (ress_map _ (resb_parseEndOfInput hs1)
      (fun _ _ h => Nat.le_trans hle1 (off_parseEndOfInput h)) (fun _ => PB.nil)))
  | incl r =>
    show InvS cs s.off (PB cs) (fun g => stepExpr env rec n ctx (.incl r) s g)
    simp only [stepExpr]
    cases hf : env.g.findRule r with
    | none => simp only []; exact InvS.pure not_rt_uncompilable_include
    | some rule => simp only []; exact hrec.expr ctx _ s hs
  | field name boxed typ =>
    show InvS cs s.off (PB cs) (fun g => stepExpr env rec n ctx (.field name boxed typ) s g)
    simp only [stepExpr]
    refine withSkipWs_s hrec hs hrefl (fun s1 hs1 hle1 =>
      bindR_s ((hrec.rule typ s1 hs1).mono hle1) (fun v s' hs' hle' hv => ?_))
    cases name with
    | none => exact InvS.pure ⟨hs', hle', PB.nil⟩
    | some nm =>
      simp only []
      cases hp : postprocessField ctx.ruleFields nm.key typ v with
      | error m => simp only []; exact InvS.pure (not_rt_codegen m)
      | ok fv => simp only []; exact InvS.pure ⟨hs', hle', PB.cons (valB_postprocessField hv hp) PB.nil⟩

/-! ### rule level (second pass) -/

theorem runChecks_s {off : Nat} : ∀ fs v s, BSt' cs s → off ≤ s.off → ValB cs v →
    InvS cs off (ValB cs) (runChecks env fs v s) := by
  intro fs
  induction fs with
  | nil => intro v s hs hle hv; exact InvS.pure ⟨hs, hle, hv⟩
  | cons f fs ih =>
    intro v s hs hle hv g r g' h hc
    simp only [runChecks] at h
    split at h
    · cases h
      exact ⟨isBoundary_reportError _ hs, hc⟩
    · exact ih _ _ hs hle hv _ _ _ h hc

theorem valB_slice {s s' : St} (hs : BSt' cs s) (hs' : BSt' cs s') (hle : s.off ≤ s'.off) :
    ValB cs (.str (s.sliceUntil s')) := by
  obtain ⟨pre, mid, post, h, _, _, hsl⟩ := sliceUntil_enc hs.1 hs'.1 hle
  rw [hsl]; exact .str pre mid post h

theorem ruleBody_s (hrec : RecS cs rec) (r : Rule) (s : St) (hs : BSt' cs s) :
    InvS cs s.off (ValB cs) (ruleBody env rec r s) := by
  show InvS cs s.off (ValB cs) (fun g => ruleBody env rec r s g)
  simp only [ruleBody]
  have hpos : ∀ {s' : St}, BSt' cs s' → s.off ≤ s'.off → ∀ (o : Option (Nat × Nat)),
      (o = some (s.off, s'.off) ∨ o = none) →
      ∀ a b, o = some (a, b) → IsBoundary cs a ∧ IsBoundary cs b ∧ a ≤ b := by
    intro s' hs' hle' o ho a b hab
    rcases ho with rfl | rfl
    · cases hab; exact ⟨hs.1.2, hs'.1.2, hle'⟩
    · cases hab
  cases hf : getFields env.g env.nf r.definition with
  | ok fields =>
    simp only []
    refine InvS.ite (bindR_s (hrec.expr _ _ _ hs) (fun _ s' hs' hle' _ => runChecks_s _ _ _ hs' hle' ?_))
      (InvS.ite (bindR_s (hrec.expr _ _ _ hs) (fun p s' hs' hle' hp => ?_))
        (InvS.ite (InvS.pure not_rt_uncompilable_mixing)
          (bindR_s (hrec.expr _ _ _ hs) (fun p s' hs' hle' hp => ?_))))
    · have hstr := valB_slice hs hs' hle'
      split
      · refine .node _ _ _ (fun kv hkv => ?_) (hpos hs' hle' _ (Or.inl rfl))
        simp only [List.mem_singleton] at hkv; subst hkv; exact hstr
      · exact hstr
    · cases hv : p.get "_override" with
      | none => simp only []; exact InvS.pure not_rt_override
      | some v => simp only []; exact runChecks_s _ _ _ hs' hle' (hp.get hv)
    · cases hpr : project fields p with
      | error m => simp only []; exact InvS.pure (not_rt_codegen m)
      | ok fs =>
        simp only []
        refine runChecks_s _ _ _ hs' hle' (.node _ _ _ (pb_project hp hpr) (hpos hs' hle' _ ?_))
        split
        · exact Or.inl rfl
        · exact Or.inr rfl
  | err m => simp only []; exact InvS.pure not_rt_uncompilable_getFields
  | fuel => simp only []; exact InvS.pure not_rt_uncompilable_getFields

theorem growLoop_s {body : St → Global → Out Val} (name : String) (s : St)
    (hbody : InvS cs s.off (ValB cs) (body s)) :
    ∀ k best, ResS cs s.off (ValB cs) best → InvS cs s.off (ValB cs) (growLoop body (name, s.off) s k best) := by
  intro k
  induction k with
  | zero => intro best hb g r g' h; simp [growLoop] at h
  | succ k ih =>
    intro best hb g r g' h hc
    simp only [growLoop] at h
    split at h
    · cases h
    · rename_i m g1 hx
      obtain ⟨h1, hc1⟩ := hbody _ _ _ hx hc
      cases h; exact ⟨h1, hc1⟩
    · rename_i v ns g1 hx
      obtain ⟨h1, hc1⟩ := hbody _ _ _ hx hc
      have hins : CacheS cs (g1.insert (name, s.off) (.ok v ns)) := cacheS_insert name s.off hc1 h1
      cases best with
      | ok bv bs =>
        simp only at h
        split at h
        · exact ih _ h1 _ _ _ h hins
        · cases h; exact ⟨hb, hc1⟩
      | err be => simp only at h; exact ih _ h1 _ _ _ h hins
      | panic bm => simp only at h; exact ih _ h1 _ _ _ h hins
    · rename_i e g1 hx
      obtain ⟨h1, hc1⟩ := hbody _ _ _ hx hc
      cases best with
      | ok bv bs => simp only at h; cases h; exact ⟨hb, hc1⟩
      | err be => simp only at h; cases h; exact ⟨h1, cacheS_insert name s.off hc1 h1⟩
      | panic bm => simp only at h; cases h; exact ⟨h1, cacheS_insert name s.off hc1 h1⟩

theorem memoBody_s {body : St → Global → Out Val} (flags : RuleFlags) (name : String) (n : Nat) (s : St)
    (hs : BSt' cs s) (hbody : InvS cs s.off (ValB cs) (body s)) :
    InvS cs s.off (ValB cs) (memoBody flags name body n s) := by
  intro g r g' h hc
  simp only [memoBody] at h
  split at h
  · split at h
    · rename_i cached hl
      cases h
      exact ⟨hc _ _ _ hl, hc⟩
    · have hbest : ResS cs s.off (ValB cs) (.err (s.reportError .leftRecursionSentinel) : Res Val) :=
        isBoundary_reportError _ hs
      exact growLoop_s _ _ hbody _ _ hbest _ _ _ h (cacheS_insert _ _ hc hbest)
  · split at h
    · split at h
      · rename_i cached hl
        cases h
        exact ⟨hc _ _ _ hl, hc⟩
      · cases hx : body s (g.emit (.bodyEval name s.off)) with
        | none => simp [hx] at h
        | some a =>
          obtain ⟨r1, g1⟩ := a
          obtain ⟨h1, hc1⟩ := hbody _ _ _ hx hc
          cases r1 with
          | ok v s1 => simp only [hx] at h; cases h; exact ⟨h1, cacheS_insert _ _ hc1 h1⟩
          | err e => simp only [hx] at h; cases h; exact ⟨h1, cacheS_insert _ _ hc1 h1⟩
          | panic m => simp only [hx] at h; cases h; exact ⟨h1, hc1⟩
    · exact hbody _ _ _ h hc

theorem normalRule_s (hrec : RecS cs rec) (n : Nat) (r : Rule) (s : St) (hs : BSt' cs s) :
    InvS cs s.off (ValB cs) (normalRule env rec n r s) := by
  intro g res g' h hc
  simp only [normalRule] at h
  split at h
  · cases h
  · rename_i res1 g1 hx
    obtain ⟨h1, hc1⟩ := memoBody_s _ _ _ _ hs (ruleBody_s hrec r s hs) _ _ _ hx (cacheS_emit _ hc)
    cases h
    exact ⟨h1, cacheS_traceResult _ hc1⟩

theorem charChecks_s (name : String) :
    ∀ fs c s (g : Global) o g', charChecks env name fs c s g = (o, g') → BSt' cs s → CacheS cs g →
      (∀ e, o = some e → IsBoundary cs e.pos) ∧ CacheS cs g' := by
  intro fs
  induction fs with
  | nil =>
    intro c s g o g' h hs hc
    simp only [charChecks, Prod.mk.injEq] at h
    obtain ⟨rfl, rfl⟩ := h
    exact ⟨fun e he => (by cases he), hc⟩
  | cons f fs ih =>
    intro c s g o g' h hs hc
    simp only [charChecks] at h
    split at h
    · simp only [Prod.mk.injEq] at h
      obtain ⟨rfl, rfl⟩ := h
      exact ⟨fun e he => (by cases he; exact isBoundary_reportError _ hs), hc⟩
    · exact ih _ _ _ _ _ h hs (cacheS_emit _ hc)

theorem orElse_s {off : Nat} {x rest : Global → Out Val} (hx : InvS cs off (ValB cs) x)
    (hrest : InvS cs off (ValB cs) rest) :
    InvS cs off (ValB cs) (fun g => match x g with
      | none => none
      | some (.ok v s', g') => some (.ok v s', g')
      | some (.err _, g') => rest g'
      | some (.panic m, g') => some (.panic m, g')) := by
  intro g r g' h hc
  simp only at h
  split at h
  · cases h
  · rename_i v s1 g1 hx1
    obtain ⟨h1, hc1⟩ := hx _ _ _ hx1 hc
    cases h; exact ⟨h1, hc1⟩
  · rename_i e g1 hx1
    obtain ⟨h1, hc1⟩ := hx _ _ _ hx1 hc
    exact hrest _ _ _ h hc1
  · rename_i m g1 hx1
    obtain ⟨h1, hc1⟩ := hx _ _ _ hx1 hc
    cases h; exact ⟨h1, hc1⟩

theorem charParts_s (hrec : RecS cs rec) (name : String) :
    ∀ ps s, BSt' cs s → InvS cs s.off (ValB cs) (charParts rec name ps s) := by
  intro ps
  induction ps with
  | nil => intro s hs; exact InvS.pure (isBoundary_reportError _ hs)
  | cons p ps ih =>
    intro s hs
    cases p with
    | chr item =>
      refine orElse_s ?_ (ih s hs)
      simp only []
      cases item.toChar
      · exact InvS.pure (ress_map _ (resb_parseCharacterLiteral _ hs) (fun _ _ h => off_parseCharacterLiteral h)
          (fun c => .chr c))
      all_goals exact InvS.pure not_rt_uncompilable_charLit
    | range lo hi =>
      refine orElse_s ?_ (ih s hs)
      simp only []
      cases lo.toChar <;> cases hi.toChar
      · exact InvS.pure (ress_map _ (resb_parseCharacterRange _ _ hs) (fun _ _ h => off_parseCharacterRange h)
          (fun c => .chr c))
      all_goals exact InvS.pure not_rt_uncompilable_charRange
    | ident id => exact orElse_s (hrec.rule id s hs) (ih s hs)

theorem charRule_s (hrec : RecS cs rec) (r : CharRule) (s : St) (hs : BSt' cs s) :
    InvS cs s.off (ValB cs) (charRule env rec r s) := by
  intro g res g' h hc
  simp only [charRule] at h
  split at h
  · exact charParts_s hrec _ _ _ hs _ _ _ h hc
  · split at h
    · cases h
      exact ⟨isBoundary_reportError _ hs, hc⟩
    · split at h
      · rename_i e g1 hcc
        obtain ⟨h1, hc1⟩ := charChecks_s _ _ _ _ _ _ _ hcc hs hc
        cases h
        exact ⟨h1 _ rfl, hc1⟩
      · rename_i g1 hcc
        obtain ⟨h1, hc1⟩ := charChecks_s _ _ _ _ _ _ _ hcc hs hc
        exact charParts_s hrec _ _ _ hs _ _ _ h hc1

theorem externRule_s (hx : GoodExterns env.hooks) (hv : ExternValsB cs env.hooks) (r : ExternRule) (s : St)
    (hs : BSt' cs s) : InvS cs s.off (ValB cs) (externRule env r s) := by
  intro g res g' h hc
  have hb := (externRule_bd hx r s hs _ _ _ h hc.cacheB).1
  simp only [externRule] at h
  split at h
  · rename_i v adv heq
    cases h
    refine ⟨?_, hc⟩
    have hval : ValB cs v := hv _ _ _ _ _ _ (Prod.ext heq rfl)
    cases hadv : s.advanceSafe adv v with
    | ok v' s' =>
      rw [hadv] at hb
      have hvv : v' = v := by
        unfold St.advanceSafe at hadv
        split at hadv
        · cases hadv
        · split at hadv
          · cases hadv
          · cases hadv; rfl
      exact ⟨hb, off_advanceSafe hadv, hvv ▸ hval⟩
    | err e => rw [hadv] at hb; exact hb
    | panic m => rw [hadv] at hb; exact hb
  · cases h
    exact ⟨isBoundary_reportError _ hs, hc⟩

theorem stepRule_s (hx : GoodExterns env.hooks) (hv : ExternValsB cs env.hooks) (hrec : RecS cs rec) (n : Nat)
    (name : String) (s : St) (hs : BSt' cs s) : InvS cs s.off (ValB cs) (stepRule env rec n name s) := by
  show InvS cs s.off (ValB cs) (fun g => stepRule env rec n name s g)
  simp only [stepRule]
  cases hf : env.g.find name with
  | none =>
    simp only []
    exact InvS.ite
      (InvS.pure (ress_map _ (resb_parseChar hs) (fun _ _ h => off_parseChar h) (fun c => .chr c)))
      (InvS.ite
        (InvS.pure (ress_map _ (resb_parseWhitespace hs) (fun _ _ h => off_parseWhitespace h) (fun _ => .unit)))
        (InvS.pure (not_rt_undefined _)))
  | some e =>
    cases e with
    | rule r => simp only []; exact normalRule_s hrec n r s hs
    | charRule r => simp only []; exact charRule_s hrec r s hs
    | externRule r => simp only []; exact externRule_s hx hv r s hs

theorem step_s (hx : GoodExterns env.hooks) (hv : ExternValsB cs env.hooks) (hrec : RecS cs rec) (n : Nat) :
    RecS cs (step env rec n) :=
  ⟨fun ctx e s hs => stepExpr_s hrec n ctx e s hs, fun name s hs => stepRule_s hx hv hrec n name s hs⟩

end

theorem eval_recS (env : Env) (cs : List Char) (hx : GoodExterns env.hooks) (hv : ExternValsB cs env.hooks) :
    ∀ n, RecS cs (eval env n) := by
  intro n
  induction n with
  | zero =>
    refine ⟨fun _ _ _ _ g r g' h => ?_, fun _ _ _ g r g' h => ?_⟩
    · simp [eval] at h
    · simp [eval] at h
  | succ n ih => exact step_s hx hv ih n

/-- C04, strong evaluator form: additionally offsets are monotone along every evaluation and all returned values
    (and all cached values) are `ValB` -/
theorem eval_boundary_values (env : Env) (cs : List Char) (hx : GoodExterns env.hooks)
    (hv : ExternValsB cs env.hooks) : ∀ n,
    (∀ ctx e s g r g', (eval env n).expr ctx e s g = some (r, g') → BSt' cs s → CacheS cs g →
      ResS cs s.off (PB cs) r ∧ CacheS cs g') ∧
    (∀ name s g r g', (eval env n).rule name s g = some (r, g') → BSt' cs s → CacheS cs g →
      ResS cs s.off (ValB cs) r ∧ CacheS cs g') := by
  intro n
  have h := eval_recS env cs hx hv n
  exact ⟨fun ctx e s g r g' he hs hc => h.expr ctx e s hs g r g' he hc,
    fun name s g r g' he hs hc => h.rule name s hs g r g' he hc⟩

/-- the tree returned by `parse_advanced`: every `position` is an ordered pair of character boundaries of the
    input, every `@string` value is the encoding of a contiguous part of the input text -/
theorem C04_values_on_boundaries (env : Env) (cs : List Char) (hx : GoodExterns env.hooks)
    (hv : ExternValsB cs env.hooks) (rule : String) (n u : Nat) {r : Res Val} {g : Global}
    (h : parseAdvanced env n rule (enc cs) u = some (r, g)) : ∀ v s, r = .ok v s → ValB cs v := by
  intro v s hm
  subst hm
  exact ((eval_boundary_values env cs hx hv n).2 _ _ _ _ _ h (bst'_new cs) (cacheS_init cs u)).1.2.2

/-- offsets are monotone along every (rule) evaluation from a boundary state with a good cache -/
theorem eval_offsets_monotone (env : Env) (cs : List Char) (hx : GoodExterns env.hooks)
    (hv : ExternValsB cs env.hooks) (n : Nat) {name : String} {s s' : St} {g g' : Global} {v : Val}
    (h : (eval env n).rule name s g = some (.ok v s', g')) (hs : BSt' cs s) (hc : CacheS cs g) :
    s.off ≤ s'.off :=
  ((eval_boundary_values env cs hx hv n).2 _ _ _ _ _ h hs hc).1.2.1

/-! ### the hypotheses are satisfiable; a concrete run -/

example (cs : List Char) : ExternValsB cs (default : Hooks) := by
  intro f bs u v adv u' h
  cases h

theorem oneCharHooks_vals (cs : List Char) : ExternValsB cs oneCharHooks := by
  intro f bs u v adv u' h
  simp only [oneCharHooks] at h
  split at h
  · simp only [Prod.mk.injEq, Except.ok.injEq] at h
    rw [← h.1.1]; exact .ext _ _
  · simp at h

/-- `@string @position S = 'é' X;  @extern(one) X;` with an extern that consumes one character -/
def demoEnv : Env :=
  { g := { rules := [.rule { directives := [.string, .position], name := "S",
                             definition := .seq [.lit false [.chr 'é'], .field none false "X"] },
                     .externRule { function := ["one"], returnType := none, name := "X" }] },
    settings := {}, hooks := oneCharHooks, nf := 10 }

theorem demo_run : (parseAdvanced demoEnv 5 "S" (enc [' ', 'é', 'ß', 'x']) 0).map (·.1) =
    some (.ok (.node "S" [("string", .str (enc [' ', 'é', 'ß']))] (some (0, 5))) ⟨enc ['x'], 5, none⟩) := by
  rfl

/-- the theorems apply to the concrete run: offset 5 is a boundary of `" éßx"` and the tree is `ValB` -/
example : IsBoundary [' ', 'é', 'ß', 'x'] 5 ∧
    ValB [' ', 'é', 'ß', 'x'] (.node "S" [("string", .str (enc [' ', 'é', 'ß']))] (some (0, 5))) := by
  cases hrun : parseAdvanced demoEnv 5 "S" (enc [' ', 'é', 'ß', 'x']) 0 with
  | none => have := demo_run; rw [hrun] at this; cases this
  | some a =>
    obtain ⟨r, g⟩ := a
    have h := demo_run
    rw [hrun] at h
    simp only [Option.map_some, Option.some.injEq] at h
    subst h
    exact ⟨((C04_offsets_on_boundaries demoEnv _ oneCharHooks_good "S" 5 0 hrun).1 _ _ rfl).1,
      C04_values_on_boundaries demoEnv _ oneCharHooks_good (oneCharHooks_vals _) "S" 5 0 hrun _ _ rfl⟩

/-- `GoodExterns` cannot be dropped: an extern that answers "1 byte" in front of a two-byte character makes
    `advance_safe` panic (this is the runtime's own check, a genuine `RuntimePanic`) -/
example :
    let badEnv : Env := { demoEnv with hooks := { oneCharHooks with extern := fun _ _ u => (.ok (.unit, 1), u) } }
    (parseAdvanced badEnv 5 "X" (enc ['é']) 0).map (·.1) = some (.panic "byte index is not a char boundary") ∧
    RuntimePanic "byte index is not a char boundary" :=
  ⟨by rfl, Or.inr rfl⟩

end Peg
