import PegVerif.BuildDir
import PegVerif.Proofs.BuildProofs
/-
  Property C18 in directory mode (model: `PegVerif/BuildDir.lean`).

  * `runEntry_cases`            – a file is answered `.ok _` or `.err`, and `.err` leaves it as it was;
  * `runDir_ok`                 – a successful walk gave every file exactly its single-file run (independence);
  * `runDir_err`                – a failing walk: files before the first failing one got their single-file run, the failing
                                  one and everything after it are byte for byte as before;
  * `dirResult_ok_iff`          – the walk succeeds exactly when every file's own run succeeds;
  * `runDir_perm`               – on success the outcome does not depend on the order `read_dir` yields the files;
  * `runDir_again`              – a walk directly after a successful walk touches nothing.
-/
namespace Peg
open Build

theorem runOnce_ne_none (k : Consts) (compile : List UInt8 → Option (List UInt8)) (fs : FS) :
    (runOnce k compile fs).2 ≠ .none := by
  rcases runOnce_cases k compile fs with ⟨_, hr⟩ | ⟨_, _, _, hr⟩ | ⟨_, _, _, _, hr⟩ | ⟨_, _, _, _, _, hr⟩ <;> rw [hr] <;> simp

theorem runEntry_cases (k : Consts) (compile : List UInt8 → Option (List UInt8)) (f : FS) :
    (∃ w, (runEntry k compile f).2 = .ok w) ∨ ((runEntry k compile f).2 = .err ∧ (runEntry k compile f).1 = f) := by
  unfold runEntry
  cases hg : f.grammar with
  | none => exact .inl ⟨false, rfl⟩
  | some g =>
    simp only
    cases ho : (runOnce k compile f).2 with
    | none => exact absurd ho (runOnce_ne_none k compile f)
    | ok w => exact .inl ⟨w, rfl⟩
    | err => exact .inr ⟨rfl, C18_failure_preserves k compile f (by simpa [Build.step] using ho)⟩

/-- with a grammar file present the entry is the single-file run -/
theorem runEntry_some (k : Consts) (compile : List UInt8 → Option (List UInt8)) (f : FS) (g : List UInt8)
    (hg : f.grammar = some g) : runEntry k compile f = Build.step k compile f .run := by
  simp [runEntry, hg, Build.step]

theorem runDir_length (k : Consts) (compile : List UInt8 → Option (List UInt8)) (fs : List FS) :
    (runDir k compile fs).length = fs.length := by
  induction fs with
  | nil => rfl
  | cons f rest ih =>
    unfold runDir
    split <;> simp [ih]

theorem dirResult_cons_ok (e : FS × Out) (w : Bool) (he : e.2 = .ok w) (r : List (FS × Out)) :
    dirResult (e :: r) = match dirResult r with | .ok w' => .ok (w || w') | o => o := by
  obtain ⟨f, o⟩ := e
  simp only at he; subst he
  unfold dirResult
  by_cases h : r.any (fun e => e.2 == Out.err) = true
  · simp [h]
  · cases w <;> simp [h]

theorem dirResult_cons_err (e : FS × Out) (he : e.2 = .err) (r : List (FS × Out)) : dirResult (e :: r) = .err := by
  obtain ⟨f, o⟩ := e
  simp only at he; subst he
  simp [dirResult]

/-- **a successful walk is the single-file run on every file, independently of the others** -/
theorem runDir_ok (k : Consts) (compile : List UInt8 → Option (List UInt8)) (fs : List FS) (w : Bool)
    (h : dirResult (runDir k compile fs) = .ok w) :
    runDir k compile fs = fs.map (runEntry k compile) ∧ ∀ f ∈ fs, ∃ w', (runEntry k compile f).2 = .ok w' := by
  induction fs generalizing w with
  | nil => exact ⟨rfl, by simp⟩
  | cons f rest ih =>
    rcases runEntry_cases k compile f with ⟨w1, h1⟩ | ⟨h1, _⟩
    · have hd : runDir k compile (f :: rest) = (runEntry k compile f) :: runDir k compile rest := by
        rw [runDir]; cases hr : runEntry k compile f with
        | mk f' o => rw [hr] at h1; simp only at h1; subst h1; rfl
      rw [hd, dirResult_cons_ok _ w1 h1] at h
      cases hrest : dirResult (runDir k compile rest) with
      | ok w2 =>
        obtain ⟨e1, e2⟩ := ih w2 hrest
        refine ⟨by rw [hd, e1]; rfl, ?_⟩
        intro x hx
        rcases List.mem_cons.mp hx with rfl | hx
        · exact ⟨w1, h1⟩
        · exact e2 x hx
      | err => rw [hrest] at h; cases h
      | none => rw [hrest] at h; cases h
    · have hd : runDir k compile (f :: rest) = ((runEntry k compile f).1, .err) :: rest.map (fun x => (x, Out.none)) := by
        rw [runDir]; cases hr : runEntry k compile f with
        | mk f' o => rw [hr] at h1; simp only at h1; subst h1; rfl
      rw [hd, dirResult_cons_err _ rfl] at h; cases h

/-- **a failing walk**: the files before the first failing one got their own single-file run (all successful), the
    failing file and every file after it are exactly as before, and the latter were not even looked at -/
theorem runDir_err (k : Consts) (compile : List UInt8 → Option (List UInt8)) (fs : List FS)
    (h : dirResult (runDir k compile fs) = .err) :
    ∃ pre f post, fs = pre ++ f :: post ∧ (∀ x ∈ pre, ∃ w, (runEntry k compile x).2 = .ok w) ∧
      (runEntry k compile f).2 = .err ∧
      runDir k compile fs = pre.map (runEntry k compile) ++ (f, .err) :: post.map (fun x => (x, Out.none)) := by
  induction fs with
  | nil => simp [runDir, dirResult] at h
  | cons f rest ih =>
    rcases runEntry_cases k compile f with ⟨w1, h1⟩ | ⟨h1, h1'⟩
    · have hd : runDir k compile (f :: rest) = (runEntry k compile f) :: runDir k compile rest := by
        rw [runDir]; cases hr : runEntry k compile f with
        | mk f' o => rw [hr] at h1; simp only at h1; subst h1; rfl
      rw [hd, dirResult_cons_ok _ w1 h1] at h
      cases hrest : dirResult (runDir k compile rest) with
      | ok w2 => rw [hrest] at h; cases h
      | none => rw [hrest] at h; cases h
      | err =>
        obtain ⟨pre, g, post, e1, e2, e3, e4⟩ := ih hrest
        refine ⟨f :: pre, g, post, by rw [e1]; rfl, ?_, e3, by rw [hd, e4]; rfl⟩
        intro x hx
        rcases List.mem_cons.mp hx with rfl | hx
        · exact ⟨w1, h1⟩
        · exact e2 x hx
    · have hd : runDir k compile (f :: rest) = ((runEntry k compile f).1, .err) :: rest.map (fun x => (x, Out.none)) := by
        rw [runDir]; cases hr : runEntry k compile f with
        | mk f' o => rw [hr] at h1; simp only at h1; subst h1; rfl
      exact ⟨[], f, rest, rfl, by simp, h1, by rw [hd, h1']; rfl⟩

theorem dirResult_ne_none (r : List (FS × Out)) : dirResult r ≠ .none := by
  unfold dirResult; split <;> simp

/-- the walk succeeds exactly when every file's own run succeeds -/
theorem dirResult_ok_iff (k : Consts) (compile : List UInt8 → Option (List UInt8)) (fs : List FS) :
    (∃ w, dirResult (runDir k compile fs) = .ok w) ↔ ∀ f ∈ fs, ∃ w', (runEntry k compile f).2 = .ok w' := by
  constructor
  · rintro ⟨w, h⟩; exact (runDir_ok k compile fs w h).2
  · intro hall
    cases hr : dirResult (runDir k compile fs) with
    | ok w => exact ⟨w, rfl⟩
    | none => exact absurd hr (dirResult_ne_none _)
    | err =>
      obtain ⟨pre, f, post, e1, _, e3, _⟩ := runDir_err k compile fs hr
      obtain ⟨w', hw⟩ := hall f (by rw [e1]; simp)
      rw [e3] at hw; cases hw

/-- **order independence on success**: whatever order `read_dir` yields the files in, a successful walk succeeds in
    every other order too and leaves the same files behind -/
theorem runDir_perm (k : Consts) (compile : List UInt8 → Option (List UInt8)) (fs fs' : List FS) (hp : fs.Perm fs')
    (w : Bool) (h : dirResult (runDir k compile fs) = .ok w) :
    (∃ w', dirResult (runDir k compile fs') = .ok w') ∧ (runDir k compile fs).Perm (runDir k compile fs') := by
  have hall := (runDir_ok k compile fs w h).2
  have hex : ∃ w', dirResult (runDir k compile fs') = .ok w' :=
    (dirResult_ok_iff k compile fs').mpr (fun f hf => hall f (hp.mem_iff.mpr hf))
  obtain ⟨w', hw'⟩ := hex
  refine ⟨⟨w', hw'⟩, ?_⟩
  rw [(runDir_ok k compile fs w h).1, (runDir_ok k compile fs' w' hw').1]
  exact hp.map _

/-- a second run of one entry directly after a successful one changes nothing -/
theorem runEntry_again (k : Consts) (compile : List UInt8 → Option (List UInt8)) (f : FS) (w : Bool)
    (h : (runEntry k compile f).2 = .ok w) :
    runEntry k compile (runEntry k compile f).1 = ((runEntry k compile f).1, .ok false) := by
  cases hg : f.grammar with
  | none => simp [runEntry, hg]
  | some g =>
    rw [runEntry_some k compile f g hg] at h ⊢
    have hgr : (Build.step k compile f .run).1.grammar = some g := by
      simp only [Build.step]
      rcases runOnce_cases k compile f with ⟨_, hr⟩ | ⟨_, _, _, hr⟩ | ⟨_, _, _, _, hr⟩ | ⟨_, _, _, _, _, hr⟩ <;> rw [hr] <;> simp [hg]
    rw [runEntry_some k compile _ g hgr]
    exact C18_untouched k compile f _ w (by rw [← h])

/-- **a walk directly after a successful walk touches nothing** -/
theorem runDir_again (k : Consts) (compile : List UInt8 → Option (List UInt8)) (fs : List FS) (w : Bool)
    (h : dirResult (runDir k compile fs) = .ok w) :
    runDir k compile ((runDir k compile fs).map (·.1)) = (runDir k compile fs).map (fun e => (e.1, .ok false)) := by
  obtain ⟨e1, e2⟩ := runDir_ok k compile fs w h
  rw [e1]
  clear e1 h
  induction fs with
  | nil => rfl
  | cons f rest ih =>
    obtain ⟨w1, h1⟩ := e2 f (by simp)
    have := runEntry_again k compile f w1 h1
    simp only [List.map_cons, runDir, this]
    rw [ih (fun x hx => e2 x (List.mem_cons_of_mem _ hx))]

end Peg
