import PegVerif.Eval
/-
  Property C19: "tracing changes nothing but the log".

  Part 1 (erasure): no step of the evaluator reads `Global.log`, and the log only grows by
  prepending.  Part 2 (balance): the tracer events of one evaluation are properly nested
  (`traceStart` … `traceOk`/`traceErr`), so the indentation counter of the real `IndentedTracer`
  never underflows.

  Both parts are proved in one pass over the evaluator: `LogInv f` says that the computation
  `f : Global → Out α` is log-erasable and that its new events are well nested (`Tr`).
-/
namespace Peg

/-! ### the global object with a replaced log -/

def Global.withLog (g : Global) (l : List Ev) : Global := { g with log := l }

@[simp] theorem withLog_log (g : Global) (l : List Ev) : (g.withLog l).log = l := rfl
@[simp] theorem withLog_cache (g : Global) (l : List Ev) : (g.withLog l).cache = g.cache := rfl
@[simp] theorem withLog_uctx (g : Global) (l : List Ev) : (g.withLog l).uctx = g.uctx := rfl
@[simp] theorem withLog_lookup (g : Global) (l : List Ev) (k) : (g.withLog l).lookup k = g.lookup k := rfl
@[simp] theorem withLog_withLog (g : Global) (l l' : List Ev) : (g.withLog l).withLog l' = g.withLog l' := rfl
@[simp] theorem withLog_self (g : Global) : g.withLog g.log = g := rfl
@[simp] theorem emit_log (g : Global) (e : Ev) : (g.emit e).log = e :: g.log := rfl
@[simp] theorem insert_log (g : Global) (k v) : (g.insert k v).log = g.log := rfl
theorem withLog_emit (g : Global) (l : List Ev) (e : Ev) :
    (g.withLog l).emit e = (g.emit e).withLog (e :: l) := rfl
theorem withLog_insert (g : Global) (l : List Ev) (k v) :
    (g.withLog l).insert k v = (g.insert k v).withLog l := rfl
theorem withLog_setUctx (g : Global) (l : List Ev) (u : Nat) :
    ({ g.withLog l with uctx := u } : Global) = ({ g with uctx := u } : Global).withLog l := rfl

/-- a global object is determined by its log-erasure and its log -/
theorem Global.ext_withLog {g g' : Global} (h : g.withLog [] = g'.withLog []) (hl : g.log = g'.log) :
    g = g' := by
  cases g; cases g'
  simp only [Global.withLog, Global.mk.injEq] at h hl ⊢
  exact ⟨h.1, hl, h.2.2⟩

/-! ### the tracer projection: nesting depth of a chronological event list -/

def isStart : Ev → Bool
  | .traceStart .. => true
  | _ => false

def isResult : Ev → Bool
  | .traceOk .. => true
  | .traceErr .. => true
  | _ => false

/-- depth after processing a chronological list of events starting at depth `d`; `none` if the
    depth would underflow (the `usize` indentation counter of `IndentedTracer`) -/
def depthAfter : List Ev → Nat → Option Nat
  | [], d => some d
  | e :: es, d =>
    if isStart e then depthAfter es (d + 1)
    else if isResult e then (if d = 0 then none else depthAfter es (d - 1))
    else depthAfter es d

/-- `l` chronological: every start has its result, no result without a start -/
def Balanced (l : List Ev) : Prop := ∀ d, depthAfter l d = some d

theorem depthAfter_append (a b : List Ev) (d : Nat) :
    depthAfter (a ++ b) d = (depthAfter a d).bind (depthAfter b) := by
  induction a generalizing d with
  | nil => rfl
  | cons e es ih =>
    simp only [List.cons_append, depthAfter]
    split
    · exact ih _
    · split
      · split
        · rfl
        · exact ih _
      · exact ih _

/-- `l` (chronological) never underflows and raises the depth by exactly `k` -/
def Nest (l : List Ev) (k : Nat) : Prop := ∀ d, depthAfter l d = some (d + k)

theorem Nest.nil : Nest [] 0 := fun _ => rfl

theorem Nest.append {a b : List Ev} {j k : Nat} (ha : Nest a j) (hb : Nest b k) : Nest (a ++ b) (j + k) := by
  intro d
  rw [depthAfter_append, ha d]
  simp only [Option.bind]
  rw [hb, Nat.add_assoc]

theorem Nest.neutral {e : Ev} (hs : isStart e = false) (hr : isResult e = false) : Nest [e] 0 := by
  intro d; simp [depthAfter, hs, hr]

theorem Nest.start {e : Ev} (hs : isStart e = true) : Nest [e] 1 := by
  intro d; simp [depthAfter, hs]

theorem Nest.close {a : List Ev} {k : Nat} {e : Ev} (ha : Nest a (k + 1)) (hs : isStart e = false)
    (hr : isResult e = true) : Nest (a ++ [e]) k := by
  intro d
  rw [depthAfter_append, ha d]
  simp only [Option.bind, depthAfter, hs, hr, if_true, Bool.false_eq_true, if_false]
  rw [if_neg (by omega)]
  congr 1

theorem balanced_iff_nest {l : List Ev} : Balanced l ↔ Nest l 0 := Iff.rfl

theorem depthAfter_shift {l : List Ev} {d d' : Nat} (h : depthAfter l d = some d') :
    depthAfter l (d + 1) = some (d' + 1) := by
  induction l generalizing d with
  | nil => simp only [depthAfter, Option.some.injEq] at h ⊢; omega
  | cons e es ih =>
    simp only [depthAfter] at h ⊢
    split
    · rename_i hs; simp only [hs, if_true] at h; exact ih h
    · rename_i hs
      simp only [hs, Bool.false_eq_true, if_false] at h
      split
      · rename_i hr
        simp only [hr, if_true] at h
        rw [if_neg (by omega)]
        split at h
        · cases h
        · rename_i hd
          have := ih h
          have e1 : d - 1 + 1 = d + 1 - 1 := by omega
          rw [← e1]; exact this
      · rename_i hr
        simp only [hr, Bool.false_eq_true, if_false] at h
        exact ih h

theorem nest_of_depthAfter_zero {l : List Ev} {k : Nat} (h : depthAfter l 0 = some k) : Nest l k := by
  intro d
  induction d with
  | zero => simpa using h
  | succ d ih =>
    have := depthAfter_shift ih
    rw [this]; congr 1; omega

/-- every prefix of a nest is a nest: the depth never goes below the starting depth -/
theorem Nest.prefix {l p : List Ev} {k : Nat} (h : Nest l k) (hp : p <+: l) : ∃ j, Nest p j := by
  obtain ⟨q, rfl⟩ := hp
  have h0 := h 0
  rw [depthAfter_append] at h0
  cases hp : depthAfter p 0 with
  | none => simp [hp] at h0
  | some j => exact ⟨j, nest_of_depthAfter_zero hp⟩

/-! ### `Tr`: the invariant on the new events (newest first) of one computation -/

def Res.isPanic {α} : Res α → Bool
  | .panic _ => true
  | _ => false

/-- `l` newest first.  The events never underflow the depth; unless the computation panicked
    (a Rust panic unwinds past `print_trace_result`) they are balanced. -/
def Tr (panic : Bool) (l : List Ev) : Prop := ∃ k, Nest l.reverse k ∧ (panic = false → k = 0)

theorem Tr.nil (b : Bool) : Tr b [] := ⟨0, Nest.nil, fun _ => rfl⟩

theorem Tr.balanced {l : List Ev} (h : Tr false l) : Balanced l.reverse := by
  obtain ⟨k, hk, h0⟩ := h
  obtain rfl := h0 rfl
  exact hk

theorem Tr.nest0 {l : List Ev} (h : Tr false l) : Nest l.reverse 0 := h.balanced

theorem Tr.of_balanced {l : List Ev} (b : Bool) (h : Balanced l.reverse) : Tr b l := ⟨0, h, fun _ => rfl⟩

theorem Tr.weaken {b : Bool} {l : List Ev} (h : Tr b l) : Tr true l := by
  obtain ⟨k, hk, _⟩ := h
  exact ⟨k, hk, fun h => by cases h⟩

theorem Tr.any {l : List Ev} (h : Tr false l) (b : Bool) : Tr b l := Tr.of_balanced b h.balanced

theorem Tr.append {b : Bool} {l1 l2 : List Ev} (h1 : Tr false l1) (h2 : Tr b l2) : Tr b (l2 ++ l1) := by
  obtain ⟨k2, hk2, h02⟩ := h2
  refine ⟨k2, ?_, h02⟩
  rw [List.reverse_append]
  have := Nest.append h1.nest0 hk2
  simpa using this

theorem Tr.neutral {e : Ev} (b : Bool) (hs : isStart e = false) (hr : isResult e = false) : Tr b [e] :=
  ⟨0, Nest.neutral hs hr, fun _ => rfl⟩

theorem Tr.neutral2 {e1 e2 : Ev} (b : Bool) (hs1 : isStart e1 = false) (hr1 : isResult e1 = false)
    (hs2 : isStart e2 = false) (hr2 : isResult e2 = false) : Tr b [e2, e1] :=
  (Tr.neutral false hs1 hr1).append (Tr.neutral b hs2 hr2)

/-- a start without its result: only acceptable on the panic path -/
theorem Tr.opened {b : Bool} {l : List Ev} {e : Ev} (hs : isStart e = true) (h : Tr b l) :
    Tr true (l ++ [e]) := by
  obtain ⟨k, hk, _⟩ := h
  refine ⟨1 + k, ?_, fun h => by cases h⟩
  rw [List.reverse_append]
  exact Nest.append (Nest.start hs) hk

/-- start, balanced inner events, result -/
theorem Tr.wrap {l : List Ev} {e1 e2 : Ev} (b : Bool) (hs : isStart e1 = true) (hs2 : isStart e2 = false)
    (hr : isResult e2 = true) (h : Tr false l) : Tr b (e2 :: (l ++ [e1])) := by
  refine ⟨0, ?_, fun _ => rfl⟩
  rw [List.reverse_cons, List.reverse_append]
  refine Nest.close ?_ hs2 hr
  have := Nest.append (Nest.start hs) h.nest0
  simpa using this

/-! ### the invariant of a computation -/

/-- running `f` from `g` gives `(r, g')`, the new events are `l`, and the same happens from any other log -/
def Runs {α} (f : Global → Out α) (g : Global) (r : Res α) (g' : Global) (l : List Ev) : Prop :=
  g'.log = l ++ g.log ∧ ∀ l0, f (g.withLog l0) = some (r, g'.withLog (l ++ l0))

def LogInv {α} (f : Global → Out α) : Prop :=
  ∀ g r g', f g = some (r, g') → ∃ l, Runs f g r g' l ∧ Tr r.isPanic l

structure RecInv (rec : Rec) : Prop where
  expr : ∀ ctx e s, LogInv (rec.expr ctx e s)
  rule : ∀ name s, LogInv (rec.rule name s)

theorem LogInv.pure {α} (r : Res α) : LogInv (fun g => some (r, g)) := by
  intro g r' g' h
  cases h
  exact ⟨[], ⟨rfl, fun _ => rfl⟩, Tr.nil _⟩

theorem LogInv.congr {α} {f f' : Global → Out α} (he : ∀ g, f g = f' g) (h : LogInv f') : LogInv f := by
  have : f = f' := funext he
  rw [this]; exact h

theorem LogInv.ite {α} {c : Prop} [Decidable c] {f f' : Global → Out α} (h1 : LogInv f) (h2 : LogInv f') :
    LogInv (fun g => if c then f g else f' g) := by
  by_cases hc : c
  · simp only [hc, if_true]; exact h1
  · simp only [hc, if_false]; exact h2

theorem bindR_log {α β} {f : Global → Out α} {k : α → St → Global → Out β}
    (hf : LogInv f) (hk : ∀ v s, LogInv (k v s)) : LogInv (fun g => bindR (f g) k) := by
  intro g r g' h
  simp only [bindR] at h
  split at h
  · cases h
  · rename_i v s1 g1 heq
    obtain ⟨l1, ⟨hl1, he1⟩, ht1⟩ := hf _ _ _ heq
    obtain ⟨l2, ⟨hl2, he2⟩, ht2⟩ := hk _ _ _ _ _ h
    refine ⟨l2 ++ l1, ⟨by simp [hl2, hl1], fun l0 => ?_⟩, ht1.append ht2⟩
    simp only [he1 l0, bindR, List.append_assoc]
    exact he2 _
  · rename_i e g1 heq
    obtain ⟨l1, ⟨hl1, he1⟩, ht1⟩ := hf _ _ _ heq
    cases h
    exact ⟨l1, ⟨hl1, fun l0 => by simp only [he1 l0, bindR]⟩, ht1⟩
  · rename_i m g1 heq
    obtain ⟨l1, ⟨hl1, he1⟩, ht1⟩ := hf _ _ _ heq
    cases h
    exact ⟨l1, ⟨hl1, fun l0 => by simp only [he1 l0, bindR]⟩, ht1⟩

theorem withSkipWs_log {α} {rec : Rec} (hrec : RecInv rec) {ctx : Ctx} {s : St} {k : St → Global → Out α}
    (hk : ∀ s, LogInv (k s)) : LogInv (fun g => withSkipWs rec ctx s g k) := by
  unfold withSkipWs
  split
  · exact bindR_log (hrec.rule _ _) (fun _ s => hk s)
  · exact hk s

/-! ### expression level -/

section
variable {env : Env} {rec : Rec}

theorem evalSeq_log (hrec : RecInv rec) {ctx : Ctx} :
    ∀ ps seen acc s, LogInv (evalSeq env rec ctx ps seen acc s) := by
  intro ps
  induction ps with
  | nil => intro seen acc s; exact LogInv.pure _
  | cons p ps ih =>
    intro seen acc s
    refine LogInv.congr (fun g => by rw [evalSeq]) (bindR_log (hrec.expr ctx p s) (fun r s' => ?_))
    cases hm : mergePart (filterRuleFields ctx.ruleFields (ownFields env p)) seen acc r with
    | error m => simp only [hm]; exact LogInv.pure _
    | ok v => simp only [hm]; exact ih _ _ _

theorem evalAlts_log (hrec : RecInv rec) {ctx : Ctx} {fields} :
    ∀ as s, LogInv (evalAlts env rec ctx fields as s) := by
  intro as
  induction as with
  | nil => intro s; exact LogInv.pure _
  | cons a as ih =>
    intro s g r g' h
    simp only [evalAlts] at h
    split at h
    · cases h
    · rename_i r0 s0 g0 hx
      obtain ⟨l1, ⟨hl1, he1⟩, ht1⟩ := hrec.expr _ _ _ _ _ _ hx
      split at h
      · rename_i p hp; cases h
        exact ⟨l1, ⟨hl1, fun l0 => by simp only [evalAlts, he1 l0, hp]⟩, ht1⟩
      · rename_i m hp; cases h
        exact ⟨l1, ⟨hl1, fun l0 => by simp only [evalAlts, he1 l0, hp]⟩, ht1.any _⟩
    · rename_i e0 g0 hx
      obtain ⟨l1, ⟨hl1, he1⟩, ht1⟩ := hrec.expr _ _ _ _ _ _ hx
      obtain ⟨l2, ⟨hl2, he2⟩, ht2⟩ := ih _ _ _ _ h
      refine ⟨l2 ++ l1, ⟨by simp [hl2, hl1], fun l0 => ?_⟩, ht1.append ht2⟩
      simp only [evalAlts, he1 l0, List.append_assoc]
      exact he2 _
    · rename_i m g0 hx
      obtain ⟨l1, ⟨hl1, he1⟩, ht1⟩ := hrec.expr _ _ _ _ _ _ hx
      cases h
      exact ⟨l1, ⟨hl1, fun l0 => by simp only [evalAlts, he1 l0]⟩, ht1⟩

theorem evalLoop_log {body : St → Global → Out Parsed} (hbody : ∀ s, LogInv (body s)) {fields} :
    ∀ k iters acc s, LogInv (evalLoop body fields k iters acc s) := by
  intro k
  induction k with
  | zero => intro iters acc s g r g' h; simp [evalLoop] at h
  | succ k ih =>
    intro iters acc s g r g' h
    simp only [evalLoop] at h
    split at h
    · cases h
    · rename_i r0 s0 g0 hx
      obtain ⟨l1, ⟨hl1, he1⟩, ht1⟩ := hbody _ _ _ _ hx
      split at h
      · rename_i acc' hacc
        obtain ⟨l2, ⟨hl2, he2⟩, ht2⟩ := ih _ _ _ _ _ _ h
        refine ⟨l2 ++ l1, ⟨by simp [hl2, hl1], fun l0 => ?_⟩, ht1.append ht2⟩
        simp only [evalLoop, he1 l0, hacc, List.append_assoc]
        exact he2 _
      · rename_i m hacc; cases h
        exact ⟨l1, ⟨hl1, fun l0 => by simp only [evalLoop, he1 l0, hacc]⟩, ht1.any _⟩
    · rename_i e0 g0 hx
      obtain ⟨l1, ⟨hl1, he1⟩, ht1⟩ := hbody _ _ _ _ hx
      cases h
      exact ⟨l1, ⟨hl1, fun l0 => by simp only [evalLoop, he1 l0]⟩, ht1⟩
    · rename_i m g0 hx
      obtain ⟨l1, ⟨hl1, he1⟩, ht1⟩ := hbody _ _ _ _ hx
      cases h
      exact ⟨l1, ⟨hl1, fun l0 => by simp only [evalLoop, he1 l0]⟩, ht1⟩

theorem stepExpr_log (hrec : RecInv rec) (n : Nat) (ctx : Ctx) (e : Expr) (s : St) :
    LogInv (stepExpr env rec n ctx e s) := by
  cases e with
  | choice alts =>
    match alts with
    | [] => exact LogInv.pure _
    | [a] => exact hrec.expr ctx a s
    | a :: b :: rest => exact evalAlts_log hrec _ _
  | seq parts =>
    match parts with
    | [] => exact LogInv.pure _
    | [a] => exact hrec.expr ctx a s
    | a :: b :: rest =>
      refine bindR_log (evalSeq_log hrec _ _ _ _) (fun v s' => ?_)
      obtain ⟨seen, acc⟩ := v
      cases hp : project (filterRuleFields ctx.ruleFields (ownFields env (.seq (a :: b :: rest)))) acc with
      | error m => simp only [hp]; exact LogInv.pure _
      | ok v => simp only [hp]; exact LogInv.pure _
  | group b => exact hrec.expr ctx b s
  | opt b =>
    intro g r g' h
    simp only [stepExpr] at h
    split at h
    · cases h
    · rename_i r0 s0 g0 hx
      obtain ⟨l1, ⟨hl1, he1⟩, ht1⟩ := hrec.expr _ _ _ _ _ _ hx
      cases h
      exact ⟨l1, ⟨hl1, fun l0 => by simp only [stepExpr, he1 l0]⟩, ht1⟩
    · rename_i e0 g0 hx
      obtain ⟨l1, ⟨hl1, he1⟩, ht1⟩ := hrec.expr _ _ _ _ _ _ hx
      split at h
      · rename_i p hp; cases h
        exact ⟨l1, ⟨hl1, fun l0 => by simp only [stepExpr, he1 l0, hp]⟩, ht1⟩
      · rename_i m hp; cases h
        exact ⟨l1, ⟨hl1, fun l0 => by simp only [stepExpr, he1 l0, hp]⟩, ht1.any _⟩
    · rename_i m g0 hx
      obtain ⟨l1, ⟨hl1, he1⟩, ht1⟩ := hrec.expr _ _ _ _ _ _ hx
      cases h
      exact ⟨l1, ⟨hl1, fun l0 => by simp only [stepExpr, he1 l0]⟩, ht1⟩
  | closure b plus =>
    show LogInv (fun g => stepExpr env rec n ctx (.closure b plus) s g)
    simp only [stepExpr]
    cases hinit : closureInit (filterRuleFields ctx.ruleFields (ownFields env b)) with
    | error m => simp only []; exact LogInv.pure _
    | ok init =>
      simp only []
      exact bindR_log (evalLoop_log (hrec.expr ctx b) _ _ _ _)
        (fun v s' => LogInv.ite (LogInv.pure _) (LogInv.pure _))
  | neg b =>
    intro g r g' h
    simp only [stepExpr] at h
    split at h
    · cases h
    · rename_i r0 s0 g0 hx
      obtain ⟨l1, ⟨hl1, he1⟩, ht1⟩ := hrec.expr _ _ _ _ _ _ hx
      cases h
      exact ⟨l1, ⟨hl1, fun l0 => by simp only [stepExpr, he1 l0]⟩, ht1⟩
    · rename_i e0 g0 hx
      obtain ⟨l1, ⟨hl1, he1⟩, ht1⟩ := hrec.expr _ _ _ _ _ _ hx
      cases h
      exact ⟨l1, ⟨hl1, fun l0 => by simp only [stepExpr, he1 l0]⟩, ht1⟩
    · rename_i m g0 hx
      obtain ⟨l1, ⟨hl1, he1⟩, ht1⟩ := hrec.expr _ _ _ _ _ _ hx
      cases h
      exact ⟨l1, ⟨hl1, fun l0 => by simp only [stepExpr, he1 l0]⟩, ht1⟩
  | pos b => exact bindR_log (hrec.expr ctx b s) (fun _ _ => LogInv.pure _)
  | range lo hi =>
    show LogInv (fun g => stepExpr env rec n ctx (.range lo hi) s g)
    simp only [stepExpr]
    cases hlo : lo.toChar <;> cases hhi : hi.toChar <;> simp only []
    all_goals first
      | exact LogInv.pure _
      | exact withSkipWs_log hrec (fun s => LogInv.pure _)
  | lit ins body =>
    show LogInv (fun g => stepExpr env rec n ctx (.lit ins body) s g)
    simp only [stepExpr]
    cases hm : compileLit ins body with
    | err m => simp only []; exact LogInv.pure _
    | fuel => simp only []; exact LogInv.pure _
    | ok m =>
      simp only []
      refine withSkipWs_log hrec (fun s => ?_)
      cases m <;> exact LogInv.pure _
  | eoi => exact withSkipWs_log hrec (fun s => LogInv.pure _)
  | incl r =>
    show LogInv (fun g => stepExpr env rec n ctx (.incl r) s g)
    simp only [stepExpr]
    cases hf : env.g.findRule r with
    | none => simp only []; exact LogInv.pure _
    | some rule => simp only []; exact hrec.expr ctx _ s
  | field name boxed typ =>
    show LogInv (fun g => stepExpr env rec n ctx (.field name boxed typ) s g)
    simp only [stepExpr]
    refine withSkipWs_log hrec (fun s => bindR_log (hrec.rule typ s) (fun v s' => ?_))
    cases name with
    | none => exact LogInv.pure _
    | some nm =>
      simp only []
      cases hp : postprocessField ctx.ruleFields nm.key typ v with
      | error m => simp only []; exact LogInv.pure _
      | ok fv => simp only []; exact LogInv.pure _

/-! ### rule level -/

theorem runChecks_log : ∀ fs v s, LogInv (runChecks env fs v s) := by
  intro fs
  induction fs with
  | nil => intro v s; exact LogInv.pure _
  | cons f fs ih =>
    intro v s g r g' h
    simp only [runChecks] at h
    split at h
    · rename_i hb
      cases h
      refine ⟨[.checkCall ("::".intercalate f) v.render g.uctx], ⟨rfl, fun l0 => ?_⟩, Tr.neutral _ rfl rfl⟩
      simp only [runChecks, withLog_uctx, hb, if_true]
      rfl
    · rename_i hb
      obtain ⟨l2, ⟨hl2, he2⟩, ht2⟩ := ih _ _ _ _ _ h
      refine ⟨l2 ++ [.checkCall ("::".intercalate f) v.render g.uctx], ⟨by simp [hl2], fun l0 => ?_⟩,
        (Tr.neutral false rfl rfl).append ht2⟩
      simp only [runChecks, withLog_uctx, hb, Bool.false_eq_true, if_false, List.append_assoc,
        List.cons_append, List.nil_append]
      exact he2 _

theorem ruleBody_log (hrec : RecInv rec) (r : Rule) (s : St) : LogInv (ruleBody env rec r s) := by
  show LogInv (fun g => ruleBody env rec r s g)
  simp only [ruleBody]
  cases hf : getFields env.g env.nf r.definition with
  | ok fields =>
    simp only []
    refine LogInv.ite (bindR_log (hrec.expr _ _ _) (fun _ s' => runChecks_log _ _ _))
      (LogInv.ite (bindR_log (hrec.expr _ _ _) (fun p s' => ?_))
        (LogInv.ite (LogInv.pure _) (bindR_log (hrec.expr _ _ _) (fun p s' => ?_))))
    · cases hv : p.get "_override" with
      | none => simp only []; exact LogInv.pure _
      | some v => simp only []; exact runChecks_log _ _ _
    · cases hp : project fields p with
      | error m => simp only []; exact LogInv.pure _
      | ok fs => simp only []; exact runChecks_log _ _ _
  | err m => simp only []; exact LogInv.pure _
  | fuel => simp only []; exact LogInv.pure _

theorem growLoop_log {body : St → Global → Out Val} (hbody : ∀ s, LogInv (body s)) (key : String × Nat)
    (s : St) : ∀ k best, LogInv (growLoop body key s k best) := by
  intro k
  induction k with
  | zero => intro best g r g' h; simp [growLoop] at h
  | succ k ih =>
    intro best g r g' h
    have hpre : Tr false [Ev.bodyEval key.1 key.2, Ev.info "Starting new left recursive loop"] :=
      Tr.neutral2 _ rfl rfl rfl rfl
    simp only [growLoop] at h
    split at h
    · cases h
    · rename_i m g1 hx
      obtain ⟨l1, ⟨hl1, he1⟩, ht1⟩ := hbody _ _ _ _ hx
      cases h
      refine ⟨l1 ++ [_, _], ⟨by simp [hl1], fun l0 => ?_⟩, hpre.append ht1⟩
      simp only [growLoop, withLog_emit, he1, List.append_assoc, List.cons_append, List.nil_append]
    · rename_i v ns g1 hx
      obtain ⟨l1, ⟨hl1, he1⟩, ht1⟩ := hbody _ _ _ _ hx
      cases best with
      | ok bv bs =>
        simp only at h
        split at h
        · rename_i hc
          obtain ⟨l2, ⟨hl2, he2⟩, ht2⟩ := ih _ _ _ _ h
          refine ⟨l2 ++ (l1 ++ [_, _]), ⟨by simp [hl2, hl1], fun l0 => ?_⟩, (hpre.append ht1).append ht2⟩
          simp only [growLoop, withLog_emit, he1, hc, if_true, withLog_insert, List.append_assoc,
            List.cons_append, List.nil_append]
          exact he2 _
        · rename_i hc
          cases h
          refine ⟨l1 ++ [_, _], ⟨by simp [hl1], fun l0 => ?_⟩, hpre.append ht1⟩
          simp only [growLoop, withLog_emit, he1, hc, Bool.false_eq_true, if_false, List.append_assoc,
            List.cons_append, List.nil_append]
      | err be =>
        simp only at h
        obtain ⟨l2, ⟨hl2, he2⟩, ht2⟩ := ih _ _ _ _ h
        refine ⟨l2 ++ (l1 ++ [_, _]), ⟨by simp [hl2, hl1], fun l0 => ?_⟩, (hpre.append ht1).append ht2⟩
        simp only [growLoop, withLog_emit, he1, withLog_insert, List.append_assoc,
          List.cons_append, List.nil_append]
        exact he2 _
      | panic bm =>
        simp only at h
        obtain ⟨l2, ⟨hl2, he2⟩, ht2⟩ := ih _ _ _ _ h
        refine ⟨l2 ++ (l1 ++ [_, _]), ⟨by simp [hl2, hl1], fun l0 => ?_⟩, (hpre.append ht1).append ht2⟩
        simp only [growLoop, withLog_emit, he1, withLog_insert, List.append_assoc,
          List.cons_append, List.nil_append]
        exact he2 _
    · rename_i e g1 hx
      obtain ⟨l1, ⟨hl1, he1⟩, ht1⟩ := hbody _ _ _ _ hx
      cases best with
      | ok bv bs =>
        simp only at h
        cases h
        refine ⟨l1 ++ [_, _], ⟨by simp [hl1], fun l0 => ?_⟩, hpre.append ht1⟩
        simp only [growLoop, withLog_emit, he1, List.append_assoc, List.cons_append, List.nil_append]
      | err be =>
        simp only at h
        cases h
        refine ⟨l1 ++ [_, _], ⟨by simp [hl1], fun l0 => ?_⟩, hpre.append ht1⟩
        simp only [growLoop, withLog_emit, he1, withLog_insert, List.append_assoc, List.cons_append,
          List.nil_append]
      | panic bm =>
        simp only at h
        cases h
        refine ⟨l1 ++ [_, _], ⟨by simp [hl1], fun l0 => ?_⟩, hpre.append ht1⟩
        simp only [growLoop, withLog_emit, he1, withLog_insert, List.append_assoc, List.cons_append,
          List.nil_append]

theorem memoBody_log {body : St → Global → Out Val} (hbody : ∀ s, LogInv (body s)) (flags : RuleFlags)
    (name : String) (n : Nat) (s : St) : LogInv (memoBody flags name body n s) := by
  intro g r g' h
  simp only [memoBody] at h
  split at h
  · rename_i hlr
    split at h
    · rename_i cached hc
      cases h
      refine ⟨[.info "Cache hit (left recursive)"], ⟨rfl, fun l0 => ?_⟩, Tr.neutral _ rfl rfl⟩
      simp only [memoBody, hlr, if_true, withLog_lookup, hc]
      rfl
    · rename_i hc
      obtain ⟨l2, ⟨hl2, he2⟩, ht2⟩ := growLoop_log hbody _ _ _ _ _ _ _ h
      refine ⟨l2, ⟨by simpa using hl2, fun l0 => ?_⟩, ht2⟩
      simp only [memoBody, hlr, if_true, withLog_lookup, hc, withLog_insert]
      exact he2 _
  · rename_i hlr
    split at h
    · rename_i hm
      split at h
      · rename_i cached hc
        cases h
        refine ⟨[.info "Cache hit"], ⟨rfl, fun l0 => ?_⟩, Tr.neutral _ rfl rfl⟩
        simp only [memoBody, hlr, hm, if_true, withLog_lookup, hc]
        rfl
      · rename_i hc
        have hpre : Tr false [Ev.bodyEval name s.off] := Tr.neutral _ rfl rfl
        cases hx : body s (g.emit (.bodyEval name s.off)) with
        | none => simp [hx] at h
        | some a =>
          obtain ⟨r1, g1⟩ := a
          obtain ⟨l1, ⟨hl1, he1⟩, ht1⟩ := hbody _ _ _ _ hx
          cases r1 with
          | ok v s1 =>
            simp only [hx] at h
            cases h
            refine ⟨l1 ++ [_], ⟨by simp [hl1], fun l0 => ?_⟩, hpre.append ht1⟩
            simp only [memoBody, hlr, hm, if_true, Bool.false_eq_true, if_false, withLog_lookup, hc, withLog_emit, he1, withLog_insert,
              List.append_assoc, List.cons_append, List.nil_append]
          | err e =>
            simp only [hx] at h
            cases h
            refine ⟨l1 ++ [_], ⟨by simp [hl1], fun l0 => ?_⟩, hpre.append ht1⟩
            simp only [memoBody, hlr, hm, if_true, Bool.false_eq_true, if_false, withLog_lookup, hc, withLog_emit, he1, withLog_insert,
              List.append_assoc, List.cons_append, List.nil_append]
          | panic m =>
            simp only [hx] at h
            cases h
            refine ⟨l1 ++ [_], ⟨by simp [hl1], fun l0 => ?_⟩, hpre.append ht1⟩
            simp only [memoBody, hlr, hm, if_true, Bool.false_eq_true, if_false, withLog_lookup, hc, withLog_emit, he1,
              List.append_assoc, List.cons_append, List.nil_append]
    · rename_i hm
      obtain ⟨l1, ⟨hl1, he1⟩, ht1⟩ := hbody _ _ _ _ h
      exact ⟨l1, ⟨hl1, fun l0 => by simp only [memoBody, hlr, hm, Bool.false_eq_true, if_false, he1]⟩, ht1⟩

theorem normalRule_log (hrec : RecInv rec) (n : Nat) (r : Rule) (s : St) :
    LogInv (normalRule env rec n r s) := by
  intro g res g' h
  simp only [normalRule] at h
  split at h
  · cases h
  · rename_i res1 g1 hx
    obtain ⟨l1, ⟨hl1, he1⟩, ht1⟩ := memoBody_log (ruleBody_log hrec r) _ _ _ _ _ _ _ hx
    cases h
    cases res with
    | ok v s1 =>
      refine ⟨.traceOk s1.off :: (l1 ++ [.traceStart r.name s.off]), ⟨by simp [traceResult, hl1], fun l0 => ?_⟩,
        Tr.wrap _ rfl rfl rfl ht1⟩
      simp only [normalRule, withLog_emit, he1, traceResult, List.append_assoc, List.cons_append,
        List.nil_append]
    | err e =>
      refine ⟨.traceErr e.spec :: (l1 ++ [.traceStart r.name s.off]), ⟨by simp [traceResult, hl1], fun l0 => ?_⟩,
        Tr.wrap _ rfl rfl rfl ht1⟩
      simp only [normalRule, withLog_emit, he1, traceResult, List.append_assoc, List.cons_append,
        List.nil_append]
    | panic m =>
      refine ⟨l1 ++ [.traceStart r.name s.off], ⟨by simp [traceResult, hl1], fun l0 => ?_⟩,
        Tr.opened rfl ht1⟩
      simp only [normalRule, withLog_emit, he1, traceResult, List.append_assoc, List.cons_append,
        List.nil_append]

theorem charChecks_log (name : String) :
    ∀ fs c s (g : Global) o g', charChecks env name fs c s g = (o, g') →
      ∃ l, (g'.log = l ++ g.log ∧
        ∀ l0, charChecks env name fs c s (g.withLog l0) = (o, g'.withLog (l ++ l0))) ∧ Tr false l := by
  intro fs
  induction fs with
  | nil =>
    intro c s g o g' h
    simp only [charChecks, Prod.mk.injEq] at h
    obtain ⟨rfl, rfl⟩ := h
    exact ⟨[], ⟨rfl, fun _ => rfl⟩, Tr.nil _⟩
  | cons f fs ih =>
    intro c s g o g' h
    simp only [charChecks] at h
    split at h
    · rename_i hb
      simp only [Prod.mk.injEq] at h
      obtain ⟨rfl, rfl⟩ := h
      refine ⟨[.charCheckCall ("::".intercalate f) c], ⟨rfl, fun l0 => ?_⟩, Tr.neutral _ rfl rfl⟩
      simp only [charChecks, hb, if_true]
      rfl
    · rename_i hb
      obtain ⟨l2, ⟨hl2, he2⟩, ht2⟩ := ih _ _ _ _ _ h
      refine ⟨l2 ++ [.charCheckCall ("::".intercalate f) c], ⟨by simp [hl2], fun l0 => ?_⟩,
        (Tr.neutral false rfl rfl).append ht2⟩
      simp only [charChecks, hb, Bool.false_eq_true, if_false, withLog_emit, List.append_assoc,
        List.cons_append, List.nil_append]
      exact he2 _

/-- first success wins, the error of the first computation is dropped -/
theorem orElse_log {x rest : Global → Out Val} (hx : LogInv x) (hrest : LogInv rest) :
    LogInv (fun g => match x g with
      | none => none
      | some (.ok v s', g') => some (.ok v s', g')
      | some (.err _, g') => rest g'
      | some (.panic m, g') => some (.panic m, g')) := by
  intro g r g' h
  simp only at h
  split at h
  · cases h
  · rename_i v s1 g1 hx1
    obtain ⟨l1, ⟨hl1, he1⟩, ht1⟩ := hx _ _ _ hx1
    cases h
    exact ⟨l1, ⟨hl1, fun l0 => by simp only [he1 l0]⟩, ht1⟩
  · rename_i e g1 hx1
    obtain ⟨l1, ⟨hl1, he1⟩, ht1⟩ := hx _ _ _ hx1
    obtain ⟨l2, ⟨hl2, he2⟩, ht2⟩ := hrest _ _ _ h
    refine ⟨l2 ++ l1, ⟨by simp [hl2, hl1], fun l0 => ?_⟩, ht1.append ht2⟩
    simp only [he1 l0, List.append_assoc]
    exact he2 _
  · rename_i m g1 hx1
    obtain ⟨l1, ⟨hl1, he1⟩, ht1⟩ := hx _ _ _ hx1
    cases h
    exact ⟨l1, ⟨hl1, fun l0 => by simp only [he1 l0]⟩, ht1⟩

theorem charParts_log (hrec : RecInv rec) (name : String) : ∀ ps s, LogInv (charParts rec name ps s) := by
  intro ps
  induction ps with
  | nil => intro s; exact LogInv.pure _
  | cons p ps ih =>
    intro s
    cases p with
    | chr item =>
      refine orElse_log ?_ (ih s)
      simp only []
      cases item.toChar <;> exact LogInv.pure _
    | range lo hi =>
      refine orElse_log ?_ (ih s)
      simp only []
      cases lo.toChar <;> cases hi.toChar <;> exact LogInv.pure _
    | ident id => exact orElse_log (hrec.rule id s) (ih s)

theorem charRule_log (hrec : RecInv rec) (r : CharRule) (s : St) : LogInv (charRule env rec r s) := by
  intro g res g' h
  simp only [charRule] at h
  split at h
  · rename_i hd
    obtain ⟨l1, ⟨hl1, he1⟩, ht1⟩ := charParts_log hrec _ _ _ _ _ _ h
    exact ⟨l1, ⟨hl1, fun l0 => by simp only [charRule, if_pos hd, he1]⟩, ht1⟩
  · rename_i hd
    split at h
    · rename_i hdec
      cases h
      exact ⟨[], ⟨rfl, fun l0 => by simp only [charRule, if_neg hd, hdec]; rfl⟩, Tr.nil _⟩
    · rename_i c hdec
      split at h
      · rename_i e g1 hcc
        obtain ⟨l1, ⟨hl1, he1⟩, ht1⟩ := charChecks_log _ _ _ _ _ _ _ hcc
        cases h
        exact ⟨l1, ⟨hl1, fun l0 => by simp only [charRule, if_neg hd, hdec, he1]⟩, ht1⟩
      · rename_i g1 hcc
        obtain ⟨l1, ⟨hl1, he1⟩, ht1⟩ := charChecks_log _ _ _ _ _ _ _ hcc
        obtain ⟨l2, ⟨hl2, he2⟩, ht2⟩ := charParts_log hrec _ _ _ _ _ _ h
        refine ⟨l2 ++ l1, ⟨by simp [hl2, hl1], fun l0 => ?_⟩, ht1.append ht2⟩
        simp only [charRule, if_neg hd, hdec, he1, List.append_assoc]
        exact he2 _

theorem externRule_log (r : ExternRule) (s : St) : LogInv (externRule env r s) := by
  intro g res g' h
  simp only [externRule] at h
  refine ⟨[.externCall ("::".intercalate r.function) s.off g.uctx], ?_, Tr.neutral _ rfl rfl⟩
  split at h
  · rename_i v adv heq
    cases h
    exact ⟨rfl, fun l0 => by simp only [externRule, withLog_uctx, heq]; rfl⟩
  · rename_i msg heq
    cases h
    exact ⟨rfl, fun l0 => by simp only [externRule, withLog_uctx, heq]; rfl⟩

theorem stepRule_log (hrec : RecInv rec) (n : Nat) (name : String) (s : St) :
    LogInv (stepRule env rec n name s) := by
  show LogInv (fun g => stepRule env rec n name s g)
  simp only [stepRule]
  cases hf : env.g.find name with
  | none =>
    simp only []
    exact LogInv.ite (LogInv.pure _) (LogInv.ite (LogInv.pure _) (LogInv.pure _))
  | some e =>
    cases e with
    | rule r => simp only []; exact normalRule_log hrec n r s
    | charRule r => simp only []; exact charRule_log hrec r s
    | externRule r => simp only []; exact externRule_log r s

theorem step_log (hrec : RecInv rec) (n : Nat) : RecInv (step env rec n) :=
  ⟨fun ctx e s => stepExpr_log hrec n ctx e s, fun name s => stepRule_log hrec n name s⟩

end

theorem eval_log (env : Env) : ∀ n, RecInv (eval env n) := by
  intro n
  induction n with
  | zero =>
    refine ⟨fun _ _ _ g r g' h => ?_, fun _ _ g r g' h => ?_⟩
    · simp [eval] at h
    · simp [eval] at h
  | succ n ih => exact step_log ih n

/-! ### consequences of `LogInv` -/

theorem Res.isPanic_eq_false {α} {r : Res α} (h : ∀ m, r ≠ .panic m) : r.isPanic = false := by
  cases r with
  | panic m => exact absurd rfl (h m)
  | ok v s => rfl
  | err e => rfl

theorem LogInv.erasure {α} {f : Global → Out α} (hf : LogInv f) {g r g'} (h : f g = some (r, g')) :
    ∃ l, g'.log = l ++ g.log ∧ ∀ l0, f (g.withLog l0) = some (r, g'.withLog (l ++ l0)) := by
  obtain ⟨l, hr, _⟩ := hf _ _ _ h
  exact ⟨l, hr⟩

theorem LogInv.tr {α} {f : Global → Out α} (hf : LogInv f) {g r g'} (h : f g = some (r, g')) {l : List Ev}
    (hl : g'.log = l ++ g.log) : Tr r.isPanic l := by
  obtain ⟨l', ⟨hl', _⟩, ht⟩ := hf _ _ _ h
  have : l = l' := List.append_cancel_right (hl.symm.trans hl')
  rw [this]; exact ht

/-- the outcome modulo the log does not depend on the initial log (including running out of fuel) -/
theorem LogInv.irrelevant {α} {f : Global → Out α} (hf : LogInv f) (g : Global) (l0 : List Ev) :
    (f (g.withLog l0)).map (fun p => (p.1, p.2.withLog [])) = (f g).map (fun p => (p.1, p.2.withLog [])) := by
  cases h : f g with
  | some a =>
    obtain ⟨r, g'⟩ := a
    obtain ⟨l, ⟨_, he⟩, _⟩ := hf _ _ _ h
    rw [he l0]
    rfl
  | none =>
    cases h2 : f (g.withLog l0) with
    | none => rfl
    | some a =>
      obtain ⟨r, g'⟩ := a
      obtain ⟨l, ⟨_, he⟩, _⟩ := hf _ _ _ h2
      have := he g.log
      simp only [withLog_withLog, withLog_self] at this
      rw [h] at this
      cases this

/-- no prefix of the (chronological) events underflows the depth counter, from any starting depth -/
def NoUnderflow (l : List Ev) : Prop := ∀ p, p <+: l → ∀ d, ∃ d', depthAfter p d = some d' ∧ d ≤ d'

theorem Tr.noUnderflow {b : Bool} {l : List Ev} (h : Tr b l) : NoUnderflow l.reverse := by
  obtain ⟨k, hk, _⟩ := h
  intro p hp d
  obtain ⟨j, hj⟩ := hk.prefix hp
  exact ⟨d + j, hj d, by omega⟩

theorem Balanced.noUnderflow {l : List Ev} (h : Balanced l) : NoUnderflow l := by
  have := (Tr.of_balanced (l := l.reverse) false (by simpa using h)).noUnderflow
  simpa using this

/-! ### Part 1: erasure -/

/-- the evaluator never reads the log and only prepends to it (expression entry point) -/
theorem eval_log_erasure {env : Env} {n : Nat} {ctx : Ctx} {e : Expr} {s : St} {g g' : Global} {r : Res Parsed}
    (h : (eval env n).expr ctx e s g = some (r, g')) :
    ∃ l, g'.log = l ++ g.log ∧
      ∀ l0, (eval env n).expr ctx e s (g.withLog l0) = some (r, g'.withLog (l ++ l0)) :=
  ((eval_log env n).expr ctx e s).erasure h

/-- the evaluator never reads the log and only prepends to it (rule entry point) -/
theorem eval_log_erasure_rule {env : Env} {n : Nat} {name : String} {s : St} {g g' : Global} {r : Res Val}
    (h : (eval env n).rule name s g = some (r, g')) :
    ∃ l, g'.log = l ++ g.log ∧
      ∀ l0, (eval env n).rule name s (g.withLog l0) = some (r, g'.withLog (l ++ l0)) :=
  ((eval_log env n).rule name s).erasure h

/-- same, as an equation that also covers fuel exhaustion: result, cache and user context
    (`g'.withLog []`) do not depend on the initial log -/
theorem eval_log_irrelevant {env : Env} {n : Nat} {ctx : Ctx} {e : Expr} {s : St} (g : Global) (l0 : List Ev) :
    ((eval env n).expr ctx e s (g.withLog l0)).map (fun p => (p.1, p.2.withLog [])) =
      ((eval env n).expr ctx e s g).map (fun p => (p.1, p.2.withLog [])) :=
  ((eval_log env n).expr ctx e s).irrelevant g l0

theorem eval_log_irrelevant_rule {env : Env} {n : Nat} {name : String} {s : St} (g : Global) (l0 : List Ev) :
    ((eval env n).rule name s (g.withLog l0)).map (fun p => (p.1, p.2.withLog [])) =
      ((eval env n).rule name s g).map (fun p => (p.1, p.2.withLog [])) :=
  ((eval_log env n).rule name s).irrelevant g l0

/-- C19, erasure: a parse started with an arbitrary initial log `l0` gives the same result, the same
    cache and the same user context as `parseAdvanced` (which starts from the empty log); its log is
    the log of `parseAdvanced` on top of `l0`. -/
theorem C19_erasure {env : Env} {n : Nat} {rule : String} {inp : List UInt8} {u : Nat} {r : Res Val}
    {g' : Global} (h : parseAdvanced env n rule inp u = some (r, g')) (l0 : List Ev) :
    (eval env n).rule rule (St.new inp) ((Global.init u).withLog l0) = some (r, g'.withLog (g'.log ++ l0)) := by
  obtain ⟨l, hl, he⟩ := eval_log_erasure_rule h
  have : g'.log = l := by simpa [Global.init] using hl
  rw [this]; exact he l0

/-- C19, erasure, as an equation (also covers fuel exhaustion) -/
theorem C19_erasure' (env : Env) (n : Nat) (rule : String) (inp : List UInt8) (u : Nat) (l0 : List Ev) :
    ((eval env n).rule rule (St.new inp) ((Global.init u).withLog l0)).map
        (fun p => (p.1, p.2.cache, p.2.uctx)) =
      (parseAdvanced env n rule inp u).map (fun p => (p.1, p.2.cache, p.2.uctx)) := by
  have := eval_log_irrelevant_rule (env := env) (n := n) (name := rule) (s := St.new inp) (Global.init u) l0
  have h2 := congrArg (Option.map (fun p : Res Val × Global => (p.1, p.2.cache, p.2.uctx))) this
  simpa [Option.map_map, Function.comp_def, parseAdvanced] using h2

/-! ### Part 2: balance -/

/-- the new events of a non-panicking expression evaluation are balanced -/
theorem eval_trace_balanced {env : Env} {n : Nat} {ctx : Ctx} {e : Expr} {s : St} {g g' : Global}
    {r : Res Parsed} (h : (eval env n).expr ctx e s g = some (r, g')) (hp : ∀ m, r ≠ .panic m)
    {l : List Ev} (hl : g'.log = l ++ g.log) : Balanced l.reverse := by
  have := ((eval_log env n).expr ctx e s).tr h hl
  rw [Res.isPanic_eq_false hp] at this
  exact this.balanced

/-- the new events of a non-panicking rule call are balanced -/
theorem eval_trace_balanced_rule {env : Env} {n : Nat} {name : String} {s : St} {g g' : Global}
    {r : Res Val} (h : (eval env n).rule name s g = some (r, g')) (hp : ∀ m, r ≠ .panic m)
    {l : List Ev} (hl : g'.log = l ++ g.log) : Balanced l.reverse := by
  have := ((eval_log env n).rule name s).tr h hl
  rw [Res.isPanic_eq_false hp] at this
  exact this.balanced

/-- the indentation counter never underflows, on any prefix of the new events, from any starting
    depth – also when the evaluation panics -/
theorem eval_trace_noUnderflow {env : Env} {n : Nat} {ctx : Ctx} {e : Expr} {s : St} {g g' : Global}
    {r : Res Parsed} (h : (eval env n).expr ctx e s g = some (r, g'))
    {l : List Ev} (hl : g'.log = l ++ g.log) :
    ∀ p, p <+: l.reverse → ∀ d, ∃ d', depthAfter p d = some d' ∧ d ≤ d' :=
  (((eval_log env n).expr ctx e s).tr h hl).noUnderflow

theorem eval_trace_noUnderflow_rule {env : Env} {n : Nat} {name : String} {s : St} {g g' : Global}
    {r : Res Val} (h : (eval env n).rule name s g = some (r, g'))
    {l : List Ev} (hl : g'.log = l ++ g.log) :
    ∀ p, p <+: l.reverse → ∀ d, ∃ d', depthAfter p d = some d' ∧ d ≤ d' :=
  (((eval_log env n).rule name s).tr h hl).noUnderflow

/-- C19, balance: the complete chronological log of a non-panicking `parseAdvanced` is balanced, and
    no prefix of it (panicking or not) underflows the indentation counter. -/
theorem C19_balanced {env : Env} {n : Nat} {rule : String} {inp : List UInt8} {u : Nat} {r : Res Val}
    {g' : Global} (h : parseAdvanced env n rule inp u = some (r, g')) :
    ((∀ m, r ≠ .panic m) → Balanced g'.log.reverse) ∧
    (∀ p, p <+: g'.log.reverse → ∀ d, depthAfter p d ≠ none) := by
  have hl : g'.log = g'.log ++ (Global.init u).log := by simp [Global.init]
  refine ⟨fun hp => eval_trace_balanced_rule h hp hl, fun p hp d => ?_⟩
  obtain ⟨d', hd, _⟩ := eval_trace_noUnderflow_rule h hl p hp d
  rw [hd]; exact fun h => by cases h

/-! ### the outermost bracket of a rule call (start event carries the called rule's name and offset,
    the result event is the one for the returned result) -/

/-- what `print_trace_result` records for a result (nothing on a panic) -/
def resultEv : Res Val → List Ev
  | .ok _ s => [.traceOk s.off]
  | .err e => [.traceErr e.spec]
  | .panic _ => []

theorem normalRule_bracket {env : Env} {rec : Rec} (hrec : RecInv rec) {n : Nat} {r : Rule} {s : St}
    {g g' : Global} {res : Res Val} (h : normalRule env rec n r s g = some (res, g')) :
    ∃ mid, g'.log = resultEv res ++ mid ++ .traceStart r.name s.off :: g.log ∧ Tr res.isPanic mid := by
  simp only [normalRule] at h
  split at h
  · cases h
  · rename_i res1 g1 hx
    obtain ⟨l1, ⟨hl1, _⟩, ht1⟩ := memoBody_log (ruleBody_log hrec r) _ _ _ _ _ _ _ hx
    cases h
    refine ⟨l1, ?_, ht1⟩
    cases res <;> simp [traceResult, resultEv, hl1]

/-- a call of a normal rule `name` at offset `s.off` logs `traceStart name s.off`, then well-nested
    events (`mid`), then the result event of exactly the returned result -/
theorem C19_rule_bracket {env : Env} {n : Nat} {name : String} {r0 : Rule} {s : St} {g g' : Global}
    {res : Res Val} (hf : env.g.find name = some (.rule r0))
    (h : (eval env n).rule name s g = some (res, g')) :
    ∃ mid, g'.log = resultEv res ++ mid ++ .traceStart name s.off :: g.log ∧
      ((∀ m, res ≠ .panic m) → Balanced mid.reverse) ∧
      (∀ p, p <+: mid.reverse → ∀ d, ∃ d', depthAfter p d = some d' ∧ d ≤ d') := by
  have hname : r0.name = name := by
    have := List.find?_some hf
    simpa [RuleEntry.name] using this
  cases n with
  | zero => simp [eval] at h
  | succ n =>
    have h' : normalRule env (eval env n) n r0 s g = some (res, g') := by
      simpa only [eval, step, stepRule, hf] using h
    obtain ⟨mid, hl, ht⟩ := normalRule_bracket (eval_log env n) h'
    refine ⟨mid, by rw [← hname]; exact hl, fun hp => ?_, ht.noUnderflow⟩
    rw [Res.isPanic_eq_false hp] at ht
    exact ht.balanced

/-! ### sanity checks of the definitions -/

example : Balanced [.traceStart "A" 0, .info "Cache hit", .traceStart "B" 0, .traceErr .other, .traceOk 1] := by
  intro d; simp [depthAfter, isStart, isResult]

example : depthAfter [.traceStart "A" 0, .traceOk 1, .traceOk 1] 0 = none := by
  simp [depthAfter, isStart, isResult]

example : ¬ Balanced [.traceStart "A" 0] := by
  intro h; have := h 0; simp [depthAfter, isStart] at this

end Peg
