import PegVerif.Proofs.SpecMono
import PegVerif.Proofs.Complete
/-
  The reference semantics as a big-step *relation* (Ford-style natural semantics), and its
  equivalence with the functional presentation `Spec.eval` (Spec.lean).

  `Sem env u j s r` reads: "in grammar `env.g` (user functions applied at user context `u`), the
  judgement `j`, started at cursor `s`, has outcome `r`".  An outcome is
    `.ok v s'`   match, value `v`, cursor afterwards `s'`,
    `.err _`     no match (the payload is always `Spec.noErr`: the reference semantics has none),
    `.panic m`   the generated code would not compile / would panic (kept because `Spec.eval` has
                 these branches; unreachable for grammars accepted by the generator:
                 Proofs/Plumbing.lean).
  No derivation = the PEG reading does not terminate (e.g. `A = A 'x'`).

  One constructor per branch of `Spec.stepExpr` / `Spec.stepRule` and their helpers.  There is no
  fuel, no cache, no tracer, no furthest-error bookkeeping.

  Main results (end of file):
    `Spec.eval_sound`, `Spec.eval_complete`  : `Sem` ⇔ `∃ fuel, Spec.eval … = some r`
    `Sem.det`                                : the relation is deterministic
    `Sem.err_noErr`                          : derived failures carry no payload
    `Sem.parts_left_to_right`, `Sem.alts_commit`, `Sem.alts_skip`, `Sem.opt_never_fails`,
    `Sem.neg_consumes_nothing`, `Sem.pos_consumes_nothing`, `Sem.loop_ends_where_body_fails`
                                             : the laws of the property sentence, as inversions
    `Sem.of_parseAdvanced`, `Sem.to_parseAdvanced` : the implementation model answers exactly what
                                                 the relation derives (no `@leftrec`, pure hooks).
-/
namespace Peg

/-! ### judgement forms -/

/-- the judgement forms.  The first two are the "real" ones, the others are the list / loop
    helpers of the constructs (`Spec.evalSeq`, `Spec.evalAlts`, `Spec.evalLoop`, …). -/
inductive Judg where
  /-- expression `e` inside a rule with generation context `ctx` (whitespace skipping on/off, the
      rule's declared fields) -/
  | expr (ctx : Ctx) (e : Expr)
  /-- a call of the rule (or builtin) called `name` -/
  | rule (name : String)
  /-- the remaining `parts` of a sequence; `seen` / `acc`: fields bound so far -/
  | parts (ctx : Ctx) (parts : List Expr) (seen : List String) (acc : Parsed)
  /-- the remaining alternatives of an ordered choice with result fields `fields` -/
  | alts (ctx : Ctx) (fields : List FieldDesc) (alts : List Expr)
  /-- the iterations of a closure over `body` after `iters` iterations that collected `acc` -/
  | loop (ctx : Ctx) (body : Expr) (fields : List FieldDesc) (iters : Nat) (acc : Parsed)
  /-- the optional whitespace skip in front of a terminal or a rule reference -/
  | ws (ctx : Ctx)
  /-- the remaining `@check` functions of a rule applied to its value `v` -/
  | checks (fs : List (List String)) (v : Val)
  /-- one alternative of a `@char` rule -/
  | charPart (p : CharRulePart)
  /-- the remaining alternatives of a `@char` rule -/
  | charParts (ps : List CharRulePart)

/-- the type of values a judgement form produces -/
@[reducible] def Judg.Out : Judg → Type
  | .expr .. => Parsed
  | .rule .. => Val
  | .parts .. => List String × Parsed
  | .alts .. => Parsed
  | .loop .. => Nat × Parsed
  | .ws .. => Unit
  | .checks .. => Val
  | .charPart .. => Val
  | .charParts .. => Val

/-! ### small vocabulary used by the rules -/

/-- "no match" -/
abbrev noMatch {α} : Res α := .err Spec.noErr

/-- how a failure or a panic of a sub-derivation becomes the outcome of the construct around it
    (for the constructs that just give up when a part gives up): a failure stays a failure, a
    panic stays that panic -/
inductive Abort {α β} : Res α → Res β → Prop
  | err (e : PErr) : Abort (.err e) noMatch
  | panic (m : String) : Abort (.panic m) (.panic m)

/-- last step of a construct: the generated field plumbing `x` builds the result at cursor `s`.
    (`.error` = the generator would have emitted ill-typed code; never happens for accepted
    grammars, see Proofs/Plumbing.lean) -/
def plumb {α} (x : Except String α) (s : St) : Res α :=
  match x with
  | .ok v => .ok v s
  | .error m => .panic ("codegen: " ++ m)

/-- what the runtime matcher selected for a literal does at `s` (a literal binds no field) -/
def litAt (m : LitMatcher) (s : St) : Res Parsed :=
  match m with
  | .charLit c => Spec.abs ((parseCharacterLiteral s c).map fun _ => [])
  | .strLit l => Spec.abs ((parseStringLiteral s l).map fun _ => [])
  | .charLitI c => Spec.abs ((parseCharacterLiteralInsensitive s c).map fun _ => [])
  | .strLitI l => Spec.abs ((parseStringLiteralInsensitive s l).map fun _ => [])

/-- the generation context of the body of rule `r` with declared fields `fields` -/
def ruleCtx (env : Env) (r : Rule) (fields : List FieldDesc) : Ctx :=
  { skipWs := env.settings.skipWhitespace && !r.flags.noSkipWs, ruleFields := fields }

/-- the three shapes of value a normal rule builds (and the one combination the generator
    rejects) -/
inductive RuleShape where
  /-- `@string`: the matched text -/
  | string
  /-- the only field is `@:…`: the rule's value is that field's value -/
  | override
  /-- a struct with the declared fields -/
  | struct
  /-- `@:` mixed with named fields: rejected -/
  | mixed
deriving DecidableEq, Repr

def ruleShape (r : Rule) (fields : List FieldDesc) : RuleShape :=
  if r.flags.string then .string
  else if fields.length == 1 && (fields.head?.map (·.name)) == some "_override" then .override
  else if hasField fields "_override" then .mixed
  else .struct

/-- the value of a `@string` rule that matched from `s` to `s'` -/
def stringVal (r : Rule) (s s' : St) : Val :=
  if r.flags.position then Val.node r.name [("string", Val.str (s.sliceUntil s'))] (some (s.off, s'.off))
  else Val.str (s.sliceUntil s')

/-- the value of a struct rule that matched from `s` to `s'` with field values `fs` -/
def structVal (r : Rule) (fs : Parsed) (s s' : St) : Val :=
  Val.node r.name fs (if r.flags.position then some (s.off, s'.off) else none)

/-! ### the relation -/

/-- Big-step semantics of grammars.  `Sem env u j s r`: judgement `j` from cursor `s` has
    outcome `r`. -/
inductive Sem (env : Env) (u : Nat) : (j : Judg) → St → Res j.Out → Prop

  /- ── ordered choice `a₁ | a₂ | …` -/

  /-- (a choice without alternatives is not produced by the front end; the generated code would
      index out of bounds) -/
  | choice_nil {ctx s} :
      Sem env u (.expr ctx (.choice [])) s (.panic "index out of bounds: choices[0]")
  /-- a choice with one alternative is that alternative -/
  | choice_one {ctx a s} {r : Res Parsed} :
      Sem env u (.expr ctx a) s r →
      Sem env u (.expr ctx (.choice [a])) s r
  /-- a choice with several alternatives tries them in order (`alts_*`); its result has the
      choice's own fields -/
  | choice {ctx a b rest s} {r : Res Parsed} :
      Sem env u (.alts ctx (filterRuleFields ctx.ruleFields (ownFields env (.choice (a :: b :: rest))))
        (a :: b :: rest)) s r →
      Sem env u (.expr ctx (.choice (a :: b :: rest))) s r
  /-- no alternative left: the choice fails -/
  | alts_nil {ctx fields s} :
      Sem env u (.alts ctx fields []) s noMatch
  /-- the first alternative matches: that is the result (converted to the choice's fields); the
      remaining alternatives are not consulted -/
  | alts_first {ctx fields a as s} {r : Parsed} {s' : St} :
      Sem env u (.expr ctx a) s (.ok r s') →
      Sem env u (.alts ctx fields (a :: as)) s (plumb (convertArm fields (ownFields env a) r) s')
  /-- the first alternative fails: the result is that of the remaining alternatives, tried from
      the SAME cursor -/
  | alts_next {ctx fields a as s e} {r : Res Parsed} :
      Sem env u (.expr ctx a) s (.err e) →
      Sem env u (.alts ctx fields as) s r →
      Sem env u (.alts ctx fields (a :: as)) s r
  /-- a panic is not a failure: no further alternative is tried -/
  | alts_panic {ctx fields a as s m} :
      Sem env u (.expr ctx a) s (.panic m) →
      Sem env u (.alts ctx fields (a :: as)) s (.panic m)

  /- ── sequence `p₁ p₂ …` -/

  /-- the empty sequence matches the empty string -/
  | seq_nil {ctx s} :
      Sem env u (.expr ctx (.seq [])) s (.ok [] s)
  /-- a sequence with one part is that part -/
  | seq_one {ctx p s} {r : Res Parsed} :
      Sem env u (.expr ctx p) s r →
      Sem env u (.expr ctx (.seq [p])) s r
  /-- a sequence matches when all its parts match one after the other (`parts_*`); its result are
      the collected fields -/
  | seq {ctx a b rest s seen acc s'} :
      Sem env u (.parts ctx (a :: b :: rest) [] []) s (.ok (seen, acc) s') →
      Sem env u (.expr ctx (.seq (a :: b :: rest))) s
        (plumb (project (filterRuleFields ctx.ruleFields (ownFields env (.seq (a :: b :: rest)))) acc) s')
  /-- … and fails when the parts fail -/
  | seq_abort {ctx a b rest s} {r : Res (List String × Parsed)} {r' : Res Parsed} :
      Sem env u (.parts ctx (a :: b :: rest) [] []) s r → Abort r r' →
      Sem env u (.expr ctx (.seq (a :: b :: rest))) s r'
  /-- no part left: done, at the cursor reached -/
  | parts_nil {ctx seen acc s} :
      Sem env u (.parts ctx [] seen acc) s (.ok (seen, acc) s)
  /-- the first part matches from `s` to `s₁`; the remaining parts continue from `s₁`
      (left to right) -/
  | parts_cons {ctx p ps seen acc s r s₁ seen' acc'} {out : Res (List String × Parsed)} :
      Sem env u (.expr ctx p) s (.ok r s₁) →
      mergePart (filterRuleFields ctx.ruleFields (ownFields env p)) seen acc r = .ok (seen', acc') →
      Sem env u (.parts ctx ps seen' acc') s₁ out →
      Sem env u (.parts ctx (p :: ps) seen acc) s out
  /-- the first part fails: the sequence fails, the remaining parts are not tried -/
  | parts_abort {ctx p ps seen acc s} {r : Res Parsed} {r' : Res (List String × Parsed)} :
      Sem env u (.expr ctx p) s r → Abort r r' →
      Sem env u (.parts ctx (p :: ps) seen acc) s r'
  /-- (field plumbing of the part ill-typed) -/
  | parts_bad {ctx p ps seen acc s r s₁ m} :
      Sem env u (.expr ctx p) s (.ok r s₁) →
      mergePart (filterRuleFields ctx.ruleFields (ownFields env p)) seen acc r = .error m →
      Sem env u (.parts ctx (p :: ps) seen acc) s (.panic ("codegen: " ++ m))

  /- ── group `( e )` -/

  /-- a group is its body -/
  | group {ctx b s} {r : Res Parsed} :
      Sem env u (.expr ctx b) s r →
      Sem env u (.expr ctx (.group b)) s r

  /- ── optional `[ e ]`: never fails -/

  /-- the body matches: so does the optional, with the same result -/
  | opt_some {ctx b s r s'} :
      Sem env u (.expr ctx b) s (.ok r s') →
      Sem env u (.expr ctx (.opt b)) s (.ok r s')
  /-- the body fails: the optional matches the empty string (cursor unchanged, fields default) -/
  | opt_none {ctx b s e} :
      Sem env u (.expr ctx b) s (.err e) →
      Sem env u (.expr ctx (.opt b)) s (plumb (defaults (filterRuleFields ctx.ruleFields (ownFields env b))) s)
  /-- (a panic of the body is a panic of the optional: only failures are absorbed) -/
  | opt_panic {ctx b s m} :
      Sem env u (.expr ctx b) s (.panic m) →
      Sem env u (.expr ctx (.opt b)) s (.panic m)

  /- ── closures `{ e }` and `{ e }+`: greedy, never give anything back -/

  /-- `{ e }` / `{ e }+`: iterate the body as long as it matches (`loop_*`); the result is what
      the iterations collected, the cursor is where the last successful iteration ended -/
  | closure {ctx b plus s init iters acc s'} :
      closureInit (filterRuleFields ctx.ruleFields (ownFields env b)) = .ok init →
      Sem env u (.loop ctx b (filterRuleFields ctx.ruleFields (ownFields env b)) 0 init) s (.ok (iters, acc) s') →
      (plus && iters == 0) = false →
      Sem env u (.expr ctx (.closure b plus)) s (.ok acc s')
  /-- `{ e }+` fails when there was no iteration -/
  | closure_none {ctx b plus s init iters acc s'} :
      closureInit (filterRuleFields ctx.ruleFields (ownFields env b)) = .ok init →
      Sem env u (.loop ctx b (filterRuleFields ctx.ruleFields (ownFields env b)) 0 init) s (.ok (iters, acc) s') →
      (plus && iters == 0) = true →
      Sem env u (.expr ctx (.closure b plus)) s noMatch
  /-- (a panic during the iteration is a panic of the closure; the iteration itself never fails) -/
  | closure_abort {ctx b plus s init} {r : Res (Nat × Parsed)} {r' : Res Parsed} :
      closureInit (filterRuleFields ctx.ruleFields (ownFields env b)) = .ok init →
      Sem env u (.loop ctx b (filterRuleFields ctx.ruleFields (ownFields env b)) 0 init) s r → Abort r r' →
      Sem env u (.expr ctx (.closure b plus)) s r'
  /-- (a field of the body not declared as a list) -/
  | closure_bad {ctx b plus s m} :
      closureInit (filterRuleFields ctx.ruleFields (ownFields env b)) = .error m →
      Sem env u (.expr ctx (.closure b plus)) s (.panic ("codegen: " ++ m))
  /-- the body fails at `s`: the iteration stops there and keeps everything matched so far.  This
      is the only way a closure ends: it never gives characters back -/
  | loop_stop {ctx b fields iters acc s e} :
      Sem env u (.expr ctx b) s (.err e) →
      Sem env u (.loop ctx b fields iters acc) s (.ok (iters, acc) s)
  /-- the body matches from `s` to `s₁`: the iteration must continue from `s₁` (greedy) -/
  | loop_step {ctx b fields iters acc s r s₁ acc'} {out : Res (Nat × Parsed)} :
      Sem env u (.expr ctx b) s (.ok r s₁) →
      extendAll fields acc r = .ok acc' →
      Sem env u (.loop ctx b fields (iters + 1) acc') s₁ out →
      Sem env u (.loop ctx b fields iters acc) s out
  /-- (a panic of the body ends the iteration with that panic) -/
  | loop_panic {ctx b fields iters acc s m} :
      Sem env u (.expr ctx b) s (.panic m) →
      Sem env u (.loop ctx b fields iters acc) s (.panic m)
  /-- (field plumbing of the body ill-typed) -/
  | loop_bad {ctx b fields iters acc s r s₁ m} :
      Sem env u (.expr ctx b) s (.ok r s₁) →
      extendAll fields acc r = .error m →
      Sem env u (.loop ctx b fields iters acc) s (.panic ("codegen: " ++ m))

  /- ── lookaheads `!e`, `&e`: consume nothing, produce nothing -/

  /-- `!e` matches (the empty string, at the cursor it started from) when `e` fails -/
  | neg_ok {ctx b s e} :
      Sem env u (.expr ctx b) s (.err e) →
      Sem env u (.expr ctx (.neg b)) s (.ok [] s)
  /-- `!e` fails when `e` matches -/
  | neg_fail {ctx b s r s'} :
      Sem env u (.expr ctx b) s (.ok r s') →
      Sem env u (.expr ctx (.neg b)) s noMatch
  /-- (a panic is neither a match nor a failure) -/
  | neg_panic {ctx b s m} :
      Sem env u (.expr ctx b) s (.panic m) →
      Sem env u (.expr ctx (.neg b)) s (.panic m)
  /-- `&e` matches (the empty string, at the cursor it started from) when `e` matches -/
  | pos_ok {ctx b s r s'} :
      Sem env u (.expr ctx b) s (.ok r s') →
      Sem env u (.expr ctx (.pos b)) s (.ok [] s)
  /-- `&e` fails when `e` fails -/
  | pos_abort {ctx b s} {r r' : Res Parsed} :
      Sem env u (.expr ctx b) s r → Abort r r' →
      Sem env u (.expr ctx (.pos b)) s r'

  /- ── whitespace skipping in front of terminals and rule references -/

  /-- the rule does not skip whitespace (`@no_skip_ws` or global setting): nothing happens -/
  | ws_off {ctx s} :
      ctx.skipWs = false →
      Sem env u (.ws ctx) s (.ok () s)
  /-- otherwise the rule `Whitespace` (builtin unless the grammar defines it) is called -/
  | ws_on {ctx s v s₁} :
      ctx.skipWs = true →
      Sem env u (.rule "Whitespace") s (.ok v s₁) →
      Sem env u (.ws ctx) s (.ok () s₁)
  /-- (the builtin never fails; a user-defined `Whitespace` rule may) -/
  | ws_abort {ctx s} {r : Res Val} {r' : Res Unit} :
      ctx.skipWs = true →
      Sem env u (.rule "Whitespace") s r → Abort r r' →
      Sem env u (.ws ctx) s r'

  /- ── terminals: the runtime matchers (builtin_parsers.rs), after the whitespace skip; characterised
      on characters in `Props/C01.lean` (`C01_char_literal`, …) -/

  /-- character range `'a'..'z'` -/
  | range {ctx lo hi s l h s₁} :
      lo.toChar = .ok l → hi.toChar = .ok h →
      Sem env u (.ws ctx) s (.ok () s₁) →
      Sem env u (.expr ctx (.range lo hi)) s (Spec.abs ((parseCharacterRange s₁ l h).map fun _ => []))
  /-- (the whitespace skip fails – only possible with a user-defined `Whitespace` rule – or panics) -/
  | range_abort {ctx lo hi s l h} {r : Res Unit} {r' : Res Parsed} :
      lo.toChar = .ok l → hi.toChar = .ok h →
      Sem env u (.ws ctx) s r → Abort r r' →
      Sem env u (.expr ctx (.range lo hi)) s r'
  /-- (a bound that is not a character: rejected by the generator) -/
  | range_bad {ctx lo hi s} :
      (∀ l h, lo.toChar = .ok l → hi.toChar = .ok h → False) →
      Sem env u (.expr ctx (.range lo hi)) s (.panic "uncompilable: range bound")
  /-- string / character literal, case sensitive or not (`litAt`) -/
  | lit {ctx ins body s m s₁} :
      compileLit ins body = .ok m →
      Sem env u (.ws ctx) s (.ok () s₁) →
      Sem env u (.expr ctx (.lit ins body)) s (litAt m s₁)
  /-- (the whitespace skip fails or panics) -/
  | lit_abort {ctx ins body s m} {r : Res Unit} {r' : Res Parsed} :
      compileLit ins body = .ok m →
      Sem env u (.ws ctx) s r → Abort r r' →
      Sem env u (.expr ctx (.lit ins body)) s r'
  /-- (a literal the generator rejects: bad escape, non-ASCII case-insensitive literal) -/
  | lit_bad {ctx ins body s} :
      (∀ m, compileLit ins body = .ok m → False) →
      Sem env u (.expr ctx (.lit ins body)) s (.panic "uncompilable: literal")
  /-- end of input `$` -/
  | eoi {ctx s s₁} :
      Sem env u (.ws ctx) s (.ok () s₁) →
      Sem env u (.expr ctx .eoi) s (Spec.abs ((parseEndOfInput s₁).map fun _ => []))
  /-- (the whitespace skip fails or panics) -/
  | eoi_abort {ctx s} {r : Res Unit} {r' : Res Parsed} :
      Sem env u (.ws ctx) s r → Abort r r' →
      Sem env u (.expr ctx .eoi) s r'

  /- ── rule references -/

  /-- `>Rule`: the body of the (normal) rule `Rule`, spliced in -/
  | incl {ctx name rule s} {r : Res Parsed} :
      env.g.findRule name = some rule →
      Sem env u (.expr ctx rule.definition) s r →
      Sem env u (.expr ctx (.incl name)) s r
  /-- (include of a rule that does not exist, or is not a normal rule: rejected by the generator) -/
  | incl_missing {ctx name s} :
      env.g.findRule name = none →
      Sem env u (.expr ctx (.incl name)) s (.panic "uncompilable: include of a missing rule")
  /-- `Rule` (no field name): skip whitespace, call the rule, drop its value -/
  | field_anon {ctx boxed typ s s₁ v s'} :
      Sem env u (.ws ctx) s (.ok () s₁) →
      Sem env u (.rule typ) s₁ (.ok v s') →
      Sem env u (.expr ctx (.field none boxed typ)) s (.ok [] s')
  /-- `name:Rule`, `name:*Rule`, `@:Rule`: skip whitespace, call the rule, bind its value (boxed /
      wrapped in the enum variant / `Some` / one-element list as the declared field says) -/
  | field_named {ctx nm boxed typ s s₁ v s'} :
      Sem env u (.ws ctx) s (.ok () s₁) →
      Sem env u (.rule typ) s₁ (.ok v s') →
      Sem env u (.expr ctx (.field (some nm) boxed typ)) s
        ((plumb (postprocessField ctx.ruleFields nm.key typ v) s').map fun fv => [(nm.key, fv)])
  /-- the called rule fails: so does the reference -/
  | field_abort {ctx name boxed typ s s₁} {r : Res Val} {r' : Res Parsed} :
      Sem env u (.ws ctx) s (.ok () s₁) →
      Sem env u (.rule typ) s₁ r → Abort r r' →
      Sem env u (.expr ctx (.field name boxed typ)) s r'
  /-- (the whitespace skip fails or panics) -/
  | field_ws_abort {ctx name boxed typ s} {r : Res Unit} {r' : Res Parsed} :
      Sem env u (.ws ctx) s r → Abort r r' →
      Sem env u (.expr ctx (.field name boxed typ)) s r'

  /- ── rules.  `@memoize` and `@leftrec` do not change what a rule matches: a rule is its body -/

  /-- `@string` rule: the body matches from `s` to `s'`; the value is the matched text; then the
      `@check`s -/
  | rule_string {name r fields s p s'} {out : Res Val} :
      env.g.find name = some (.rule r) →
      getFields env.g env.nf r.definition = .ok fields →
      ruleShape r fields = .string →
      Sem env u (.expr (ruleCtx env r fields) r.definition) s (.ok p s') →
      Sem env u (.checks r.checks (stringVal r s s')) s' out →
      Sem env u (.rule name) s out
  /-- rule whose only field is `@:`: the value is the value bound to `@:`; then the `@check`s -/
  | rule_override {name r fields s p s' v} {out : Res Val} :
      env.g.find name = some (.rule r) →
      getFields env.g env.nf r.definition = .ok fields →
      ruleShape r fields = .override →
      Sem env u (.expr (ruleCtx env r fields) r.definition) s (.ok p s') →
      p.get "_override" = some v →
      Sem env u (.checks r.checks v) s' out →
      Sem env u (.rule name) s out
  /-- any other rule: the value is a node labelled with the rule's name holding the declared
      fields (and the matched span under `@position`); then the `@check`s -/
  | rule_struct {name r fields s p s' fs} {out : Res Val} :
      env.g.find name = some (.rule r) →
      getFields env.g env.nf r.definition = .ok fields →
      ruleShape r fields = .struct →
      Sem env u (.expr (ruleCtx env r fields) r.definition) s (.ok p s') →
      project fields p = .ok fs →
      Sem env u (.checks r.checks (structVal r fs s s')) s' out →
      Sem env u (.rule name) s out
  /-- the body fails: the rule fails -/
  | rule_abort {name r fields s} {res : Res Parsed} {out : Res Val} :
      env.g.find name = some (.rule r) →
      getFields env.g env.nf r.definition = .ok fields →
      ruleShape r fields ≠ .mixed →
      Sem env u (.expr (ruleCtx env r fields) r.definition) s res → Abort res out →
      Sem env u (.rule name) s out
  /-- (the body produced no value for `@:`: ill-typed generated code) -/
  | rule_override_bad {name r fields s p s'} :
      env.g.find name = some (.rule r) →
      getFields env.g env.nf r.definition = .ok fields →
      ruleShape r fields = .override →
      Sem env u (.expr (ruleCtx env r fields) r.definition) s (.ok p s') →
      p.get "_override" = none →
      Sem env u (.rule name) s (.panic "codegen: override value missing")
  /-- (the body did not bind a declared field: ill-typed generated code) -/
  | rule_struct_bad {name r fields s p s' m} :
      env.g.find name = some (.rule r) →
      getFields env.g env.nf r.definition = .ok fields →
      ruleShape r fields = .struct →
      Sem env u (.expr (ruleCtx env r fields) r.definition) s (.ok p s') →
      project fields p = .error m →
      Sem env u (.rule name) s (.panic ("codegen: " ++ m))
  /-- (`@:` mixed with named fields: rejected by the generator) -/
  | rule_mixed {name r fields s} :
      env.g.find name = some (.rule r) →
      getFields env.g env.nf r.definition = .ok fields →
      ruleShape r fields = .mixed →
      Sem env u (.rule name) s (.panic "uncompilable: Mixing simple and override fields is not allowed.")
  /-- (the field analysis of the rule fails: rejected by the generator) -/
  | rule_fields_bad {name r s} :
      env.g.find name = some (.rule r) →
      (∀ fields, getFields env.g env.nf r.definition = .ok fields → False) →
      Sem env u (.rule name) s (.panic "uncompilable: get_fields failed")
  /-- no `@check` left: the rule matches with value `v` -/
  | checks_nil {v s} :
      Sem env u (.checks [] v) s (.ok v s)
  /-- a `@check` function rejects the value: the rule fails -/
  | checks_reject {f fs v s} :
      (env.hooks.check ("::".intercalate f) v u).1 = false →
      Sem env u (.checks (f :: fs) v) s noMatch
  /-- it accepts: on to the next one -/
  | checks_accept {f fs v s} {out : Res Val} :
      (env.hooks.check ("::".intercalate f) v u).1 = true →
      Sem env u (.checks fs v) s out →
      Sem env u (.checks (f :: fs) v) s out

  /- ── `@char` rules: an ordered choice of characters, ranges and other `@char` rules -/

  /-- `@char` rule without `@check`: its alternatives in order -/
  | char_rule {name r s} {out : Res Val} :
      env.g.find name = some (.charRule r) →
      r.directives.isEmpty = true →
      Sem env u (.charParts r.choices) s out →
      Sem env u (.rule name) s out
  /-- `@char` rule with `@check`s: the next character must pass all of them first -/
  | char_rule_checked {name r s c} {out : Res Val} :
      env.g.find name = some (.charRule r) →
      r.directives.isEmpty = false →
      decodeHead s.rest = some c → Spec.charChecksOk env r.directives c = true →
      Sem env u (.charParts r.choices) s out →
      Sem env u (.rule name) s out
  /-- a `@check` rejects the next character: the rule fails -/
  | char_rule_rejected {name r s c} :
      env.g.find name = some (.charRule r) →
      r.directives.isEmpty = false →
      decodeHead s.rest = some c → Spec.charChecksOk env r.directives c = false →
      Sem env u (.rule name) s noMatch
  /-- there is no next character to check: the rule fails -/
  | char_rule_eoi {name r s} :
      env.g.find name = some (.charRule r) →
      r.directives.isEmpty = false →
      decodeHead s.rest = none →
      Sem env u (.rule name) s noMatch
  /-- a character -/
  | part_chr {item c s} :
      item.toChar = .ok c →
      Sem env u (.charPart (.chr item)) s (Spec.abs ((parseCharacterLiteral s c).map .chr))
  /-- (an escape that is not a character: rejected by the generator) -/
  | part_chr_bad {item s} :
      (∀ c, item.toChar = .ok c → False) →
      Sem env u (.charPart (.chr item)) s (.panic "uncompilable: char rule literal")
  /-- a character range -/
  | part_range {lo hi l h s} :
      lo.toChar = .ok l → hi.toChar = .ok h →
      Sem env u (.charPart (.range lo hi)) s (Spec.abs ((parseCharacterRange s l h).map .chr))
  /-- (a bound that is not a character: rejected by the generator) -/
  | part_range_bad {lo hi s} :
      (∀ l h, lo.toChar = .ok l → hi.toChar = .ok h → False) →
      Sem env u (.charPart (.range lo hi)) s (.panic "uncompilable: char rule range")
  /-- another (`@char`) rule -/
  | part_ident {id s} {r : Res Val} :
      Sem env u (.rule id) s r →
      Sem env u (.charPart (.ident id)) s r
  /-- no alternative left: fails -/
  | chars_nil {s} :
      Sem env u (.charParts []) s noMatch
  /-- the first alternative matches: that is the result -/
  | chars_first {p ps s v s'} :
      Sem env u (.charPart p) s (.ok v s') →
      Sem env u (.charParts (p :: ps)) s (.ok v s')
  /-- the first alternative fails: the remaining ones, from the same cursor -/
  | chars_next {p ps s e} {out : Res Val} :
      Sem env u (.charPart p) s (.err e) →
      Sem env u (.charParts ps) s out →
      Sem env u (.charParts (p :: ps)) s out
  /-- (a panic is not a failure: no further alternative is tried) -/
  | chars_panic {p ps s m} :
      Sem env u (.charPart p) s (.panic m) →
      Sem env u (.charParts (p :: ps)) s (.panic m)

  /- ── `@extern` rules and builtins -/

  /-- `@extern` rule: the user function returns a value and the number of bytes it consumed -/
  | extern_ok {name r s v adv} :
      env.g.find name = some (.externRule r) →
      (env.hooks.extern ("::".intercalate r.function) s.rest u).1 = .ok (v, adv) →
      Sem env u (.rule name) s (Spec.abs (s.advanceSafe adv v))
  /-- … or an error message: the rule fails -/
  | extern_fail {name r s msg} :
      env.g.find name = some (.externRule r) →
      (env.hooks.extern ("::".intercalate r.function) s.rest u).1 = .error msg →
      Sem env u (.rule name) s noMatch
  /-- builtin `char`: any one character (unless the grammar defines `char`) -/
  | builtin_char {s} :
      env.g.find "char" = none →
      Sem env u (.rule "char") s (Spec.abs ((parseChar s).map .chr))
  /-- builtin `Whitespace`: the longest run of ASCII whitespace; never fails (unless the grammar
      defines `Whitespace`) -/
  | builtin_ws {s} :
      env.g.find "Whitespace" = none →
      Sem env u (.rule "Whitespace") s (Spec.abs ((parseWhitespace s).map fun _ => .unit))
  /-- (reference to a rule that is neither defined nor builtin: the generated code does not compile) -/
  | rule_undefined {name s} :
      env.g.find name = none → name ≠ "char" → name ≠ "Whitespace" →
      Sem env u (.rule name) s (.panic ("uncompilable: undefined rule " ++ name))


/-! ## Equivalence with the functional presentation `Spec.eval` -/

namespace Spec

/-- one alternative of a `@char` rule, as inlined in `Spec.charParts` -/
def charPart (rec : SRec) (p : CharRulePart) (s : St) : SOut Val :=
  match p with
  | .chr item => (match item.toChar with
    | .ok c => some (abs ((parseCharacterLiteral s c).map .chr))
    | _ => some (.panic "uncompilable: char rule literal"))
  | .range lo hi => (match lo.toChar, hi.toChar with
    | .ok lo, .ok hi => some (abs ((parseCharacterRange s lo hi).map .chr))
    | _, _ => some (.panic "uncompilable: char rule range"))
  | .ident id => rec.rule id s

theorem charParts_cons (rec : SRec) (p : CharRulePart) (ps : List CharRulePart) (s : St) :
    charParts rec (p :: ps) s =
      match charPart rec p s with
      | none => none
      | some (.ok v s') => some (.ok v s')
      | some (.err _) => charParts rec ps s
      | some (.panic m) => some (.panic m) := by
  cases p <;> rfl

end Spec

/-- the functional reading of a judgement at fuel `n` -/
def Holds (env : Env) (u : Nat) (n : Nat) : (j : Judg) → St → Res j.Out → Prop
  | .expr ctx e, s, r => (Spec.eval env u n).expr ctx e s = some r
  | .rule name, s, r => (Spec.eval env u n).rule name s = some r
  | .parts ctx ps seen acc, s, r => Spec.evalSeq env (Spec.eval env u n) ctx ps seen acc s = some r
  | .alts ctx fields as, s, r => Spec.evalAlts env (Spec.eval env u n) ctx fields as s = some r
  | .loop ctx b fields iters acc, s, r =>
      Spec.evalLoop ((Spec.eval env u n).expr ctx b) fields n iters acc s = some r
  | .ws ctx, s, r => Spec.withSkipWs (Spec.eval env u n) ctx s (fun s' => some (.ok () s')) = some r
  | .checks fs v, s, r => Spec.runChecks env u fs v s = some r
  | .charPart p, s, r => Spec.charPart (Spec.eval env u n) p s = some r
  | .charParts ps, s, r => Spec.charParts (Spec.eval env u n) ps s = some r

/-! ### soundness: every answer of `Spec.eval` is derivable -/

namespace Rel
section Sound
variable {env : Env} {u : Nat}

theorem bindS_inv {α β} {x : Spec.SOut α} {k : α → St → Spec.SOut β} {r : Res β}
    (h : Spec.bindS x k = some r) :
    ∃ a, x = some a ∧ ((∃ v s', a = .ok v s' ∧ k v s' = some r) ∨ Abort a r) := by
  cases x with
  | none => simp [Spec.bindS] at h
  | some a =>
    refine ⟨a, rfl, ?_⟩
    cases a with
    | ok v s' => left; exact ⟨v, s', rfl, h⟩
    | err e => right; simp only [Spec.bindS, Option.some.injEq] at h; subst h; exact .err e
    | panic m => right; simp only [Spec.bindS, Option.some.injEq] at h; subst h; exact .panic m

/-- the recursive calls of one unfolding are derivable -/
structure RecOk (env : Env) (u : Nat) (rec : Spec.SRec) : Prop where
  expr : ∀ ctx e s r, rec.expr ctx e s = some r → Sem env u (.expr ctx e) s r
  rule : ∀ name s r, rec.rule name s = some r → Sem env u (.rule name) s r

theorem withSkipWs_sound {rec : Spec.SRec} (hok : RecOk env u rec) {α} {ctx s} {k : St → Spec.SOut α} {r}
    (h : Spec.withSkipWs rec ctx s k = some r) :
    (∃ s₁, Sem env u (.ws ctx) s (.ok () s₁) ∧ k s₁ = some r) ∨
    (∃ r₀ : Res Unit, Sem env u (.ws ctx) s r₀ ∧ Abort r₀ r) := by
  unfold Spec.withSkipWs at h
  split at h
  · rename_i hs
    obtain ⟨a, ha, h⟩ := bindS_inv h
    have hsem := hok.rule _ _ _ ha
    rcases h with ⟨v, s', rfl, hk⟩ | hab
    · left; exact ⟨s', .ws_on hs hsem, hk⟩
    · right
      cases hab with
      | err e => exact ⟨noMatch, .ws_abort hs hsem (.err e), .err _⟩
      | panic m => exact ⟨.panic m, .ws_abort hs hsem (.panic m), .panic m⟩
  · rename_i hs
    left
    exact ⟨s, .ws_off (by simpa using hs), h⟩

theorem evalSeq_sound {rec : Spec.SRec} (hok : RecOk env u rec) {ctx} :
    ∀ ps seen acc s r, Spec.evalSeq env rec ctx ps seen acc s = some r →
      Sem env u (.parts ctx ps seen acc) s r := by
  intro ps
  induction ps with
  | nil =>
    intro seen acc s r h
    simp only [Spec.evalSeq, Option.some.injEq] at h
    subst h; exact .parts_nil
  | cons p ps ih =>
    intro seen acc s r h
    simp only [Spec.evalSeq] at h
    obtain ⟨a, ha, h⟩ := bindS_inv h
    have hp := hok.expr _ _ _ _ ha
    rcases h with ⟨v, s', rfl, hk⟩ | hab
    · split at hk
      · rename_i m hm
        simp only [Option.some.injEq] at hk; subst hk
        exact .parts_bad hp hm
      · rename_i seen' acc' hm
        exact .parts_cons hp hm (ih _ _ _ _ hk)
    · exact .parts_abort hp hab

theorem evalAlts_sound {rec : Spec.SRec} (hok : RecOk env u rec) {ctx fields} :
    ∀ as s r, Spec.evalAlts env rec ctx fields as s = some r →
      Sem env u (.alts ctx fields as) s r := by
  intro as
  induction as with
  | nil =>
    intro s r h
    simp only [Spec.evalAlts, Option.some.injEq] at h
    subst h; exact .alts_nil
  | cons a as ih =>
    intro s r h
    simp only [Spec.evalAlts] at h
    split at h
    · cases h
    · rename_i r0 s0 hx
      have hp := hok.expr _ _ _ _ hx
      have := Sem.alts_first (fields := fields) (as := as) hp
      unfold plumb at this
      split at h <;> rename_i hc <;> simp only [Option.some.injEq] at h <;> subst h <;>
        simpa only [hc] using this
    · rename_i e0 hx
      exact .alts_next (hok.expr _ _ _ _ hx) (ih _ _ h)
    · rename_i m0 hx
      simp only [Option.some.injEq] at h; subst h
      exact .alts_panic (hok.expr _ _ _ _ hx)

theorem evalLoop_sound {rec : Spec.SRec} (hok : RecOk env u rec) {ctx b fields} :
    ∀ k iters acc s r, Spec.evalLoop (rec.expr ctx b) fields k iters acc s = some r →
      Sem env u (.loop ctx b fields iters acc) s r := by
  intro k
  induction k with
  | zero => intro iters acc s r h; simp [Spec.evalLoop] at h
  | succ k ih =>
    intro iters acc s r h
    simp only [Spec.evalLoop] at h
    split at h
    · cases h
    · rename_i r0 s0 hx
      have hp := hok.expr _ _ _ _ hx
      split at h
      · rename_i acc' he
        exact .loop_step hp he (ih _ _ _ _ h)
      · rename_i m he
        simp only [Option.some.injEq] at h; subst h
        exact .loop_bad hp he
    · rename_i e0 hx
      simp only [Option.some.injEq] at h; subst h
      exact .loop_stop (hok.expr _ _ _ _ hx)
    · rename_i m0 hx
      simp only [Option.some.injEq] at h; subst h
      exact .loop_panic (hok.expr _ _ _ _ hx)


theorem stepExpr_sound {rec : Spec.SRec} (hok : RecOk env u rec) (n : Nat) {ctx e s r}
    (h : Spec.stepExpr env rec n ctx e s = some r) : Sem env u (.expr ctx e) s r := by
  cases e with
  | choice alts =>
    match alts with
    | [] => simp only [Spec.stepExpr, Option.some.injEq] at h; subst h; exact .choice_nil
    | [a] => simp only [Spec.stepExpr] at h; exact .choice_one (hok.expr _ _ _ _ h)
    | a :: b :: rest => simp only [Spec.stepExpr] at h; exact .choice (evalAlts_sound hok _ _ _ h)
  | seq parts =>
    match parts with
    | [] => simp only [Spec.stepExpr, Option.some.injEq] at h; subst h; exact .seq_nil
    | [a] => simp only [Spec.stepExpr] at h; exact .seq_one (hok.expr _ _ _ _ h)
    | a :: b :: rest =>
      simp only [Spec.stepExpr] at h
      obtain ⟨x, hx, h⟩ := bindS_inv h
      have hp := evalSeq_sound hok _ _ _ _ _ hx
      rcases h with ⟨⟨seen, acc⟩, s', rfl, hk⟩ | hab
      · have := Sem.seq hp
        unfold plumb at this
        split at hk <;> rename_i hc <;> simp only [Option.some.injEq] at hk <;> subst hk <;>
          simpa only [hc] using this
      · exact .seq_abort hp hab
  | group b => simp only [Spec.stepExpr] at h; exact .group (hok.expr _ _ _ _ h)
  | opt b =>
    simp only [Spec.stepExpr] at h
    split at h
    · cases h
    · rename_i r0 s0 hx
      simp only [Option.some.injEq] at h; subst h
      exact .opt_some (hok.expr _ _ _ _ hx)
    · rename_i e0 hx
      have := Sem.opt_none (hok.expr _ _ _ _ hx)
      unfold plumb at this
      split at h <;> rename_i hc <;> simp only [Option.some.injEq] at h <;> subst h <;>
        simpa only [hc] using this
    · rename_i m0 hx
      simp only [Option.some.injEq] at h; subst h
      exact .opt_panic (hok.expr _ _ _ _ hx)
  | closure b plus =>
    simp only [Spec.stepExpr] at h
    split at h
    · rename_i m hinit
      simp only [Option.some.injEq] at h; subst h
      exact .closure_bad hinit
    · rename_i init hinit
      obtain ⟨x, hx, h⟩ := bindS_inv h
      have hp := evalLoop_sound hok _ _ _ _ _ hx
      rcases h with ⟨⟨iters, acc⟩, s', rfl, hk⟩ | hab
      · simp only at hk
        split at hk
        · rename_i hc
          simp only [Option.some.injEq] at hk; subst hk
          exact .closure_none hinit hp hc
        · rename_i hc
          simp only [Option.some.injEq] at hk; subst hk
          exact .closure hinit hp (by simpa using hc)
      · exact .closure_abort hinit hp hab
  | neg b =>
    simp only [Spec.stepExpr] at h
    split at h
    · cases h
    · rename_i r0 s0 hx
      simp only [Option.some.injEq] at h; subst h
      exact .neg_fail (hok.expr _ _ _ _ hx)
    · rename_i e0 hx
      simp only [Option.some.injEq] at h; subst h
      exact .neg_ok (hok.expr _ _ _ _ hx)
    · rename_i m0 hx
      simp only [Option.some.injEq] at h; subst h
      exact .neg_panic (hok.expr _ _ _ _ hx)
  | pos b =>
    simp only [Spec.stepExpr] at h
    obtain ⟨x, hx, h⟩ := bindS_inv h
    have hp := hok.expr _ _ _ _ hx
    rcases h with ⟨v, s', rfl, hk⟩ | hab
    · simp only [Option.some.injEq] at hk; subst hk
      exact .pos_ok hp
    · exact .pos_abort hp hab
  | range lo hi =>
    simp only [Spec.stepExpr] at h
    split at h
    · rename_i l h' hl hh
      rcases withSkipWs_sound hok h with ⟨s₁, hws, hk⟩ | ⟨r₀, hws, hab⟩
      · simp only [Option.some.injEq] at hk; subst hk
        exact .range hl hh hws
      · exact .range_abort hl hh hws hab
    · rename_i hbad
      simp only [Option.some.injEq] at h; subst h
      exact .range_bad hbad
  | lit ins body =>
    simp only [Spec.stepExpr] at h
    split at h
    · rename_i m hm
      rcases withSkipWs_sound hok h with ⟨s₁, hws, hk⟩ | ⟨r₀, hws, hab⟩
      · have := Sem.lit (ins := ins) (body := body) hm hws
        unfold litAt at this
        split at hk <;> simp only [Option.some.injEq] at hk <;> subst hk <;> exact this
      · exact .lit_abort hm hws hab
    · rename_i hbad
      simp only [Option.some.injEq] at h; subst h
      exact .lit_bad (fun m hm => hbad m hm)
  | eoi =>
    simp only [Spec.stepExpr] at h
    rcases withSkipWs_sound hok h with ⟨s₁, hws, hk⟩ | ⟨r₀, hws, hab⟩
    · simp only [Option.some.injEq] at hk; subst hk
      exact .eoi hws
    · exact .eoi_abort hws hab
  | incl name =>
    simp only [Spec.stepExpr] at h
    split at h
    · rename_i hf
      simp only [Option.some.injEq] at h; subst h
      exact .incl_missing hf
    · rename_i rule hf
      exact .incl hf (hok.expr _ _ _ _ h)
  | field name boxed typ =>
    simp only [Spec.stepExpr] at h
    rcases withSkipWs_sound hok h with ⟨s₁, hws, hk⟩ | ⟨r₀, hws, hab⟩
    · obtain ⟨x, hx, hk⟩ := bindS_inv hk
      have hp := hok.rule _ _ _ hx
      rcases hk with ⟨v, s', rfl, hk⟩ | hab
      · cases name with
        | none =>
          simp only [Option.some.injEq] at hk; subst hk
          exact .field_anon hws hp
        | some nm =>
          have := Sem.field_named (nm := nm) (boxed := boxed) hws hp
          unfold plumb at this
          simp only at hk
          split at hk <;> rename_i hc <;> simp only [Option.some.injEq] at hk <;> subst hk <;>
            simpa only [hc, Res.map] using this
      · exact .field_abort hws hp hab
    · exact .field_ws_abort hws hab

theorem runChecks_sound : ∀ fs v s r, Spec.runChecks env u fs v s = some r →
    Sem env u (.checks fs v) s r := by
  intro fs
  induction fs with
  | nil =>
    intro v s r h
    simp only [Spec.runChecks, Option.some.injEq] at h
    subst h; exact .checks_nil
  | cons f fs ih =>
    intro v s r h
    simp only [Spec.runChecks] at h
    split at h
    · rename_i hc
      simp only [Option.some.injEq] at h; subst h
      exact .checks_reject (by simpa using hc)
    · rename_i hc
      exact .checks_accept (by simpa using hc) (ih _ _ _ h)

theorem charPart_sound {rec : Spec.SRec} (hok : RecOk env u rec) {p s r}
    (h : Spec.charPart rec p s = some r) : Sem env u (.charPart p) s r := by
  cases p with
  | chr item =>
    simp only [Spec.charPart] at h
    split at h
    · rename_i c hc
      simp only [Option.some.injEq] at h; subst h
      exact .part_chr hc
    · rename_i hbad
      simp only [Option.some.injEq] at h; subst h
      exact .part_chr_bad (fun c hc => hbad c hc)
  | range lo hi =>
    simp only [Spec.charPart] at h
    split at h
    · rename_i l h' hl hh
      simp only [Option.some.injEq] at h; subst h
      exact .part_range hl hh
    · rename_i hbad
      simp only [Option.some.injEq] at h; subst h
      exact .part_range_bad hbad
  | ident id =>
    simp only [Spec.charPart] at h
    exact .part_ident (hok.rule _ _ _ h)

theorem charParts_sound {rec : Spec.SRec} (hok : RecOk env u rec) :
    ∀ ps s r, Spec.charParts rec ps s = some r → Sem env u (.charParts ps) s r := by
  intro ps
  induction ps with
  | nil =>
    intro s r h
    simp only [Spec.charParts, Option.some.injEq] at h
    subst h; exact .chars_nil
  | cons p ps ih =>
    intro s r h
    rw [Spec.charParts_cons] at h
    split at h
    · cases h
    · rename_i v s' hx
      simp only [Option.some.injEq] at h; subst h
      exact .chars_first (charPart_sound hok hx)
    · rename_i e hx
      exact .chars_next (charPart_sound hok hx) (ih _ _ h)
    · rename_i m hx
      simp only [Option.some.injEq] at h; subst h
      exact .chars_panic (charPart_sound hok hx)


theorem ruleBody_sound {rec : Spec.SRec} (hok : RecOk env u rec) {name : String} {r0 : Rule} {s r}
    (hfind : env.g.find name = some (.rule r0))
    (h : Spec.ruleBody env u rec r0 s = some r) : Sem env u (.rule name) s r := by
  unfold Spec.ruleBody at h
  split at h
  · rename_i fields hf
    simp only at h
    split at h
    · rename_i hc
      have hshape : ruleShape r0 fields = .string := by simp [ruleShape, hc]
      obtain ⟨x, hx, h⟩ := bindS_inv h
      have hp : Sem env u (.expr (ruleCtx env r0 fields) r0.definition) s x := hok.expr _ _ _ _ hx
      rcases h with ⟨p, s', rfl, hk⟩ | hab
      · exact .rule_string hfind hf hshape hp (runChecks_sound _ _ _ _ hk)
      · exact .rule_abort hfind hf (by simp [hshape]) hp hab
    · rename_i hc
      split at h
      · rename_i hc2
        have hshape : ruleShape r0 fields = .override := by simp [ruleShape, hc, hc2]
        obtain ⟨x, hx, h⟩ := bindS_inv h
        have hp : Sem env u (.expr (ruleCtx env r0 fields) r0.definition) s x := hok.expr _ _ _ _ hx
        rcases h with ⟨p, s', rfl, hk⟩ | hab
        · split at hk
          · rename_i v hv
            exact .rule_override hfind hf hshape hp hv (runChecks_sound _ _ _ _ hk)
          · rename_i hv
            simp only [Option.some.injEq] at hk; subst hk
            exact .rule_override_bad hfind hf hshape hp hv
        · exact .rule_abort hfind hf (by simp [hshape]) hp hab
      · rename_i hc2
        split at h
        · rename_i hc3
          have hshape : ruleShape r0 fields = .mixed := by simp [ruleShape, hc, hc2, hc3]
          simp only [Option.some.injEq] at h; subst h
          exact .rule_mixed hfind hf hshape
        · rename_i hc3
          have hshape : ruleShape r0 fields = .struct := by simp [ruleShape, hc, hc2, hc3]
          obtain ⟨x, hx, h⟩ := bindS_inv h
          have hp : Sem env u (.expr (ruleCtx env r0 fields) r0.definition) s x := hok.expr _ _ _ _ hx
          rcases h with ⟨p, s', rfl, hk⟩ | hab
          · split at hk
            · rename_i fs hfs
              exact .rule_struct hfind hf hshape hp hfs (runChecks_sound _ _ _ _ hk)
            · rename_i m hfs
              simp only [Option.some.injEq] at hk; subst hk
              exact .rule_struct_bad hfind hf hshape hp hfs
          · exact .rule_abort hfind hf (by simp [hshape]) hp hab
  · rename_i hbad
    simp only [Option.some.injEq] at h; subst h
    exact .rule_fields_bad hfind (fun fields hf => hbad fields hf)

theorem stepRule_sound {rec : Spec.SRec} (hok : RecOk env u rec) {name s r}
    (h : Spec.stepRule env u rec name s = some r) : Sem env u (.rule name) s r := by
  unfold Spec.stepRule at h
  split at h
  · rename_i r0 hfind
    exact ruleBody_sound hok hfind h
  · rename_i cr hfind
    unfold Spec.charRule at h
    split at h
    · rename_i hc
      exact .char_rule hfind hc (charParts_sound hok _ _ _ h)
    · rename_i hc
      have hc : cr.directives.isEmpty = false := by simpa using hc
      split at h
      · rename_i hd
        simp only [Option.some.injEq] at h; subst h
        exact .char_rule_eoi hfind hc hd
      · rename_i c hd
        split at h
        · rename_i hck
          exact .char_rule_checked hfind hc hd hck (charParts_sound hok _ _ _ h)
        · rename_i hck
          simp only [Option.some.injEq] at h; subst h
          exact .char_rule_rejected hfind hc hd (by simpa using hck)
  · rename_i er hfind
    unfold Spec.externRule at h
    split at h
    · rename_i v adv hx
      simp only [Option.some.injEq] at h; subst h
      exact .extern_ok hfind hx
    · rename_i msg hx
      simp only [Option.some.injEq] at h; subst h
      exact .extern_fail hfind hx
  · rename_i hfind
    split at h
    · rename_i hn
      have hn : name = "char" := by simpa using hn
      subst hn
      simp only [Option.some.injEq] at h; subst h
      exact .builtin_char hfind
    · rename_i hn
      split at h
      · rename_i hn2
        have hn2 : name = "Whitespace" := by simpa using hn2
        subst hn2
        simp only [Option.some.injEq] at h; subst h
        exact .builtin_ws hfind
      · rename_i hn2
        simp only [Option.some.injEq] at h; subst h
        exact .rule_undefined hfind (by simpa using hn) (by simpa using hn2)

theorem eval_recOk (env : Env) (u : Nat) : ∀ n, RecOk env u (Spec.eval env u n) := by
  intro n
  induction n with
  | zero => exact ⟨fun _ _ _ _ h => by simp [Spec.eval] at h, fun _ _ _ h => by simp [Spec.eval] at h⟩
  | succ n ih =>
    exact ⟨fun _ _ _ _ h => stepExpr_sound ih n h, fun _ _ _ h => stepRule_sound ih h⟩

end Sound
end Rel
open Rel

/-- **Soundness** (all judgement forms): whatever the functional semantics answers at some fuel is
    derivable in the relation. -/
theorem Holds.sem {env : Env} {u n : Nat} : ∀ {j : Judg} {s : St} {r : Res j.Out},
    Holds env u n j s r → Sem env u j s r := by
  intro j s r h
  have hok := eval_recOk env u n
  cases j with
  | expr ctx e => exact hok.expr _ _ _ _ h
  | rule name => exact hok.rule _ _ _ h
  | parts ctx ps seen acc => exact evalSeq_sound hok _ _ _ _ _ h
  | alts ctx fields as => exact evalAlts_sound hok _ _ _ h
  | loop ctx b fields iters acc => exact evalLoop_sound hok _ _ _ _ _ h
  | ws ctx =>
    simp only [Holds] at h
    unfold Spec.withSkipWs at h
    split at h
    · rename_i hs
      obtain ⟨a, ha, h⟩ := bindS_inv h
      rcases h with ⟨v, s', rfl, hk⟩ | hab
      · simp only [Option.some.injEq] at hk; subst hk
        exact .ws_on hs (hok.rule _ _ _ ha)
      · exact .ws_abort hs (hok.rule _ _ _ ha) hab
    · rename_i hs
      simp only [Option.some.injEq] at h; subst h
      exact .ws_off (by simpa using hs)
  | checks fs v => exact runChecks_sound _ _ _ _ h
  | charPart p => exact charPart_sound hok h
  | charParts ps => exact charParts_sound hok _ _ _ h


/-! ### completeness: every derivation is computed by `Spec.eval` with enough fuel -/

section Complete
variable {env : Env} {u : Nat}

theorem Spec.charPart_le {rec rec' : Spec.SRec} (hle : Spec.Le rec rec') {p s r}
    (h : Spec.charPart rec p s = some r) : Spec.charPart rec' p s = some r := by
  cases p with
  | chr item => exact h
  | range lo hi => exact h
  | ident id => exact hle.rule _ _ _ h

/-- more fuel does not change an answer -/
theorem Holds.mono {n m : Nat} (hnm : n ≤ m) {j : Judg} {s : St} {r : Res j.Out}
    (h : Holds env u n j s r) : Holds env u m j s r := by
  have hle := Spec.eval_mono env u hnm
  cases j with
  | expr ctx e => exact hle.expr _ _ _ _ h
  | rule name => exact hle.rule _ _ _ h
  | parts ctx ps seen acc => exact Spec.evalSeq_le hle _ _ _ _ _ h
  | alts ctx fields as => exact Spec.evalAlts_le hle _ _ _ h
  | loop ctx b fields iters acc =>
    exact Spec.evalLoop_le (fun s r => hle.expr _ _ _ _) _ _ _ _ _ _ hnm h
  | ws ctx => exact Spec.withSkipWs_le hle (fun _ _ h => h) h
  | checks fs v => exact h
  | charPart p => exact Spec.charPart_le hle h
  | charParts ps => exact Spec.charParts_le hle _ _ _ h

/-- two derivable judgements are computed at a common fuel -/
theorem Holds.two {j₁ j₂ : Judg} {s₁ s₂ : St} {r₁ : Res j₁.Out} {r₂ : Res j₂.Out}
    (h₁ : ∃ n, Holds env u n j₁ s₁ r₁) (h₂ : ∃ n, Holds env u n j₂ s₂ r₂) :
    ∃ n, Holds env u n j₁ s₁ r₁ ∧ Holds env u n j₂ s₂ r₂ := by
  obtain ⟨n₁, h₁⟩ := h₁
  obtain ⟨n₂, h₂⟩ := h₂
  exact ⟨max n₁ n₂, h₁.mono (Nat.le_max_left _ _), h₂.mono (Nat.le_max_right _ _)⟩

theorem Holds.three {j₁ j₂ j₃ : Judg} {s₁ s₂ s₃ : St} {r₁ : Res j₁.Out} {r₂ : Res j₂.Out} {r₃ : Res j₃.Out}
    (h₁ : ∃ n, Holds env u n j₁ s₁ r₁) (h₂ : ∃ n, Holds env u n j₂ s₂ r₂)
    (h₃ : ∃ n, Holds env u n j₃ s₃ r₃) :
    ∃ n, Holds env u n j₁ s₁ r₁ ∧ Holds env u n j₂ s₂ r₂ ∧ Holds env u n j₃ s₃ r₃ := by
  obtain ⟨n₁, h₁, h₂⟩ := Holds.two h₁ h₂
  obtain ⟨n₃, h₃⟩ := h₃
  exact ⟨max n₁ n₃, h₁.mono (Nat.le_max_left _ _), h₂.mono (Nat.le_max_left _ _),
    h₃.mono (Nat.le_max_right _ _)⟩

theorem Holds.expr_succ {n ctx e s} {r : Res Parsed}
    (h : Spec.stepExpr env (Spec.eval env u n) n ctx e s = some r) :
    ∃ k, Holds env u k (.expr ctx e) s r := ⟨n + 1, h⟩

theorem Holds.rule_succ {n name s} {r : Res Val}
    (h : Spec.stepRule env u (Spec.eval env u n) name s = some r) :
    ∃ k, Holds env u k (.rule name) s r := ⟨n + 1, h⟩

namespace Rel

theorem bindS_ok {α β} {x : Spec.SOut α} {k : α → St → Spec.SOut β} {v s'}
    (h : x = some (.ok v s')) : Spec.bindS x k = k v s' := by
  subst h; rfl

theorem bindS_abort {α β} {x : Spec.SOut α} {k : α → St → Spec.SOut β} {a : Res α} {r : Res β}
    (h : x = some a) (hab : Abort a r) : Spec.bindS x k = some r := by
  subst h; cases hab <;> rfl

theorem withSkipWs_ok {rec : Spec.SRec} {ctx s s₁} {α} (k : St → Spec.SOut α)
    (h : Spec.withSkipWs rec ctx s (fun s' => some (.ok () s')) = some (.ok () s₁)) :
    Spec.withSkipWs rec ctx s k = k s₁ := by
  unfold Spec.withSkipWs at h ⊢
  split
  · rename_i hs
    simp only [hs, if_true] at h
    obtain ⟨a, ha, h⟩ := bindS_inv h
    rcases h with ⟨v, s', rfl, hk⟩ | hab
    · simp only [Option.some.injEq, Res.ok.injEq, true_and] at hk
      subst hk
      rw [bindS_ok ha]
    · cases hab
  · rename_i hs
    simp only [hs] at h
    simp only [Bool.false_eq_true, if_false, Option.some.injEq, Res.ok.injEq, true_and] at h
    subst h; rfl

theorem withSkipWs_abort {rec : Spec.SRec} {ctx s} {α} (k : St → Spec.SOut α) {r₀ : Res Unit} {r : Res α}
    (h : Spec.withSkipWs rec ctx s (fun s' => some (.ok () s')) = some r₀) (hab : Abort r₀ r) :
    Spec.withSkipWs rec ctx s k = some r := by
  unfold Spec.withSkipWs at h ⊢
  split
  · rename_i hs
    simp only [hs, if_true] at h
    obtain ⟨a, ha, h⟩ := bindS_inv h
    rcases h with ⟨v, s', rfl, hk⟩ | hab'
    · simp only [Option.some.injEq] at hk
      subst hk; cases hab
    · refine bindS_abort ha ?_
      cases hab' <;> cases hab <;> constructor
  · rename_i hs
    simp only [hs] at h
    simp only [Bool.false_eq_true, if_false, Option.some.injEq] at h
    subst h; cases hab

theorem plumb_some {α} (x : Except String α) (s : St) :
    (match x with
      | .ok p => some (Res.ok p s)
      | .error m => some (Res.panic ("codegen: " ++ m))) = some (plumb x s) := by
  cases x <;> rfl


theorem ruleBody_string {rec : Spec.SRec} {r : Rule} {fields s}
    (hf : getFields env.g env.nf r.definition = .ok fields) (hs : ruleShape r fields = .string) :
    Spec.ruleBody env u rec r s =
      Spec.bindS (rec.expr (ruleCtx env r fields) r.definition s) fun _ s' =>
        Spec.runChecks env u r.checks (stringVal r s s') s' := by
  have h1 : r.flags.string = true := by
    unfold ruleShape at hs
    split at hs
    · assumption
    · split at hs
      · cases hs
      · split at hs <;> cases hs
  unfold Spec.ruleBody
  simp only [hf, h1, if_true]
  rfl

theorem ruleBody_override {rec : Spec.SRec} {r : Rule} {fields s}
    (hf : getFields env.g env.nf r.definition = .ok fields) (hs : ruleShape r fields = .override) :
    Spec.ruleBody env u rec r s =
      Spec.bindS (rec.expr (ruleCtx env r fields) r.definition s) fun p s' =>
        match p.get "_override" with
        | some v => Spec.runChecks env u r.checks v s'
        | none => some (.panic "codegen: override value missing") := by
  unfold ruleShape at hs
  split at hs
  · cases hs
  · rename_i h1
    split at hs
    · rename_i h2
      unfold Spec.ruleBody
      simp only [hf, h1, h2, if_true]
      rfl
    · split at hs <;> cases hs

theorem ruleBody_mixed {rec : Spec.SRec} {r : Rule} {fields s}
    (hf : getFields env.g env.nf r.definition = .ok fields) (hs : ruleShape r fields = .mixed) :
    Spec.ruleBody env u rec r s =
      some (.panic "uncompilable: Mixing simple and override fields is not allowed.") := by
  unfold ruleShape at hs
  split at hs
  · cases hs
  · rename_i h1
    split at hs
    · cases hs
    · rename_i h2
      split at hs
      · rename_i h3
        unfold Spec.ruleBody
        simp only [hf, h1, h2, h3, if_true]
        rfl
      · cases hs

theorem ruleBody_struct {rec : Spec.SRec} {r : Rule} {fields s}
    (hf : getFields env.g env.nf r.definition = .ok fields) (hs : ruleShape r fields = .struct) :
    Spec.ruleBody env u rec r s =
      Spec.bindS (rec.expr (ruleCtx env r fields) r.definition s) fun p s' =>
        match project fields p with
        | .ok fs => Spec.runChecks env u r.checks (structVal r fs s s') s'
        | .error m => some (.panic ("codegen: " ++ m)) := by
  unfold ruleShape at hs
  split at hs
  · cases hs
  · rename_i h1
    split at hs
    · cases hs
    · rename_i h2
      split at hs
      · cases hs
      · rename_i h3
        unfold Spec.ruleBody
        simp only [hf, h1, h2, h3]
        rfl

end Rel

/-- **Completeness** (all judgement forms): every derivation of the relation is computed by the
    functional semantics, with enough fuel. -/
theorem Sem.holds {j : Judg} {s : St} {r : Res j.Out} (h : Sem env u j s r) :
    ∃ n, Holds env u n j s r := by
  induction h with
  | choice_nil => exact ⟨1, rfl⟩
  | choice_one _ ih =>
    obtain ⟨n, ih⟩ := ih
    exact Holds.expr_succ (n := n) (by simp only [Spec.stepExpr]; exact ih)
  | choice _ ih =>
    obtain ⟨n, ih⟩ := ih
    exact Holds.expr_succ (n := n) (by simp only [Spec.stepExpr]; exact ih)
  | alts_nil => exact ⟨0, rfl⟩
  | alts_first _ ih =>
    obtain ⟨n, ih⟩ := ih
    refine ⟨n, ?_⟩
    simp only [Holds] at ih ⊢
    simp only [Spec.evalAlts, ih]
    unfold plumb; split <;> rename_i hc <;> simp only [hc]
  | alts_next _ _ ih₁ ih₂ =>
    obtain ⟨n, ih₁, ih₂⟩ := Holds.two ih₁ ih₂
    refine ⟨n, ?_⟩
    simp only [Holds] at ih₁ ih₂ ⊢
    simp only [Spec.evalAlts, ih₁, ih₂]
  | alts_panic _ ih =>
    obtain ⟨n, ih⟩ := ih
    refine ⟨n, ?_⟩
    simp only [Holds] at ih ⊢
    simp only [Spec.evalAlts, ih]
  | seq_nil => exact ⟨1, rfl⟩
  | seq_one _ ih =>
    obtain ⟨n, ih⟩ := ih
    exact Holds.expr_succ (n := n) (by simp only [Spec.stepExpr]; exact ih)
  | seq _ ih =>
    obtain ⟨n, ih⟩ := ih
    refine Holds.expr_succ (n := n) ?_
    simp only [Holds] at ih
    simp only [Spec.stepExpr, bindS_ok ih]
    unfold plumb; split <;> rename_i hc <;> simp only [hc]
  | seq_abort _ hab ih =>
    obtain ⟨n, ih⟩ := ih
    refine Holds.expr_succ (n := n) ?_
    simp only [Holds] at ih
    simp only [Spec.stepExpr]
    exact bindS_abort ih hab
  | parts_nil => exact ⟨0, rfl⟩
  | parts_cons _ hm _ ih₁ ih₂ =>
    obtain ⟨n, ih₁, ih₂⟩ := Holds.two ih₁ ih₂
    refine ⟨n, ?_⟩
    simp only [Holds] at ih₁ ih₂ ⊢
    simp only [Spec.evalSeq, bindS_ok ih₁, hm, ih₂]
  | parts_abort _ hab ih =>
    obtain ⟨n, ih⟩ := ih
    refine ⟨n, ?_⟩
    simp only [Holds] at ih ⊢
    simp only [Spec.evalSeq]
    exact bindS_abort ih hab
  | parts_bad _ hm ih =>
    obtain ⟨n, ih⟩ := ih
    refine ⟨n, ?_⟩
    simp only [Holds] at ih ⊢
    simp only [Spec.evalSeq, bindS_ok ih, hm]
  | group _ ih =>
    obtain ⟨n, ih⟩ := ih
    exact Holds.expr_succ (n := n) (by simp only [Spec.stepExpr]; exact ih)
  | opt_some _ ih =>
    obtain ⟨n, ih⟩ := ih
    refine Holds.expr_succ (n := n) ?_
    simp only [Holds] at ih
    simp only [Spec.stepExpr, ih]
  | opt_none _ ih =>
    obtain ⟨n, ih⟩ := ih
    refine Holds.expr_succ (n := n) ?_
    simp only [Holds] at ih
    simp only [Spec.stepExpr, ih]
    unfold plumb; split <;> rename_i hc <;> simp only [hc]
  | opt_panic _ ih =>
    obtain ⟨n, ih⟩ := ih
    refine Holds.expr_succ (n := n) ?_
    simp only [Holds] at ih
    simp only [Spec.stepExpr, ih]
  | closure hinit _ hc ih =>
    obtain ⟨n, ih⟩ := ih
    refine Holds.expr_succ (n := n) ?_
    simp only [Holds] at ih
    simp only [Spec.stepExpr, hinit, bindS_ok ih, hc, Bool.false_eq_true, if_false]
  | closure_none hinit _ hc ih =>
    obtain ⟨n, ih⟩ := ih
    refine Holds.expr_succ (n := n) ?_
    simp only [Holds] at ih
    simp only [Spec.stepExpr, hinit, bindS_ok ih, hc, if_true]
  | closure_abort hinit _ hab ih =>
    obtain ⟨n, ih⟩ := ih
    refine Holds.expr_succ (n := n) ?_
    simp only [Holds] at ih
    simp only [Spec.stepExpr, hinit]
    exact bindS_abort ih hab
  | closure_bad hinit =>
    refine Holds.expr_succ (n := 0) ?_
    simp only [Spec.stepExpr, hinit]
  | loop_stop _ ih =>
    obtain ⟨n, ih⟩ := ih
    refine ⟨n + 1, ?_⟩
    have ih := ih.mono (Nat.le_succ n)
    simp only [Holds] at ih ⊢
    simp only [Spec.evalLoop, ih]
  | loop_step _ he _ ih₁ ih₂ =>
    obtain ⟨n, ih₁, ih₂⟩ := Holds.two ih₁ ih₂
    refine ⟨n + 1, ?_⟩
    have ih₁ := ih₁.mono (Nat.le_succ n)
    have hle := Spec.eval_mono env u (Nat.le_succ n)
    simp only [Holds] at ih₁ ih₂ ⊢
    simp only [Spec.evalLoop, ih₁, he]
    exact Spec.evalLoop_le (fun s r => hle.expr _ _ _ _) _ _ _ _ _ _ (Nat.le_refl n) ih₂
  | loop_panic _ ih =>
    obtain ⟨n, ih⟩ := ih
    refine ⟨n + 1, ?_⟩
    have ih := ih.mono (Nat.le_succ n)
    simp only [Holds] at ih ⊢
    simp only [Spec.evalLoop, ih]
  | loop_bad _ he ih =>
    obtain ⟨n, ih⟩ := ih
    refine ⟨n + 1, ?_⟩
    have ih := ih.mono (Nat.le_succ n)
    simp only [Holds] at ih ⊢
    simp only [Spec.evalLoop, ih, he]
  | neg_ok _ ih =>
    obtain ⟨n, ih⟩ := ih
    refine Holds.expr_succ (n := n) ?_
    simp only [Holds] at ih
    simp only [Spec.stepExpr, ih]
  | neg_fail _ ih =>
    obtain ⟨n, ih⟩ := ih
    refine Holds.expr_succ (n := n) ?_
    simp only [Holds] at ih
    simp only [Spec.stepExpr, ih]
  | neg_panic _ ih =>
    obtain ⟨n, ih⟩ := ih
    refine Holds.expr_succ (n := n) ?_
    simp only [Holds] at ih
    simp only [Spec.stepExpr, ih]
  | pos_ok _ ih =>
    obtain ⟨n, ih⟩ := ih
    refine Holds.expr_succ (n := n) ?_
    simp only [Holds] at ih
    simp only [Spec.stepExpr, bindS_ok ih]
  | pos_abort _ hab ih =>
    obtain ⟨n, ih⟩ := ih
    refine Holds.expr_succ (n := n) ?_
    simp only [Holds] at ih
    simp only [Spec.stepExpr]
    exact bindS_abort ih hab
  | ws_off hs =>
    refine ⟨0, ?_⟩
    simp only [Holds, Spec.withSkipWs, hs, Bool.false_eq_true, if_false]
  | ws_on hs _ ih =>
    obtain ⟨n, ih⟩ := ih
    refine ⟨n, ?_⟩
    simp only [Holds] at ih ⊢
    simp only [Spec.withSkipWs, hs, if_true, bindS_ok ih]
  | ws_abort hs _ hab ih =>
    obtain ⟨n, ih⟩ := ih
    refine ⟨n, ?_⟩
    simp only [Holds] at ih ⊢
    simp only [Spec.withSkipWs, hs, if_true]
    exact bindS_abort ih hab
  | range hl hh _ ih =>
    obtain ⟨n, ih⟩ := ih
    refine Holds.expr_succ (n := n) ?_
    simp only [Holds] at ih
    simp only [Spec.stepExpr, hl, hh]
    rw [withSkipWs_ok _ ih]
  | range_abort hl hh _ hab ih =>
    obtain ⟨n, ih⟩ := ih
    refine Holds.expr_succ (n := n) ?_
    simp only [Holds] at ih
    simp only [Spec.stepExpr, hl, hh]
    exact withSkipWs_abort _ ih hab
  | range_bad hbad =>
    refine Holds.expr_succ (n := 0) ?_
    -- the equation lemma of this branch has `hbad` as its side condition
    simp only [Spec.stepExpr]
  | lit hm _ ih =>
    obtain ⟨n, ih⟩ := ih
    refine Holds.expr_succ (n := n) ?_
    simp only [Holds] at ih
    simp only [Spec.stepExpr, hm]
    rw [withSkipWs_ok _ ih]
    unfold litAt
    split <;> rfl
  | lit_abort hm _ hab ih =>
    obtain ⟨n, ih⟩ := ih
    refine Holds.expr_succ (n := n) ?_
    simp only [Holds] at ih
    simp only [Spec.stepExpr, hm]
    exact withSkipWs_abort _ ih hab
  | lit_bad hbad =>
    refine Holds.expr_succ (n := 0) ?_
    simp only [Spec.stepExpr]
  | eoi _ ih =>
    obtain ⟨n, ih⟩ := ih
    refine Holds.expr_succ (n := n) ?_
    simp only [Holds] at ih
    simp only [Spec.stepExpr]
    rw [withSkipWs_ok _ ih]
  | eoi_abort _ hab ih =>
    obtain ⟨n, ih⟩ := ih
    refine Holds.expr_succ (n := n) ?_
    simp only [Holds] at ih
    simp only [Spec.stepExpr]
    exact withSkipWs_abort _ ih hab
  | incl hf _ ih =>
    obtain ⟨n, ih⟩ := ih
    refine Holds.expr_succ (n := n) ?_
    simp only [Holds] at ih
    simp only [Spec.stepExpr, hf, ih]
  | incl_missing hf =>
    refine Holds.expr_succ (n := 0) ?_
    simp only [Spec.stepExpr, hf]
  | field_anon _ _ ih₁ ih₂ =>
    obtain ⟨n, ih₁, ih₂⟩ := Holds.two ih₁ ih₂
    refine Holds.expr_succ (n := n) ?_
    simp only [Holds] at ih₁ ih₂
    simp only [Spec.stepExpr]
    rw [withSkipWs_ok _ ih₁, bindS_ok ih₂]
  | field_named _ _ ih₁ ih₂ =>
    obtain ⟨n, ih₁, ih₂⟩ := Holds.two ih₁ ih₂
    refine Holds.expr_succ (n := n) ?_
    simp only [Holds] at ih₁ ih₂
    simp only [Spec.stepExpr]
    rw [withSkipWs_ok _ ih₁, bindS_ok ih₂]
    simp only [plumb]
    split <;> rename_i hc <;> simp only [hc, Res.map]
  | field_abort _ _ hab ih₁ ih₂ =>
    obtain ⟨n, ih₁, ih₂⟩ := Holds.two ih₁ ih₂
    refine Holds.expr_succ (n := n) ?_
    simp only [Holds] at ih₁ ih₂
    simp only [Spec.stepExpr]
    rw [withSkipWs_ok _ ih₁]
    exact bindS_abort ih₂ hab
  | field_ws_abort _ hab ih =>
    obtain ⟨n, ih⟩ := ih
    refine Holds.expr_succ (n := n) ?_
    simp only [Holds] at ih
    simp only [Spec.stepExpr]
    exact withSkipWs_abort _ ih hab
  | rule_string hfind hf hs _ _ ih₁ ih₂ =>
    obtain ⟨n, ih₁, ih₂⟩ := Holds.two ih₁ ih₂
    refine Holds.rule_succ (n := n) ?_
    simp only [Holds] at ih₁ ih₂
    simp only [Spec.stepRule, hfind]
    rw [ruleBody_string hf hs, bindS_ok ih₁]
    exact ih₂
  | rule_override hfind hf hs _ hv _ ih₁ ih₂ =>
    obtain ⟨n, ih₁, ih₂⟩ := Holds.two ih₁ ih₂
    refine Holds.rule_succ (n := n) ?_
    simp only [Holds] at ih₁ ih₂
    simp only [Spec.stepRule, hfind]
    rw [ruleBody_override hf hs, bindS_ok ih₁]
    simp only [hv]
    exact ih₂
  | rule_struct hfind hf hs _ hfs _ ih₁ ih₂ =>
    obtain ⟨n, ih₁, ih₂⟩ := Holds.two ih₁ ih₂
    refine Holds.rule_succ (n := n) ?_
    simp only [Holds] at ih₁ ih₂
    simp only [Spec.stepRule, hfind]
    rw [ruleBody_struct hf hs, bindS_ok ih₁]
    simp only [hfs]
    exact ih₂
  | @rule_abort name r fields s res out hfind hf hs _ hab ih =>
    obtain ⟨n, ih⟩ := ih
    refine Holds.rule_succ (n := n) ?_
    simp only [Holds] at ih
    simp only [Spec.stepRule, hfind]
    cases hshape : ruleShape r fields with
    | string => rw [ruleBody_string hf hshape]; exact bindS_abort ih hab
    | override => rw [ruleBody_override hf hshape]; exact bindS_abort ih hab
    | struct => rw [ruleBody_struct hf hshape]; exact bindS_abort ih hab
    | mixed => exact (hs hshape).elim
  | rule_override_bad hfind hf hs _ hv ih =>
    obtain ⟨n, ih⟩ := ih
    refine Holds.rule_succ (n := n) ?_
    simp only [Holds] at ih
    simp only [Spec.stepRule, hfind]
    rw [ruleBody_override hf hs, bindS_ok ih]
    simp only [hv]
  | rule_struct_bad hfind hf hs _ hfs ih =>
    obtain ⟨n, ih⟩ := ih
    refine Holds.rule_succ (n := n) ?_
    simp only [Holds] at ih
    simp only [Spec.stepRule, hfind]
    rw [ruleBody_struct hf hs, bindS_ok ih]
    simp only [hfs]
  | rule_mixed hfind hf hs =>
    refine Holds.rule_succ (n := 0) ?_
    simp only [Spec.stepRule, hfind]
    exact ruleBody_mixed hf hs
  | rule_fields_bad hfind hbad =>
    refine Holds.rule_succ (n := 0) ?_
    simp only [Spec.stepRule, hfind]
    unfold Spec.ruleBody
    split
    · rename_i hf; exact (hbad _ hf).elim
    · rfl
  | checks_nil => exact ⟨0, rfl⟩
  | checks_reject hc =>
    refine ⟨0, ?_⟩
    simp only [Holds, Spec.runChecks, hc, Bool.not_false, if_true]
  | checks_accept hc _ ih =>
    obtain ⟨n, ih⟩ := ih
    refine ⟨0, ?_⟩
    simp only [Holds] at ih ⊢
    simp only [Spec.runChecks, hc, Bool.not_true, Bool.false_eq_true, if_false]
    exact ih
  | char_rule hfind hc _ ih =>
    obtain ⟨n, ih⟩ := ih
    refine Holds.rule_succ (n := n) ?_
    simp only [Holds] at ih
    simp only [Spec.stepRule, hfind, Spec.charRule, hc, if_true]
    exact ih
  | char_rule_checked hfind hc hd hck _ ih =>
    obtain ⟨n, ih⟩ := ih
    refine Holds.rule_succ (n := n) ?_
    simp only [Holds] at ih
    simp only [Spec.stepRule, hfind, Spec.charRule, hc, hd, hck, Bool.false_eq_true, if_false, if_true]
    exact ih
  | char_rule_rejected hfind hc hd hck =>
    refine Holds.rule_succ (n := 0) ?_
    simp only [Spec.stepRule, hfind, Spec.charRule, hc, hd, hck, Bool.false_eq_true, if_false]
  | char_rule_eoi hfind hc hd =>
    refine Holds.rule_succ (n := 0) ?_
    simp only [Spec.stepRule, hfind, Spec.charRule, hc, hd, Bool.false_eq_true, if_false]
  | part_chr hc =>
    refine ⟨0, ?_⟩
    simp only [Holds, Spec.charPart, hc]
  | part_chr_bad hbad =>
    refine ⟨0, ?_⟩
    simp only [Holds, Spec.charPart]
  | part_range hl hh =>
    refine ⟨0, ?_⟩
    simp only [Holds, Spec.charPart, hl, hh]
  | part_range_bad hbad =>
    refine ⟨0, ?_⟩
    simp only [Holds, Spec.charPart]
  | part_ident _ ih =>
    obtain ⟨n, ih⟩ := ih
    exact ⟨n, ih⟩
  | chars_nil => exact ⟨0, rfl⟩
  | chars_first _ ih =>
    obtain ⟨n, ih⟩ := ih
    refine ⟨n, ?_⟩
    simp only [Holds] at ih ⊢
    rw [Spec.charParts_cons]
    simp only [ih]
  | chars_next _ _ ih₁ ih₂ =>
    obtain ⟨n, ih₁, ih₂⟩ := Holds.two ih₁ ih₂
    refine ⟨n, ?_⟩
    simp only [Holds] at ih₁ ih₂ ⊢
    rw [Spec.charParts_cons]
    simp only [ih₁, ih₂]
  | chars_panic _ ih =>
    obtain ⟨n, ih⟩ := ih
    refine ⟨n, ?_⟩
    simp only [Holds] at ih ⊢
    rw [Spec.charParts_cons]
    simp only [ih]
  | extern_ok hfind hx =>
    refine Holds.rule_succ (n := 0) ?_
    simp only [Spec.stepRule, hfind, Spec.externRule, hx]
  | extern_fail hfind hx =>
    refine Holds.rule_succ (n := 0) ?_
    simp only [Spec.stepRule, hfind, Spec.externRule, hx]
  | builtin_char hfind =>
    refine Holds.rule_succ (n := 0) ?_
    simp only [Spec.stepRule, hfind, BEq.rfl, if_true]
  | builtin_ws hfind =>
    refine Holds.rule_succ (n := 0) ?_
    simp only [Spec.stepRule, hfind]
    rfl
  | @rule_undefined name s hfind h1 h2 =>
    refine Holds.rule_succ (n := 0) ?_
    have h1 : (name == "char") = false := by simpa using h1
    have h2 : (name == "Whitespace") = false := by simpa using h2
    simp only [Spec.stepRule, hfind, h1, h2, Bool.false_eq_true, if_false]


end Complete

/-! ## Main statements -/

/-- **Soundness, expressions**: an answer of the functional reference semantics is derivable. -/
theorem Spec.eval_sound {env : Env} {u n : Nat} {ctx : Ctx} {e : Expr} {s : St} {r : Res Parsed}
    (h : (Spec.eval env u n).expr ctx e s = some r) : Sem env u (.expr ctx e) s r :=
  Holds.sem (j := .expr ctx e) h

/-- **Soundness, rules.** -/
theorem Spec.eval_sound_rule {env : Env} {u n : Nat} {name : String} {s : St} {r : Res Val}
    (h : (Spec.eval env u n).rule name s = some r) : Sem env u (.rule name) s r :=
  Holds.sem (j := .rule name) h

/-- **Completeness, expressions**: a derivable outcome is the answer of the functional reference
    semantics for some (hence, by `Spec.eval_mono`, every larger) fuel. -/
theorem Spec.eval_complete {env : Env} {u : Nat} {ctx : Ctx} {e : Expr} {s : St} {r : Res Parsed}
    (h : Sem env u (.expr ctx e) s r) : ∃ n, (Spec.eval env u n).expr ctx e s = some r :=
  h.holds

/-- **Completeness, rules.** -/
theorem Spec.eval_complete_rule {env : Env} {u : Nat} {name : String} {s : St} {r : Res Val}
    (h : Sem env u (.rule name) s r) : ∃ n, (Spec.eval env u n).rule name s = some r :=
  h.holds

/-- the relation and the function define the same semantics -/
theorem Sem.expr_iff {env : Env} {u : Nat} {ctx : Ctx} {e : Expr} {s : St} {r : Res Parsed} :
    Sem env u (.expr ctx e) s r ↔ ∃ n, (Spec.eval env u n).expr ctx e s = some r :=
  ⟨Spec.eval_complete, fun ⟨_, h⟩ => Spec.eval_sound h⟩

theorem Sem.rule_iff {env : Env} {u : Nat} {name : String} {s : St} {r : Res Val} :
    Sem env u (.rule name) s r ↔ ∃ n, (Spec.eval env u n).rule name s = some r :=
  ⟨Spec.eval_complete_rule, fun ⟨_, h⟩ => Spec.eval_sound_rule h⟩

/-- … for an exported rule on an input: `Spec.parse` -/
theorem Sem.parse_iff {env : Env} {u : Nat} {rule : String} {inp : List UInt8} {r : Res Val} :
    Sem env u (.rule rule) (St.new inp) r ↔ ∃ n, Spec.parse env u n rule inp = some r :=
  Sem.rule_iff

/-- the same for every judgement form -/
theorem Sem.iff_holds {env : Env} {u : Nat} {j : Judg} {s : St} {r : Res j.Out} :
    Sem env u j s r ↔ ∃ n, Holds env u n j s r :=
  ⟨Sem.holds, fun ⟨_, h⟩ => h.sem⟩

theorem Holds.det {env : Env} {u n : Nat} {j : Judg} {s : St} {r r' : Res j.Out}
    (h : Holds env u n j s r) (h' : Holds env u n j s r') : r = r' := by
  cases j <;> exact Option.some.inj (h.symm.trans h')

/-- **Determinism**: a judgement has at most one outcome from a given cursor (PEG semantics is
    deterministic: same success/failure, same value, same cursor afterwards). -/
theorem Sem.det {env : Env} {u : Nat} {j : Judg} {s : St} {r r' : Res j.Out}
    (h : Sem env u j s r) (h' : Sem env u j s r') : r = r' := by
  obtain ⟨n, h₁, h₂⟩ := Holds.two h.holds h'.holds
  exact h₁.det h₂

/-! ## The implementation model derives exactly the relation -/

/-- **The generated parser is sound for the relation**: whatever the implementation model (`eval`,
    Eval.lean: caches, tracer, furthest-error bookkeeping, user context) answers on an exported rule
    is derivable – same success/failure, same tree, same number of consumed bytes (`Spec.abs`
    drops the error payload and the furthest-error field, nothing else).
    Scope, as for C01: no `@leftrec` rules, user functions do not modify the user context. -/
theorem Sem.of_parseAdvanced (env : Env) (hp : PureHooks env.hooks) (hnl : NoLeftrec env.g)
    (rule : String) (inp : List UInt8) (u n : Nat) {r : Res Val} {g : Global}
    (h : parseAdvanced env n rule inp u = some (r, g)) :
    Sem env u (.rule rule) (St.new inp) (Spec.abs r) := by
  obtain ⟨m, hm⟩ := parse_sound env hp hnl rule inp u n h
  exact Spec.eval_sound_rule hm

/-- **… and complete**: every derivation of the relation for an exported rule is reproduced by the
    implementation model, with enough fuel. -/
theorem Sem.to_parseAdvanced (env : Env) (hp : PureHooks env.hooks) (hnl : NoLeftrec env.g)
    (rule : String) (inp : List UInt8) (u : Nat) {r : Res Val}
    (h : Sem env u (.rule rule) (St.new inp) r) :
    ∃ n r' g', parseAdvanced env n rule inp u = some (r', g') ∧ Spec.abs r' = r := by
  obtain ⟨m, hm⟩ := Spec.eval_complete_rule h
  exact parse_complete env hp hnl rule inp u m hm

/-- both directions in one statement -/
theorem Sem.iff_parseAdvanced (env : Env) (hp : PureHooks env.hooks) (hnl : NoLeftrec env.g)
    (rule : String) (inp : List UInt8) (u : Nat) (r : Res Val) :
    Sem env u (.rule rule) (St.new inp) r ↔
      ∃ n r' g', parseAdvanced env n rule inp u = some (r', g') ∧ Spec.abs r' = r := by
  constructor
  · exact Sem.to_parseAdvanced env hp hnl rule inp u
  · rintro ⟨n, r', g', h, rfl⟩
    exact Sem.of_parseAdvanced env hp hnl rule inp u n h

/-! ## A failure never carries a payload -/

namespace Rel

theorem abs_err {α} {x : Res α} {e} (h : Spec.abs x = .err e) : e = Spec.noErr := by
  cases x <;> simp only [Spec.abs] at h <;> cases h
  rfl

theorem plumb_err {α} {x : Except String α} {s e} (h : plumb x s = .err e) : False := by
  cases x <;> cases h

end Rel

/-- every failure derived by the relation is the payload-free `noMatch` (premises of the form
    `Sem … (.err e)` are therefore the same as `Sem … noMatch`) -/
theorem Sem.err_noErr {env : Env} {u : Nat} {j : Judg} {s : St} {r : Res j.Out}
    (h : Sem env u j s r) : ∀ e, r = .err e → e = Spec.noErr := by
  induction h with
  | lit _ _ _ =>
    intro e he
    unfold litAt at he
    split at he <;> exact abs_err he
  | field_named _ _ _ _ =>
    intro e he
    unfold plumb at he
    split at he <;> cases he
  | checks_accept _ _ ih => exact ih
  | chars_next _ _ _ ih => exact ih
  | _ =>
    intro e he
    first
    | (cases he; done)
    | (cases he; rfl)
    | exact abs_err he
    | exact (plumb_err he).elim
    | (rename_i hab _; cases hab <;> cases he; rfl)
    | (rename_i hab _ _; cases hab <;> cases he; rfl)
    | (rename_i ih; exact ih e he)
    | (rename_i ih _; exact ih e he)

theorem Sem.err_eq_noMatch {env : Env} {u : Nat} {j : Judg} {s : St} {e : PErr}
    (h : Sem env u j s (.err e)) : Sem env u j s noMatch := by
  have := h.err_noErr e rfl
  subst this; exact h

/-! ## The laws listed in property C01, read off the relation -/

section Laws
variable {env : Env} {u : Nat}

/-- sequences match left to right: the rest of a sequence starts where its first part ended -/
theorem Sem.parts_left_to_right {ctx p ps seen acc s x s'}
    (h : Sem env u (.parts ctx (p :: ps) seen acc) s (.ok x s')) :
    ∃ r s₁ seen' acc', Sem env u (.expr ctx p) s (.ok r s₁) ∧
      Sem env u (.parts ctx ps seen' acc') s₁ (.ok x s') := by
  cases h with
  | parts_cons h₁ _ h₂ => exact ⟨_, _, _, _, h₁, h₂⟩
  | parts_abort _ hab => cases hab

/-- … and fail as soon as a part fails -/
theorem Sem.parts_fail_first {ctx p ps seen acc s e}
    (h : Sem env u (.expr ctx p) s (.err e)) :
    Sem env u (.parts ctx (p :: ps) seen acc) s noMatch :=
  .parts_abort h (.err e)

/-- ordered choice commits to the first alternative that matches: whatever the later alternatives
    would do, the outcome is the first one's (same cursor) -/
theorem Sem.alts_commit {ctx fields a as s p s₁} {r : Res Parsed}
    (ha : Sem env u (.expr ctx a) s (.ok p s₁))
    (h : Sem env u (.alts ctx fields (a :: as)) s r) :
    r = plumb (convertArm fields (ownFields env a) p) s₁ :=
  h.det (.alts_first ha)

/-- an alternative is tried exactly when every earlier one failed, from the same cursor -/
theorem Sem.alts_skip {ctx fields a as s e} {r : Res Parsed}
    (ha : Sem env u (.expr ctx a) s (.err e)) :
    Sem env u (.alts ctx fields (a :: as)) s r ↔ Sem env u (.alts ctx fields as) s r := by
  constructor
  · intro h
    cases h with
    | alts_first h' => cases ha.det h'
    | alts_next _ h' => exact h'
    | alts_panic h' => cases ha.det h'
  · exact fun h => .alts_next ha h

/-- optionals never fail -/
theorem Sem.opt_never_fails {ctx b s} {r : Res Parsed}
    (h : Sem env u (.expr ctx (.opt b)) s r) : ∀ e, r ≠ .err e := by
  intro e he
  cases h with
  | opt_some h => cases he
  | opt_none h => unfold plumb at he; split at he <;> cases he
  | opt_panic h => cases he

/-- lookaheads consume nothing (and bind nothing) -/
theorem Sem.neg_consumes_nothing {ctx b s p s'}
    (h : Sem env u (.expr ctx (.neg b)) s (.ok p s')) : s' = s ∧ p = [] := by
  cases h with
  | neg_ok h => exact ⟨rfl, rfl⟩

theorem Sem.pos_consumes_nothing {ctx b s p s'}
    (h : Sem env u (.expr ctx (.pos b)) s (.ok p s')) : s' = s ∧ p = [] := by
  cases h with
  | pos_ok h => exact ⟨rfl, rfl⟩
  | pos_abort _ hab => cases hab

/-- closures are greedy: the iteration ends only at a cursor where the body fails … -/
theorem Sem.loop_ends_where_body_fails {ctx b fields iters acc s k acc' s'}
    (h : Sem env u (.loop ctx b fields iters acc) s (.ok (k, acc') s')) :
    ∃ e, Sem env u (.expr ctx b) s' (.err e) := by
  let P : (j : Judg) → St → Res j.Out → Prop := fun j _ r =>
    match j, r with
    | .loop ctx b _ _ _, .ok _ s' => ∃ e, Sem env u (.expr ctx b) s' (.err e)
    | _, _ => True
  have key : ∀ {j s r}, Sem env u j s r → P j s r := by
    intro j s r h
    induction h with
    | loop_stop h => exact ⟨_, h⟩
    | @loop_step _ _ _ _ _ _ _ _ _ out _ _ _ _ ih => cases out <;> exact ih
    | _ => trivial
  exact key h

end Laws
/-! ## Examples: two derivations, and a rule without any -/

namespace RelExamples

/-- `A = 'a';` -/
def exGrammar : Grammar :=
  ⟨[.rule { directives := [.export], name := "A", definition := .choice [.seq [.lit false [.chr 'a']]] }]⟩
def exEnv : Env := { g := exGrammar, settings := {}, hooks := default, nf := 10 }

example : PureHooks exEnv.hooks ∧ NoLeftrec exEnv.g := by
  refine ⟨⟨fun _ _ _ => rfl, fun _ _ _ => rfl⟩, ?_⟩
  intro r hr
  simp only [exEnv, exGrammar, List.mem_singleton, RuleEntry.rule.injEq] at hr
  subst hr; rfl

example : Sem exEnv 0 (.rule "A") (St.new [97, 98])
    (.ok (.node "A" [] none) { rest := [98], off := 1, far := none }) := by
  refine Sem.rule_struct (r := { directives := [.export], name := "A", definition := .choice [.seq [.lit false [.chr 'a']]] })
    (fields := []) (p := []) (fs := []) (s' := { rest := [98], off := 1, far := none }) rfl rfl rfl ?_ rfl .checks_nil
  refine .choice_one (.seq_one ?_)
  exact Sem.lit (m := .charLit 'a') (s₁ := St.new [97, 98]) rfl (.ws_on (v := .unit) rfl (.builtin_ws rfl))

example : Sem exEnv 0 (.rule "A") (St.new [98]) noMatch := by
  refine Sem.rule_abort (r := { directives := [.export], name := "A", definition := .choice [.seq [.lit false [.chr 'a']]] })
    (fields := []) (res := noMatch) rfl rfl (by decide) ?_ (.err _)
  refine .choice_one (.seq_one ?_)
  exact Sem.lit (m := .charLit 'a') (s₁ := St.new [98]) rfl (.ws_on (v := .unit) rfl (.builtin_ws rfl))

/-- `@no_skip_ws A = A;` -/
def loopRule : Rule := { directives := [.noSkipWs], name := "A", definition := .choice [.seq [.field none false "A"]] }
def loopEnv : Env := { g := ⟨[.rule loopRule]⟩, settings := {}, hooks := default, nf := 10 }
def loopCtx : Ctx := { skipWs := false, ruleFields := [] }

theorem loop_none : ∀ n s,
    (Spec.eval loopEnv 0 n).rule "A" s = none ∧
    (Spec.eval loopEnv 0 n).expr loopCtx (.choice [.seq [.field none false "A"]]) s = none ∧
    (Spec.eval loopEnv 0 n).expr loopCtx (.seq [.field none false "A"]) s = none ∧
    (Spec.eval loopEnv 0 n).expr loopCtx (.field none false "A") s = none := by
  intro n
  induction n with
  | zero => intro s; exact ⟨rfl, rfl, rfl, rfl⟩
  | succ n ih =>
    intro s
    refine ⟨?_, (ih s).2.2.1, (ih s).2.2.2, ?_⟩
    · show Spec.ruleBody loopEnv 0 (Spec.eval loopEnv 0 n) loopRule s = none
      have hf : getFields loopEnv.g loopEnv.nf loopRule.definition = .ok [] := rfl
      rw [ruleBody_struct hf rfl]
      show Spec.bindS ((Spec.eval loopEnv 0 n).expr loopCtx _ s) _ = none
      rw [show (Spec.eval loopEnv 0 n).expr loopCtx loopRule.definition s = none from (ih s).2.1]; rfl
    · show Spec.bindS ((Spec.eval loopEnv 0 n).rule "A" s) _ = none
      rw [(ih s).1]; rfl

/-- a left-recursive rule (without `@leftrec`) has no outcome at all: the PEG reading does not terminate -/
example (s : St) (r : Res Val) : ¬ Sem loopEnv 0 (.rule "A") s r := by
  intro h
  obtain ⟨n, hn⟩ := Spec.eval_complete_rule h
  rw [(loop_none n s).1] at hn
  cases hn
end RelExamples

end Peg
