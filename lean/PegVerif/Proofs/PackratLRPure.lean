import PegVerif.Proofs.PackratLR
import PegVerif.Proofs.RefineLR
/-
  C06, counting form, UNCONDITIONALLY for grammars with `@leftrec` rules of the class `LROk` and pure
  user functions: the body of a `@memoize` rule (that is not itself `@leftrec`) is evaluated at most
  once per (rule, offset) within one parse – no hypothesis on the log (`NoReM` of PackratLR.lean is
  *derived*).  This lifts Part II of Packrat.lean (`C06_parse_once_pure`, `C06_bound_pure`) from
  `NoLeftrec` to `LROk`.  (`PLR.ExampleBad` shows that some such hypothesis on the grammar is needed.)

  The argument of Packrat.lean Part II: "a rule invocation that starts inside the body evaluation of a
  memoized rule `R` at offset `o` converges in the reference semantics with strictly less fuel than
  `R` at `o`; so it is not `R` at `o` again".  With left recursion the reference answer – and the fuel
  it needs – depends on the seed environment `σ`.  The way out: for a memoized (non-`@leftrec`) rule
  the seed environments compatible with the model state at a call (`Compat`, RefineLR.lean) are
  exactly the *admissible* ones (`Adm`: heads strictly before the offset, or at the offset and avoided by
  the rule – the side condition of `Valid`), a notion that does not mention the model state.  So
  "converges with fuel `M`" is taken to mean "under SOME admissible `σ`" (`CvgLR`), the least such `M`
  is taken over all admissible `σ`, and the nested invocation – which runs under the environment of the
  outer one extended by the heads that started growing in between, again admissible – contradicts
  minimality.  No frame property of `SpecLR` ("the answer does not depend on seeds that are not
  consulted") is needed.

  `QRec` = refinement (`RefLR`) + packrat transition system of PackratLR.lean (`PLR.RecP`) + trace
  shape (`RecInv`) + convergence tracking (`QPost`); one lemma per construct; the grow loop
  (`growLoop_q`) runs the model's iterations against the iterations of `SpecLR.growLoop`.
-/
namespace Peg
open Spec SpecLR
namespace PLR

section Pure

section defs
variable (env : Env) (u : Nat) (inp : List UInt8) (N : String → List String)

/-- a memoized normal rule that is not `@leftrec` -/
def IsMemo (name : String) : Prop :=
  ∃ r0, env.g.find name = some (.rule r0) ∧ r0.flags.memoize = true ∧ r0.flags.leftRecursive = false

/-- the seed environments admissible for a (memoized) rule at an offset: heads strictly before the
    offset, or at the offset and avoided by the rule (the side condition of `Valid`, RefineLR.lean) -/
def Adm (σ : Seeds) (name : String) (off : Nat) : Prop :=
  ∀ Q q seed, seedOf σ (Q, q) = some seed → q < off ∨ (q = off ∧ ChkR env N Q false name)

/-- the reference semantics answers for the rule `name` at offset `off` with fuel `M` under some
    admissible seed environment -/
def CvgLR (M : Nat) (name : String) (off : Nat) : Prop :=
  ∃ σ, Adm env N σ name off ∧ (SpecLR.eval env u M σ).rule name ⟨inp.drop off, off, none⟩ ≠ none

/-- every invocation of a memoized rule started in `l` converges with fuel `M` -/
def StartsLR (M : Nat) (l : List Ev) : Prop :=
  ∀ name off, Ev.traceStart name off ∈ l → IsMemo env name → CvgLR env u inp N M name off

/-- `conv M`: the reference computation corresponding to this run answers with fuel `M` (under some
    seed environment compatible with the run) -/
structure QT (conv : Nat → Prop) (g g' : Global) (l : List Ev) : Prop where
  log : g'.log = l ++ g.log
  q : ∀ M, conv M → StartsLR env u inp N M l
  o : ∀ k : String × Nat, ¬ IsLR env k.1 → evals l k ≤ 1
  c : ∀ n o, ¬ IsLR env n → Ev.bodyEval n o ∈ l → Ev.traceStart n o ∈ l

def QPost (conv : Nat → Prop) (g g' : Global) : Prop := ∃ l, QT env u inp N conv g g' l

/-- events that are neither `traceStart` nor the `bodyEval` of a rule that is not `@leftrec` -/
def QuietM (l : List Ev) : Prop :=
  ∀ e, e ∈ l → (∀ n o, e ≠ Ev.traceStart n o) ∧ (∀ n o, e = Ev.bodyEval n o → IsLR env n)

end defs

variable {env : Env} {u : Nat} {inp : List UInt8} {N : String → List String}

theorem QuietM.of_quiet {l : List Ev} (h : Quiet l) : QuietM env l := by
  intro e he
  refine ⟨(h e he).2, fun n o heq => ?_⟩
  subst heq
  have := (h _ he).1 (n, o)
  simp [isBodyEval] at this

theorem QuietM.nil : QuietM env [] := fun _ h => by cases h

theorem QuietM.append {a b : List Ev} (ha : QuietM env a) (hb : QuietM env b) : QuietM env (a ++ b) := by
  intro e he
  rcases List.mem_append.1 he with h | h
  · exact ha e h
  · exact hb e h

theorem evals_quietM {l : List Ev} (h : QuietM env l) {k : String × Nat} (hk : ¬ IsLR env k.1) :
    evals l k = 0 := by
  unfold evals
  rw [List.length_eq_zero_iff, List.filter_eq_nil_iff]
  intro e he hb
  exact hk ((h e he).2 _ _ (isBodyEval_eq hb))

theorem QuietM.no_start {l : List Ev} (h : QuietM env l) {n o} : Ev.traceStart n o ∉ l :=
  fun hm => (h _ hm).1 n o rfl

theorem QuietM.no_body {l : List Ev} (h : QuietM env l) {n o} (hn : ¬ IsLR env n) : Ev.bodyEval n o ∉ l :=
  fun hm => hn ((h _ hm).2 n o rfl)

/-- the events in front of an iteration of the grow loop -/
theorem quietM_growPre {key : String × Nat} (hlr : IsLR env key.1) :
    QuietM env [Ev.bodyEval key.1 key.2, Ev.info "Starting new left recursive loop"] := by
  intro e he
  simp only [List.mem_cons, List.not_mem_nil, or_false] at he
  rcases he with rfl | rfl
  · refine ⟨fun _ _ h => (by cases h), fun n o h => ?_⟩
    cases h
    exact hlr
  · exact ⟨fun _ _ h => (by cases h), fun n o h => (by cases h)⟩

theorem CvgLR.mono {M M' : Nat} (h : M ≤ M') {name off} (hc : CvgLR env u inp N M name off) :
    CvgLR env u inp N M' name off := by
  obtain ⟨σ, ha, hc⟩ := hc
  refine ⟨σ, ha, ?_⟩
  cases hr : (SpecLR.eval env u M σ).rule name ⟨inp.drop off, off, none⟩ with
  | none => exact absurd hr hc
  | some r =>
    rw [(SpecLR.eval_mono env u h σ).rule _ _ _ hr]
    exact fun h => by cases h

theorem StartsLR.mono {M M' : Nat} (h : M ≤ M') {l : List Ev} (hs : StartsLR env u inp N M l) :
    StartsLR env u inp N M' l :=
  fun name off hm hmemo => (hs name off hm hmemo).mono h

theorem QPost.refl (conv : Nat → Prop) (g : Global) : QPost env u inp N conv g g :=
  ⟨[], rfl, (fun _ _ _ _ h => by cases h), (fun k _ => by simp [evals]), (fun _ _ _ h => by cases h)⟩

theorem QPost.weaken {conv conv' : Nat → Prop} {g g' : Global} (h : QPost env u inp N conv g g')
    (hc : ∀ M, conv' M → conv M) : QPost env u inp N conv' g g' := by
  obtain ⟨l, h⟩ := h
  exact ⟨l, h.log, fun M hm => h.q M (hc M hm), h.o, h.c⟩

theorem QPost.seq {conv conv1 conv2 : Nat → Prop} {g g1 g2 : Global} {b : Bool}
    (hs1 : Step env PT g false g1) (hq1 : QPost env u inp N conv1 g g1)
    (hs2 : Step env PT g1 b g2) (hq2 : QPost env u inp N conv2 g1 g2)
    (hc : ∀ M, conv M → conv1 M ∧ conv2 M) : QPost env u inp N conv g g2 := by
  obtain ⟨l1, h1⟩ := hq1
  obtain ⟨l2, h2⟩ := hq2
  have t1 := Trans.of_log hs1 h1.log
  have t2 := Trans.of_log hs2 h2.log
  refine ⟨l2 ++ l1, ?_, ?_, ?_, ?_⟩
  · rw [h2.log, h1.log, List.append_assoc]
  · intro M hm name off hmem hmemo
    rcases List.mem_append.1 hmem with h | h
    · exact h2.q M (hc M hm).2 name off h hmemo
    · exact h1.q M (hc M hm).1 name off h hmemo
  · intro k hk
    rw [evals_append]
    have e1 := h1.o k hk
    have e2 := h2.o k hk
    by_cases h0 : 0 < evals l1 k
    · have := t2.hit k hk (t1.done rfl k hk h0)
      omega
    · omega
  · intro n o hn hmem
    rcases List.mem_append.1 hmem with h | h
    · exact List.mem_append_left _ (h2.c n o hn h)
    · exact List.mem_append_right _ (h1.c n o hn h)

theorem QPost.quiet_after {conv : Nat → Prop} {g g1 g2 : Global} (hq : QPost env u inp N conv g g1)
    {l : List Ev} (hl : g2.log = l ++ g1.log) (hquiet : QuietM env l) : QPost env u inp N conv g g2 := by
  obtain ⟨l1, h1⟩ := hq
  refine ⟨l ++ l1, ?_, ?_, ?_, ?_⟩
  · rw [hl, h1.log, List.append_assoc]
  · intro M hm name off hmem hmemo
    rcases List.mem_append.1 hmem with h | h
    · exact absurd h hquiet.no_start
    · exact h1.q M hm name off h hmemo
  · intro k hk; rw [evals_append, evals_quietM hquiet hk]; have := h1.o k hk; omega
  · intro n o hn hmem
    rcases List.mem_append.1 hmem with h | h
    · exact absurd h (hquiet.no_body hn)
    · exact List.mem_append_right _ (h1.c n o hn h)

theorem QPost.quiet_before {conv : Nat → Prop} {g g1 g2 : Global} {l : List Ev}
    (hl : g1.log = l ++ g.log) (hquiet : QuietM env l) (hq : QPost env u inp N conv g1 g2) :
    QPost env u inp N conv g g2 := by
  obtain ⟨l2, h2⟩ := hq
  refine ⟨l2 ++ l, ?_, ?_, ?_, ?_⟩
  · rw [h2.log, hl, List.append_assoc]
  · intro M hm name off hmem hmemo
    rcases List.mem_append.1 hmem with h | h
    · exact h2.q M hm name off h hmemo
    · exact absurd h hquiet.no_start
  · intro k hk; rw [evals_append, evals_quietM hquiet hk]; have := h2.o k hk; omega
  · intro n o hn hmem
    rcases List.mem_append.1 hmem with h | h
    · exact List.mem_append_left _ (h2.c n o hn h)
    · exact absurd h (hquiet.no_body hn)

theorem QPost.of_quiet (conv : Nat → Prop) {g g' : Global} {l : List Ev} (hl : g'.log = l ++ g.log)
    (hquiet : QuietM env l) : QPost env u inp N conv g g' :=
  (QPost.refl conv g).quiet_after hl hquiet

theorem QPost.shift {conv : Nat → Prop} {g g' : Global} (h : QPost env u inp N conv g g') :
    QPost env u inp N (fun M => ∃ M', M = M' + 1 ∧ conv M') g g' := by
  obtain ⟨l, h⟩ := h
  refine ⟨l, h.log, ?_, h.o, h.c⟩
  rintro M ⟨M', rfl, hc⟩
  exact (h.q M' hc).mono (Nat.le_succ _)

/-! ### uniqueness of the reference answers -/

theorem det_exprLR (σ : Seeds) (ctx : Ctx) (e : Expr) (st : St) :
    Det (fun m => (SpecLR.eval env u m σ).expr ctx e st) :=
  Det.of_mono (fun _ _ _ hm h => (SpecLR.eval_mono env u hm σ).expr _ _ _ _ h)

theorem det_ruleLR (σ : Seeds) (name : String) (st : St) :
    Det (fun m => (SpecLR.eval env u m σ).rule name st) :=
  Det.of_mono (fun _ _ _ hm h => (SpecLR.eval_mono env u hm σ).rule _ _ _ h)

theorem det_ruleBodyLR (σ : Seeds) (r0 : Rule) (st : St) :
    Det (fun m => Spec.ruleBody env u (SpecLR.eval env u m σ) r0 st) :=
  Det.of_mono (fun _ _ _ hm h => Spec.ruleBody_le (SpecLR.eval_mono env u hm σ) h)

/-! ### the invariant of the recursive calls -/

section rec
variable (env u inp N)

/-- everything known about one sub-run: refinement (`Full`), packrat transition (`Step`), and
    convergence tracking (`QPost`) -/
def Sub {α} (H : Heads) (s : St) (g : Global) (C : Seeds → Prop) (F : Seeds → Nat → SOut α)
    (r : Res α) (g' : Global) : Prop :=
  Full env u inp N H s g C F r g' ∧ Step env PT g r.isPanic g' ∧
    QPost env u inp N (fun M => ∃ σ, C σ ∧ F σ M ≠ none) g g'

structure QRec (rec : Rec) : Prop where
  ref : RefLR env u inp N rec
  pk : RecP env PT rec
  log : RecInv rec
  expr : ∀ H ctx e s g r g', rec.expr ctx e s g = some (r, g') → PreLR env u inp N H s g →
    SafeH H s.off (fun Q md => ChkE env N Q md ctx.skipWs e) →
    QPost env u inp N (fun M => ∃ σ, Compat H σ g s.off (fun Q md => ChkE env N Q md ctx.skipWs e) ∧
      (SpecLR.eval env u M σ).expr ctx e (clr s) ≠ none) g g'
  rule : ∀ H name s g r g', rec.rule name s g = some (r, g') → PreLR env u inp N H s g →
    SafeH H s.off (fun Q md => ChkR env N Q md name) →
    QPost env u inp N (fun M => ∃ σ, Compat H σ g s.off (fun Q md => ChkR env N Q md name) ∧
      (SpecLR.eval env u M σ).rule name (clr s) ≠ none) g g'

end rec

theorem Sub.monoC {α} {H : Heads} {s : St} {g : Global} {C C' : Seeds → Prop} {F : Seeds → Nat → SOut α}
    {r : Res α} {g' : Global} (h : Sub env u inp N H s g C' F r g') (hc : ∀ σ, C σ → C' σ) :
    Sub env u inp N H s g C F r g' :=
  ⟨h.1.monoC hc, h.2.1, h.2.2.weaken (fun _ ⟨σ, hσ, hne⟩ => ⟨σ, hc σ hσ, hne⟩)⟩

theorem QRec.subE {rec : Rec} (hrec : QRec env u inp N rec) {H ctx e s g r g'}
    (h : rec.expr ctx e s g = some (r, g')) (hpre : PreLR env u inp N H s g)
    (hsafe : SafeH H s.off (fun Q md => ChkE env N Q md ctx.skipWs e)) :
    Sub env u inp N H s g (fun σ => Compat H σ g s.off (fun Q md => ChkE env N Q md ctx.skipWs e))
      (fun σ m => (SpecLR.eval env u m σ).expr ctx e (clr s)) r g' :=
  ⟨hrec.ref.exprF h hpre hsafe, (hrec.pk.expr ctx e s trivial g r g' h (cacheB_true g)).1,
    hrec.expr _ _ _ _ _ _ _ h hpre hsafe⟩

theorem QRec.subR {rec : Rec} (hrec : QRec env u inp N rec) {H name s g r g'}
    (h : rec.rule name s g = some (r, g')) (hpre : PreLR env u inp N H s g)
    (hsafe : SafeH H s.off (fun Q md => ChkR env N Q md name)) :
    Sub env u inp N H s g (fun σ => Compat H σ g s.off (fun Q md => ChkR env N Q md name))
      (fun σ m => (SpecLR.eval env u m σ).rule name (clr s)) r g' :=
  ⟨hrec.ref.ruleF h hpre hsafe, (hrec.pk.rule name s trivial g r g' h (cacheB_true g)).1,
    hrec.rule _ _ _ _ _ _ h hpre hsafe⟩

/-- a sub-expression evaluated at the same cursor, at a position that follows from the current one -/
theorem QRec.subE_imp {rec : Rec} (hrec : QRec env u inp N rec) {H ctx e s g r g'} {P : PosP}
    (himp : Imp P (fun Q md => ChkE env N Q md ctx.skipWs e))
    (h : rec.expr ctx e s g = some (r, g')) (hpre : PreLR env u inp N H s g) (hsafe : SafeH H s.off P) :
    Sub env u inp N H s g (fun σ => Compat H σ g s.off P)
      (fun σ m => (SpecLR.eval env u m σ).expr ctx e (clr s)) r g' :=
  (hrec.subE h hpre (hsafe.imp himp)).monoC (fun _ hσ => hσ.imp hpre.le himp)

theorem QRec.expr_imp {rec : Rec} (hrec : QRec env u inp N rec) {H ctx e s g r g'} {P : PosP}
    (himp : Imp P (fun Q md => ChkE env N Q md ctx.skipWs e))
    (h : rec.expr ctx e s g = some (r, g')) (hpre : PreLR env u inp N H s g) (hsafe : SafeH H s.off P) :
    QPost env u inp N (fun M => ∃ σ, Compat H σ g s.off P ∧
      (SpecLR.eval env u M σ).expr ctx e (clr s) ≠ none) g g' :=
  (hrec.subE_imp himp h hpre hsafe).2.2

theorem bindR_q {α β} {x : Out α} {k : α → St → Global → Out β} {fx : Seeds → Nat → SOut α}
    {fk : Seeds → Nat → α → St → SOut β} {H : Heads} {s : St} {g : Global} {C : Seeds → Prop}
    {r : Res β} {g' : Global}
    (h : bindR x k = some (r, g'))
    (hx : ∀ rx gx, x = some (rx, gx) → Sub env u inp N H s g C fx rx gx)
    (hdet : ∀ σ, Det (fx σ))
    (hk : ∀ v s1 g1, x = some (.ok v s1, g1) → k v s1 g1 = some (r, g') → PreLR env u inp N H s1 g1 →
      s.off ≤ s1.off → LR.Keeps g g1 →
      Step env PT g1 r.isPanic g' ∧ QPost env u inp N (fun M => ∃ σ, C σ ∧ fk σ M v (clr s1) ≠ none) g1 g') :
    QPost env u inp N (fun M => ∃ σ, C σ ∧ bindS (fx σ M) (fk σ M) ≠ none) g g' := by
  cases x with
  | none => simp [bindR] at h
  | some a =>
    obtain ⟨rx, gx⟩ := a
    obtain ⟨hp, hs, hq⟩ := hx rx gx rfl
    cases rx with
    | ok v s1 =>
      simp only [bindR] at h
      obtain ⟨hp1, ho⟩ := hp.ok v s1 rfl
      obtain ⟨hs2, hq2⟩ := hk v s1 gx rfl h hp1 ho hp.keeps
      refine QPost.seq hs hq hs2 hq2 (fun M hc => ?_)
      obtain ⟨σ, hσ, hc⟩ := hc
      refine ⟨⟨σ, hσ, bindS_ne_none hc⟩, σ, hσ, ?_⟩
      cases hfx : fx σ M with
      | none => exact absurd hfx (bindS_ne_none hc)
      | some y =>
        have : y = abs (.ok v s1) := hdet σ M y _ hfx (hp.evt σ hσ)
        subst this
        simpa only [hfx, bindS, abs] using hc
    | err e =>
      simp only [bindR, Option.some.injEq, Prod.mk.injEq] at h
      obtain ⟨rfl, rfl⟩ := h
      exact hq.weaken (fun M ⟨σ, hσ, hc⟩ => ⟨σ, hσ, bindS_ne_none hc⟩)
    | panic m =>
      simp only [bindR, Option.some.injEq, Prod.mk.injEq] at h
      obtain ⟨rfl, rfl⟩ := h
      exact hq.weaken (fun M ⟨σ, hσ, hc⟩ => ⟨σ, hσ, bindS_ne_none hc⟩)

/-- a continuation that only emits quiet events (user-function calls, nothing) -/
theorem bindR_q_quiet {α β} {x : Out α} {k : α → St → Global → Out β} {conv : Nat → Prop}
    {g : Global} {r : Res β} {g' : Global}
    (h : bindR x k = some (r, g'))
    (hx : ∀ rx gx, x = some (rx, gx) → QPost env u inp N conv g gx)
    (hk : ∀ v s1 g1, k v s1 g1 = some (r, g') → ∃ l, g'.log = l ++ g1.log ∧ Quiet l) :
    QPost env u inp N conv g g' := by
  cases x with
  | none => simp [bindR] at h
  | some a =>
    obtain ⟨rx, gx⟩ := a
    have hq := hx rx gx rfl
    cases rx with
    | ok v s1 =>
      simp only [bindR] at h
      obtain ⟨l, hl, hquiet⟩ := hk v s1 gx h
      exact hq.quiet_after hl (QuietM.of_quiet hquiet)
    | err e =>
      simp only [bindR, Option.some.injEq, Prod.mk.injEq] at h
      obtain ⟨rfl, rfl⟩ := h
      exact hq
    | panic m =>
      simp only [bindR, Option.some.injEq, Prod.mk.injEq] at h
      obtain ⟨rfl, rfl⟩ := h
      exact hq

theorem withSkipWs_q {α} {rec : Rec} (hrec : QRec env u inp N rec) {ctx : Ctx} {H : Heads} {s : St}
    {g : Global} {C : Seeds → Prop}
    {k : St → Global → Out α} {fk : Seeds → Nat → St → SOut α} {r : Res α} {g' : Global}
    (h : Peg.withSkipWs rec ctx s g k = some (r, g')) (hpre : PreLR env u inp N H s g)
    (hsafe : ctx.skipWs = true → SafeH H s.off (fun Q md => ChkR env N Q md "Whitespace"))
    (hC : ctx.skipWs = true → ∀ σ, C σ → Compat H σ g s.off (fun Q md => ChkR env N Q md "Whitespace"))
    (hk : ∀ s1 g1, k s1 g1 = some (r, g') → PreLR env u inp N H s1 g1 → s.off ≤ s1.off → LR.Keeps g g1 →
      Step env PT g1 r.isPanic g' ∧ QPost env u inp N (fun M => ∃ σ, C σ ∧ fk σ M (clr s1) ≠ none) g1 g') :
    QPost env u inp N (fun M => ∃ σ, C σ ∧
      Spec.withSkipWs (SpecLR.eval env u M σ) ctx (clr s) (fk σ M) ≠ none) g g' := by
  unfold Peg.withSkipWs at h
  unfold Spec.withSkipWs
  split at h
  · rename_i hs
    simp only [hs, if_true]
    exact bindR_q (fk := fun σ M _ s' => fk σ M s') h
      (fun rx gx hx => (hrec.subR hx hpre (hsafe hs)).monoC (hC hs)) (fun σ => det_ruleLR σ _ _)
      (fun v s1 g1 _ h hp1 ho hkp => hk s1 g1 h hp1 ho hkp)
  · rename_i hs
    simp only [hs]
    exact (hk _ _ h hpre (Nat.le_refl _) (LR.Keeps.refl g)).2

/-! ### expression level -/

section
variable {rec : Rec}

theorem evalSeq_q (hrec : QRec env u inp N rec) {ctx : Ctx} {H : Heads} :
    ∀ ps seen acc s g r g', evalSeq env rec ctx ps seen acc s g = some (r, g') →
      PreLR env u inp N H s g → SafeH H s.off (fun Q md => ChkSeq env N Q md ctx.skipWs ps) →
      QPost env u inp N (fun M => ∃ σ, Compat H σ g s.off (fun Q md => ChkSeq env N Q md ctx.skipWs ps) ∧
        Spec.evalSeq env (SpecLR.eval env u M σ) ctx ps seen acc (clr s) ≠ none) g g' := by
  intro ps
  induction ps with
  | nil =>
    intro seen acc s g r g' h hpre hsafe
    simp only [evalSeq, Option.some.injEq, Prod.mk.injEq] at h
    obtain ⟨rfl, rfl⟩ := h
    exact QPost.refl _ _
  | cons p ps ih =>
    intro seen acc s g r g' h hpre hsafe
    simp only [evalSeq] at h
    simp only [Spec.evalSeq]
    have himp1 : Imp (fun Q md => ChkSeq env N Q md ctx.skipWs (p :: ps))
        (fun Q md => ChkE env N Q md ctx.skipWs p) := Imp.of (fun Q md hq => hq.cons.1)
    refine bindR_q h (fun rx gx hx => hrec.subE_imp himp1 hx hpre hsafe) (fun σ => det_exprLR σ _ _ _) ?_
    intro v s1 g1 hx h hp1 ho hkp
    have himp2 : s1.off = s.off → Imp (fun Q md => ChkSeq env N Q md ctx.skipWs (p :: ps))
        (fun Q md => ChkSeq env N Q md ctx.skipWs ps) := by
      intro he
      refine Imp.of (fun Q md hq => ?_)
      rcases hq.cons.2 with hpr | hq2
      · have := hrec.ref.prog.expr _ _ _ _ _ _ _ hpr hpre.within hpre.cw hx
        omega
      · exact hq2
    split at h
    · rename_i hm
      simp only [Option.some.injEq, Prod.mk.injEq] at h
      obtain ⟨rfl, rfl⟩ := h
      exact ⟨Step.refl _ _, QPost.refl _ _⟩
    · rename_i hm
      refine ⟨(evalSeq_pinv hrec.pk _ _ _ _ trivial _ _ _ h (cacheB_true _)).1, ?_⟩
      exact (ih _ _ _ _ _ _ h hp1 (hsafe.next hpre.le ho himp2)).weaken
        (fun M ⟨σ, hσ, hc⟩ => ⟨σ, hσ.next hkp hpre.le ho himp2, by simpa only [hm] using hc⟩)

theorem evalAlts_q (hrec : QRec env u inp N rec) {ctx : Ctx} {fields} {H : Heads} :
    ∀ as s g r g', evalAlts env rec ctx fields as s g = some (r, g') →
      PreLR env u inp N H s g → SafeH H s.off (AltsP env N ctx.skipWs as) →
      QPost env u inp N (fun M => ∃ σ, Compat H σ g s.off (AltsP env N ctx.skipWs as) ∧
        Spec.evalAlts env (SpecLR.eval env u M σ) ctx fields as (clr s) ≠ none) g g' := by
  intro as
  induction as with
  | nil =>
    intro s g r g' h hpre hsafe
    simp only [evalAlts, Option.some.injEq, Prod.mk.injEq] at h
    obtain ⟨rfl, rfl⟩ := h
    exact QPost.refl _ _
  | cons a as ih =>
    intro s g r g' h hpre hsafe
    simp only [evalAlts] at h
    have himp1 : Imp (AltsP env N ctx.skipWs (a :: as)) (fun Q md => ChkE env N Q md ctx.skipWs a) :=
      Imp.of (fun Q md hq => hq a (List.mem_cons_self ..))
    have himp2 : Imp (AltsP env N ctx.skipWs (a :: as)) (AltsP env N ctx.skipWs as) :=
      Imp.of (fun Q md hq a' ha' => hq a' (List.mem_cons_of_mem _ ha'))
    split at h
    · cases h
    · rename_i r0 s0 g0 hx
      obtain ⟨hp, hs, hq⟩ := hrec.subE_imp himp1 hx hpre hsafe
      have hg' : g' = g0 := by
        split at h <;> (simp only [Option.some.injEq, Prod.mk.injEq] at h; exact h.2.symm)
      subst hg'
      exact hq.weaken (fun M ⟨σ, hσ, hc⟩ => ⟨σ, hσ, fun h0 => hc (by simp only [Spec.evalAlts, h0])⟩)
    · rename_i e0 g0 hx
      obtain ⟨hp, hs, hq⟩ := hrec.subE_imp himp1 hx hpre hsafe
      have hs2 := (evalAlts_pinv hrec.pk _ _ trivial _ _ _ h (cacheB_true _)).1
      have hpre' := hpre.recErr hp.good_err hp.cw e0
      have hoff : (s.recordError e0).off = s.off := recordError_off s e0
      have hq2 := ih _ _ _ _ h hpre' (by rw [hoff]; exact hsafe.imp himp2)
      refine QPost.seq hs hq hs2 hq2 (fun M hc => ?_)
      obtain ⟨σ, hσ, hc⟩ := hc
      cases hfx : (SpecLR.eval env u M σ).expr ctx a (clr s) with
      | none => exact absurd (by simp only [Spec.evalAlts, hfx]) hc
      | some y =>
        have : y = abs (.err e0) := det_exprLR σ _ _ _ M y _ hfx (hp.evt σ hσ)
        subst this
        refine ⟨⟨σ, hσ, ne_none_of_eq_some hfx⟩, σ, ?_, ?_⟩
        · rw [hoff]
          exact hσ.next hp.keeps hpre.le (Nat.le_refl _) (fun _ => himp2)
        · simpa only [Spec.evalAlts, hfx, abs, clr_recordError] using hc
    · rename_i m g0 hx
      obtain ⟨hp, hs, hq⟩ := hrec.subE_imp himp1 hx hpre hsafe
      simp only [Option.some.injEq, Prod.mk.injEq] at h
      obtain ⟨rfl, rfl⟩ := h
      exact hq.weaken (fun M ⟨σ, hσ, hc⟩ => ⟨σ, hσ, fun h0 => hc (by simp only [Spec.evalAlts, h0])⟩)

theorem evalLoop_q (hrec : QRec env u inp N rec) {ctx : Ctx} {b : Expr} {fields} {H : Heads} :
    ∀ k iters acc s g r g', evalLoop (rec.expr ctx b) fields k iters acc s g = some (r, g') →
      PreLR env u inp N H s g → SafeH H s.off (fun Q md => ChkE env N Q md ctx.skipWs b) →
      QPost env u inp N (fun M => ∃ σ, Compat H σ g s.off (fun Q md => ChkE env N Q md ctx.skipWs b) ∧ ∃ c,
        Spec.evalLoop ((SpecLR.eval env u M σ).expr ctx b) fields c iters acc (clr s) ≠ none) g g' := by
  intro k
  induction k with
  | zero => intro iters acc s g r g' h; simp [evalLoop] at h
  | succ k ih =>
    intro iters acc s g r g' h hpre hsafe
    have hfirst : ∀ M, (∃ σ, Compat H σ g s.off (fun Q md => ChkE env N Q md ctx.skipWs b) ∧ ∃ c,
          Spec.evalLoop ((SpecLR.eval env u M σ).expr ctx b) fields c iters acc (clr s) ≠ none) →
        ∃ σ, Compat H σ g s.off (fun Q md => ChkE env N Q md ctx.skipWs b) ∧
          (SpecLR.eval env u M σ).expr ctx b (clr s) ≠ none := by
      intro M ⟨σ, hσ, c, hc⟩
      refine ⟨σ, hσ, fun h0 => ?_⟩
      cases c with
      | zero => exact hc (by simp [Spec.evalLoop])
      | succ c => exact hc (by simp only [Spec.evalLoop, h0])
    simp only [evalLoop] at h
    split at h
    · cases h
    · rename_i r0 s0 g0 hx
      obtain ⟨hp, hs, hq⟩ := hrec.subE hx hpre hsafe
      obtain ⟨hp0, ho⟩ := hp.ok _ _ rfl
      split at h
      · rename_i acc' hacc
        have hs2 := (evalLoop_pinv (hrec.pk.expr ctx b) _ _ _ _ trivial _ _ _ h (cacheB_true _)).1
        have hq2 := ih _ _ _ _ _ _ h hp0 (hsafe.next hpre.le ho (fun _ => Imp.refl _))
        refine QPost.seq hs hq hs2 hq2 (fun M hc => ⟨hfirst M hc, ?_⟩)
        obtain ⟨σ, hσ, c, hc⟩ := hc
        cases c with
        | zero => exact absurd (by simp [Spec.evalLoop]) hc
        | succ c =>
          cases hfx : (SpecLR.eval env u M σ).expr ctx b (clr s) with
          | none => exact absurd (by simp only [Spec.evalLoop, hfx]) hc
          | some y =>
            have : y = abs (.ok r0 s0) := det_exprLR σ _ _ _ M y _ hfx (hp.evt σ hσ)
            subst this
            exact ⟨σ, hσ.next hp.keeps hpre.le ho (fun _ => Imp.refl _), c,
              by simpa only [Spec.evalLoop, hfx, abs, hacc] using hc⟩
      · simp only [Option.some.injEq, Prod.mk.injEq] at h
        obtain ⟨rfl, rfl⟩ := h
        exact hq.weaken hfirst
    · rename_i e0 g0 hx
      obtain ⟨hp, hs, hq⟩ := hrec.subE hx hpre hsafe
      simp only [Option.some.injEq, Prod.mk.injEq] at h
      obtain ⟨rfl, rfl⟩ := h
      exact hq.weaken hfirst
    · rename_i m g0 hx
      obtain ⟨hp, hs, hq⟩ := hrec.subE hx hpre hsafe
      simp only [Option.some.injEq, Prod.mk.injEq] at h
      obtain ⟨rfl, rfl⟩ := h
      exact hq.weaken hfirst

/-- a terminal matcher under `generate_skip_ws` -/
theorem terminal_q {α} (hrec : QRec env u inp N rec) {ctx : Ctx} {H : Heads} {s : St} {g : Global}
    {C : Seeds → Prop} {mt : St → Res α} {fk : Seeds → Nat → St → SOut Parsed} {r : Res Parsed} {g' : Global}
    (h : Peg.withSkipWs rec ctx s g (fun s g => some ((mt s).map (fun _ => ([] : Parsed)), g)) = some (r, g'))
    (hpre : PreLR env u inp N H s g)
    (hsafe : ctx.skipWs = true → SafeH H s.off (fun Q md => ChkR env N Q md "Whitespace"))
    (hC : ctx.skipWs = true → ∀ σ, C σ → Compat H σ g s.off (fun Q md => ChkR env N Q md "Whitespace")) :
    QPost env u inp N (fun M => ∃ σ, C σ ∧
      Spec.withSkipWs (SpecLR.eval env u M σ) ctx (clr s) (fk σ M) ≠ none) g g' := by
  refine withSkipWs_q hrec h hpre hsafe hC ?_
  intro s1 g1 h _ _ _
  simp only [Option.some.injEq, Prod.mk.injEq] at h
  obtain ⟨rfl, rfl⟩ := h
  exact ⟨Step.refl _ _, QPost.refl _ _⟩

theorem stepExpr_q (hrec : QRec env u inp N rec) (n : Nat) {H : Heads} {ctx e s g r g'}
    (h : stepExpr env rec n ctx e s g = some (r, g')) (hpre : PreLR env u inp N H s g)
    (hsafe : SafeH H s.off (fun Q md => ChkE env N Q md ctx.skipWs e)) :
    QPost env u inp N (fun M => ∃ σ, Compat H σ g s.off (fun Q md => ChkE env N Q md ctx.skipWs e) ∧
      Spec.stepExpr env (SpecLR.eval env u M σ) M ctx e (clr s) ≠ none) g g' := by
  cases e with
  | choice alts =>
    match alts with
    | [] =>
      simp only [stepExpr, Option.some.injEq, Prod.mk.injEq] at h
      obtain ⟨rfl, rfl⟩ := h
      exact QPost.refl _ _
    | [a] =>
      simp only [stepExpr] at h
      exact hrec.expr_imp (Imp.of fun Q md hq => hq.choice a (List.mem_cons_self ..)) h hpre hsafe
    | a :: b :: rest =>
      simp only [stepExpr] at h
      have himp : Imp (fun Q md => ChkE env N Q md ctx.skipWs (.choice (a :: b :: rest)))
          (AltsP env N ctx.skipWs (a :: b :: rest)) := Imp.of fun Q md hq => hq.choice
      exact (evalAlts_q hrec _ _ _ _ _ h hpre (hsafe.imp himp)).weaken
        (fun M ⟨σ, hσ, hc⟩ => ⟨σ, hσ.imp hpre.le himp, hc⟩)
  | seq parts =>
    match parts with
    | [] =>
      simp only [stepExpr, Option.some.injEq, Prod.mk.injEq] at h
      obtain ⟨rfl, rfl⟩ := h
      exact QPost.refl _ _
    | [a] =>
      simp only [stepExpr] at h
      exact hrec.expr_imp (Imp.of fun Q md hq => hq.seq1) h hpre hsafe
    | a :: b :: rest =>
      simp only [stepExpr] at h
      simp only [Spec.stepExpr]
      have himp : Imp (fun Q md => ChkE env N Q md ctx.skipWs (.seq (a :: b :: rest)))
          (fun Q md => ChkSeq env N Q md ctx.skipWs (a :: b :: rest)) := Imp.of fun Q md hq => hq.seq
      refine (bindR_q_quiet h (fun rx gx hx => evalSeq_q hrec _ _ _ _ _ _ _ hx hpre (hsafe.imp himp)) ?_).weaken
        (fun M ⟨σ, hσ, hc⟩ => ⟨σ, hσ.imp hpre.le himp, bindS_ne_none hc⟩)
      intro v s1 g1 h
      obtain ⟨seen, acc⟩ := v
      simp only at h
      split at h <;>
        (simp only [Option.some.injEq, Prod.mk.injEq] at h; obtain ⟨_, rfl⟩ := h; exact ⟨[], rfl, Quiet.nil⟩)
  | group b =>
    simp only [stepExpr] at h
    exact hrec.expr_imp (Imp.of fun Q md hq => hq.group) h hpre hsafe
  | opt b =>
    simp only [stepExpr] at h
    have himp : Imp (fun Q md => ChkE env N Q md ctx.skipWs (.opt b))
        (fun Q md => ChkE env N Q md ctx.skipWs b) := Imp.of fun Q md hq => hq.opt
    split at h
    · cases h
    · rename_i r0 s0 g0 hx
      simp only [Option.some.injEq, Prod.mk.injEq] at h
      obtain ⟨rfl, rfl⟩ := h
      exact (hrec.expr_imp himp hx hpre hsafe).weaken
        (fun M ⟨σ, hσ, hc⟩ => ⟨σ, hσ, fun h0 => hc (by simp only [Spec.stepExpr, h0])⟩)
    · rename_i e0 g0 hx
      have hg' : g' = g0 := by
        split at h <;> (simp only [Option.some.injEq, Prod.mk.injEq] at h; exact h.2.symm)
      subst hg'
      exact (hrec.expr_imp himp hx hpre hsafe).weaken
        (fun M ⟨σ, hσ, hc⟩ => ⟨σ, hσ, fun h0 => hc (by simp only [Spec.stepExpr, h0])⟩)
    · rename_i m g0 hx
      simp only [Option.some.injEq, Prod.mk.injEq] at h
      obtain ⟨rfl, rfl⟩ := h
      exact (hrec.expr_imp himp hx hpre hsafe).weaken
        (fun M ⟨σ, hσ, hc⟩ => ⟨σ, hσ, fun h0 => hc (by simp only [Spec.stepExpr, h0])⟩)
  | closure b plus =>
    simp only [stepExpr] at h
    have himp : Imp (fun Q md => ChkE env N Q md ctx.skipWs (.closure b plus))
        (fun Q md => ChkE env N Q md ctx.skipWs b) := Imp.of fun Q md hq => hq.closure
    split at h
    · simp only [Option.some.injEq, Prod.mk.injEq] at h
      obtain ⟨rfl, rfl⟩ := h
      exact QPost.refl _ _
    · rename_i init hinit
      refine (bindR_q_quiet h (fun rx gx hx => evalLoop_q hrec _ _ _ _ _ _ _ hx hpre (hsafe.imp himp)) ?_).weaken
        (fun M ⟨σ, hσ, hc⟩ => ⟨σ, hσ.imp hpre.le himp, M,
          fun h0 => hc (by simp only [Spec.stepExpr, hinit, h0, bindS])⟩)
      intro v s1 g1 h
      obtain ⟨iters, acc⟩ := v
      simp only at h
      split at h <;>
        (simp only [Option.some.injEq, Prod.mk.injEq] at h; obtain ⟨_, rfl⟩ := h; exact ⟨[], rfl, Quiet.nil⟩)
  | neg b =>
    simp only [stepExpr] at h
    have himp : Imp (fun Q md => ChkE env N Q md ctx.skipWs (.neg b))
        (fun Q md => ChkE env N Q md ctx.skipWs b) := Imp.of fun Q md hq => hq.neg
    split at h
    · cases h
    · rename_i r0 s0 g0 hx
      simp only [Option.some.injEq, Prod.mk.injEq] at h
      obtain ⟨rfl, rfl⟩ := h
      exact (hrec.expr_imp himp hx hpre hsafe).weaken
        (fun M ⟨σ, hσ, hc⟩ => ⟨σ, hσ, fun h0 => hc (by simp only [Spec.stepExpr, h0])⟩)
    · rename_i e0 g0 hx
      simp only [Option.some.injEq, Prod.mk.injEq] at h
      obtain ⟨rfl, rfl⟩ := h
      exact (hrec.expr_imp himp hx hpre hsafe).weaken
        (fun M ⟨σ, hσ, hc⟩ => ⟨σ, hσ, fun h0 => hc (by simp only [Spec.stepExpr, h0])⟩)
    · rename_i m g0 hx
      simp only [Option.some.injEq, Prod.mk.injEq] at h
      obtain ⟨rfl, rfl⟩ := h
      exact (hrec.expr_imp himp hx hpre hsafe).weaken
        (fun M ⟨σ, hσ, hc⟩ => ⟨σ, hσ, fun h0 => hc (by simp only [Spec.stepExpr, h0])⟩)
  | pos b =>
    simp only [stepExpr] at h
    simp only [Spec.stepExpr]
    refine (bindR_q_quiet h
      (fun rx gx hx => hrec.expr_imp (Imp.of fun Q md hq => hq.pos) hx hpre hsafe) ?_).weaken
      (fun M ⟨σ, hσ, hc⟩ => ⟨σ, hσ, bindS_ne_none hc⟩)
    intro v s1 g1 h
    simp only [Option.some.injEq, Prod.mk.injEq] at h
    obtain ⟨_, rfl⟩ := h
    exact ⟨[], rfl, Quiet.nil⟩
  | range lo hi =>
    simp only [stepExpr] at h
    simp only [Spec.stepExpr]
    split at h
    · rename_i lo' hi' hlo hhi
      simp only [hlo, hhi]
      exact terminal_q hrec h hpre (fun hw => hsafe.imp (Imp.of fun Q md hq => hq.range hw))
        (fun hw σ hσ => hσ.imp hpre.le (Imp.of fun Q md hq => hq.range hw))
    · simp only [Option.some.injEq, Prod.mk.injEq] at h
      obtain ⟨rfl, rfl⟩ := h
      exact QPost.refl _ _
  | lit ins body =>
    simp only [stepExpr] at h
    simp only [Spec.stepExpr]
    have hs1 := fun hw : ctx.skipWs = true =>
      hsafe.imp (Imp.of fun Q md (hq : ChkE env N Q md ctx.skipWs (.lit ins body)) => hq.lit hw)
    have hc1 := fun (hw : ctx.skipWs = true) (σ : Seeds)
        (hσ : Compat H σ g s.off (fun Q md => ChkE env N Q md ctx.skipWs (.lit ins body))) =>
      hσ.imp hpre.le (Imp.of fun Q md hq => hq.lit hw)
    split at h
    · rename_i mt hmt
      simp only [hmt]
      cases mt <;> exact terminal_q hrec h hpre hs1 hc1
    · simp only [Option.some.injEq, Prod.mk.injEq] at h
      obtain ⟨rfl, rfl⟩ := h
      exact QPost.refl _ _
  | eoi =>
    simp only [stepExpr] at h
    simp only [Spec.stepExpr]
    exact terminal_q hrec h hpre (fun hw => hsafe.imp (Imp.of fun Q md hq => hq.eoi hw))
      (fun hw σ hσ => hσ.imp hpre.le (Imp.of fun Q md hq => hq.eoi hw))
  | incl r0 =>
    simp only [stepExpr] at h
    simp only [Spec.stepExpr]
    split at h
    · simp only [Option.some.injEq, Prod.mk.injEq] at h
      obtain ⟨rfl, rfl⟩ := h
      exact QPost.refl _ _
    · rename_i rule hf
      simp only [hf]
      exact hrec.expr_imp (Imp.of fun Q md hq => hq.incl hf) h hpre hsafe
  | field name boxed typ =>
    simp only [stepExpr] at h
    simp only [Spec.stepExpr]
    have himpT : Imp (fun Q md => ChkE env N Q md ctx.skipWs (.field name boxed typ))
        (fun Q md => ChkR env N Q md typ) := Imp.of fun Q md hq => hq.field.2
    refine withSkipWs_q (fk := fun σ m s =>
        bindS ((SpecLR.eval env u m σ).rule typ s) fun v s' =>
          match name with
          | none => some (.ok [] s')
          | some nm =>
            match postprocessField ctx.ruleFields nm.key typ v with
            | .ok fv => some (.ok [(nm.key, fv)] s')
            | .error m => some (.panic ("codegen: " ++ m))) hrec h hpre
      (fun hw => hsafe.imp (Imp.of fun Q md hq => hq.field.1 hw))
      (fun hw σ hσ => hσ.imp hpre.le (Imp.of fun Q md hq => hq.field.1 hw)) ?_
    intro s1 g1 h hp1 ho1 hk1
    refine ⟨?_, (bindR_q_quiet h
      (fun rx gx hx => hrec.rule _ _ _ _ _ _ hx hp1 (hsafe.next hpre.le ho1 (fun _ => himpT))) ?_).weaken
      (fun M ⟨σ, hσ, hc⟩ => ⟨σ, hσ.next hk1 hpre.le ho1 (fun _ => himpT), bindS_ne_none hc⟩)⟩
    · refine (bindR_pinv (hrec.pk.rule typ s1 trivial) (fun v s' _ => ?_) _ _ _ h (cacheB_true _)).1
      cases name with
      | none => exact PInv.pure _ (resB_true _)
      | some nm =>
        simp only []
        cases hp : postprocessField ctx.ruleFields nm.key typ v with
        | error m => simp only []; exact PInv.pure _ (resB_true _)
        | ok fv => simp only []; exact PInv.pure _ (resB_true _)
    · intro v s2 g2 h2
      cases name with
      | none =>
        simp only [Option.some.injEq, Prod.mk.injEq] at h2
        obtain ⟨_, rfl⟩ := h2; exact ⟨[], rfl, Quiet.nil⟩
      | some nm =>
        simp only at h2
        split at h2 <;>
          (simp only [Option.some.injEq, Prod.mk.injEq] at h2; obtain ⟨_, rfl⟩ := h2; exact ⟨[], rfl, Quiet.nil⟩)

/-! ### rule level -/

theorem ruleBody_q (hrec : QRec env u inp N rec) {r0 : Rule} {H : Heads} {s g r g'}
    (h : ruleBody env rec r0 s g = some (r, g')) (hpre : PreLR env u inp N H s g)
    (hsafe : SafeH H s.off (fun Q md => ChkE env N Q md (ruleW env r0) r0.definition)) :
    QPost env u inp N (fun M => ∃ σ,
      Compat H σ g s.off (fun Q md => ChkE env N Q md (ruleW env r0) r0.definition) ∧
      Spec.ruleBody env u (SpecLR.eval env u M σ) r0 (clr s) ≠ none) g g' := by
  unfold ruleBody at h
  unfold Spec.ruleBody
  split at h
  · rename_i fields hf
    simp only [hf]
    simp only at h
    split at h
    · rename_i hc
      simp only [if_pos hc]
      exact (bindR_q_quiet h (fun rx gx hx => hrec.expr _ _ _ _ _ _ _ hx hpre hsafe)
        (fun v s1 g1 h => runChecks_quiet _ _ _ _ _ _ h)).weaken
        (fun M ⟨σ, hσ, hc⟩ => ⟨σ, hσ, bindS_ne_none hc⟩)
    · rename_i hc
      simp only [if_neg hc]
      split at h
      · rename_i hc2
        simp only [if_pos hc2]
        refine (bindR_q_quiet h (fun rx gx hx => hrec.expr _ _ _ _ _ _ _ hx hpre hsafe) ?_).weaken
          (fun M ⟨σ, hσ, hc⟩ => ⟨σ, hσ, bindS_ne_none hc⟩)
        intro v s1 g1 h
        split at h
        · exact runChecks_quiet _ _ _ _ _ _ h
        · simp only [Option.some.injEq, Prod.mk.injEq] at h
          obtain ⟨_, rfl⟩ := h; exact ⟨[], rfl, Quiet.nil⟩
      · rename_i hc2
        simp only [if_neg hc2]
        split at h
        · simp only [Option.some.injEq, Prod.mk.injEq] at h
          obtain ⟨rfl, rfl⟩ := h
          exact QPost.refl _ _
        · rename_i hc3
          simp only [if_neg hc3]
          refine (bindR_q_quiet h (fun rx gx hx => hrec.expr _ _ _ _ _ _ _ hx hpre hsafe) ?_).weaken
            (fun M ⟨σ, hσ, hc⟩ => ⟨σ, hσ, bindS_ne_none hc⟩)
          intro v s1 g1 h
          split at h
          · exact runChecks_quiet _ _ _ _ _ _ h
          · simp only [Option.some.injEq, Prod.mk.injEq] at h
            obtain ⟨_, rfl⟩ := h; exact ⟨[], rfl, Quiet.nil⟩
  · simp only [Option.some.injEq, Prod.mk.injEq] at h
    obtain ⟨rfl, rfl⟩ := h
    exact QPost.refl _ _

/-- everything about one evaluation of a rule body -/
theorem ruleBody_sub (hrec : QRec env u inp N rec) (hp : PureHooks env.hooks) {r0 : Rule} {H : Heads}
    {s g r g'} (h : ruleBody env rec r0 s g = some (r, g')) (hpre : PreLR env u inp N H s g)
    (hsafe : SafeH H s.off (fun Q md => ChkE env N Q md (ruleW env r0) r0.definition)) :
    Sub env u inp N H s g
      (fun σ => Compat H σ g s.off (fun Q md => ChkE env N Q md (ruleW env r0) r0.definition))
      (fun σ m => Spec.ruleBody env u (SpecLR.eval env u m σ) r0 (clr s)) r g' :=
  ⟨Full.of hpre (LR.ruleBody_inv hrec.ref.rinv r0 s _ _ _ h) (ruleBody_postLR hrec.ref hp h hpre hsafe),
    (ruleBody_pinv hrec.pk r0 s trivial _ _ _ h (cacheB_true _)).1, ruleBody_q hrec h hpre hsafe⟩

/-- **the grow loop**: the iterations of the model against the iterations of `SpecLR.growLoop` -/
theorem growLoop_q (hrec : QRec env u inp N rec) (hp : PureHooks env.hooks) {r0 : Rule} {H : Heads}
    {s : St} (hlrk : IsLR env r0.name) (hev : EvOk env PT r0.name s.off)
    (hself : ChkE env N r0.name true (ruleW env r0) r0.definition)
    (hothers : ∀ Q, (Q, s.off) ∈ H → ChkE env N Q false (ruleW env r0) r0.definition) :
    ∀ k best g res g', growLoop (ruleBody env rec r0) (r0.name, s.off) s k best g = some (res, g') →
      PreLR env u inp N ((r0.name, s.off) :: H) s g → g.lookup (r0.name, s.off) = some best →
      (∀ m, best ≠ .panic m) →
      QPost env u inp N (fun M => ∃ σ, GrowC env N H r0 s.off σ ∧ ∃ c,
        SpecLR.growLoop (fun seed =>
          Spec.ruleBody env u (SpecLR.eval env u M (((r0.name, s.off), seed) :: σ)) r0 (clr s)) c (abs best)
          ≠ none) g g' := by
  intro k
  induction k with
  | zero => intro best g res g' h; simp [growLoop] at h
  | succ k ih =>
    intro best g res g' h hpre hl hbp
    rw [growLoop_succ] at h
    have hpre0 : PreLR env u inp N ((r0.name, s.off) :: H) s (growPre (r0.name, s.off) g) :=
      hpre.of_cache rfl rfl
    have hsafe' : SafeH ((r0.name, s.off) :: H) s.off
        (fun Q md => ChkE env N Q md (ruleW env r0) r0.definition) := by
      intro Q hq
      rcases List.mem_cons.1 hq with he | hm
      · have : Q = r0.name := (Prod.mk.inj he).1
        subst this
        exact Or.inr hself
      · exact Or.inl (hothers Q hm)
    have hlog0 : (growPre (r0.name, s.off) g).log =
        [Ev.bodyEval r0.name s.off, Ev.info "Starting new left recursive loop"] ++ g.log := rfl
    have hstep0 : Step env PT g false (growPre (r0.name, s.off) g) :=
      Step.pre (key := (r0.name, s.off)) g hlrk hev
    -- the body evaluation of this iteration: refinement, packrat step, convergence tracking
    have hfirst : ∀ rb gb, ruleBody env rec r0 s (growPre (r0.name, s.off) g) = some (rb, gb) →
        Full env u inp N ((r0.name, s.off) :: H) s (growPre (r0.name, s.off) g)
          (fun σ' => Compat ((r0.name, s.off) :: H) σ' (growPre (r0.name, s.off) g) s.off
            (fun Q md => ChkE env N Q md (ruleW env r0) r0.definition))
          (fun σ' m => Spec.ruleBody env u (SpecLR.eval env u m σ') r0 (clr s)) rb gb ∧
        Step env PT (growPre (r0.name, s.off) g) rb.isPanic gb ∧
        QPost env u inp N (fun M => ∃ σ, GrowC env N H r0 s.off σ ∧ ∃ c,
          SpecLR.growLoop (fun seed =>
            Spec.ruleBody env u (SpecLR.eval env u M (((r0.name, s.off), seed) :: σ)) r0 (clr s)) c (abs best)
            ≠ none) g gb := by
      intro rb gb hb
      obtain ⟨hF, hS, hQ⟩ := ruleBody_sub hrec hp hb hpre0 hsafe'
      refine ⟨hF, hS, QPost.quiet_before hlog0 (quietM_growPre (key := (r0.name, s.off)) hlrk) (hQ.weaken ?_)⟩
      rintro M ⟨σ, hσ, c, hc⟩
      refine ⟨((r0.name, s.off), abs best) :: σ, compat_grow hσ hself hl, fun h0 => ?_⟩
      cases c with
      | zero => exact hc (by simp [SpecLR.growLoop])
      | succ c => exact hc (by simp only [SpecLR.growLoop, h0])
    -- the reference body evaluation of this iteration is the abstraction of the model's
    have hbodyEq : ∀ rb gb, ruleBody env rec r0 s (growPre (r0.name, s.off) g) = some (rb, gb) →
        ∀ M σ, GrowC env N H r0 s.off σ → ∀ y,
          Spec.ruleBody env u (SpecLR.eval env u M (((r0.name, s.off), abs best) :: σ)) r0 (clr s) = some y →
          y = abs rb := by
      intro rb gb hb M σ hσ y hy
      exact det_ruleBodyLR _ r0 _ M y _ hy ((hfirst rb gb hb).1.evt _ (compat_grow hσ hself hl))
    -- the recursive call after an improvement
    have hrecur : ∀ v ns gb, ruleBody env rec r0 s (growPre (r0.name, s.off) g) = some (.ok v ns, gb) →
        growLoop (ruleBody env rec r0) (r0.name, s.off) s k (.ok v ns) (gb.insert (r0.name, s.off) (.ok v ns))
          = some (res, g') →
        (∀ M σ, GrowC env N H r0 s.off σ → ∀ c,
          SpecLR.growLoop (fun seed =>
            Spec.ruleBody env u (SpecLR.eval env u M (((r0.name, s.off), seed) :: σ)) r0 (clr s)) (c + 1)
            (abs best) ≠ none →
          Spec.ruleBody env u (SpecLR.eval env u M (((r0.name, s.off), abs best) :: σ)) r0 (clr s)
            = some (.ok v (clr ns)) →
          SpecLR.growLoop (fun seed =>
            Spec.ruleBody env u (SpecLR.eval env u M (((r0.name, s.off), seed) :: σ)) r0 (clr s)) c
            (.ok v (clr ns)) ≠ none) →
        QPost env u inp N (fun M => ∃ σ, GrowC env N H r0 s.off σ ∧ ∃ c,
          SpecLR.growLoop (fun seed =>
            Spec.ruleBody env u (SpecLR.eval env u M (((r0.name, s.off), seed) :: σ)) r0 (clr s)) c (abs best)
            ≠ none) g g' := by
      intro v ns gb hb h hnext
      obtain ⟨hF, hS, hQ⟩ := hfirst _ _ hb
      obtain ⟨hp1, ho⟩ := hF.ok v ns rfl
      have hpre1 : PreLR env u inp N ((r0.name, s.off) :: H) s (gb.insert (r0.name, s.off) (.ok v ns)) :=
        ⟨hpre.wf, hpre.within,
          GoodLR.insert hp1.good (List.mem_cons_self ..) (fun v' s' he => by cases he; exact hp1.wf),
          LR.cacheW_insert hF.cw (fun v' s' he => by cases he; exact ⟨ho, hp1.within⟩), hpre.le⟩
      have hQrest := ih _ _ _ _ h hpre1 (LR.lookup_insert_self _ _ _) (fun m hm => by cases hm)
      have hS1 : Step env PT g false (gb.insert (r0.name, s.off) (.ok v ns)) :=
        hstep0.trans (hS.trans (Step.lrInsert (key := (r0.name, s.off)) _ _ hlrk _))
      have hQ1 : QPost env u inp N (fun M => ∃ σ, GrowC env N H r0 s.off σ ∧ ∃ c,
          SpecLR.growLoop (fun seed =>
            Spec.ruleBody env u (SpecLR.eval env u M (((r0.name, s.off), seed) :: σ)) r0 (clr s)) c (abs best)
            ≠ none) g (gb.insert (r0.name, s.off) (.ok v ns)) :=
        hQ.quiet_after (l := []) rfl QuietM.nil
      have hS2 := (growLoop_pinv (P := PT) (key := (r0.name, s.off)) (ruleBody_pinv hrec.pk r0 s trivial) hlrk hev k
        (resB_true _) _ _ _ h (cacheB_true _)).1
      refine QPost.seq hS1 hQ1 hS2 hQrest (fun M hc => ⟨hc, ?_⟩)
      obtain ⟨σ, hσ, c, hc⟩ := hc
      cases c with
      | zero => exact absurd (by simp [SpecLR.growLoop]) hc
      | succ c =>
        cases hy : Spec.ruleBody env u (SpecLR.eval env u M (((r0.name, s.off), abs best) :: σ)) r0 (clr s) with
        | none => exact absurd (by simp only [SpecLR.growLoop, hy]) hc
        | some y =>
          have := hbodyEq _ _ hb M σ hσ y hy
          subst this
          exact ⟨σ, hσ, c, hnext M σ hσ c hc hy⟩
    split at h
    · cases h
    · -- the body panics
      rename_i msg gb hb
      simp only [Option.some.injEq, Prod.mk.injEq] at h
      obtain ⟨rfl, rfl⟩ := h
      exact (hfirst _ _ hb).2.2
    · -- the body succeeds
      rename_i v ns gb hb
      cases best with
      | panic msg => exact absurd rfl (hbp msg)
      | ok bv bs =>
        simp only at h
        split at h
        · rename_i hfur
          refine hrecur v ns gb hb h (fun M σ hσ c hc hy => ?_)
          have hfur' : (clr ns).isFurtherThan (clr bs) = true := hfur
          simp only [abs] at hy
          simp only [SpecLR.growLoop, abs, hy, hfur', if_true] at hc
          exact hc
        · simp only [Option.some.injEq, Prod.mk.injEq] at h
          obtain ⟨rfl, rfl⟩ := h
          exact (hfirst _ _ hb).2.2
      | err be =>
        simp only at h
        refine hrecur v ns gb hb h (fun M σ hσ c hc hy => ?_)
        simp only [abs] at hy
        simp only [SpecLR.growLoop, abs, hy] at hc
        exact hc
    · -- the body fails
      rename_i e gb hb
      cases best with
      | panic msg => exact absurd rfl (hbp msg)
      | ok bv bs =>
        simp only [Option.some.injEq, Prod.mk.injEq] at h
        obtain ⟨rfl, rfl⟩ := h
        exact (hfirst _ _ hb).2.2
      | err be =>
        simp only [Option.some.injEq, Prod.mk.injEq] at h
        obtain ⟨rfl, rfl⟩ := h
        exact (hfirst _ _ hb).2.2.quiet_after (l := []) rfl QuietM.nil

/-! ### admissible seed environments; the canonical compatible one -/

/-- for a memoized rule that is not `@leftrec`, a reference in safe mode for a head is a reference in
    avoid mode -/
theorem memo_avoid {name : String} {r0 : Rule} (hfind : env.g.find name = some (.rule r0))
    (hlr' : r0.flags.leftRecursive = false) (hmemo : r0.flags.memoize = true) {Q : String}
    (hq : ChkR env N Q true name) : ChkR env N Q false name := by
  rcases hq.rule hfind with ⟨_, _, h3⟩ | ⟨h1, _⟩ | ⟨_, _, h3, _⟩
  · rw [hlr'] at h3; cases h3
  · exact hq.to_avoid hfind h1 (Or.inr hmemo)
  · rw [hmemo] at h3; cases h3

/-- compatible ⇒ admissible (memoized rule) -/
theorem adm_of_compat {name : String} {r0 : Rule} (hfind : env.g.find name = some (.rule r0))
    (hlr' : r0.flags.leftRecursive = false) (hmemo : r0.flags.memoize = true)
    {H : Heads} {σ : Seeds} {g : Global} {off : Nat}
    (hσ : Compat H σ g off (fun Q md => ChkR env N Q md name)) : Adm env N σ name off := by
  intro Q q seed hs
  have hle := hσ.1 _ _ hs
  simp only at hle
  by_cases hq : q = off
  · subst hq
    refine Or.inr ⟨rfl, ?_⟩
    rcases hσ.2 Q (Or.inr (by simp [hs])) with h0 | ⟨h0, _⟩
    · exact h0
    · exact memo_avoid hfind hlr' hmemo h0
  · left; omega

/-- admissible ⇒ compatible (memoized rule, at a safe position) -/
theorem compat_of_adm {name : String} {r0 : Rule} (hfind : env.g.find name = some (.rule r0))
    (hlr' : r0.flags.leftRecursive = false) (hmemo : r0.flags.memoize = true)
    {H : Heads} {σ : Seeds} {g : Global} {off : Nat}
    (hsafe : SafeH H off (fun Q md => ChkR env N Q md name)) (ha : Adm env N σ name off) :
    Compat H σ g off (fun Q md => ChkR env N Q md name) := by
  refine ⟨fun k seed hs => ?_, fun Q hq => Or.inl ?_⟩
  · rcases ha k.1 k.2 seed hs with h1 | ⟨h1, _⟩
    · exact Nat.le_of_lt h1
    · exact Nat.le_of_eq h1
  · rcases hq with hq | hq
    · rcases hsafe Q hq with h0 | h0
      · exact h0
      · exact memo_avoid hfind hlr' hmemo h0
    · cases hs : seedOf σ (Q, off) with
      | none => simp [hs] at hq
      | some seed =>
        rcases ha _ _ seed hs with h1 | ⟨_, h2⟩
        · omega
        · exact h2

/-- the seed environment read off the model state: every growing head with its current seed -/
def canon (H : Heads) (g : Global) : Seeds :=
  H.filterMap (fun k => (g.lookup k).map (fun r => (k, abs r)))

theorem canon_cons (k0 : String × Nat) (H : Heads) (g : Global) :
    canon (k0 :: H) g = match g.lookup k0 with
      | some r => (k0, abs r) :: canon H g
      | none => canon H g := by
  unfold canon
  rw [List.filterMap_cons]
  cases g.lookup k0 <;> rfl

theorem seedOf_canon_some {g : Global} {k : String × Nat} {x : Res Val} :
    ∀ {H : Heads}, seedOf (canon H g) k = some x → k ∈ H ∧ ∃ r, g.lookup k = some r ∧ x = abs r := by
  intro H
  induction H with
  | nil => intro h; simp [canon, seedOf] at h
  | cons k0 H ih =>
    intro h
    rw [canon_cons] at h
    cases hl0 : g.lookup k0 with
    | none =>
      rw [hl0] at h
      obtain ⟨h1, h2⟩ := ih h
      exact ⟨List.mem_cons_of_mem _ h1, h2⟩
    | some r0 =>
      rw [hl0] at h
      simp only at h
      rw [seedOf_cons] at h
      split at h
      · rename_i hk
        have hk' := eq_of_beq hk
        subst hk'
        exact ⟨List.mem_cons_self .., r0, hl0, (Option.some.inj h).symm⟩
      · obtain ⟨h1, h2⟩ := ih h
        exact ⟨List.mem_cons_of_mem _ h1, h2⟩

theorem seedOf_canon_mem {g : Global} {k : String × Nat} {r : Res Val} (hl : g.lookup k = some r) :
    ∀ {H : Heads}, k ∈ H → seedOf (canon H g) k = some (abs r) := by
  intro H
  induction H with
  | nil => intro h; cases h
  | cons k0 H ih =>
    intro hk
    rw [canon_cons]
    by_cases he : k0 = k
    · subst he
      rw [hl]
      simp only
      exact seedOf_cons_self _ _ _
    · have hk' : k ∈ H := by
        rcases List.mem_cons.1 hk with h | h
        · exact absurd h.symm he
        · exact h
      cases hl0 : g.lookup k0 with
      | none => simp only; exact ih hk'
      | some r0 =>
        simp only
        rw [seedOf_cons_ne _ _ (fun h => he h.symm)]
        exact ih hk'

theorem compat_canon {H : Heads} {s : St} {g : Global} {P : PosP} (hpre : PreLR env u inp N H s g)
    (hsafe : SafeH H s.off P) : Compat H (canon H g) g s.off P := by
  refine ⟨fun k seed hs => hpre.le k (seedOf_canon_some hs).1, fun Q hq => ?_⟩
  have hmem : (Q, s.off) ∈ H := by
    rcases hq with hq | hq
    · exact hq
    · cases hs : seedOf (canon H g) (Q, s.off) with
      | none => simp [hs] at hq
      | some x => exact (seedOf_canon_some hs).1
  rcases hsafe Q hmem with h0 | h0
  · exact Or.inl h0
  · obtain ⟨r, hr⟩ := hpre.good.heads _ hmem
    exact Or.inr ⟨h0, hmem, r, hr, seedOf_canon_mem hr hmem⟩

/-! ### normal rules -/

/-- **no re-entry**: while the body of a memoized (non-`@leftrec`) rule is evaluated at `s` (and that
    evaluation returns), the rule is not invoked again at the same offset.  The least fuel with which
    the reference semantics answers for the rule at this offset – under ANY admissible seed
    environment – would not be the least. -/
theorem no_nested_start (hrec : QRec env u inp N rec) (hp : PureHooks env.hooks) {r0 : Rule}
    (hfind : env.g.find r0.name = some (.rule r0))
    (hlr' : r0.flags.leftRecursive = false) (hmemo : r0.flags.memoize = true)
    {H : Heads} {s g g0 r g'}
    (h : ruleBody env rec r0 s g0 = some (r, g')) (hpre : PreLR env u inp N H s g)
    (hc0 : g0.cache = g.cache) (hu0 : g0.uctx = g.uctx)
    (hsafe : SafeH H s.off (fun Q md => ChkR env N Q md r0.name))
    {l : List Ev} (hl : g'.log = l ++ g0.log) : Ev.traceStart r0.name s.off ∉ l := by
  intro hmem
  have himp : Imp (fun Q md => ChkR env N Q md r0.name)
      (fun Q md => ChkE env N Q md (ruleW env r0) r0.definition) := by
    refine ⟨fun Q hq => (hq.avoid_ne hfind).2, fun Q hq => ?_⟩
    rcases hq.rule hfind with ⟨_, _, h3⟩ | ⟨_, h2⟩ | ⟨_, _, _, h4⟩
    · rw [hlr'] at h3; cases h3
    · exact Or.inl h2
    · exact Or.inr h4
  have hpre0 : PreLR env u inp N H s g0 := hpre.of_cache hc0 hu0
  have hcb : ∀ σ, Compat H σ g s.off (fun Q md => ChkR env N Q md r0.name) →
      Compat H σ g0 s.off (fun Q md => ChkE env N Q md (ruleW env r0) r0.definition) :=
    fun σ hσ => hσ.next (fun k x hx => by rw [LR.lookup_of_cache_eq hc0]; exact hx) hpre.le
      (Nat.le_refl _) (fun _ => himp)
  obtain ⟨hF, _, l', hq⟩ := ruleBody_sub hrec hp h hpre0 (hsafe.imp himp)
  have : l = l' := List.append_cancel_right (hl.symm.trans hq.log)
  subst this
  -- the reference answers under the canonical seed environment …
  have hcan : Compat H (canon H g) g s.off (fun Q md => ChkR env N Q md r0.name) := compat_canon hpre hsafe
  obtain ⟨m0, h0⟩ := hF.evt _ (hcb _ hcan)
  -- … so there is a least fuel over all admissible environments
  obtain ⟨M0, ⟨σs, has, hnes⟩, hleast⟩ := exists_least
    (p := fun M => ∃ σ, Adm env N σ r0.name s.off ∧
      Spec.ruleBody env u (SpecLR.eval env u M σ) r0 (clr s) ≠ none)
    ⟨m0, canon H g, adm_of_compat hfind hlr' hmemo hcan, ne_none_of_eq_some (h0 m0 (Nat.le_refl _))⟩
  have hst := hq.q M0 ⟨σs, hcb _ (compat_of_adm hfind hlr' hmemo hsafe has), hnes⟩ _ _ hmem
    ⟨r0, hfind, hmemo, hlr'⟩
  obtain ⟨σe, hae, hce⟩ := hst
  cases M0 with
  | zero => exact hce rfl
  | succ M1 =>
    refine hleast M1 (Nat.lt_succ_self _) ⟨σe, hae, ?_⟩
    rw [← clr_eq_of_wf hpre.wf] at hce
    have : (SpecLR.eval env u (M1 + 1) σe).rule r0.name (clr s) =
        Spec.ruleBody env u (SpecLR.eval env u M1 σe) r0 (clr s) :=
      specLR_stepRule_plain hfind hlr' _ _ _ _
    rw [this] at hce
    exact hce

theorem normalRule_q (hrec : QRec env u inp N rec) (hp : PureHooks env.hooks) (hok : LRHyp env N)
    (n : Nat) {H : Heads} {r0 : Rule} (hfind : env.g.find r0.name = some (.rule r0))
    {s g res g'} (h : normalRule env rec n r0 s g = some (res, g')) (hpre : PreLR env u inp N H s g)
    (hsafe : SafeH H s.off (fun Q md => ChkR env N Q md r0.name)) :
    QPost env u inp N (fun M => ∃ M', M = M' + 1 ∧ ∃ σ,
      Compat H σ g s.off (fun Q md => ChkR env N Q md r0.name) ∧
      SpecLR.stepRule env u (SpecLR.eval env u M') M' σ r0.name (clr s) ≠ none) g g' := by
  have hmem : RuleEntry.rule r0 ∈ env.g.rules := List.mem_of_find?_eq_some hfind
  simp only [normalRule] at h
  split at h
  · cases h
  · rename_i res1 g1 hx
    simp only [Option.some.injEq, Prod.mk.injEq] at h
    obtain ⟨rfl, rfl⟩ := h
    have hpre0 : PreLR env u inp N H s (g.emit (.traceStart r0.name s.off)) := hpre.emit _
    -- the events of the memoized body
    have hA : ∃ lm, g1.log = lm ++ (g.emit (.traceStart r0.name s.off)).log ∧
        (∀ M', (∃ σ, Compat H σ g s.off (fun Q md => ChkR env N Q md r0.name) ∧
            SpecLR.stepRule env u (SpecLR.eval env u M') M' σ r0.name (clr s) ≠ none) →
          StartsLR env u inp N M' lm) ∧
        (∀ k : String × Nat, ¬ IsLR env k.1 → evals lm k ≤ 1) ∧
        (∀ n o, ¬ IsLR env n → Ev.bodyEval n o ∈ lm →
          (n, o) = (r0.name, s.off) ∨ Ev.traceStart n o ∈ lm) := by
      unfold memoBody at hx
      simp only at hx
      by_cases hlr : r0.flags.leftRecursive = true
      · -- @leftrec
        simp only [hlr, if_true] at hx
        have hlrk : IsLR env r0.name := isLR_of_find hfind hlr
        have havoid : (r0.name, s.off) ∉ H → ∀ Q, ChkR env N Q true r0.name → (Q, s.off) ∈ H →
            ChkR env N Q false r0.name := by
          intro hnm Q hq hqm
          rcases hq.rule hfind with ⟨h1, _, _⟩ | ⟨h1, _⟩ | ⟨_, h2, _⟩
          · exact absurd (h1 ▸ hqm) hnm
          · exact hq.to_avoid hfind h1 (Or.inl hlr)
          · rw [hlr] at h2; cases h2
        split at hx
        · -- hit
          simp only [Option.some.injEq, Prod.mk.injEq] at hx
          obtain ⟨_, rfl⟩ := hx
          refine ⟨[.info "Cache hit (left recursive)"], rfl, ?_, ?_, ?_⟩
          · intro M _ name off hm
            simp only [List.mem_singleton] at hm; cases hm
          · intro k _; simp [evals, isBodyEval]
          · intro n o _ hm
            simp only [List.mem_singleton] at hm; cases hm
        · -- miss: the grow loop
          rename_i hmiss
          have hmiss' : g.lookup (r0.name, s.off) = none := hmiss
          have hin : (r0.name, s.off) ∉ H := by
            intro hin
            obtain ⟨r1, hr1⟩ := hpre.good.heads _ hin
            rw [hmiss'] at hr1; cases hr1
          have hself := hok r0 hmem hlr
          have hothers : ∀ Q, (Q, s.off) ∈ H → ChkE env N Q false (ruleW env r0) r0.definition := by
            intro Q hq
            rcases hsafe Q hq with h0 | h0
            · exact (h0.avoid_ne hfind).2
            · exact ((havoid hin Q h0 hq).avoid_ne hfind).2
          have hpre1 : PreLR env u inp N ((r0.name, s.off) :: H) s
              ((g.emit (.traceStart r0.name s.off)).insert (r0.name, s.off)
                (.err (s.reportError .leftRecursionSentinel))) := by
            refine ⟨hpre.wf, hpre.within, ⟨hpre.good.uctx, fun k hk => ?_, fun k r1 hl1 hk => ?_,
              fun k v s' hl1 => ?_⟩, LR.cacheW_insert hpre0.cw (fun v s' he => by cases he), ?_⟩
            · rcases List.mem_cons.1 hk with he | hk'
              · subst he; exact ⟨_, LR.lookup_insert_self _ _ _⟩
              · have hne : k ≠ (r0.name, s.off) := fun he => hin (he ▸ hk')
                rw [LR.lookup_insert_ne _ _ hne]
                exact hpre.good.heads k hk'
            · have hne : k ≠ (r0.name, s.off) := fun he => hk (he ▸ List.mem_cons_self ..)
              rw [LR.lookup_insert_ne _ _ hne] at hl1
              exact hpre.good.valid k r1 hl1 (fun hk' => hk (List.mem_cons_of_mem _ hk'))
            · by_cases he : k = (r0.name, s.off)
              · subst he
                rw [LR.lookup_insert_self] at hl1
                cases hl1
              · rw [LR.lookup_insert_ne _ _ he] at hl1
                exact hpre.good.wf k v s' hl1
            · intro k hk
              rcases List.mem_cons.1 hk with he | hk'
              · subst he; exact Nat.le_refl _
              · exact hpre.le k hk'
          have hev : EvOk env PT r0.name s.off :=
            ⟨⟨r0, hfind, Or.inr hlr⟩, s.off, trivial, Nat.le_refl _⟩
          obtain ⟨lm, hqt⟩ := growLoop_q hrec hp hlrk hev hself hothers _ _ _ _ _ hx hpre1
            (LR.lookup_insert_self _ _ _) (fun m hm => by cases hm)
          refine ⟨lm, hqt.log, ?_, hqt.o, fun n o hn hm => Or.inr (hqt.c n o hn hm)⟩
          rintro M' ⟨σ, hσ, hc⟩
          have hseed : seedOf σ (r0.name, s.off) = none := by
            cases hs : seedOf σ (r0.name, s.off) with
            | none => rfl
            | some seed =>
              rcases hσ.2 r0.name (Or.inr (by simp [hs])) with h0 | ⟨_, hm', _⟩
              · exact absurd rfl (h0.avoid_ne hfind).1
              · exact absurd hm' hin
          rw [specLR_stepRule_grow hfind hlr _ _ _ (clr s) hseed] at hc
          refine hqt.q M' ⟨σ, ⟨hσ.1, hseed, fun Q hQ hq => ?_⟩, M', hc⟩
          rcases hσ.2 Q hq with h0 | ⟨h0, hm', _⟩
          · exact (h0.avoid_ne hfind).2
          · exact ((havoid hin Q h0 hm').avoid_ne hfind).2
      · -- not @leftrec
        have hlr' : r0.flags.leftRecursive = false := by simpa using hlr
        simp only [hlr', Bool.false_eq_true, if_false] at hx
        have himp : Imp (fun Q md => ChkR env N Q md r0.name)
            (fun Q md => ChkE env N Q md (ruleW env r0) r0.definition) := by
          refine ⟨fun Q hq => (hq.avoid_ne hfind).2, fun Q hq => ?_⟩
          rcases hq.rule hfind with ⟨_, _, h3⟩ | ⟨_, h2⟩ | ⟨_, _, _, h4⟩
          · rw [hlr'] at h3; cases h3
          · exact Or.inl h2
          · exact Or.inr h4
        -- the body, from a state with the same cache
        have hbody : ∀ g0 rb gb, ruleBody env rec r0 s g0 = some (rb, gb) → g0.cache = g.cache →
            g0.uctx = g.uctx →
            ∃ lb, QT env u inp N (fun M' => ∃ σ, Compat H σ g s.off (fun Q md => ChkR env N Q md r0.name) ∧
              SpecLR.stepRule env u (SpecLR.eval env u M') M' σ r0.name (clr s) ≠ none) g0 gb lb := by
          intro g0 rb gb hb hc0 hu0
          refine (ruleBody_q hrec hb (hpre.of_cache hc0 hu0) (hsafe.imp himp)).weaken ?_
          rintro M' ⟨σ, hσ, hc⟩
          rw [specLR_stepRule_plain hfind hlr'] at hc
          exact ⟨σ, hσ.next (fun k x hx => by rw [LR.lookup_of_cache_eq hc0]; exact hx) hpre.le
            (Nat.le_refl _) (fun _ => himp), hc⟩
        split at hx
        · -- @memoize
          rename_i hmemo
          split at hx
          · -- hit
            simp only [Option.some.injEq, Prod.mk.injEq] at hx
            obtain ⟨_, rfl⟩ := hx
            refine ⟨[.info "Cache hit"], rfl, ?_, ?_, ?_⟩
            · intro M _ name off hm
              simp only [List.mem_singleton] at hm; cases hm
            · intro k _; simp [evals, isBodyEval]
            · intro n o _ hm
              simp only [List.mem_singleton] at hm; cases hm
          · -- miss
            cases hb : ruleBody env rec r0 s
                ((g.emit (.traceStart r0.name s.off)).emit (.bodyEval r0.name s.off)) with
            | none => simp [hb] at hx
            | some a =>
              obtain ⟨r1, g2⟩ := a
              obtain ⟨lb, hq⟩ := hbody _ _ _ hb rfl rfl
              have hno := no_nested_start hrec hp hfind hlr' hmemo hb hpre rfl rfl hsafe hq.log
              have hnlr : ¬ IsLR env r0.name := not_isLR_of_find hfind hlr'
              have hzero : evals lb (r0.name, s.off) = 0 := by
                cases h0 : evals lb (r0.name, s.off) with
                | zero => rfl
                | succ j =>
                  exact absurd (hq.c _ _ hnlr (mem_of_evals_pos (k := (r0.name, s.off)) (by omega))) hno
              have hlog : g2.log = (lb ++ [Ev.bodyEval r0.name s.off]) ++
                  (g.emit (.traceStart r0.name s.off)).log := by
                rw [hq.log]; simp
              have hg1 : g1.log = g2.log := by
                cases r1 <;> (simp only [hb, Option.some.injEq, Prod.mk.injEq] at hx; obtain ⟨_, rfl⟩ := hx; rfl)
              refine ⟨lb ++ [Ev.bodyEval r0.name s.off], hg1.trans hlog, ?_, ?_, ?_⟩
              · intro M hc name off hm
                rcases List.mem_append.1 hm with hm | hm
                · exact hq.q M hc name off hm
                · simp only [List.mem_singleton] at hm; cases hm
              · intro k hk
                rw [evals_append]
                by_cases hkk : (r0.name, s.off) = k
                · subst hkk
                  rw [hzero, evals_singleton_self (r0.name, s.off)]
                  exact Nat.le_refl _
                · rw [evals_singleton_ne (k := (r0.name, s.off)) hkk]
                  have := hq.o k hk; omega
              · intro n o hn hm
                rcases List.mem_append.1 hm with hm | hm
                · exact Or.inr (List.mem_append_left _ (hq.c n o hn hm))
                · simp only [List.mem_singleton, Ev.bodyEval.injEq] at hm
                  exact Or.inl (by rw [hm.1, hm.2])
        · obtain ⟨lb, hq⟩ := hbody _ _ _ hx rfl rfl
          exact ⟨lb, hq.log, hq.q, hq.o, fun n o hn hm => Or.inr (hq.c n o hn hm)⟩
    obtain ⟨lm, hlm, hAq, hAo, hAc⟩ := hA
    -- the trace result
    have hres : ∃ lres, (traceResult g1 res1).log = lres ++ g1.log ∧ Quiet lres := by
      cases res1 with
      | ok v s1 => exact ⟨[_], rfl, Quiet.single (fun _ => rfl) (fun _ _ h => by cases h)⟩
      | err e => exact ⟨[_], rfl, Quiet.single (fun _ => rfl) (fun _ _ h => by cases h)⟩
      | panic m => exact ⟨[], rfl, Quiet.nil⟩
    obtain ⟨lres, hlres, hquiet⟩ := hres
    refine ⟨lres ++ (lm ++ [Ev.traceStart r0.name s.off]), ?_, ?_, ?_, ?_⟩
    · rw [hlres, hlm]; simp
    · rintro M ⟨M', rfl, hc⟩ name off hm hmemo
      rcases List.mem_append.1 hm with hm | hm
      · exact absurd hm hquiet.no_start
      · rcases List.mem_append.1 hm with hm | hm
        · exact (hAq M' hc name off hm hmemo).mono (Nat.le_succ _)
        · simp only [List.mem_singleton, Ev.traceStart.injEq] at hm
          obtain ⟨rfl, rfl⟩ := hm
          obtain ⟨r1, hf1, hm1, hl1⟩ := hmemo
          rw [hfind] at hf1
          cases hf1
          obtain ⟨σ, hσ, hne⟩ := hc
          refine ⟨σ, adm_of_compat hfind hl1 hm1 hσ, ?_⟩
          rw [← clr_eq_of_wf hpre.wf]
          exact hne
    · intro k hk
      rw [evals_append, evals_append, evals_quiet hquiet,
        evals_singleton_neutral (e := Ev.traceStart r0.name s.off) (fun _ => rfl)]
      have := hAo k hk; omega
    · intro n o hn hm
      rcases List.mem_append.1 hm with hm | hm
      · exact absurd hm hquiet.no_body
      · rcases List.mem_append.1 hm with hm | hm
        · rcases hAc n o hn hm with hk | hk
          · obtain ⟨rfl, rfl⟩ := Prod.mk.inj hk
            exact List.mem_append_right _ (List.mem_append_right _ (List.mem_singleton.2 rfl))
          · exact List.mem_append_right _ (List.mem_append_left _ hk)
        · simp only [List.mem_singleton] at hm; cases hm

/-! ### `@char` rules, the other rules -/

/-- first success wins, the error of the first computation is dropped -/
theorem orElse_q {x : Out Val} {fx : Seeds → Nat → SOut Val} {rest : Global → Out Val}
    {frest : Seeds → Nat → SOut Val} {H : Heads} {s : St} {g : Global} {C : Seeds → Prop}
    {r : Res Val} {g' : Global}
    (h : (match x with
          | none => none
          | some (.ok v s', g') => some (.ok v s', g')
          | some (.err _, g') => rest g'
          | some (.panic m, g') => some (.panic m, g')) = some (r, g'))
    (hx : ∀ rx gx, x = some (rx, gx) → Sub env u inp N H s g C fx rx gx) (hdet : ∀ σ, Det (fx σ))
    (hrest : ∀ g1, rest g1 = some (r, g') → GoodLR env u inp N H g1 → LR.CacheW inp.length g1 →
      LR.Keeps g g1 →
      Step env PT g1 r.isPanic g' ∧ QPost env u inp N (fun M => ∃ σ, C σ ∧ frest σ M ≠ none) g1 g') :
    QPost env u inp N (fun M => ∃ σ, C σ ∧ (match fx σ M with
          | none => none
          | some (.ok v s') => some (.ok v s')
          | some (.err _) => frest σ M
          | some (.panic m) => some (.panic m)) ≠ none) g g' := by
  cases x with
  | none => simp at h
  | some a =>
    obtain ⟨rx, gx⟩ := a
    obtain ⟨hp, hs, hq⟩ := hx rx gx rfl
    cases rx with
    | ok v s1 =>
      simp only [Option.some.injEq, Prod.mk.injEq] at h
      obtain ⟨rfl, rfl⟩ := h
      exact hq.weaken (fun M ⟨σ, hσ, hc⟩ => ⟨σ, hσ, fun h0 => hc (by rw [h0])⟩)
    | err e =>
      simp only at h
      obtain ⟨hs2, hq2⟩ := hrest _ h hp.good_err hp.cw hp.keeps
      refine QPost.seq hs hq hs2 hq2 (fun M hc => ?_)
      obtain ⟨σ, hσ, hc⟩ := hc
      cases hfx : fx σ M with
      | none => exact absurd (by rw [hfx]) hc
      | some y =>
        have : y = abs (.err e) := hdet σ M y _ hfx (hp.evt σ hσ)
        subst this
        exact ⟨⟨σ, hσ, ne_none_of_eq_some hfx⟩, σ, hσ, by simpa only [hfx, abs] using hc⟩
    | panic m =>
      simp only [Option.some.injEq, Prod.mk.injEq] at h
      obtain ⟨rfl, rfl⟩ := h
      exact hq.weaken (fun M ⟨σ, hσ, hc⟩ => ⟨σ, hσ, fun h0 => hc (by rw [h0])⟩)

theorem charParts_q (hrec : QRec env u inp N rec) (name : String) {H : Heads} :
    ∀ ps s g r g', charParts rec name ps s g = some (r, g') → PreLR env u inp N H s g →
      SafeH H s.off (PartsP env N ps) →
      QPost env u inp N (fun M => ∃ σ, Compat H σ g s.off (PartsP env N ps) ∧
        Spec.charParts (SpecLR.eval env u M σ) ps (clr s) ≠ none) g g' := by
  intro ps
  induction ps with
  | nil =>
    intro s g r g' h hpre hsafe
    simp only [charParts, Option.some.injEq, Prod.mk.injEq] at h
    obtain ⟨rfl, rfl⟩ := h
    exact QPost.refl _ _
  | cons p ps ih =>
    intro s g r g' h hpre hsafe
    have himp2 : Imp (PartsP env N (p :: ps)) (PartsP env N ps) :=
      Imp.of (fun Q md hq id hid => hq id (List.mem_cons_of_mem _ hid))
    have hrest : ∀ g1, charParts rec name ps s g1 = some (r, g') → GoodLR env u inp N H g1 →
        LR.CacheW inp.length g1 → LR.Keeps g g1 →
        Step env PT g1 r.isPanic g' ∧
          QPost env u inp N (fun M => ∃ σ, Compat H σ g s.off (PartsP env N (p :: ps)) ∧
            Spec.charParts (SpecLR.eval env u M σ) ps (clr s) ≠ none) g1 g' := by
      intro g1 h1 hg1 hcw1 hk1
      have hpre' : PreLR env u inp N H s g1 := ⟨hpre.wf, hpre.within, hg1, hcw1, hpre.le⟩
      exact ⟨(charParts_pinv hrec.pk name ps s trivial _ _ _ h1 (cacheB_true _)).1,
        (ih _ _ _ _ h1 hpre' (hsafe.imp himp2)).weaken
          (fun M ⟨σ, hσ, hc⟩ => ⟨σ, hσ.next hk1 hpre.le (Nat.le_refl _) (fun _ => himp2), hc⟩)⟩
    -- a part that does not touch the global state
    have pureSub : ∀ (rx : Res Val) (gx : Global) (y : SOut Val),
        gx = g → y = some (abs rx) → (∀ v s', rx = .ok v s' → WfSt inp s') →
        LR.Fwd inp.length s rx →
        Sub env u inp N H s g (fun σ => Compat H σ g s.off (PartsP env N (p :: ps))) (fun _ _ => y) rx gx := by
      intro rx gx y hgx hy hwf hfwd
      subst hgx
      exact ⟨Full.of hpre (LR.Post.refl (fun _ => hfwd)) (PostLR.const (fun _ _ => hy) hpre.good hwf),
        Step.refl _ _, QPost.refl _ _⟩
    cases p with
    | chr item =>
      simp only [charParts] at h
      simp only [Spec.charParts]
      cases hi : item.toChar with
      | ok c =>
        simp only [hi] at h ⊢
        refine orElse_q (s := s) (fx := fun _ _ => some (abs ((parseCharacterLiteral (clr s) c).map .chr))) h
          ?_ (fun _ => Det.const _) hrest
        intro rx gx hx
        simp only [Option.some.injEq, Prod.mk.injEq] at hx
        obtain ⟨rfl, rfl⟩ := hx
        refine pureSub _ _ _ rfl (by simp only [abs_map, abs_parseCharacterLiteral]) ?_
          ((LR.fwd_parseCharacterLiteral _ hpre.within).map _)
        intro v s' h
        obtain ⟨v0, hv0⟩ := map_ok h
        exact wf_parseCharacterLiteral hpre.wf hv0
      | err msg =>
        simp only [hi] at h
        simp only [Option.some.injEq, Prod.mk.injEq] at h
        obtain ⟨rfl, rfl⟩ := h
        exact QPost.refl _ _
      | fuel =>
        simp only [hi] at h
        simp only [Option.some.injEq, Prod.mk.injEq] at h
        obtain ⟨rfl, rfl⟩ := h
        exact QPost.refl _ _
    | range lo hi =>
      simp only [charParts] at h
      simp only [Spec.charParts]
      cases hlo : lo.toChar with
      | ok a =>
        cases hhi : hi.toChar with
        | ok b =>
          simp only [hlo, hhi] at h ⊢
          refine orElse_q (s := s) (fx := fun _ _ => some (abs ((parseCharacterRange (clr s) a b).map .chr))) h
            ?_ (fun _ => Det.const _) hrest
          intro rx gx hx
          simp only [Option.some.injEq, Prod.mk.injEq] at hx
          obtain ⟨rfl, rfl⟩ := hx
          refine pureSub _ _ _ rfl (by simp only [abs_map, abs_parseCharacterRange]) ?_
            ((LR.fwd_parseCharacterRange _ _ hpre.within).map _)
          intro v s' h
          obtain ⟨v0, hv0⟩ := map_ok h
          exact wf_parseCharacterRange hpre.wf hv0
        | err msg =>
          simp only [hlo, hhi] at h
          simp only [Option.some.injEq, Prod.mk.injEq] at h
          obtain ⟨rfl, rfl⟩ := h
          exact QPost.refl _ _
        | fuel =>
          simp only [hlo, hhi] at h
          simp only [Option.some.injEq, Prod.mk.injEq] at h
          obtain ⟨rfl, rfl⟩ := h
          exact QPost.refl _ _
      | err msg =>
        simp only [hlo] at h
        simp only [Option.some.injEq, Prod.mk.injEq] at h
        obtain ⟨rfl, rfl⟩ := h
        exact QPost.refl _ _
      | fuel =>
        simp only [hlo] at h
        simp only [Option.some.injEq, Prod.mk.injEq] at h
        obtain ⟨rfl, rfl⟩ := h
        exact QPost.refl _ _
    | ident id =>
      simp only [charParts] at h
      simp only [Spec.charParts]
      have himp1 : Imp (PartsP env N (.ident id :: ps)) (fun Q md => ChkR env N Q md id) :=
        Imp.of (fun Q md hq => hq id (List.mem_cons_self ..))
      exact orElse_q (fx := fun σ m => (SpecLR.eval env u m σ).rule id (clr s)) h
        (fun rx gx hx => (hrec.subR hx hpre (hsafe.imp himp1)).monoC (fun σ hσ => hσ.imp hpre.le himp1))
        (fun σ => det_ruleLR σ _ _) hrest

theorem stepRule_q (hrec : QRec env u inp N rec) (hp : PureHooks env.hooks) (hok : LRHyp env N)
    (n : Nat) {H : Heads} {name s g r g'} (h : stepRule env rec n name s g = some (r, g'))
    (hpre : PreLR env u inp N H s g) (hsafe : SafeH H s.off (fun Q md => ChkR env N Q md name)) :
    QPost env u inp N (fun M => ∃ M', M = M' + 1 ∧ ∃ σ,
      Compat H σ g s.off (fun Q md => ChkR env N Q md name) ∧
      SpecLR.stepRule env u (SpecLR.eval env u M') M' σ name (clr s) ≠ none) g g' := by
  unfold stepRule at h
  split at h
  · -- normal rule
    rename_i r0 hfind
    have hname := name_of_find hfind
    subst hname
    exact normalRule_q hrec hp hok n hfind h hpre hsafe
  · -- @char rule
    rename_i cr hfind
    have hother : ∀ r0, env.g.find name ≠ some (.rule r0) := fun r0 he => by rw [hfind] at he; cases he
    have himp : Imp (fun Q md => ChkR env N Q md name) (PartsP env N cr.choices) := by
      refine ⟨fun Q hq => ?_, fun Q hq => ?_⟩
      · rcases hq.charRule hfind with h0 | h0 <;> exact h0
      · rcases hq.charRule hfind with h0 | h0
        · exact Or.inl h0
        · exact Or.inr h0
    have hconv : ∀ M' σ, SpecLR.stepRule env u (SpecLR.eval env u M') M' σ name (clr s) =
        Spec.charRule env (SpecLR.eval env u M' σ) cr (clr s) := by
      intro M' σ
      rw [specLR_stepRule_other hother]
      unfold Spec.stepRule
      rw [hfind]
    suffices hq : QPost env u inp N (fun M' => ∃ σ, Compat H σ g s.off (fun Q md => ChkR env N Q md name) ∧
        Spec.charRule env (SpecLR.eval env u M' σ) cr (clr s) ≠ none) g g' by
      exact hq.shift.weaken (fun M ⟨M', hM, σ, hσ, hc⟩ => ⟨M', hM, σ, hσ, by rw [← hconv]; exact hc⟩)
    unfold charRule at h
    unfold Spec.charRule
    split at h
    · rename_i hc
      simp only [if_pos hc]
      exact (charParts_q hrec _ _ _ _ _ _ h hpre (hsafe.imp himp)).weaken
        (fun M ⟨σ, hσ, hne⟩ => ⟨σ, hσ.imp hpre.le himp, hne⟩)
    · rename_i hc
      simp only [if_neg hc]
      split at h
      · simp only [Option.some.injEq, Prod.mk.injEq] at h
        obtain ⟨rfl, rfl⟩ := h
        exact QPost.refl _ _
      · rename_i c hd
        simp only [clr_rest, hd]
        split at h
        · rename_i e g1 hcc
          obtain ⟨l, hl, hquiet⟩ := charChecks_quiet _ _ _ _ _ _ _ hcc
          simp only [Option.some.injEq, Prod.mk.injEq] at h
          obtain ⟨rfl, rfl⟩ := h
          exact QPost.of_quiet _ hl (QuietM.of_quiet hquiet)
        · rename_i g1 hcc
          obtain ⟨l, hl, hquiet⟩ := charChecks_quiet _ _ _ _ _ _ _ hcc
          obtain ⟨h1, h2, h3⟩ := charChecks_spec _ _ _ _ _ _ _ hcc
          have hck : Spec.charChecksOk env cr.directives c = true := by simpa using h1.symm
          simp only [hck, if_true]
          refine QPost.quiet_before hl (QuietM.of_quiet hquiet)
            ((charParts_q hrec _ _ _ _ _ _ h (hpre.of_cache h2 h3) (hsafe.imp himp)).weaken ?_)
          rintro M ⟨σ, hσ, hne⟩
          exact ⟨σ, hσ.next (fun k x hx => by rw [LR.lookup_of_cache_eq h2]; exact hx) hpre.le
            (Nat.le_refl _) (fun _ => himp), hne⟩
  · -- @extern rule
    rename_i er hfind
    unfold externRule at h
    simp only at h
    refine QPost.of_quiet _ (l := [Ev.externCall ("::".intercalate er.function) s.off g.uctx]) ?_
      (QuietM.of_quiet (Quiet.single (fun _ => rfl) (fun _ _ h => by cases h)))
    split at h <;>
      (simp only [Option.some.injEq, Prod.mk.injEq] at h; obtain ⟨_, rfl⟩ := h; rfl)
  · -- builtins
    have : g' = g := by
      split at h
      · simp only [Option.some.injEq, Prod.mk.injEq] at h; exact h.2.symm
      · split at h <;> (simp only [Option.some.injEq, Prod.mk.injEq] at h; exact h.2.symm)
    subst this
    exact QPost.refl _ _

/-- one unfolding of the evaluator preserves the invariant -/
theorem step_q (hrec : QRec env u inp N rec) (hp : PureHooks env.hooks) (hok : LRHyp env N) (n : Nat) :
    QRec env u inp N (step env rec n) := by
  refine ⟨step_refLR hrec.ref hp hok n, step_pinv hrec.pk hrec.log n, step_log hrec.log n, ?_, ?_⟩
  · intro H ctx e s g r g' h hpre hsafe
    refine (stepExpr_q hrec n h hpre hsafe).shift.weaken (fun M hc => ?_)
    obtain ⟨σ, hσ, hc⟩ := hc
    cases M with
    | zero => exact absurd rfl hc
    | succ M' => exact ⟨M', rfl, σ, hσ, hc⟩
  · intro H name s g r g' h hpre hsafe
    refine (stepRule_q hrec hp hok n h hpre hsafe).weaken (fun M hc => ?_)
    obtain ⟨σ, hσ, hc⟩ := hc
    cases M with
    | zero => exact absurd rfl hc
    | succ M' => exact ⟨M', rfl, σ, hσ, hc⟩

end

theorem eval_q (hp : PureHooks env.hooks) (hok : LRHyp env N) : ∀ n, QRec env u inp N (eval env n) := by
  intro n
  induction n with
  | zero =>
    exact ⟨eval_refLR_rec hp hok 0, eval_pinv 0, eval_log env 0,
      fun _ _ _ _ _ _ _ h => by simp [eval] at h, fun _ _ _ _ _ _ h => by simp [eval] at h⟩
  | succ n ih => exact step_q ih hp hok n

/-! ### C06, unconditional forms (pure user functions, grammar in the class) -/

/-- **C06, counting form** for an arbitrary rule call from a model state satisfying the invariant of
    RefineLR.lean, at a position that is safe for the growing heads: at most one body evaluation per key
    of a rule that is not `@leftrec`. -/
theorem C06_once_pureLR_rule (hp : PureHooks env.hooks) (hok : LRHyp env N) {n : Nat} {H : Heads}
    {name : String} {s : St} {g g' : Global} {r : Res Val}
    (h : (eval env n).rule name s g = some (r, g')) (hpre : PreLR env u inp N H s g)
    (hsafe : SafeH H s.off (fun Q md => ChkR env N Q md name))
    {l : List Ev} (hl : g'.log = l ++ g.log) (k : String × Nat) (hk : ¬ IsLR env k.1) : evals l k ≤ 1 := by
  obtain ⟨l', hq⟩ := (eval_q (u := u) (inp := inp) hp hok n).rule _ _ _ _ _ _ h hpre hsafe
  have : l = l' := List.append_cancel_right (hl.symm.trans hq.log)
  subst this
  exact hq.o k hk

theorem C06_once_pureLR_expr (hp : PureHooks env.hooks) (hok : LRHyp env N) {n : Nat} {H : Heads}
    {ctx : Ctx} {e : Expr} {s : St} {g g' : Global} {r : Res Parsed}
    (h : (eval env n).expr ctx e s g = some (r, g')) (hpre : PreLR env u inp N H s g)
    (hsafe : SafeH H s.off (fun Q md => ChkE env N Q md ctx.skipWs e))
    {l : List Ev} (hl : g'.log = l ++ g.log) (k : String × Nat) (hk : ¬ IsLR env k.1) : evals l k ≤ 1 := by
  obtain ⟨l', hq⟩ := (eval_q (u := u) (inp := inp) hp hok n).expr _ _ _ _ _ _ _ h hpre hsafe
  have : l = l' := List.append_cancel_right (hl.symm.trans hq.log)
  subst this
  exact hq.o k hk

/-- a memoized rule (not `@leftrec`) never calls itself at the same offset during an evaluation that
    returns -/
theorem C06_no_self_callLR (hp : PureHooks env.hooks) (hok : LRHyp env N) {n : Nat} {r0 : Rule}
    (hfind : env.g.find r0.name = some (.rule r0))
    (hlr' : r0.flags.leftRecursive = false) (hmemo : r0.flags.memoize = true)
    {H : Heads} {s : St} {g g' : Global} {r : Res Val}
    (h : ruleBody env (eval env n) r0 s g = some (r, g')) (hpre : PreLR env u inp N H s g)
    (hsafe : SafeH H s.off (fun Q md => ChkR env N Q md r0.name))
    {l : List Ev} (hl : g'.log = l ++ g.log) : Ev.traceStart r0.name s.off ∉ l :=
  no_nested_start (eval_q hp hok n) hp hfind hlr' hmemo h hpre rfl rfl hsafe hl

end Pure

theorem evals_reverse (l : List Ev) (k : String × Nat) : evals l.reverse k = evals l k := by
  unfold evals
  rw [List.filter_reverse, List.length_reverse]

/-- a re-entry of `k` means two `bodyEval k` events -/
theorem two_le_evals_of_reentry {c : List Ev} {k : String × Nat} (h : Reentry c k) : 2 ≤ evals c k := by
  obtain ⟨pre, mid, post, rfl, _⟩ := h
  simp only [evals_append, evals_cons, isBodyEval_self, if_true]
  omega

/-- **C06 (packrat property) with `@leftrec` rules, complete parse.**  Pure user functions, grammar in
    the class `LROk`: within one parse the body of a memoized rule that is not `@leftrec` is evaluated at
    most once per input position – whatever the outcome of the parse (success, failure or panic), and
    wherever the rule is called from (in particular from every iteration of a grow loop). -/
theorem C06_parse_once_pureLR {env : Env} (hp : PureHooks env.hooks) (hok : LROk env.g env.settings)
    {n : Nat} {rule : String} {inp : List UInt8} {u : Nat} {r : Res Val} {g' : Global}
    (h : parseAdvanced env n rule inp u = some (r, g')) (k : String × Nat) (hk : ¬ IsLR env k.1) :
    evals g'.log k ≤ 1 :=
  C06_once_pureLR_rule (u := u) (inp := inp) hp (lrHyp_of_LROkF hok) h (preLR_init _ _ _ _)
    (fun Q hq => by cases hq) (parse_log h) k hk

/-- hence the hypothesis `NoReM` of the conditional forms of PackratLR.lean holds for every parse -/
theorem noReM_pureLR {env : Env} (hp : PureHooks env.hooks) (hok : LROk env.g env.settings)
    {n : Nat} {rule : String} {inp : List UInt8} {u : Nat} {r : Res Val} {g' : Global}
    (h : parseAdvanced env n rule inp u = some (r, g')) : NoReM env g'.log := by
  intro k hk hre
  have h1 := two_le_evals_of_reentry hre
  rw [evals_reverse] at h1
  have h2 := C06_parse_once_pureLR hp hok h k hk
  omega

/-- **C06, the packrat bound, with `@leftrec` rules**: a complete parse evaluates at most
    `(number of memoized non-@leftrec rules) * (inp.length + 1)` bodies of memoized non-`@leftrec` rules. -/
theorem C06_bound_pureLR {env : Env} (hp : PureHooks env.hooks) (hok : LROk env.g env.settings)
    {n : Nat} {rule : String} {inp : List UInt8} {u : Nat} {r : Res Val} {g' : Global}
    (h : parseAdvanced env n rule inp u = some (r, g')) :
    (bodyKeysM env g'.log).length ≤ (memoNamesM env.g).length * (inp.length + 1) :=
  C06_bound_of_once h (C06_parse_once_pureLR hp hok h)

theorem C06_bound_pureLR_rules {env : Env} (hp : PureHooks env.hooks) (hok : LROk env.g env.settings)
    {n : Nat} {rule : String} {inp : List UInt8} {u : Nat} {r : Res Val} {g' : Global}
    (h : parseAdvanced env n rule inp u = some (r, g')) :
    (bodyKeysM env g'.log).length ≤ env.g.rules.length * (inp.length + 1) :=
  Nat.le_trans (C06_bound_pureLR hp hok h) (Nat.mul_le_mul_right _ (memoNamesM_length_le _))

/-- for a grammar without `@leftrec` rules that is in the class, this is `C06_parse_once_pure` of
    Packrat.lean: every key -/
theorem C06_parse_once_pureLR_noLeftrec {env : Env} (hp : PureHooks env.hooks)
    (hok : LROk env.g env.settings) (hnl : NoLeftrec env.g)
    {n : Nat} {rule : String} {inp : List UInt8} {u : Nat} {r : Res Val} {g' : Global}
    (h : parseAdvanced env n rule inp u = some (r, g')) (k : String × Nat) : evals g'.log k ≤ 1 :=
  C06_parse_once_pureLR hp hok h k (not_isLR_of_noLeftrec hnl k.1)

/-! ### non-vacuity: the examples of PackratLR.lean, now without checking the log -/

namespace ExamplePure
open Peg.NV PLR.Example

/-- `@export @leftrec E = l:*E '+' r:Num | b:Num;  @memoize @string Num = {'0'..'9'}+;`: for EVERY input,
    fuel and start rule (not only the run that was checked by `decide` in PackratLR.lean) -/
example {n : Nat} {rule : String} {inp : List UInt8} {r : Res Val} {g' : Global}
    (h : parseAdvanced envEM n rule inp 0 = some (r, g')) (o : Nat) : evals g'.log ("Num", o) ≤ 1 :=
  C06_parse_once_pureLR pure_default (by decide) h ("Num", o) num_not_lr

example {n : Nat} {rule : String} {inp : List UInt8} {r : Res Val} {g' : Global}
    (h : parseAdvanced envEM n rule inp 0 = some (r, g')) :
    (bodyKeysM envEM g'.log).length ≤ 1 * (inp.length + 1) :=
  C06_bound_pureLR pure_default (by decide) h

example {n : Nat} {rule : String} {inp : List UInt8} {r : Res Val} {g' : Global}
    (h : parseAdvanced envEM3 n rule inp 0 = some (r, g')) (o : Nat) : evals g'.log ("Num", o) ≤ 1 :=
  C06_parse_once_pureLR pure_default (by decide) h ("Num", o) (show ¬ IsLR envEM3 "Num" by decide)

/-- on the concrete run: the statement is about something (`Num` at 0 IS evaluated, once; the grow loop of
    `E` at 0 runs 4 times – `@leftrec` keys are excluded for a reason) -/
example : evals gEnd.log ("Num", 0) = 1 ∧ evals gEnd.log ("E", 0) = 4 ∧ NoReM envEM gEnd.log :=
  ⟨by decide, by decide, noReM_pureLR pure_default (by decide) run⟩

/-- `ExampleBad` (a memoized rule inside a left-recursive cycle: two body evaluations at one offset, with
    pure hooks) is outside the class -/
example : ¬ LROk ExampleBad.envBad.g ExampleBad.envBad.settings := by decide

end ExamplePure

end PLR
end Peg
