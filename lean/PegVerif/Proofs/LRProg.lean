import PegVerif.SpecLR
import PegVerif.Proofs.LeftRec
/-
  Soundness of the syntactic "certainly consumes input" analysis `LRC.prog` (SpecLR.lean) for the
  implementation model `Peg.eval`:

    a successful evaluation of a construct / rule accepted by `prog` ends strictly further.

  Stated as an invariant `ProgSound env L rec` of the open-recursion evaluator (`step_progSound`),
  closed by induction on the fuel (`eval_progSound`).  The non-strict parts (other sequence parts,
  whitespace skipping, later loop iterations, `@check`s) and the transport of `Within` / `CacheW`
  come from `LR.RInv` (LeftRec.lean).
-/
namespace Peg
namespace LRC
open LR

def ProgE (env : Env) (e : Expr) : Prop := ∃ d, prog env.g d e = true

def ProgR (env : Env) (name : String) : Prop := ∃ d, progRule env.g (prog env.g d) name = true

/-! ### inversion of `prog` -/

section
variable {env : Env}

theorem ProgE.choice {as} (h : ProgE env (.choice as)) : ∀ a ∈ as, ProgE env a := by
  obtain ⟨d, hd⟩ := h
  cases d with
  | zero => simp [prog] at hd
  | succ d =>
    simp only [prog, List.all_eq_true] at hd
    exact fun a ha => ⟨d, hd a ha⟩

theorem ProgE.seq {ps} (h : ProgE env (.seq ps)) : ∃ p ∈ ps, ProgE env p := by
  obtain ⟨d, hd⟩ := h
  cases d with
  | zero => simp [prog] at hd
  | succ d =>
    simp only [prog, List.any_eq_true] at hd
    obtain ⟨p, hp, h⟩ := hd
    exact ⟨p, hp, d, h⟩

theorem ProgE.group {x} (h : ProgE env (.group x)) : ProgE env x := by
  obtain ⟨d, hd⟩ := h
  cases d with
  | zero => simp [prog] at hd
  | succ d => exact ⟨d, by simpa only [prog] using hd⟩

theorem ProgE.opt {x} (h : ProgE env (.opt x)) : False := by
  obtain ⟨d, hd⟩ := h
  cases d <;> simp [prog] at hd

theorem ProgE.neg {x} (h : ProgE env (.neg x)) : False := by
  obtain ⟨d, hd⟩ := h
  cases d <;> simp [prog] at hd

theorem ProgE.pos {x} (h : ProgE env (.pos x)) : False := by
  obtain ⟨d, hd⟩ := h
  cases d <;> simp [prog] at hd

theorem ProgE.eoi (h : ProgE env .eoi) : False := by
  obtain ⟨d, hd⟩ := h
  cases d <;> simp [prog] at hd

theorem ProgE.closure {x plus} (h : ProgE env (.closure x plus)) : plus = true ∧ ProgE env x := by
  obtain ⟨d, hd⟩ := h
  cases d with
  | zero => simp [prog] at hd
  | succ d =>
    simp only [prog, Bool.and_eq_true] at hd
    exact ⟨hd.1, d, hd.2⟩

theorem ProgE.lit {ins body mm} (h : ProgE env (.lit ins body)) (hc : compileLit ins body = .ok mm) :
    litNullable mm = false := by
  obtain ⟨d, hd⟩ := h
  cases d with
  | zero => simp [prog] at hd
  | succ d => simpa [prog, hc] using hd

theorem ProgE.incl {r rule} (h : ProgE env (.incl r)) (hf : env.g.findRule r = some rule) :
    ProgE env rule.definition := by
  obtain ⟨d, hd⟩ := h
  cases d with
  | zero => simp [prog] at hd
  | succ d =>
    simp only [prog, hf] at hd
    exact ⟨d, hd⟩

theorem ProgE.field {nm bx typ} (h : ProgE env (.field nm bx typ)) : ProgR env typ := by
  obtain ⟨d, hd⟩ := h
  cases d with
  | zero => simp [prog] at hd
  | succ d => exact ⟨d, by simpa only [prog] using hd⟩

theorem ProgR.rule {name r} (h : ProgR env name) (hf : env.g.find name = some (.rule r)) :
    r.flags.leftRecursive = false ∧ r.flags.memoize = false ∧ ProgE env r.definition := by
  obtain ⟨d, hd⟩ := h
  simp only [progRule, hf, Bool.and_eq_true, Bool.not_eq_true'] at hd
  exact ⟨hd.1.1, hd.1.2, d, hd.2⟩

theorem ProgR.charRule {name cr} (h : ProgR env name) (hf : env.g.find name = some (.charRule cr)) :
    ∀ id, CharRulePart.ident id ∈ cr.choices → ProgR env id := by
  intro id hid
  obtain ⟨d, hd⟩ := h
  simp only [progRule, hf, List.all_eq_true] at hd
  have h1 := hd _ hid
  simp only at h1
  exact ProgE.field ⟨d, h1⟩

theorem ProgR.externRule {name er} (h : ProgR env name) (hf : env.g.find name = some (.externRule er)) :
    False := by
  obtain ⟨d, hd⟩ := h
  simp [progRule, hf] at hd

theorem ProgR.none {name} (h : ProgR env name) (hf : env.g.find name = none) : name = "char" := by
  obtain ⟨d, hd⟩ := h
  simpa [progRule, hf] using hd

end

/-- soundness of `prog` for an evaluator `rec`: a successful match of a `prog` construct ends
    strictly further -/
structure ProgSound (env : Env) (L : Nat) (rec : Rec) : Prop where
  expr : ∀ ctx e s g v s' g', ProgE env e → LR.Within L s → LR.CacheW L g →
    rec.expr ctx e s g = some (.ok v s', g') → s.off < s'.off
  rule : ∀ name s g v s' g', ProgR env name → LR.Within L s → LR.CacheW L g →
    rec.rule name s g = some (.ok v s', g') → s.off < s'.off

/-! ### the terminal matchers advance -/

theorem off_advance {α} {s : St} {n : Nat} {v v' : α} {s' : St} (h : s.advance n v = .ok v' s') :
    s'.off = s.off + n := by
  unfold St.advance at h
  split at h
  · cases h
  · cases h; rfl

theorem off_parseChar {s : St} {v s'} (h : parseChar s = .ok v s') : s.off < s'.off := by
  unfold parseChar at h
  split at h
  · cases h
  · rename_i c _
    have := off_advance h
    have := Char.utf8Size_pos c
    omega

theorem off_parseCharacterLiteral {s : St} {c v s'} (h : parseCharacterLiteral s c = .ok v s') :
    s.off < s'.off := by
  unfold parseCharacterLiteral at h
  split at h
  · split at h
    · cases h
    · split at h
      · cases h
      · have := off_advance h; omega
  · split at h
    · cases h
    · have := off_advance h
      have := Char.utf8Size_pos c
      omega

theorem off_parseCharacterRange {s : St} {lo hi v s'} (h : parseCharacterRange s lo hi = .ok v s') :
    s.off < s'.off := by
  unfold parseCharacterRange at h
  split at h
  · split at h
    · cases h
    · split at h
      · cases h
      · have := off_advance h; omega
  · split at h
    · cases h
    · split at h
      · cases h
      · rename_i c _ _
        have := off_advance h
        have := Char.utf8Size_pos c
        omega

theorem off_parseCharacterLiteralInsensitive {s : St} {c v s'}
    (h : parseCharacterLiteralInsensitive s c = .ok v s') : s.off < s'.off := by
  unfold parseCharacterLiteralInsensitive at h
  split at h
  · cases h
  · split at h
    · cases h
    · have := off_advance h; omega

theorem enc_length_pos' {l : List Char} (h : l.isEmpty = false) : 0 < (enc l).length := by
  cases l with
  | nil => simp at h
  | cons c cs =>
    have := Char.utf8Size_pos c
    simp only [enc, List.flatMap_cons, List.length_append, String.length_utf8EncodeChar]
    omega

theorem off_parseStringLiteral {s : St} {l v s'} (hl : l.isEmpty = false)
    (h : parseStringLiteral s l = .ok v s') : s.off < s'.off := by
  unfold parseStringLiteral at h
  simp only at h
  split at h
  · cases h
  · have := off_advance h
    have := enc_length_pos' hl
    omega

theorem off_parseStringLiteralInsensitive {s : St} {l v s'} (hl : l.isEmpty = false)
    (h : parseStringLiteralInsensitive s l = .ok v s') : s.off < s'.off := by
  unfold parseStringLiteralInsensitive at h
  simp only at h
  split at h
  · cases h
  · have := off_advance h
    have := enc_length_pos' hl
    omega

/-! ### strictness of a computation, and its combinators -/

/-- a success of `f`, started within the input with a well-formed cache, ends strictly further -/
def Strict (L : Nat) (s : St) {α} (f : Global → Out α) : Prop :=
  ∀ g v s' g', Within L s → CacheW L g → f g = some (.ok v s', g') → s.off < s'.off

theorem Strict.pure {L s α} {r : Res α} (hr : ∀ v s', r = .ok v s' → s.off < s'.off) :
    Strict L s (fun g => some (r, g)) := by
  intro g v s' g' _ _ hx
  simp only [Option.some.injEq, Prod.mk.injEq] at hx
  exact hr _ _ hx.1

theorem Strict.panic {L s α} (m : String) : Strict L s (fun g => some ((.panic m : Res α), g)) :=
  Strict.pure (fun _ _ he => by cases he)

theorem Strict.err {L s α} (e : PErr) : Strict L s (fun g => some ((.err e : Res α), g)) :=
  Strict.pure (fun _ _ he => by cases he)

theorem Strict.map {L s α β} {r : Res α} (f : α → β) (hr : ∀ v s', r = .ok v s' → s.off < s'.off) :
    Strict L s (fun g => some (r.map f, g)) :=
  Strict.pure (fun _ s' he => by obtain ⟨v0, h0⟩ := map_ok he; exact hr v0 s' h0)

theorem Strict.ite {L s α} {c : Prop} [Decidable c] {f f' : Global → Out α} (h1 : Strict L s f)
    (h2 : Strict L s f') : Strict L s (fun g => if c then f g else f' g) := by
  by_cases hc : c
  · simp only [hc, if_true]; exact h1
  · simp only [hc, if_false]; exact h2

theorem Strict.congr {L s α} {f f' : Global → Out α} (he : ∀ g, f g = f' g) (h : Strict L s f') :
    Strict L s f := by
  have : f = f' := funext he
  rw [this]; exact h

/-- the first part is strict, the continuation only moves forward -/
theorem bindR_strict_l {L s α β} {f : Global → Out α} {k : α → St → Global → Out β}
    (hf : Inv L s f) (hsf : Strict L s f) (hk : ∀ v s1, Inv L s1 (k v s1)) :
    Strict L s (fun g => bindR (f g) k) := by
  intro g v s' g' hs hc hx
  simp only [bindR] at hx
  split at hx
  · cases hx
  · rename_i v1 s1 g1 heq
    have h1 := hsf _ _ _ _ hs hc heq
    obtain ⟨hc1, hf1⟩ := (hf _ _ _ heq).2 hs hc
    obtain ⟨_, hw1⟩ := Fwd.ok_iff.1 hf1
    obtain ⟨_, hf2⟩ := (hk _ _ _ _ _ hx).2 hw1 hc1
    have := (Fwd.ok_iff.1 hf2).1
    omega
  · cases hx
  · cases hx

/-- the first part only moves forward, the continuation is strict -/
theorem bindR_strict_r {L s α β} {f : Global → Out α} {k : α → St → Global → Out β}
    (hf : Inv L s f) (hk : ∀ v s1, Strict L s1 (k v s1)) :
    Strict L s (fun g => bindR (f g) k) := by
  intro g v s' g' hs hc hx
  simp only [bindR] at hx
  split at hx
  · cases hx
  · rename_i v1 s1 g1 heq
    obtain ⟨hc1, hf1⟩ := (hf _ _ _ heq).2 hs hc
    obtain ⟨ho, hw1⟩ := Fwd.ok_iff.1 hf1
    have := hk _ _ _ _ _ _ hw1 hc1 hx
    omega
  · cases hx
  · cases hx

theorem withSkipWs_strict {L α} {rec : Rec} (hrec : RInv L rec) {ctx : Ctx} {s : St}
    {k : St → Global → Out α} (hk : ∀ s, Strict L s (k s)) :
    Strict L s (fun g => withSkipWs rec ctx s g k) := by
  unfold withSkipWs
  split
  · exact bindR_strict_r (hrec.rule _ _) (fun _ s => hk s)
  · exact hk s

section
variable {env : Env} {rec : Rec} {L : Nat}

theorem ProgSound.strictE (h : ProgSound env L rec) {ctx e s} (hp : ProgE env e) :
    Strict L s (rec.expr ctx e s) :=
  fun g v s' g' hs hc hx => h.expr ctx e s g v s' g' hp hs hc hx

theorem ProgSound.strictR (h : ProgSound env L rec) {name s} (hp : ProgR env name) :
    Strict L s (rec.rule name s) :=
  fun g v s' g' hs hc hx => h.rule name s g v s' g' hp hs hc hx

/-! ### expression level -/

theorem evalAlts_prog (hinv : RInv L rec) (h : ProgSound env L rec) {ctx : Ctx} {fields} :
    ∀ as s, (∀ a ∈ as, ProgE env a) → Strict L s (evalAlts env rec ctx fields as s) := by
  intro as
  induction as with
  | nil => intro s _ g v s' g' _ _ hx; simp [evalAlts] at hx
  | cons a as ih =>
    intro s hall g v s' g' hs hc hx
    simp only [evalAlts] at hx
    split at hx
    · cases hx
    · rename_i r0 s0 g0 he
      have h1 := h.expr _ _ _ _ _ _ _ (hall a (List.mem_cons_self ..)) hs hc he
      split at hx
      · cases hx; exact h1
      · cases hx
    · rename_i e0 g0 he
      have hp := hinv.expr _ _ _ _ _ _ he
      have h1 := ih (s.recordError e0) (fun a ha => hall a (List.mem_cons_of_mem _ ha)) _ _ _ _
        (within_recordError.2 hs) (hp.2 hs hc).1 hx
      simpa using h1
    · cases hx

theorem evalSeq_prog (hinv : RInv L rec) (h : ProgSound env L rec) {ctx : Ctx} :
    ∀ ps seen acc s, (∃ p ∈ ps, ProgE env p) → Strict L s (evalSeq env rec ctx ps seen acc s) := by
  intro ps
  induction ps with
  | nil => intro seen acc s hex; obtain ⟨p, hp, _⟩ := hex; cases hp
  | cons p ps ih =>
    intro seen acc s hex g v s' g' hs hc hx
    rw [evalSeq] at hx
    simp only [bindR] at hx
    split at hx
    · cases hx
    · rename_i r s1 g1 heq
      obtain ⟨hc1, hf1⟩ := (hinv.expr _ _ _ _ _ _ heq).2 hs hc
      obtain ⟨ho, hw1⟩ := Fwd.ok_iff.1 hf1
      split at hx
      · cases hx
      · rename_i seen' acc' hm
        obtain ⟨_, hf2⟩ := (evalSeq_inv hinv ps seen' acc' s1 _ _ _ hx).2 hw1 hc1
        have ho2 := (Fwd.ok_iff.1 hf2).1
        obtain ⟨q, hq, hpq⟩ := hex
        rcases List.mem_cons.1 hq with rfl | hq'
        · have := h.expr _ _ _ _ _ _ _ hpq hs hc heq
          omega
        · have := ih seen' acc' s1 ⟨q, hq', hpq⟩ _ _ _ _ hw1 hc1 hx
          omega
    · cases hx
    · cases hx

/-- the first iteration of a closure over a `prog` body is strict -/
theorem evalLoop_prog (hinv : RInv L rec) (h : ProgSound env L rec) {ctx : Ctx} {b : Expr} {fields}
    (hb : ProgE env b) :
    ∀ k iters acc s g it acc' s' g', Within L s → CacheW L g →
      evalLoop (rec.expr ctx b) fields k iters acc s g = some (.ok (it, acc') s', g') →
      it = iters ∨ s.off < s'.off := by
  intro k iters acc s g it acc' s' g' hs hc hx
  cases k with
  | zero => simp [evalLoop] at hx
  | succ k =>
    simp only [evalLoop] at hx
    split at hx
    · cases hx
    · rename_i r0 s1 g1 heq
      have h1 := h.expr _ _ _ _ _ _ _ hb hs hc heq
      obtain ⟨hc1, hf1⟩ := (hinv.expr _ _ _ _ _ _ heq).2 hs hc
      obtain ⟨_, hw1⟩ := Fwd.ok_iff.1 hf1
      split at hx
      · obtain ⟨_, hf2⟩ := (evalLoop_inv (hinv.expr ctx b) _ _ _ _ _ _ _ hx).2 hw1 hc1
        have := (Fwd.ok_iff.1 hf2).1
        right; omega
      · cases hx
    · cases hx; left; rfl
    · cases hx

theorem stepExpr_prog (hinv : RInv L rec) (h : ProgSound env L rec) (n : Nat) (ctx : Ctx) (e : Expr)
    (s : St) (hp : ProgE env e) : Strict L s (stepExpr env rec n ctx e s) := by
  cases e with
  | choice alts =>
    match alts, hp with
    | [], _ => exact Strict.panic _
    | [a], hp => exact h.strictE (hp.choice a (List.mem_cons_self ..))
    | a :: b :: rest, hp => exact evalAlts_prog hinv h _ _ hp.choice
  | seq parts =>
    match parts, hp with
    | [], hp => obtain ⟨p, hm, _⟩ := hp.seq; cases hm
    | [a], hp =>
      obtain ⟨p, hm, hpp⟩ := hp.seq
      have : p = a := by simpa using hm
      subst this
      exact h.strictE hpp
    | a :: b :: rest, hp =>
      refine bindR_strict_l (evalSeq_inv hinv _ _ _ _) (evalSeq_prog hinv h _ _ _ _ hp.seq)
        (fun v s' => ?_)
      obtain ⟨seen, acc⟩ := v
      cases hpr : project (filterRuleFields ctx.ruleFields (ownFields env (.seq (a :: b :: rest)))) acc with
      | error m => simp only [hpr]; exact Inv.panic _
      | ok v => simp only [hpr]; exact Inv.okSame _
  | group b => exact h.strictE hp.group
  | opt b => exact hp.opt.elim
  | closure b plus =>
    obtain ⟨hplus, hb⟩ := hp.closure
    subst hplus
    intro g v s' g' hs hc hx
    simp only [stepExpr] at hx
    split at hx
    · cases hx
    · simp only [bindR] at hx
      split at hx
      · cases hx
      · rename_i v1 s1 g1 heq
        obtain ⟨it, acc'⟩ := v1
        simp only [Bool.true_and] at hx
        split at hx
        · cases hx
        · rename_i hit
          simp only [Option.some.injEq, Prod.mk.injEq, Res.ok.injEq] at hx
          obtain ⟨⟨_, rfl⟩, _⟩ := hx
          rcases evalLoop_prog hinv h hb _ _ _ _ _ _ _ _ _ hs hc heq with h0 | h0
          · subst h0; simp at hit
          · exact h0
      · cases hx
      · cases hx
  | neg b => exact hp.neg.elim
  | pos b => exact hp.pos.elim
  | range lo hi =>
    show Strict L s (fun g => stepExpr env rec n ctx (.range lo hi) s g)
    simp only [stepExpr]
    cases hlo : lo.toChar <;> cases hhi : hi.toChar <;> simp only []
    all_goals first
      | exact Strict.panic _
      | exact withSkipWs_strict hinv (fun s => Strict.map _ (fun _ _ he => off_parseCharacterRange he))
  | lit ins body =>
    show Strict L s (fun g => stepExpr env rec n ctx (.lit ins body) s g)
    simp only [stepExpr]
    cases hm : compileLit ins body with
    | err m => simp only []; exact Strict.panic _
    | fuel => simp only []; exact Strict.panic _
    | ok m =>
      simp only []
      have hn := hp.lit hm
      refine withSkipWs_strict hinv (fun s => ?_)
      cases m with
      | charLit c => exact Strict.map _ (fun _ _ he => off_parseCharacterLiteral he)
      | strLit l => exact Strict.map _ (fun _ _ he => off_parseStringLiteral hn he)
      | charLitI c => exact Strict.map _ (fun _ _ he => off_parseCharacterLiteralInsensitive he)
      | strLitI l => exact Strict.map _ (fun _ _ he => off_parseStringLiteralInsensitive hn he)
  | eoi => exact hp.eoi.elim
  | incl r =>
    show Strict L s (fun g => stepExpr env rec n ctx (.incl r) s g)
    simp only [stepExpr]
    cases hf : env.g.findRule r with
    | none => simp only []; exact Strict.panic _
    | some rule => simp only []; exact h.strictE (hp.incl hf)
  | field name boxed typ =>
    show Strict L s (fun g => stepExpr env rec n ctx (.field name boxed typ) s g)
    simp only [stepExpr]
    refine withSkipWs_strict hinv (fun s =>
      bindR_strict_l (hinv.rule typ s) (h.strictR hp.field) (fun v s' => ?_))
    cases name with
    | none => exact Inv.okSame _
    | some nm =>
      simp only []
      cases hpp : postprocessField ctx.ruleFields nm.key typ v with
      | error m => simp only []; exact Inv.panic _
      | ok fv => simp only []; exact Inv.okSame _

/-! ### rule level -/

theorem ruleBody_prog (hinv : RInv L rec) (h : ProgSound env L rec) (r : Rule) (s : St)
    (hp : ProgE env r.definition) : Strict L s (ruleBody env rec r s) := by
  show Strict L s (fun g => ruleBody env rec r s g)
  simp only [ruleBody]
  cases hf : getFields env.g env.nf r.definition with
  | ok fields =>
    simp only []
    refine Strict.ite
      (bindR_strict_l (hinv.expr _ _ _) (h.strictE hp) (fun _ s' => runChecks_inv _ _ _))
      (Strict.ite (bindR_strict_l (hinv.expr _ _ _) (h.strictE hp) (fun p s' => ?_))
        (Strict.ite (Strict.panic _)
          (bindR_strict_l (hinv.expr _ _ _) (h.strictE hp) (fun p s' => ?_))))
    · cases hv : p.get "_override" with
      | none => simp only []; exact Inv.panic _
      | some v => simp only []; exact runChecks_inv _ _ _
    · cases hpr : project fields p with
      | error m => simp only []; exact Inv.panic _
      | ok fs => simp only []; exact runChecks_inv _ _ _
  | err m => simp only []; exact Strict.panic _
  | fuel => simp only []; exact Strict.panic _

theorem normalRule_prog (hinv : RInv L rec) (h : ProgSound env L rec) (n : Nat) (r : Rule) (s : St)
    (hl : r.flags.leftRecursive = false) (hm : r.flags.memoize = false)
    (hp : ProgE env r.definition) : Strict L s (normalRule env rec n r s) := by
  intro g v s' g' hs hc hx
  unfold normalRule at hx
  simp only at hx
  split at hx
  · cases hx
  · rename_i res0 g0 heq
    simp only [Option.some.injEq, Prod.mk.injEq] at hx
    obtain ⟨rfl, _⟩ := hx
    unfold memoBody at heq
    simp only [hl, hm, Bool.false_eq_true, if_false] at heq
    exact ruleBody_prog hinv h r s hp (g.emit (.traceStart r.name s.off)) _ _ _ hs (hc.of_cache rfl) heq

theorem charParts_prog (hinv : RInv L rec) (h : ProgSound env L rec) (name : String) :
    ∀ ps s, (∀ id, CharRulePart.ident id ∈ ps → ProgR env id) →
      Strict L s (charParts rec name ps s) := by
  intro ps
  induction ps with
  | nil => intro s _ g v s' g' _ _ hx; simp [charParts] at hx
  | cons p ps ih =>
    intro s hall g v s' g' hs hc hx
    have key : ∀ x : Out Val,
        (∀ r1 g1, x = some (r1, g1) → Post L s g r1 g1 ∧ (∀ v1 s1, r1 = .ok v1 s1 → s.off < s1.off)) →
        (match x with
         | none => none
         | some (.ok v s', g') => some (.ok v s', g')
         | some (.err _, g') => charParts rec name ps s g'
         | some (.panic m, g') => some (.panic m, g')) = some (.ok v s', g') → s.off < s'.off := by
      intro x hx h
      split at h
      · cases h
      · cases h; exact (hx _ _ rfl).2 _ _ rfl
      · exact ih s (fun id hid => hall id (List.mem_cons_of_mem _ hid)) _ _ _ _ hs
          (((hx _ _ rfl).1.2 hs hc).1) h
      · cases h
    cases p with
    | chr item =>
      simp only [charParts] at hx
      refine key _ ?_ hx
      intro r1 g1 hx1
      split at hx1
      · cases hx1
        exact ⟨Post.refl (fun hs => (fwd_parseCharacterLiteral _ hs).map _), fun v1 s1 he => by
          obtain ⟨v0, h0⟩ := map_ok he; exact off_parseCharacterLiteral h0⟩
      · cases hx1; exact ⟨Post.refl (fun _ => Fwd.panic _), fun _ _ he => by cases he⟩
    | range lo hi =>
      simp only [charParts] at hx
      refine key _ ?_ hx
      intro r1 g1 hx1
      split at hx1
      · cases hx1
        exact ⟨Post.refl (fun hs => (fwd_parseCharacterRange _ _ hs).map _), fun v1 s1 he => by
          obtain ⟨v0, h0⟩ := map_ok he; exact off_parseCharacterRange h0⟩
      · cases hx1; exact ⟨Post.refl (fun _ => Fwd.panic _), fun _ _ he => by cases he⟩
    | ident id =>
      simp only [charParts] at hx
      refine key _ (fun r1 g1 hx1 => ⟨hinv.rule _ _ _ _ _ hx1, fun v1 s1 he => ?_⟩) hx
      subst he
      exact h.rule _ _ _ _ _ _ (hall id (List.mem_cons_self ..)) hs hc hx1

theorem charRule_prog (hinv : RInv L rec) (h : ProgSound env L rec) (r : CharRule) (s : St)
    (hall : ∀ id, CharRulePart.ident id ∈ r.choices → ProgR env id) :
    Strict L s (charRule env rec r s) := by
  intro g v s' g' hs hc hx
  unfold charRule at hx
  split at hx
  · exact charParts_prog hinv h _ _ _ hall _ _ _ _ hs hc hx
  · split at hx
    · cases hx
    · rename_i c hcd
      split at hx
      · cases hx
      · rename_i g1 hcc
        have hg : g1.cache = g.cache := by
          have := charChecks_cache (env := env) r.name r.directives c s g
          rw [hcc] at this; exact this
        exact charParts_prog hinv h _ _ _ hall _ _ _ _ hs (hc.of_cache hg) hx

theorem stepRule_prog (hinv : RInv L rec) (h : ProgSound env L rec) (n : Nat) (name : String) (s : St)
    (hp : ProgR env name) : Strict L s (stepRule env rec n name s) := by
  intro g v s' g' hs hc hx
  unfold stepRule at hx
  split at hx
  · rename_i r hf
    obtain ⟨hl, hm, hpe⟩ := hp.rule hf
    exact normalRule_prog hinv h n r s hl hm hpe _ _ _ _ hs hc hx
  · rename_i r hf
    exact charRule_prog hinv h r s (hp.charRule hf) _ _ _ _ hs hc hx
  · rename_i r hf
    exact (hp.externRule hf).elim
  · rename_i hf
    have hn := hp.none hf
    subst hn
    simp only [beq_self_eq_true, if_true, Option.some.injEq, Prod.mk.injEq] at hx
    obtain ⟨v0, h0⟩ := map_ok hx.1
    exact off_parseChar h0

end

theorem step_progSound {env : Env} {L : Nat} {rec : Rec} (hinv : LR.RInv L rec)
    (h : ProgSound env L rec) (n : Nat) : ProgSound env L (step env rec n) :=
  ⟨fun ctx e s g v s' g' hp hs hc hx => stepExpr_prog hinv h n ctx e s hp g v s' g' hs hc hx,
   fun name s g v s' g' hp hs hc hx => stepRule_prog hinv h n name s hp g v s' g' hs hc hx⟩

theorem eval_progSound (env : Env) (L : Nat) : ∀ n, ProgSound env L (eval env n) := by
  intro n
  induction n with
  | zero =>
    exact ⟨fun _ _ _ _ _ _ _ _ _ _ hx => by simp [eval] at hx,
      fun _ _ _ _ _ _ _ _ _ hx => by simp [eval] at hx⟩
  | succ n ih => exact step_progSound (LR.eval_inv env L n) ih n

end LRC
end Peg
