import PegVerif.Spec
/-
  Small facts about states, matchers and the global object used by all refinement proofs:
  * the matchers never look at `far` (error bookkeeping) – `abs_*`;
  * the matchers keep the cursor consistent with the input – `wf_*` (`rest = inp.drop off`);
  * cache lookup/insert/emit algebra.
-/
namespace Peg
open Spec

/-- the cursor is consistent with the input: the remaining bytes are the input from `off` on -/
def WfSt (inp : List UInt8) (s : St) : Prop := s.rest = inp.drop s.off

@[simp] theorem clr_rest (s : St) : (clr s).rest = s.rest := rfl
@[simp] theorem clr_off (s : St) : (clr s).off = s.off := rfl
@[simp] theorem clr_far (s : St) : (clr s).far = none := rfl
@[simp] theorem clr_clr (s : St) : clr (clr s) = clr s := rfl

@[simp] theorem recordError_rest (s : St) (e : PErr) : (s.recordError e).rest = s.rest := by
  unfold St.recordError; split <;> (try split) <;> rfl
@[simp] theorem recordError_off (s : St) (e : PErr) : (s.recordError e).off = s.off := by
  unfold St.recordError; split <;> (try split) <;> rfl
@[simp] theorem clr_recordError (s : St) (e : PErr) : clr (s.recordError e) = clr s := by
  unfold St.recordError; split <;> (try split) <;> rfl

theorem wf_clr {inp s} : WfSt inp (clr s) ↔ WfSt inp s := Iff.rfl
theorem wf_recordError {inp s e} : WfSt inp (s.recordError e) ↔ WfSt inp s := by
  unfold WfSt; simp

theorem clr_eq_of_wf {inp s} (h : WfSt inp s) : clr s = ⟨inp.drop s.off, s.off, none⟩ := by
  unfold WfSt at h; cases s; simp_all [clr]

@[simp] theorem sliceUntil_clr (s s' : St) : (clr s).sliceUntil (clr s') = s.sliceUntil s' := rfl

@[simp] theorem abs_abs {α} (r : Res α) : abs (abs r) = abs r := by cases r <;> rfl
theorem abs_map {α β} (f : α → β) (r : Res α) : abs (r.map f) = (abs r).map f := by cases r <;> rfl

/-! ### `advance` / `advance_safe` -/

theorem abs_advance {α} (s : St) (n : Nat) (v : α) : abs ((clr s).advance n v) = abs (s.advance n v) := by
  unfold St.advance
  by_cases h : n > s.rest.length <;> simp [h, abs, clr]

theorem abs_advanceSafe {α} (s : St) (n : Nat) (v : α) :
    abs ((clr s).advanceSafe n v) = abs (s.advanceSafe n v) := by
  unfold St.advanceSafe
  by_cases h : n > s.rest.length <;> by_cases h2 : isCharBoundary s.rest n <;> simp [h, h2, abs, clr]

theorem wf_advance {α inp} {s s' : St} {n : Nat} {v v' : α} (hw : WfSt inp s)
    (h : s.advance n v = .ok v' s') : WfSt inp s' := by
  unfold St.advance at h
  split at h
  · cases h
  · cases h; unfold WfSt at *; simp [hw, List.drop_drop]

theorem wf_advanceSafe {α inp} {s s' : St} {n : Nat} {v v' : α} (hw : WfSt inp s)
    (h : s.advanceSafe n v = .ok v' s') : WfSt inp s' := by
  unfold St.advanceSafe at h
  split at h
  · cases h
  · split at h
    · cases h
    · cases h; unfold WfSt at *; simp [hw, List.drop_drop]

/-! ### the matchers ignore `far` -/

theorem abs_ite {α} {c : Prop} [Decidable c] {a b a' b' : Res α} (h1 : abs a = abs a') (h2 : abs b = abs b') :
    abs (if c then a else b) = abs (if c then a' else b') := by
  split <;> assumption

theorem abs_parseChar (s : St) : abs (parseChar (clr s)) = abs (parseChar s) := by
  unfold parseChar; simp only [clr_rest]
  split
  · rfl
  · exact abs_advance ..

theorem abs_parseWhitespace (s : St) : abs (parseWhitespace (clr s)) = abs (parseWhitespace s) := rfl

theorem abs_parseStringLiteral (s : St) (l) : abs (parseStringLiteral (clr s) l) = abs (parseStringLiteral s l) := by
  unfold parseStringLiteral; simp only [clr_rest]
  exact abs_ite rfl (abs_advance ..)

theorem abs_parseCharacterLiteral (s : St) (c) :
    abs (parseCharacterLiteral (clr s) c) = abs (parseCharacterLiteral s c) := by
  unfold parseCharacterLiteral; simp only [clr_rest]
  refine abs_ite ?_ (abs_ite rfl (abs_advance ..))
  split
  · rfl
  · exact abs_ite rfl (abs_advance ..)

theorem abs_parseCharacterRange (s : St) (lo hi) :
    abs (parseCharacterRange (clr s) lo hi) = abs (parseCharacterRange s lo hi) := by
  unfold parseCharacterRange; simp only [clr_rest]
  refine abs_ite ?_ ?_
  · split
    · rfl
    · exact abs_ite rfl (abs_advance ..)
  · split
    · rfl
    · exact abs_ite rfl (abs_advance ..)

theorem abs_parseStringLiteralInsensitive (s : St) (l) :
    abs (parseStringLiteralInsensitive (clr s) l) = abs (parseStringLiteralInsensitive s l) := by
  unfold parseStringLiteralInsensitive; simp only [clr_rest]
  exact abs_ite rfl (abs_advance ..)

theorem abs_parseCharacterLiteralInsensitive (s : St) (c) :
    abs (parseCharacterLiteralInsensitive (clr s) c) = abs (parseCharacterLiteralInsensitive s c) := by
  unfold parseCharacterLiteralInsensitive; simp only [clr_rest]
  split
  · rfl
  · exact abs_ite rfl (abs_advance ..)

theorem abs_parseEndOfInput (s : St) : abs (parseEndOfInput (clr s)) = abs (parseEndOfInput s) := by
  unfold parseEndOfInput St.isEmpty; simp only [clr_rest]
  exact abs_ite rfl rfl

/-! ### the matchers keep the cursor consistent -/

theorem wf_parseChar {inp s v s'} (hw : WfSt inp s) (h : parseChar s = .ok v s') : WfSt inp s' := by
  unfold parseChar at h; split at h
  · cases h
  · exact wf_advance hw h

theorem wf_parseWhitespace {inp s v s'} (hw : WfSt inp s) (h : parseWhitespace s = .ok v s') : WfSt inp s' := by
  unfold parseWhitespace at h; cases h; unfold WfSt at *; simp [hw, List.drop_drop]

theorem wf_parseStringLiteral {inp s l v s'} (hw : WfSt inp s) (h : parseStringLiteral s l = .ok v s') :
    WfSt inp s' := by
  unfold parseStringLiteral at h; simp only at h; split at h
  · cases h
  · exact wf_advance hw h

theorem wf_parseCharacterLiteral {inp s c v s'} (hw : WfSt inp s)
    (h : parseCharacterLiteral s c = .ok v s') : WfSt inp s' := by
  unfold parseCharacterLiteral at h
  split at h
  · split at h
    · cases h
    · split at h
      · cases h
      · exact wf_advance hw h
  · split at h
    · cases h
    · exact wf_advance hw h

theorem wf_parseCharacterRange {inp s lo hi v s'} (hw : WfSt inp s)
    (h : parseCharacterRange s lo hi = .ok v s') : WfSt inp s' := by
  unfold parseCharacterRange at h
  split at h
  · split at h
    · cases h
    · split at h
      · cases h
      · exact wf_advance hw h
  · split at h
    · cases h
    · split at h
      · cases h
      · exact wf_advance hw h

theorem wf_parseStringLiteralInsensitive {inp s l v s'} (hw : WfSt inp s)
    (h : parseStringLiteralInsensitive s l = .ok v s') : WfSt inp s' := by
  unfold parseStringLiteralInsensitive at h; simp only at h; split at h
  · cases h
  · exact wf_advance hw h

theorem wf_parseCharacterLiteralInsensitive {inp s c v s'} (hw : WfSt inp s)
    (h : parseCharacterLiteralInsensitive s c = .ok v s') : WfSt inp s' := by
  unfold parseCharacterLiteralInsensitive at h
  split at h
  · cases h
  · split at h
    · cases h
    · exact wf_advance hw h

theorem wf_parseEndOfInput {inp s v s'} (hw : WfSt inp s) (h : parseEndOfInput s = .ok v s') : WfSt inp s' := by
  unfold parseEndOfInput at h; split at h
  · cases h; exact hw
  · cases h

theorem map_ok {α β} {f : α → β} {r : Res α} {v s} (h : r.map f = .ok v s) : ∃ v0, r = .ok v0 s := by
  cases r with
  | ok v0 s0 => simp only [Res.map, Res.ok.injEq] at h; exact ⟨v0, by rw [h.2]⟩
  | err e => simp [Res.map] at h
  | panic m => simp [Res.map] at h

/-! ### global object -/

@[simp] theorem emit_cache (g : Global) (e : Ev) : (g.emit e).cache = g.cache := rfl
@[simp] theorem emit_uctx (g : Global) (e : Ev) : (g.emit e).uctx = g.uctx := rfl
@[simp] theorem emit_lookup (g : Global) (e : Ev) (k) : (g.emit e).lookup k = g.lookup k := rfl
@[simp] theorem insert_uctx (g : Global) (k v) : (g.insert k v).uctx = g.uctx := rfl

theorem lookup_insert (g : Global) (k k' : String × Nat) (v : Res Val) :
    (g.insert k v).lookup k' = if k == k' then some v else g.lookup k' := by
  unfold Global.insert Global.lookup
  simp only [List.find?_cons]
  split <;> rename_i h
  · simp [h]
  · simp [h]

end Peg
