import PegVerif.Eval
import PegVerif.Proofs.Basics
import PegVerif.Proofs.Refine
import PegVerif.Proofs.RefineRule
/-
  C10 – error reporting.  When a parse fails, the reported `ParseError` is a *failed match attempt
  of that parse*: the furthest one, and among the furthest ones the last.

  * Part 1: pure list facts about `record_error` (`record`, `recordAll`, `recordAll_spec`).
  * Part 2: `Att.eval`, the reference semantics (`Spec.eval`: no cache, no log, no `far`)
    instrumented with the chronological list of *counted* failed attempts.
  * Part 3: the bookkeeping theorem `eval_tr`: for grammars without `@memoize` / `@leftrec` rules
    (`NoMemoG`) and pure hooks, the `far` field of the generated parser's state after a success, and
    the reported error after a failure, is `recordAll` of (`far` at entry, the attempts made in
    between) – at equal fuel on both sides.  The error invariant is unconditional:
    `some e = recordAll s.far atts` (the `other` fallback of `report_farthest_error` is unreachable:
    `evalAlts []` is only reached after an alternative failed, `closure+` with zero iterations only
    after the body failed, and both fold that failure into the state first).
  * Part 5 (before part 4): `eval_ok`: `Att.eval` lists only real attempts (never
    `leftRecursionSentinel`, never `other`), and at least one whenever it fails.
    `eval_fst`: forgetting the lists, `Att.eval` *is* `Spec.eval`.
  * Part 4: `C10_reported`, `C10_is_attempt`, `C10_furthest`, `C10_last_at_position`,
    `C10_success_far`, `C10_no_sentinel_partial`.
  * Part 6: a concrete grammar; two concrete grammars showing that `NoMemoG` cannot be dropped
    (a cache hit restores the `farthest_error` stored with the cached `ParseOk`).

  One deviation from the informal description of `@char` rules ("`[]` when it succeeds"): a part
  that is an *identifier* may reference any rule; when that rule matches, the state it returns (and
  hence the state of the `@char` rule) carries the attempts recorded inside it.  `Att.charParts`
  therefore lists the attempts of the matching referenced rule (none when that rule is itself a
  `@char` rule or a builtin); the attempts of the parts that failed before are dropped, as described.
-/
namespace Peg
open Spec

/-! ## Part 1: `record_error` on lists -/

/-- `record_error` on the `farthest_error` field alone -/
def record (f : Option PErr) (e : PErr) : Option PErr :=
  match f with
  | some f0 => if f0.pos ≤ e.pos then some e else some f0
  | none => some e

/-- record a chronological list of failed attempts -/
def recordAll (f0 : Option PErr) (atts : List PErr) : Option PErr := atts.foldl record f0

theorem recordError_far (s : St) (e : PErr) : (s.recordError e).far = record s.far e := by
  obtain ⟨rest, off, far⟩ := s
  unfold St.recordError record
  cases far with
  | none => rfl
  | some f => simp only []; split <;> rfl

/-- `recordAll` is the fold of `St.recordError` (the formulation of the task statement) -/
theorem recordAll_eq_foldl (f0 : Option PErr) (atts : List PErr) :
    recordAll f0 atts = atts.foldl (fun f e => (St.recordError ⟨[], 0, f⟩ e).far) f0 := by
  unfold recordAll
  congr 1
  funext f e
  exact (recordError_far ⟨[], 0, f⟩ e).symm

@[simp] theorem recordAll_nil (f : Option PErr) : recordAll f [] = f := rfl
@[simp] theorem recordAll_cons (f : Option PErr) (a : PErr) (as : List PErr) :
    recordAll f (a :: as) = recordAll (record f a) as := rfl

theorem recordAll_append (f : Option PErr) (a b : List PErr) :
    recordAll f (a ++ b) = recordAll (recordAll f a) b := by
  unfold recordAll; exact List.foldl_append ..

theorem recordAll_singleton (f : Option PErr) (a : PErr) : recordAll f [a] = record f a := rfl

/-- one `record` step: the result is defined, not before the new attempt, not before the old one -/
theorem record_spec (f : Option PErr) (a : PErr) :
    ∃ e, record f a = some e ∧ a.pos ≤ e.pos ∧ (∀ f0, f = some f0 → f0.pos ≤ e.pos) ∧
      (e = a ∨ (f = some e ∧ a.pos < e.pos)) := by
  unfold record
  cases f with
  | none => exact ⟨a, rfl, Nat.le_refl _, fun _ h => (by cases h), Or.inl rfl⟩
  | some f0 =>
    by_cases h : f0.pos ≤ a.pos
    · exact ⟨a, by simp [h], Nat.le_refl _, fun _ h' => (by cases h'; exact h), Or.inl rfl⟩
    · exact ⟨f0, by simp [h], by omega, fun _ h' => (by cases h'; exact Nat.le_refl _),
        Or.inr ⟨rfl, by omega⟩⟩

/-- the complete description of `recordAll`: the result is either the initial value (and then every
    attempt is strictly before it), or an element of the list that is not before the initial value,
    not before any earlier attempt and strictly behind every later attempt. -/
theorem recordAll_spec : ∀ (atts : List PErr) (f0 : Option PErr) (e : PErr),
    recordAll f0 atts = some e →
      (f0 = some e ∧ ∀ a ∈ atts, a.pos < e.pos) ∨
      (∃ pre post, atts = pre ++ e :: post ∧ (∀ a ∈ post, a.pos < e.pos) ∧
        (∀ a ∈ pre, a.pos ≤ e.pos) ∧ (∀ f, f0 = some f → f.pos ≤ e.pos)) := by
  intro atts
  induction atts with
  | nil =>
    intro f0 e h
    exact Or.inl ⟨h, fun _ h => by cases h⟩
  | cons a as ih =>
    intro f0 e h
    simp only [recordAll_cons] at h
    obtain ⟨e1, he1, hae1, hf1, hcase⟩ := record_spec f0 a
    rcases ih _ _ h with ⟨hl, hlt⟩ | ⟨pre, post, hsplit, hpost, hpre, hf⟩
    · rw [he1] at hl
      cases hl
      rcases hcase with rfl | ⟨hfe, hlt'⟩
      · exact Or.inr ⟨[], as, rfl, hlt, fun _ h => (by cases h), hf1⟩
      · refine Or.inl ⟨hfe, fun x hx => ?_⟩
        rcases List.mem_cons.mp hx with rfl | hx
        · exact hlt'
        · exact hlt x hx
    · have h1 : e1.pos ≤ e.pos := hf e1 he1
      refine Or.inr ⟨a :: pre, post, by rw [hsplit]; rfl, hpost, fun x hx => ?_, fun f hf0 => ?_⟩
      · rcases List.mem_cons.mp hx with rfl | hx
        · omega
        · exact hpre x hx
      · have := hf1 f hf0; omega

theorem recordAll_eq_none {f0 : Option PErr} {atts : List PErr} :
    recordAll f0 atts = none ↔ f0 = none ∧ atts = [] := by
  constructor
  · intro h
    cases atts with
    | nil => exact ⟨h, rfl⟩
    | cons a as =>
      exfalso
      simp only [recordAll_cons] at h
      obtain ⟨e1, he1, -⟩ := record_spec f0 a
      rw [he1] at h
      clear he1
      induction as generalizing e1 with
      | nil => cases h
      | cons b bs ih =>
        simp only [recordAll_cons] at h
        obtain ⟨e2, he2, -⟩ := record_spec (some e1) b
        rw [he2] at h
        exact ih _ h
  · rintro ⟨rfl, rfl⟩; rfl

theorem recordAll_isSome_of_ne_nil {f0 : Option PErr} {atts : List PErr} (h : atts ≠ []) :
    ∃ e, recordAll f0 atts = some e := by
  cases hr : recordAll f0 atts with
  | none => exact absurd (recordAll_eq_none.mp hr).2 h
  | some e => exact ⟨e, rfl⟩

theorem recordAll_some_isSome (f : PErr) (atts : List PErr) : ∃ e, recordAll (some f) atts = some e := by
  cases hr : recordAll (some f) atts with
  | none => have := (recordAll_eq_none.mp hr).1; cases this
  | some e => exact ⟨e, rfl⟩

/-- from an empty `far`: the result is one of the attempts -/
theorem recordAll_none_mem {atts : List PErr} {e : PErr} (h : recordAll none atts = some e) : e ∈ atts := by
  rcases recordAll_spec _ _ _ h with ⟨hl, _⟩ | ⟨pre, post, rfl, _⟩
  · cases hl
  · simp

/-- … at the maximal position … -/
theorem recordAll_none_max {atts : List PErr} {e : PErr} (h : recordAll none atts = some e) :
    ∀ a ∈ atts, a.pos ≤ e.pos := by
  rcases recordAll_spec _ _ _ h with ⟨hl, _⟩ | ⟨pre, post, rfl, hpost, hpre, _⟩
  · cases hl
  · intro a ha
    rcases List.mem_append.mp ha with ha | ha
    · exact hpre a ha
    · rcases List.mem_cons.mp ha with rfl | ha
      · exact Nat.le_refl _
      · exact Nat.le_of_lt (hpost a ha)

/-- … and among the attempts at that position it is the last one -/
theorem recordAll_none_last {atts : List PErr} {e : PErr} (h : recordAll none atts = some e) :
    ∃ pre post, atts = pre ++ e :: post ∧ ∀ a ∈ post, a.pos < e.pos := by
  rcases recordAll_spec _ _ _ h with ⟨hl, _⟩ | ⟨pre, post, hs, hpost, _, _⟩
  · cases hl
  · exact ⟨pre, post, hs, hpost⟩

/-- with a starting value: the result is the starting value or one of the attempts … -/
theorem recordAll_some_mem {f : PErr} {atts : List PErr} {e : PErr} (h : recordAll (some f) atts = some e) :
    e = f ∨ e ∈ atts := by
  rcases recordAll_spec _ _ _ h with ⟨hl, _⟩ | ⟨pre, post, rfl, _⟩
  · cases hl; exact Or.inl rfl
  · right; simp

/-- … and not before the starting value nor before any attempt -/
theorem recordAll_some_max {f : PErr} {atts : List PErr} {e : PErr} (h : recordAll (some f) atts = some e) :
    f.pos ≤ e.pos ∧ ∀ a ∈ atts, a.pos ≤ e.pos := by
  rcases recordAll_spec _ _ _ h with ⟨hl, hlt⟩ | ⟨pre, post, rfl, hpost, hpre, hf⟩
  · cases hl; exact ⟨Nat.le_refl _, fun a ha => Nat.le_of_lt (hlt a ha)⟩
  · refine ⟨hf f rfl, fun a ha => ?_⟩
    rcases List.mem_append.mp ha with ha | ha
    · exact hpre a ha
    · rcases List.mem_cons.mp ha with rfl | ha
      · exact Nat.le_refl _
      · exact Nat.le_of_lt (hpost a ha)

/-- the starting value is never before the result (any starting value) -/
theorem recordAll_ge {f0 : Option PErr} {atts : List PErr} {e : PErr} (h : recordAll f0 atts = some e) :
    ∀ f, f0 = some f → f.pos ≤ e.pos := by
  intro f hf; subst hf; exact (recordAll_some_max h).1

/-- folding an error that already is the `recordAll` of the attempts back into the entry state
    (failed alternative, failed optional, closure-ending iteration) -/
theorem record_of_recordAll {f0 : Option PErr} {atts : List PErr} {e : PErr}
    (h : some e = recordAll f0 atts) : record f0 e = recordAll f0 atts := by
  rw [← h]
  cases f0 with
  | none => rfl
  | some f =>
    have := recordAll_ge h.symm f rfl
    simp [record, this]

theorem reportError_eq (s : St) (sp : Spec) :
    some (s.reportError sp) = recordAll s.far [⟨s.off, sp⟩] := by
  unfold St.reportError St.reportFarthest
  rw [recordError_far, recordAll_singleton]
  obtain ⟨e, he, _⟩ := record_spec s.far ⟨s.off, sp⟩
  rw [he]

theorem reportError_clr (s : St) (sp : Spec) : (clr s).reportError sp = ⟨s.off, sp⟩ := rfl

/-! ## Part 2: the attempt-collecting reference evaluator

  `Att.eval` is `Spec.eval` (same control flow, no cache, no log, no `far`; `@memoize` / `@leftrec`
  ignored) whose answers carry, next to the abstract result, the chronological list of the *counted*
  failed match attempts of that evaluation. -/
namespace Att

abbrev AOut (α : Type) := Option (Res α × List PErr)

structure ARec where
  expr : Ctx → Expr → St → AOut Parsed
  rule : String → St → AOut Val

/-- prepend attempts made earlier -/
def addA {α} (as : List PErr) (x : AOut α) : AOut α :=
  match x with
  | none => none
  | some (r, bs) => some (r, as ++ bs)

/-- sequencing: the attempts of both halves, in order -/
def bindA {α β} (x : AOut α) (k : α → St → AOut β) : AOut β :=
  match x with
  | none => none
  | some (.ok v s, as) => addA as (k v s)
  | some (.err _, as) => some (.err noErr, as)
  | some (.panic m, as) => some (.panic m, as)

/-- the attempt of a terminal matcher run on a cursor without bookkeeping: its error, if it fails
    (`reports_*` below: that error is `⟨cursor offset, the matcher's specifics⟩`) -/
def errAtt {α} : Res α → List PErr
  | .err e => [e]
  | _ => []

/-- a terminal matcher -/
def term {α} (r : Res α) : AOut α := some (abs r, errAtt r)

/-- the attempts of the `Whitespace` call come first -/
def withSkipWs {α} (rec : ARec) (ctx : Ctx) (s : St) (k : St → AOut α) : AOut α :=
  if ctx.skipWs then bindA (rec.rule "Whitespace" s) (fun _ s' => k s') else k s

def evalSeq (env : Env) (rec : ARec) (ctx : Ctx) :
    List Expr → List String → Parsed → St → AOut (List String × Parsed)
  | [], seen, acc, s => some (.ok (seen, acc) s, [])
  | p :: ps, seen, acc, s =>
    bindA (rec.expr ctx p s) fun r s' =>
      let inner := filterRuleFields ctx.ruleFields (ownFields env p)
      match mergePart inner seen acc r with
      | .error m => some (.panic ("codegen: " ++ m), [])
      | .ok (seen', acc') => evalSeq env rec ctx ps seen' acc' s'

/-- the attempts of the failed alternatives count -/
def evalAlts (env : Env) (rec : ARec) (ctx : Ctx) (fields : List FieldDesc) :
    List Expr → St → AOut Parsed
  | [], _ => some (.err noErr, [])
  | a :: as, s =>
    match rec.expr ctx a s with
    | none => none
    | some (.ok r s', ats) =>
      (match convertArm fields (ownFields env a) r with
       | .ok p => some (.ok p s', ats)
       | .error m => some (.panic ("codegen: " ++ m), ats))
    | some (.err _, ats) => addA ats (evalAlts env rec ctx fields as s)
    | some (.panic m, ats) => some (.panic m, ats)

/-- the attempts of the closure-ending iteration count -/
def evalLoop (body : St → AOut Parsed) (fields : List FieldDesc) :
    Nat → Nat → Parsed → St → AOut (Nat × Parsed)
  | 0, _, _, _ => none
  | k+1, iters, acc, s =>
    match body s with
    | none => none
    | some (.ok r s', ats) =>
      (match extendAll fields acc r with
       | .ok acc' => addA ats (evalLoop body fields k (iters + 1) acc' s')
       | .error m => some (.panic ("codegen: " ++ m), ats))
    | some (.err _, ats) => some (.ok (iters, acc) s, ats)
    | some (.panic m, ats) => some (.panic m, ats)

def stepExpr (env : Env) (rec : ARec) (n : Nat) (ctx : Ctx) (e : Expr) (s : St) : AOut Parsed :=
  match e with
  | .choice [] => some (.panic "index out of bounds: choices[0]", [])
  | .choice [a] => rec.expr ctx a s
  | .choice alts =>
    evalAlts env rec ctx (filterRuleFields ctx.ruleFields (ownFields env e)) alts s
  | .seq [] => some (.ok [] s, [])
  | .seq [p] => rec.expr ctx p s
  | .seq parts =>
    bindA (evalSeq env rec ctx parts [] [] s) fun (_, acc) s' =>
      match project (filterRuleFields ctx.ruleFields (ownFields env e)) acc with
      | .ok p => some (.ok p s', [])
      | .error m => some (.panic ("codegen: " ++ m), [])
  | .group b => rec.expr ctx b s
  | .opt b =>
    match rec.expr ctx b s with
    | none => none
    | some (.ok r s', ats) => some (.ok r s', ats)
    | some (.err _, ats) =>
      (match defaults (filterRuleFields ctx.ruleFields (ownFields env b)) with
       | .ok p => some (.ok p s, ats)            -- the attempts of the failed body count
       | .error m => some (.panic ("codegen: " ++ m), ats))
    | some (.panic m, ats) => some (.panic m, ats)
  | .closure b atLeastOne =>
    let fields := filterRuleFields ctx.ruleFields (ownFields env b)
    match closureInit fields with
    | .error m => some (.panic ("codegen: " ++ m), [])
    | .ok init =>
      bindA (evalLoop (rec.expr ctx b) fields n 0 init s) fun (iters, acc) s' =>
        if atLeastOne && iters == 0 then some (.err noErr, [])
        else some (.ok acc s', [])
  | .neg b =>
    match rec.expr ctx b s with
    | none => none
    | some (.ok _ _, _) => some (.err noErr, [⟨s.off, .negativeLookaheadFailed⟩])
    | some (.err _, _) => some (.ok [] s, [])  -- inner attempts never count
    | some (.panic m, ats) => some (.panic m, ats)
  | .pos b =>
    match rec.expr ctx b s with
    | none => none
    | some (.ok _ _, _) => some (.ok [] s, [])  -- inner attempts of a matching lookahead do not count
    | some (.err _, ats) => some (.err noErr, ats)
    | some (.panic m, ats) => some (.panic m, ats)
  | .range lo hi =>
    match lo.toChar, hi.toChar with
    | .ok lo, .ok hi =>
      withSkipWs rec ctx s fun s => term ((parseCharacterRange (clr s) lo hi).map (fun _ => []))
    | _, _ => some (.panic "uncompilable: range bound", [])
  | .lit ins body =>
    match compileLit ins body with
    | .ok m =>
      withSkipWs rec ctx s fun s =>
        match m with
        | .charLit c => term ((parseCharacterLiteral (clr s) c).map (fun _ => []))
        | .strLit l => term ((parseStringLiteral (clr s) l).map (fun _ => []))
        | .charLitI c => term ((parseCharacterLiteralInsensitive (clr s) c).map (fun _ => []))
        | .strLitI l => term ((parseStringLiteralInsensitive (clr s) l).map (fun _ => []))
    | _ => some (.panic "uncompilable: literal", [])
  | .eoi => withSkipWs rec ctx s fun s => term ((parseEndOfInput (clr s)).map (fun _ => []))
  | .incl r =>
    match env.g.findRule r with
    | none => some (.panic "uncompilable: include of a missing rule", [])
    | some rule => rec.expr ctx rule.definition s
  | .field name _ typ =>
    withSkipWs rec ctx s fun s =>
      bindA (rec.rule typ s) fun v s' =>
        match name with
        | none => some (.ok [] s', [])
        | some nm =>
          match postprocessField ctx.ruleFields nm.key typ v with
          | .ok fv => some (.ok [(nm.key, fv)] s', [])
          | .error m => some (.panic ("codegen: " ++ m), [])

/-- the first failing check is an attempt at the end offset of the rule -/
def runChecks (env : Env) (u : Nat) : List (List String) → Val → St → AOut Val
  | [], v, s => some (.ok v s, [])
  | f :: fs, v, s =>
    if !(env.hooks.check ("::".intercalate f) v u).1 then
      some (.err noErr, [⟨s.off, .checkFunctionFailed ("::".intercalate f)⟩])
    else runChecks env u fs v s

def ruleBody (env : Env) (u : Nat) (rec : ARec) (r : Rule) (s : St) : AOut Val :=
  let flags := r.flags
  match getFields env.g env.nf r.definition with
  | .ok fields =>
    let ctx : Ctx := { skipWs := env.settings.skipWhitespace && !flags.noSkipWs, ruleFields := fields }
    if flags.string then
      bindA (rec.expr ctx r.definition s) fun _ s' =>
        let str := Val.str (s.sliceUntil s')
        let v := if flags.position then Val.node r.name [("string", str)] (some (s.off, s'.off)) else str
        runChecks env u r.checks v s'
    else if fields.length == 1 && (fields.head?.map (·.name)) == some "_override" then
      bindA (rec.expr ctx r.definition s) fun p s' =>
        match p.get "_override" with
        | some v => runChecks env u r.checks v s'
        | none => some (.panic "codegen: override value missing", [])
    else if hasField fields "_override" then
      some (.panic "uncompilable: Mixing simple and override fields is not allowed.", [])
    else
      bindA (rec.expr ctx r.definition s) fun p s' =>
        match project fields p with
        | .ok fs =>
          let v := Val.node r.name fs (if flags.position then some (s.off, s'.off) else none)
          runChecks env u r.checks v s'
        | .error m => some (.panic ("codegen: " ++ m), [])
  | _ => some (.panic "uncompilable: get_fields failed", [])

/-- the alternatives of a `@char` rule: the attempts of failed parts are dropped (also those made
    inside referenced rules); a matching literal / range part made no attempt; a matching referenced
    rule contributes the attempts it made while matching (none if it is a `@char` rule or a builtin);
    when every part fails there is one attempt, the class itself, ats the start -/
def charParts (rec : ARec) (name : String) : List CharRulePart → St → AOut Val
  | [], s => some (.err noErr, [⟨s.off, .expectedCharacterClass name⟩])
  | p :: ps, s =>
    let r : AOut Val := match p with
      | .chr item => (match item.toChar with
        | .ok c => term ((parseCharacterLiteral (clr s) c).map .chr)
        | _ => some (.panic "uncompilable: char rule literal", []))
      | .range lo hi => (match lo.toChar, hi.toChar with
        | .ok lo, .ok hi => term ((parseCharacterRange (clr s) lo hi).map .chr)
        | _, _ => some (.panic "uncompilable: char rule range", []))
      | .ident id => rec.rule id s
    match r with
    | none => none
    | some (.ok v s', ats) => some (.ok v s', ats)
    | some (.err _, _) => charParts rec name ps s
    | some (.panic m, ats) => some (.panic m, ats)

def charRule (env : Env) (rec : ARec) (r : CharRule) (s : St) : AOut Val :=
  if r.directives.isEmpty then charParts rec r.name r.choices s
  else match decodeHead s.rest with
    | none => some (.err noErr, [⟨s.off, .expectedCharacterClass r.name⟩])
    | some c =>
      if charChecksOk env r.directives c then charParts rec r.name r.choices s
      else some (.err noErr, [⟨s.off, .expectedCharacterClass r.name⟩])

def externRule (env : Env) (u : Nat) (r : ExternRule) (s : St) : AOut Val :=
  match (env.hooks.extern ("::".intercalate r.function) s.rest u).1 with
  | .ok (v, adv) => some (abs (s.advanceSafe adv v), [])
  | .error msg => some (.err noErr, [⟨s.off, .externRuleFailed msg⟩])

def stepRule (env : Env) (u : Nat) (rec : ARec) (name : String) (s : St) : AOut Val :=
  match env.g.find name with
  | some (.rule r) => ruleBody env u rec r s
  | some (.charRule r) => charRule env rec r s
  | some (.externRule r) => externRule env u r s
  | none =>
    if name == "char" then term ((parseChar (clr s)).map .chr)
    else if name == "Whitespace" then term ((parseWhitespace (clr s)).map (fun _ => .unit))
    else some (.panic ("uncompilable: undefined rule " ++ name), [])

def step (env : Env) (u : Nat) (rec : ARec) (n : Nat) : ARec :=
  { expr := stepExpr env rec n, rule := stepRule env u rec }

def eval (env : Env) (u : Nat) : Nat → ARec
  | 0 => { expr := fun _ _ _ => none, rule := fun _ _ => none }
  | n+1 => step env u (eval env u n) n

/-- the reference answer and the attempts of a whole parse -/
def parse (env : Env) (u : Nat) (fuel : Nat) (rule : String) (inp : List UInt8) : AOut Val :=
  (eval env u fuel).rule rule (St.new inp)

end Att

/-! ## Part 3: the bookkeeping theorem -/

/-- no `@memoize` and no `@leftrec` rule -/
def NoMemoG (g : Grammar) : Prop :=
  ∀ r, RuleEntry.rule r ∈ g.rules → r.flags.memoize = false ∧ r.flags.leftRecursive = false

/-- the bookkeeping invariant: `far` of the state after a success, and the error of a failure, are
    `recordAll` of (`far` at entry, attempts made in between) -/
def Track {α} (f0 : Option PErr) (r : Res α) (atts : List PErr) : Prop :=
  match r with
  | .ok _ s' => s'.far = recordAll f0 atts
  | .err e => some e = recordAll f0 atts
  | .panic _ => True

theorem Track.append {α} {f0 : Option PErr} {r : Res α} {a1 a2 : List PErr}
    (h : Track (recordAll f0 a1) r a2) : Track f0 r (a1 ++ a2) := by
  cases r <;> simp only [Track, recordAll_append] at h ⊢ <;> exact h

/-- the cache stays empty, the user context stays put -/
structure GOk (u : Nat) (g : Global) : Prop where
  cache : g.cache = []
  uctx : g.uctx = u

theorem GOk.emit {u g} (h : GOk u g) (e : Ev) : GOk u (g.emit e) := ⟨h.cache, h.uctx⟩

def PostA {α} (u : Nat) (f0 : Option PErr) (ax : Att.AOut α) (r : Res α) (g' : Global) : Prop :=
  ∃ atts, ax = some (abs r, atts) ∧ Track f0 r atts ∧ GOk u g'

def TrE (u : Nat) (ev : Ctx → Expr → St → Global → Out Parsed) (av : Ctx → Expr → St → Att.AOut Parsed) : Prop :=
  ∀ ctx e s g r g', ev ctx e s g = some (r, g') → GOk u g → PostA u s.far (av ctx e (clr s)) r g'

def TrR (u : Nat) (ev : String → St → Global → Out Val) (av : String → St → Att.AOut Val) : Prop :=
  ∀ name s g r g', ev name s g = some (r, g') → GOk u g → PostA u s.far (av name (clr s)) r g'

structure Tr (u : Nat) (rec : Rec) (arec : Att.ARec) : Prop where
  expr : TrE u rec.expr arec.expr
  rule : TrR u rec.rule arec.rule

section
variable {env : Env} {u : Nat}

theorem PostA.panic {α} {f0 : Option PErr} {ax : Att.AOut α} {m : String} {g : Global} {atts}
    (h : ax = some (.panic m, atts)) (hg : GOk u g) : PostA u f0 ax (.panic m : Res α) g :=
  ⟨atts, h, trivial, hg⟩

theorem bindR_tr {α β} {x : Out α} {k : α → St → Global → Out β} {r : Res β} {g' : Global}
    {ax : Att.AOut α} {ak : α → St → Att.AOut β} {f0 : Option PErr}
    (h : bindR x k = some (r, g'))
    (hx : ∀ rx gx, x = some (rx, gx) → PostA u f0 ax rx gx)
    (hk : ∀ v s1 g1 r g', k v s1 g1 = some (r, g') → GOk u g1 → PostA u s1.far (ak v (clr s1)) r g') :
    PostA u f0 (Att.bindA ax ak) r g' := by
  cases x with
  | none => simp [bindR] at h
  | some a =>
    obtain ⟨rx, gx⟩ := a
    obtain ⟨a1, hax, ht, hg⟩ := hx rx gx rfl
    cases rx with
    | ok v s1 =>
      simp only [bindR] at h
      obtain ⟨a2, hak, ht2, hg2⟩ := hk v s1 gx r g' h hg
      refine ⟨a1 ++ a2, ?_, ?_, hg2⟩
      · simp only [hax, abs, Att.bindA, hak, Att.addA]
      · simp only [Track] at ht
        rw [ht] at ht2
        exact ht2.append
    | err e =>
      simp only [bindR, Option.some.injEq, Prod.mk.injEq] at h
      obtain ⟨rfl, rfl⟩ := h
      exact ⟨a1, by simp only [hax, abs, Att.bindA], ht, hg⟩
    | panic msg =>
      simp only [bindR, Option.some.injEq, Prod.mk.injEq] at h
      obtain ⟨rfl, rfl⟩ := h
      exact ⟨a1, by simp only [hax, abs, Att.bindA], ht, hg⟩

theorem withSkipWs_tr {α} {rec : Rec} {arec : Att.ARec} (hrec : Tr u rec arec) {ctx : Ctx} {s : St}
    {g : Global} {k : St → Global → Out α} {ak : St → Att.AOut α} {r : Res α} {g' : Global}
    (h : Peg.withSkipWs rec ctx s g k = some (r, g')) (hg : GOk u g)
    (hk : ∀ s1 g1 r g', k s1 g1 = some (r, g') → GOk u g1 → PostA u s1.far (ak (clr s1)) r g') :
    PostA u s.far (Att.withSkipWs arec ctx (clr s) ak) r g' := by
  unfold Peg.withSkipWs at h
  unfold Att.withSkipWs
  split at h
  · rename_i hs
    simp only [hs, if_true]
    exact bindR_tr (ak := fun _ s' => ak s') h
      (fun rx gx hx => hrec.rule _ _ _ _ _ hx hg)
      (fun v s1 g1 r g' h hg1 => hk s1 g1 r g' h hg1)
  · rename_i hs
    simp only [hs]
    exact hk _ _ _ _ h hg

theorem evalSeq_tr {rec : Rec} {arec : Att.ARec} (hrec : Tr u rec arec) {ctx : Ctx} :
    ∀ ps seen acc s g r g', evalSeq env rec ctx ps seen acc s g = some (r, g') → GOk u g →
      PostA u s.far (Att.evalSeq env arec ctx ps seen acc (clr s)) r g' := by
  intro ps
  induction ps with
  | nil =>
    intro seen acc s g r g' h hg
    simp only [evalSeq, Option.some.injEq, Prod.mk.injEq] at h
    obtain ⟨rfl, rfl⟩ := h
    exact ⟨[], rfl, rfl, hg⟩
  | cons p ps ih =>
    intro seen acc s g r g' h hg
    simp only [evalSeq] at h
    simp only [Att.evalSeq]
    refine bindR_tr h (fun rx gx hx => hrec.expr _ _ _ _ _ _ hx hg) ?_
    intro v s1 g1 r g' h hg1
    split at h
    · rename_i hm
      simp only [Option.some.injEq, Prod.mk.injEq] at h
      obtain ⟨rfl, rfl⟩ := h
      exact PostA.panic (by simp only [hm]; rfl) hg1
    · rename_i hm
      simp only [hm]
      exact ih _ _ _ _ _ _ h hg1

theorem recordError_far_ne_none (s : St) (e : PErr) : (s.recordError e).far ≠ none := by
  rw [recordError_far]
  obtain ⟨e', he, -⟩ := record_spec s.far e
  rw [he]; exact fun h => by cases h

/-- folding a failure back into the entry state -/
theorem recordError_far_of_track {s : St} {e : PErr} {atts : List PErr}
    (h : Track s.far (.err e : Res Parsed) atts) : (s.recordError e).far = recordAll s.far atts := by
  rw [recordError_far]; exact record_of_recordAll h

/-- `ChoiceHelper`: an empty list of alternatives reports `far`, which is set as soon as one
    alternative has failed -/
theorem evalAlts_tr {rec : Rec} {arec : Att.ARec} (hrec : Tr u rec arec) {ctx : Ctx} {fields} :
    ∀ as s g r g', evalAlts env rec ctx fields as s g = some (r, g') → GOk u g →
      (as ≠ [] ∨ s.far ≠ none) →
      PostA u s.far (Att.evalAlts env arec ctx fields as (clr s)) r g' := by
  intro as
  induction as with
  | nil =>
    intro s g r g' h hg hne
    simp only [evalAlts, Option.some.injEq, Prod.mk.injEq] at h
    obtain ⟨rfl, rfl⟩ := h
    rcases hne with hne | hne
    · exact absurd rfl hne
    · refine ⟨[], rfl, ?_, hg⟩
      simp only [Track, recordAll_nil, St.reportFarthest]
      cases hf : s.far with
      | none => exact absurd hf hne
      | some f => rfl
  | cons a as ih =>
    intro s g r g' h hg _
    simp only [evalAlts] at h
    split at h
    · cases h
    · rename_i r0 s0 g0 hx
      obtain ⟨a1, hax, ht, hg0⟩ := hrec.expr _ _ _ _ _ _ hx hg
      simp only [abs] at hax
      split at h
      · rename_i p hp
        simp only [Option.some.injEq, Prod.mk.injEq] at h
        obtain ⟨rfl, rfl⟩ := h
        exact ⟨a1, by simp only [Att.evalAlts, hax, hp, abs], ht, hg0⟩
      · rename_i msg hp
        simp only [Option.some.injEq, Prod.mk.injEq] at h
        obtain ⟨rfl, rfl⟩ := h
        exact PostA.panic (by simp only [Att.evalAlts, hax, hp]; rfl) hg0
    · rename_i e0 g0 hx
      obtain ⟨a1, hax, ht, hg0⟩ := hrec.expr _ _ _ _ _ _ hx hg
      simp only [abs] at hax
      obtain ⟨a2, hax2, ht2, hg2⟩ := ih _ _ _ _ h hg0 (Or.inr (recordError_far_ne_none _ _))
      rw [clr_recordError] at hax2
      rw [recordError_far_of_track ht] at ht2
      exact ⟨a1 ++ a2, by simp only [Att.evalAlts, hax, hax2, Att.addA], ht2.append, hg2⟩
    · rename_i msg g0 hx
      obtain ⟨a1, hax, ht, hg0⟩ := hrec.expr _ _ _ _ _ _ hx hg
      simp only [abs] at hax
      simp only [Option.some.injEq, Prod.mk.injEq] at h
      obtain ⟨rfl, rfl⟩ := h
      exact PostA.panic (by simp only [Att.evalAlts, hax]; rfl) hg0

/-- the closure loop, at equal loop fuel -/
theorem evalLoop_tr {body : St → Global → Out Parsed} {abody : St → Att.AOut Parsed} {fields}
    (hbody : ∀ s g r g', body s g = some (r, g') → GOk u g → PostA u s.far (abody (clr s)) r g') :
    ∀ k iters acc s g r g', evalLoop body fields k iters acc s g = some (r, g') → GOk u g →
      PostA u s.far (Att.evalLoop abody fields k iters acc (clr s)) r g' := by
  intro k
  induction k with
  | zero => intro iters acc s g r g' h; simp [evalLoop] at h
  | succ k ih =>
    intro iters acc s g r g' h hg
    simp only [evalLoop] at h
    split at h
    · cases h
    · rename_i r0 s0 g0 hx
      obtain ⟨a1, hax, ht, hg0⟩ := hbody _ _ _ _ hx hg
      simp only [abs] at hax
      split at h
      · rename_i acc' hacc
        obtain ⟨a2, hax2, ht2, hg2⟩ := ih _ _ _ _ _ _ h hg0
        simp only [Track] at ht
        rw [ht] at ht2
        exact ⟨a1 ++ a2, by simp only [Att.evalLoop, hax, hacc, hax2, Att.addA], ht2.append, hg2⟩
      · rename_i msg hacc
        simp only [Option.some.injEq, Prod.mk.injEq] at h
        obtain ⟨rfl, rfl⟩ := h
        exact PostA.panic (by simp only [Att.evalLoop, hax, hacc]; rfl) hg0
    · rename_i e0 g0 hx
      obtain ⟨a1, hax, ht, hg0⟩ := hbody _ _ _ _ hx hg
      simp only [abs] at hax
      simp only [Option.some.injEq, Prod.mk.injEq] at h
      obtain ⟨rfl, rfl⟩ := h
      refine ⟨a1, by simp only [Att.evalLoop, hax, abs, clr_recordError], ?_, hg0⟩
      simp only [Track]
      rw [recordError_far]; exact record_of_recordAll ht
    · rename_i msg g0 hx
      obtain ⟨a1, hax, ht, hg0⟩ := hbody _ _ _ _ hx hg
      simp only [abs] at hax
      simp only [Option.some.injEq, Prod.mk.injEq] at h
      obtain ⟨rfl, rfl⟩ := h
      exact PostA.panic (by simp only [Att.evalLoop, hax]; rfl) hg0

/-- a closure that ends with the iteration count it started with has just recorded an error -/
theorem evalLoop_far {body : St → Global → Out Parsed} {fields} :
    ∀ k iters acc s g it acc' s' g', evalLoop body fields k iters acc s g = some (.ok (it, acc') s', g') →
      iters ≤ it ∧ (it = iters → s'.far ≠ none) := by
  intro k
  induction k with
  | zero => intro iters acc s g it acc' s' g' h; simp [evalLoop] at h
  | succ k ih =>
    intro iters acc s g it acc' s' g' h
    simp only [evalLoop] at h
    split at h
    · cases h
    · split at h
      · have := (ih _ _ _ _ _ _ _ _ h).1
        exact ⟨by omega, fun h' => by omega⟩
      · cases h
    · simp only [Option.some.injEq, Prod.mk.injEq, Res.ok.injEq] at h
      obtain ⟨⟨⟨rfl, rfl⟩, rfl⟩, rfl⟩ := h
      exact ⟨Nat.le_refl _, fun _ => recordError_far_ne_none _ _⟩
    · cases h

/-! ### terminal matchers: a success leaves `far` alone, a failure is `report_error` of the
    matcher's own specifics at the cursor -/

def Reports {α} (mt : St → Res α) (sp : Spec) : Prop :=
  ∀ s, (∀ v s', mt s = .ok v s' → s'.far = s.far) ∧ (∀ e, mt s = .err e → e = s.reportError sp)

theorem advance_far {α} {s s' : St} {n : Nat} {v v' : α} (h : s.advance n v = .ok v' s') :
    s'.far = s.far := by
  unfold St.advance at h
  split at h
  · cases h
  · cases h; rfl

theorem advance_ne_err {α} {s : St} {n : Nat} {v : α} {e : PErr} : s.advance n v ≠ .err e := by
  unfold St.advance
  split <;> exact fun h => by cases h

theorem advanceSafe_far {α} {s s' : St} {n : Nat} {v v' : α} (h : s.advanceSafe n v = .ok v' s') :
    s'.far = s.far := by
  unfold St.advanceSafe at h
  split at h
  · cases h
  · split at h
    · cases h
    · cases h; rfl

theorem advanceSafe_ne_err {α} {s : St} {n : Nat} {v : α} {e : PErr} : s.advanceSafe n v ≠ .err e := by
  unfold St.advanceSafe
  split
  · exact fun h => by cases h
  · split <;> exact fun h => by cases h

theorem reports_parseChar : Reports parseChar .expectedAnyCharacter := by
  intro s
  unfold parseChar
  constructor
  · intro v s' h
    split at h
    · cases h
    · exact advance_far h
  · intro e h
    split at h
    · cases h; rfl
    · exact absurd h advance_ne_err

theorem reports_parseWhitespace (sp : Spec) : Reports parseWhitespace sp := by
  intro s
  unfold parseWhitespace
  exact ⟨fun v s' h => by cases h; rfl, fun e h => by cases h⟩

theorem reports_parseStringLiteral (l : List Char) :
    Reports (fun s => parseStringLiteral s l) (.expectedString l) := by
  intro s
  simp only [parseStringLiteral]
  constructor
  · intro v s' h
    split at h
    · cases h
    · exact advance_far h
  · intro e h
    split at h
    · cases h; rfl
    · exact absurd h advance_ne_err

theorem reports_parseCharacterLiteral (c : Char) :
    Reports (fun s => parseCharacterLiteral s c) (.expectedCharacter c) := by
  intro s
  simp only [parseCharacterLiteral]
  constructor
  · intro v s' h
    split at h
    · split at h
      · cases h
      · split at h
        · cases h
        · exact advance_far h
    · split at h
      · cases h
      · exact advance_far h
  · intro e h
    split at h
    · split at h
      · cases h; rfl
      · split at h
        · cases h; rfl
        · exact absurd h advance_ne_err
    · split at h
      · cases h; rfl
      · exact absurd h advance_ne_err

theorem reports_parseCharacterRange (lo hi : Char) :
    Reports (fun s => parseCharacterRange s lo hi) (.expectedCharacterRange lo hi) := by
  intro s
  simp only [parseCharacterRange]
  constructor
  · intro v s' h
    split at h
    · split at h
      · cases h
      · split at h
        · cases h
        · exact advance_far h
    · split at h
      · cases h
      · split at h
        · cases h
        · exact advance_far h
  · intro e h
    split at h
    · split at h
      · cases h; rfl
      · split at h
        · cases h; rfl
        · exact absurd h advance_ne_err
    · split at h
      · cases h; rfl
      · split at h
        · cases h; rfl
        · exact absurd h advance_ne_err

theorem reports_parseStringLiteralInsensitive (l : List Char) :
    Reports (fun s => parseStringLiteralInsensitive s l) (.expectedString l) := by
  intro s
  simp only [parseStringLiteralInsensitive]
  constructor
  · intro v s' h
    split at h
    · cases h
    · exact advance_far h
  · intro e h
    split at h
    · cases h; rfl
    · exact absurd h advance_ne_err

theorem reports_parseCharacterLiteralInsensitive (c : Char) :
    Reports (fun s => parseCharacterLiteralInsensitive s c) (.expectedCharacter c) := by
  intro s
  simp only [parseCharacterLiteralInsensitive]
  constructor
  · intro v s' h
    split at h
    · cases h
    · split at h
      · cases h
      · exact advance_far h
  · intro e h
    split at h
    · cases h; rfl
    · split at h
      · cases h; rfl
      · exact absurd h advance_ne_err

theorem reports_parseEndOfInput : Reports parseEndOfInput .expectedEoi := by
  intro s
  unfold parseEndOfInput
  constructor
  · intro v s' h
    split at h
    · cases h; rfl
    · cases h
  · intro e h
    split at h
    · cases h
    · cases h; rfl

/-- what a terminal contributes: nothing when it matches, `⟨cursor offset, its specifics⟩` when it
    fails – and the generated parser's bookkeeping follows -/
theorem term_tr {α β} {mt : St → Res α} {sp : Spec} (hr : Reports mt sp)
    (habs : ∀ s, abs (mt (clr s)) = abs (mt s)) (f : α → β) (s : St) {g : Global} (hg : GOk u g) :
    PostA u s.far (Att.term ((mt (clr s)).map f)) ((mt s).map f) g := by
  have ha := habs s
  cases hm : mt s with
  | ok v s' =>
    rw [hm] at ha
    cases hc : mt (clr s) with
    | ok v2 s2 =>
      rw [hc] at ha
      simp only [abs, Res.ok.injEq] at ha
      obtain ⟨rfl, hs⟩ := ha
      refine ⟨[], ?_, ?_, hg⟩
      · simp only [Att.term, Res.map, abs, Att.errAtt, hs]
      · exact (hr s).1 _ _ hm
    | err e2 => rw [hc] at ha; simp [abs] at ha
    | panic m2 => rw [hc] at ha; simp [abs] at ha
  | err e =>
    rw [hm] at ha
    cases hc : mt (clr s) with
    | ok v2 s2 => rw [hc] at ha; simp [abs] at ha
    | err e2 =>
      have h1 : e = s.reportError sp := (hr s).2 _ hm
      have h2 : e2 = ⟨s.off, sp⟩ := (hr (clr s)).2 _ hc
      subst h1 h2
      refine ⟨[⟨s.off, sp⟩], ?_, ?_, hg⟩
      · simp only [Att.term, Res.map, abs, Att.errAtt]
      · exact reportError_eq s sp
    | panic m2 => rw [hc] at ha; simp [abs] at ha
  | panic m =>
    rw [hm] at ha
    cases hc : mt (clr s) with
    | ok v2 s2 => rw [hc] at ha; simp [abs] at ha
    | err e2 => rw [hc] at ha; simp [abs] at ha
    | panic m2 =>
      rw [hc] at ha
      simp only [abs, Res.panic.injEq] at ha
      subst ha
      exact ⟨[], by simp only [Att.term, Res.map, abs, Att.errAtt], trivial, hg⟩

/-- a terminal matcher under `generate_skip_ws` -/
theorem terminal_tr {α} {rec : Rec} {arec : Att.ARec} (hrec : Tr u rec arec) {ctx : Ctx} {s : St}
    {g : Global} {mt : St → Res α} {sp : Spec} {r : Res Parsed} {g' : Global}
    (hr : Reports mt sp) (habs : ∀ s, abs (mt (clr s)) = abs (mt s))
    (h : Peg.withSkipWs rec ctx s g (fun s g => some ((mt s).map (fun _ => ([] : Parsed)), g)) = some (r, g'))
    (hg : GOk u g) :
    PostA u s.far (Att.withSkipWs arec ctx (clr s)
      (fun s => Att.term ((mt (clr s)).map (fun _ => ([] : Parsed))))) r g' := by
  refine withSkipWs_tr (ak := fun s => Att.term ((mt (clr s)).map (fun _ => ([] : Parsed)))) hrec h hg ?_
  intro s1 g1 r g' h hg1
  simp only [Option.some.injEq, Prod.mk.injEq] at h
  obtain ⟨rfl, rfl⟩ := h
  exact term_tr hr habs _ s1 hg1

theorem stepExpr_tr {rec : Rec} {arec : Att.ARec} (hrec : Tr u rec arec) (n : Nat) {ctx e s g r g'}
    (h : stepExpr env rec n ctx e s g = some (r, g')) (hg : GOk u g) :
    PostA u s.far (Att.stepExpr env arec n ctx e (clr s)) r g' := by
  cases e with
  | choice alts =>
    match alts with
    | [] =>
      simp only [stepExpr, Option.some.injEq, Prod.mk.injEq] at h
      obtain ⟨rfl, rfl⟩ := h
      exact PostA.panic rfl hg
    | [a] =>
      simp only [stepExpr] at h
      exact hrec.expr _ _ _ _ _ _ h hg
    | a :: b :: rest =>
      simp only [stepExpr] at h
      exact evalAlts_tr hrec _ _ _ _ _ h hg (Or.inl (by simp))
  | seq parts =>
    match parts with
    | [] =>
      simp only [stepExpr, Option.some.injEq, Prod.mk.injEq] at h
      obtain ⟨rfl, rfl⟩ := h
      exact ⟨[], rfl, rfl, hg⟩
    | [a] =>
      simp only [stepExpr] at h
      exact hrec.expr _ _ _ _ _ _ h hg
    | a :: b :: rest =>
      simp only [stepExpr] at h
      simp only [Att.stepExpr]
      refine bindR_tr (ak := fun x s' =>
          match project (filterRuleFields ctx.ruleFields (ownFields env (.seq (a :: b :: rest)))) x.2 with
          | .ok p => some (.ok p s', [])
          | .error m => some (.panic ("codegen: " ++ m), [])) h
        (fun rx gx hx => evalSeq_tr hrec _ _ _ _ _ _ _ hx hg) ?_
      intro v s1 g1 r g' h hg1
      obtain ⟨seen, acc⟩ := v
      simp only at h
      split at h
      · rename_i p hp
        simp only [Option.some.injEq, Prod.mk.injEq] at h
        obtain ⟨rfl, rfl⟩ := h
        exact ⟨[], by simp only [hp, abs], rfl, hg1⟩
      · rename_i msg hp
        simp only [Option.some.injEq, Prod.mk.injEq] at h
        obtain ⟨rfl, rfl⟩ := h
        exact PostA.panic (by simp only [hp]; rfl) hg1
  | group b =>
    simp only [stepExpr] at h
    exact hrec.expr _ _ _ _ _ _ h hg
  | opt b =>
    simp only [stepExpr] at h
    split at h
    · cases h
    · rename_i r0 s0 g0 hx
      obtain ⟨a1, hax, ht, hg0⟩ := hrec.expr _ _ _ _ _ _ hx hg
      simp only [Option.some.injEq, Prod.mk.injEq] at h
      obtain ⟨rfl, rfl⟩ := h
      simp only [abs] at hax
      exact ⟨a1, by simp only [Att.stepExpr, hax, abs], ht, hg0⟩
    · rename_i e0 g0 hx
      obtain ⟨a1, hax, ht, hg0⟩ := hrec.expr _ _ _ _ _ _ hx hg
      simp only [abs] at hax
      split at h
      · rename_i p hp
        simp only [Option.some.injEq, Prod.mk.injEq] at h
        obtain ⟨rfl, rfl⟩ := h
        refine ⟨a1, by simp only [Att.stepExpr, hax, hp, abs, clr_recordError], ?_, hg0⟩
        exact recordError_far_of_track ht
      · rename_i msg hp
        simp only [Option.some.injEq, Prod.mk.injEq] at h
        obtain ⟨rfl, rfl⟩ := h
        exact PostA.panic (by simp only [Att.stepExpr, hax, hp]; rfl) hg0
    · rename_i msg g0 hx
      obtain ⟨a1, hax, ht, hg0⟩ := hrec.expr _ _ _ _ _ _ hx hg
      simp only [abs] at hax
      simp only [Option.some.injEq, Prod.mk.injEq] at h
      obtain ⟨rfl, rfl⟩ := h
      exact PostA.panic (by simp only [Att.stepExpr, hax]; rfl) hg0
  | closure b plus =>
    simp only [stepExpr] at h
    split at h
    · rename_i msg hinit
      simp only [Option.some.injEq, Prod.mk.injEq] at h
      obtain ⟨rfl, rfl⟩ := h
      exact PostA.panic (by simp only [Att.stepExpr, hinit]; rfl) hg
    · rename_i init hinit
      cases hl : evalLoop (rec.expr ctx b) (filterRuleFields ctx.ruleFields (ownFields env b)) n 0 init s g with
      | none => simp [hl, bindR] at h
      | some a =>
        obtain ⟨rl, gl⟩ := a
        obtain ⟨a1, hax, ht, hgl⟩ :=
          evalLoop_tr (abody := arec.expr ctx b)
            (fun s g r g' hx hg => hrec.expr _ _ _ _ _ _ hx hg) _ _ _ _ _ _ _ hl hg
        rw [hl] at h
        cases rl with
        | ok v sl =>
          obtain ⟨iters, acc⟩ := v
          simp only [abs] at hax
          simp only [bindR] at h
          split at h
          · rename_i hc
            simp only [Option.some.injEq, Prod.mk.injEq] at h
            obtain ⟨rfl, rfl⟩ := h
            refine ⟨a1 ++ [], by simp only [Att.stepExpr, hinit, hax, Att.bindA, hc, if_true, Att.addA, abs],
              ?_, hgl⟩
            have hit : iters = 0 := by simp at hc; exact hc.2
            have hne := (evalLoop_far _ _ _ _ _ _ _ _ _ hl).2 hit
            simp only [Track] at ht
            simp only [Track, List.append_nil, St.reportFarthest]
            cases hf : sl.far with
            | none => exact absurd hf hne
            | some f => simp only [← ht, hf]
          · rename_i hc
            simp only [Option.some.injEq, Prod.mk.injEq] at h
            obtain ⟨rfl, rfl⟩ := h
            refine ⟨a1 ++ [], by simp only [Att.stepExpr, hinit, hax, Att.bindA, hc, Att.addA, abs]; rfl,
              ?_, hgl⟩
            simp only [Track, List.append_nil] at ht ⊢
            exact ht
        | err e =>
          simp only [bindR, Option.some.injEq, Prod.mk.injEq] at h
          obtain ⟨rfl, rfl⟩ := h
          simp only [abs] at hax
          exact ⟨a1, by simp only [Att.stepExpr, hinit, hax, Att.bindA, abs], ht, hgl⟩
        | panic msg =>
          simp only [bindR, Option.some.injEq, Prod.mk.injEq] at h
          obtain ⟨rfl, rfl⟩ := h
          simp only [abs] at hax
          exact PostA.panic (by simp only [Att.stepExpr, hinit, hax, Att.bindA]; rfl) hgl
  | neg b =>
    simp only [stepExpr] at h
    split at h
    · cases h
    · rename_i r0 s0 g0 hx
      obtain ⟨a1, hax, ht, hg0⟩ := hrec.expr _ _ _ _ _ _ hx hg
      simp only [abs] at hax
      simp only [Option.some.injEq, Prod.mk.injEq] at h
      obtain ⟨rfl, rfl⟩ := h
      exact ⟨[⟨s.off, .negativeLookaheadFailed⟩], by simp only [Att.stepExpr, hax, abs, clr_off],
        reportError_eq s _, hg0⟩
    · rename_i e0 g0 hx
      obtain ⟨a1, hax, ht, hg0⟩ := hrec.expr _ _ _ _ _ _ hx hg
      simp only [abs] at hax
      simp only [Option.some.injEq, Prod.mk.injEq] at h
      obtain ⟨rfl, rfl⟩ := h
      exact ⟨[], by simp only [Att.stepExpr, hax, abs], rfl, hg0⟩
    · rename_i msg g0 hx
      obtain ⟨a1, hax, ht, hg0⟩ := hrec.expr _ _ _ _ _ _ hx hg
      simp only [abs] at hax
      simp only [Option.some.injEq, Prod.mk.injEq] at h
      obtain ⟨rfl, rfl⟩ := h
      exact PostA.panic (by simp only [Att.stepExpr, hax]; rfl) hg0
  | pos b =>
    simp only [stepExpr] at h
    cases hx : rec.expr ctx b s g with
    | none => simp [hx, bindR] at h
    | some a =>
      obtain ⟨rx, gx⟩ := a
      obtain ⟨a1, hax, ht, hg0⟩ := hrec.expr _ _ _ _ _ _ hx hg
      rw [hx] at h
      cases rx with
      | ok v s1 =>
        simp only [bindR, Option.some.injEq, Prod.mk.injEq] at h
        obtain ⟨rfl, rfl⟩ := h
        simp only [abs] at hax
        exact ⟨[], by simp only [Att.stepExpr, hax, abs], rfl, hg0⟩
      | err e =>
        simp only [bindR, Option.some.injEq, Prod.mk.injEq] at h
        obtain ⟨rfl, rfl⟩ := h
        simp only [abs] at hax
        exact ⟨a1, by simp only [Att.stepExpr, hax, abs], ht, hg0⟩
      | panic msg =>
        simp only [bindR, Option.some.injEq, Prod.mk.injEq] at h
        obtain ⟨rfl, rfl⟩ := h
        simp only [abs] at hax
        exact PostA.panic (by simp only [Att.stepExpr, hax]; rfl) hg0
  | range lo hi =>
    simp only [stepExpr] at h
    simp only [Att.stepExpr]
    split at h
    · rename_i lo' hi' hlo hhi
      simp only [hlo, hhi]
      exact terminal_tr hrec (reports_parseCharacterRange lo' hi')
        (fun s => abs_parseCharacterRange s lo' hi') h hg
    · rename_i hne
      simp only [Option.some.injEq, Prod.mk.injEq] at h
      obtain ⟨rfl, rfl⟩ := h
      refine PostA.panic (atts := []) ?_ hg
      split
      · rename_i lo' hi' hlo hhi; exact absurd hhi (hne _ _ hlo)
      · rfl
  | lit ins body =>
    simp only [stepExpr] at h
    simp only [Att.stepExpr]
    split at h
    · rename_i mt hmt
      simp only [hmt]
      cases mt with
      | charLit c =>
        exact terminal_tr hrec (reports_parseCharacterLiteral c)
          (fun s => abs_parseCharacterLiteral s c) h hg
      | strLit l =>
        exact terminal_tr hrec (reports_parseStringLiteral l)
          (fun s => abs_parseStringLiteral s l) h hg
      | charLitI c =>
        exact terminal_tr hrec (reports_parseCharacterLiteralInsensitive c)
          (fun s => abs_parseCharacterLiteralInsensitive s c) h hg
      | strLitI l =>
        exact terminal_tr hrec (reports_parseStringLiteralInsensitive l)
          (fun s => abs_parseStringLiteralInsensitive s l) h hg
    · rename_i hne
      simp only [Option.some.injEq, Prod.mk.injEq] at h
      obtain ⟨rfl, rfl⟩ := h
      refine PostA.panic (atts := []) ?_ hg
      split
      · rename_i mt hmt; exact absurd hmt (hne _)
      · rfl
  | eoi =>
    simp only [stepExpr] at h
    simp only [Att.stepExpr]
    exact terminal_tr hrec reports_parseEndOfInput abs_parseEndOfInput h hg
  | incl r0 =>
    simp only [stepExpr] at h
    simp only [Att.stepExpr]
    split at h
    · rename_i hf
      simp only [Option.some.injEq, Prod.mk.injEq] at h
      obtain ⟨rfl, rfl⟩ := h
      exact PostA.panic (by simp only [hf]; rfl) hg
    · rename_i hf
      simp only [hf]
      exact hrec.expr _ _ _ _ _ _ h hg
  | field name boxed typ =>
    simp only [stepExpr] at h
    simp only [Att.stepExpr]
    refine withSkipWs_tr (ak := fun s =>
        Att.bindA (arec.rule typ s) fun v s' =>
          match name with
          | none => some (.ok [] s', [])
          | some nm =>
            match postprocessField ctx.ruleFields nm.key typ v with
            | .ok fv => some (.ok [(nm.key, fv)] s', [])
            | .error m => some (.panic ("codegen: " ++ m), [])) hrec h hg ?_
    intro s1 g1 r g' h hg1
    refine bindR_tr (ak := fun v s' =>
          match name with
          | none => some (.ok [] s', [])
          | some nm =>
            match postprocessField ctx.ruleFields nm.key typ v with
            | .ok fv => some (.ok [(nm.key, fv)] s', [])
            | .error m => some (.panic ("codegen: " ++ m), [])) h
      (fun rx gx hx => hrec.rule _ _ _ _ _ hx hg1) ?_
    intro v s2 g2 r g' h hg2
    cases name with
    | none =>
      simp only [Option.some.injEq, Prod.mk.injEq] at h
      obtain ⟨rfl, rfl⟩ := h
      exact ⟨[], rfl, rfl, hg2⟩
    | some nm =>
      simp only at h
      split at h
      · rename_i fv hfv
        simp only [Option.some.injEq, Prod.mk.injEq] at h
        obtain ⟨rfl, rfl⟩ := h
        exact ⟨[], by simp only [hfv, abs], rfl, hg2⟩
      · rename_i msg hfv
        simp only [Option.some.injEq, Prod.mk.injEq] at h
        obtain ⟨rfl, rfl⟩ := h
        exact PostA.panic (by simp only [hfv]; rfl) hg2

/-! ### rule level -/

theorem runChecks_tr (hp : PureHooks env.hooks) :
    ∀ fs v s g r g', runChecks env fs v s g = some (r, g') → GOk u g →
      PostA u s.far (Att.runChecks env u fs v (clr s)) r g' := by
  intro fs
  induction fs with
  | nil =>
    intro v s g r g' h hg
    simp only [runChecks, Option.some.injEq, Prod.mk.injEq] at h
    obtain ⟨rfl, rfl⟩ := h
    exact ⟨[], rfl, rfl, hg⟩
  | cons f fs ih =>
    intro v s g r g' h hg
    simp only [runChecks] at h
    have hu : (env.hooks.check ("::".intercalate f) v g.uctx).2 = g.uctx := hp.2 _ _ _
    have hgu := hg.uctx
    have hg1 : GOk u
        ({ g with uctx := (env.hooks.check ("::".intercalate f) v g.uctx).2 }.emit
          (.checkCall ("::".intercalate f) v.render g.uctx)) :=
      ⟨hg.cache, by show (env.hooks.check _ v g.uctx).2 = u
                    rw [hu]; exact hgu⟩
    split at h
    · rename_i hb
      simp only [Option.some.injEq, Prod.mk.injEq] at h
      obtain ⟨rfl, rfl⟩ := h
      refine ⟨[⟨s.off, .checkFunctionFailed ("::".intercalate f)⟩], ?_, reportError_eq s _, hg1⟩
      simp only [Att.runChecks, ← hgu, hb, if_true, abs, clr_off]
    · rename_i hb
      obtain ⟨a1, hax, ht, hg2⟩ := ih _ _ _ _ _ h hg1
      refine ⟨a1, ?_, ht, hg2⟩
      simp only [Att.runChecks, ← hgu, hb]
      rw [← hax, hgu]
      rfl

theorem ruleBody_tr {rec : Rec} {arec : Att.ARec} (hrec : Tr u rec arec) (hp : PureHooks env.hooks)
    {r0 : Rule} {s g r g'} (h : ruleBody env rec r0 s g = some (r, g')) (hg : GOk u g) :
    PostA u s.far (Att.ruleBody env u arec r0 (clr s)) r g' := by
  unfold ruleBody at h
  unfold Att.ruleBody
  split at h
  · rename_i fields hf
    simp only [hf]
    simp only at h
    split at h
    · rename_i hc
      simp only [if_pos hc]
      refine bindR_tr (ak := fun _ s' =>
        Att.runChecks env u r0.checks
          (if r0.flags.position = true then
            Val.node r0.name [("string", Val.str ((clr s).sliceUntil s'))] (some ((clr s).off, s'.off))
          else Val.str ((clr s).sliceUntil s')) s') h
        (fun rx gx hx => hrec.expr _ _ _ _ _ _ hx hg) ?_
      intro v s1 g1 r g' h hg1
      exact runChecks_tr hp _ _ _ _ _ _ h hg1
    · rename_i hc
      simp only [if_neg hc]
      split at h
      · rename_i hc2
        simp only [if_pos hc2]
        refine bindR_tr (ak := fun p s' =>
          match p.get "_override" with
          | some v => Att.runChecks env u r0.checks v s'
          | none => some (.panic "codegen: override value missing", [])) h
          (fun rx gx hx => hrec.expr _ _ _ _ _ _ hx hg) ?_
        intro v s1 g1 r g' h hg1
        split at h
        · rename_i hv
          simp only [hv]
          exact runChecks_tr hp _ _ _ _ _ _ h hg1
        · rename_i hv
          simp only [Option.some.injEq, Prod.mk.injEq] at h
          obtain ⟨rfl, rfl⟩ := h
          exact PostA.panic (by simp only [hv]; rfl) hg1
      · rename_i hc2
        simp only [if_neg hc2]
        split at h
        · rename_i hc3
          simp only [Option.some.injEq, Prod.mk.injEq] at h
          obtain ⟨rfl, rfl⟩ := h
          exact PostA.panic (by simp only [if_pos hc3]; rfl) hg
        · rename_i hc3
          simp only [if_neg hc3]
          refine bindR_tr (ak := fun p s' =>
            match project fields p with
            | .ok fs =>
              Att.runChecks env u r0.checks
                (Val.node r0.name fs (if r0.flags.position = true then some ((clr s).off, s'.off) else none)) s'
            | .error m => some (.panic ("codegen: " ++ m), [])) h
            (fun rx gx hx => hrec.expr _ _ _ _ _ _ hx hg) ?_
          intro v s1 g1 r g' h hg1
          split at h
          · rename_i fs hfs
            simp only [hfs]
            exact runChecks_tr hp _ _ _ _ _ _ h hg1
          · rename_i msg hfs
            simp only [Option.some.injEq, Prod.mk.injEq] at h
            obtain ⟨rfl, rfl⟩ := h
            exact PostA.panic (by simp only [hfs]; rfl) hg1
  · rename_i hne
    simp only [Option.some.injEq, Prod.mk.injEq] at h
    obtain ⟨rfl, rfl⟩ := h
    refine PostA.panic (atts := []) ?_ hg
    split
    · rename_i fields hf; exact absurd hf (hne _)
    · rfl

/-- a failing `@char` check reports the class at the cursor -/
theorem charChecks_err (name : String) :
    ∀ fs c s (g : Global) e g', charChecks env name fs c s g = (some e, g') →
      e = s.reportError (.expectedCharacterClass name) := by
  intro fs
  induction fs with
  | nil => intro c s g e g' h; simp [charChecks] at h
  | cons f fs ih =>
    intro c s g e g' h
    simp only [charChecks] at h
    split at h
    · simp only [Prod.mk.injEq, Option.some.injEq] at h
      exact h.1.symm
    · exact ih _ _ _ _ _ h

theorem charParts_tr {rec : Rec} {arec : Att.ARec} (hrec : Tr u rec arec) (name : String) :
    ∀ ps s g r g', charParts rec name ps s g = some (r, g') → GOk u g →
      PostA u s.far (Att.charParts arec name ps (clr s)) r g' := by
  intro ps
  induction ps with
  | nil =>
    intro s g r g' h hg
    simp only [charParts, Option.some.injEq, Prod.mk.injEq] at h
    obtain ⟨rfl, rfl⟩ := h
    exact ⟨[⟨s.off, .expectedCharacterClass name⟩], rfl, reportError_eq s _, hg⟩
  | cons p ps ih =>
    intro s g r g' h hg
    -- the outcome of the first part, in both worlds
    have key : ∀ (x : Out Val) (ax : Att.AOut Val),
        (∀ rx gx, x = some (rx, gx) → PostA u s.far ax rx gx) →
        (match x with
          | none => none
          | some (.ok v s', g') => some (.ok v s', g')
          | some (.err _, g') => charParts rec name ps s g'
          | some (.panic m, g') => some (.panic m, g')) = some (r, g') →
        PostA u s.far
          (match ax with
          | none => none
          | some (.ok v s', ats) => some (.ok v s', ats)
          | some (.err _, _) => Att.charParts arec name ps (clr s)
          | some (.panic m, ats) => some (.panic m, ats)) r g' := by
      intro x ax hx h
      cases x with
      | none => simp at h
      | some a =>
        obtain ⟨rx, gx⟩ := a
        obtain ⟨a1, hax, ht, hg0⟩ := hx rx gx rfl
        cases rx with
        | ok v s1 =>
          simp only [Option.some.injEq, Prod.mk.injEq] at h
          obtain ⟨rfl, rfl⟩ := h
          simp only [abs] at hax
          exact ⟨a1, by simp only [hax, abs], ht, hg0⟩
        | err e =>
          simp only at h
          obtain ⟨a2, hax2, ht2, hg2⟩ := ih _ _ _ _ h hg0
          simp only [abs] at hax
          exact ⟨a2, by simp only [hax]; exact hax2, ht2, hg2⟩
        | panic msg =>
          simp only [Option.some.injEq, Prod.mk.injEq] at h
          obtain ⟨rfl, rfl⟩ := h
          simp only [abs] at hax
          exact PostA.panic (by simp only [hax]; rfl) hg0
    cases p with
    | chr item =>
      simp only [charParts] at h
      simp only [Att.charParts]
      cases hi : item.toChar with
      | ok c =>
        simp only [hi] at h ⊢
        refine key _ (Att.term ((parseCharacterLiteral (clr (clr s)) c).map .chr)) ?_ h
        intro rx gx hx
        simp only [Option.some.injEq, Prod.mk.injEq] at hx
        obtain ⟨rfl, rfl⟩ := hx
        exact term_tr (reports_parseCharacterLiteral c) (fun s => abs_parseCharacterLiteral s c) _ s hg
      | err msg =>
        simp only [hi] at h ⊢
        simp only [Option.some.injEq, Prod.mk.injEq] at h
        obtain ⟨rfl, rfl⟩ := h
        exact PostA.panic rfl hg
      | fuel =>
        simp only [hi] at h ⊢
        simp only [Option.some.injEq, Prod.mk.injEq] at h
        obtain ⟨rfl, rfl⟩ := h
        exact PostA.panic rfl hg
    | range lo hi =>
      simp only [charParts] at h
      simp only [Att.charParts]
      cases hlo : lo.toChar with
      | ok a =>
        cases hhi : hi.toChar with
        | ok b =>
          simp only [hlo, hhi] at h ⊢
          refine key _ (Att.term ((parseCharacterRange (clr (clr s)) a b).map .chr)) ?_ h
          intro rx gx hx
          simp only [Option.some.injEq, Prod.mk.injEq] at hx
          obtain ⟨rfl, rfl⟩ := hx
          exact term_tr (reports_parseCharacterRange a b) (fun s => abs_parseCharacterRange s a b) _ s hg
        | err msg =>
          simp only [hlo, hhi] at h ⊢
          simp only [Option.some.injEq, Prod.mk.injEq] at h
          obtain ⟨rfl, rfl⟩ := h
          exact PostA.panic rfl hg
        | fuel =>
          simp only [hlo, hhi] at h ⊢
          simp only [Option.some.injEq, Prod.mk.injEq] at h
          obtain ⟨rfl, rfl⟩ := h
          exact PostA.panic rfl hg
      | err msg =>
        simp only [hlo] at h ⊢
        simp only [Option.some.injEq, Prod.mk.injEq] at h
        obtain ⟨rfl, rfl⟩ := h
        exact PostA.panic rfl hg
      | fuel =>
        simp only [hlo] at h ⊢
        simp only [Option.some.injEq, Prod.mk.injEq] at h
        obtain ⟨rfl, rfl⟩ := h
        exact PostA.panic rfl hg
    | ident id =>
      simp only [charParts] at h
      simp only [Att.charParts]
      exact key _ (arec.rule id (clr s)) (fun rx gx hx => hrec.rule _ _ _ _ _ hx hg) h

theorem stepRule_tr {rec : Rec} {arec : Att.ARec} (hrec : Tr u rec arec) (hp : PureHooks env.hooks)
    (hnm : NoMemoG env.g) (n : Nat) {name s g r g'}
    (h : stepRule env rec n name s g = some (r, g')) (hg : GOk u g) :
    PostA u s.far (Att.stepRule env u arec name (clr s)) r g' := by
  unfold stepRule at h
  unfold Att.stepRule
  split at h
  · -- normal rule
    rename_i r0 hfind
    simp only [hfind]
    have hmem : RuleEntry.rule r0 ∈ env.g.rules := List.mem_of_find?_eq_some hfind
    obtain ⟨hmemo, hlr⟩ := hnm r0 hmem
    unfold normalRule at h
    simp only at h
    split at h
    · cases h
    · rename_i res g1 hm
      simp only [Option.some.injEq, Prod.mk.injEq] at h
      obtain ⟨rfl, rfl⟩ := h
      unfold memoBody at hm
      simp only [hlr, hmemo, Bool.false_eq_true, if_false] at hm
      obtain ⟨a1, hax, ht, hg1⟩ := ruleBody_tr hrec hp hm (hg.emit _)
      refine ⟨a1, hax, ht, ?_⟩
      cases res <;> simp only [traceResult] <;> first | exact hg1.emit _ | exact hg1
  · -- @char rule
    rename_i cr hfind
    simp only [hfind]
    unfold charRule at h
    unfold Att.charRule
    split at h
    · rename_i hc
      simp only [if_pos hc]
      exact charParts_tr hrec _ _ _ _ _ _ h hg
    · rename_i hc
      simp only [if_neg hc]
      split at h
      · rename_i hd
        simp only [Option.some.injEq, Prod.mk.injEq] at h
        obtain ⟨rfl, rfl⟩ := h
        exact ⟨[⟨s.off, .expectedCharacterClass cr.name⟩], by simp only [clr_rest, hd]; rfl,
          reportError_eq s _, hg⟩
      · rename_i c hd
        simp only [clr_rest, hd]
        split at h
        · rename_i e g1 hcc
          obtain ⟨h1, h2, h3⟩ := charChecks_spec _ _ _ _ _ _ _ hcc
          have he := charChecks_err _ _ _ _ _ _ _ hcc
          simp only [Option.some.injEq, Prod.mk.injEq] at h
          obtain ⟨rfl, rfl⟩ := h
          have hgg : GOk u g1 := ⟨h2 ▸ hg.cache, h3 ▸ hg.uctx⟩
          have hck : Spec.charChecksOk env cr.directives c = false := by simpa using h1.symm
          subst he
          exact ⟨[⟨s.off, .expectedCharacterClass cr.name⟩],
            by simp only [hck, Bool.false_eq_true, if_false]; rfl, reportError_eq s _, hgg⟩
        · rename_i g1 hcc
          obtain ⟨h1, h2, h3⟩ := charChecks_spec _ _ _ _ _ _ _ hcc
          have hgg : GOk u g1 := ⟨h2 ▸ hg.cache, h3 ▸ hg.uctx⟩
          have hck : Spec.charChecksOk env cr.directives c = true := by simpa using h1.symm
          simp only [hck, if_true]
          exact charParts_tr hrec _ _ _ _ _ _ h hgg
  · -- @extern rule
    rename_i er hfind
    simp only [hfind]
    unfold externRule at h
    unfold Att.externRule
    simp only at h
    have hgu := hg.uctx
    subst hgu
    have hu : (env.hooks.extern ("::".intercalate er.function) s.rest g.uctx).2 = g.uctx := hp.1 _ _ _
    have hg1 : GOk g.uctx
        ({ g with uctx := (env.hooks.extern ("::".intercalate er.function) s.rest g.uctx).2 }.emit
          (.externCall ("::".intercalate er.function) s.off g.uctx)) :=
      ⟨hg.cache, hu⟩
    simp only [clr_rest]
    split at h
    · rename_i v adv hres
      simp only [Option.some.injEq, Prod.mk.injEq] at h
      obtain ⟨rfl, rfl⟩ := h
      refine ⟨[], by simp only [hres, abs_advanceSafe], ?_, hg1⟩
      cases hadv : s.advanceSafe adv v with
      | ok v' s' => exact advanceSafe_far hadv
      | err e => exact absurd hadv advanceSafe_ne_err
      | panic m => trivial
    · rename_i msg hres
      simp only [Option.some.injEq, Prod.mk.injEq] at h
      obtain ⟨rfl, rfl⟩ := h
      exact ⟨[⟨s.off, .externRuleFailed msg⟩], by simp only [hres, abs, clr_off], reportError_eq s _, hg1⟩
  · -- builtins
    rename_i hfind
    simp only [hfind]
    split at h
    · rename_i hc
      simp only [Option.some.injEq, Prod.mk.injEq] at h
      obtain ⟨rfl, rfl⟩ := h
      simp only [hc, if_true]
      exact term_tr reports_parseChar abs_parseChar _ s hg
    · rename_i hc
      split at h
      · rename_i hc2
        simp only [Option.some.injEq, Prod.mk.injEq] at h
        obtain ⟨rfl, rfl⟩ := h
        simp only [hc, hc2, if_true, Bool.false_eq_true, if_false]
        exact term_tr (reports_parseWhitespace .other) abs_parseWhitespace _ s hg
      · rename_i hc2
        simp only [Option.some.injEq, Prod.mk.injEq] at h
        obtain ⟨rfl, rfl⟩ := h
        exact PostA.panic (by simp only [hc, hc2]; rfl) hg

/-- one unfolding of both evaluators preserves the bookkeeping invariant -/
theorem step_tr {rec : Rec} {arec : Att.ARec} (hrec : Tr u rec arec) (hp : PureHooks env.hooks)
    (hnm : NoMemoG env.g) (n : Nat) : Tr u (step env rec n) (Att.step env u arec n) :=
  ⟨fun _ _ _ _ _ _ h hg => stepExpr_tr hrec n h hg, fun _ _ _ _ _ h hg => stepRule_tr hrec hp hnm n h hg⟩

/-- **Bookkeeping theorem** (equal fuel).  In a grammar without `@memoize` / `@leftrec` rules and with
    pure hooks, started from an empty cache: whatever the model of the generated parser answers, the
    attempt-collecting reference evaluator answers the same modulo `abs`, and `far` (after a success)
    resp. the reported error (after a failure) is `recordAll` of `far` at entry and the attempts. -/
theorem eval_tr (hp : PureHooks env.hooks) (hnm : NoMemoG env.g) :
    ∀ n, Tr u (eval env n) (Att.eval env u n) := by
  intro n
  induction n with
  | zero =>
    exact ⟨fun _ _ _ _ _ _ h => by simp [eval] at h, fun _ _ _ _ _ h => by simp [eval] at h⟩
  | succ n ih => exact step_tr ih hp hnm n

end

/-! ## Part 5 (first, it is used for the wording of part 4): what `Att.eval` can produce

  Every attempt `Att.eval` lists carries the specifics of a terminal, a lookahead, a check, an extern
  or a character class – never `leftRecursionSentinel`, never `other` – and a failing evaluation
  lists at least one attempt. -/

/-- specifics of a real match attempt -/
def Counted (sp : Spec) : Prop := sp ≠ .leftRecursionSentinel ∧ sp ≠ .other

def NS (atts : List PErr) : Prop := ∀ a ∈ atts, Counted a.spec

theorem NS.nil : NS [] := fun _ h => by cases h
theorem NS.single {p : Nat} {sp : Spec} (h : Counted sp) : NS [⟨p, sp⟩] := by
  intro a ha
  simp only [List.mem_singleton] at ha
  subst ha; exact h
theorem NS.append {a b : List PErr} (ha : NS a) (hb : NS b) : NS (a ++ b) := by
  intro x hx
  rcases List.mem_append.mp hx with h | h
  · exact ha x h
  · exact hb x h

def AOk {α} (x : Att.AOut α) : Prop :=
  ∀ r atts, x = some (r, atts) → NS atts ∧ (∀ e, r = .err e → atts ≠ [])

structure AOkRec (arec : Att.ARec) : Prop where
  expr : ∀ ctx e s, AOk (arec.expr ctx e s)
  rule : ∀ name s, AOk (arec.rule name s)

theorem AOk.const {α} {r : Res α} {atts : List PErr} (hns : NS atts) (hne : ∀ e, r = .err e → atts ≠ []) :
    AOk (some (r, atts)) := by
  intro r' atts' h
  simp only [Option.some.injEq, Prod.mk.injEq] at h
  obtain ⟨rfl, rfl⟩ := h
  exact ⟨hns, hne⟩

theorem AOk.ok {α} {v : α} {s : St} : AOk (some (.ok v s, [])) :=
  AOk.const NS.nil (fun _ h => by cases h)

theorem AOk.panic {α} {m : String} {atts} (hns : NS atts) : AOk (some (.panic m, atts) : Att.AOut α) :=
  AOk.const hns (fun _ h => by cases h)

theorem addA_some {α} {as : List PErr} {x : Att.AOut α} {r atts}
    (h : Att.addA as x = some (r, atts)) : ∃ bs, x = some (r, bs) ∧ atts = as ++ bs := by
  cases x with
  | none => simp [Att.addA] at h
  | some b =>
    obtain ⟨r2, bs⟩ := b
    simp only [Att.addA, Option.some.injEq, Prod.mk.injEq] at h
    obtain ⟨rfl, rfl⟩ := h
    exact ⟨bs, rfl, rfl⟩

theorem bindA_ok' {α β} {ax : Att.AOut α} {ak : α → St → Att.AOut β} (hx : AOk ax)
    (hk : ∀ v s as, ax = some (.ok v s, as) → ∀ r bs, ak v s = some (r, bs) →
      NS bs ∧ (∀ e, r = .err e → as ++ bs ≠ [])) : AOk (Att.bindA ax ak) := by
  intro r atts h
  cases ax with
  | none => simp [Att.bindA] at h
  | some a =>
    obtain ⟨rx, as⟩ := a
    obtain ⟨hns, hne⟩ := hx rx as rfl
    cases rx with
    | ok v s =>
      simp only [Att.bindA] at h
      obtain ⟨bs, hkv, rfl⟩ := addA_some h
      obtain ⟨hns2, hne2⟩ := hk v s as rfl _ _ hkv
      exact ⟨hns.append hns2, hne2⟩
    | err e =>
      simp only [Att.bindA, Option.some.injEq, Prod.mk.injEq] at h
      obtain ⟨rfl, rfl⟩ := h
      exact ⟨hns, fun _ _ => hne e rfl⟩
    | panic m =>
      simp only [Att.bindA, Option.some.injEq, Prod.mk.injEq] at h
      obtain ⟨rfl, rfl⟩ := h
      exact ⟨hns, fun _ h => by cases h⟩

theorem bindA_ok {α β} {ax : Att.AOut α} {ak : α → St → Att.AOut β} (hx : AOk ax)
    (hk : ∀ v s, AOk (ak v s)) : AOk (Att.bindA ax ak) := by
  refine bindA_ok' hx (fun v s as _ r bs h => ?_)
  obtain ⟨hns, hne⟩ := hk v s r bs h
  exact ⟨hns, fun e he => by have := hne e he; simp [this]⟩

theorem withSkipWs_ok {α} {arec : Att.ARec} (hrec : AOkRec arec) {ctx : Ctx} {s : St}
    {ak : St → Att.AOut α} (hk : ∀ s, AOk (ak s)) : AOk (Att.withSkipWs arec ctx s ak) := by
  unfold Att.withSkipWs
  split
  · exact bindA_ok (hrec.rule _ _) (fun _ s => hk s)
  · exact hk s

theorem term_ok {α β} {mt : St → Res α} {sp : Spec} (hr : Reports mt sp) (hsp : Counted sp)
    (f : α → β) (s : St) : AOk (Att.term ((mt (clr s)).map f)) := by
  unfold Att.term
  cases hc : mt (clr s) with
  | ok v s' => exact AOk.const NS.nil (fun _ h => by cases h)
  | err e =>
    have : e = ⟨s.off, sp⟩ := (hr (clr s)).2 _ hc
    subst this
    exact AOk.const (NS.single hsp) (fun _ _ => by simp [Res.map, Att.errAtt])
  | panic m => exact AOk.const NS.nil (fun _ h => by cases h)

section
variable {env : Env} {u : Nat}

theorem evalSeq_ok {arec : Att.ARec} (hrec : AOkRec arec) {ctx : Ctx} :
    ∀ ps seen acc s, AOk (Att.evalSeq env arec ctx ps seen acc s) := by
  intro ps
  induction ps with
  | nil => intro seen acc s; exact AOk.ok
  | cons p ps ih =>
    intro seen acc s
    simp only [Att.evalSeq]
    refine bindA_ok (hrec.expr _ _ _) (fun v s' => ?_)
    split
    · exact AOk.panic NS.nil
    · exact ih _ _ _

theorem evalAlts_ok {arec : Att.ARec} (hrec : AOkRec arec) {ctx : Ctx} {fields} :
    ∀ as s r atts, Att.evalAlts env arec ctx fields as s = some (r, atts) →
      NS atts ∧ (∀ e, r = .err e → as ≠ [] → atts ≠ []) := by
  intro as
  induction as with
  | nil =>
    intro s r atts h
    simp only [Att.evalAlts, Option.some.injEq, Prod.mk.injEq] at h
    obtain ⟨rfl, rfl⟩ := h
    exact ⟨NS.nil, fun _ _ h => absurd rfl h⟩
  | cons a as ih =>
    intro s r atts h
    simp only [Att.evalAlts] at h
    split at h
    · cases h
    · rename_i r0 s0 ats hx
      obtain ⟨hns, _⟩ := hrec.expr _ _ _ _ _ hx
      split at h
      · simp only [Option.some.injEq, Prod.mk.injEq] at h
        obtain ⟨rfl, rfl⟩ := h
        exact ⟨hns, fun _ h => by cases h⟩
      · simp only [Option.some.injEq, Prod.mk.injEq] at h
        obtain ⟨rfl, rfl⟩ := h
        exact ⟨hns, fun _ h => by cases h⟩
    · rename_i e0 ats hx
      obtain ⟨hns, hne⟩ := hrec.expr _ _ _ _ _ hx
      obtain ⟨bs, hb, rfl⟩ := addA_some h
      obtain ⟨hns2, _⟩ := ih _ _ _ hb
      exact ⟨hns.append hns2, fun _ _ _ => by have := hne e0 rfl; simp [this]⟩
    · rename_i m ats hx
      obtain ⟨hns, _⟩ := hrec.expr _ _ _ _ _ hx
      simp only [Option.some.injEq, Prod.mk.injEq] at h
      obtain ⟨rfl, rfl⟩ := h
      exact ⟨hns, fun _ h => by cases h⟩

/-- the loop never fails; when it ends without a completed iteration it has listed the attempts of
    the failed one -/
theorem evalLoop_ok {abody : St → Att.AOut Parsed} {fields} (hbody : ∀ s, AOk (abody s)) :
    ∀ k iters acc s r atts, Att.evalLoop abody fields k iters acc s = some (r, atts) →
      NS atts ∧ (∀ e, r ≠ .err e) ∧
      (∀ it acc' s', r = .ok (it, acc') s' → iters ≤ it ∧ (it = iters → atts ≠ [])) := by
  intro k
  induction k with
  | zero => intro iters acc s r atts h; simp [Att.evalLoop] at h
  | succ k ih =>
    intro iters acc s r atts h
    simp only [Att.evalLoop] at h
    split at h
    · cases h
    · rename_i r0 s0 ats hx
      obtain ⟨hns, _⟩ := hbody _ _ _ hx
      split at h
      · obtain ⟨bs, hb, rfl⟩ := addA_some h
        obtain ⟨hns2, hne2, hit⟩ := ih _ _ _ _ _ hb
        refine ⟨hns.append hns2, hne2, fun it acc' s' hr => ?_⟩
        have := (hit it acc' s' hr).1
        exact ⟨by omega, fun h' => by omega⟩
      · simp only [Option.some.injEq, Prod.mk.injEq] at h
        obtain ⟨rfl, rfl⟩ := h
        exact ⟨hns, fun _ h => (by cases h), fun _ _ _ h => by cases h⟩
    · rename_i e0 ats hx
      obtain ⟨hns, hne⟩ := hbody _ _ _ hx
      simp only [Option.some.injEq, Prod.mk.injEq] at h
      obtain ⟨rfl, rfl⟩ := h
      refine ⟨hns, fun _ h => (by cases h), fun it acc' s' hr => ?_⟩
      simp only [Res.ok.injEq, Prod.mk.injEq] at hr
      obtain ⟨⟨rfl, rfl⟩, rfl⟩ := hr
      exact ⟨Nat.le_refl _, fun _ => hne e0 rfl⟩
    · rename_i m ats hx
      obtain ⟨hns, _⟩ := hbody _ _ _ hx
      simp only [Option.some.injEq, Prod.mk.injEq] at h
      obtain ⟨rfl, rfl⟩ := h
      exact ⟨hns, fun _ h => (by cases h), fun _ _ _ h => by cases h⟩

theorem counted_expectedAnyCharacter : Counted .expectedAnyCharacter := ⟨fun h => (by cases h), fun h => by cases h⟩
theorem counted_expectedCharacter (c) : Counted (.expectedCharacter c) := ⟨fun h => (by cases h), fun h => by cases h⟩
theorem counted_expectedCharacterRange (a b) : Counted (.expectedCharacterRange a b) :=
  ⟨fun h => (by cases h), fun h => by cases h⟩
theorem counted_expectedString (l) : Counted (.expectedString l) := ⟨fun h => (by cases h), fun h => by cases h⟩
theorem counted_expectedCharacterClass (n) : Counted (.expectedCharacterClass n) :=
  ⟨fun h => (by cases h), fun h => by cases h⟩
theorem counted_expectedEoi : Counted .expectedEoi := ⟨fun h => (by cases h), fun h => by cases h⟩
theorem counted_negativeLookaheadFailed : Counted .negativeLookaheadFailed :=
  ⟨fun h => (by cases h), fun h => by cases h⟩
theorem counted_checkFunctionFailed (n) : Counted (.checkFunctionFailed n) :=
  ⟨fun h => (by cases h), fun h => by cases h⟩
theorem counted_externRuleFailed (m) : Counted (.externRuleFailed m) := ⟨fun h => (by cases h), fun h => by cases h⟩

theorem stepExpr_ok {arec : Att.ARec} (hrec : AOkRec arec) (n : Nat) (ctx : Ctx) (e : Expr) (s : St) :
    AOk (Att.stepExpr env arec n ctx e s) := by
  cases e with
  | choice alts =>
    match alts with
    | [] => exact AOk.panic NS.nil
    | [a] => simp only [Att.stepExpr]; exact hrec.expr _ _ _
    | a :: b :: rest =>
      simp only [Att.stepExpr]
      intro r atts h
      obtain ⟨hns, hne⟩ := evalAlts_ok hrec _ _ _ _ h
      exact ⟨hns, fun e he => hne e he (by simp)⟩
  | seq parts =>
    match parts with
    | [] => exact AOk.ok
    | [a] => simp only [Att.stepExpr]; exact hrec.expr _ _ _
    | a :: b :: rest =>
      simp only [Att.stepExpr]
      refine bindA_ok (evalSeq_ok hrec _ _ _ _) (fun v s' => ?_)
      split
      · exact AOk.ok
      · exact AOk.panic NS.nil
  | group b => simp only [Att.stepExpr]; exact hrec.expr _ _ _
  | opt b =>
    simp only [Att.stepExpr]
    intro r atts h
    split at h
    · cases h
    · rename_i r0 s0 ats hx
      obtain ⟨hns, _⟩ := hrec.expr _ _ _ _ _ hx
      simp only [Option.some.injEq, Prod.mk.injEq] at h
      obtain ⟨rfl, rfl⟩ := h
      exact ⟨hns, fun _ h => by cases h⟩
    · rename_i e0 ats hx
      obtain ⟨hns, _⟩ := hrec.expr _ _ _ _ _ hx
      split at h <;>
      · simp only [Option.some.injEq, Prod.mk.injEq] at h
        obtain ⟨rfl, rfl⟩ := h
        exact ⟨hns, fun _ h => by cases h⟩
    · rename_i m ats hx
      obtain ⟨hns, _⟩ := hrec.expr _ _ _ _ _ hx
      simp only [Option.some.injEq, Prod.mk.injEq] at h
      obtain ⟨rfl, rfl⟩ := h
      exact ⟨hns, fun _ h => by cases h⟩
  | closure b plus =>
    simp only [Att.stepExpr]
    split
    · exact AOk.panic NS.nil
    · rename_i init hinit
      have hl := evalLoop_ok (abody := arec.expr ctx b)
        (fields := filterRuleFields ctx.ruleFields (ownFields env b)) (fun s => hrec.expr _ _ _)
      refine bindA_ok' (fun r atts h => ?_) ?_
      · obtain ⟨hns, hne, _⟩ := hl _ _ _ _ _ _ h
        exact ⟨hns, fun e he => absurd he (hne e)⟩
      · intro v s' as hx r bs hk
        obtain ⟨iters, acc⟩ := v
        obtain ⟨_, _, hit⟩ := hl _ _ _ _ _ _ hx
        simp only at hk
        split at hk
        · rename_i hc
          simp only [Option.some.injEq, Prod.mk.injEq] at hk
          obtain ⟨rfl, rfl⟩ := hk
          have hz : iters = 0 := by simp at hc; exact hc.2
          have := (hit _ _ _ rfl).2 hz
          exact ⟨NS.nil, fun _ _ => by simp [this]⟩
        · simp only [Option.some.injEq, Prod.mk.injEq] at hk
          obtain ⟨rfl, rfl⟩ := hk
          exact ⟨NS.nil, fun _ h => by cases h⟩
  | neg b =>
    simp only [Att.stepExpr]
    intro r atts h
    split at h
    · cases h
    · simp only [Option.some.injEq, Prod.mk.injEq] at h
      obtain ⟨rfl, rfl⟩ := h
      exact ⟨NS.single counted_negativeLookaheadFailed, fun _ _ => by simp⟩
    · simp only [Option.some.injEq, Prod.mk.injEq] at h
      obtain ⟨rfl, rfl⟩ := h
      exact ⟨NS.nil, fun _ h => by cases h⟩
    · rename_i m ats hx
      obtain ⟨hns, _⟩ := hrec.expr _ _ _ _ _ hx
      simp only [Option.some.injEq, Prod.mk.injEq] at h
      obtain ⟨rfl, rfl⟩ := h
      exact ⟨hns, fun _ h => by cases h⟩
  | pos b =>
    simp only [Att.stepExpr]
    intro r atts h
    split at h
    · cases h
    · simp only [Option.some.injEq, Prod.mk.injEq] at h
      obtain ⟨rfl, rfl⟩ := h
      exact ⟨NS.nil, fun _ h => by cases h⟩
    · rename_i e0 ats hx
      obtain ⟨hns, hne⟩ := hrec.expr _ _ _ _ _ hx
      simp only [Option.some.injEq, Prod.mk.injEq] at h
      obtain ⟨rfl, rfl⟩ := h
      exact ⟨hns, fun _ _ => hne e0 rfl⟩
    · rename_i m ats hx
      obtain ⟨hns, _⟩ := hrec.expr _ _ _ _ _ hx
      simp only [Option.some.injEq, Prod.mk.injEq] at h
      obtain ⟨rfl, rfl⟩ := h
      exact ⟨hns, fun _ h => by cases h⟩
  | range lo hi =>
    simp only [Att.stepExpr]
    split
    · exact withSkipWs_ok hrec (fun s =>
        term_ok (reports_parseCharacterRange _ _) (counted_expectedCharacterRange _ _) _ s)
    · exact AOk.panic NS.nil
  | lit ins body =>
    simp only [Att.stepExpr]
    split
    · rename_i mt hmt
      refine withSkipWs_ok hrec (fun s => ?_)
      cases mt with
      | charLit c => exact term_ok (reports_parseCharacterLiteral c) (counted_expectedCharacter c) _ s
      | strLit l => exact term_ok (reports_parseStringLiteral l) (counted_expectedString l) _ s
      | charLitI c =>
        exact term_ok (reports_parseCharacterLiteralInsensitive c) (counted_expectedCharacter c) _ s
      | strLitI l =>
        exact term_ok (reports_parseStringLiteralInsensitive l) (counted_expectedString l) _ s
    · exact AOk.panic NS.nil
  | eoi =>
    simp only [Att.stepExpr]
    exact withSkipWs_ok hrec (fun s => term_ok reports_parseEndOfInput counted_expectedEoi _ s)
  | incl r0 =>
    simp only [Att.stepExpr]
    split
    · exact AOk.panic NS.nil
    · exact hrec.expr _ _ _
  | field name boxed typ =>
    simp only [Att.stepExpr]
    refine withSkipWs_ok hrec (fun s => bindA_ok (hrec.rule _ _) (fun v s' => ?_))
    cases name with
    | none => exact AOk.ok
    | some nm =>
      simp only
      split
      · exact AOk.ok
      · exact AOk.panic NS.nil

theorem runChecks_ok : ∀ fs v s, AOk (Att.runChecks env u fs v s) := by
  intro fs
  induction fs with
  | nil => intro v s; exact AOk.ok
  | cons f fs ih =>
    intro v s
    simp only [Att.runChecks]
    split
    · exact AOk.const (NS.single (counted_checkFunctionFailed _)) (fun _ _ => by simp)
    · exact ih _ _

theorem ruleBody_ok {arec : Att.ARec} (hrec : AOkRec arec) (r0 : Rule) (s : St) :
    AOk (Att.ruleBody env u arec r0 s) := by
  unfold Att.ruleBody
  split
  · simp only
    split
    · exact bindA_ok (hrec.expr _ _ _) (fun _ _ => runChecks_ok _ _ _)
    · split
      · refine bindA_ok (hrec.expr _ _ _) (fun p s' => ?_)
        split
        · exact runChecks_ok _ _ _
        · exact AOk.panic NS.nil
      · split
        · exact AOk.panic NS.nil
        · refine bindA_ok (hrec.expr _ _ _) (fun p s' => ?_)
          split
          · exact runChecks_ok _ _ _
          · exact AOk.panic NS.nil
  · exact AOk.panic NS.nil

theorem charParts_ok {arec : Att.ARec} (hrec : AOkRec arec) (name : String) :
    ∀ ps s, AOk (Att.charParts arec name ps s) := by
  intro ps
  induction ps with
  | nil =>
    intro s
    exact AOk.const (NS.single (counted_expectedCharacterClass _)) (fun _ _ => by simp)
  | cons p ps ih =>
    intro s
    have key : ∀ (ax : Att.AOut Val), AOk ax →
        AOk (match ax with
          | none => none
          | some (.ok v s', ats) => some (.ok v s', ats)
          | some (.err _, _) => Att.charParts arec name ps s
          | some (.panic m, ats) => some (.panic m, ats)) := by
      intro ax hax
      cases ax with
      | none => intro r atts h; cases h
      | some a =>
        obtain ⟨rx, as⟩ := a
        obtain ⟨hns, _⟩ := hax rx as rfl
        cases rx with
        | ok v s1 => exact AOk.const hns (fun _ h => by cases h)
        | err e => exact ih s
        | panic m => exact AOk.panic hns
    cases p with
    | chr item =>
      simp only [Att.charParts]
      refine key _ ?_
      split
      · exact term_ok (reports_parseCharacterLiteral _) (counted_expectedCharacter _) _ s
      · exact AOk.panic NS.nil
    | range lo hi =>
      simp only [Att.charParts]
      refine key _ ?_
      split
      · exact term_ok (reports_parseCharacterRange _ _) (counted_expectedCharacterRange _ _) _ s
      · exact AOk.panic NS.nil
    | ident id =>
      simp only [Att.charParts]
      exact key _ (hrec.rule _ _)

theorem stepRule_ok {arec : Att.ARec} (hrec : AOkRec arec) (name : String) (s : St) :
    AOk (Att.stepRule env u arec name s) := by
  unfold Att.stepRule
  split
  · exact ruleBody_ok hrec _ _
  · unfold Att.charRule
    split
    · exact charParts_ok hrec _ _ _
    · split
      · exact AOk.const (NS.single (counted_expectedCharacterClass _)) (fun _ _ => by simp)
      · split
        · exact charParts_ok hrec _ _ _
        · exact AOk.const (NS.single (counted_expectedCharacterClass _)) (fun _ _ => by simp)
  · unfold Att.externRule
    split
    · rename_i v adv hres
      cases hadv : s.advanceSafe adv v with
      | ok v' s' => exact AOk.const NS.nil (fun _ h => by cases h)
      | err e => exact absurd hadv advanceSafe_ne_err
      | panic m => exact AOk.const NS.nil (fun _ h => by cases h)
    · exact AOk.const (NS.single (counted_externRuleFailed _)) (fun _ _ => by simp)
  · split
    · exact term_ok reports_parseChar counted_expectedAnyCharacter _ s
    · split
      · exact term_ok (reports_parseWhitespace .expectedEoi) counted_expectedEoi _ s
      · exact AOk.panic NS.nil

/-- **What `Att.eval` lists.**  Only real attempts (no `leftRecursionSentinel`, no `other`), and at
    least one whenever the evaluation fails. -/
theorem eval_ok : ∀ n, AOkRec (Att.eval env u n) := by
  intro n
  induction n with
  | zero => exact ⟨fun _ _ _ _ _ h => (by cases h), fun _ _ _ _ h => by cases h⟩
  | succ n ih => exact ⟨fun ctx e s => stepExpr_ok ih n ctx e s, fun name s => stepRule_ok ih name s⟩

end

/-! ## `Att.eval` is `Spec.eval` plus the attempt lists

  Forgetting the attempts gives exactly the reference semantics (equal fuel, any state). -/

structure Forget (arec : Att.ARec) (srec : SRec) : Prop where
  expr : ∀ ctx e s, (arec.expr ctx e s).map (·.1) = srec.expr ctx e s
  rule : ∀ name s, (arec.rule name s).map (·.1) = srec.rule name s

theorem addA_fst {α} (as : List PErr) (x : Att.AOut α) : (Att.addA as x).map (·.1) = x.map (·.1) := by
  cases x with
  | none => rfl
  | some p => rfl

theorem bindA_fst {α β} (ax : Att.AOut α) (ak : α → St → Att.AOut β) :
    (Att.bindA ax ak).map (·.1) = bindS (ax.map (·.1)) (fun v s => (ak v s).map (·.1)) := by
  cases ax with
  | none => rfl
  | some p =>
    obtain ⟨r, as⟩ := p
    cases r with
    | ok v s => simp only [Att.bindA, addA_fst, Option.map_some, bindS]
    | err e => rfl
    | panic m => rfl

theorem bindA_fst' {α β} {ax : Att.AOut α} {ak : α → St → Att.AOut β} {sx : SOut α}
    {sk : α → St → SOut β} (hx : ax.map (·.1) = sx) (hk : ∀ v s, (ak v s).map (·.1) = sk v s) :
    (Att.bindA ax ak).map (·.1) = bindS sx sk := by
  rw [bindA_fst, hx]
  congr 1
  funext v s
  exact hk v s

theorem withSkipWs_fst {α} {arec : Att.ARec} {srec : SRec} (h : Forget arec srec) {ctx : Ctx} {s : St}
    {ak : St → Att.AOut α} {sk : St → SOut α} (hk : ∀ s, (ak s).map (·.1) = sk s) :
    (Att.withSkipWs arec ctx s ak).map (·.1) = Spec.withSkipWs srec ctx s sk := by
  unfold Att.withSkipWs Spec.withSkipWs
  split
  · exact bindA_fst' (h.rule _ _) (fun _ s => hk s)
  · exact hk s

theorem term_fst {α β} {mt : St → Res α} (habs : ∀ s, abs (mt (clr s)) = abs (mt s)) (f : α → β) (s : St) :
    (Att.term ((mt (clr s)).map f)).map (·.1) = some (abs ((mt s).map f)) := by
  simp only [Att.term, Option.map_some, abs_map, habs]

section
variable {env : Env} {u : Nat}

theorem evalSeq_fst {arec : Att.ARec} {srec : SRec} (h : Forget arec srec) {ctx : Ctx} :
    ∀ ps seen acc s, (Att.evalSeq env arec ctx ps seen acc s).map (·.1) =
      Spec.evalSeq env srec ctx ps seen acc s := by
  intro ps
  induction ps with
  | nil => intro seen acc s; rfl
  | cons p ps ih =>
    intro seen acc s
    simp only [Att.evalSeq, Spec.evalSeq]
    refine bindA_fst' (h.expr _ _ _) (fun v s' => ?_)
    cases hm : mergePart (filterRuleFields ctx.ruleFields (ownFields env p)) seen acc v with
    | error m => rfl
    | ok q => exact ih _ _ _

theorem evalAlts_fst {arec : Att.ARec} {srec : SRec} (h : Forget arec srec) {ctx : Ctx} {fields} :
    ∀ as s, (Att.evalAlts env arec ctx fields as s).map (·.1) = Spec.evalAlts env srec ctx fields as s := by
  intro as
  induction as with
  | nil => intro s; rfl
  | cons a as ih =>
    intro s
    simp only [Att.evalAlts, Spec.evalAlts, ← h.expr]
    cases hx : arec.expr ctx a s with
    | none => rfl
    | some p =>
      obtain ⟨r, ats⟩ := p
      cases r with
      | ok v s' =>
        simp only [Option.map_some]
        cases hc : convertArm fields (ownFields env a) v <;> rfl
      | err e => simp only [Option.map_some, addA_fst]; exact ih s
      | panic m => rfl

theorem evalLoop_fst {abody : St → Att.AOut Parsed} {sbody : St → SOut Parsed} {fields}
    (hb : ∀ s, (abody s).map (·.1) = sbody s) :
    ∀ k iters acc s, (Att.evalLoop abody fields k iters acc s).map (·.1) =
      Spec.evalLoop sbody fields k iters acc s := by
  intro k
  induction k with
  | zero => intro iters acc s; rfl
  | succ k ih =>
    intro iters acc s
    simp only [Att.evalLoop, Spec.evalLoop, ← hb]
    cases hx : abody s with
    | none => rfl
    | some p =>
      obtain ⟨r, ats⟩ := p
      cases r with
      | ok v s' =>
        simp only [Option.map_some]
        cases hc : extendAll fields acc v with
        | error m => rfl
        | ok acc' => simp only [addA_fst]; exact ih _ _ _
      | err e => rfl
      | panic m => rfl

theorem stepExpr_fst {arec : Att.ARec} {srec : SRec} (h : Forget arec srec) (n : Nat) (ctx : Ctx)
    (e : Expr) (s : St) :
    (Att.stepExpr env arec n ctx e s).map (·.1) = Spec.stepExpr env srec n ctx e s := by
  cases e with
  | choice alts =>
    match alts with
    | [] => rfl
    | [a] => simp only [Att.stepExpr, Spec.stepExpr]; exact h.expr _ _ _
    | a :: b :: rest => simp only [Att.stepExpr, Spec.stepExpr]; exact evalAlts_fst h _ _
  | seq parts =>
    match parts with
    | [] => rfl
    | [a] => simp only [Att.stepExpr, Spec.stepExpr]; exact h.expr _ _ _
    | a :: b :: rest =>
      simp only [Att.stepExpr, Spec.stepExpr]
      refine bindA_fst' (evalSeq_fst h _ _ _ _) (fun v s' => ?_)
      cases hp : project (filterRuleFields ctx.ruleFields (ownFields env (.seq (a :: b :: rest)))) v.2 <;> rfl
  | group b => simp only [Att.stepExpr, Spec.stepExpr]; exact h.expr _ _ _
  | opt b =>
    simp only [Att.stepExpr, Spec.stepExpr, ← h.expr]
    cases hx : arec.expr ctx b s with
    | none => rfl
    | some p =>
      obtain ⟨r, ats⟩ := p
      cases r with
      | ok v s' => rfl
      | err e =>
        simp only [Option.map_some]
        cases hd : defaults (filterRuleFields ctx.ruleFields (ownFields env b)) <;> rfl
      | panic m => rfl
  | closure b plus =>
    simp only [Att.stepExpr, Spec.stepExpr]
    cases hi : closureInit (filterRuleFields ctx.ruleFields (ownFields env b)) with
    | error m => rfl
    | ok init =>
      simp only
      refine bindA_fst' (evalLoop_fst (fun s => h.expr _ _ _) _ _ _ _) (fun v s' => ?_)
      obtain ⟨iters, acc⟩ := v
      simp only
      split <;> rfl
  | neg b =>
    simp only [Att.stepExpr, Spec.stepExpr, ← h.expr]
    cases hx : arec.expr ctx b s with
    | none => rfl
    | some p =>
      obtain ⟨r, ats⟩ := p
      cases r <;> rfl
  | pos b =>
    simp only [Att.stepExpr, Spec.stepExpr, ← h.expr]
    cases hx : arec.expr ctx b s with
    | none => rfl
    | some p =>
      obtain ⟨r, ats⟩ := p
      cases r <;> rfl
  | range lo hi =>
    simp only [Att.stepExpr, Spec.stepExpr]
    cases hlo : lo.toChar with
    | ok a =>
      cases hhi : hi.toChar with
      | ok b =>
        simp only
        exact withSkipWs_fst h (fun s =>
          term_fst (mt := fun s => parseCharacterRange s a b) (fun s => abs_parseCharacterRange s a b) _ s)
      | err m => rfl
      | fuel => rfl
    | err m => rfl
    | fuel => rfl
  | lit ins body =>
    simp only [Att.stepExpr, Spec.stepExpr]
    cases hm : compileLit ins body with
    | ok mt =>
      simp only
      refine withSkipWs_fst h (fun s => ?_)
      cases mt with
      | charLit c =>
        exact term_fst (mt := fun s => parseCharacterLiteral s c) (fun s => abs_parseCharacterLiteral s c) _ s
      | strLit l =>
        exact term_fst (mt := fun s => parseStringLiteral s l) (fun s => abs_parseStringLiteral s l) _ s
      | charLitI c =>
        exact term_fst (mt := fun s => parseCharacterLiteralInsensitive s c)
          (fun s => abs_parseCharacterLiteralInsensitive s c) _ s
      | strLitI l =>
        exact term_fst (mt := fun s => parseStringLiteralInsensitive s l)
          (fun s => abs_parseStringLiteralInsensitive s l) _ s
    | err m => rfl
    | fuel => rfl
  | eoi =>
    simp only [Att.stepExpr, Spec.stepExpr]
    exact withSkipWs_fst h (fun s => term_fst abs_parseEndOfInput _ s)
  | incl r0 =>
    simp only [Att.stepExpr, Spec.stepExpr]
    cases hf : env.g.findRule r0 with
    | none => rfl
    | some rule => exact h.expr _ _ _
  | field name boxed typ =>
    simp only [Att.stepExpr, Spec.stepExpr]
    refine withSkipWs_fst h (fun s => bindA_fst' (h.rule _ _) (fun v s' => ?_))
    cases name with
    | none => rfl
    | some nm =>
      simp only
      cases hp : postprocessField ctx.ruleFields nm.key typ v <;> rfl

theorem runChecks_fst : ∀ fs v s, (Att.runChecks env u fs v s).map (·.1) = Spec.runChecks env u fs v s := by
  intro fs
  induction fs with
  | nil => intro v s; rfl
  | cons f fs ih =>
    intro v s
    simp only [Att.runChecks, Spec.runChecks]
    split
    · rfl
    · exact ih _ _

theorem ruleBody_fst {arec : Att.ARec} {srec : SRec} (h : Forget arec srec) (r0 : Rule) (s : St) :
    (Att.ruleBody env u arec r0 s).map (·.1) = Spec.ruleBody env u srec r0 s := by
  unfold Att.ruleBody Spec.ruleBody
  cases hf : getFields env.g env.nf r0.definition with
  | ok fields =>
    simp only
    by_cases hc : r0.flags.string = true
    · simp only [if_pos hc]
      exact bindA_fst' (h.expr _ _ _) (fun _ _ => runChecks_fst _ _ _)
    · simp only [if_neg hc]
      by_cases hc2 : (fields.length == 1 && (fields.head?.map (·.name)) == some "_override") = true
      · simp only [if_pos hc2]
        refine bindA_fst' (h.expr _ _ _) (fun p s' => ?_)
        cases hg : p.get "_override" with
        | none => rfl
        | some v => exact runChecks_fst _ _ _
      · simp only [if_neg hc2]
        by_cases hc3 : hasField fields "_override" = true
        · simp only [if_pos hc3]; rfl
        · simp only [if_neg hc3]
          refine bindA_fst' (h.expr _ _ _) (fun p s' => ?_)
          cases hp : project fields p with
          | error m => rfl
          | ok fs => exact runChecks_fst _ _ _
  | err m => rfl
  | fuel => rfl

theorem charParts_fst {arec : Att.ARec} {srec : SRec} (h : Forget arec srec) (name : String) :
    ∀ ps s, (Att.charParts arec name ps s).map (·.1) = Spec.charParts srec ps s := by
  intro ps
  induction ps with
  | nil => intro s; rfl
  | cons p ps ih =>
    intro s
    have key : ∀ (ax : Att.AOut Val) (sx : SOut Val), ax.map (·.1) = sx →
        ((match ax with
          | none => none
          | some (.ok v s', ats) => some (.ok v s', ats)
          | some (.err _, _) => Att.charParts arec name ps s
          | some (.panic m, ats) => some (.panic m, ats)) : Att.AOut Val).map (·.1) =
        ((match sx with
          | none => none
          | some (.ok v s') => some (.ok v s')
          | some (.err _) => Spec.charParts srec ps s
          | some (.panic m) => some (.panic m)) : SOut Val) := by
      intro ax sx hx
      subst hx
      cases ax with
      | none => rfl
      | some q =>
        obtain ⟨r, ats⟩ := q
        cases r with
        | ok v s1 => rfl
        | err e => exact ih s
        | panic m => rfl
    cases p with
    | chr item =>
      simp only [Att.charParts, Spec.charParts]
      refine key _ _ ?_
      cases hi : item.toChar with
      | ok c =>
        exact term_fst (mt := fun s => parseCharacterLiteral s c) (fun s => abs_parseCharacterLiteral s c) _ s
      | err m => rfl
      | fuel => rfl
    | range lo hi =>
      simp only [Att.charParts, Spec.charParts]
      refine key _ _ ?_
      cases hlo : lo.toChar with
      | ok a =>
        cases hhi : hi.toChar with
        | ok b =>
          exact term_fst (mt := fun s => parseCharacterRange s a b) (fun s => abs_parseCharacterRange s a b) _ s
        | err m => rfl
        | fuel => rfl
      | err m => rfl
      | fuel => rfl
    | ident id =>
      simp only [Att.charParts, Spec.charParts]
      exact key _ _ (h.rule _ _)

theorem stepRule_fst {arec : Att.ARec} {srec : SRec} (h : Forget arec srec) (name : String) (s : St) :
    (Att.stepRule env u arec name s).map (·.1) = Spec.stepRule env u srec name s := by
  unfold Att.stepRule Spec.stepRule
  cases hfind : env.g.find name with
  | some entry =>
    cases entry with
    | rule r0 => exact ruleBody_fst h _ _
    | charRule cr =>
      simp only
      unfold Att.charRule Spec.charRule
      by_cases hc : cr.directives.isEmpty = true
      · simp only [if_pos hc]; exact charParts_fst h _ _ _
      · simp only [if_neg hc]
        cases hd : decodeHead s.rest with
        | none => rfl
        | some c =>
          simp only
          by_cases hk : charChecksOk env cr.directives c = true
          · simp only [if_pos hk]; exact charParts_fst h _ _ _
          · simp only [if_neg hk]; rfl
    | externRule er =>
      simp only
      unfold Att.externRule Spec.externRule
      cases hres : (env.hooks.extern ("::".intercalate er.function) s.rest u).1 with
      | ok p => rfl
      | error msg => rfl
  | none =>
    simp only
    by_cases hc : (name == "char") = true
    · simp only [if_pos hc]; exact term_fst abs_parseChar _ s
    · simp only [if_neg hc]
      by_cases hc2 : (name == "Whitespace") = true
      · simp only [if_pos hc2]; exact term_fst abs_parseWhitespace _ s
      · simp only [if_neg hc2]; rfl

/-- forgetting the attempt lists, `Att.eval` *is* the reference semantics -/
theorem eval_fst : ∀ n, Forget (Att.eval env u n) (Spec.eval env u n) := by
  intro n
  induction n with
  | zero => exact ⟨fun _ _ _ => rfl, fun _ _ => rfl⟩
  | succ n ih => exact ⟨fun ctx e s => stepExpr_fst ih n ctx e s, fun name s => stepRule_fst ih name s⟩

theorem parse_fst (env : Env) (u n : Nat) (rule : String) (inp : List UInt8) :
    (Att.parse env u n rule inp).map (·.1) = Spec.parse env u n rule inp :=
  (eval_fst (env := env) (u := u) n).rule _ _

end

/-! ## Part 4: the property -/

section
variable {env : Env}

/-- the bookkeeping theorem for a whole parse (fresh state: `far = none`, fresh global: empty cache) -/
theorem parse_tr (hp : PureHooks env.hooks) (hnm : NoMemoG env.g) (n : Nat) (rule : String)
    (inp : List UInt8) (u : Nat) {r : Res Val} {g' : Global}
    (h : parseAdvanced env n rule inp u = some (r, g')) :
    ∃ atts, Att.parse env u n rule inp = some (abs r, atts) ∧ Track none r atts ∧ NS atts ∧
      (∀ e, r = .err e → atts ≠ []) := by
  obtain ⟨atts, hax, ht, _⟩ :=
    (eval_tr (u := u) hp hnm n).rule rule (St.new inp) (Global.init u) r g' h ⟨rfl, rfl⟩
  have hax' : Att.parse env u n rule inp = some (abs r, atts) := hax
  obtain ⟨hns, hne⟩ := (eval_ok (env := env) (u := u) n).rule _ _ _ _ hax'
  refine ⟨atts, hax', ht, hns, fun e he => ?_⟩
  subst he
  exact hne noErr rfl

/-- a successful parse: the `farthest_error` of the final state is the furthest, last failed attempt
    (or `none` when nothing failed on the way) -/
theorem C10_success_far (env : Env) (hp : PureHooks env.hooks) (hnm : NoMemoG env.g) (n : Nat)
    (rule : String) (inp : List UInt8) (u : Nat) {v : Val} {s' : St} {g' : Global}
    (h : parseAdvanced env n rule inp u = some (.ok v s', g')) :
    ∃ atts, Att.parse env u n rule inp = some (.ok v (clr s'), atts) ∧ s'.far = recordAll none atts := by
  obtain ⟨atts, hax, ht, _⟩ := parse_tr hp hnm n rule inp u h
  exact ⟨atts, hax, ht⟩

/-- **C10, all of it.**  A failed parse: the reference evaluator fails too, with a non-empty attempt
    list `atts`, and the reported error is `recordAll none atts`. -/
theorem C10_reported (env : Env) (hp : PureHooks env.hooks) (hnm : NoMemoG env.g) (n : Nat)
    (rule : String) (inp : List UInt8) (u : Nat) {e : PErr} {g' : Global}
    (h : parseAdvanced env n rule inp u = some (.err e, g')) :
    ∃ atts, Att.parse env u n rule inp = some (.err noErr, atts) ∧ atts ≠ [] ∧
      recordAll none atts = some e := by
  obtain ⟨atts, hax, ht, _, hne⟩ := parse_tr hp hnm n rule inp u h
  exact ⟨atts, hax, hne e rfl, ht.symm⟩

/-- the reported position and detail are those of an attempt that really failed during that parse -/
theorem C10_is_attempt (env : Env) (hp : PureHooks env.hooks) (hnm : NoMemoG env.g) (n : Nat)
    (rule : String) (inp : List UInt8) (u : Nat) {e : PErr} {g' : Global}
    (h : parseAdvanced env n rule inp u = some (.err e, g')) :
    ∃ atts, Att.parse env u n rule inp = some (.err noErr, atts) ∧ e ∈ atts := by
  obtain ⟨atts, hax, _, hr⟩ := C10_reported env hp hnm n rule inp u h
  exact ⟨atts, hax, recordAll_none_mem hr⟩

/-- … it is the furthest one … -/
theorem C10_furthest (env : Env) (hp : PureHooks env.hooks) (hnm : NoMemoG env.g) (n : Nat)
    (rule : String) (inp : List UInt8) (u : Nat) {e : PErr} {g' : Global}
    (h : parseAdvanced env n rule inp u = some (.err e, g')) :
    ∃ atts, Att.parse env u n rule inp = some (.err noErr, atts) ∧ e ∈ atts ∧
      ∀ a ∈ atts, a.pos ≤ e.pos := by
  obtain ⟨atts, hax, _, hr⟩ := C10_reported env hp hnm n rule inp u h
  exact ⟨atts, hax, recordAll_none_mem hr, recordAll_none_max hr⟩

/-- … and the last one at that position -/
theorem C10_last_at_position (env : Env) (hp : PureHooks env.hooks) (hnm : NoMemoG env.g) (n : Nat)
    (rule : String) (inp : List UInt8) (u : Nat) {e : PErr} {g' : Global}
    (h : parseAdvanced env n rule inp u = some (.err e, g')) :
    ∃ atts pre post, Att.parse env u n rule inp = some (.err noErr, atts) ∧
      atts = pre ++ e :: post ∧ (∀ a ∈ pre, a.pos ≤ e.pos) ∧ (∀ a ∈ post, a.pos < e.pos) := by
  obtain ⟨atts, hax, _, hr⟩ := C10_reported env hp hnm n rule inp u h
  obtain ⟨pre, post, hs, hpost⟩ := recordAll_none_last hr
  refine ⟨atts, pre, post, hax, hs, fun a ha => ?_, hpost⟩
  exact recordAll_none_max hr a (by rw [hs]; exact List.mem_append_left _ ha)

/-- no attempt the reference evaluator lists is the left-recursion sentinel or the `other` fallback
    (any grammar, any fuel, any state) -/
theorem Att.no_sentinel (env : Env) (u n : Nat) (rule : String) (s : St) {r : Res Val} {atts : List PErr}
    (h : (Att.eval env u n).rule rule s = some (r, atts)) :
    ∀ a ∈ atts, a.spec ≠ .leftRecursionSentinel ∧ a.spec ≠ .other :=
  ((eval_ok (env := env) (u := u) n).rule _ _ _ _ h).1

/-- in a grammar without `@memoize` / `@leftrec` rules the left-recursion sentinel is never reported,
    and neither is the `other` fallback of `report_farthest_error` -/
theorem C10_no_sentinel_partial (env : Env) (hp : PureHooks env.hooks) (hnm : NoMemoG env.g) (n : Nat)
    (rule : String) (inp : List UInt8) (u : Nat) {e : PErr} {g' : Global}
    (h : parseAdvanced env n rule inp u = some (.err e, g')) :
    e.spec ≠ .leftRecursionSentinel ∧ e.spec ≠ .other := by
  obtain ⟨atts, hax, hmem⟩ := C10_is_attempt env hp hnm n rule inp u h
  exact Att.no_sentinel env u n rule (St.new inp) hax e hmem

end

/-! ## Part 6: a concrete grammar

  `@export S = 'a' ('b' | 'c') | 'a' !'x' 'd';` -/
namespace AttExample

def lit (c : Char) : Expr := .lit false [.chr c]

def ruleS : Rule := ⟨[.export], "S",
  .choice [.seq [lit 'a', .group (.choice [.seq [lit 'b'], .seq [lit 'c']])],
           .seq [lit 'a', .neg (lit 'x'), lit 'd']]⟩

def exEnv : Env := { g := ⟨[.rule ruleS]⟩, settings := {}, hooks := default, nf := 10 }

/-- the hypotheses of the C10 theorems hold -/
example : PureHooks exEnv.hooks ∧ NoMemoG exEnv.g := by
  refine ⟨⟨fun _ _ _ => rfl, fun _ _ _ => rfl⟩, fun r hr => ?_⟩
  simp only [exEnv, List.mem_cons, RuleEntry.rule.injEq, List.not_mem_nil, or_false] at hr
  subst hr
  exact ⟨rfl, rfl⟩

/-- the reported error of the generated parser, if the parse fails -/
def reported (env : Env) (fuel : Nat) (rule : String) (inp : List UInt8) : Option PErr :=
  match parseAdvanced env fuel rule inp 0 with
  | some (.err e, _) => some e
  | _ => none

/-- input "ax": `'b'` and `'c'` fail at 1, then the lookahead `!'x'` fails at 1 (its body matched:
    no inner attempt).  Three attempts at the furthest offset; the last one is reported. -/
example :
    (Att.parse exEnv 0 20 "S" [97, 120]).map (·.2) =
      some [⟨1, .expectedCharacter 'b'⟩, ⟨1, .expectedCharacter 'c'⟩, ⟨1, .negativeLookaheadFailed⟩] ∧
    reported exEnv 20 "S" [97, 120] = some ⟨1, .negativeLookaheadFailed⟩ := by decide

/-- input "ae": the body `'x'` of the lookahead fails at 1 (so the lookahead matches) – that attempt
    is *not* listed; `'d'` then fails at 1 and is reported. -/
example :
    (Att.parse exEnv 0 20 "S" [97, 101]).map (·.2) =
      some [⟨1, .expectedCharacter 'b'⟩, ⟨1, .expectedCharacter 'c'⟩, ⟨1, .expectedCharacter 'd'⟩] ∧
    reported exEnv 20 "S" [97, 101] = some ⟨1, .expectedCharacter 'd'⟩ := by decide

/-- input "b": both alternatives fail on `'a'` at 0 -/
example :
    (Att.parse exEnv 0 20 "S" [98]).map (·.2) =
      some [⟨0, .expectedCharacter 'a'⟩, ⟨0, .expectedCharacter 'a'⟩] ∧
    reported exEnv 20 "S" [98] = some ⟨0, .expectedCharacter 'a'⟩ := by decide

/-! ### `NoMemoG` cannot be dropped from `C10_furthest`

  `@export S = (A 'x' 'z')? A 'y';  A = 'a';` on "axw".  Unmemoized: inside the optional `'z'` fails
  at 2 (the optional folds that error into its entry state), then `'y'` fails at 1; the furthest
  attempt `⟨2, 'z'⟩` is reported.  With `@memoize A` the second `A` is a cache hit, and the cached
  `ParseOk` carries the *state of the first call* including its `farthest_error` (`none`): the
  recorded `⟨2, 'z'⟩` is forgotten and the parser reports `⟨1, 'y'⟩` – a failed attempt of the parse,
  but not the furthest one. -/

def ruleA (ds : List Directive) : Rule := ⟨ds, "A", .choice [.seq [lit 'a']]⟩

def ruleS2 : Rule := ⟨[.export], "S",
  .choice [.seq [.opt (.choice [.seq [.field none false "A", lit 'x', lit 'z']]),
                 .field none false "A", lit 'y']]⟩

def env2 (ds : List Directive) : Env :=
  { g := ⟨[.rule ruleS2, .rule (ruleA ds)]⟩, settings := {}, hooks := default, nf := 10 }

example :
    (Att.parse (env2 []) 0 20 "S" [97, 120, 119]).map (·.2) =
      some [⟨2, .expectedCharacter 'z'⟩, ⟨1, .expectedCharacter 'y'⟩] ∧
    reported (env2 []) 20 "S" [97, 120, 119] = some ⟨2, .expectedCharacter 'z'⟩ ∧
    reported (env2 [.memoize]) 20 "S" [97, 120, 119] = some ⟨1, .expectedCharacter 'y'⟩ := by decide

/-! ### … nor from `C10_is_attempt` (counted attempts)

  `@export S = !(B? A) 'q' | A 'y';  A = 'a';  B = 'a' 'b' 'c';` on "abx".  Inside the negative
  lookahead `B` fails at 2; the optional folds `⟨2, 'c'⟩` into the state `A` is then called with.
  Unmemoized the lookahead discards all of that: the counted attempts are `⟨0, !⟩` and `⟨1, 'y'⟩`.
  With `@memoize A` the cached `ParseOk` of `A` keeps `farthest_error = ⟨2, 'c'⟩`; the cache hit in the
  second alternative brings it back and the parser reports `⟨2, 'c'⟩` – a match attempt that did fail
  during the parse, but inside a lookahead that matched as a whole, i.e. not a counted attempt.
  (So for memoized grammars only "some raw attempt" can hold; stating that needs a log of raw
  attempts, which neither `eval` nor `Att.eval` keeps.) -/

def ruleB : Rule := ⟨[], "B", .choice [.seq [lit 'a', lit 'b', lit 'c']]⟩

def ruleS3 : Rule := ⟨[.export], "S",
  .choice [.seq [.neg (.group (.choice [.seq [.opt (.choice [.seq [.field none false "B"]]),
                                              .field none false "A"]])), lit 'q'],
           .seq [.field none false "A", lit 'y']]⟩

def env3 (ds : List Directive) : Env :=
  { g := ⟨[.rule ruleS3, .rule (ruleA ds), .rule ruleB]⟩, settings := {}, hooks := default, nf := 10 }

example :
    (Att.parse (env3 []) 0 20 "S" [97, 98, 120]).map (·.2) =
      some [⟨0, .negativeLookaheadFailed⟩, ⟨1, .expectedCharacter 'y'⟩] ∧
    reported (env3 []) 20 "S" [97, 98, 120] = some ⟨1, .expectedCharacter 'y'⟩ ∧
    reported (env3 [.memoize]) 20 "S" [97, 98, 120] = some ⟨2, .expectedCharacter 'c'⟩ := by decide

end AttExample

end Peg
