import PegVerif.Compile
import PegVerif.Proofs.Arity
import PegVerif.Proofs.DeclProofs
/-
  Property C15: every documented restriction of the grammar language is rejected by the model of
  the generator's decisions (`Compile.errors` / `Compile.accepts`).

  Totality remark: `Compile.errors` is a total function (it is a plain Lean `def` without
  `partial`; every traversal – `exprErrors`, `includesOf`, `reachesIncl`, `getFields` – is
  structurally recursive on a fuel argument), and the include recursion is bounded by that fuel:
  `reachesIncl` follows at most `g.rules.length + 1` include hops, `exprErrors`/`getFields` spend one
  unit of fuel per AST level or include hop.  So "the generator terminates with a verdict" holds of
  the model for every grammar, including cyclic ones.

  Every rejection theorem below holds *regardless of the include-cycle branch* of `errors`: if the
  grammar has an include cycle the error list is non-empty anyway.
-/
namespace Peg
open Compile

/-! ### `accepts` versus `errors` -/

/-- `Compile.errors` is a total function; the include recursion is bounded by fuel. -/
theorem accepts_iff (g : Grammar) (st : Settings) (fuel : Nat) :
    accepts g st fuel = true ↔ errors g st fuel = [] := by
  unfold accepts
  exact List.isEmpty_iff

theorem accepts_false_iff (g : Grammar) (st : Settings) (fuel : Nat) :
    accepts g st fuel = false ↔ errors g st fuel ≠ [] := by
  have := accepts_iff g st fuel
  cases hacc : accepts g st fuel
  · simp only [true_iff]
    intro h0
    rw [this.2 h0] at hacc
    cases hacc
  · simp only [Bool.true_eq_false, false_iff, ne_eq, Classical.not_not]
    exact this.1 hacc

theorem accepts_false_of_mem {g : Grammar} {st : Settings} {fuel : Nat} {m : String}
    (h : m ∈ errors g st fuel) : accepts g st fuel = false := by
  rw [accepts_false_iff]
  intro h0
  rw [h0] at h
  cases h

/-! ### decomposition of `ruleErrors` into its six groups -/

def nameErrs (r : Rule) : List String := nameErr r.name

def fieldErrs (g : Grammar) (fuel : Nat) (r : Rule) : List String :=
  match getFields g fuel r.definition with | .err m => [m] | .fuel => ["fuel"] | .ok _ => []

def flagErrs (st : Settings) (r : Rule) : List String :=
  (if r.flags.exported && r.flags.string then ["@string rules cannot be @export-ed"] else []) ++
  (if r.name == "Whitespace" && !r.flags.noSkipWs then
    ["The 'Whitespace' rule (and all called rules) must be @no_skip_ws to prevent recursion"] else []) ++
  (if (r.flags.memoize || r.flags.leftRecursive) && !st.derives.contains "Clone" then
    ["@memoize and @leftrec can only be used if 'Clone' is in the derives set"] else [])

def kindErrs (g : Grammar) (fuel : Nat) (r : Rule) : List String :=
  match getFields g fuel r.definition with
  | .ok fields =>
    if r.flags.string then []
    else if fields.length == 1 && (fields.head?.map (·.name)) == some "_override" then
      match fields.head? with
      | some f =>
        if f.types.length ≤ 1 then
          (if r.flags.exported then ["Simply overridden (containing '@:') rules cannot be @export-ed. Try the > operator instead."] else []) ++
          (if r.flags.position then ["Simply overridden (containing '@:') rules cannot contain @position. Try the > operator instead."] else [])
        else if f.arity != .one then
          ["Enum '@:' fields have to be used exactly once in all choice branches, and must not be used in closures or optional parts."]
        else []
      | none => []
    else if hasField fields "_override" then ["Mixing simple and override fields is not allowed."]
    else []
  | _ => []

theorem nameErr_of_not_identOk {n : String} (h : identOk n = false) :
    ("'" ++ n ++ "' cannot be used as a Rust identifier") ∈ nameErr n := by
  simp [nameErr, h]

theorem nameErr_crate : ("'crate' cannot be used as a rule or field name") ∈ nameErr "crate" := by decide

theorem ruleErrors_eq (g : Grammar) (st : Settings) (fuel : Nat) (r : Rule) :
    ruleErrors g st fuel r =
      nameErrs r ++ fieldErrs g fuel r ++ flagErrs st r ++ exprErrors g fuel r.definition ++
        kindErrs g fuel r ++ r.checks.flatMap pathErrors := rfl

theorem mem_ruleErrors {g : Grammar} {st : Settings} {fuel : Nat} {r : Rule} {m : String} :
    m ∈ ruleErrors g st fuel r ↔
      m ∈ nameErrs r ∨ m ∈ fieldErrs g fuel r ∨ m ∈ flagErrs st r ∨ m ∈ exprErrors g fuel r.definition ∨
        m ∈ kindErrs g fuel r ∨ m ∈ r.checks.flatMap pathErrors := by
  rw [ruleErrors_eq]
  simp only [List.mem_append, or_assoc]

/-- if there is no include cycle and the grammar is accepted, every entry is free of errors -/
theorem entry_errors_nil {g : Grammar} {st : Settings} {fuel : Nat} (h : errors g st fuel = []) :
    ∀ e ∈ g.rules, (match e with
      | .rule r => ruleErrors g st fuel r
      | .charRule r => charRuleErrors r
      | .externRule r => externRuleErrors r) = [] := by
  unfold errors at h
  split at h
  · simp at h
  · intro e he
    have h2 := List.flatMap_eq_nil_iff.1 (List.append_eq_nil_iff.1 h).2 e he
    cases e <;> exact h2

/-- an error of any normal rule is an error of the grammar, *whether or not there is an include cycle* -/
theorem accepts_false_of_ruleError {g : Grammar} {st : Settings} {fuel : Nat} {r : Rule} {m : String}
    (hr : RuleEntry.rule r ∈ g.rules) (hm : m ∈ ruleErrors g st fuel r) : accepts g st fuel = false := by
  rw [accepts_false_iff]
  intro h
  have h2 : ruleErrors g st fuel r = [] := entry_errors_nil h _ hr
  rw [h2] at hm
  cases hm

theorem accepts_false_of_charRuleError {g : Grammar} {st : Settings} {fuel : Nat} {r : CharRule} {m : String}
    (hr : RuleEntry.charRule r ∈ g.rules) (hm : m ∈ charRuleErrors r) : accepts g st fuel = false := by
  rw [accepts_false_iff]
  intro h
  have h2 : charRuleErrors r = [] := entry_errors_nil h _ hr
  rw [h2] at hm
  cases hm

theorem accepts_false_of_externRuleError {g : Grammar} {st : Settings} {fuel : Nat} {r : ExternRule} {m : String}
    (hr : RuleEntry.externRule r ∈ g.rules) (hm : m ∈ externRuleErrors r) : accepts g st fuel = false := by
  rw [accepts_false_iff]
  intro h
  have h2 : externRuleErrors r = [] := entry_errors_nil h _ hr
  rw [h2] at hm
  cases hm

/-! ### 1–3: flag restrictions -/

/-- 1. `@string` together with `@export` is rejected -/
theorem reject_string_export {g : Grammar} {st : Settings} {fuel : Nat} {r : Rule}
    (hr : RuleEntry.rule r ∈ g.rules) (h : r.flags.exported = true ∧ r.flags.string = true) :
    accepts g st fuel = false := by
  refine accepts_false_of_ruleError (m := "@string rules cannot be @export-ed") hr ?_
  refine mem_ruleErrors.2 (Or.inr (Or.inr (Or.inl ?_)))
  simp [flagErrs, h.1, h.2]

/-- 2. a `Whitespace` rule that skips whitespace is rejected -/
theorem reject_skipping_whitespace_rule {g : Grammar} {st : Settings} {fuel : Nat} {r : Rule}
    (hr : RuleEntry.rule r ∈ g.rules) (h : r.name = "Whitespace" ∧ r.flags.noSkipWs = false) :
    accepts g st fuel = false := by
  refine accepts_false_of_ruleError
    (m := "The 'Whitespace' rule (and all called rules) must be @no_skip_ws to prevent recursion") hr ?_
  refine mem_ruleErrors.2 (Or.inr (Or.inr (Or.inl ?_)))
  simp [flagErrs, h.1, h.2]

/-- 3. `@memoize` without `Clone` in the derives is rejected -/
theorem reject_memoize_without_clone {g : Grammar} {st : Settings} {fuel : Nat} {r : Rule}
    (hr : RuleEntry.rule r ∈ g.rules) (h : r.flags.memoize = true ∧ "Clone" ∉ st.derives) :
    accepts g st fuel = false := by
  refine accepts_false_of_ruleError
    (m := "@memoize and @leftrec can only be used if 'Clone' is in the derives set") hr ?_
  refine mem_ruleErrors.2 (Or.inr (Or.inr (Or.inl ?_)))
  simp [flagErrs, h.1, h.2]

/-- 3b. the same for `@leftrec` (its results are cloned out of the cache too; fix F11) -/
theorem reject_leftrec_without_clone {g : Grammar} {st : Settings} {fuel : Nat} {r : Rule}
    (hr : RuleEntry.rule r ∈ g.rules) (h : r.flags.leftRecursive = true ∧ "Clone" ∉ st.derives) :
    accepts g st fuel = false := by
  refine accepts_false_of_ruleError
    (m := "@memoize and @leftrec can only be used if 'Clone' is in the derives set") hr ?_
  refine mem_ruleErrors.2 (Or.inr (Or.inr (Or.inl ?_)))
  simp [flagErrs, h.1, h.2]

/-! ### 4: errors of the field analysis -/

/-- 4. any error of `getFields` on the body (fields inside lookaheads, include of a missing /
    `@char` / `@extern` rule) rejects the grammar -/
theorem reject_getFields_err {g : Grammar} {st : Settings} {fuel : Nat} {r : Rule} {m : String}
    (hr : RuleEntry.rule r ∈ g.rules) (h : getFields g fuel r.definition = .err m) :
    accepts g st fuel = false := by
  refine accepts_false_of_ruleError (m := m) hr ?_
  refine mem_ruleErrors.2 (Or.inr (Or.inl ?_))
  simp [fieldErrs, h]

/-- running out of analysis fuel is a rejection too (never a silent acceptance) -/
theorem reject_getFields_fuel {g : Grammar} {st : Settings} {fuel : Nat} {r : Rule}
    (hr : RuleEntry.rule r ∈ g.rules) (h : getFields g fuel r.definition = .fuel) :
    accepts g st fuel = false := by
  refine accepts_false_of_ruleError (m := "fuel") hr ?_
  refine mem_ruleErrors.2 (Or.inr (Or.inl ?_))
  simp [fieldErrs, h]

/-- fields inside a negative lookahead -/
theorem getFields_neg_err {g : Grammar} {n : Nat} {b : Expr} {f : FieldDesc} {fs : List FieldDesc}
    (h : getFields g n b = .ok (f :: fs)) :
    getFields g (n+1) (.neg b) = .err "The body of negative lookaheads should not contain named fields" := by
  simp only [getFields, h]

/-- fields inside a positive lookahead -/
theorem getFields_pos_err {g : Grammar} {n : Nat} {b : Expr} {f : FieldDesc} {fs : List FieldDesc}
    (h : getFields g n b = .ok (f :: fs)) :
    getFields g (n+1) (.pos b) = .err "The body of positive lookaheads should not contain named fields" := by
  simp only [getFields, h]

/-- include of a rule that is not a normal rule of the grammar -/
theorem getFields_incl_err {g : Grammar} {n : Nat} {name : String} (h : g.findRule name = none) :
    getFields g (n+1) (.incl name) =
      .err s!"Could not find normal (not char or extern) rule named {name}" := by
  simp only [getFields, h]

theorem getFields_incl_err' {g : Grammar} {n : Nat} {name : String} (h : g.findRule name = none) :
    ∃ m, getFields g (n+1) (.incl name) = .err m := ⟨_, getFields_incl_err h⟩

/-- `@char` and `@extern` rules are invisible to includes: if no *normal* rule is called `name`
    (the only entries with that name, if any, are `@char`/`@extern` rules), the lookup fails -/
theorem findRule_none_of_no_normal {g : Grammar} {name : String}
    (h : ∀ r', RuleEntry.rule r' ∈ g.rules → r'.name ≠ name) : g.findRule name = none := by
  unfold Grammar.findRule
  rw [List.findSome?_eq_none_iff]
  intro e he
  cases e with
  | rule r' =>
    have := h r' he
    simp [this]
  | charRule _ => rfl
  | externRule _ => rfl

/-- and conversely -/
theorem findRule_none_iff {g : Grammar} {name : String} :
    g.findRule name = none ↔ ∀ r', RuleEntry.rule r' ∈ g.rules → r'.name ≠ name := by
  refine ⟨fun h r' hr' hn => ?_, findRule_none_of_no_normal⟩
  unfold Grammar.findRule at h
  rw [List.findSome?_eq_none_iff] at h
  have := h _ hr'
  simp [hn] at this

/-! ### 5: restrictions on override rules -/

section override
variable {g : Grammar} {st : Settings} {fuel : Nat} {r : Rule} {f : FieldDesc}

theorem kindErrs_override (hf : getFields g fuel r.definition = .ok [f]) (hn : f.name = "_override")
    (hs : r.flags.string = false) :
    kindErrs g fuel r =
      if f.types.length ≤ 1 then
        (if r.flags.exported then ["Simply overridden (containing '@:') rules cannot be @export-ed. Try the > operator instead."] else []) ++
        (if r.flags.position then ["Simply overridden (containing '@:') rules cannot contain @position. Try the > operator instead."] else [])
      else if f.arity != .one then
        ["Enum '@:' fields have to be used exactly once in all choice branches, and must not be used in closures or optional parts."]
      else [] := by
  simp [kindErrs, hf, hn, hs]

/-- 5a. a simple override rule cannot be `@export`-ed -/
theorem reject_override_export (hr : RuleEntry.rule r ∈ g.rules)
    (hf : getFields g fuel r.definition = .ok [f]) (hn : f.name = "_override") (hs : r.flags.string = false)
    (h : f.types.length ≤ 1 ∧ r.flags.exported = true) : accepts g st fuel = false := by
  refine accepts_false_of_ruleError
    (m := "Simply overridden (containing '@:') rules cannot be @export-ed. Try the > operator instead.") hr ?_
  refine mem_ruleErrors.2 (Or.inr (Or.inr (Or.inr (Or.inr (Or.inl ?_)))))
  rw [kindErrs_override hf hn hs]
  simp [h.1, h.2]

/-- 5b. a simple override rule cannot have `@position` -/
theorem reject_override_position (hr : RuleEntry.rule r ∈ g.rules)
    (hf : getFields g fuel r.definition = .ok [f]) (hn : f.name = "_override") (hs : r.flags.string = false)
    (h : f.types.length ≤ 1 ∧ r.flags.position = true) : accepts g st fuel = false := by
  refine accepts_false_of_ruleError
    (m := "Simply overridden (containing '@:') rules cannot contain @position. Try the > operator instead.") hr ?_
  refine mem_ruleErrors.2 (Or.inr (Or.inr (Or.inr (Or.inr (Or.inl ?_)))))
  rw [kindErrs_override hf hn hs]
  simp [h.1, h.2]

/-- 5c. a multi-type `@:` inside an optional / closure, or missing from an alternative -/
theorem reject_enum_override_arity (hr : RuleEntry.rule r ∈ g.rules)
    (hf : getFields g fuel r.definition = .ok [f]) (hn : f.name = "_override") (hs : r.flags.string = false)
    (h : f.types.length > 1 ∧ f.arity ≠ .one) : accepts g st fuel = false := by
  refine accepts_false_of_ruleError
    (m := "Enum '@:' fields have to be used exactly once in all choice branches, and must not be used in closures or optional parts.") hr ?_
  refine mem_ruleErrors.2 (Or.inr (Or.inr (Or.inr (Or.inr (Or.inl ?_)))))
  rw [kindErrs_override hf hn hs]
  have h1 : ¬ f.types.length ≤ 1 := by omega
  simp [h1, h.2]

/-- 6. mixing `@:` with named fields -/
theorem reject_mixing {fields : List FieldDesc} (hr : RuleEntry.rule r ∈ g.rules)
    (hf : getFields g fuel r.definition = .ok fields) (ho : hasField fields "_override" = true)
    (hs : r.flags.string = false)
    (hm : ¬ ((fields.length == 1 && fields.head?.map (·.name) == some "_override") = true)) :
    accepts g st fuel = false := by
  refine accepts_false_of_ruleError (m := "Mixing simple and override fields is not allowed.") hr ?_
  refine mem_ruleErrors.2 (Or.inr (Or.inr (Or.inr (Or.inr (Or.inl ?_)))))
  simp only [kindErrs, hf, hs, Bool.false_eq_true, if_false, if_neg hm, ho, if_true]
  exact List.mem_singleton.2 rfl

end override

/-! ### 7: literal problems anywhere in the body -/

/-- 7. any error collected by `exprErrors` on the body rejects the grammar -/
theorem reject_exprError {g : Grammar} {st : Settings} {fuel : Nat} {r : Rule} {m : String}
    (hr : RuleEntry.rule r ∈ g.rules) (h : m ∈ exprErrors g fuel r.definition) :
    accepts g st fuel = false :=
  accepts_false_of_ruleError hr (mem_ruleErrors.2 (Or.inr (Or.inr (Or.inr (Or.inl h)))))

/-- a case-insensitive literal with a non-ASCII character is not compiled (shape of `C04_guard`) -/
theorem compileLit_insensitive_nonascii (items : List StringItem) (lit : List Char)
    (h : decodeLit items = .ok lit) (hna : lit.all isAscii = false) :
    compileLit true items = .err "Case insensitive matching only works for ascii strings." := by
  unfold compileLit
  simp [h, hna]

/-- an escape that does not decode makes the whole literal fail -/
theorem decodeLit_err_of_mem {items : List StringItem} {it : StringItem} {m : String}
    (hit : it ∈ items) (h : it.toChar = .err m) : ∃ m', decodeLit items = .err m' ∨ decodeLit items = .fuel := by
  unfold decodeLit
  induction items with
  | nil => cases hit
  | cons a as ih =>
    simp only [mapMCR]
    cases ha : StringItem.toChar a with
    | err m1 => exact ⟨m1, Or.inl rfl⟩
    | fuel => exact ⟨"", Or.inr rfl⟩
    | ok c =>
      rcases List.mem_cons.1 hit with rfl | hmem
      · rw [h] at ha; cases ha
      · obtain ⟨m', hm'⟩ := ih hmem
        rcases hm' with hm' | hm'
        · exact ⟨m', Or.inl (by simp only [hm'])⟩
        · exact ⟨m', Or.inr (by simp only [hm'])⟩

/-- `StringItem.toChar` never runs out of fuel (it has none) -/
theorem toChar_ne_fuel (it : StringItem) : it.toChar ≠ .fuel := by
  cases it with
  | hexa c1 c2 =>
    simp only [StringItem.toChar]
    split <;> simp
  | simple e => simp [StringItem.toChar]
  | utf8 ds =>
    simp only [StringItem.toChar]
    split
    · simp
    · split <;> simp
  | chr c => simp [StringItem.toChar]

theorem decodeLit_ne_fuel (items : List StringItem) : decodeLit items ≠ .fuel := by
  unfold decodeLit
  induction items with
  | nil => simp [mapMCR]
  | cons a as ih =>
    simp only [mapMCR]
    cases ha : StringItem.toChar a with
    | err m1 => simp
    | fuel => exact absurd ha (toChar_ne_fuel a)
    | ok c =>
      cases hb : mapMCR StringItem.toChar as with
      | err m1 => simp
      | fuel => exact absurd hb ih
      | ok bs => simp

/-- an escape that does not decode makes the compilation of the literal fail -/
theorem compileLit_err_of_mem {ins : Bool} {items : List StringItem} {it : StringItem} {m : String}
    (hit : it ∈ items) (h : it.toChar = .err m) : ∃ m', compileLit ins items = .err m' := by
  obtain ⟨m', hm'⟩ := decodeLit_err_of_mem hit h
  rcases hm' with hm' | hm'
  · exact ⟨m', by simp only [compileLit, hm']⟩
  · exact absurd hm' (decodeLit_ne_fuel items)

/-- an invalid code point in a `\u{…}` escape is an error -/
theorem toChar_utf8_invalid {ds : List Char} {n : Nat} (h : hexFold ds 0 = some n)
    (hc : charFromU32 n = none) : StringItem.toChar (.utf8 ds) = .err "Invalid utf-8 codepoint" := by
  simp only [StringItem.toChar, h, hc]

/-- surrogate D800 -/
example : StringItem.toChar (.utf8 ['D', '8', '0', '0']) = .err "Invalid utf-8 codepoint" :=
  toChar_utf8_invalid (n := 0xD800) (by decide) (by decide)
/-- beyond 10FFFF -/
example : StringItem.toChar (.utf8 ['1', '1', '0', '0', '0', '0']) = .err "Invalid utf-8 codepoint" :=
  toChar_utf8_invalid (n := 0x110000) (by decide) (by decide)
example : hexFold ['D', '8', '0', '0'] 0 = some 0xD800 ∧ charFromU32 0xD800 = none := by decide
example : hexFold ['1', '1', '0', '0', '0', '0'] 0 = some 0x110000 ∧ charFromU32 0x110000 = none := by decide
/-- a valid one for contrast -/
example : StringItem.toChar (.utf8 ['E', '9']) = .ok 'é' := by
  have h : hexFold ['E', '9'] 0 = some 0xE9 := by decide
  have h2 : charFromU32 0xE9 = some 'é' := by decide
  simp only [StringItem.toChar, h, h2]

/-! how a local problem reaches the `exprErrors` of the body -/

theorem exprErrors_lit {g : Grammar} {n : Nat} {ins : Bool} {items : List StringItem} {m : String}
    (h : compileLit ins items = .err m) : m ∈ exprErrors g (n+1) (.lit ins items) := by
  simp [exprErrors, h]

theorem exprErrors_range_lo {g : Grammar} {n : Nat} {lo hi : StringItem} {m : String}
    (h : lo.toChar = .err m) : m ∈ exprErrors g (n+1) (.range lo hi) := by
  simp [exprErrors, h]

theorem exprErrors_range_hi {g : Grammar} {n : Nat} {lo hi : StringItem} {m : String}
    (h : hi.toChar = .err m) : m ∈ exprErrors g (n+1) (.range lo hi) := by
  simp only [exprErrors, h, List.mem_append]
  exact Or.inr (List.mem_singleton.2 rfl)

theorem exprErrors_field_type {g : Grammar} {n : Nat} {name : Option FieldName} {boxed : Bool} {typ : String}
    (h : identOk typ = false) :
    ("'" ++ typ ++ "' cannot be used as a Rust identifier") ∈ exprErrors g (n+1) (.field name boxed typ) := by
  simp only [exprErrors, List.mem_append]
  exact Or.inl (nameErr_of_not_identOk h)

theorem exprErrors_field_name {g : Grammar} {n : Nat} {f : String} {boxed : Bool} {typ : String}
    (h : identOk f = false) :
    ("'" ++ f ++ "' cannot be used as a Rust identifier") ∈
      exprErrors g (n+1) (.field (some (.ident f)) boxed typ) := by
  simp only [exprErrors, List.mem_append]
  exact Or.inr (nameErr_of_not_identOk h)

theorem exprErrors_incl_missing {g : Grammar} {n : Nat} {name : String} (h : g.findRule name = none) :
    ("Could not find normal (not char or extern) rule named " ++ name) ∈ exprErrors g (n+1) (.incl name) := by
  simp [exprErrors, h]

/-- direct sub-expressions (an include counts: the body of the included rule is generated in place) -/
inductive Child (g : Grammar) : Expr → Expr → Prop
  | choice {xs x} : x ∈ xs → Child g x (.choice xs)
  | seq {xs x} : x ∈ xs → Child g x (.seq xs)
  | group {b} : Child g b (.group b)
  | opt {b} : Child g b (.opt b)
  | closure {b al} : Child g b (.closure b al)
  | neg {b} : Child g b (.neg b)
  | pos {b} : Child g b (.pos b)
  | incl {name rule} : g.findRule name = some rule → Child g rule.definition (.incl name)

theorem exprErrors_child {g : Grammar} {n : Nat} {c e : Expr} {m : String} (hc : Child g c e)
    (h : m ∈ exprErrors g n c) : m ∈ exprErrors g (n+1) e := by
  cases hc with
  | choice hx => simp only [exprErrors]; exact List.mem_flatMap.2 ⟨_, hx, h⟩
  | seq hx => simp only [exprErrors]; exact List.mem_flatMap.2 ⟨_, hx, h⟩
  | group => simpa only [exprErrors] using h
  | opt => simpa only [exprErrors] using h
  | closure => simpa only [exprErrors] using h
  | neg => simpa only [exprErrors] using h
  | pos => simpa only [exprErrors] using h
  | incl hf => simpa only [exprErrors, hf] using h

/-- `c` occurs in `e` at depth `d` (through sub-expressions and includes) -/
inductive OccursAt (g : Grammar) (c : Expr) : Nat → Expr → Prop
  | here : OccursAt g c 0 c
  | step {d e' e} : OccursAt g c d e' → Child g e' e → OccursAt g c (d+1) e

/-- a problem found with fuel `n` in an expression occurring at depth `d` of the body is found in
    the body with fuel `n + d` -/
theorem exprErrors_occurs {g : Grammar} {d n : Nat} {c e : Expr} {m : String} (ho : OccursAt g c d e)
    (h : m ∈ exprErrors g n c) : m ∈ exprErrors g (n + d) e := by
  induction ho with
  | here => exact h
  | step _ hch ih => exact exprErrors_child hch ih

/-- 7'. a literal problem *anywhere* in the body (at depth `d`, the analysis fuel being exactly
    enough: `fuel = n + d`) rejects the grammar -/
theorem reject_problem_anywhere {g : Grammar} {st : Settings} {d n : Nat} {r : Rule} {c : Expr} {m : String}
    (hr : RuleEntry.rule r ∈ g.rules) (ho : OccursAt g c d r.definition) (h : m ∈ exprErrors g n c) :
    accepts g st (n + d) = false :=
  reject_exprError hr (exprErrors_occurs ho h)

/-- more fuel never loses an error -/
theorem exprErrors_mono {g : Grammar} : ∀ {n : Nat} {e : Expr} {m : String},
    m ∈ exprErrors g n e → m ∈ exprErrors g (n+1) e := by
  intro n
  induction n with
  | zero => intro e m h; simp [exprErrors] at h
  | succ n ih =>
    intro e m h
    cases e with
    | choice xs =>
      simp only [exprErrors] at h
      obtain ⟨x, hx, hm⟩ := List.mem_flatMap.1 h
      exact exprErrors_child (.choice hx) (ih hm)
    | seq xs =>
      simp only [exprErrors] at h
      obtain ⟨x, hx, hm⟩ := List.mem_flatMap.1 h
      exact exprErrors_child (.seq hx) (ih hm)
    | group b => simp only [exprErrors] at h; exact exprErrors_child .group (ih h)
    | opt b => simp only [exprErrors] at h; exact exprErrors_child .opt (ih h)
    | closure b al => simp only [exprErrors] at h; exact exprErrors_child .closure (ih h)
    | neg b => simp only [exprErrors] at h; exact exprErrors_child .neg (ih h)
    | pos b => simp only [exprErrors] at h; exact exprErrors_child .pos (ih h)
    | range lo hi => simpa only [exprErrors] using h
    | lit ins body => simpa only [exprErrors] using h
    | eoi => simp [exprErrors] at h
    | incl name =>
      simp only [exprErrors] at h
      cases hf : g.findRule name with
      | none => simpa only [exprErrors, hf] using h
      | some rule =>
        simp only [hf] at h
        exact exprErrors_child (.incl hf) (ih h)
    | field name boxed typ => simpa only [exprErrors] using h

theorem exprErrors_mono_le {g : Grammar} {n k : Nat} {e : Expr} {m : String} (hk : n ≤ k)
    (h : m ∈ exprErrors g n e) : m ∈ exprErrors g k e := by
  induction hk with
  | refl => exact h
  | step _ ih => exact exprErrors_mono ih

/-- 7''. … with any larger fuel -/
theorem reject_problem_anywhere_le {g : Grammar} {st : Settings} {d n fuel : Nat} {r : Rule} {c : Expr}
    {m : String} (hr : RuleEntry.rule r ∈ g.rules) (ho : OccursAt g c d r.definition)
    (h : m ∈ exprErrors g n c) (hfuel : n + d ≤ fuel) : accepts g st fuel = false :=
  reject_exprError hr (exprErrors_mono_le hfuel (exprErrors_occurs ho h))

/-! ### 8: identifiers -/

/-- 8a. a rule whose name is not a usable Rust identifier -/
theorem reject_bad_rule_name {g : Grammar} {st : Settings} {fuel : Nat} {r : Rule}
    (hr : RuleEntry.rule r ∈ g.rules) (h : identOk r.name = false) : accepts g st fuel = false := by
  refine accepts_false_of_ruleError (m := "'" ++ r.name ++ "' cannot be used as a Rust identifier") hr ?_
  refine mem_ruleErrors.2 (Or.inl ?_)
  exact nameErr_of_not_identOk h

theorem mem_pathErrors {p : List String} {part : String} (hp : part ∈ p) (h : identOk part = false) :
    ("'" ++ part ++ "' cannot be used as a Rust identifier") ∈ pathErrors p := by
  unfold pathErrors
  rw [List.mem_filterMap]
  exact ⟨part, hp, by simp [h]⟩

/-- 8b. a `@check` path with a bad part -/
theorem reject_bad_check_path {g : Grammar} {st : Settings} {fuel : Nat} {r : Rule} {p : List String}
    {part : String} (hr : RuleEntry.rule r ∈ g.rules) (hp : p ∈ r.checks) (hpart : part ∈ p)
    (h : identOk part = false) : accepts g st fuel = false := by
  refine accepts_false_of_ruleError (m := "'" ++ part ++ "' cannot be used as a Rust identifier") hr ?_
  refine mem_ruleErrors.2 (Or.inr (Or.inr (Or.inr (Or.inr (Or.inr ?_)))))
  exact List.mem_flatMap.2 ⟨p, hp, mem_pathErrors hpart h⟩

/-- the checks of a rule are exactly its `@check` directives -/
theorem mem_checks_iff {r : Rule} {p : List String} : p ∈ r.checks ↔ Directive.check p ∈ r.directives := by
  unfold Rule.checks
  rw [List.mem_filterMap]
  constructor
  · rintro ⟨d, hd, hdp⟩
    cases d <;> simp at hdp
    subst hdp; exact hd
  · intro h; exact ⟨_, h, rfl⟩

/-- 8c. a bad derive -/
theorem reject_bad_derive {g : Grammar} {st : Settings} {fuel : Nat} {d : String}
    (hd : d ∈ st.derives) (h : identOk d = false) : accepts g st fuel = false := by
  refine accepts_false_of_mem (m := "'" ++ d ++ "' cannot be used as a Rust identifier") ?_
  unfold errors
  exact List.mem_append_left _ (mem_pathErrors hd h)

/-- 8d. a bad field type or field name anywhere in the body goes through `reject_exprError` /
    `reject_problem_anywhere` with `exprErrors_field_type` / `exprErrors_field_name`; directly in the body: -/
theorem reject_bad_field_type {g : Grammar} {st : Settings} {n : Nat} {r : Rule} {name : Option FieldName}
    {boxed : Bool} {typ : String} (hr : RuleEntry.rule r ∈ g.rules)
    (hd : r.definition = .field name boxed typ) (h : identOk typ = false) : accepts g st (n+1) = false :=
  reject_exprError hr (by rw [hd]; exact exprErrors_field_type h)

/-- 8e. `@char` rule: bad name, bad check path -/
theorem reject_bad_charRule_name {g : Grammar} {st : Settings} {fuel : Nat} {r : CharRule}
    (hr : RuleEntry.charRule r ∈ g.rules) (h : identOk r.name = false) : accepts g st fuel = false := by
  refine accepts_false_of_charRuleError (m := "'" ++ r.name ++ "' cannot be used as a Rust identifier") hr ?_
  simp only [charRuleErrors, List.mem_append]
  exact Or.inl (Or.inl (nameErr_of_not_identOk h))

theorem reject_bad_charRule_check {g : Grammar} {st : Settings} {fuel : Nat} {r : CharRule} {p : List String}
    {part : String} (hr : RuleEntry.charRule r ∈ g.rules) (hp : p ∈ r.directives) (hpart : part ∈ p)
    (h : identOk part = false) : accepts g st fuel = false := by
  refine accepts_false_of_charRuleError (m := "'" ++ part ++ "' cannot be used as a Rust identifier") hr ?_
  unfold charRuleErrors
  exact List.mem_append_left _ (List.mem_append_right _ (List.mem_flatMap.2 ⟨p, hp, mem_pathErrors hpart h⟩))

/-- an undecodable escape in a `@char` rule -/
theorem reject_bad_charRule_item {g : Grammar} {st : Settings} {fuel : Nat} {r : CharRule} {it : StringItem}
    {m : String} (hr : RuleEntry.charRule r ∈ g.rules) (hp : CharRulePart.chr it ∈ r.choices)
    (h : it.toChar = .err m) : accepts g st fuel = false := by
  refine accepts_false_of_charRuleError (m := m) hr ?_
  unfold charRuleErrors
  refine List.mem_append_right _ (List.mem_flatMap.2 ⟨_, hp, ?_⟩)
  simp [h]

/-- 8f. `@extern` rule: bad name, bad function path, bad return type path -/
theorem reject_bad_externRule_name {g : Grammar} {st : Settings} {fuel : Nat} {r : ExternRule}
    (hr : RuleEntry.externRule r ∈ g.rules) (h : identOk r.name = false) : accepts g st fuel = false := by
  refine accepts_false_of_externRuleError (m := "'" ++ r.name ++ "' cannot be used as a Rust identifier") hr ?_
  simp only [externRuleErrors, List.mem_append]
  exact Or.inl (Or.inl (nameErr_of_not_identOk h))

theorem reject_bad_externRule_function {g : Grammar} {st : Settings} {fuel : Nat} {r : ExternRule}
    {part : String} (hr : RuleEntry.externRule r ∈ g.rules) (hpart : part ∈ r.function)
    (h : identOk part = false) : accepts g st fuel = false := by
  refine accepts_false_of_externRuleError (m := "'" ++ part ++ "' cannot be used as a Rust identifier") hr ?_
  unfold externRuleErrors
  exact List.mem_append_left _ (List.mem_append_right _ (mem_pathErrors hpart h))

theorem reject_bad_externRule_returnType {g : Grammar} {st : Settings} {fuel : Nat} {r : ExternRule}
    {p : List String} {part : String} (hr : RuleEntry.externRule r ∈ g.rules) (hp : r.returnType = some p)
    (hpart : part ∈ p) (h : identOk part = false) : accepts g st fuel = false := by
  refine accepts_false_of_externRuleError (m := "'" ++ part ++ "' cannot be used as a Rust identifier") hr ?_
  unfold externRuleErrors
  refine List.mem_append_right _ ?_
  simp only [hp]
  exact mem_pathErrors hpart h

example : identOk "1a" = false := by decide
example : identOk "self" = false := by decide
example : identOk "Self" = false := by decide
example : identOk "super" = false := by decide
example : identOk "a b" = false := by decide
example : identOk "" = false := by decide
example : identOk "a-b" = false := by decide
example : identOk "_x1" = true := by decide
example : identOk "type" = true := by decide
example : identOk "crate" = true := by decide

/-- the empty name and names starting with a digit are never accepted -/
theorem identOk_nonempty {s : String} (h : identOk s = true) : s.toList ≠ [] := by
  unfold identOk at h
  split at h
  · cases h
  · rename_i heq; rw [heq]; simp

theorem identOk_not_self {s : String} (h : identOk s = true) : s ≠ "self" ∧ s ≠ "Self" ∧ s ≠ "super" := by
  unfold identOk at h
  split at h
  · cases h
  · simp only [Bool.and_eq_true, Bool.not_eq_true', Bool.or_eq_false_iff, beq_eq_false_iff_ne, ne_eq] at h
    exact ⟨h.2.1.1, h.2.1.2, h.2.2⟩

/-! ### 9: include cycles -/

/-- 9. an include cycle rejects the grammar -/
theorem reject_include_cycle {g : Grammar} {st : Settings} {fuel : Nat} (h : hasIncludeCycle g fuel = true) :
    accepts g st fuel = false := by
  refine accepts_false_of_mem (m := "includes itself (directly or through other rules)") ?_
  unfold errors
  simp [h]

/-- `A = >A;` -/
def gSelfIncl : Grammar := ⟨[.rule ⟨[], "A", .incl "A"⟩]⟩
/-- `A = >B; B = 'x' >A;` -/
def gMutualIncl : Grammar :=
  ⟨[.rule ⟨[], "A", .incl "B"⟩, .rule ⟨[], "B", .seq [.lit false [.chr 'x'], .incl "A"]⟩]⟩
/-- `A = 'y' >B; B = 'x';` -/
def gAcyclicIncl : Grammar :=
  ⟨[.rule ⟨[], "A", .seq [.lit false [.chr 'y'], .incl "B"]⟩, .rule ⟨[], "B", .lit false [.chr 'x']⟩]⟩

example : hasIncludeCycle gSelfIncl 5 = true := by decide
example : hasIncludeCycle gMutualIncl 5 = true := by decide
example : hasIncludeCycle gAcyclicIncl 5 = false := by decide
example : accepts gSelfIncl {} 5 = false := reject_include_cycle (by decide)
example : accepts gMutualIncl {} 5 = false := reject_include_cycle (by decide)
/-- the acyclic include is accepted -/
example : accepts gAcyclicIncl {} 5 = true := by decide

/-! ### non-vacuity: a valid grammar is accepted; concrete instances of the rejections -/

/-- `@export S = a:A {b:B}; A = 'a'; @string B = 'b'; @char C = 'c'; @extern(f::g -> T) E;` -/
def gValid : Grammar :=
  ⟨[.rule ⟨[.export], "S", .seq [.field (some (.ident "a")) false "A",
        .closure (.field (some (.ident "b")) false "B") false]⟩,
    .rule ⟨[], "A", .lit false [.chr 'a']⟩,
    .rule ⟨[.string], "B", .lit false [.chr 'b']⟩,
    .charRule ⟨[], "C", [.chr (.chr 'c')]⟩,
    .externRule ⟨["f", "g"], some ["T"], "E"⟩]⟩

example : accepts gValid {} 10 = true := by decide
example : errors gValid {} 10 = [] := by decide

/-- `@string @export X = 'x';` -/
example : accepts ⟨[.rule ⟨[.string, .export], "X", .lit false [.chr 'x']⟩]⟩ {} 10 = false := by decide
/-- `Whitespace = ' ';` without `@no_skip_ws` -/
example : accepts ⟨[.rule ⟨[], "Whitespace", .lit false [.chr ' ']⟩]⟩ {} 10 = false := by decide
example : accepts ⟨[.rule ⟨[.noSkipWs], "Whitespace", .lit false [.chr ' ']⟩]⟩ {} 10 = true := by decide
/-- `@memoize` with derives = [Debug] -/
example : accepts ⟨[.rule ⟨[.memoize], "X", .lit false [.chr 'x']⟩]⟩ { derives := ["Debug"] } 10 = false := by
  decide
/-- `X = !(a:X) 'x';` -/
example : accepts ⟨[.rule ⟨[], "X", .seq [.neg (.field (some (.ident "a")) false "X"), .lit false [.chr 'x']]⟩]⟩
    {} 10 = false := by decide
/-- include of a `@char` rule -/
example : accepts ⟨[.rule ⟨[], "X", .incl "C"⟩, .charRule ⟨[], "C", [.chr (.chr 'c')]⟩]⟩ {} 10 = false := by
  decide
/-- `@export X = @:A; A = 'a';` -/
example : accepts ⟨[.rule ⟨[.export], "X", .field (some .override) false "A"⟩,
    .rule ⟨[], "A", .lit false [.chr 'a']⟩]⟩ {} 10 = false := by decide
/-- `X = [@:A | @:B]; …` enum override in an optional (the type set `{A, B}` is built with `strLt`,
    which the kernel cannot evaluate directly: go through `reject_enum_override_arity`) -/
def gEnumOpt : Grammar :=
  ⟨[.rule ⟨[], "X", .opt (.choice [.field (some .override) false "A", .field (some .override) false "B"])⟩,
    .rule ⟨[], "A", .lit false [.chr 'a']⟩, .rule ⟨[], "B", .lit false [.chr 'b']⟩]⟩

example : accepts gEnumOpt {} 10 = false := by
  refine reject_enum_override_arity
    (r := ⟨[], "X", .opt (.choice [.field (some .override) false "A", .field (some .override) false "B"])⟩)
    (f := ⟨"_override", [("A", false), ("B", false)], .optional⟩) (by simp [gEnumOpt]) ?_ rfl (by decide)
    (by decide)
  simp [getFields, mapMCR, choiceFields, choiceMerge, hasField, FieldName.key, combineTypes, insertType,
    combineChoice, toOptional, strLt_B_A]
/-- `X = @:A b:A;` mixing -/
example : accepts ⟨[.rule ⟨[], "X", .seq [.field (some .override) false "A", .field (some (.ident "b")) false "A"]⟩,
    .rule ⟨[], "A", .lit false [.chr 'a']⟩]⟩ {} 10 = false := by decide
/-- `X = i'é';` -/
example : accepts ⟨[.rule ⟨[], "X", .lit true [.chr 'é']⟩]⟩ {} 10 = false := by decide
/-- `X = '\u{D800}';` -/
example : accepts ⟨[.rule ⟨[], "X", .lit false [.utf8 ['D', '8', '0', '0']]⟩]⟩ {} 10 = false := by decide

end Peg
