import PegVerif.Proofs.Refine
/-
  Non-vacuity support: reusable concrete grammars / environments and small generic lemmas that turn
  the side conditions of the property theorems (`PureHooks`, `NoLeftrec`, …)
  into Bool checks the kernel can evaluate on a concrete grammar, and Bool-valued observations of a
  run into the existential premises the property theorems take.
-/
namespace Peg.NV
open Peg

/-! ### generic helpers -/

/-- Bool form of `NoLeftrec` -/
def noLeftrecB (g : Grammar) : Bool :=
  g.rules.all fun e => match e with
    | .rule r => !r.flags.leftRecursive
    | _ => true

theorem noLeftrec_of {g : Grammar} (h : noLeftrecB g = true) : NoLeftrec g := by
  intro r hr
  have := (List.all_eq_true.mp h) _ hr
  simpa using this

/-- Bool form of `NoMemoG` -/
def noMemoB (g : Grammar) : Bool :=
  g.rules.all fun e => match e with
    | .rule r => !r.flags.memoize && !r.flags.leftRecursive
    | _ => true

/- (`NoMemoG` lives in Proofs/Attempts.lean, which cannot be imported together with Proofs/Trace.lean – both define
   `Peg.Tr` – so the lemma `noMemoB g = true → NoMemoG g` is stated where it is used, in Props/C10.lean; likewise
   `At` (Proofs/Boundary.lean) is unfolded locally in Props/C01.lean and Props/C04.lean.) -/

theorem pure_default : PureHooks (default : Hooks) := ⟨fun _ _ _ => rfl, fun _ _ _ => rfl⟩

/-- the run answered (not out of fuel): name its result and final global -/
theorem run_eq {α} {o : Out α} (h : o.isSome = true) : o = some ((o.get h).1, (o.get h).2) := by
  cases o with
  | none => cases h
  | some x => rfl

/-- a Bool observation of a successful run gives the premise `o = some (.ok v s, g)` -/
theorem ok_of {α} {o : Out α} (p : α → St → Global → Bool)
    (h : (match o with | some (.ok v s, g) => p v s g | _ => false) = true) :
    ∃ v s g, o = some (.ok v s, g) ∧ p v s g = true := by
  match o, h with
  | some (.ok v s, g), h => exact ⟨v, s, g, rfl, h⟩

/-- a Bool observation of a failed run gives the premise `o = some (.err e, g)` -/
theorem err_of {α} {o : Out α} (p : PErr → Global → Bool)
    (h : (match o with | some (.err e, g) => p e g | _ => false) = true) :
    ∃ e g, o = some (.err e, g) ∧ p e g = true := by
  match o, h with
  | some (.err e, g), h => exact ⟨e, g, rfl, h⟩

/-- the same for the reference semantics -/
theorem sok_of {α} {o : Spec.SOut α} (p : α → St → Bool)
    (h : (match o with | some (.ok v s) => p v s | _ => false) = true) :
    ∃ v s, o = some (.ok v s) ∧ p v s = true := by
  match o, h with
  | some (.ok v s), h => exact ⟨v, s, rfl, h⟩

/-- a failing reference run -/
theorem serr_of {α} {o : Spec.SOut α}
    (h : (match o with | some (.err e) => e == Spec.noErr | _ => false) = true) : o = some (.err Spec.noErr) := by
  match o, h with
  | some (.err e), h => simp at h; subst h; rfl

/-- `WfSt` from its (decidable) unfolding -/
theorem wf_of {inp : List UInt8} {s : St} (h : s.rest = inp.drop s.off) : WfSt inp s := h

/-- `getFields` answered: it answered `ownFields` (a `List FieldDesc`, which has decidable equality) -/
theorem getFields_ok_of {env : Env} {e : Expr}
    (h : (match getFields env.g env.nf e with | .ok _ => true | _ => false) = true) :
    getFields env.g env.nf e = .ok (ownFields env e) := by
  unfold ownFields
  split <;> simp_all

/-! ### the running example

  ```
  @export S = first:Num { '+' rest:Num } | word:Word ;
  @string Num  = {'0'..'9'}+ ;
  @string Word = {'a'..'z'}+ ;
  ```
  two alternatives, a closure, three fields (arities Optional / Multiple / Optional), two `@string`
  rules; whitespace skipping on (so `"1 + 2"` has whitespace between tokens).  `ds`/`dn` are extra
  directives put on `S` / `Num` by the properties that need them (`@memoize`, `@position`, `@check`).
-/

def lit (c : Char) : Expr := .lit false [.chr c]
def digit : Expr := .range (.chr '0') (.chr '9')
def lower : Expr := .range (.chr 'a') (.chr 'z')

def ruleNum (dn : List Directive) : Rule :=
  ⟨.string :: dn, "Num", .choice [.seq [.closure (.choice [.seq [digit]]) true]]⟩
def ruleWord : Rule :=
  ⟨[.string], "Word", .choice [.seq [.closure (.choice [.seq [lower]]) true]]⟩
def ruleS (ds : List Directive) : Rule :=
  ⟨.export :: ds, "S",
    .choice [.seq [.field (some (.ident "first")) false "Num",
                   .closure (.choice [.seq [lit '+', .field (some (.ident "rest")) false "Num"]]) false],
             .seq [.field (some (.ident "word")) false "Word"]]⟩

def gram (ds dn : List Directive) : Grammar := ⟨[.rule (ruleS ds), .rule (ruleNum dn), .rule ruleWord]⟩

def envWith (ds dn : List Directive) (hooks : Hooks) : Env :=
  { g := gram ds dn, settings := {}, hooks := hooks, nf := 10 }

/-- the plain instance: no extra directives, default (pure) hooks -/
def env0 : Env := envWith [] [] default

/-- `"1 + 23"` (whitespace around the operator) -/
def inp1 : List UInt8 := [49, 32, 43, 32, 50, 51]
/-- `"1+"`: the closure body fails at offset 2 after `'+'` matched; the parse succeeds with 1 byte -/
def inp2 : List UInt8 := [49, 43]
/-- `"?"`: both alternatives fail at offset 0 -/
def inp3 : List UInt8 := [63]

theorem env0_pure : PureHooks env0.hooks := pure_default
theorem env0_noLeftrec : NoLeftrec env0.g := noLeftrec_of (by decide)

/-- rendering of the tree of a successful run together with the end offset -/
def show' (o : Out Val) : Option (String × Nat) :=
  match o with
  | some (.ok v s, _) => some (v.render, s.off)
  | _ => none

/-- the reported error of a failed run -/
def reported (o : Out Val) : Option PErr :=
  match o with
  | some (.err e, _) => some e
  | _ => none

/-! ### a grammar that reaches one rule twice at the same offset

  ```
  @export S = a:Num '+' b:Num | a:Num '-' b:Num | w:Word ;
  @string Num = {'0'..'9'}+ ;   (directives `dn`, e.g. `@memoize`, `@position`)
  @string Word = {'a'..'z'}+ ;
  ```
  on `"1-2"` the first alternative matches `Num` at 0 and fails on `'+'`; the second alternative asks for `Num` at
  offset 0 again – with `@memoize Num` that is a cache hit. -/

def fld (n t : String) : Expr := .field (some (.ident n)) false t

def ruleH : Rule :=
  ⟨[.export], "S",
    .choice [.seq [fld "a" "Num", lit '+', fld "b" "Num"],
             .seq [fld "a" "Num", lit '-', fld "b" "Num"],
             .seq [fld "w" "Word"]]⟩

def envH (dn : List Directive) : Env :=
  { g := ⟨[.rule ruleH, .rule (ruleNum dn), .rule ruleWord]⟩, settings := {}, hooks := default, nf := 10 }

/-- `"1-2"` -/
def inpH : List UInt8 := [49, 45, 50]

/-- number of `Cache hit` messages in a log -/
def hits (l : List Ev) : Nat := (l.filter fun e => match e with | .info "Cache hit" => true | _ => false).length

/-- number of body evaluations of `(name, off)` recorded in a log -/
def bodyEvals (l : List Ev) (name : String) (off : Nat) : Nat :=
  (l.filter fun e => match e with | .bodyEval n o => n == name && o == off | _ => false).length

end Peg.NV
